import TorchDataVerif.Proofs.NodesBuf
/-! `buffered_good`: tokens + "next epoch" agreement form a `Good` witness. -/
namespace TDV.Node
section
variable {src : Node} {Rs : Run src → Run src → Prop}

def BT (Rs : Run src → Run src → Prop) (sf : Nat) (t1 t2 : src.S × Nat) : Prop :=
  ∀ r1 r2, V src r1 → V src r2 → BCore Rs sf (bload src sf r1 t1) (bload src sf r2 t2)

/-- After one more `next()`, `reset()` of the two source runs starts the same epoch. -/
def NE (Rs : Run src → Run src → Prop) (w1 w2 : Run src) : Prop :=
  Rs (src.rreset (src.rnext w1).2 none) (src.rreset (src.rnext w2).2 none)

theorem BT.symm (g : Good src Rs) {sf : Nat} {t1 t2 : src.S × Nat} (h : BT Rs sf t1 t2) : BT Rs sf t2 t1 :=
  fun r1 r2 h1 h2 => BCore.symm g (h r2 r1 h2 h1)

theorem BT.trans (g : Good src Rs) {sf : Nat} {t1 t2 t3 : src.S × Nat} (h : BT Rs sf t1 t2) (k : BT Rs sf t2 t3) :
    BT Rs sf t1 t3 :=
  fun r1 r2 h1 h2 => BCore.trans g (h r1 src.rfresh h1 (Or.inr rfl)) (k src.rfresh r2 (Or.inr rfl) h2)

theorem NE.next (g : Good src Rs) {w : Run src} (h : src.Reach w) : NE Rs (src.rnext w).2 w :=
  g.nr _ (Node.Reach.next h) rfl

theorem NE.get (g : Good src Rs) {w : Run src} (h : src.Reach w) : NE Rs (src.rget w).2 w :=
  g.resetNone _ _ (g.next _ _ (g.l1 w h)).2 rfl rfl

theorem NE.refl (g : Good src Rs) {w : Run src} (h : src.Reach w) : NE Rs w w :=
  g.refl _ (Node.Reach.resetNone (Node.Reach.next h))

theorem NE.of_rel (g : Good src Rs) {w1 w2 : Run src} (h : Rs w1 w2) : NE Rs w1 w2 :=
  g.resetNone _ _ (g.next _ _ h).2 rfl rfl

/-- With both runs driven, `NE` is agreement of the next epoch itself. -/
theorem NE.epoch (g : Good src Rs) {w1 w2 : Run src} (h : NE Rs w1 w2) (h1 : src.Reach w1) (h2 : src.Reach w2)
    (n1 : w1.nexted = true) (n2 : w2.nexted = true) : Rs (src.rreset w1 none) (src.rreset w2 none) :=
  g.trans _ _ _ (g.symm _ _ (g.nr w1 h1 n1)) (g.trans _ _ _ h (g.nr w2 h2 n2))

/-- The source run of the buffered node evolves within one epoch. -/
theorem bufNext_NE (g : Good src Rs) (sf : Nat) (x : BufSt src) (hr : src.Reach x.inner) :
    NE Rs (bufNext src sf x).2.inner x.inner := by
  by_cases hb : x.bad = true
  · have e : bufNext src sf x = (.error errBad, x) := by simp [bufNext, hb]
    rw [e]; exact NE.refl g hr
  · have hb' : x.bad = false := by simpa using hb
    cases hd : x.done with
    | true => rw [bufNext_done sf x hb' hd]; exact NE.refl g hr
    | false =>
      have hn := Node.Reach.next hr
      have n1 := NE.next g hr
      rcases hx : src.rnext x.inner with ⟨o, r'⟩
      rw [hx] at hn n1
      cases o with
      | item v =>
        by_cases hc : sf > 0 ∧ (x.yielded + 1) % sf = 0
        · rw [bufNext_snap sf x hb' hd v r' hx hc]
          exact g.trans _ _ _ (NE.get g hn) n1
        · rw [bufNext_plain sf x hb' hd v r' hx hc]; exact n1
      | stop => rw [bufNext_stop sf x hb' hd r' hx]; exact n1
      | error e => rw [bufNext_err sf x hb' hd e r' hx]; exact n1

/-- Tokens and next epochs of freshly reset nodes over related source runs. -/
theorem bfresh_rel (g : Good src Rs) (sf : Nat) {ra rb : Run src} (h : Rs ra rb) :
    BT Rs sf ((src.rget ra).1, 0) ((src.rget rb).1, 0) ∧ NE Rs (src.rget ra).2 (src.rget rb).2 := by
  refine ⟨?_, NE.of_rel g (g.get h)⟩
  intro r1 r2 h1 h2
  have a1 := bstart_cur g (g.reach _ _ h) h1
  have a2 := bstart_cur g (g.reach' h) h2
  exact bstart_congr g sf (g.trans _ _ _ a1 (g.trans _ _ _ (g.get h) (g.symm _ _ a2)))

/-- Loads of one legitimate token into two runs. -/
theorem BT.refl_tok (g : Good src Rs) (sf : Nat) (c : src.S) (hc : Legit src c) (k : Nat)
    (hbad : ∃ r, V src r ∧ (bload src sf r (c, k)).bad = false) : BT Rs sf (c, k) (c, k) := by
  obtain ⟨r0, hv0, hb0⟩ := hbad
  intro r1 r2 h1 h2
  have c10 : BCore Rs sf (bufStart src (src.rreset r1 (some c))) (bufStart src (src.rreset r0 (some c))) :=
    bstart_congr g sf (g.get (tok_rel g hc h1 hv0))
  have c20 : BCore Rs sf (bufStart src (src.rreset r2 (some c))) (bufStart src (src.rreset r0 (some c))) :=
    bstart_congr g sf (g.get (tok_rel g hc h2 hv0))
  have f1 := bufFF_congr g sf k _ _ c10
  have f2 := bufFF_congr g sf k _ _ c20
  exact BCore.trans g (f1.2 (f1.1.trans hb0)) (BCore.symm g (f2.2 (f2.1.trans hb0)))

theorem binv_tok_refl (g : Good src Rs) (sf : Nat) (x : BufSt src) (h : BInvS Rs sf x) :
    BT Rs sf (btok x) (btok x) := by
  obtain ⟨hb, hi, ⟨c, hc⟩, hst, hsim⟩ := h
  rw [btok_some x c hc]
  refine BT.refl_tok g sf c (hi.2 c hc) x.steps ⟨src.rfresh, Or.inr rfl, ?_⟩
  have := hsim src.rfresh (Or.inr rfl)
  rw [btok_some x c hc] at this
  rcases this with h | h
  · exact h.2.2.2.2.1
  · exact h.2.2.1

/-- States that are not `done` are directly related to what their token loads to. -/
theorem binv_dir (sf : Nat) (x : BufSt src) (h : BInvS Rs sf x) (hd : x.done = false) (r : Run src) (hv : V src r) :
    BCore Rs sf (bload src sf r (btok x)) x := by
  rcases h.2.2.2.2 r hv with h | h
  · exact h
  · rw [hd] at h; cases h.1

theorem bsim_out (g : Good src Rs) (sf : Nat) {x n : BufSt src} (h : BSim Rs sf x n) :
    (bufNext src sf x).1 = (bufNext src sf n).1 := by
  rcases h with h | ⟨hdx, hdn, hbn, hbx, _, _, hs, _⟩
  · exact (bufNext_congr g sf h).1.symm
  · rw [bufNext_done sf x hbx hdx]
    rcases hx : src.rnext n.inner with ⟨o, r'⟩
    rw [hx] at hs
    simp only at hs
    subst hs
    rw [bufNext_stop sf n hbn hdn r' hx]

/-- Next-epoch agreement between a state and a stand-in. -/
theorem bsim_NE (g : Good src Rs) (sf : Nat) {x n : BufSt src} (h : BSim Rs sf x n) (hr : src.Reach x.inner)
    (hdn : x.done = true → x.inner.nexted = true) : NE Rs n.inner x.inner := by
  rcases h with h | ⟨hdx, _, _, _, _, _, _, hrel⟩
  · exact NE.of_rel g h.1
  · have h1 : Rs (src.rreset (src.rnext n.inner).2 none) (src.rreset x.inner none) :=
      g.resetNone _ _ hrel rfl (hdn hdx)
    exact g.trans _ _ _ h1 (g.symm _ _ (g.nr _ hr (hdn hdx)))

/-! ### ghost bits -/

def BNxP (x : BufSt src) : Prop := x.inner.nexted = false → x.done = false

theorem bufNext_nexted (sf : Nat) (x : BufSt src) (hP : BNxP x) (hb : x.bad = false) :
    (bufNext src sf x).2.inner.nexted = true := by
  cases hd : x.done with
  | true =>
    rw [bufNext_done sf x hb hd]
    cases hi : x.inner.nexted with
    | true => rfl
    | false => have := hP hi; rw [hd] at this; cases this
  | false =>
    rcases hx : src.rnext x.inner with ⟨o, r'⟩
    have hn : r'.nexted = true := by
      have : (src.rnext x.inner).2.nexted = true := rfl
      rw [hx] at this; exact this
    cases o with
    | item v =>
      by_cases hc : sf > 0 ∧ (x.yielded + 1) % sf = 0
      · rw [bufNext_snap sf x hb hd v r' hx hc]; exact hn
      · rw [bufNext_plain sf x hb hd v r' hx hc]; exact hn
    | stop => rw [bufNext_stop sf x hb hd r' hx]; exact hn
    | error e => rw [bufNext_err sf x hb hd e r' hx]; exact hn

theorem bufNext_P (sf : Nat) (x : BufSt src) (hP : BNxP x) : BNxP (bufNext src sf x).2 := by
  by_cases hb : x.bad = true
  · have e : bufNext src sf x = (.error errBad, x) := by simp [bufNext, hb]
    rw [e]; exact hP
  · have hb' : x.bad = false := by simpa using hb
    intro h
    rw [bufNext_nexted sf x hP hb'] at h
    cases h

theorem bufFF_P (sf : Nat) (k : Nat) : ∀ x : BufSt src, BNxP x → BNxP (bufFF src sf k x) := by
  induction k with
  | zero => intro x h; exact h
  | succ k ih =>
    intro x h
    have hn := bufNext_P sf x h
    rcases hx : bufNext src sf x with ⟨o, x'⟩
    rw [hx] at hn
    cases o with
    | item v => simp only [bufFF, hx]; exact ih x' hn
    | stop => simp only [bufFF, hx]; exact hn
    | error e => simp only [bufFF, hx]; exact hn

theorem bload_P (sf : Nat) (r : Run src) (t : src.S × Nat) : BNxP (bload src sf r t) :=
  bufFF_P sf _ _ (fun _ => rfl)

def BNx (sf : Nat) (R : Run (buffered sf src)) : Prop :=
  (R.st : BufSt src).inner.nexted = false → (R.st : BufSt src).done = false ∧ R.nexted = false

theorem buffered_bnx (g : Good src Rs) (he : ErrFree src) (sf : Nat) (R : Run (buffered sf src))
    (h : (buffered sf src).Reach R) : BNx sf R := by
  induction h with
  | initNone => intro _; exact ⟨rfl, rfl⟩
  | @initSome r' _ _ =>
    intro hn
    have e : ((buffered sf src).rreset (buffered sf src).rfresh (some ((buffered sf src).rget r').1)).st =
        bload src sf src.rfresh (btok (r'.st : BufSt src)) := bufReset_some sf _ _
    rw [e] at hn ⊢
    exact ⟨bload_P sf _ _ hn, rfl⟩
  | @next r hr ih =>
    intro hn
    exfalso
    have inv := buffered_binv g he sf r hr
    have : (bufNext src sf (r.st : BufSt src)).2.inner.nexted = true :=
      bufNext_nexted sf _ (fun h => (ih h).1) inv.1
    have hn' : (bufNext src sf (r.st : BufSt src)).2.inner.nexted = false := hn
    rw [this] at hn'; cases hn'
  | @get r hr ih =>
    obtain ⟨c, hc⟩ := (buffered_binv g he sf r hr).2.2.1
    intro hn
    have e : ((buffered sf src).rget r).2.st = (bufGet src (r.st : BufSt src)).2 := rfl
    rw [e, bufGet_some _ c hc] at hn ⊢
    exact ih hn
  | resetNone _ _ => intro _; exact ⟨rfl, rfl⟩
  | @resetSome r r' _ _ _ _ =>
    intro hn
    have e : ((buffered sf src).rreset r (some ((buffered sf src).rget r').1)).st =
        bload src sf (r.st : BufSt src).inner (btok (r'.st : BufSt src)) := bufReset_some sf _ _
    rw [e] at hn ⊢
    exact ⟨bload_P sf _ _ hn, rfl⟩

/-- Shape of a loaded state (no snapshot is taken during the fast-forward of a legitimate token). -/
theorem bload_shape (sf : Nat) (s : BufSt src) (hs : BInvS Rs sf s) (c : src.S) (hc : s.snap = some c)
    (r0 : Run src) (hv : V src r0) :
    btok (bload src sf r0 (btok s)) = ((src.rget (src.rreset r0 (some c))).1, s.steps) ∧
    (bload src sf r0 (btok s)).bad = false := by
  obtain ⟨hb, hi, _, hst, hsim⟩ := hs
  have ht : btok s = (c, s.steps) := btok_some s c hc
  have hbad : (bload src sf r0 (btok s)).bad = false := by
    rcases hsim r0 hv with h | h
    · exact h.2.2.2.2.1
    · exact h.2.2.1
  rw [ht] at hbad ⊢
  have hns : ∀ i, i < s.steps → ¬ (sf > 0 ∧ ((bufStart src (src.rreset r0 (some c))).yielded + i + 1) % sf = 0) := by
    intro i hi' ⟨hpos, hm⟩
    have hlt : s.steps < sf := by rw [hst]; exact Nat.mod_lt _ hpos
    have e : (bufStart src (src.rreset r0 (some c))).yielded + i + 1 = i + 1 := by show 0 + i + 1 = i + 1; omega
    rw [e, Nat.mod_eq_of_lt (by omega)] at hm
    cases hm
  have ns := bufFF_nosnap sf s.steps (bufStart src (src.rreset r0 (some c))) rfl rfl hns hbad
  have hsnap : (bload src sf r0 (c, s.steps)).snap = some (src.rget (src.rreset r0 (some c))).1 := ns.1
  have hsteps : (bload src sf r0 (c, s.steps)).steps = s.steps := by
    have := ns.2.1; simp only [bufStart, Nat.zero_add] at this; exact this
  exact ⟨by rw [btok_some _ _ hsnap, hsteps], hbad⟩

/-- Loading a token and taking the token again gives an equivalent token. -/
theorem BT.load (g : Good src Rs) (sf : Nat) (s : BufSt src) (hs : BInvS Rs sf s) (r0 : Run src) (hv : V src r0) :
    BT Rs sf (btok (bload src sf r0 (btok s))) (btok s) := by
  obtain ⟨c, hc⟩ := hs.2.2.1
  have hl : Legit src c := hs.2.1.2 c hc
  have sh := bload_shape sf s hs c hc r0 hv
  rw [sh.1]
  intro r1 r2 h1 h2
  have sh2 := (bload_shape sf s hs c hc r2 h2).2
  rw [btok_some s c hc] at sh2 ⊢
  have hA := V.reset c hl hv
  have c12 : BCore Rs sf (bufStart src (src.rreset r1 (some (src.rget (src.rreset r0 (some c))).1)))
      (bufStart src (src.rreset r2 (some c))) :=
    bstart_congr g sf (g.trans _ _ _ (bstart_cur g hA h1) (g.get (tok_rel g hl hv h2)))
  have f := bufFF_congr g sf s.steps _ _ c12
  exact f.2 (f.1.trans sh2)

def bufR (sf : Nat) (src : Node) (Rs : Run src → Run src → Prop) (a b : Run (buffered sf src)) : Prop :=
  (buffered sf src).Reach a ∧ (buffered sf src).Reach b ∧
  BT Rs sf (btok (a.st : BufSt src)) (btok (b.st : BufSt src)) ∧
  NE Rs (a.st : BufSt src).inner (b.st : BufSt src).inner

theorem buf_inner_nexted (g : Good src Rs) (he : ErrFree src) (sf : Nat) (a : Run (buffered sf src))
    (ha : (buffered sf src).Reach a) (hn : a.nexted = true) : (a.st : BufSt src).inner.nexted = true := by
  have := buffered_bnx g he sf a ha
  cases hi : (a.st : BufSt src).inner.nexted with
  | true => rfl
  | false => have := (this hi).2; rw [hn] at this; cases this

theorem buf_done_nexted (g : Good src Rs) (he : ErrFree src) (sf : Nat) (a : Run (buffered sf src))
    (ha : (buffered sf src).Reach a) (hd : (a.st : BufSt src).done = true) : (a.st : BufSt src).inner.nexted = true := by
  have := buffered_bnx g he sf a ha
  cases hi : (a.st : BufSt src).inner.nexted with
  | true => rfl
  | false => have := (this hi).1; rw [hd] at this; cases this

theorem buffered_good (g : Good src Rs) (he : ErrFree src) (sf : Nat) : Good (buffered sf src) (bufR sf src Rs) where
  symm := fun a b ⟨h1, h2, h3, h4⟩ => ⟨h2, h1, BT.symm g h3, g.symm _ _ h4⟩
  trans := fun a b c ⟨h1, _, h3, h4⟩ ⟨_, k2, k3, k4⟩ => ⟨h1, k2, BT.trans g h3 k3, g.trans _ _ _ h4 k4⟩
  reach := fun a b h => h.1
  refl := fun s h =>
    have is := buffered_binv g he sf s h
    ⟨h, h, binv_tok_refl g sf _ is, NE.refl g is.2.1.1⟩
  next := by
    rintro a b ⟨ha, hb, ht, hne⟩
    have ia := buffered_binv g he sf a ha
    have ib := buffered_binv g he sf b hb
    have hv : V src src.rfresh := Or.inr rfl
    have cab := ht _ _ hv hv
    have oa := bsim_out g sf (ia.2.2.2.2 _ hv)
    have ob := bsim_out g sf (ib.2.2.2.2 _ hv)
    have oc := (bufNext_congr g sf cab).1
    have hout : (bufNext src sf (a.st : BufSt src)).1 = (bufNext src sf (b.st : BufSt src)).1 :=
      oa.trans (oc.trans ob.symm)
    have na := binv_next g he sf _ ia
    have nb := binv_next g he sf _ ib
    have hne' : NE Rs (bufNext src sf (a.st : BufSt src)).2.inner (bufNext src sf (b.st : BufSt src)).2.inner :=
      g.trans _ _ _ (bufNext_NE g sf _ ia.2.1.1) (g.trans _ _ _ hne (g.symm _ _ (bufNext_NE g sf _ ib.2.1.1)))
    refine ⟨hout, Node.Reach.next ha, Node.Reach.next hb, ?_, hne'⟩
    show BT Rs sf (btok (bufNext src sf (a.st : BufSt src)).2) (btok (bufNext src sf (b.st : BufSt src)).2)
    cases hoa : (bufNext src sf (a.st : BufSt src)).1 with
    | item v =>
      have hob : (bufNext src sf (b.st : BufSt src)).1 = .item v := hout ▸ hoa
      have da := binv_dir sf _ ia (na.2.2.1 v hoa).1 _ hv
      have db := binv_dir sf _ ib (nb.2.2.1 v hob).1 _ hv
      have cc := (bufNext_congr g sf (BCore.trans g (BCore.symm g da) (BCore.trans g cab db))).2
      intro r1 r2 h1 h2
      exact BCore.trans g (binv_dir sf _ na.1 (na.2.2.1 v hoa).2 r1 h1)
        (BCore.trans g cc (BCore.symm g (binv_dir sf _ nb.1 (nb.2.2.1 v hob).2 r2 h2)))
    | stop =>
      have hob : (bufNext src sf (b.st : BufSt src)).1 = .stop := hout ▸ hoa
      rw [(na.2.1 hoa).1, (nb.2.1 hob).1]
      exact ht
    | error e => exact absurd hoa (na.2.2.2 e)
  resetNone := by
    rintro a b ⟨ha, hb, _, hne⟩ n1 n2
    have ia := buffered_binv g he sf a ha
    have ib := buffered_binv g he sf b hb
    have hr := NE.epoch g hne ia.2.1.1 ib.2.1.1 (buf_inner_nexted g he sf a ha n1) (buf_inner_nexted g he sf b hb n2)
    have fr := bfresh_rel g sf hr
    exact ⟨Node.Reach.resetNone ha, Node.Reach.resetNone hb, fr.1, fr.2⟩
  l1 := by
    intro s hs
    have is := buffered_binv g he sf s hs
    obtain ⟨c, hc⟩ := is.2.2.1
    have e : ((buffered sf src).rget s).2.st = (s.st : BufSt src) := bufGet_some _ c hc
    refine ⟨Node.Reach.get hs, hs, ?_, ?_⟩
    · rw [e]; exact binv_tok_refl g sf _ is
    · rw [e]; exact NE.refl g is.2.1.1
  l2 := by
    intro s r hs hr
    have is := buffered_binv g he sf s hs
    have ir := buffered_binv g he sf r hr
    obtain ⟨c, hc⟩ := is.2.2.1
    have e : ((buffered sf src).rget s).2.st = (s.st : BufSt src) := bufGet_some _ c hc
    have e2 : ((buffered sf src).rreset r (some ((buffered sf src).rget s).1)).st =
        bload src sf (r.st : BufSt src).inner (btok (s.st : BufSt src)) := bufReset_some sf _ _
    have hv : V src (r.st : BufSt src).inner := Or.inl ir.2.1.1
    refine ⟨Node.Reach.resetSome hr hs, Node.Reach.get hs, ?_, ?_⟩
    · rw [e, e2]; exact BT.load g sf _ is _ hv
    · rw [e, e2]
      exact bsim_NE g sf (is.2.2.2.2 _ hv) is.2.1.1 (buf_done_nexted g he sf s hs)
  l2f := by
    intro s hs
    have is := buffered_binv g he sf s hs
    obtain ⟨c, hc⟩ := is.2.2.1
    have e : ((buffered sf src).rget s).2.st = (s.st : BufSt src) := bufGet_some _ c hc
    have e2 : ((buffered sf src).rreset (buffered sf src).rfresh (some ((buffered sf src).rget s).1)).st =
        bload src sf src.rfresh (btok (s.st : BufSt src)) := bufReset_some sf _ _
    have hv : V src src.rfresh := Or.inr rfl
    refine ⟨Node.Reach.initSome hs, Node.Reach.get hs, ?_, ?_⟩
    · rw [e, e2]; exact BT.load g sf _ is _ hv
    · rw [e, e2]
      exact bsim_NE g sf (is.2.2.2.2 _ hv) is.2.1.1 (buf_done_nexted g he sf s hs)
  nr := by
    intro s hs ns
    have is := buffered_binv g he sf s hs
    have is1 := buffered_binv g he sf _ (Node.Reach.next hs)
    have hn := buf_inner_nexted g he sf s hs ns
    have hn1 : (bufNext src sf (s.st : BufSt src)).2.inner.nexted = true :=
      bufNext_nexted sf _ (fun h => by rw [hn] at h; cases h) is.1
    have hr := NE.epoch g (bufNext_NE g sf _ is.2.1.1) is1.2.1.1 is.2.1.1 hn1 hn
    have fr := bfresh_rel g sf hr
    exact ⟨Node.Reach.resetNone (Node.Reach.next hs), Node.Reach.resetNone hs, fr.1, fr.2⟩
  stopIdem := by
    intro s hs h
    have is := buffered_binv g he sf s hs
    have hs1 := Node.Reach.next hs
    have is1 := buffered_binv g he sf _ hs1
    have hstop : (bufNext src sf (s.st : BufSt src)).1 = .stop := h
    have hd1 : (bufNext src sf (s.st : BufSt src)).2.done = true := ((binv_next g he sf _ is).2.1 hstop).2
    have e : bufNext src sf (bufNext src sf (s.st : BufSt src)).2 = (.stop, (bufNext src sf (s.st : BufSt src)).2) :=
      bufNext_done sf _ is1.1 hd1
    have hs2 := Node.Reach.next hs1
    refine ⟨?_, hs2, hs1, ?_, ?_⟩
    · show (bufNext src sf (bufNext src sf (s.st : BufSt src)).2).1 = .stop
      rw [e]
    · show BT Rs sf (btok (bufNext src sf (bufNext src sf (s.st : BufSt src)).2).2) (btok (bufNext src sf (s.st : BufSt src)).2)
      rw [e]; exact binv_tok_refl g sf _ is1
    · show NE Rs (bufNext src sf (bufNext src sf (s.st : BufSt src)).2).2.inner (bufNext src sf (s.st : BufSt src)).2.inner
      rw [e]; exact NE.refl g is1.2.1.1

end
end TDV.Node
