import TorchDataVerif.Proofs.MPRLift
import TorchDataVerif.Proofs.MPRSound
/-!
# MPR, map-style: the restore constructor applied to an ideal state

`restore c (idealAt c m)`, with its task indices shifted by `m` and the first `m` observations put back
(`lift m pre`), satisfies every invariant of the original map-style development (`AllM`): the restored
iterator *is* the original protocol after `m` consumed tasks with nothing in flight and `W·P` tasks freshly
dispatched.  Everything proved from those invariants therefore holds for every schedule of the resumed run.
-/
namespace TDV.MPR

open TDV.MP

/-! ## small facts -/

theorem restoreWorkers_length (c : Cfg) (ws : List WSt) (n : Nat) : (restoreWorkers c ws n).length = n := by
  induction n with
  | zero => rfl
  | succ n ih => simp [restoreWorkers, ih]

theorem restoreWorkers_get (c : Cfg) (ws : List WSt) (n w : Nat) (hw : w < n) :
    (restoreWorkers c ws n)[w]? = some (restoreWorker c w ws[w]?) := by
  induction n with
  | zero => omega
  | succ n ih =>
    simp only [restoreWorkers]
    by_cases h : w < n
    · rw [List.getElem?_append_left (by rw [restoreWorkers_length]; exact h)]
      exact ih h
    · have : w = n := by omega
      subst this
      rw [List.getElem?_append_right (by rw [restoreWorkers_length]; exact Nat.le_refl _)]
      simp [restoreWorkers_length]

theorem taskObs_map_expected (l : List Item) : taskObs (l.map expected) = l.map expected := by
  induction l with
  | nil => rfl
  | cons x l ih => cases x <;> simp [expected, taskObs, ih]

theorem ObsRel_map_expected (l : List Item) : ObsRel l (l.map expected) := by
  induction l with
  | nil => exact trivial
  | cons x l ih =>
    refine ⟨?_, ih⟩
    cases x with
    | ok b => exact Or.inl rfl
    | err => rfl

theorem oks_length_errFree (l : List Item) (he : ∀ it ∈ l, it ≠ Item.err) : (oks l).length = l.length := by
  induction l with
  | nil => rfl
  | cons x l ih =>
    cases x with
    | err => exact absurd rfl (he _ (List.mem_cons_self ..))
    | ok b => simp [oks, ih (fun it h => he it (List.mem_cons_of_mem _ h))]

theorem not_mem_map_expected (l : List Item) (o : Obs) (ho : ∀ it, expected it ≠ o) : o ∉ l.map expected := by
  intro h
  obtain ⟨it, _, hit⟩ := List.mem_map.mp h
  exact ho it hit

theorem cyc_after (W m : Nat) (hW : 0 < W) :
    ((if m = 0 then W - 1 else (m - 1) % W) + 1) % W = m % W := by
  by_cases h : m = 0
  · subst h
    simp only [if_true]
    have : W - 1 + 1 = W := by omega
    rw [this, Nat.mod_self, Nat.zero_mod]
  · simp only [h, if_false]
    rw [Nat.mod_add_mod]
    congr 1; omega

/-! ## the state before the priming loop, shifted -/

/-- The ideal map-style snapshot in closed form (`idealAt_map`). -/
def idealMap (c : Cfg) (m : Nat) : Snap := ⟨m, if m = 0 then c.W - 1 else (m - 1) % c.W, m, wsIdeal c.W m⟩

/-- What the consumer saw for the first `m` tasks. -/
def preObs (c : Cfg) (m : Nat) : List Obs := (c.batches.take m).map expected

/-- `restoreBase` with absolute task indices. -/
def base (c : Cfg) (m : Nat) : State := lift m (preObs c m) (restoreBase c (idealMap c m))

theorem base_worker (c : Cfg) (m w : Nat) (k : Worker) (hW : 0 < c.W) (he : errFree c) (hle : m ≤ c.batches.length)
    (hk : (base c m).workers[w]? = some k) :
    w < c.W ∧ ∃ j, NextAt c.W m w j ∧ k = ⟨[], j, false, true⟩ := by
  have e : (base c m).workers = (restoreWorkers c (wsIdeal c.W m) c.W).map (liftWorker m) := rfl
  rw [e, List.getElem?_map] at hk
  have hw : w < c.W := by
    by_cases h : w < c.W
    · exact h
    · rw [List.getElem?_eq_none (by rw [restoreWorkers_length]; omega)] at hk
      cases hk
  refine ⟨hw, ?_⟩
  obtain ⟨j, hn, hi, _⟩ := wsRel_all c hW he m hle w hw
  refine ⟨j, hn, ?_⟩
  rw [restoreWorkers_get c _ c.W w hw, hi] at hk
  simp only [Option.map_some, Option.some.injEq] at hk
  rw [← hk]
  rfl

theorem base_mid (c : Cfg) (m : Nat) (hv : c.Valid) (he : errFree c) (hle : m ≤ c.batches.length) :
    MidM c (base c m) := by
  refine ⟨rfl, ?_, ?_, ?_, ?_, trivial, ?_, ?_, ?_⟩
  · show m = 0 + m
    omega
  · show 0 + m ≤ c.batches.length
    omega
  · show ((if m = 0 then c.W - 1 else (m - 1) % c.W) + 1) % c.W = (0 + m) % c.W
    rw [cyc_after c.W m hv.1, Nat.zero_add]
  · show 0 + m + ([].map (liftInfo m)).length = 0 + m
    simp
  · show ((restoreWorkers c (wsIdeal c.W m) c.W).map (liftWorker m)).length = c.W
    simp [restoreWorkers_length]
  · intro w k hk msg hmem
    obtain ⟨_, j, _, hkj⟩ := base_worker c m w k hv.1 he hle hk
    rw [hkj] at hmem
    cases hmem
  · intro r hr
    cases hr

theorem base_pos (c : Cfg) (m : Nat) (hv : c.Valid) (he : errFree c) (hle : m ≤ c.batches.length) :
    PosM c (base c m) := by
  refine ⟨?_, ?_, ?_⟩
  · intro w k hk
    obtain ⟨_, j, hn, hkj⟩ := base_worker c m w k hv.1 he hle hk
    subst hkj
    unfold NextAt at hn
    have e : (base c m).sendIdx = 0 + m := rfl
    refine ⟨trivial, ?_, ?_, ?_, rfl⟩
    · simp only [taskIdxs, List.length_nil, Nat.add_zero, e, Nat.zero_add]; exact hn.1
    · simp only [taskIdxs, List.length_nil, Nat.add_zero, e, Nat.zero_add]; exact hn.2
    · intro msg hmem; cases hmem
  · intro r hr; cases hr
  · intro e he'; cases he'

theorem prime_ms_lo (c : Cfg) (n : Nat) (s : State) (lo : Nat) (hv : c.Valid) (hm : c.iterable = false)
    (hio : c.inOrder = true) (h : MidM c s) (hms : s.mainSnaps = snapListN c lo (s.sendIdx - lo))
    (hlo : lo ≤ s.sendIdx) :
    (prime c n s).mainSnaps = snapListN c lo ((prime c n s).sendIdx - lo) := by
  induction n generalizing s with
  | zero => exact hms
  | succ n ih =>
    unfold prime
    obtain ⟨h1, h2⟩ := tryPut_ms c s lo hv hm hio h hms hlo
    exact ih _ (MidM_tryPut c s hv hm hio h).1 h1 (by omega)

/-- The restored iterator with absolute task indices and the first `m` observations put back. -/
def lifted (c : Cfg) (m : Nat) : State := lift m (preObs c m) (restore c (idealMap c m))

theorem lifted_eq (c : Cfg) (m : Nat) : lifted c m = prime c (c.P * c.W) (base c m) :=
  (prime_lift c m (preObs c m) (c.P * c.W) (restoreBase c (idealMap c m))).symm

theorem preObs_yields (c : Cfg) (m : Nat) (he : errFree c) (hle : m ≤ c.batches.length) :
    (yields (preObs c m)).length = m := by
  unfold preObs
  rw [yields_map_expected, oks_length_errFree _ (fun it h => he it (List.mem_of_mem_take h)), List.length_take]
  exact Nat.min_eq_left hle

theorem lifted_allM (c : Cfg) (m : Nat) (hv : c.Valid) (hm : c.iterable = false) (hio : c.inOrder = true)
    (he : errFree c) (hle : m ≤ c.batches.length) (hs : SnapStep c m) : AllM c (lifted c m) := by
  rw [lifted_eq]
  have hmid0 := base_mid c m hv he hle
  have hpos0 := base_pos c m hv he hle
  have hpw : 0 < c.P * c.W := Nat.mul_pos hv.2 hv.1
  obtain ⟨h1, h2⟩ := MidM_prime c (c.P * c.W) (base c m) hv hm hio hmid0
  have hc := prime_sameCore c (c.P * c.W) (base c m)
  have e1 : (base c m).rcvdIdx = 0 + m := rfl
  have e2 : (base c m).obs = preObs c m ++ [] := rfl
  have e3 : (base c m).phase = .idle := rfl
  have e4 : (base c m).shutdown = false := rfl
  have e5 : (base c m).sendIdx = 0 + m := rfl
  have e6 : (base c m).numYielded = m := rfl
  have e7 : (base c m).snap = ⟨m, if m = 0 then c.W - 1 else (m - 1) % c.W, m, wsIdeal c.W m⟩ := rfl
  have e8 : (base c m).wsnaps = wsIdeal c.W m := rfl
  have e9 : (base c m).mainSnaps = [] := rfl
  have hb := wsAfter_boundary c hv.1 hm he m hle hs
  have hld : lastDue c m = m := by
    cases m with
    | zero => rfl
    | succ k =>
      have h0 : c.interval ≠ 0 := fun h0 => by have := hs.1 h0; omega
      have hmf : mflag c k = true := by simp [mflag, h0, Nat.mod_eq_zero_of_dvd (hs.2 h0)]
      rw [lastDue]; simp [hmf, okAt_errFree c he k (by omega)]
  have hok : okCount c m = m := okCount_errFree c he m hle
  refine ⟨⟨?_, ?_, ?_, fun _ => h1, ?_, ?_⟩, ⟨?_, ?_, ?_, ?_, ?_, ?_, ?_, ?_⟩, ⟨fun _ => ?_, ?_⟩, ?_⟩
  · rw [hc.rcvdIdx, hc.obs, e1, e2, Nat.zero_add, List.append_nil]
    unfold preObs
    rw [taskObs_map_expected]
    exact ObsRel_map_expected _
  · intro k; rw [hc.phase, e3]; simp
  · intro hf; rw [hc.shutdown, e4] at hf; cases hf
  · intro _
    rcases h2 hpw with h2 | h2
    · exact Or.inl h2
    · right; rw [hc.rcvdIdx, e1]; rw [e5] at h2; exact h2
  · intro hf
    rw [hc.obs, e2, List.append_nil] at hf
    exact absurd hf (not_mem_map_expected _ _ (fun it => by cases it <;> simp [expected]))
  · rw [hc.numYielded, hc.obs, e2, e6, List.append_nil, preObs_yields c m he hle]
  · refine ⟨0 + m, by rw [hc.rcvdIdx, e1]; exact Nat.le_refl _, ?_⟩
    apply prime_ms_lo c _ _ _ hv hm hio hmid0
    · rw [e9, e5, Nat.sub_self]; rfl
    · rw [e5]; exact Nat.le_refl _
  · rw [hc.rcvdIdx, e1, Nat.zero_add]; exact hle
  · rw [hc.numYielded, hc.rcvdIdx, e1, e6, Nat.zero_add, hok]
  · rw [hc.obs, e2, List.append_nil]
    exact not_mem_map_expected _ _ (fun it => by cases it <;> simp [expected])
  · rw [hc.snap, hc.rcvdIdx, e1, e7, Nat.zero_add, hld]
  · rw [hc.snap, e7]; simp only; rw [hok]
  · rw [hc.snap, e7]
  · exact prime_pos c _ _ hv hm hio hmid0 hpos0
  · rw [hc.wsnaps, hc.rcvdIdx, e1, e8, Nat.zero_add, hb]
  · rw [hc.snap, e7]; simp only; rw [hb]

end TDV.MPR
