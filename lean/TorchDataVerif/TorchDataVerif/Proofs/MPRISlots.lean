import TorchDataVerif.Proofs.MPIterF
import TorchDataVerif.Model.MPRestore
/-!
# MPRI — the round-robin slot grid

`slots W R` lists the slots `(worker, round)` of rounds `0 … R-1` in round-robin order.  The live sequence
of an iterable configuration (`liveFrom c 0 0`, `Proofs/MPIterA.lean`) is the grid filtered by
`round ≤ shard length`; it is strictly increasing in the slot number `round·W + worker`.
-/
namespace TDV.MPRI
open TDV.MP

def roundSlots (W k : Nat) : List (Nat × Nat) := (List.range W).map (fun w => (w, k))

def slots (W : Nat) : Nat → List (Nat × Nat)
  | 0 => []
  | n + 1 => slots W n ++ roundSlots W n

/-- slot number -/
def sig (W : Nat) (p : Nat × Nat) : Nat := p.2 * W + p.1

def liveP (c : Cfg) (p : Nat × Nat) : Bool := decide (p.2 ≤ bOf c p.1)

theorem mem_roundSlots (W k : Nat) (p : Nat × Nat) : p ∈ roundSlots W k ↔ p.1 < W ∧ p.2 = k := by
  simp only [roundSlots, List.mem_map, List.mem_range]
  constructor
  · rintro ⟨w, hw, rfl⟩; exact ⟨hw, rfl⟩
  · rintro ⟨h1, h2⟩; exact ⟨p.1, h1, by rw [← h2]⟩

theorem mem_slots (W R : Nat) (p : Nat × Nat) : p ∈ slots W R ↔ p.1 < W ∧ p.2 < R := by
  induction R with
  | zero => simp [slots]
  | succ n ih =>
    simp only [slots, List.mem_append, ih, mem_roundSlots]
    constructor
    · rintro (⟨h1, h2⟩ | ⟨h1, h2⟩)
      · exact ⟨h1, by omega⟩
      · exact ⟨h1, by omega⟩
    · rintro ⟨h1, h2⟩
      by_cases h : p.2 < n
      · exact Or.inl ⟨h1, h⟩
      · exact Or.inr ⟨h1, by omega⟩

/-- strictly increasing slot numbers -/
def Sorted (W : Nat) (l : List (Nat × Nat)) : Prop := l.Pairwise (fun p q => sig W p < sig W q)

theorem roundSlots_sorted (W k : Nat) : Sorted W (roundSlots W k) := by
  unfold Sorted roundSlots
  rw [List.pairwise_map]
  have : (List.range W).Pairwise (· < ·) := List.pairwise_lt_range
  exact this.imp (fun {a b} hab => by simp only [sig]; omega)

theorem slots_sorted (W R : Nat) : Sorted W (slots W R) := by
  induction R with
  | zero => exact List.Pairwise.nil
  | succ n ih =>
    unfold Sorted at *
    simp only [slots]
    rw [List.pairwise_append]
    refine ⟨ih, roundSlots_sorted W n, ?_⟩
    intro p hp q hq
    rw [mem_slots] at hp
    rw [mem_roundSlots] at hq
    simp only [sig]
    rw [hq.2]
    have h1 : p.2 * W + W ≤ n * W := by
      have : (p.2 + 1) * W ≤ n * W := Nat.mul_le_mul_right W (by omega)
      rw [Nat.add_mul, Nat.one_mul] at this
      exact this
    omega

theorem Sorted.filter {W : Nat} {l : List (Nat × Nat)} (f : Nat × Nat → Bool) (h : Sorted W l) :
    Sorted W (l.filter f) := List.Pairwise.sublist List.filter_sublist h

theorem roundFrom_zero_eq (c : Cfg) (k : Nat) : roundFrom c k 0 = (roundSlots c.W k).filter (liveP c) := by
  unfold roundFrom roundSlots
  simp only [Nat.sub_zero]
  rw [List.filter_map, List.range_eq_range']
  congr 1

theorem laterRounds_zero_eq (c : Cfg) (n : Nat) : laterRounds c 0 n = (slots c.W n).filter (liveP c) := by
  induction n with
  | zero => rfl
  | succ n ih =>
    rw [laterRounds_snoc, ih, Nat.zero_add, roundFrom_zero_eq, slots, List.filter_append]

/-- The whole live sequence of the epoch is the filtered grid. -/
theorem live0_eq (c : Cfg) : liveFrom c 0 0 = (slots c.W (maxB c + 1)).filter (liveP c) := by
  have h1 : liveFrom c 0 0 = laterRounds c 0 (maxB c + 1) := by
    unfold liveFrom; rw [laterRounds]; rfl
  rw [h1, laterRounds_zero_eq]

theorem live0_sorted (c : Cfg) : Sorted c.W (liveFrom c 0 0) := by
  rw [live0_eq]; exact (slots_sorted _ _).filter _

theorem mem_live0 (c : Cfg) (p : Nat × Nat) : p ∈ liveFrom c 0 0 ↔ p.1 < c.W ∧ p.2 ≤ bOf c p.1 := by
  rw [live0_eq, List.mem_filter, mem_slots]
  simp only [liveP, decide_eq_true_eq]
  constructor
  · rintro ⟨⟨h1, _⟩, h2⟩; exact ⟨h1, h2⟩
  · rintro ⟨h1, h2⟩
    have := bOf_le_maxB c p.1
    exact ⟨⟨h1, by omega⟩, h2⟩

/-- More rounds than needed add nothing. -/
theorem filter_slots_ge (c : Cfg) (R : Nat) (hR : maxB c + 1 ≤ R) :
    (slots c.W R).filter (liveP c) = liveFrom c 0 0 := by
  rw [live0_eq]
  induction R with
  | zero => omega
  | succ n ih =>
    by_cases h : maxB c + 1 ≤ n
    · rw [slots, List.filter_append, ih h]
      have : (roundSlots c.W n).filter (liveP c) = [] := by
        rw [List.filter_eq_nil_iff]
        intro p hp
        rw [mem_roundSlots] at hp
        have := bOf_le_maxB c p.1
        simp only [liveP, decide_eq_true_eq]
        omega
      rw [this, List.append_nil]
    · have : n = maxB c := by omega
      subst this; rfl

end TDV.MPRI
