import TorchDataVerif.Proofs.NodesUnb
/-! `unbatcher_good`: the token relation is a `Good` witness. -/
namespace TDV.Node
section
variable {src : Node} {Rs : Run src → Run src → Prop}

/-- A state and a stand-in (`USim`) take the same `next()` step. -/
theorem unb_step (g : Good src Rs) (he : ErrFree src) (k : Nat) (x n : UnbSt src) (hx : UInvS Rs x)
    (hs : USim Rs x n) (hne : ∀ e, (unbLoop src (k + 1) x).1 ≠ .error e) :
    (unbLoop src (k + 1) x).1 = (unbLoop src (k + 1) n).1 ∧
      UCore Rs (unbLoop src (k + 1) n).2 (unbLoop src (k + 1) x).2 := by
  rcases hs with hd | ⟨hp, ha⟩
  · have := unbLoop_congr g (k + 1) n x hd
    exact ⟨this.1.symm, this.2⟩
  · obtain ⟨hb, hi, _, _⟩ := hx
    have hrg : src.Reach (src.rget x.inner).2 := Node.Reach.get hi.1
    have e1 := he _ hrg
    rcases hy : src.rnext (src.rget x.inner).2 with ⟨oy, ry⟩
    cases oy with
    | item v =>
      have e := unbLoop_pull_item k x hp v ry hy
      rw [e] at hne ⊢
      have hm := unbLoop_mono k (pull src x) (hne errFuel)
      have := unbLoop_congr g (k + 1) n (pull src x) ha
      rw [hm] at this
      exact ⟨this.1.symm, this.2⟩
    | stop =>
      have e := unbLoop_pull_stop k x hp ry hy
      rw [e]
      have hpo := pull_other x _ ry hy (fun _ h => by cases h)
      -- `n` holds nothing and its source is just past the stop
      have hpn : pend n = some [] := by rw [ha.1, hpo]; exact hp
      have hrn : Rs n.inner ry := by have := ha.2.1; rw [hpo] at this; exact this
      have hs0 : (src.rnext (src.rget x.inner).2).1 = .stop := by rw [hy]
      have si := g.stopIdem _ hrg hs0
      rw [hy] at si
      simp only at si
      have h1 : Rs (src.rget n.inner).2 ry :=
        g.trans _ _ _ (g.get hrn) (g.l1 ry (g.reach' hrn))
      have hn := g.next _ _ h1
      rcases hz : src.rnext (src.rget n.inner).2 with ⟨oz, rz⟩
      rw [hz] at hn
      simp only at hn
      have hoz : oz = .stop := hn.1.trans si.1
      subst hoz
      rw [unbLoop_pull_stop k n hpn rz hz]
      refine ⟨rfl, ?_⟩
      rw [pull_other n _ rz hz (fun _ h => by cases h), hpo]
      exact ⟨hpn.trans hp.symm, g.trans _ _ _ hn.2 si.2, ha.2.2.1, hb⟩
    | error e => exact absurd (by rw [hy]) (e1 e)

/-- `reset()` of the source from a state and from a stand-in start the same epoch. -/
theorem unb_reset_rel (g : Good src Rs) (x n : UnbSt src) (hx : UInvS Rs x) (hnx : x.inner.nexted = true)
    (hs : USim Rs x n) (hnn : n.inner.nexted = true) :
    Rs (src.rreset n.inner none) (src.rreset x.inner none) := by
  rcases hs with hd | ⟨_, ha⟩
  · exact g.resetNone _ _ hd.2.1 hnn hnx
  · obtain ⟨_, hi, _, _⟩ := hx
    have hrg : src.Reach (src.rget x.inner).2 := Node.Reach.get hi.1
    have h1 : Rs (src.rreset (src.rnext (src.rget x.inner).2).2 none) (src.rreset (src.rget x.inner).2 none) :=
      g.nr _ hrg hnx
    have h2 : Rs (src.rreset (src.rget x.inner).2 none) (src.rreset x.inner none) :=
      g.resetNone _ _ (g.l1 _ hi.1) hnx hnx
    have hpi : (pull src x).inner = (src.rnext (src.rget x.inner).2).2 := by
      rcases hy : src.rnext (src.rget x.inner).2 with ⟨oy, ry⟩
      cases oy <;> simp only [pull, hy]
    have h0 : Rs (src.rreset n.inner none) (src.rreset (pull src x).inner none) :=
      g.resetNone _ _ ha.2.1 hnn (by rw [hpi]; rfl)
    rw [hpi] at h0
    exact g.trans _ _ _ h0 (g.trans _ _ _ h1 h2)

/-- `next()` of the unbatcher does not change which epoch the source starts next. -/
theorem unbLoop_nr (g : Good src Rs) (k : Nat) : ∀ x : UnbSt src, src.Reach x.inner → x.inner.nexted = true →
    Rs (src.rreset (unbLoop src k x).2.inner none) (src.rreset x.inner none) := by
  induction k with
  | zero => intro x hr _; exact g.refl _ (Node.Reach.resetNone hr)
  | succ k ih =>
    intro x hr hn
    cases hpx : pend x with
    | none => rw [unbLoop_none k x hpx]; exact g.refl _ (Node.Reach.resetNone hr)
    | some p =>
      cases p with
      | cons v p => rw [(unbLoop_yield k x v p hpx).1]; exact g.refl _ (Node.Reach.resetNone hr)
      | nil =>
        have hrg : src.Reach (src.rget x.inner).2 := Node.Reach.get hr
        have h1 : Rs (src.rreset (src.rnext (src.rget x.inner).2).2 none) (src.rreset (src.rget x.inner).2 none) :=
          g.nr _ hrg hn
        have h2 : Rs (src.rreset (src.rget x.inner).2 none) (src.rreset x.inner none) :=
          g.resetNone _ _ (g.l1 _ hr) hn hn
        have h12 := g.trans _ _ _ h1 h2
        have hrn := Node.Reach.next hrg
        rcases hy : src.rnext (src.rget x.inner).2 with ⟨oy, ry⟩
        rw [hy] at h12 hrn
        have hny : ry.nexted = true := by
          have : (src.rnext (src.rget x.inner).2).2.nexted = true := rfl
          rw [hy] at this; exact this
        cases oy with
        | item v =>
          rw [unbLoop_pull_item k x hpx v ry hy]
          have := ih (pull src x) (by rw [pull_item x v ry hy]; exact hrn) (by rw [pull_item x v ry hy]; exact hny)
          rw [pull_item x v ry hy] at this ⊢
          exact g.trans _ _ _ this h12
        | stop =>
          rw [unbLoop_pull_stop k x hpx ry hy, pull_other x _ ry hy (fun _ h => by cases h)]; exact h12
        | error e =>
          rw [unbLoop_pull_err k x hpx e ry hy, pull_other x _ ry hy (fun _ h => by cases h)]; exact h12

/-- When `next()` stops, the unbatcher holds nothing and its source is just past a stop. -/
theorem unbLoop_stop_post (k : Nat) : ∀ x : UnbSt src, src.Reach x.inner → (unbLoop src k x).1 = .stop →
    pend (unbLoop src k x).2 = some [] ∧
    ∃ r0, src.Reach r0 ∧ (src.rnext r0).1 = .stop ∧ (unbLoop src k x).2.inner = (src.rnext r0).2 := by
  induction k with
  | zero => intro x _ h; simp [unbLoop] at h
  | succ k ih =>
    intro x hr h
    cases hpx : pend x with
    | none => rw [unbLoop_none k x hpx] at h; cases h
    | some p =>
      cases p with
      | cons v p => rw [(unbLoop_yield k x v p hpx).1] at h; cases h
      | nil =>
        have hrg : src.Reach (src.rget x.inner).2 := Node.Reach.get hr
        have hrn := Node.Reach.next hrg
        rcases hy : src.rnext (src.rget x.inner).2 with ⟨oy, ry⟩
        rw [hy] at hrn
        cases oy with
        | item v =>
          rw [unbLoop_pull_item k x hpx v ry hy] at h ⊢
          exact ih _ (by rw [pull_item x v ry hy]; exact hrn) h
        | stop =>
          rw [unbLoop_pull_stop k x hpx ry hy, pull_other x _ ry hy (fun _ h => by cases h)]
          exact ⟨hpx, (src.rget x.inner).2, hrg, by rw [hy], by rw [hy]⟩
        | error e => rw [unbLoop_pull_err k x hpx e ry hy] at h; cases h

/-! ### the token relation -/

def UT (Rs : Run src → Run src → Prop) (t1 t2 : src.S × Nat) : Prop :=
  ∀ r1 r2, V src r1 → V src r2 → UCore Rs (uload src r1 t1) (uload src r2 t2)

theorem UT.symm (g : Good src Rs) {t1 t2 : src.S × Nat} (h : UT Rs t1 t2) : UT Rs t2 t1 :=
  fun r1 r2 h1 h2 => UCore.symm g (h r2 r1 h2 h1)

theorem UT.trans (g : Good src Rs) {t1 t2 t3 : src.S × Nat} (h : UT Rs t1 t2) (k : UT Rs t2 t3) : UT Rs t1 t3 :=
  fun r1 r2 h1 h2 => UCore.trans g (h r1 src.rfresh h1 (Or.inr rfl)) (k src.rfresh r2 (Or.inr rfl) h2)

theorem utok_legit (x : UnbSt src) (h : UnbInv src x) : Legit src (utok x).1 := (unbGet_inv src x h).2

theorem UT.refl_tok (g : Good src Rs) (he : ErrFree src) (x : UnbSt src) (h : UnbInv src x) :
    UT Rs (utok x) (utok x) := by
  intro r1 r2 h1 h2
  have hl := utok_legit x h
  generalize utok x = t at hl ⊢
  obtain ⟨c, i⟩ := t
  exact uload_congr g he (tok_rel g hl h1 h2) i i (fun _ => rfl)

theorem UT.of_core (g : Good src Rs) {x y : UnbSt src} (hx : UDir Rs x) (hy : UDir Rs y) (h : UCore Rs x y) :
    UT Rs (utok x) (utok y) :=
  fun r1 r2 h1 h2 => UCore.trans g (hx r1 h1) (UCore.trans g h (UCore.symm g (hy r2 h2)))

theorem utok_uload (r0 : Run src) (c : src.S) (i : Nat) :
    utok (uload src r0 (c, i)) = (c, (uload src r0 (c, i)).idx) := by
  apply utok_some
  rcases hx : src.rnext (src.rreset r0 (some c)) with ⟨o, r2⟩
  cases o <;> simp only [uload, unbReset, hx]

/-- Loading a token and taking the token again gives an equivalent token. -/
theorem UT.load (g : Good src Rs) (he : ErrFree src) (r0 : Run src) (hv : V src r0) (c : src.S) (hc : Legit src c)
    (i : Nat) : UT Rs (utok (uload src r0 (c, i))) (c, i) := by
  intro r1 r2 h1 h2
  rw [utok_uload]
  apply uload_congr g he (tok_rel g hc h1 h2)
  intro hns
  have e1 := he _ (V.reset c hc hv)
  rcases uload_cases r0 c i with ⟨v, a2, hx, ex⟩ | ⟨a2, hx, ex⟩ | ⟨e, a2, hx⟩
  · rw [ex]
  · exfalso
    have := (g.next _ _ (tok_rel g hc h1 hv)).1
    rw [hx] at this
    exact hns this
  · exact absurd (by rw [hx]) (e1 e)

/-- Tokens of freshly reset states over related source runs. -/
theorem UT.fresh (g : Good src Rs) (he : ErrFree src) {ra rb : Run src} (h : Rs ra rb) :
    UT Rs ((src.rget ra).1, 0) ((src.rget rb).1, 0) := by
  intro r1 r2 h1 h2
  have a1 := tok_cur g (g.reach _ _ h) h1
  have a2 := tok_cur g (g.reach' h) h2
  exact uload_congr g he (g.trans _ _ _ a1 (g.trans _ _ _ (g.get h) (g.symm _ _ a2))) 0 0 (fun _ => rfl)

def unbR (fuel : Nat) (src : Node) (Rs : Run src → Run src → Prop) (a b : Run (unbatcher fuel src)) : Prop :=
  (unbatcher fuel src).Reach a ∧ (unbatcher fuel src).Reach b ∧ UT Rs (utok (a.st : UnbSt src)) (utok (b.st : UnbSt src))

theorem unb_inner_nexted (g : Good src Rs) (he : ErrFree src) (fuel : Nat) (hf : 0 < fuel)
    (a : Run (unbatcher fuel src)) (ha : (unbatcher fuel src).Reach a) (hn : a.nexted = true) :
    (a.st : UnbSt src).inner.nexted = true := by
  have := unbatcher_unx g he fuel hf a ha
  cases hi : (a.st : UnbSt src).inner.nexted with
  | true => rfl
  | false => have := (this hi).2; rw [hn] at this; cases this

theorem unb_reset_none_tok (fuel : Nat) (a : Run (unbatcher fuel src)) :
    utok (((unbatcher fuel src).rreset a none).st : UnbSt src) =
      ((src.rget (src.rreset (a.st : UnbSt src).inner none)).1, 0) := utok_none _ rfl

theorem unbatcher_good (g : Good src Rs) (he : ErrFree src) (fuel : Nat) (hf : 0 < fuel)
    (heU : ErrFree (unbatcher fuel src)) : Good (unbatcher fuel src) (unbR fuel src Rs) where
  symm := fun a b ⟨h1, h2, h3⟩ => ⟨h2, h1, UT.symm g h3⟩
  trans := fun a b c ⟨h1, _, h3⟩ ⟨_, k2, k3⟩ => ⟨h1, k2, UT.trans g h3 k3⟩
  reach := fun a b h => h.1
  refl := fun s h => ⟨h, h, UT.refl_tok g he _ (unbatcher_uinv g he fuel hf s h).2.1⟩
  next := by
    rintro a b ⟨ha, hb, ht⟩
    obtain ⟨k, rfl⟩ : ∃ k, fuel = k + 1 := ⟨fuel - 1, by omega⟩
    have ia := unbatcher_uinv g he (k + 1) hf a ha
    have ib := unbatcher_uinv g he (k + 1) hf b hb
    have ea := unb_rnext_ok (k + 1) a ia.1
    have eb := unb_rnext_ok (k + 1) b ib.1
    have hna : ∀ e, (unbLoop src (k + 1) (a.st : UnbSt src)).1 ≠ .error e := by
      intro e; have := heU a ha e; rw [ea] at this; exact this
    have hnb : ∀ e, (unbLoop src (k + 1) (b.st : UnbSt src)).1 ≠ .error e := by
      intro e; have := heU b hb e; rw [eb] at this; exact this
    have hv : V src src.rfresh := Or.inr rfl
    have sa := unb_step g he k _ _ ia (ia.2.2.2 _ hv) hna
    have sb := unb_step g he k _ _ ib (ib.2.2.2 _ hv) hnb
    have sc := unbLoop_congr g (k + 1) _ _ (ht _ _ hv hv)
    have da := unbatcher_udir_next g he (k + 1) hf a ha
    have db := unbatcher_udir_next g he (k + 1) hf b hb
    rw [ea] at da ⊢
    rw [eb] at db ⊢
    refine ⟨sa.1.trans (sc.1.trans sb.1.symm), ?_, ?_, ?_⟩
    · have := Node.Reach.next ha; rw [ea] at this; exact this
    · have := Node.Reach.next hb; rw [eb] at this; exact this
    · exact UT.of_core g da db (UCore.trans g (UCore.symm g sa.2) (UCore.trans g sc.2 sb.2))
  resetNone := by
    rintro a b ⟨ha, hb, ht⟩ na nb
    have ia := unbatcher_uinv g he fuel hf a ha
    have ib := unbatcher_uinv g he fuel hf b hb
    have hv : V src src.rfresh := Or.inr rfl
    have ra := unb_reset_rel g _ _ ia (unb_inner_nexted g he fuel hf a ha na) (ia.2.2.2 _ hv) (uload_nexted _ _)
    have rb := unb_reset_rel g _ _ ib (unb_inner_nexted g he fuel hf b hb nb) (ib.2.2.2 _ hv) (uload_nexted _ _)
    have rc := g.resetNone _ _ (ht _ _ hv hv).2.1 (uload_nexted _ _) (uload_nexted _ _)
    have hr := g.trans _ _ _ (g.symm _ _ ra) (g.trans _ _ _ rc rb)
    refine ⟨Node.Reach.resetNone ha, Node.Reach.resetNone hb, ?_⟩
    rw [unb_reset_none_tok, unb_reset_none_tok]
    exact UT.fresh g he hr
  l1 := by
    intro s hs
    have is := unbatcher_uinv g he fuel hf s hs
    refine ⟨Node.Reach.get hs, hs, ?_⟩
    have e : utok (((unbatcher fuel src).rget s).2.st : UnbSt src) = utok (s.st : UnbSt src) :=
      (uinv_get g (s.st : UnbSt src) is).2.1
    rw [e]
    exact UT.refl_tok g he _ is.2.1
  l2 := by
    intro s r hs hr
    have is := unbatcher_uinv g he fuel hf s hs
    have ir := unbatcher_uinv g he fuel hf r hr
    refine ⟨Node.Reach.resetSome hr hs, Node.Reach.get hs, ?_⟩
    have e : utok (((unbatcher fuel src).rget s).2.st : UnbSt src) = utok (s.st : UnbSt src) :=
      (uinv_get g (s.st : UnbSt src) is).2.1
    have e2 : (((unbatcher fuel src).rreset r (some ((unbatcher fuel src).rget s).1)).st : UnbSt src) =
        uload src (r.st : UnbSt src).inner (utok (s.st : UnbSt src)) := unbReset_some _ _
    rw [e, e2]
    have hl := utok_legit _ is.2.1
    generalize utok (s.st : UnbSt src) = t at hl ⊢
    obtain ⟨c, i⟩ := t
    exact UT.load g he _ (Or.inl ir.2.1.1) c hl i
  l2f := by
    intro s hs
    have is := unbatcher_uinv g he fuel hf s hs
    refine ⟨Node.Reach.initSome hs, Node.Reach.get hs, ?_⟩
    have e : utok (((unbatcher fuel src).rget s).2.st : UnbSt src) = utok (s.st : UnbSt src) :=
      (uinv_get g (s.st : UnbSt src) is).2.1
    have e2 : (((unbatcher fuel src).rreset (unbatcher fuel src).rfresh (some ((unbatcher fuel src).rget s).1)).st : UnbSt src) =
        uload src src.rfresh (utok (s.st : UnbSt src)) := unbReset_some _ _
    rw [e, e2]
    have hl := utok_legit _ is.2.1
    generalize utok (s.st : UnbSt src) = t at hl ⊢
    obtain ⟨c, i⟩ := t
    exact UT.load g he _ (Or.inr rfl) c hl i
  nr := by
    intro s hs ns
    have is := unbatcher_uinv g he fuel hf s hs
    have hn := unb_inner_nexted g he fuel hf s hs ns
    refine ⟨Node.Reach.resetNone (Node.Reach.next hs), Node.Reach.resetNone hs, ?_⟩
    rw [unb_reset_none_tok, unb_reset_none_tok]
    apply UT.fresh g he
    have := unbLoop_nr g fuel _ is.2.1.1 hn
    rw [unb_rnext_ok fuel s is.1]
    exact this
  stopIdem := by
    intro s hs h
    obtain ⟨k, rfl⟩ : ∃ k, fuel = k + 1 := ⟨fuel - 1, by omega⟩
    have is := unbatcher_uinv g he (k + 1) hf s hs
    have hs1 := Node.Reach.next hs
    have is1 := unbatcher_uinv g he (k + 1) hf _ hs1
    have d1 := unbatcher_udir_next g he (k + 1) hf s hs
    have d2 := unbatcher_udir_next g he (k + 1) hf _ hs1
    have e1 := unb_rnext_ok (k + 1) s is.1
    have e2 := unb_rnext_ok (k + 1) _ is1.1
    have hstop : (unbLoop src (k + 1) (s.st : UnbSt src)).1 = .stop := by rw [e1] at h; exact h
    obtain ⟨hp, r0, hr0, ho, hin⟩ := unbLoop_stop_post (k + 1) _ is.2.1.1 hstop
    have si := g.stopIdem r0 hr0 ho
    -- the second `next()`
    generalize hx1 : (((unbatcher (k + 1) src).rnext s).2.st : UnbSt src) = x1 at *
    have hx1' : x1 = (unbLoop src (k + 1) (s.st : UnbSt src)).2 := by rw [← hx1, e1]
    rw [← hx1'] at hp hin
    have hr1 : src.Reach x1.inner := is1.2.1.1
    have h1 : Rs (src.rget x1.inner).2 (src.rnext r0).2 := by
      have := g.l1 _ hr1; rw [hin] at this ⊢; exact this
    have hn := g.next _ _ h1
    rcases hz : src.rnext (src.rget x1.inner).2 with ⟨oz, rz⟩
    rw [hz] at hn
    simp only at hn
    have hoz : oz = .stop := hn.1.trans si.1
    subst hoz
    have el : unbLoop src (k + 1) x1 = (.stop, pull src x1) := unbLoop_pull_stop k x1 hp rz hz
    have hcore : UCore Rs (pull src x1) x1 := by
      rw [pull_other x1 _ rz hz (fun _ h => by cases h)]
      refine ⟨rfl, ?_, is1.1, is1.1⟩
      show Rs rz x1.inner
      rw [hin]
      exact g.trans _ _ _ hn.2 si.2
    rw [e2, el] at d2 ⊢
    refine ⟨rfl, ?_, hs1, ?_⟩
    · have := Node.Reach.next hs1; rw [e2, el] at this; exact this
    · rw [hx1]
      exact UT.of_core g d2 d1 hcore

end
end TDV.Node
