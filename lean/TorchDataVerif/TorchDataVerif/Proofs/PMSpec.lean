import TorchDataVerif.Proofs.PMBasic
/-! One characterisation lemma per action of `PM.step`: guard + successor state. -/
namespace TDV.PM
variable {c : Cfg} {s s' : State}

/-! ### reader -/

theorem spec_rInit : stepR c s .rInit = some s' ↔ s.rpc = .init ∧ { s with rpc := .top, sinit := true } = s' := by
  simp only [stepR]; split <;> simp_all

theorem spec_rIsSet : stepR c s .rIsSet = some s' ↔
    s.rpc = .top ∧ { s with rpc := if s.stop then .exited else .acq } = s' := by
  simp only [stepR]; split <;> simp_all

theorem spec_rAcq : stepR c s .rAcq = some s' ↔
    s.rpc = .acq ∧ 0 < s.sem ∧ { s with rpc := .next, sem := s.sem - 1 } = s' := by
  simp only [stepR]; split <;> simp_all

theorem spec_rAcqT : stepR c s .rAcqT = some s' ↔ s.rpc = .acq ∧ s.sem = 0 ∧ { s with rpc := .top } = s' := by
  simp only [stepR]; split <;> simp_all

theorem spec_rEnter : stepR c s .rEnter = some s' ↔ s.rpc = .next ∧ { s with rpc := .insrc } = s' := by
  simp only [stepR]; split <;> simp_all

theorem spec_rLeave : stepR c s .rLeave = some s' ↔ s.rpc = .insrc ∧
    { s with pulled := s.pulled + 1,
             rpc := match c.src[s.pulled]? with
               | some v => if snapDue c s.pulled then .app v s.pulled else .put ⟨.item v, s.pulled⟩
               | none => .put ⟨rawAt c s.pulled, s.pulled⟩ } = s' := by
  simp only [stepR]
  split
  · cases c.src[s.pulled]? <;> simp_all
  · simp_all

theorem spec_rAppend : stepR c s .rAppend = some s' ↔ ∃ v i, s.rpc = .app v i ∧
    { s with store := s.store ++ [(i, c.base + i + 1)], rpc := .put ⟨.item v, i⟩ } = s' := by
  simp only [stepR]
  split
  · rename_i v i h
    simp only [Option.some.injEq, h, RPc.app.injEq]
    constructor
    · intro hh; exact ⟨v, i, ⟨rfl, rfl⟩, hh⟩
    · rintro ⟨v', i', ⟨rfl, rfl⟩, hh⟩; exact hh
  · rename_i h
    simp only [reduceCtorEq, false_iff]
    rintro ⟨v, i, h1, _⟩
    exact h v i h1

theorem spec_rPut : stepR c s .rPut = some s' ↔ ∃ m, s.rpc = .put m ∧
    { s with inq := s.inq ++ [m], rpc := match m.pay with | .item _ => .top | _ => .ret } = s' := by
  simp only [stepR]
  split
  · rename_i m h
    simp only [Option.some.injEq, h, RPc.put.injEq]
    constructor
    · intro hh; exact ⟨m, rfl, hh⟩
    · rintro ⟨m', rfl, hh⟩; exact hh
  · rename_i h
    simp only [reduceCtorEq, false_iff]
    rintro ⟨m, h1, _⟩
    exact h m h1

theorem spec_rRet : stepR c s .rRet = some s' ↔ s.rpc = .ret ∧ { s with rpc := .exited } = s' := by
  simp only [stepR]; split <;> simp_all

/-! ### workers -/

theorem spec_wIsSet (i : Nat) : stepW c s (.wIsSet i) = some s' ↔ s.wk[i]? = some .top ∧
    { s with wk := s.wk.set i (if (if c.proc then s.mpstop else s.stop) then .chk else .get) } = s' := by
  simp only [stepW]; split <;> simp_all

theorem spec_wEmpty (i : Nat) : stepW c s (.wEmpty i) = some s' ↔ s.wk[i]? = some .chk ∧
    { s with wk := s.wk.set i (if s.inq.isEmpty then .exited else .get) } = s' := by
  simp only [stepW]; split <;> simp_all

theorem spec_wGet (i : Nat) : stepW c s (.wGet i) = some s' ↔ ∃ m rest, s.wk[i]? = some .get ∧ s.inq = m :: rest ∧
    { s with inq := rest, wk := s.wk.set i (.have m) } = s' := by
  simp only [stepW]
  split
  · rename_i h
    split
    · rename_i m rest hq
      constructor
      · intro hh; exact ⟨m, rest, h, hq, by simpa using hh⟩
      · rintro ⟨m', rest', _, hq', hh⟩
        rw [hq] at hq'; cases hq'
        simpa using hh
    · rename_i hq
      simp [hq]
  · rename_i h
    simp only [reduceCtorEq, false_iff]
    rintro ⟨m, rest, h1, _⟩
    exact h h1

theorem spec_wGetT (i : Nat) : stepW c s (.wGetT i) = some s' ↔ s.wk[i]? = some .get ∧ s.inq = [] ∧
    { s with wk := s.wk.set i .top } = s' := by
  simp only [stepW]
  split
  · split <;> simp_all
  · simp_all

theorem spec_wPut (i : Nat) : stepW c s (.wPut i) = some s' ↔ ∃ m, s.wk[i]? = some (.have m) ∧
    { s with mid := s.mid ++ [⟨apply c m.pay, m.idx⟩], wk := s.wk.set i .top } = s' := by
  simp only [stepW]
  split
  · rename_i m h
    simp only [Option.some.injEq, h, WPc.have.injEq]
    constructor
    · intro hh; exact ⟨m, rfl, hh⟩
    · rintro ⟨m', rfl, hh⟩; exact hh
  · rename_i h
    simp only [reduceCtorEq, false_iff]
    rintro ⟨m, h1, _⟩
    exact h m h1

theorem spec_wDie (i : Nat) : stepW c s (.wDie i) = some s' ↔ c.proc = true ∧
    ((∃ m, s.wk[i]? = some (.have m) ∧ { s with wk := s.wk.set i .dead, lost := m.idx :: s.lost } = s') ∨
     ((s.wk[i]? = some .top ∨ s.wk[i]? = some .chk ∨ s.wk[i]? = some .get) ∧ { s with wk := s.wk.set i .dead } = s')) := by
  simp only [stepW]
  by_cases hp : c.proc = true
  · simp only [hp, if_true, true_and]
    split
    · rename_i m h
      simp [h]
    · rename_i h; simp [h]
    · rename_i h; simp [h]
    · rename_i h; simp [h]
    · rename_i h1 h2 h3 h4
      simp only [reduceCtorEq, false_iff]
      rintro (⟨m, hm, _⟩ | ⟨hh | hh | hh, _⟩)
      · exact h1 m hm
      · exact h2 hh
      · exact h3 hh
      · exact h4 hh
  · simp [hp]

/-! ### sorter -/

theorem spec_sIsSet : stepS c s .sIsSet = some s' ↔
    s.spc = .top ∧ { s with spc := if s.stop then .exited else .get } = s' := by
  simp only [stepS]; split <;> simp_all

theorem spec_sGet : stepS c s .sGet = some s' ↔ ∃ m rest, s.spc = .get ∧ s.mid = m :: rest ∧
    { s with mid := rest, spc := .have m } = s' := by
  simp only [stepS]
  split
  · rename_i h
    split
    · rename_i m rest hq
      constructor
      · intro hh; exact ⟨m, rest, h, hq, by simpa using hh⟩
      · rintro ⟨m', rest', _, hq', hh⟩
        rw [hq] at hq'; cases hq'
        simpa using hh
    · rename_i hq
      simp [hq]
  · rename_i h
    simp only [reduceCtorEq, false_iff]
    rintro ⟨m, rest, h1, _⟩
    exact h h1

theorem spec_sGetT : stepS c s .sGetT = some s' ↔ s.spc = .get ∧ s.mid = [] ∧ { s with spc := .top } = s' := by
  simp only [stepS]
  split
  · split <;> simp_all
  · simp_all

theorem spec_sHave : stepS c s .sHave = some s' ↔ ∃ m, s.spc = .have m ∧
    (if m.idx = s.cur then { s with sq := s.sq ++ [⟨m.pay, s.cur⟩], cur := s.cur + 1, spc := .drain }
     else if bufHas m.idx s.buf then { s with sq := s.sq ++ [⟨.err, m.idx⟩], spc := .exited }
     else { s with buf := m :: s.buf, spc := .drain }) = s' := by
  simp only [stepS]
  split
  · rename_i m h
    simp only [h, SPc.have.injEq]
    constructor
    · intro hh
      refine ⟨m, rfl, ?_⟩
      split at hh
      · simp_all
      · split at hh <;> simp_all
    · rintro ⟨m', rfl, hh⟩
      split
      · simp_all
      · split <;> simp_all
  · rename_i h
    simp only [reduceCtorEq, false_iff]
    rintro ⟨m, h1, _⟩
    exact h m h1

theorem spec_sDrain : stepS c s .sDrain = some s' ↔ s.spc = .drain ∧
    (match bufTake s.cur s.buf with
     | some (m, rest) => { s with sq := s.sq ++ [⟨m.pay, s.cur⟩], cur := s.cur + 1, buf := rest }
     | none => { s with spc := .top }) = s' := by
  simp only [stepS]
  split
  · rename_i h
    simp only [h, true_and]
    cases bufTake s.cur s.buf with
    | none => simp
    | some p => simp
  · simp_all

/-! ### consumer -/

theorem spec_cBoot : stepC c s .cBoot = some s' ↔ s.cpc = .boot ∧ s.sinit = true ∧
    { s with sinit := false, snap := c.base, cpc := .idle } = s' := by
  simp only [stepC]; split <;> simp_all

theorem spec_cBootT : stepC c s .cBootT = some s' ↔ s.cpc = .boot ∧ s.sinit = false ∧ s = s' := by
  simp only [stepC]; split <;> simp_all

theorem spec_cCall : stepC c s .cCall = some s' ↔ s.cpc = .idle ∧ { s with cpc := .top } = s' := by
  simp only [stepC]; split <;> simp_all

theorem spec_cIsSet : stepC c s .cIsSet = some s' ↔ s.cpc = .top ∧
    (if s.stop then { s with cpc := .idle, nstop := s.nstop + 1 } else { s with cpc := .mp }) = s' := by
  simp only [stepC]
  split
  · split <;> simp_all
  · simp_all

theorem spec_cMpIsSet : stepC c s .cMpIsSet = some s' ↔ s.cpc = .mp ∧
    (if s.mpstop then { s with cpc := .idle, nstop := s.nstop + 1 } else { s with cpc := .chk }) = s' := by
  simp only [stepC]
  split
  · split <;> simp_all
  · simp_all

theorem spec_cChk : stepC c s .cChk = some s' ↔ s.cpc = .chk ∧
    { s with cpc := if s.done && decide (s.sem = c.max) then .set1 else .get } = s' := by
  simp only [stepC]; split <;> simp_all

theorem spec_cSet : stepC c s .cSet = some s' ↔ s.cpc = .set1 ∧ { s with stop := true, cpc := .set2 } = s' := by
  simp only [stepC]; split <;> simp_all

theorem spec_cMpSet : stepC c s .cMpSet = some s' ↔ s.cpc = .set2 ∧
    { s with mpstop := true, cpc := .idle, nstop := s.nstop + 1 } = s' := by
  simp only [stepC]; split <;> simp_all

theorem spec_cGet : stepC c s .cGet = some s' ↔ ∃ m rest, s.cpc = .get ∧ outq c s = m :: rest ∧
    (match m.pay with
     | .stop => { setOutq c s rest with done := true, cpc := .rel m }
     | .err => { setOutq c s rest with cpc := .rel m }
     | .item _ => { setOutq c s rest with steps := s.steps + 1, cpc := .rel m }) = s' := by
  simp only [stepC]
  split
  · rename_i h
    split
    · rename_i m rest hq
      constructor
      · intro hh
        refine ⟨m, rest, h, hq, ?_⟩
        cases hp : m.pay <;> simp_all
      · rintro ⟨m', rest', _, hq', hh⟩
        rw [hq] at hq'; cases hq'
        cases hp : m.pay <;> simp_all
    · rename_i hq
      simp [hq]
  · rename_i h
    simp only [reduceCtorEq, false_iff]
    rintro ⟨m, rest, h1, _⟩
    exact h h1

theorem spec_cGetT : stepC c s .cGetT = some s' ↔ s.cpc = .get ∧ outq c s = [] ∧ { s with cpc := afterEmpty c s } = s' := by
  simp only [stepC]
  split
  · split <;> simp_all
  · simp_all

theorem spec_cRel : stepC c s .cRel = some s' ↔ ∃ m, s.cpc = .rel m ∧ s.sem < c.max ∧
    (match m.pay with
     | .stop => { s with sem := s.sem + 1, got := s.got ++ [m.idx], cpc := .top }
     | .err => { s with sem := s.sem + 1, got := s.got ++ [m.idx], errs := s.errs + 1, cpc := .idle }
     | .item _ => { s with sem := s.sem + 1, cpc := .pop m }) = s' := by
  simp only [stepC]
  split
  · rename_i m h
    constructor
    · intro hh
      split at hh
      · rename_i hlt
        refine ⟨m, h, hlt, ?_⟩
        cases hp : m.pay <;> simp_all
      · simp at hh
    · rintro ⟨m', hm', hlt, hh⟩
      rw [h] at hm'; cases hm'
      simp only [hlt, if_true]
      cases hp : m.pay <;> simp_all
  · rename_i h
    simp only [reduceCtorEq, false_iff]
    rintro ⟨m, h1, _⟩
    exact h m h1

theorem spec_cPop : stepC c s .cPop = some s' ↔ ∃ m y, s.cpc = .pop m ∧ m.pay = .item y ∧
    { s with store := (popV m.idx s.store none).2,
             snap := pickSnap (popV m.idx s.store none).1 s.snap,
             steps := pickSteps (popV m.idx s.store none).1 s.steps,
             got := s.got ++ [m.idx], outs := s.outs ++ [y], cpc := .idle } = s' := by
  simp only [stepC]
  split
  · rename_i m h
    constructor
    · intro hh
      split at hh
      · rename_i y hy
        exact ⟨m, y, h, hy, by simpa using hh⟩
      · simp at hh
    · rintro ⟨m', y, hm', hy, hh⟩
      rw [h] at hm'; cases hm'
      simp only [hy]
      simpa using hh
  · rename_i h
    simp only [reduceCtorEq, false_iff]
    rintro ⟨m, y, h1, _⟩
    exact h m h1

theorem spec_cDeadIsSet : stepC c s .cDeadIsSet = some s' ↔ s.cpc = .dchk1 ∧
    { s with cpc := if s.stop then .top else .dchk2 } = s' := by
  simp only [stepC]; split <;> simp_all

theorem spec_cDeadMpIsSet : stepC c s .cDeadMpIsSet = some s' ↔ s.cpc = .dchk2 ∧
    { s with cpc := if s.mpstop then .top else .dset1 } = s' := by
  simp only [stepC]; split <;> simp_all

theorem spec_cDeadSet : stepC c s .cDeadSet = some s' ↔ s.cpc = .dset1 ∧ { s with stop := true, cpc := .dset2 } = s' := by
  simp only [stepC]; split <;> simp_all

theorem spec_cDeadMpSet : stepC c s .cDeadMpSet = some s' ↔ s.cpc = .dset2 ∧
    { s with mpstop := true, rterr := s.rterr + 1, cpc := .idle } = s' := by
  simp only [stepC]; split <;> simp_all

theorem spec_cShutSet : stepC c s .cShutSet = some s' ↔ s.cpc = .idle ∧ { s with stop := true, cpc := .shut1 } = s' := by
  simp only [stepC]; split <;> simp_all

theorem spec_cShutMpSet : stepC c s .cShutMpSet = some s' ↔
    s.cpc = .shut1 ∧ { s with mpstop := true, cpc := .closed } = s' := by
  simp only [stepC]; split <;> simp_all

end TDV.PM
