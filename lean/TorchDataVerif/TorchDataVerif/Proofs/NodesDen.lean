import TorchDataVerif.Model.Nodes
/-! Helper lemmas for C04: observations (`Stops`, `Yields`, `SameOuts`) and the per-combinator
denotation lemmas in their general form (from an arbitrary inner state). -/
namespace TDV.Node

/-! ## basics -/

theorem outs_succ (n : Node) (k : Nat) (r : Run n) :
    n.outs (k + 1) r = (n.rnext r).1 :: n.outs k (n.rnext r).2 := rfl

theorem stops_iff {n : Node} {r : Run n} :
    Stops n r ↔ (n.rnext r).1 = .stop ∧ Stops n (n.rnext r).2 := by
  constructor
  · intro h
    refine ⟨?_, ?_⟩
    · have := h 1
      simp [Node.outs, List.replicate] at this
      exact this
    · intro k
      have := h (k + 1)
      rw [outs_succ, List.replicate_succ] at this
      exact (List.cons.inj this).2
  · rintro ⟨h1, h2⟩ k
    cases k with
    | zero => rfl
    | succ k => rw [outs_succ, h1, h2 k, List.replicate_succ]

/-- Invariant principle for `Stops`. -/
theorem stops_of_inv {n : Node} (P : Run n → Prop)
    (h : ∀ r, P r → (n.rnext r).1 = .stop ∧ P (n.rnext r).2) : ∀ r, P r → Stops n r := by
  intro r hr k
  induction k generalizing r with
  | zero => rfl
  | succ k ih =>
    have := h r hr
    rw [outs_succ, this.1, ih _ this.2, List.replicate_succ]

theorem sameOuts_next {n : Node} {a b : Run n} (h : SameOuts n a b) :
    (n.rnext a).1 = (n.rnext b).1 ∧ SameOuts n (n.rnext a).2 (n.rnext b).2 := by
  refine ⟨?_, ?_⟩
  · have := h 1
    simp [Node.outs] at this
    exact this
  · intro k
    have := h (k + 1)
    rw [outs_succ, outs_succ] at this
    exact (List.cons.inj this).2

theorem SameOuts.refl {n : Node} (a : Run n) : SameOuts n a a := fun _ => rfl
theorem SameOuts.symm {n : Node} {a b : Run n} (h : SameOuts n a b) : SameOuts n b a := fun k => (h k).symm
theorem SameOuts.trans {n : Node} {a b c : Run n} (h : SameOuts n a b) (h' : SameOuts n b c) :
    SameOuts n a c := fun k => (h k).trans (h' k)

theorem Stops.congr {n : Node} {a b : Run n} (h : SameOuts n a b) (ha : Stops n a) : Stops n b :=
  fun k => (h k).symm.trans (ha k)

theorem Yields.congr {n : Node} {a b : Run n} {xs : List Item} (h : SameOuts n a b)
    (ha : Yields n a xs) : Yields n b xs := by
  induction xs generalizing a b with
  | nil => exact Stops.congr h ha
  | cons x xs ih =>
    have hn := sameOuts_next h
    exact ⟨hn.1 ▸ ha.1, ih hn.2 ha.2⟩

/-- The ghost bit does not influence results. -/
theorem rnext_ghost (n : Node) (s : n.σ) (b : Bool) :
    (n.rnext ⟨s, b⟩).1 = (n.next s).1 ∧ (n.rnext ⟨s, b⟩).2 = ⟨(n.next s).2, true⟩ := ⟨rfl, rfl⟩

theorem outs_ghost (n : Node) (k : Nat) (s : n.σ) (b b' : Bool) :
    n.outs k ⟨s, b⟩ = n.outs k ⟨s, b'⟩ := by
  cases k with
  | zero => rfl
  | succ k => rfl

theorem sameOuts_ghost (n : Node) (s : n.σ) (b b' : Bool) : SameOuts n ⟨s, b⟩ ⟨s, b'⟩ :=
  fun k => outs_ghost n k s b b'

/-- `Yields` read as a statement about `outs`. -/
theorem Yields.outs {n : Node} {r : Run n} {xs : List Item} (h : Yields n r xs) (k : Nat) :
    n.outs (xs.length + k) r = xs.map Out.item ++ List.replicate k Out.stop := by
  induction xs generalizing r with
  | nil => simpa using h k
  | cons x xs ih =>
    have : (x :: xs).length + k = (xs.length + k) + 1 := by simp; omega
    rw [this, outs_succ, h.1, ih h.2]
    rfl

/-! ## leaves -/

theorem list_yields_aux (l : List Item) (rem : List Item) (ny : Nat) (b : Bool) :
    Yields (listSource l) ⟨{ rem := rem, ny := ny, bad := false }, b⟩ rem := by
  induction rem generalizing ny b with
  | nil =>
    refine stops_of_inv (n := listSource l)
      (fun r => (r.st : ListSt).rem = [] ∧ (r.st : ListSt).bad = false) ?_ _ ⟨rfl, rfl⟩
    rintro ⟨⟨rem, ny, bad⟩, b⟩ ⟨h1, h2⟩
    simp only at h1 h2
    subst h1 h2
    exact ⟨rfl, rfl, rfl⟩
  | cons x xs ih => exact ⟨rfl, ih _ _⟩

/-- `IterableWrapper(list)`: every `reset()` epoch yields the list, from any state. -/
theorem listSource_yields (l : List Item) (r : Run (listSource l)) :
    Yields (listSource l) ((listSource l).rreset r none) l :=
  list_yields_aux l l 0 false

theorem samp_yields_aux (idx : Nat → List Item) (upd : Nat → Nat) (e0 : Nat) (rem : List Item)
    (ny e : Nat) (st b : Bool) :
    Yields (samplerNode idx upd e0) ⟨{ rem := rem, ny := ny, epoch := e, started := st, bad := false }, b⟩ rem := by
  induction rem generalizing ny st b with
  | nil =>
    refine stops_of_inv (n := samplerNode idx upd e0)
      (fun r => (r.st : SampSt).rem = [] ∧ (r.st : SampSt).bad = false) ?_ _ ⟨rfl, rfl⟩
    rintro ⟨⟨rem, ny, e, st, bad⟩, b⟩ ⟨h1, h2⟩
    simp only at h1 h2
    subst h1 h2
    exact ⟨rfl, rfl, rfl⟩
  | cons x xs ih => exact ⟨rfl, ih _ _ _⟩

/-- The epoch a `reset()` of the sampler node starts. -/
def sampNewEpoch (upd : Nat → Nat) (st : SampSt) : Nat := if st.started then upd st.epoch else st.epoch

theorem samplerNode_yields (idx : Nat → List Item) (upd : Nat → Nat) (e0 : Nat)
    (r : Run (samplerNode idx upd e0)) :
    Yields (samplerNode idx upd e0) ((samplerNode idx upd e0).rreset r none) (idx (sampNewEpoch upd r.st)) :=
  samp_yields_aux idx upd e0 _ 0 _ false false

theorem stateful_stops (it : StIter) :
    ∀ R : Run (statefulSource it), (∃ b, Stops (iterNode it) ⟨(R.st : SrcSt it).its, b⟩) →
      Stops (statefulSource it) R := by
  refine stops_of_inv (n := statefulSource it) _ ?_
  rintro ⟨st, b'⟩ ⟨b, h⟩
  have h' := stops_iff.mp h
  have e1 : ((iterNode it).rnext ⟨(st : SrcSt it).its, b⟩).1 = (it.nxt (st : SrcSt it).its).1 := rfl
  have e2 : ((iterNode it).rnext ⟨(st : SrcSt it).its, b⟩).2 = ⟨(it.nxt (st : SrcSt it).its).2, true⟩ := rfl
  rw [e1, e2] at h'
  rcases hx : it.nxt (st : SrcSt it).its with ⟨o, s'⟩
  rw [hx] at h'
  simp only at h'
  have e : (statefulSource it).rnext ⟨st, b'⟩ = (Out.stop, ⟨{ (st : SrcSt it) with its := s' }, true⟩) := by
    show ((stNext it st).1, (⟨(stNext it st).2, true⟩ : Run (statefulSource it))) = _
    simp only [stNext, hx, h'.1]
  rw [e]
  exact ⟨rfl, true, h'.2⟩

theorem stateful_yields (it : StIter) (xs : List Item) :
    ∀ (s : it.τ) (ny : Nat) (b b' : Bool), Yields (iterNode it) ⟨s, b⟩ xs →
      Yields (statefulSource it) ⟨{ its := s, ny := ny }, b'⟩ xs := by
  induction xs with
  | nil => intro s ny b b' h; exact stateful_stops it _ ⟨b, h⟩
  | cons x xs ih =>
    intro s ny b b' h
    have h1 := h.1
    have h2 := h.2
    have e1 : ((iterNode it).rnext ⟨s, b⟩).1 = (it.nxt s).1 := rfl
    have e2 : ((iterNode it).rnext ⟨s, b⟩).2 = ⟨(it.nxt s).2, true⟩ := rfl
    rw [e1] at h1
    rw [e2] at h2
    rcases hx : it.nxt s with ⟨o, s'⟩
    rw [hx] at h1 h2
    simp only at h1 h2
    subst h1
    have e : (statefulSource it).rnext ⟨{ its := s, ny := ny }, b'⟩ =
        (Out.item x, ⟨{ its := s', ny := ny + 1 }, true⟩) := by
      show ((stNext it _).1, (⟨(stNext it _).2, true⟩ : Run (statefulSource it))) = _
      simp only [stNext, hx]
    rw [Yields, e]
    exact ⟨rfl, ih s' (ny + 1) true true h2⟩

/-! ## mapper -/

theorem mapper_rnext (f : Item → Option Item) (src : Node) (R : Run (mapper f src)) :
    (mapper f src).rnext R = ((mapNext src f (R.st : Run src)).1, ⟨(mapNext src f (R.st : Run src)).2, true⟩) := rfl

theorem mapper_stops (f : Item → Option Item) (src : Node) :
    ∀ R : Run (mapper f src), Stops src (R.st : Run src) → Stops (mapper f src) R := by
  refine stops_of_inv (n := mapper f src) (fun R => Stops src (R.st : Run src)) ?_
  intro R hR
  have h := stops_iff.mp hR
  rcases hx : src.rnext (R.st : Run src) with ⟨o, r'⟩
  rw [hx] at h
  simp only at h
  rw [mapper_rnext]
  simp only [mapNext, hx, h.1]
  exact ⟨trivial, h.2⟩

theorem mapper_yields (f : Item → Option Item) (g : Item → Item) (src : Node)
    (xs : List Item) (hf : ∀ x ∈ xs, f x = some (g x)) :
    ∀ R : Run (mapper f src), Yields src (R.st : Run src) xs → Yields (mapper f src) R (xs.map g) := by
  induction xs with
  | nil => exact fun R h => mapper_stops f src R h
  | cons x xs ih =>
    intro R h
    rcases hx : src.rnext (R.st : Run src) with ⟨o, r'⟩
    have h1 := h.1
    have h2 := h.2
    rw [hx] at h1 h2
    simp only at h1 h2
    subst h1
    refine ⟨?_, ?_⟩
    · rw [mapper_rnext]; simp [mapNext, hx, hf x (List.mem_cons_self ..)]
    · apply ih (fun y hy => hf y (List.mem_cons_of_mem _ hy))
      rw [mapper_rnext]
      simp only [mapNext, hx]
      exact h2

/-! ## batcher -/

theorem batcher_rnext (bs : Nat) (dl : Bool) (src : Node) (R : Run (batcher bs dl src)) :
    (batcher bs dl src).rnext R =
      (batchOut dl (collect src bs (R.st : Run src)).1, ⟨(collect src bs (R.st : Run src)).2, true⟩) := rfl

theorem collect_stops (src : Node) (k : Nat) (r : Run src) (h : Stops src r) :
    (collect src (k + 1) r).1 = ([], .stop) ∧ Stops src (collect src (k + 1) r).2 := by
  have h' := stops_iff.mp h
  rcases hx : src.rnext r with ⟨o, r'⟩
  rw [hx] at h'
  simp only at h'
  simp only [collect, hx, h'.1]
  exact ⟨trivial, h'.2⟩

theorem collect_yields (src : Node) (k : Nat) : ∀ (r : Run src) (xs : List Item), Yields src r xs →
    (k ≤ xs.length → (collect src k r).1 = (xs.take k, .full) ∧ Yields src (collect src k r).2 (xs.drop k)) ∧
    (xs.length < k → (collect src k r).1 = (xs, .stop) ∧ Stops src (collect src k r).2) := by
  induction k with
  | zero =>
    intro r xs h
    exact ⟨fun _ => ⟨by simp [collect], by simpa [collect] using h⟩, fun hlt => absurd hlt (Nat.not_lt_zero _)⟩
  | succ k ih =>
    intro r xs h
    cases xs with
    | nil =>
      refine ⟨fun hk => absurd hk (by simp), fun _ => collect_stops src k r h⟩
    | cons x xs =>
      rcases hx : src.rnext r with ⟨o, r'⟩
      have h1 := h.1
      have h2 := h.2
      rw [hx] at h1 h2
      simp only at h1 h2
      subst h1
      have := ih r' xs h2
      constructor
      · intro hk
        have hk' : k ≤ xs.length := by simpa using hk
        have t := this.1 hk'
        simp only [collect, hx, List.take_succ_cons, List.drop_succ_cons]
        exact ⟨by rw [t.1], t.2⟩
      · intro hk
        have hk' : xs.length < k := by simpa using hk
        have t := this.2 hk'
        simp only [collect, hx]
        exact ⟨by rw [t.1], t.2⟩

theorem batcher_stops (bs : Nat) (dl : Bool) (src : Node) (hbs : 1 ≤ bs) :
    ∀ R : Run (batcher bs dl src), Stops src (R.st : Run src) → Stops (batcher bs dl src) R := by
  refine stops_of_inv (n := batcher bs dl src) (fun R => Stops src (R.st : Run src)) ?_
  intro R hR
  obtain ⟨k, rfl⟩ : ∃ k, bs = k + 1 := ⟨bs - 1, by omega⟩
  have := collect_stops src k (R.st : Run src) hR
  rw [batcher_rnext]
  simp only [this.1]
  exact ⟨by simp [batchOut], this.2⟩

theorem batcher_yields_fuel (bs : Nat) (dl : Bool) (src : Node) (hbs : 1 ≤ bs) (fuel : Nat) :
    ∀ (xs : List Item) (R : Run (batcher bs dl src)), xs.length ≤ fuel → Yields src (R.st : Run src) xs →
      Yields (batcher bs dl src) R ((Ref.chunkF bs dl fuel xs).map Item.list) := by
  induction fuel with
  | zero =>
    intro xs R hl h
    have : xs = [] := List.eq_nil_of_length_eq_zero (by omega)
    subst this
    exact batcher_stops bs dl src hbs R h
  | succ fuel ih =>
    intro xs R hl h
    by_cases hxs : xs = []
    · subst hxs
      have : (Ref.chunkF bs dl (fuel + 1) []).map Item.list = [] := by simp [Ref.chunkF]
      rw [this]
      exact batcher_stops bs dl src hbs R h
    · have hne : xs.isEmpty = false := by cases xs <;> simp_all
      have hc := collect_yields src bs (R.st : Run src) xs h
      by_cases hlt : xs.length < bs
      · have t := hc.2 hlt
        have hS : Stops (batcher bs dl src) ((batcher bs dl src).rnext R).2 := by
          apply batcher_stops bs dl src hbs
          rw [batcher_rnext]
          exact t.2
        cases dl with
        | true =>
          simp only [Ref.chunkF, hne, hlt, if_true, Bool.false_eq_true, if_false, List.map_nil]
          refine stops_iff.mpr ⟨?_, hS⟩
          rw [batcher_rnext]
          simp [t.1, batchOut]
        | false =>
          simp only [Ref.chunkF, hne, hlt, if_true, Bool.false_eq_true, if_false, List.map_cons, List.map_nil]
          refine ⟨?_, hS⟩
          rw [batcher_rnext]
          simp [t.1, batchOut, hne]
      · have t := hc.1 (by omega)
        simp only [Ref.chunkF, hne, hlt, Bool.false_eq_true, if_false, List.map_cons]
        refine ⟨?_, ?_⟩
        · rw [batcher_rnext]
          simp [t.1, batchOut]
        · apply ih
          · have : 0 < xs.length := List.length_pos_iff.mpr hxs
            simp only [List.length_drop]
            omega
          · rw [batcher_rnext]
            exact t.2

theorem batcher_yields (bs : Nat) (dl : Bool) (src : Node) (hbs : 1 ≤ bs) (xs : List Item)
    (R : Run (batcher bs dl src)) (h : Yields src (R.st : Run src) xs) :
    Yields (batcher bs dl src) R ((Ref.chunk bs dl xs).map Item.list) :=
  batcher_yields_fuel bs dl src hbs xs.length xs R (Nat.le_refl _) h

/-! ## filter -/

theorem filter_rnext (fuel : Nat) (p : Item → Bool) (src : Node) (R : Run (filter fuel p src)) :
    (filter fuel p src).rnext R =
      ((filLoop src p fuel (R.st : FilSt src)).1, ⟨(filLoop src p fuel (R.st : FilSt src)).2, true⟩) := rfl

theorem filLoop_spec (src : Node) (p : Item → Bool) : ∀ (xs : List Item) (st : FilSt src) (k : Nat),
    Yields src st.inner xs → xs.length < k →
    (xs.filter p = [] → (filLoop src p k st).1 = .stop ∧ Stops src (filLoop src p k st).2.inner) ∧
    (∀ y ys, xs.filter p = y :: ys → (filLoop src p k st).1 = .item y ∧
      ∃ zs, Yields src (filLoop src p k st).2.inner zs ∧ zs.filter p = ys ∧ zs.length < xs.length) := by
  intro xs
  induction xs with
  | nil =>
    intro st k h hk
    obtain ⟨k, rfl⟩ : ∃ k', k = k' + 1 := ⟨k - 1, by simp at hk; omega⟩
    have h' := stops_iff.mp h
    rcases hx : src.rnext st.inner with ⟨o, r'⟩
    rw [hx] at h'
    simp only at h'
    refine ⟨fun _ => ?_, fun y ys hy => by simp at hy⟩
    simp only [filLoop, hx, h'.1]
    exact ⟨trivial, h'.2⟩
  | cons x xs ih =>
    intro st k h hk
    obtain ⟨k, rfl⟩ : ∃ k', k = k' + 1 := ⟨k - 1, by simp at hk; omega⟩
    rcases hx : src.rnext st.inner with ⟨o, r'⟩
    have h1 := h.1
    have h2 := h.2
    rw [hx] at h1 h2
    simp only at h1 h2
    subst h1
    by_cases hp : p x = true
    · refine ⟨fun hf => by simp [List.filter, hp] at hf, fun y ys hy => ?_⟩
      simp only [List.filter, hp, List.cons.injEq] at hy
      simp only [filLoop, hx, hp, if_true]
      exact ⟨by rw [hy.1], xs, h2, hy.2, by simp⟩
    · have hp' : p x = false := by simpa using hp
      have := ih { st with inner := r', nf := st.nf + 1 } k h2 (by simp at hk; omega)
      simp only [filLoop, hx, hp', Bool.false_eq_true, if_false, List.filter]
      refine ⟨this.1, fun y ys hy => ?_⟩
      obtain ⟨h3, zs, h4, h5, h6⟩ := this.2 y ys hy
      exact ⟨h3, zs, h4, h5, by simp; omega⟩

theorem filter_stops (fuel : Nat) (p : Item → Bool) (src : Node) (hf : 0 < fuel) :
    ∀ R : Run (filter fuel p src), Stops src (R.st : FilSt src).inner → Stops (filter fuel p src) R := by
  refine stops_of_inv (n := filter fuel p src) (fun R => Stops src (R.st : FilSt src).inner) ?_
  intro R hR
  have := (filLoop_spec src p [] (R.st : FilSt src) fuel hR (by simpa using hf)).1 rfl
  rw [filter_rnext]
  exact this

theorem filter_yields (fuel : Nat) (p : Item → Bool) (src : Node) (n : Nat) :
    ∀ (xs : List Item) (R : Run (filter fuel p src)), xs.length ≤ n → xs.length < fuel →
      Yields src (R.st : FilSt src).inner xs → Yields (filter fuel p src) R (xs.filter p) := by
  induction n with
  | zero =>
    intro xs R hl hf h
    have : xs = [] := List.eq_nil_of_length_eq_zero (by omega)
    subst this
    exact filter_stops fuel p src hf R h
  | succ n ih =>
    intro xs R hl hf h
    have sp := filLoop_spec src p xs (R.st : FilSt src) fuel h hf
    cases hfx : xs.filter p with
    | nil =>
      have := sp.1 hfx
      refine stops_iff.mpr ⟨?_, ?_⟩
      · rw [filter_rnext]; exact this.1
      · apply filter_stops fuel p src (by omega)
        rw [filter_rnext]; exact this.2
    | cons y ys =>
      obtain ⟨h3, zs, h4, h5, h6⟩ := sp.2 y ys hfx
      refine ⟨?_, ?_⟩
      · rw [filter_rnext]; exact h3
      · rw [← h5]
        apply ih zs _ (by omega) (by omega)
        rw [filter_rnext]; exact h4

/-! ## unbatcher -/

/-- `state_dict()` of the source does not change what it yields (L1 of a lawful source). -/
def GetTransparent (src : Node) : Prop := ∀ r, src.Reach r → SameOuts src (src.rget r).2 r

theorem unbatcher_rnext (fuel : Nat) (src : Node) (R : Run (unbatcher fuel src)) :
    (unbatcher fuel src).rnext R =
      ((unbNext src fuel (R.st : UnbSt src)).1, ⟨(unbNext src fuel (R.st : UnbSt src)).2, true⟩) := rfl

/-- What one `next()` of the unbatcher does when the source still holds the batches `bs` and the current
batch is `cur`. -/
theorem unbLoop_spec (src : Node) (hg : GetTransparent src) :
    ∀ (bs : List (List Item)) (st : UnbSt src) (cur : List Item) (k : Nat),
    st.batch = .list cur → src.Reach st.inner → Yields src st.inner (bs.map Item.list) → bs.length < k →
    (cur.drop st.idx ++ bs.flatten = [] →
      (unbLoop src k st).1 = .stop ∧ (unbLoop src k st).2.bad = st.bad ∧
      (∃ cur', (unbLoop src k st).2.batch = .list cur' ∧ cur'.drop (unbLoop src k st).2.idx = []) ∧
      Stops src (unbLoop src k st).2.inner ∧ src.Reach (unbLoop src k st).2.inner) ∧
    (∀ y ys, cur.drop st.idx ++ bs.flatten = y :: ys →
      (unbLoop src k st).1 = .item y ∧ (unbLoop src k st).2.bad = st.bad ∧
      ∃ (cur' : List Item) (bs' : List (List Item)), (unbLoop src k st).2.batch = .list cur' ∧
        Yields src (unbLoop src k st).2.inner (bs'.map Item.list) ∧
        cur'.drop (unbLoop src k st).2.idx ++ bs'.flatten = ys ∧ bs'.length ≤ bs.length ∧
        src.Reach (unbLoop src k st).2.inner) := by
  intro bs
  induction bs with
  | nil =>
    intro st cur k hb hr hy hk
    obtain ⟨k, rfl⟩ : ∃ k', k = k' + 1 := ⟨k - 1, by omega⟩
    cases hi : cur[st.idx]? with
    | some v =>
      have hd : cur.drop st.idx = v :: cur.drop (st.idx + 1) := by
        have hlt : st.idx < cur.length := by
          rcases Nat.lt_or_ge st.idx cur.length with h | h
          · exact h
          · rw [List.getElem?_eq_none h] at hi; cases hi
        rw [List.getElem?_eq_getElem hlt] at hi
        rw [List.drop_eq_getElem_cons hlt]
        simp at hi
        rw [hi]
      refine ⟨fun h => by simp [hd] at h, fun y ys h => ?_⟩
      simp only [hd, List.flatten_nil, List.append_nil, List.cons.injEq] at h
      have e : unbLoop src (k + 1) st = (.item v, { st with idx := st.idx + 1 }) := by
        simp only [unbLoop, hb, hi]
      rw [e]
      exact ⟨by rw [h.1], rfl, cur, [], hb, hy, by simpa using h.2, Nat.le_refl _, hr⟩
    | none =>
      have hd : cur.drop st.idx = [] := by
        rw [List.getElem?_eq_none_iff] at hi
        exact List.drop_eq_nil_of_le hi
      have hy' : Stops src (src.rget st.inner).2 := Stops.congr (hg _ hr).symm hy
      have h' := stops_iff.mp hy'
      rcases hx : src.rnext (src.rget st.inner).2 with ⟨o, r2⟩
      have hr2 : src.Reach r2 := by
        have := Node.Reach.next (Node.Reach.get hr)
        rw [hx] at this
        exact this
      rw [hx] at h'
      simp only at h'
      refine ⟨fun _ => ?_, fun y ys h => by simp [hd] at h⟩
      have e : unbLoop src (k + 1) st =
          (.stop, { st with inner := r2, cached := some (src.rget st.inner).1 }) := by
        simp only [unbLoop, hb, hi, hx, h'.1]
      rw [e]
      exact ⟨rfl, rfl, ⟨cur, hb, hd⟩, h'.2, hr2⟩
  | cons b bs ih =>
    intro st cur k hb hr hy hk
    obtain ⟨k, rfl⟩ : ∃ k', k = k' + 1 := ⟨k - 1, by omega⟩
    cases hi : cur[st.idx]? with
    | some v =>
      have hd : cur.drop st.idx = v :: cur.drop (st.idx + 1) := by
        have hlt : st.idx < cur.length := by
          rcases Nat.lt_or_ge st.idx cur.length with h | h
          · exact h
          · rw [List.getElem?_eq_none h] at hi; cases hi
        rw [List.getElem?_eq_getElem hlt] at hi
        rw [List.drop_eq_getElem_cons hlt]
        simp at hi
        rw [hi]
      refine ⟨fun h => by simp [hd] at h, fun y ys h => ?_⟩
      simp only [hd, List.cons_append, List.cons.injEq] at h
      have e : unbLoop src (k + 1) st = (.item v, { st with idx := st.idx + 1 }) := by
        simp only [unbLoop, hb, hi]
      rw [e]
      exact ⟨by rw [h.1], rfl, cur, b :: bs, hb, hy, h.2, Nat.le_refl _, hr⟩
    | none =>
      have hd : cur.drop st.idx = [] := by
        rw [List.getElem?_eq_none_iff] at hi
        exact List.drop_eq_nil_of_le hi
      have hy' : Yields src (src.rget st.inner).2 ((b :: bs).map Item.list) :=
        Yields.congr (hg _ hr).symm hy
      rcases hx : src.rnext (src.rget st.inner).2 with ⟨o, r2⟩
      have hr2 : src.Reach r2 := by
        have := Node.Reach.next (Node.Reach.get hr)
        rw [hx] at this
        exact this
      have h1 := hy'.1
      have h2 := hy'.2
      rw [hx] at h1 h2
      simp only at h1 h2
      subst h1
      have := ih { st with inner := r2, batch := .list b, idx := 0, cached := some (src.rget st.inner).1 } b k
        rfl hr2 h2 (by simp at hk; omega)
      simp only [List.drop_zero] at this
      have e : unbLoop src (k + 1) st = unbLoop src k
          { st with inner := r2, batch := .list b, idx := 0, cached := some (src.rget st.inner).1 } := by
        simp only [unbLoop, hb, hi, hx]
      rw [e]
      simp only [hd, List.nil_append, List.flatten_cons]
      refine ⟨this.1, fun y ys h => ?_⟩
      obtain ⟨a1, a2, cur', bs', a3, a4, a5, a6, a7⟩ := this.2 y ys h
      exact ⟨a1, a2, cur', bs', a3, a4, a5, by simp; omega, a7⟩

theorem unbNext_ok (src : Node) (fuel : Nat) (st : UnbSt src) (h : st.bad = false) :
    unbNext src fuel st = unbLoop src fuel st := by
  simp [unbNext, h]

theorem unbatcher_stops (fuel : Nat) (src : Node) (hg : GetTransparent src) (hf : 0 < fuel) :
    ∀ R : Run (unbatcher fuel src),
      ((R.st : UnbSt src).bad = false ∧
        (∃ cur, (R.st : UnbSt src).batch = .list cur ∧ cur.drop (R.st : UnbSt src).idx = []) ∧
        Stops src (R.st : UnbSt src).inner ∧ src.Reach (R.st : UnbSt src).inner) →
      Stops (unbatcher fuel src) R := by
  refine stops_of_inv (n := unbatcher fuel src) _ ?_
  rintro R ⟨hb, ⟨cur, hc, hd⟩, hs, hr⟩
  have sp := (unbLoop_spec src hg [] (R.st : UnbSt src) cur fuel hc hr hs (by simpa using hf)).1 (by simp [hd])
  rw [unbatcher_rnext, unbNext_ok src fuel _ hb]
  exact ⟨sp.1, sp.2.1.trans hb, sp.2.2.1, sp.2.2.2.1, sp.2.2.2.2⟩

theorem unbatcher_yields_aux (fuel : Nat) (src : Node) (hg : GetTransparent src) (n : Nat) :
    ∀ (bs : List (List Item)) (cur : List Item) (R : Run (unbatcher fuel src)),
      (cur.drop (R.st : UnbSt src).idx ++ bs.flatten).length ≤ n →
      (R.st : UnbSt src).bad = false → (R.st : UnbSt src).batch = .list cur →
      src.Reach (R.st : UnbSt src).inner → Yields src (R.st : UnbSt src).inner (bs.map Item.list) →
      bs.length < fuel →
      Yields (unbatcher fuel src) R (cur.drop (R.st : UnbSt src).idx ++ bs.flatten) := by
  induction n with
  | zero =>
    intro bs cur R hl hb hc hr hy hf
    have he : cur.drop (R.st : UnbSt src).idx ++ bs.flatten = [] := List.eq_nil_of_length_eq_zero (by omega)
    have sp := (unbLoop_spec src hg bs (R.st : UnbSt src) cur fuel hc hr hy hf).1 he
    rw [he]
    refine stops_iff.mpr ⟨?_, ?_⟩
    · rw [unbatcher_rnext, unbNext_ok src fuel _ hb]; exact sp.1
    · apply unbatcher_stops fuel src hg (by omega)
      rw [unbatcher_rnext, unbNext_ok src fuel _ hb]
      exact ⟨sp.2.1.trans hb, sp.2.2.1, sp.2.2.2.1, sp.2.2.2.2⟩
  | succ n ih =>
    intro bs cur R hl hb hc hr hy hf
    have sp := unbLoop_spec src hg bs (R.st : UnbSt src) cur fuel hc hr hy hf
    cases he : cur.drop (R.st : UnbSt src).idx ++ bs.flatten with
    | nil =>
      have sp := sp.1 he
      refine stops_iff.mpr ⟨?_, ?_⟩
      · rw [unbatcher_rnext, unbNext_ok src fuel _ hb]; exact sp.1
      · apply unbatcher_stops fuel src hg (by omega)
        rw [unbatcher_rnext, unbNext_ok src fuel _ hb]
        exact ⟨sp.2.1.trans hb, sp.2.2.1, sp.2.2.2.1, sp.2.2.2.2⟩
    | cons y ys =>
      obtain ⟨a1, a2, cur', bs', a3, a4, a5, a6, a7⟩ := sp.2 y ys he
      refine ⟨?_, ?_⟩
      · rw [unbatcher_rnext, unbNext_ok src fuel _ hb]; exact a1
      · have key := ih bs' cur' ((unbatcher fuel src).rnext R).2
        rw [unbatcher_rnext, unbNext_ok src fuel _ hb] at key
        rw [unbatcher_rnext, unbNext_ok src fuel _ hb]
        rw [← a5]
        apply key
        · rw [a5]; rw [he] at hl; simp at hl; omega
        · exact a2.trans hb
        · exact a3
        · exact a7
        · exact a4
        · omega

/-- General form of `unbatcher_denote`: from any unbatcher state holding `cur` from position `idx`. -/
theorem unbatcher_yields (fuel : Nat) (src : Node) (hg : GetTransparent src)
    (bs : List (List Item)) (cur : List Item) (R : Run (unbatcher fuel src))
    (hb : (R.st : UnbSt src).bad = false) (hc : (R.st : UnbSt src).batch = .list cur)
    (hr : src.Reach (R.st : UnbSt src).inner) (hy : Yields src (R.st : UnbSt src).inner (bs.map Item.list))
    (hf : bs.length < fuel) :
    Yields (unbatcher fuel src) R (cur.drop (R.st : UnbSt src).idx ++ bs.flatten) :=
  unbatcher_yields_aux fuel src hg _ bs cur R (Nat.le_refl _) hb hc hr hy hf

/-! ## buffered -/

theorem buffered_rnext (sf : Nat) (src : Node) (R : Run (buffered sf src)) :
    (buffered sf src).rnext R =
      ((bufNext src sf (R.st : BufSt src)).1, ⟨(bufNext src sf (R.st : BufSt src)).2, true⟩) := rfl

theorem buffered_stops (sf : Nat) (src : Node) :
    ∀ R : Run (buffered sf src),
      ((R.st : BufSt src).bad = false ∧ ((R.st : BufSt src).done = true ∨ Stops src (R.st : BufSt src).inner)) →
      Stops (buffered sf src) R := by
  refine stops_of_inv (n := buffered sf src) _ ?_
  intro R
  obtain ⟨st0, b⟩ := R
  generalize hst : (st0 : BufSt src) = st
  subst hst
  rintro ⟨hb, hd⟩
  rw [buffered_rnext]
  simp only at hb hd ⊢
  by_cases hdone : (st0 : BufSt src).done = true
  · have e : bufNext src sf st0 = (.stop, st0) := by
      simp [bufNext, hb, hdone] <;> rfl
    rw [e]
    exact ⟨rfl, hb, Or.inl hdone⟩
  · have hs : Stops src (st0 : BufSt src).inner := by
      rcases hd with h | h
      · exact absurd h hdone
      · exact h
    have h' := stops_iff.mp hs
    rcases hx : src.rnext (st0 : BufSt src).inner with ⟨o, r'⟩
    rw [hx] at h'
    simp only at h'
    have hdone' : (st0 : BufSt src).done = false := by simpa using hdone
    have e : bufNext src sf st0 = (.stop, { (st0 : BufSt src) with inner := r', done := true }) := by
      simp only [bufNext, hb, hdone', Bool.false_eq_true, if_false, hx, h'.1]
    rw [e]
    exact ⟨rfl, hb, Or.inl rfl⟩

theorem buffered_yields_st (sf : Nat) (src : Node) (hg : GetTransparent src) (xs : List Item) :
    ∀ (st : BufSt src) (b : Bool), st.bad = false → st.done = false →
      src.Reach st.inner → Yields src st.inner xs → Yields (buffered sf src) ⟨st, b⟩ xs := by
  induction xs with
  | nil =>
    intro st b hb _ _ hy
    exact buffered_stops sf src ⟨st, b⟩ ⟨hb, Or.inr hy⟩
  | cons x xs ih =>
    intro st b hb hd hr hy
    rcases hx : src.rnext st.inner with ⟨o, r'⟩
    have hr' : src.Reach r' := by
      have := Node.Reach.next hr
      rw [hx] at this
      exact this
    have h1 := hy.1
    have h2 := hy.2
    rw [hx] at h1 h2
    simp only at h1 h2
    subst h1
    by_cases hc : sf > 0 ∧ (st.yielded + 1) % sf = 0
    · have e : bufNext src sf st = (.item x, { st with inner := (src.rget r').2, snap := some (src.rget r').1, steps := 0, yielded := st.yielded + 1 }) := by
        simp only [bufNext, hb, hd, Bool.false_eq_true, if_false, hx, hc, and_self, if_true]
      refine ⟨?_, ?_⟩
      · rw [buffered_rnext]; simp only [e]
      · rw [buffered_rnext]; simp only [e]
        exact ih _ _ hb hd (Node.Reach.get hr') (Yields.congr (hg _ hr').symm h2)
    · have e : bufNext src sf st = (.item x, { st with inner := r', steps := st.steps + 1, yielded := st.yielded + 1 }) := by
        simp only [bufNext, hb, hd, Bool.false_eq_true, if_false, hx, hc]
      refine ⟨?_, ?_⟩
      · rw [buffered_rnext]; simp only [e]
      · rw [buffered_rnext]; simp only [e]
        exact ih _ _ hb hd hr' h2

theorem buffered_yields (sf : Nat) (src : Node) (hg : GetTransparent src) (xs : List Item)
    (R : Run (buffered sf src)) (hb : (R.st : BufSt src).bad = false) (hd : (R.st : BufSt src).done = false)
    (hr : src.Reach (R.st : BufSt src).inner) (hy : Yields src (R.st : BufSt src).inner xs) :
    Yields (buffered sf src) R xs := by
  obtain ⟨st, b⟩ := R
  exact buffered_yields_st sf src hg xs st b hb hd hr hy

/-! ## reference chunking -/

theorem chunkF_flatten (bs : Nat) (hbs : 1 ≤ bs) (fuel : Nat) :
    ∀ xs : List Item, xs.length ≤ fuel → (Ref.chunkF bs false fuel xs).flatten = xs := by
  induction fuel with
  | zero =>
    intro xs hl
    have : xs = [] := List.eq_nil_of_length_eq_zero (by omega)
    subst this; rfl
  | succ fuel ih =>
    intro xs hl
    by_cases hxs : xs = []
    · subst hxs; simp [Ref.chunkF]
    · have hne : xs.isEmpty = false := by cases xs <;> simp_all
      have hpos : 0 < xs.length := List.length_pos_iff.mpr hxs
      by_cases hlt : xs.length < bs
      · simp [Ref.chunkF, hne, hlt]
      · simp only [Ref.chunkF, hne, hlt, Bool.false_eq_true, if_false, List.flatten_cons]
        rw [ih (xs.drop bs) (by simp only [List.length_drop]; omega), List.take_append_drop]

theorem chunkF_length (bs : Nat) (dl : Bool) (hbs : 1 ≤ bs) (fuel : Nat) :
    ∀ xs : List Item, (Ref.chunkF bs dl fuel xs).length ≤ xs.length := by
  induction fuel with
  | zero => intro xs; simp [Ref.chunkF]
  | succ fuel ih =>
    intro xs
    by_cases hxs : xs = []
    · subst hxs; simp [Ref.chunkF]
    · have hne : xs.isEmpty = false := by cases xs <;> simp_all
      have hpos : 0 < xs.length := List.length_pos_iff.mpr hxs
      by_cases hlt : xs.length < bs
      · cases dl <;> simp [Ref.chunkF, hne, hlt] <;> omega
      · simp only [Ref.chunkF, hne, hlt, Bool.false_eq_true, if_false, List.length_cons]
        have := ih (xs.drop bs)
        simp only [List.length_drop] at this
        omega

theorem mapAll_total (f : Item → Option Item) (g : Item → Item) (hf : ∀ x, f x = some (g x)) :
    ∀ xs, mapAll f xs = some (xs.map g) := by
  intro xs
  induction xs with
  | nil => rfl
  | cons x xs ih => simp [mapAll, hf, ih]

end TDV.Node
