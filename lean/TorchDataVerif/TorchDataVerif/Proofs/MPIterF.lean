import TorchDataVerif.Proofs.MPIterE
import TorchDataVerif.Proofs.MPMapLive
/-!
# MP, iterable, in-order: every action preserves the invariant; the initial state; runs
-/
namespace TDV.MP

/-- Validity of an iterable configuration: one shard per worker. -/
def Cfg.ValidI (c : Cfg) : Prop := c.Valid ∧ c.shards.length = c.W

theorem FinI_of_eq (c : Cfg) (s s' : State) (g : Ghost) (t : List Obs) (h : FinI c s g) (ht : Obs.stop ∉ t)
    (e1 : s'.obs = s.obs ++ t) (e4 : s'.sendIdx = s.sendIdx) (e7 : s'.rcvdIdx = s.rcvdIdx) : FinI c s' g := by
  intro hst
  rw [e1, List.mem_append] at hst
  rcases hst with hst | hst
  · rw [e7, e4]; exact h hst
  · exact absurd hst ht

theorem InvI_obs_frame (c : Cfg) (s s' : State) (t : List Obs) (h : InvI c s) (ht : taskObs t = [])
    (hts : Obs.stop ∉ t)
    (e1 : s'.obs = s.obs ++ t) (e2 : s'.phase = s.phase) (e3 : s'.shutdown = s.shutdown)
    (e4 : s'.sendIdx = s.sendIdx) (e5 : s'.cyc = s.cyc) (e6 : s'.status = s.status) (e7 : s'.rcvdIdx = s.rcvdIdx)
    (e8 : s'.info = s.info) (e9 : s'.workers = s.workers) (e10 : s'.resQ = s.resQ) : InvI c s' := by
  obtain ⟨g, ho, hp, hf, hm⟩ := h.core
  refine ⟨by rw [e2]; exact h.ph, ?_, ⟨g, ?_, hp, FinI_of_eq c s s' g t hf hts e1 e4 e7, ?_⟩, ?_⟩
  rotate_left 3
  · rw [e2, e8]; intro hw
    obtain ⟨e, l, a1, a2, a3⟩ := h.wait hw
    exact ⟨e, l, a1, a2, by simpa [up, e6] using a3⟩
  · rw [e3, e7, e4, e2, e1]
    intro hs
    obtain ⟨a1, a2, a3⟩ := h.down hs
    exact ⟨a1, a2, List.mem_append_left _ a3⟩
  · rw [e7, e1, taskObs_append, ht, List.append_nil]; exact ho
  · rw [e3]; intro hs
    exact ⟨MidI_of_eq c s s' g none (hm hs).1 e4 e5 e6 e7 e8 e9 e10, LiveI_of_eq c s s' g (hm hs).2 e6 e7⟩

theorem step_invI (c : Cfg) (s s' : State) (a : Action) (hv : c.shards.length = c.W) (hit : c.iterable = true)
    (hio : c.inOrder = true)
    (ha : a ≠ .reset) (h : InvI c s) (hst : step c s a = some s') : InvI c s' ∨ died s' := by
  cases a with
  | reset => exact absurd rfl ha
  | work w =>
    left
    obtain ⟨g, ho, hp, hf, hm⟩ := h.core
    rcases Bool.eq_false_or_eq_true s.shutdown with hsd | hsd
    · simp only [step] at hst
      split at hst
      · cases hst
      · split at hst
        · cases hst
        · split at hst
          · cases hst
          · cases hst
            exact ⟨h.ph, h.down, ⟨g, ho, hp, hf, fun hf' => by simp only [hsd] at hf'; cases hf'⟩, h.wait⟩
    · obtain ⟨g', hm', hh, har, _⟩ := work_midI c s s' g none w hit (hm hsd).1 hsd hst
      simp only [step] at hst
      split at hst
      · cases hst
      · split at hst
        · cases hst
        · split at hst
          · cases hst
          · cases hst
            refine ⟨h.ph, h.down, ⟨g', ?_, ⟨_, _, hm'.live⟩, ?_, fun _ => ⟨hm', ?_⟩⟩, h.wait⟩
            · rw [hh]; exact ho
            · unfold FinI; rw [hh]; exact hf
            · have hl := (hm hsd).2
              rintro ⟨v, hv', hvu⟩
              obtain ⟨i, hi, w', hw', hc⟩ := hl ⟨v, hv', hvu⟩
              exact ⟨i, hi, w', by rw [hh]; exact hw', by rw [hh, har]; exact hc⟩
  | kill w =>
    left
    simp only [step] at hst
    split at hst
    · cases hst
    · rename_i k hk
      split at hst
      · cases hst
      · cases hst
        obtain ⟨g, ho, hp, hf, hm⟩ := h.core
        refine ⟨h.ph, h.down, ⟨g, ho, hp, hf, fun hs => ⟨?_, (hm hs).2⟩⟩, h.wait⟩
        have hm0 := (hm hs).1
        have hwl : w < s.workers.length := (List.getElem?_eq_some_iff.mp hk).1
        have := MidI_worker_frame c s { s with workers := s.workers.set w { k with alive := false } } g none g.tk hm0
          rfl rfl rfl rfl rfl (by simp [hm0.wlen]) ?_ hm0.rq hm0.rqw
        · exact this
        · intro w' k' hk'
          simp only [List.getElem?_set] at hk'
          by_cases hw : w = w'
          · subst hw
            simp only [if_true, hwl] at hk'
            cases hk'
            exact hm0.wk w k hk
          · simp only [hw, if_false] at hk'
            exact hm0.wk w' k' hk'
  | stateDict =>
    left
    simp only [step] at hst
    split at hst
    · cases hst
    · cases hst
      exact InvI_obs_frame c s _ [_] h (by simp [taskObs]) (by simp) rfl rfl rfl rfl rfl rfl rfl rfl rfl rfl
  | pollTimeout =>
    simp only [step] at hst
    split at hst
    · cases hst
    · split at hst
      · cases hst; exact Or.inl h
      · cases hst; right; simp [died]
  | next =>
    left
    simp only [step] at hst
    split at hst
    · cases hst
    · rename_i hph
      cases hst
      obtain ⟨g, ho, hp, hf, hm⟩ := h.core
      rcases Bool.eq_false_or_eq_true s.shutdown with hsd | hsd
      · obtain ⟨hrs, _, hstop⟩ := h.down hsd
        have hsw : shutdownWorkers c s = s := by simp [shutdownWorkers, hsd]
        have hif : (if c.persistent = true then s else shutdownWorkers c s) = s := by split <;> simp [hsw]
        unfold loopFuel
        rw [loop_done c _ s (by omega), hif]
        simp only [finish]
        exact ⟨by intro k; simp, fun _ => ⟨hrs, rfl, by simp⟩, ⟨g, by simpa [taskObs_append, taskObs] using ho, hp,
          fun _ => hf hstop, fun hf' => by simp only [hsd] at hf'; cases hf'⟩, (by intro hf'; cases hf')⟩
      · exact loop_invI c _ s g hv hit hio ⟨(hm hsd).1, ho, (hm hsd).2, hf⟩ hsd h.ph (by unfold loopFuel; omega)
  | recv =>
    left
    simp only [step] at hst
    split at hst
    · cases hst
    · rename_i r rest hq
      split at hst
      · cases hst
      · rename_i hph
        have hsd : s.shutdown = false := by
          rcases Bool.eq_false_or_eq_true s.shutdown with hsd | hsd
          · have := (h.down hsd).2.1; rw [hph] at this; cases this
          · exact hsd
        obtain ⟨g, ho, hp, hf, hm⟩ := h.core
        split at hst
        · cases hst
        · cases hst
          exact recvData_invI c s g r rest hv hit hio ⟨(hm hsd).1, ho, (hm hsd).2, hf⟩ hsd h.ph hq
      · rename_i k hph
        exact absurd hph (h.ph k)

theorem prime_MidI (c : Cfg) (n : Nat) (s : State) (g : Ghost) (hit : c.iterable = true) (hio : c.inOrder = true)
    (h : MidI c s g none) (hl : LiveI c s g) : ∃ g', MidI c (prime c n s) g' none ∧ LiveI c (prime c n s) g' := by
  induction n generalizing s g with
  | zero => exact ⟨g, h, hl⟩
  | succ n ih =>
    unfold prime
    obtain ⟨g', hg', _, _, _, hl'⟩ := MidI_tryPut c s g none hit hio h
    exact ih _ g' hg' hl'

theorem up_replicate' (W w : Nat) (st : List Bool) (hst : st = List.replicate W true) (hw : w < W) :
    st.getD w false = true := by
  subst hst
  simp [List.getD_eq_getElem?_getD, List.getElem?_replicate, hw]

theorem init_invI (c : Cfg) (hv : c.ValidI) (hit : c.iterable = true) (hio : c.inOrder = true) :
    InvI c (init c) := by
  unfold init resetTail
  generalize hs0 : ({ resetHead c _ with mainSnaps := [], lastW := c.W - 1, snap := _ } : State) = s0
  have e_st : s0.status = List.replicate c.W true := by subst hs0; rfl
  have e_w : s0.workers = List.replicate c.W ⟨[], 0, false, true⟩ := by subst hs0; rfl
  have e_q : s0.resQ = [] := by subst hs0; rfl
  have e_i : s0.info = [] := by subst hs0; rfl
  have e_s : s0.sendIdx = 0 := by subst hs0; rfl
  have e_r : s0.rcvdIdx = 0 := by subst hs0; rfl
  have e_c : s0.cyc = 0 := by subst hs0; rfl
  have e_o : s0.obs = [] := by subst hs0; rfl
  have e_p : s0.phase = .idle := by subst hs0; rfl
  have e_d : s0.shutdown = false := by subst hs0; rfl
  have hup : ∀ w, w < c.W → up s0 w = true := fun w hw => up_replicate' c.W w _ e_st hw
  have hmid0 : MidI c s0 ⟨[], 0, fun _ => 0, fun _ => 0⟩ none := by
    constructor
    · simp [e_s]
    · rw [e_c]; exact hv.1.1
    · intro i w hi; simp at hi
    · intro w hw _; simp [turns, e_c]
    · intro w hw hd; rw [hup w hw] at hd; cases hd
    · rw [e_c]; rfl
    · simp [e_r, e_i, e_s]
    · rw [e_i]; trivial
    · intro i w hi; rw [e_r] at hi; omega
    · intro w hw; simp [hup w hw]
    · intro w _; simp
    · simp [e_st]
    · simp [e_w]
    · intro w k hk
      rw [e_w, List.getElem?_replicate] at hk
      split at hk
      · cases hk; simp [taskIdxs, QChain]
      · cases hk
    · intro w _; simp [e_q, RChain]
    · intro r hr; rw [e_q] at hr; cases hr
  have hpos : 0 < c.P * c.W := Nat.mul_pos hv.1.2 hv.1.1
  obtain ⟨n, hn⟩ : ∃ n, c.P * c.W = n + 1 := ⟨c.P * c.W - 1, by omega⟩
  have hc := prime_sameCore c (c.P * c.W) s0
  rw [hn] at hc ⊢
  obtain ⟨g1, hg1, _, _, _, hl1⟩ := MidI_tryPut c s0 _ none hit hio hmid0
  obtain ⟨g', hg', hl'⟩ := prime_MidI c n (tryPut c s0) g1 hit hio hg1 hl1
  have hpe : prime c (n + 1) s0 = prime c n (tryPut c s0) := rfl
  rw [hpe] at hc ⊢
  refine ⟨(by rw [hc.phase, e_p]; intro k; simp), (by rw [hc.shutdown, e_d]; intro hf; cases hf), ⟨g', ?_,
    ⟨_, _, hg'.live⟩, ?_, fun _ => ⟨hg', hl'⟩⟩, (by rw [hc.phase, e_p]; intro hf; cases hf)⟩
  · rw [hc.rcvdIdx, hc.obs, e_r, e_o]
    exact trivial
  · intro hst; rw [hc.obs, e_o] at hst; cases hst

theorem run_invI (c : Cfg) (as : List Action) (s s' : State) (hv : c.shards.length = c.W) (hit : c.iterable = true)
    (hio : c.inOrder = true) (hnr : NoReset as) (h : InvI c s ∨ died s) (hr : run c s as = some s') :
    InvI c s' ∨ died s' := by
  induction as generalizing s with
  | nil => simp only [run] at hr; cases hr; exact h
  | cons a as ih =>
    simp only [run] at hr
    split at hr
    · cases hr
    · rename_i s1 hs1
      refine ih s1 hnr.2 ?_ hr
      rcases h with h | h
      · exact step_invI c s s1 a hv hit hio hnr.1 h hs1
      · exact Or.inr (died_step c s s1 a hs1 h)

theorem oks_prefix (a b : List Item) (h : a <+: b) : oks a <+: oks b := by
  obtain ⟨t, rfl⟩ := h
  rw [oks_append]; exact List.prefix_append _ _

theorem itemsOf_prefix (c : Cfg) (a b : List (Nat × Nat)) : itemsOf c a <+: itemsOf c (a ++ b) := by
  rw [itemsOf_append]; exact List.prefix_append _ _

/-- What the invariant says about the consumer's observations. -/
theorem InvI_obs (c : Cfg) (s : State) (hv : c.ValidI) (h : InvI c s) :
    ∃ D : List Item, ObsRel D (taskObs s.obs) ∧ D <+: Ref.interleave c.shards ∧
      (Obs.stop ∈ s.obs → D = Ref.interleave c.shards) := by
  obtain ⟨g, ho, ⟨ρ, a, hp⟩, hf, _⟩ := h.core
  refine ⟨_, ho, ?_, fun hst => (hf hst).2⟩
  have h1 : dataItems c (g.h.take s.rcvdIdx) <+: dataItems c g.h := by
    have := dataItems_prefix c (g.h.take s.rcvdIdx) (g.h.drop s.rcvdIdx)
    rwa [List.take_append_drop] at this
  have h2 : dataItems c g.h <+: Ref.interleave c.shards := by
    rw [dataItems_eq_itemsOf, ← itemsOf_liveFrom_zero c hv.2, ← hp]
    exact itemsOf_prefix c _ _
  exact List.IsPrefix.trans h1 h2

/-- Progress in an active iterable state: a blocked consumer is never stuck. -/
theorem progress_of_invI (c : Cfg) (s : State) (h : InvI c s) (hph : s.phase = .waiting) :
    (∃ s', step c s .recv = some s') ∨ (∃ w s', step c s (.work w) = some s') ∨
    (∃ s', step c s .pollTimeout = some s' ∧ died s') := by
  have hsd : s.shutdown = false := by
    rcases Bool.eq_false_or_eq_true s.shutdown with hsd | hsd
    · have := (h.down hsd).2.1; rw [hph] at this; cases this
    · exact hsd
  obtain ⟨g, _, _, _, hm⟩ := h.core
  obtain ⟨hm, _⟩ := hm hsd
  obtain ⟨e, l, hi, hres, hup⟩ := h.wait hph
  cases hq : s.resQ with
  | cons r rest =>
    left
    have hu : r.w < c.W := hm.rqw r (by rw [hq]; exact List.mem_cons_self ..)
    obtain ⟨rc, _⟩ := hm.rq r.w hu
    have hfil : s.resQ.filter (fun x => x.w == r.w) = r :: rest.filter (fun x => x.w == r.w) := by
      rw [hq]; simp [List.filter]
    rw [hfil] at rc
    have hna := kindAt_ne_ack c _ _ _ rc.1.2.2.2
    simp only [step, hq, hph, hna, if_false]
    exact ⟨_, rfl⟩
  | nil =>
    right
    have hinfo := hm.info
    rw [hi] at hinfo
    obtain ⟨_, h2, _, h4, _⟩ := hinfo
    have hw : e.w < c.W := hm.own _ _ h2
    obtain ⟨k, hk⟩ : ∃ k, s.workers[e.w]? = some k := ⟨_, List.getElem?_eq_getElem (by rw [hm.wlen]; exact hw)⟩
    obtain ⟨_, q2, _, _, _⟩ := hm.wk e.w k hk
    have r2 := (hm.rq e.w hw).2
    rw [hq] at r2
    simp only [List.filter_nil, List.length_nil, Nat.add_zero] at r2
    have harr := (hm.st e.w hw).mp hup
    have hseq := h4 hres (by simp)
    have hcnt := count_take_succ_le g.h e.w s.rcvdIdx h2
    have hqne : (taskIdxs k.q).length ≠ 0 := by omega
    have hkq : k.q ≠ [] := by intro hh; rw [hh] at hqne; simp [taskIdxs] at hqne
    rcases Bool.eq_false_or_eq_true k.alive with hal | hal
    · left
      refine ⟨e.w, ?_⟩
      cases hkq' : k.q with
      | nil => exact absurd hkq' hkq
      | cons m rest =>
        simp only [step, hk, hal, hkq', Bool.not_true, Bool.false_eq_true, if_false]
        exact ⟨_, rfl⟩
    · right
      obtain ⟨s', hs', hobs, _⟩ := pollTimeout_detects c s e.w k (by rw [hph]; simp) hq hw hup hk hal
      exact ⟨s', hs', by unfold died; rw [hobs]; simp⟩

end TDV.MP
