import TorchDataVerif.Proofs.MPRErrInv
/-!
# MPR with failing fetches: arithmetic of snapshot positions and of the replay window
-/
namespace TDV.MPR

open TDV.MP

theorem lastDue_idem (c : Cfg) (k : Nat) : lastDue c (lastDue c k) = lastDue c k := by
  induction k with
  | zero => rfl
  | succ k ih =>
    by_cases h : (mflag c k && okAt c k) = true
    · have e : lastDue c (k + 1) = k + 1 := by rw [lastDue]; simp [h]
      rw [e, e]
    · have e : lastDue c (k + 1) = lastDue c k := by rw [lastDue]; simp [h]
      rw [e, ih]

theorem okAt_true (c : Cfg) (i : Nat) (h : okAt c i = true) : ∃ b, c.batches[i]? = some (.ok b) := by
  unfold okAt at h
  split at h
  · rename_i b hb; exact ⟨b, hb⟩
  · cases h

/-- No failing fetch among tasks `m, …, m + j − 1`: yields and tasks advance together. -/
theorem okCount_window (c : Cfg) (m j : Nat) (h : ∀ i, m ≤ i → i < m + j → okAt c i = true) :
    okCount c (m + j) = okCount c m + j := by
  induction j with
  | zero => rfl
  | succ j ih =>
    obtain ⟨b, hb⟩ := okAt_true c (m + j) (h (m + j) (by omega) (by omega))
    rw [← Nat.add_assoc, okCount_succ c (m + j) _ hb, ih (fun i h1 h2 => h i h1 (by omega))]
    rfl

theorem okCount_mono (c : Cfg) (a b : Nat) (h : a ≤ b) : okCount c a ≤ okCount c b := by
  obtain ⟨d, rfl⟩ := Nat.exists_eq_add_of_le h
  unfold okCount
  rw [List.take_add, oks_append, List.length_append]
  omega

end TDV.MPR
