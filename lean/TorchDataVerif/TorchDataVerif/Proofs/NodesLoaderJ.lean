import TorchDataVerif.Proofs.NodesLoaderI
/-!
# Part J — the list-backed `Stateful` iterable `listIter l` satisfies `StOk` (non-vacuity of the `stateful` leaf)
-/
namespace TDV.E2EN
open TDV.Node TDV.Loader

theorem listIter_nxt (l : List Item) (s : Nat × Option Nat) :
    (listIter l).nxt s = (match l[s.1]? with | some v => (Out.item v, (s.1 + 1, s.2)) | none => (Out.stop, s)) := rfl

theorem listIter_stops (l : List Item) (p : Nat) (q : Option Nat) (b : Bool) (h : l.length ≤ p) :
    Stops (iterNode (listIter l)) ⟨(p, q), b⟩ := by
  refine stops_of_inv (n := iterNode (listIter l)) (fun r => l.length ≤ (r.st : Nat × Option Nat).1) ?_ _ h
  rintro ⟨⟨p', q'⟩, b'⟩ hp
  simp only at hp
  have e : (listIter l).nxt (p', q') = (Out.stop, (p', q')) := by
    rw [listIter_nxt, List.getElem?_eq_none hp]
    rfl
  refine ⟨?_, ?_⟩
  · show ((listIter l).nxt (p', q')).1 = Out.stop
    rw [e]
  · show l.length ≤ ((listIter l).nxt (p', q')).2.1
    rw [e]; exact hp

theorem listIter_yields (l : List Item) (n : Nat) :
    ∀ (p : Nat) (q : Option Nat) (b : Bool), l.length - p = n →
      Yields (iterNode (listIter l)) ⟨(p, q), b⟩ (l.drop p) := by
  induction n with
  | zero =>
    intro p q b h
    have hp : l.length ≤ p := by omega
    rw [List.drop_eq_nil_of_le hp]
    exact listIter_stops l p q b hp
  | succ n ih =>
    intro p q b h
    have hp : p < l.length := by omega
    have hd : l.drop p = l[p] :: l.drop (p + 1) := by simp
    rw [hd]
    have e : (listIter l).nxt (p, q) = (Out.item l[p], (p + 1, q)) := by
      rw [listIter_nxt, List.getElem?_eq_getElem hp]
      rfl
    refine ⟨?_, ?_⟩
    · show ((listIter l).nxt (p, q)).1 = Out.item l[p]
      rw [e]
    · show Yields (iterNode (listIter l)) ⟨((listIter l).nxt (p, q)).2, true⟩ (l.drop (p + 1))
      rw [e]
      exact ih (p + 1) q true (by omega)

theorem listIter_stOk (l : List Item) : StOk (listIter l) l := by
  refine ⟨Eq, fun s => s.2 = none, listIter_laws l, ?_, ?_, ?_⟩
  · rintro ⟨p, q⟩ _ e
    rw [listIter_nxt]
    cases l[p]? <;> (intro h; cases h)
  · rintro ⟨p, q⟩ _ v h
    rw [listIter_nxt] at h
    cases hx : l[p]? with
    | none => rw [hx] at h; cases h
    | some w =>
      rw [hx] at h
      cases h
      exact List.mem_of_getElem? hx
  · rintro ⟨p, q⟩ hq
    simp only at hq
    subst hq
    have := listIter_yields l l.length 0 none false rfl
    have e : (listIter l).iter (p, none) = (0, none) := rfl
    rw [e]
    simpa using this

end TDV.E2EN
