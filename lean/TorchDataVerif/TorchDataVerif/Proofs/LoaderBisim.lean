import TorchDataVerif.Proofs.LoaderEquiv
/-!
Loader-level bisimulation over a lawful, error-free root: `LR` relates two Loader systems that behave
alike under every further API call (`step_LR`).  Used for `resume_exact`, `get_transparent`,
`load_idempotent`.
-/
namespace TDV.Loader
open TDV.Node

section
variable {root : Node} (L : LawSpec root)

/-- `it` behaves like a cache-free iterator whose root is in state `x` (its *logical* root state): either
it has no look-ahead and `x` is its root state, or `has_next()` took the state dict at `x`, pulled item `v`
and holds both. -/
inductive Den : It root → Run root → Prop where
  | plain (it : It root) (x : Run root) : it.cached = none → it.cachedSd = none → Node.Reach root x →
      x = it.r → Den it x
  | ahead (it : It root) (x : Run root) (v : Item) (sd : SD root) : it.cached = some v →
      it.cachedSd = some sd → Node.Reach root x → sd.rootSd = (root.rget x).1 →
      (root.rnext (root.rget x).2).1 = Out.item v → it.r = (root.rnext (root.rget x).2).2 → Den it x

theorem Den.reach {it : It root} {x : Run root} (h : Den it x) : Node.Reach root x ∧ Node.Reach root it.r := by
  cases h with
  | plain _ _ hx he => exact ⟨hx, he ▸ hx⟩
  | ahead v sd _ _ hx _ _ hr => exact ⟨hx, hr ▸ Node.Reach.next (Node.Reach.get hx)⟩

/-- Two iterators with equivalent logical root states. -/
def ItRel (a b : It root) : Prop := ∃ x y, Den a x ∧ Den b y ∧ E L x y

/-- The user called `next()` since the iterator was last (re)started. -/
def Started (it : It root) : Prop := it.cached = none ∧ it.r.nexted = true

theorem den_next {it : It root} {x : Run root} (h : Den it x) :
    ∃ x', E L x' x ∧ x'.nexted = x.nexted ∧ (itNext root it).1 = (root.rnext x').1 ∧
      Den (itNext root it).2 (root.rnext x').2 ∧ (itNext root it).2.r = (root.rnext x').2 := by
  cases h with
  | plain hc hs hx he =>
    subst he
    refine ⟨it.r, E.rfl' L hx, rfl, ?_, ?_, ?_⟩
    · simp only [itNext, hc, itPull]
      cases (root.rnext it.r).1 <;> rfl
    · simp only [itNext, hc, itPull]
      cases (root.rnext it.r).1 <;> exact Den.plain _ _ rfl hs (Node.Reach.next hx) rfl
    · simp only [itNext, hc, itPull]
      cases (root.rnext it.r).1 <;> rfl
  | ahead v sd hc hs hx hsd hv hr =>
    refine ⟨(root.rget x).2, E.l1 L hx, rfl, ?_, ?_, ?_⟩
    · simp only [itNext, hc, hv]
    · simp only [itNext, hc]
      exact Den.plain _ _ rfl rfl (Node.Reach.next (Node.Reach.get hx)) hr.symm
    · simp only [itNext, hc]
      exact hr

theorem den_get {it : It root} {x : Run root} (h : Den it x) :
    (itGet root it).1.rootSd = (root.rget x).1 ∧
      ∃ x', E L x' x ∧ x'.nexted = x.nexted ∧ Den (itGet root it).2 x' := by
  cases h with
  | plain hc hs hx he =>
    subst he
    simp only [itGet, hs]
    exact ⟨trivial, _, E.l1 L hx, rfl, Den.plain _ _ hc rfl (Node.Reach.get hx) rfl⟩
  | ahead v sd hc hs hx hsd hv hr =>
    simp only [itGet, hs]
    exact ⟨hsd, x, E.rfl' L hx, rfl, Den.ahead _ _ v sd hc hs hx hsd hv hr⟩

theorem itNext_rel {a b : It root} (h : ItRel L a b) :
    (itNext root a).1 = (itNext root b).1 ∧ ItRel L (itNext root a).2 (itNext root b).2 := by
  obtain ⟨x, y, ha, hb, he⟩ := h
  obtain ⟨x', ex, nx, ox, dx, _⟩ := den_next L ha
  obtain ⟨y', ey, ny, oy, dy, _⟩ := den_next L hb
  have h1 : E L x' y := E.transM L ex he (Or.inl nx.symm)
  have h2 : E L x' y' := E.transM L h1 (E.symm ey) (Or.inr ny.symm)
  have hn := E.next L h2
  exact ⟨by rw [ox, oy, hn.1], _, _, dx, dy, hn.2⟩

theorem itGet_rel {a b : It root} (h : ItRel L a b) :
    EQ L (itGet root a).1.rootSd (itGet root b).1.rootSd ∧ ItRel L (itGet root a).2 (itGet root b).2 := by
  obtain ⟨x, y, ha, hb, he⟩ := h
  obtain ⟨ga, x', ex, nx, dx⟩ := den_get L ha
  obtain ⟨gb, y', ey, ny, dy⟩ := den_get L hb
  have h1 : E L x' y := E.transM L ex he (Or.inl nx.symm)
  have h2 : E L x' y' := E.transM L h1 (E.symm ey) (Or.inr ny.symm)
  exact ⟨by rw [ga, gb]; exact (E.get L he).1, _, _, dx, dy, h2⟩

/-- `reset(sd)` forgets the iterator it is applied to. -/
theorem itResetSome_rel {a b : It root} (ha : Held a.r) (hb : Held b.r) {x y : SD root}
    (hxy : EQ L x.rootSd y.rootSd) : ItRel L (itReset root a (some x)) (itReset root b (some y)) := by
  have he := E.forget L hxy ha hb
  exact ⟨_, _, Den.plain _ _ rfl rfl he.reach.1 rfl, Den.plain _ _ rfl rfl he.reach.2 rfl, he⟩

/-- A plain `reset()`: a new epoch, covered when the user has called `next()` on both sides (or the two
sides are one and the same). -/
theorem itResetNone_rel {a b : It root} (h : ItRel L a b) (hs : (Started a ∧ Started b) ∨ a = b) :
    ItRel L (itReset root a none) (itReset root b none) := by
  obtain ⟨x, y, ha, hb, he⟩ := h
  rcases hs with ⟨⟨ca, na⟩, ⟨cb, nb⟩⟩ | hab
  · cases ha with
    | ahead v sd hc _ _ _ _ _ => rw [hc] at ca; cases ca
    | plain _ _ hx hxe =>
      cases hb with
      | ahead v sd hc _ _ _ _ _ => rw [hc] at cb; cases cb
      | plain _ _ hy hye =>
        subst hxe hye
        have hr := E.resetNone L he na nb
        exact ⟨_, _, Den.plain _ _ rfl rfl hr.reach.1 rfl, Den.plain _ _ rfl rfl hr.reach.2 rfl, hr⟩
  · subst hab
    have hr : Node.Reach root (root.rreset a.r none) := Node.Reach.resetNone ha.reach.2
    exact ⟨_, _, Den.plain _ _ rfl rfl hr rfl, Den.plain _ _ rfl rfl hr rfl, E.rfl' L hr⟩

/-- The first epoch of two new loaders. -/
theorem newIt_rel :
    ItRel L (itReset root (newIt root root.rfresh) none) (itReset root (newIt root root.rfresh) none) := by
  have hr : Node.Reach root (root.rreset root.rfresh none) := Node.Reach.initNone
  exact ⟨_, _, Den.plain _ _ rfl rfl hr rfl, Den.plain _ _ rfl rfl hr rfl, E.rfl' L hr⟩


theorem held_reset {r : Run root} (hr : Held r) {x : root.S} (hx : Tok x) :
    Node.Reach root (root.rreset r (some x)) := by
  obtain ⟨s, hs, rfl⟩ := hx
  rcases hr with hr | hr
  · exact Node.Reach.resetSome hr hs
  · rw [hr]
    exact Node.Reach.initSome hs

/-- `has_next()` right after a reset, spelled out. -/
theorem itHasNext_plain (r : Run root) (ny : Nat) :
    itHasNext root ⟨r, ny, none, none⟩ =
      match (root.rnext (root.rget r).2).1 with
      | .item v => (.yes, ⟨(root.rnext (root.rget r).2).2, ny + 1, some v, some ⟨(root.rget r).1, ny⟩⟩)
      | .stop => (.no, ⟨(root.rnext (root.rget r).2).2, ny, none, none⟩)
      | .error e => (.err e, ⟨(root.rnext (root.rget r).2).2, ny, none, some ⟨(root.rget r).1, ny⟩⟩) := by
  simp only [itHasNext, itGet, itPull]
  cases (root.rnext (root.rget r).2).1 <;> rfl

/-- What `__iter__` does with a loaded state, on one side: the iterator ends up with logical root state
`reset(sd)`, or, if that state is at the end of its epoch and `restart_on_stop_iteration`, at the start of
the next epoch. -/
theorem startSome_den (hne : NoError root) (restart flag : Bool) {it0 : It root} {sd : SD root}
    (hr : Held it0.r) (ht : Tok sd.rootSd) :
    (startIt root restart (some sd) flag it0).err = none ∧
    (startIt root restart (some sd) flag it0).pending = none ∧
    (startIt root restart (some sd) flag it0).iterForSd = flag ∧
    ((restart = true ∧ (root.rnext (root.rget (root.rreset it0.r (some sd.rootSd))).2).1 = Out.stop ∧
        Den (startIt root restart (some sd) flag it0).it
          (root.rreset (root.rnext (root.rget (root.rreset it0.r (some sd.rootSd))).2).2 none)) ∨
      ((restart = false ∨ ∃ v, (root.rnext (root.rget (root.rreset it0.r (some sd.rootSd))).2).1 = Out.item v) ∧
        Den (startIt root restart (some sd) flag it0).it (root.rreset it0.r (some sd.rootSd)))) := by
  have h1 := held_reset hr ht
  cases restart with
  | false =>
    simp only [startIt]
    exact ⟨rfl, rfl, rfl, Or.inr ⟨Or.inl (by first | rfl | trivial), Den.plain _ _ rfl rfl h1 rfl⟩⟩
  | true =>
    simp only [startIt, itReset, itHasNext_plain, if_true]
    cases ho : (root.rnext (root.rget (root.rreset it0.r (some sd.rootSd))).2).1 with
    | item v =>
      exact ⟨rfl, rfl, rfl, Or.inr ⟨Or.inr ⟨v, rfl⟩, Den.ahead _ _ v _ rfl rfl h1 rfl ho rfl⟩⟩
    | stop =>
      refine ⟨rfl, rfl, rfl, Or.inl ⟨by first | rfl | trivial, by first | rfl | trivial, Den.plain _ _ rfl rfl ?_ rfl⟩⟩
      exact Node.Reach.resetNone (Node.Reach.next (Node.Reach.get h1))
    | error e => exact absurd ho (hne _ (Node.Reach.get h1) e)

/-- ... on both sides with equivalent state dicts. -/
theorem startSome_rel (hne : NoError root) (restart fa fb : Bool) {a b : It root} {x y : SD root}
    (ha : Held a.r) (hb : Held b.r) (hxy : EQ L x.rootSd y.rootSd) :
    (startIt root restart (some x) fa a).err = none ∧ (startIt root restart (some y) fb b).err = none ∧
    (startIt root restart (some x) fa a).pending = none ∧ (startIt root restart (some y) fb b).pending = none ∧
    (startIt root restart (some x) fa a).iterForSd = fa ∧ (startIt root restart (some y) fb b).iterForSd = fb ∧
    ItRel L (startIt root restart (some x) fa a).it (startIt root restart (some y) fb b).it := by
  obtain ⟨a1, a2, a3, a4⟩ := startSome_den hne restart fa ha hxy.tok.1
  obtain ⟨b1, b2, b3, b4⟩ := startSome_den hne restart fb hb hxy.tok.2
  refine ⟨a1, b1, a2, b2, a3, b3, ?_⟩
  have he := E.forget L hxy ha hb
  have hn := E.next L (E.get L he).2
  rcases a4 with ⟨_, sa, da⟩ | ⟨ca, da⟩
  · rcases b4 with ⟨_, sb, db⟩ | ⟨cb, db⟩
    · exact ⟨_, _, da, db, E.resetNone L hn.2 rfl rfl⟩
    · rcases cb with cb | ⟨v, cb⟩
      · subst cb
        rename_i h
        cases h
      · rw [hn.1, cb] at sa
        cases sa
  · rcases b4 with ⟨hr, sb, db⟩ | ⟨cb, db⟩
    · rcases ca with ca | ⟨v, ca⟩
      · subst ca
        cases hr
      · rw [← hn.1, ca] at sb
        cases sb
    · exact ⟨_, _, da, db, he⟩


/-- Equivalent Loader state dicts. -/
def TQ (x y : SD root) : Prop := EQ L x.rootSd y.rootSd

/-- Well-formedness of reachable Loader states: the root object is in a state the Loader may hold; an
iterator created only for a `state_dict()` is in nobody's hands; without an iterator there is no flag, no
iterator in hand, and the root is untouched unless a load is pending. -/
structure WF (s : State root) : Prop where
  held : Held s.base
  flag : s.iterForSd = true → s.handle = false
  noIt : s.it = none → s.iterForSd = false ∧ s.handle = false ∧ (s.pending = none → s.base = root.rfresh)

theorem wf_some {i : It root} {p : Option (SD root)} {f h : Bool} {bs : Run root} (hb : Held bs)
    (hf : f = true → h = false) : WF (⟨some i, p, f, h, bs⟩ : State root) :=
  ⟨hb, hf, (fun h0 => nomatch h0)⟩

theorem wf_init : WF (State.init root) :=
  ⟨Or.inr rfl, (fun h => nomatch h), fun _ => ⟨rfl, rfl, fun _ => rfl⟩⟩

structure LRSt (a b : State root) : Prop where
  pending : ORel (TQ L) a.pending b.pending
  flag : a.iterForSd = b.iterForSd
  handle : a.handle = b.handle
  it : ORel (ItRel L) a.it b.it
  wfa : WF a
  wfb : WF b

/-- The Loader-level bisimulation. -/
structure LR (a b : Sys root) : Prop where
  toks : LRel (TQ L) a.toks b.toks
  st : LRSt L a.st b.st

/-- The one case `LR` does not cover: `iter()` starting a new epoch on an existing iterator from which the
user has not requested an item since it was (re)started. -/
def OkIter (s : State root) : Prop :=
  ∀ it, s.it = some it → s.iterForSd = false → s.pending = none → Started it

def OkStep (s : Sys root) : Op → Prop
  | .iter => OkIter s.st
  | _ => True

theorem itRel_held {a b : It root} (h : ItRel L a b) : Held a.r ∧ Held b.r := by
  obtain ⟨x, y, ha, hb, _⟩ := h
  exact ⟨Or.inl ha.reach.2, Or.inl hb.reach.2⟩

/-- `__iter__` on related states: no exception, the flag is down afterwards, related pending states and
iterators. -/
theorem iterCore_rel (hne : NoError root) (restart : Bool) {a b : State root} (h : LRSt L a b)
    (hg : (OkIter a ∧ OkIter b) ∨ a = b) :
    (iterCore root restart a).err = none ∧ (iterCore root restart b).err = none ∧
    (iterCore root restart a).iterForSd = false ∧ (iterCore root restart b).iterForSd = false ∧
    ORel (TQ L) (iterCore root restart a).pending (iterCore root restart b).pending ∧
    ItRel L (iterCore root restart a).it (iterCore root restart b).it := by
  obtain ⟨ia, pa, fa, ha, ba⟩ := a
  obtain ⟨ib, pb, fb, hb, bb⟩ := b
  have hp := h.pending
  have hf := h.flag
  have hi := h.it
  have wa := h.wfa
  have wb := h.wfb
  simp only at hp hf hi
  subst hf
  rw [iterCore_eq, iterCore_eq]
  -- the (re)start of an iterator, both sides
  have start : ∀ (xa xb : It root), Held xa.r → Held xb.r →
      (pa = none → pb = none → ItRel L (itReset root xa none) (itReset root xb none)) →
      (startIt root restart pa fa xa).err = none ∧ (startIt root restart pb fa xb).err = none ∧
      (startIt root restart pa fa xa).iterForSd = fa ∧ (startIt root restart pb fa xb).iterForSd = fa ∧
      ORel (TQ L) (startIt root restart pa fa xa).pending (startIt root restart pb fa xb).pending ∧
      ItRel L (startIt root restart pa fa xa).it (startIt root restart pb fa xb).it := by
    intro xa xb hxa hxb hnone
    cases pa with
    | some x =>
      cases pb with
      | none => exact absurd hp (by simp [ORel])
      | some y =>
        obtain ⟨h1, h2, h3, h4, h5, h6, h7⟩ := startSome_rel L hne restart fa fa hxa hxb hp
        refine ⟨h1, h2, h5, h6, ?_, h7⟩
        simp only [h3, h4, ORel]
    | none =>
      cases pb with
      | some y => exact absurd hp (by simp [ORel])
      | none => exact ⟨rfl, rfl, rfl, rfl, trivial, hnone rfl rfl⟩
  cases ia with
  | none =>
    cases ib with
    | some j => exact absurd hi (by simp [ORel])
    | none =>
      have fa0 : fa = false := (wa.noIt rfl).1
      subst fa0
      refine start (newIt root ba) (newIt root bb) wa.held wb.held ?_
      intro h1 h2
      have e1 : ba = root.rfresh := (wa.noIt rfl).2.2 h1
      have e2 : bb = root.rfresh := (wb.noIt rfl).2.2 h2
      subst e1 e2
      exact newIt_rel L
  | some i =>
    cases ib with
    | none => exact absurd hi (by simp [ORel])
    | some j =>
      cases fa with
      | true => exact ⟨rfl, rfl, rfl, rfl, hp, hi⟩
      | false =>
        refine start i j (itRel_held L hi).1 (itRel_held L hi).2 ?_
        intro h1 h2
        refine itResetNone_rel L hi ?_
        rcases hg with ⟨ga, gb⟩ | hab
        · exact Or.inl ⟨ga i rfl rfl h1, gb j rfl rfl h2⟩
        · injection hab with e1
          injection e1 with e1
          exact Or.inr e1

theorem lrSt_init : LRSt L (State.init root) (State.init root) :=
  ⟨trivial, rfl, rfl, trivial, wf_init, wf_init⟩

theorem next_rel {a b : State root} (h : LRSt L a b) :
    (next root a).1 = (next root b).1 ∧ LRSt L (next root a).2 (next root b).2 := by
  obtain ⟨ia, pa, fa, ha, ba⟩ := a
  obtain ⟨ib, pb, fb, hb, bb⟩ := b
  have hp := h.pending
  have hf := h.flag
  have hh := h.handle
  have hi := h.it
  have wa := h.wfa
  have wb := h.wfb
  simp only at hp hf hh hi
  subst hh
  cases ha with
  | false => exact ⟨rfl, h⟩
  | true =>
    cases ia with
    | none =>
      cases ib with
      | some j => exact absurd hi (by simp [ORel])
      | none => exact ⟨rfl, h⟩
    | some i =>
      cases ib with
      | none => exact absurd hi (by simp [ORel])
      | some j =>
        have hn := itNext_rel L hi
        simp only [next]
        exact ⟨by rw [hn.1], hp, hf, rfl, hn.2, wf_some wa.held wa.flag, wf_some wb.held wb.flag⟩

theorem stateDict_rel (hne : NoError root) (restart : Bool) {a b : State root} (h : LRSt L a b) :
    ∃ x y, (stateDict root restart a).1 = Except.ok x ∧ (stateDict root restart b).1 = Except.ok y ∧
      TQ L x y ∧ LRSt L (stateDict root restart a).2 (stateDict root restart b).2 := by
  obtain ⟨ia, pa, fa, ha, ba⟩ := a
  obtain ⟨ib, pb, fb, hb, bb⟩ := b
  have hp := h.pending
  have hf := h.flag
  have hh := h.handle
  have hi := h.it
  have wa := h.wfa
  have wb := h.wfb
  simp only at hp hf hh hi
  subst hh
  cases ia with
  | some i =>
    cases ib with
    | none => exact absurd hi (by simp [ORel])
    | some j =>
      have hg := itGet_rel L hi
      exact ⟨_, _, rfl, rfl, hg.1, hp, hf, rfl, hg.2, wf_some wa.held wa.flag, wf_some wb.held wb.flag⟩
  | none =>
    cases ib with
    | some j => exact absurd hi (by simp [ORel])
    | none =>
      have hok : ∀ (p : Option (SD root)) (f : Bool) (bs : Run root), OkIter (⟨none, p, f, ha, bs⟩ : State root) := by
        intro p f bs it hit
        cases hit
      obtain ⟨e1, e2, _, _, hpd, hit⟩ := iterCore_rel L hne restart h (Or.inl ⟨hok pa fa ba, hok pb fb bb⟩)
      have hg := itGet_rel L hit
      have hha : ha = false := (wa.noIt rfl).2.1
      simp only [stateDict, e1, e2]
      exact ⟨_, _, rfl, rfl, hg.1, hpd, rfl, rfl, hg.2, wf_some wa.held (fun _ => hha),
        wf_some wb.held (fun _ => hha)⟩

/-- `load_state_dict` of equivalent state dicts. -/
theorem load_rel {a b : State root} (h : LRSt L a b) {x y : SD root} (hxy : TQ L x y) :
    LRSt L (load root a x) (load root b y) := by
  obtain ⟨ia, pa, fa, ha, ba⟩ := a
  obtain ⟨ib, pb, fb, hb, bb⟩ := b
  have hf := h.flag
  have hh := h.handle
  have hi := h.it
  have wa := h.wfa
  have wb := h.wfb
  simp only at hf hh hi
  subst hf hh
  cases ia with
  | none =>
    cases ib with
    | some j => exact absurd hi (by simp [ORel])
    | none =>
      have f0 : fa = false := (wa.noIt rfl).1
      subst f0
      exact ⟨hxy, rfl, rfl, trivial,
        ⟨wa.held, (fun h => nomatch h), fun _ => ⟨rfl, (wa.noIt rfl).2.1, (fun h => nomatch h)⟩⟩,
        ⟨wb.held, (fun h => nomatch h), fun _ => ⟨rfl, (wb.noIt rfl).2.1, (fun h => nomatch h)⟩⟩⟩
  | some i =>
    cases ib with
    | none => exact absurd hi (by simp [ORel])
    | some j =>
      cases fa with
      | false =>
        exact ⟨hxy, rfl, rfl, hi, wf_some wa.held (fun h => nomatch h), wf_some wb.held (fun h => nomatch h)⟩
      | true =>
        have hh0 : ha = false := wa.flag rfl
        exact ⟨hxy, rfl, rfl, trivial,
          ⟨(itRel_held L hi).1, (fun h => nomatch h), fun _ => ⟨rfl, hh0, (fun h => nomatch h)⟩⟩,
          ⟨(itRel_held L hi).2, (fun h => nomatch h), fun _ => ⟨rfl, hh0, (fun h => nomatch h)⟩⟩⟩

theorem step_LR (hne : NoError root) (restart : Bool) {a b : Sys root} (h : LR L a b) (op : Op)
    (hg : (OkStep a op ∧ OkStep b op) ∨ a = b) :
    (step root restart a op).1 = (step root restart b op).1 ∧
      LR L (step root restart a op).2 (step root restart b op).2 := by
  have hst := h.st
  cases op with
  | iter =>
    have hg' : (OkIter a.st ∧ OkIter b.st) ∨ a.st = b.st := by
      rcases hg with hg | hg
      · exact Or.inl hg
      · exact Or.inr (by rw [hg])
    simp only [step, iter]
    obtain ⟨e1, e2, f1, f2, hpd, hit⟩ := iterCore_rel L hne restart hst hg'
    rw [e1, e2]
    exact ⟨rfl, h.toks, hpd, by rw [f1, f2], rfl, hit,
      wf_some hst.wfa.held (by rw [f1]; exact fun h => nomatch h),
      wf_some hst.wfb.held (by rw [f2]; exact fun h => nomatch h)⟩
  | next =>
    have hn := next_rel L hst
    exact ⟨hn.1, h.toks, hn.2⟩
  | stateDict =>
    obtain ⟨x, y, e1, e2, hq, hr⟩ := stateDict_rel L hne restart hst
    simp only [step, e1, e2]
    exact ⟨trivial, lrel_append h.toks hq, hr⟩
  | peek =>
    obtain ⟨x, y, e1, e2, hq, hr⟩ := stateDict_rel L hne restart hst
    simp only [step, e1, e2]
    exact ⟨trivial, h.toks, hr⟩
  | load i =>
    have hget := lrel_get h.toks i
    simp only [step]
    cases h1 : a.toks[i]? with
    | none =>
      cases h2 : b.toks[i]? with
      | none => exact ⟨rfl, h⟩
      | some y => rw [h1, h2] at hget; exact absurd hget (by simp [ORel])
    | some x =>
      cases h2 : b.toks[i]? with
      | none => rw [h1, h2] at hget; exact absurd hget (by simp [ORel])
      | some y =>
        rw [h1, h2] at hget
        exact ⟨rfl, h.toks, load_rel L hst hget⟩
  | abandon =>
    refine ⟨rfl, h.toks, hst.pending, hst.flag, rfl, hst.it, ?_, ?_⟩
    · exact ⟨hst.wfa.held, fun _ => rfl, fun h0 => ⟨(hst.wfa.noIt h0).1, rfl, (hst.wfa.noIt h0).2.2⟩⟩
    · exact ⟨hst.wfb.held, fun _ => rfl, fun h0 => ⟨(hst.wfb.noIt h0).1, rfl, (hst.wfb.noIt h0).2.2⟩⟩
  | fresh => exact ⟨rfl, h.toks, lrSt_init L⟩

/-- `ops` never makes `iter()` start a new epoch on an iterator from which no item was requested. -/
def Good (restart : Bool) : Sys root → List Op → Prop
  | _, [] => True
  | s, op :: ops => OkStep s op ∧ Good restart (step root restart s op).2 ops

theorem obs_LR (hne : NoError root) (restart : Bool) (ops : List Op) {a b : Sys root} (h : LR L a b)
    (ga : Good restart a ops) (gb : Good restart b ops) :
    obs root restart a ops = obs root restart b ops ∧
      LR L (exec root restart a ops) (exec root restart b ops) := by
  induction ops generalizing a b with
  | nil => exact ⟨rfl, h⟩
  | cons op ops ih =>
    have hs := step_LR L hne restart h op (Or.inl ⟨ga.1, gb.1⟩)
    have hr := ih hs.2 ga.2 gb.2
    simp only [obs, exec]
    exact ⟨by rw [hs.1, hr.1], hr.2⟩

/-- Every reachable system is related to itself (this is the invariant of reachable systems: its state
dicts come from reachable root states, its iterator has a logical root state, it is well-formed). -/
theorem inv_exec (hne : NoError root) (restart : Bool) (ops : List Op) {a : Sys root} (h : LR L a a) :
    LR L (exec root restart a ops) (exec root restart a ops) := by
  induction ops generalizing a with
  | nil => exact h
  | cons op ops ih => exact ih (step_LR L hne restart h op (Or.inr rfl)).2

theorem lr_init : LR L (Sys.init root) (Sys.init root) :=
  ⟨⟨rfl, by intro i a b h; simp [Sys.init] at h⟩, lrSt_init L⟩

/-- Resuming from the state dict of an iterator `its`: what `__iter__` builds from it (on any iterator
`it0`) is equivalent to `its` after the `state_dict()` call — or, if `its` is at the end of its epoch and
`restart_on_stop_iteration`, to `its` after `next()` (= `StopIteration`) and a plain `reset()`. -/
theorem resume_it (hne : NoError root) (restart flag : Bool) {its it0 : It root} {x0 : Run root}
    (hd : Den its x0) (h0 : Held it0.r) :
    (startIt root restart (some (itGet root its).1) flag it0).err = none ∧
    (startIt root restart (some (itGet root its).1) flag it0).pending = none ∧
    (startIt root restart (some (itGet root its).1) flag it0).iterForSd = flag ∧
    ((restart = false ∨ (itNext root (itGet root its).2).1 ≠ Out.stop) →
      ItRel L (startIt root restart (some (itGet root its).1) flag it0).it (itGet root its).2) ∧
    (restart = true → (itNext root (itGet root its).2).1 = Out.stop →
      ItRel L (startIt root restart (some (itGet root its).1) flag it0).it
        (itReset root (itNext root (itGet root its).2).2 none)) := by
  obtain ⟨hsd, x', ex', nx', dxb⟩ := den_get L hd
  have ht : Tok (itGet root its).1.rootSd := ⟨x0, hd.reach.1, hsd⟩
  obtain ⟨e1, e2, e3, e4⟩ := startSome_den hne restart flag h0 ht
  have hr1 := held_reset h0 ht
  have her1 : E L (root.rreset it0.r (some (itGet root its).1.rootSd)) (root.rget x0).2 := by
    rw [hsd]
    exact E.load L hd.reach.1 h0
  have her1x : E L (root.rreset it0.r (some (itGet root its).1.rootSd)) x' :=
    E.transL L (E.transL L her1 (E.l1 L hd.reach.1) rfl) (E.symm ex') rfl
  obtain ⟨x'', ex'', nx'', ox'', dx'', rx''⟩ := den_next L dxb
  have hla : E L (root.rget (root.rreset it0.r (some (itGet root its).1.rootSd))).2 x'' :=
    E.transL L (E.transL L (E.l1 L hr1) her1x rfl) (E.symm ex'') rfl
  have hout := (E.next L hla).1
  refine ⟨e1, e2, e3, ?_, ?_⟩
  · intro hcond
    rcases e4 with ⟨hr, hstop, _⟩ | ⟨_, dres⟩
    · rcases hcond with hc | hc
      · rw [hc] at hr
        cases hr
      · exact absurd (by rw [ox'', ← hout, hstop]) hc
    · exact ⟨_, _, dres, dxb, her1x⟩
  · intro hr hstop
    rcases e4 with ⟨_, _, dres⟩ | ⟨hc, _⟩
    · have hn := (E.next L hla).2
      have hrn := E.resetNone L hn rfl rfl
      refine ⟨_, _, dres, Den.plain _ _ rfl rfl hrn.reach.2 ?_, hrn⟩
      simp only [itReset, rx'']
    · rcases hc with hc | ⟨v, hc⟩
      · rw [hc] at hr
        cases hr
      · rw [hout, ← ox'', hstop] at hc
        cases hc


theorem held_loadIt {s : State root} (h : LRSt L s s) : Held (loadIt s).r := by
  obtain ⟨si, sp, sf, sh, sb⟩ := s
  have hi := h.it
  have w := h.wfa
  cases si with
  | none => cases sf <;> exact w.held
  | some i => cases sf <;> exact (itRel_held L hi).1

/-- System-level resume: `s` is a reachable system whose user is iterating (`_it` exists and is in hand, no
load pending, not created by `state_dict()`); `r` is any reachable system that knows the state dict `sd`
which `s.state_dict()` returns (as its last token).  Then `r ▸ load sd ▸ iter` is `LR`-related to `s` after
the `state_dict()` call. -/
theorem resume_sys (hne : NoError root) (restart : Bool) {s r : Sys root} (hs : LR L s s) (hr : LR L r r)
    {its : It root} (hit : s.st.it = some its) (hp : s.st.pending = none) (hf : s.st.iterForSd = false)
    (hh : s.st.handle = true) (hrt : r.toks = s.toks ++ [(itGet root its).1]) :
    ((restart = false ∨ (step root restart (step root restart s .stateDict).2 .next).1 ≠ Obs.out Out.stop) →
      LR L (exec root restart r [.load s.toks.length, .iter]) (step root restart s .stateDict).2) ∧
    (restart = true → (step root restart (step root restart s .stateDict).2 .next).1 = Obs.out Out.stop →
      LR L (exec root restart r [.load s.toks.length, .iter])
        (exec root restart (step root restart s .stateDict).2 [.next, .iter])) := by
  have hb := (step_LR L hne restart hs .stateDict (Or.inr rfl)).2
  have h0 : Held (loadIt r.st).r := held_loadIt L hr.st
  have wr := hr.st.wfa
  have ws := hs.st.wfa
  obtain ⟨⟨si, sp, sf, sh, sb⟩, stoks⟩ := s
  obtain ⟨rst, rtoks⟩ := r
  simp only at hit hp hf hh hrt
  subst hit hp hf hh hrt
  have hden : ∃ x0, Den its x0 := by
    obtain ⟨x, _, hx, _, _⟩ := hs.st.it
    exact ⟨x, hx⟩
  obtain ⟨x0, hd⟩ := hden
  obtain ⟨e1, e2, e3, e4, e5⟩ := resume_it L hne restart false hd h0
  have hget : (stoks ++ [(itGet root its).1])[stoks.length]? = some (itGet root its).1 := by simp
  have hbt : LRel (TQ L) (stoks ++ [(itGet root its).1]) (stoks ++ [(itGet root its).1]) := by
    have := hb.toks
    simpa [step, stateDict] using this
  have hbase : (load root rst (itGet root its).1).base = (loadIt rst).r ∨
      (load root rst (itGet root its).1).base = rst.base := by
    obtain ⟨ri, rp, rf, rh, rb⟩ := rst
    cases ri <;> cases rf <;> simp [load, loadIt, newIt]
  have hheld : Held (load root rst (itGet root its).1).base := by
    rcases hbase with h | h <;> rw [h]
    · exact h0
    · exact wr.held
  constructor
  · intro hcond
    have hcond' : restart = false ∨ (itNext root (itGet root its).2).1 ≠ Out.stop := by
      rcases hcond with hc | hc
      · exact Or.inl hc
      · refine Or.inr ?_
        intro h
        apply hc
        simp only [step, stateDict, next, h]
    have hrel := e4 hcond'
    simp only [exec, step, hget, iter, iterCore_load, e1, stateDict]
    exact ⟨hbt, by simp only [e2, ORel], by simp only [e3], rfl, hrel,
      wf_some hheld (by rw [e3]; exact fun h => nomatch h), wf_some ws.held (fun h => nomatch h)⟩
  · intro hrs hstop
    have hstop' : (itNext root (itGet root its).2).1 = Out.stop := by
      simp only [step, stateDict, next] at hstop
      injection hstop
    have hrel := e5 hrs hstop'
    have hb' : iterCore root restart ⟨some (itNext root (itGet root its).2).2, none, false, true, sb⟩ =
        ⟨none, itReset root (itNext root (itGet root its).2).2 none, none, false⟩ := rfl
    simp only [exec, step, hget, iter, iterCore_load, e1, stateDict, next, hb']
    exact ⟨hbt, by simp only [e2, ORel], by simp only [e3], rfl, hrel,
      wf_some hheld (by rw [e3]; exact fun h => nomatch h), wf_some ws.held (fun h => nomatch h)⟩

/-! ### The Boolean side conditions of the model imply the ones used here -/

theorem okIter_OkIter {s : State root} (h : okIter root s = true) : OkIter s := by
  intro it hit hf hp
  obtain ⟨si, sp, sf, sh⟩ := s
  simp only at hit hf hp
  subst hit hf hp
  simp only [okIter, Bool.false_or, Option.isSome_none, Bool.and_eq_true, Option.isNone_iff_eq_none] at h
  exact h

theorem good_Good (restart : Bool) (ops : List Op) (s : Sys root) (h : good root restart s ops = true) :
    Good restart s ops := by
  induction ops generalizing s with
  | nil => trivial
  | cons op ops ih =>
    cases op with
    | iter =>
      simp only [good, Bool.and_eq_true] at h
      exact ⟨okIter_OkIter h.1, ih _ h.2⟩
    | next => exact ⟨trivial, ih _ h⟩
    | stateDict => exact ⟨trivial, ih _ h⟩
    | peek => exact ⟨trivial, ih _ h⟩
    | load i => exact ⟨trivial, ih _ h⟩
    | abandon => exact ⟨trivial, ih _ h⟩
    | fresh => exact ⟨trivial, ih _ h⟩

theorem obs_LR' (hne : NoError root) (restart : Bool) (ops : List Op) {a b : Sys root} (h : LR L a b)
    (ga : good root restart a ops = true) (gb : good root restart b ops = true) :
    obs root restart a ops = obs root restart b ops :=
  (obs_LR L hne restart ops h (good_Good restart ops a ga) (good_Good restart ops b gb)).1

/-! ### `state_dict()` changes nothing (C08)

`PU a b`: `a` is `b` after one or more discarded `state_dict()` calls that found no iterator and created
one (flag up, loaded state consumed); `b` has not created it yet. -/

structure PU (restart : Bool) (a b : Sys root) : Prop where
  toks : LRel (TQ L) a.toks b.toks
  wfa : WF a.st
  wfb : WF b.st
  bnone : b.st.it = none
  aflag : a.st.iterForSd = true
  apend : a.st.pending = none
  berr : (iterCore root restart b.st).err = none
  bpend : (iterCore root restart b.st).pending = none
  it : ∃ ia, a.st.it = some ia ∧ ItRel L ia (iterCore root restart b.st).it

theorem itGet_left {a b : It root} (h : ItRel L a b) : ItRel L (itGet root a).2 b := by
  obtain ⟨x, y, dx, dy, he⟩ := h
  obtain ⟨_, x', ex, nx, dx'⟩ := den_get L dx
  exact ⟨x', y, dx', dy, E.transM L ex he (Or.inl nx.symm)⟩

/-- A discarded `state_dict()` on the left only. -/
theorem peek_left (hne : NoError root) (restart : Bool) {a b : Sys root} (h : LR L a b ∨ PU L restart a b) :
    LR L (step root restart a .peek).2 b ∨ PU L restart (step root restart a .peek).2 b := by
  rcases h with h | h
  · obtain ⟨⟨ia, pa, fa, ha, ba⟩, ta⟩ := a
    obtain ⟨⟨ib, pb, fb, hb, bb⟩, tb⟩ := b
    have hst := h.st
    have hi := hst.it
    have wa := hst.wfa
    have wb := hst.wfb
    cases ia with
    | some i =>
      cases ib with
      | none => exact absurd hi (by simp [ORel])
      | some j =>
        exact Or.inl ⟨h.toks, hst.pending, hst.flag, hst.handle, itGet_left L hi,
          wf_some wa.held wa.flag, wb⟩
    | none =>
      cases ib with
      | some j => exact absurd hi (by simp [ORel])
      | none =>
        have hok : ∀ (p : Option (SD root)) (f h : Bool) (bs : Run root),
            OkIter (⟨none, p, f, h, bs⟩ : State root) := by
          intro p f h bs it hit
          cases hit
        obtain ⟨e1, e2, _, _, hpd, hit⟩ :=
          iterCore_rel L hne restart hst (Or.inl ⟨hok pa fa ha ba, hok pb fb hb bb⟩)
        have hha : ha = false := (wa.noIt rfl).2.1
        have hpb : (iterCore root restart ⟨none, pb, fb, hb, bb⟩).pending = none := by
          have hpa : (iterCore root restart ⟨none, pa, fa, ha, ba⟩).pending = none := by
            rw [iterCore_eq]
            cases pa with
            | none => rfl
            | some x =>
              simp only [startIt]
              split
              · split <;> rfl
              · rfl
          rw [hpa] at hpd
          cases hq : (iterCore root restart ⟨none, pb, fb, hb, bb⟩).pending with
          | none => rfl
          | some y => rw [hq] at hpd; exact absurd hpd (by simp [ORel])
        have hpa : (iterCore root restart ⟨none, pa, fa, ha, ba⟩).pending = none := by
          have hpa' : ORel (TQ L) (iterCore root restart ⟨none, pa, fa, ha, ba⟩).pending none := hpb ▸ hpd
          cases hq : (iterCore root restart ⟨none, pa, fa, ha, ba⟩).pending with
          | none => rfl
          | some y => rw [hq] at hpa'; exact absurd hpa' (by simp [ORel])
        have hstep : (step root restart ⟨⟨none, pa, fa, ha, ba⟩, ta⟩ .peek).2 =
            ⟨⟨some (itGet root (iterCore root restart ⟨none, pa, fa, ha, ba⟩).it).2, none, true, ha, ba⟩, ta⟩ := by
          simp only [step, stateDict, e1, hpa]
        rw [hstep]
        exact Or.inr ⟨h.toks, wf_some wa.held (fun _ => hha), wb, rfl, rfl, rfl, e2, hpb, _, rfl, itGet_left L hit⟩
  · obtain ⟨ia, hia, hrel⟩ := h.it
    obtain ⟨⟨oa, pa, fa, ha, ba⟩, ta⟩ := a
    simp only at hia
    subst hia
    refine Or.inr ⟨h.toks, wf_some h.wfa.held h.wfa.flag, h.wfb, h.bnone, h.aflag, h.apend, h.berr, h.bpend, ?_⟩
    exact ⟨_, rfl, itGet_left L hrel⟩

/-- Any op but `peek` on both sides of `PU`. -/
theorem step_PU (restart : Bool) {a b : Sys root} (h : PU L restart a b) (op : Op) :
    (step root restart a op).1 = (step root restart b op).1 ∧
      (LR L (step root restart a op).2 (step root restart b op).2 ∨
        PU L restart (step root restart a op).2 (step root restart b op).2) := by
  obtain ⟨ia, hia, hrel⟩ := h.it
  have wa := h.wfa
  have wb := h.wfb
  have hbn := h.bnone
  have haf := h.aflag
  have hap := h.apend
  have hbe := h.berr
  have hbp := h.bpend
  have htk := h.toks
  obtain ⟨⟨oa, pa, fa, ha, ba⟩, ta⟩ := a
  obtain ⟨⟨ob, pb, fb, hb, bb⟩, tb⟩ := b
  simp only at hia hbn haf hap htk
  subst hia hbn haf hap
  have hha : ha = false := wa.flag rfl
  have hfb : fb = false := (wb.noIt rfl).1
  have hhb : hb = false := (wb.noIt rfl).2.1
  subst hha hfb hhb
  have hbf : (iterCore root restart ⟨none, pb, false, false, bb⟩).iterForSd = false := by
    rw [iterCore_eq]
    cases pb with
    | none => rfl
    | some x =>
      simp only [startIt]
      split
      · split <;> rfl
      · rfl
  cases op with
  | iter =>
    simp only [step, iter, hbe]
    have ha' : iterCore root restart ⟨some ia, none, true, false, ba⟩ = ⟨none, ia, none, false⟩ := rfl
    rw [ha']
    refine ⟨rfl, Or.inl ⟨htk, ?_, ?_, rfl, hrel, wf_some wa.held (fun h => nomatch h),
      wf_some wb.held (by rw [hbf]; exact fun h => nomatch h)⟩⟩
    · simp only [hbp, ORel]
    · simp only [hbf]
  | next => exact ⟨rfl, Or.inr ⟨htk, wa, wb, rfl, rfl, rfl, hbe, hbp, ia, rfl, hrel⟩⟩
  | stateDict =>
    have hg := itGet_rel L hrel
    simp only [step, stateDict, hbe]
    refine ⟨trivial, Or.inl ⟨lrel_append htk hg.1, ?_, rfl, rfl, hg.2, wf_some wa.held (fun _ => rfl),
      wf_some wb.held (fun _ => rfl)⟩⟩
    simp only [hbp, ORel]
  | peek =>
    have hg := itGet_rel L hrel
    simp only [step, stateDict, hbe]
    refine ⟨trivial, Or.inl ⟨htk, ?_, rfl, rfl, hg.2, wf_some wa.held (fun _ => rfl),
      wf_some wb.held (fun _ => rfl)⟩⟩
    simp only [hbp, ORel]
  | load i =>
    have hget := lrel_get htk i
    simp only [step]
    cases h1 : ta[i]? with
    | none =>
      cases h2 : tb[i]? with
      | none => exact ⟨rfl, Or.inr ⟨htk, wa, wb, rfl, rfl, rfl, hbe, hbp, ia, rfl, hrel⟩⟩
      | some y => rw [h1, h2] at hget; exact absurd hget (by simp [ORel])
    | some x =>
      cases h2 : tb[i]? with
      | none => rw [h1, h2] at hget; exact absurd hget (by simp [ORel])
      | some y =>
        rw [h1, h2] at hget
        refine ⟨rfl, Or.inl ⟨htk, hget, rfl, rfl, trivial, ?_, ?_⟩⟩
        · exact ⟨(itRel_held L hrel).1, (fun h => nomatch h), fun _ => ⟨rfl, rfl, (fun h => nomatch h)⟩⟩
        · exact ⟨wb.held, (fun h => nomatch h), fun _ => ⟨rfl, rfl, (fun h => nomatch h)⟩⟩
  | abandon => exact ⟨rfl, Or.inr ⟨htk, wa, wb, rfl, rfl, rfl, hbe, hbp, ia, rfl, hrel⟩⟩
  | fresh => exact ⟨rfl, Or.inl ⟨htk, lrSt_init L⟩⟩

theorem transparent_aux (hne : NoError root) (restart : Bool) (ops : List Op) {a b : Sys root}
    (h : LR L a b ∨ PU L restart a b) (ga : good root restart a ops = true)
    (gb : good root restart b (erasePeek ops) = true) :
    obsSkipPeek root restart a ops = obs root restart b (erasePeek ops) := by
  induction ops generalizing a b with
  | nil => rfl
  | cons op ops ih =>
    -- an op other than `peek`, on both sides
    have both : ∀ (o : Op), o ≠ .peek → (o = .iter → okIter root a.st = true ∧ okIter root b.st = true) →
        (step root restart a o).1 = (step root restart b o).1 ∧
          (LR L (step root restart a o).2 (step root restart b o).2 ∨
            PU L restart (step root restart a o).2 (step root restart b o).2) := by
      intro o _ hok
      rcases h with h | h
      · have hs := step_LR L hne restart h o (Or.inl (by
          cases o with
          | iter => exact ⟨okIter_OkIter (hok rfl).1, okIter_OkIter (hok rfl).2⟩
          | _ => exact ⟨trivial, trivial⟩))
        exact ⟨hs.1, Or.inl hs.2⟩
      · exact step_PU L restart h o
    cases op with
    | peek =>
      simp only [obsSkipPeek, erasePeek]
      exact ih (peek_left L hne restart h) ga gb
    | iter =>
      simp only [good, Bool.and_eq_true, erasePeek] at ga gb
      have hs := both .iter (fun hc => nomatch hc) (fun _ => ⟨ga.1, gb.1⟩)
      simp only [obsSkipPeek, erasePeek, obs]
      rw [hs.1, ih hs.2 ga.2 gb.2]
    | next =>
      have hs := both .next (fun hc => nomatch hc) (fun hc => nomatch hc)
      simp only [obsSkipPeek, erasePeek, obs]
      rw [hs.1, ih hs.2 ga gb]
    | stateDict =>
      have hs := both .stateDict (fun hc => nomatch hc) (fun hc => nomatch hc)
      simp only [obsSkipPeek, erasePeek, obs]
      rw [hs.1, ih hs.2 ga gb]
    | load i =>
      have hs := both (.load i) (fun hc => nomatch hc) (fun hc => nomatch hc)
      simp only [obsSkipPeek, erasePeek, obs]
      rw [hs.1, ih hs.2 ga gb]
    | abandon =>
      have hs := both .abandon (fun hc => nomatch hc) (fun hc => nomatch hc)
      simp only [obsSkipPeek, erasePeek, obs]
      rw [hs.1, ih hs.2 ga gb]
    | fresh =>
      have hs := both .fresh (fun hc => nomatch hc) (fun hc => nomatch hc)
      simp only [obsSkipPeek, erasePeek, obs]
      rw [hs.1, ih hs.2 ga gb]

/-! ### Loading a state dict gives the same continuation whatever the loader did before (C08) -/

theorem held_load_base {s : State root} (h : LRSt L s s) (x : SD root) : Held (load root s x).base := by
  obtain ⟨si, sp, sf, sh, sb⟩ := s
  have hi := h.it
  have w := h.wfa
  cases si with
  | none => cases sf <;> exact w.held
  | some i =>
    cases sf
    · exact w.held
    · exact (itRel_held L hi).1

theorem load_iter_LR (hne : NoError root) (restart : Bool) {a b : Sys root} (ha : LR L a a) (hb : LR L b b)
    (ht : LRel (TQ L) a.toks b.toks) (i : Nat) (hi : i < a.toks.length) :
    LR L (exec root restart a [.load i, .iter]) (exec root restart b [.load i, .iter]) := by
  have hget := lrel_get ht i
  have hib : i < b.toks.length := ht.1 ▸ hi
  rw [List.getElem?_eq_getElem hi, List.getElem?_eq_getElem hib] at hget
  obtain ⟨e1, e2, e3, e4, e5, e6, e7⟩ :=
    startSome_rel L hne restart false false (held_loadIt L ha.st) (held_loadIt L hb.st) hget
  simp only [exec, step, List.getElem?_eq_getElem hi, List.getElem?_eq_getElem hib, iter, iterCore_load, e1, e2]
  exact ⟨ht, by simp only [e3, e4, ORel], by simp only [e5, e6], rfl, e7,
    wf_some (held_load_base L ha.st _) (by rw [e5]; exact (fun h => nomatch h)),
    wf_some (held_load_base L hb.st _) (by rw [e6]; exact (fun h => nomatch h))⟩

/-! ### Assembly in terms of histories -/

theorem step_toks (restart : Bool) (s : Sys root) (op : Op) (h : op ≠ .stateDict) :
    (step root restart s op).2.toks = s.toks := by
  cases op with
  | stateDict => exact absurd rfl h
  | peek =>
    simp only [step]
    split <;> rfl
  | load i =>
    simp only [step]
    split <;> rfl
  | iter => rfl
  | next => rfl
  | abandon => rfl
  | fresh => rfl

theorem exec_toks (restart : Bool) (ops : List Op) (s : Sys root) (h : ∀ op ∈ ops, op ≠ Op.stateDict) :
    (exec root restart s ops).toks = s.toks := by
  induction ops generalizing s with
  | nil => rfl
  | cons op ops ih =>
    simp only [exec]
    rw [ih _ (fun o ho => h o (List.mem_cons_of_mem _ ho)), step_toks restart s op (h op List.mem_cons_self)]

theorem exec_append (restart : Bool) (xs ys : List Op) (s : Sys root) :
    exec root restart s (xs ++ ys) = exec root restart (exec root restart s xs) ys := by
  induction xs generalizing s with
  | nil => rfl
  | cons x xs ih => simp only [List.cons_append, exec, ih]

theorem step_stateDict_some (restart : Bool) (s : Sys root) {its : It root} (h : s.st.it = some its) :
    (step root restart s .stateDict).2 = ⟨{ s.st with it := some (itGet root its).2 }, s.toks ++ [(itGet root its).1]⟩ := by
  obtain ⟨⟨si, sp, sf, sh, sb⟩, st⟩ := s
  simp only at h
  subst h
  rfl

/-- `resume_sys` for histories: `S` after history `H`, its `state_dict()`; the resumed loader is a new
object that does `pre` (anything but a recorded `state_dict()`), loads the state dict and calls `iter()`. -/
theorem resume_hist (hne : NoError root) (restart : Bool) (H pre : List Op)
    (hpre : ∀ op ∈ pre, op ≠ Op.stateDict)
    (hit : (exec root restart (Sys.init root) H).st.it.isSome = true)
    (hp : (exec root restart (Sys.init root) H).st.pending = none)
    (hf : (exec root restart (Sys.init root) H).st.iterForSd = false)
    (hh : (exec root restart (Sys.init root) H).st.handle = true) :
    ((restart = false ∨
        (step root restart (exec root restart (Sys.init root) (H ++ [.stateDict])) .next).1 ≠ Obs.out Out.stop) →
      LR L (exec root restart (Sys.init root)
          (H ++ [.stateDict] ++ (.fresh :: pre) ++ [.load (exec root restart (Sys.init root) H).toks.length, .iter]))
        (exec root restart (Sys.init root) (H ++ [.stateDict]))) ∧
    (restart = true →
      (step root restart (exec root restart (Sys.init root) (H ++ [.stateDict])) .next).1 = Obs.out Out.stop →
      LR L (exec root restart (Sys.init root)
          (H ++ [.stateDict] ++ (.fresh :: pre) ++ [.load (exec root restart (Sys.init root) H).toks.length, .iter]))
        (exec root restart (Sys.init root) (H ++ [.stateDict] ++ [.next, .iter]))) := by
  have hs : LR L (exec root restart (Sys.init root) H) (exec root restart (Sys.init root) H) :=
    inv_exec L hne restart H (lr_init L)
  cases hi : (exec root restart (Sys.init root) H).st.it with
  | none => rw [hi] at hit; cases hit
  | some its =>
    have hB : exec root restart (Sys.init root) (H ++ [.stateDict]) =
        (step root restart (exec root restart (Sys.init root) H) .stateDict).2 := by
      rw [exec_append]
      rfl
    have hr : LR L (exec root restart (Sys.init root) (H ++ [.stateDict] ++ (.fresh :: pre)))
        (exec root restart (Sys.init root) (H ++ [.stateDict] ++ (.fresh :: pre))) :=
      inv_exec L hne restart _ (lr_init L)
    have hrt : (exec root restart (Sys.init root) (H ++ [.stateDict] ++ (.fresh :: pre))).toks =
        (exec root restart (Sys.init root) H).toks ++ [(itGet root its).1] := by
      rw [exec_append, exec_toks restart _ _ (by
        intro op ho
        rcases List.mem_cons.1 ho with h | h
        · rw [h]; intro hc; cases hc
        · exact hpre op h), hB, step_stateDict_some restart _ hi]
    have := resume_sys L hne restart hs hr hi hp hf hh hrt
    rw [exec_append restart (H ++ [Op.stateDict] ++ (Op.fresh :: pre)),
      exec_append restart (H ++ [Op.stateDict]) [Op.next, Op.iter], hB]
    exact this

end
end TDV.Loader
