import TorchDataVerif.Proofs.MPUnIterStep
/-!
# MPU, `in_order = False`, iterable: receiving a result
-/
namespace TDV.MPU
open TDV.MP

/-- The ghost counter after one more result of worker `w` was processed. -/
def bump (n : Nat → Nat) (w : Nat) : Nat → Nat := fun v => if v = w then n v + 1 else n v

/-- A data/error result is taken from the queue, its task leaves `_task_info` (`X`), `_process_data` runs. -/
theorem MidUI0_process (c : Cfg) (s X : State) (n : Nat → Nat) (r : Res) (rest : List Res) (hv : c.Valid)
    (hit : c.iterable = true) (hio : c.inOrder = false) (h : MidUI0 c s n) (hq : s.resQ = r :: rest)
    (hk : r.kind ≠ .notice)
    (e1 : X.status = s.status) (e2 : X.numTasks = s.numTasks) (e3 : X.workers = s.workers) (e4 : X.cyc = s.cyc)
    (e5 : X.info = eraseInfo s.info r.idx)
    (e6 : X.rcvdIdx = s.rcvdIdx ∨ (X.rcvdIdx = s.rcvdIdx + 1 ∧ r.idx = s.rcvdIdx))
    (e7 : X.sendIdx = s.sendIdx) (e8 : X.resQ = rest) :
    MidUI0 c (processData c X r).1 (bump n r.w) ∧ LiveI c (processData c X r).1 ∧
    (processData c X r).1.status = s.status := by
  obtain ⟨k, it, hkw, hupr, hlt, hit', hkind, hrest⟩ := data_analysis c s n r rest h hq hk
  obtain ⟨hc2, _⟩ := UCore_consume c s { X with numTasks := X.numTasks.modify r.w (· - 1) } r rest h.core hq hupr
    e1 (by simp [e2]) e3 e4 e5 e6 e7 e8
  have hup2 : ∀ v, up { X with numTasks := X.numTasks.modify r.w (· - 1) } v = up s v := fun v => by simp [up, e1]
  have h2 : MidUI0 c { X with numTasks := X.numTasks.modify r.w (· - 1) } (bump n r.w) := by
    refine ⟨hc2, fun v kv hkv => ?_⟩
    have hkv' : s.workers[v]? = some kv := by rw [← e3]; exact hkv
    have hv' := h.wok v kv hkv'
    by_cases hvw : v = r.w
    · subst hvw
      rw [hkw] at hkv'; cases hkv'
      refine ⟨by simp [bump]; omega, hv'.le2, hv'.ie, ?_, ?_⟩
      · intro hu; rw [hup2, hupr] at hu; cases hu
      · rw [hup2]
        simp only [e8, bump, if_true]
        exact hrest
    · refine ⟨by simp [bump, hvw]; exact hv'.le1, hv'.le2, hv'.ie, by rw [hup2]; simp [bump, hvw]; exact hv'.dn, ?_⟩
      rw [hup2]
      simp only [e8, bump, hvw, if_false]
      have := hv'.ch
      rw [hq, resOf_cons, if_neg (fun e => hvw e.symm)] at this
      exact this
  obtain ⟨h3, h4, h5⟩ := MidUI0_tryPut c _ (bump n r.w) hv hit hio h2
  rw [processData_eq]
  generalize tryPut c { X with numTasks := X.numTasks.modify r.w (· - 1) } = T at h3 h4 h5
  have hst : T.status = s.status := by rw [h5.status]; exact e1
  cases r.kind with
  | data b =>
    simp only
    have hp := yieldItem_sameProto c T r b
    have hc := UCore_of_eq c T _ h3.core hp.status hp.numTasks hp.workers (by rw [hp.cyc]; exact h3.core.cyc) hp.info
      hp.rcvdIdx hp.sendIdx hp.resQ
    refine ⟨MidUI0_grow c T _ _ h3 hc hp.status hp.resQ (fun v kv hkv => ⟨kv, by rw [← hp.workers]; exact hkv, rfl, rfl⟩),
      ?_, by rw [hp.status]; exact hst⟩
    intro hex
    have hup : ∀ v, up (yieldItem c T r b).1 v = up T v := fun v => by simp [up, hp.status]
    obtain ⟨w, hw, hu⟩ := hex
    obtain ⟨e, he1, he2⟩ := h4 ⟨w, hw, by rw [← hup]; exact hu⟩
    exact ⟨e, by rw [hp.info]; exact he1, by rw [hup]; exact he2⟩
  | notice => exact ⟨h3, h4, hst⟩
  | error => exact ⟨h3, h4, hst⟩
  | ack => exact ⟨h3, h4, hst⟩

theorem tryPut_info (c : Cfg) (s : State) (hio : c.inOrder = false) (hW : 0 < c.W) (hc : s.cyc < c.W) :
    ((tryPut c s).info = s.info ∨ ∃ w, (tryPut c s).info = s.info ++ [⟨s.sendIdx, w, none⟩]) ∧
    (tryPut c s).sendIdx ≥ s.sendIdx := by
  rcases tryPut_cases c s hio hW hc with ⟨_, _, he⟩ | ⟨_, _, cyc', _, he⟩ | ⟨_, w, cyc', _, _, _, he⟩
  · rw [he]; exact ⟨Or.inl rfl, Nat.le_refl _⟩
  · rw [he]; exact ⟨Or.inl rfl, Nat.le_refl _⟩
  · rw [he]; exact ⟨Or.inr ⟨w, rfl⟩, by simp [dispatchTo]⟩

/-- The retirement state of `onArrival` before its `_try_put_index`. -/
def retireState (c : Cfg) (s : State) (r : Res) : State :=
  let s1 := if c.persistent then { s with status := s.status.set r.w false } else markUnavailable c s r.w false
  { s1 with bad := s1.bad || r.st.isNone }

theorem onArrival_notice (c : Cfg) (s : State) (r : Res) (hit : c.iterable = true) (hk : r.kind = .notice) :
    onArrival c s r = tryPut c (retireState c s r) := by
  simp [onArrival, hit, hk, retireState]

theorem retireState_fields (c : Cfg) (s : State) (r : Res) :
    (retireState c s r).status = s.status.set r.w false ∧ (retireState c s r).numTasks = s.numTasks ∧
    ((retireState c s r).workers = s.workers ∨ (retireState c s r).workers = pushMsg s.workers r.w .stop) ∧
    (retireState c s r).cyc = s.cyc ∧ (retireState c s r).info = s.info ∧
    (retireState c s r).rcvdIdx = s.rcvdIdx ∧ (retireState c s r).sendIdx = s.sendIdx ∧
    (retireState c s r).resQ = s.resQ ∧ (retireState c s r).obs = s.obs ∧ (retireState c s r).phase = s.phase ∧
    (retireState c s r).shutdown = s.shutdown := by
  unfold retireState
  by_cases hp : c.persistent = true
  · rw [if_pos hp]
    exact ⟨rfl, rfl, Or.inl rfl, rfl, rfl, rfl, rfl, rfl, rfl, rfl, rfl⟩
  · rw [if_neg hp]
    exact ⟨rfl, rfl, Or.inr rfl, rfl, rfl, rfl, rfl, rfl, rfl, rfl, rfl⟩

/-- An end-of-shard notice is taken from the queue (`S0` = the state without it): `onArrival` retires the
worker and dispatches. -/
theorem MidUI0_arrival (c : Cfg) (s S0 : State) (n : Nat → Nat) (r : Res) (rest : List Res) (hv : c.Valid)
    (hit : c.iterable = true) (hio : c.inOrder = false) (h : MidUI0 c s n) (hq : s.resQ = r :: rest)
    (hk : r.kind = .notice) (g1 : S0.status = s.status) (g2 : S0.numTasks = s.numTasks)
    (g3 : S0.workers = s.workers) (g4 : S0.cyc = s.cyc) (g5 : S0.info = s.info) (g6 : S0.rcvdIdx = s.rcvdIdx)
    (g7 : S0.sendIdx = s.sendIdx) (g8 : S0.resQ = rest) (g9 : S0.obs = s.obs) (g10 : S0.phase = s.phase)
    (g11 : S0.shutdown = s.shutdown) :
    MidUI0 c (onArrival c S0 r) n ∧ LiveI c (onArrival c S0 r) ∧
    (∀ v, up (onArrival c S0 r) v = if v = r.w then false else up s v) ∧ (onArrival c S0 r).resQ = rest ∧
    (onArrival c S0 r).obs = s.obs ∧
    (onArrival c S0 r).phase = s.phase ∧ (onArrival c S0 r).shutdown = s.shutdown ∧
    (onArrival c S0 r).rcvdIdx = s.rcvdIdx ∧
    (∀ e ∈ (onArrival c S0 r).info, e ∈ s.info ∨ e.idx = s.sendIdx) ∧ (∀ e ∈ s.info, e ∈ (onArrival c S0 r).info) ∧
    s.sendIdx ≤ (onArrival c S0 r).sendIdx := by
  obtain ⟨kw, hkw, hupr, hie, hpos, hnl, hrest⟩ := notice_analysis c s n r rest h hq hk
  have hA : onArrival c S0 r = tryPut c (retireState c S0 r) := onArrival_notice c _ r hit hk
  obtain ⟨f1, f2, f3, f4, f5, f6, f7, f8, f9, f10, f11⟩ := retireState_fields c S0 r
  generalize retireState c S0 r = s1 at hA f1 f2 f3 f4 f5 f6 f7 f8 f9 f10 f11
  rw [g1] at f1; rw [g2] at f2; rw [g3] at f3; rw [g4] at f4; rw [g5] at f5; rw [g6] at f6; rw [g7] at f7
  rw [g8] at f8; rw [g9] at f9; rw [g10] at f10; rw [g11] at f11
  have hc1 : UCore c s1 := UCore_retire c s s1 r rest h.core hq f1 f2 f3 f4 f5 f6 f7 f8
  have hup1 := up_set_false s s1 r.w f1
  have hm1 : MidUI0 c s1 n := by
    refine ⟨hc1, fun v kv hkv => ?_⟩
    have hkv' : ∃ k0 : Worker, s.workers[v]? = some k0 ∧ kv.pos = k0.pos ∧ kv.iterEnd = k0.iterEnd := by
      rcases f3 with f3 | f3
      · rw [f3] at hkv; exact ⟨kv, hkv, rfl, rfl⟩
      · rw [f3] at hkv
        obtain ⟨k0, hk0, a1, a2, _, _⟩ := pushMsg_get _ _ _ _ _ hkv
        exact ⟨k0, hk0, a1, a2⟩
    obtain ⟨k0, hk0, a1, a2⟩ := hkv'
    have hv0 := h.wok v k0 hk0
    by_cases hvw : v = r.w
    · subst hvw
      rw [hkw] at hk0; cases hk0
      refine ⟨by rw [a1]; exact hv0.le1, by rw [a1]; exact hv0.le2, by rw [a1, a2]; exact hv0.ie,
        fun _ => ⟨by rw [a2]; exact hie, hnl⟩, ?_⟩
      rw [f8, hrest, hup1, if_pos rfl, a1, chain_nil c r.w (n r.w) kw.pos _ hpos]
      simp
    · refine ⟨by rw [a1]; exact hv0.le1, by rw [a1]; exact hv0.le2, by rw [a1, a2]; exact hv0.ie, ?_, ?_⟩
      · rw [hup1, if_neg hvw, a2]; exact hv0.dn
      · rw [f8, hup1, if_neg hvw, a1, a2]
        have := hv0.ch
        rw [hq, resOf_cons, if_neg (fun e => hvw e.symm)] at this
        exact this
  obtain ⟨h3, h4, h5⟩ := MidUI0_tryPut c s1 n hv hit hio hm1
  obtain ⟨hi1, hi2⟩ := tryPut_info c s1 hio hv.1 hc1.cyc
  rw [hA]
  have hupA : ∀ v, up (tryPut c s1) v = up s1 v := fun v => by simp [up, h5.status]
  refine ⟨h3, h4, fun v => by rw [hupA, hup1], by rw [h5.resQ, f8], by rw [h5.obs, f9], by rw [h5.phase, f10],
    by rw [h5.shutdown, f11], by rw [h5.rcvdIdx, f6], ?_, ?_, by rw [← f7]; exact hi2⟩
  · intro e he
    rcases hi1 with hi1 | ⟨w, hi1⟩
    · rw [hi1, f5] at he; exact Or.inl he
    · rw [hi1, f5] at he
      rcases List.mem_append.mp he with h1 | h1
      · exact Or.inl h1
      · simp at h1; subst h1; exact Or.inr f7
  · intro e he
    rcases hi1 with hi1 | ⟨w, hi1⟩
    · rw [hi1, f5]; exact he
    · rw [hi1, f5]; exact List.mem_append_left _ he

end TDV.MPU
