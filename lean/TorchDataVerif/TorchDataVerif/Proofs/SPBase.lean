import TorchDataVerif.Model.SP
/-! Helper lemmas for M6 `SP`: generic facts about `next`/`epoch`, and the map-style half. -/
namespace TDV.SP
open TDV.Sampler

/-- World of the index source after `k` calls. -/
def inextN {W St : Type} (S : IdxSrc W St) : Nat → W → W
  | 0, w => w
  | k + 1, w => inextN S k (S.next w).2

/-- How many of the first `k` calls returned an index (batch). -/
def idxCount {W St : Type} (S : IdxSrc W St) : Nat → W → Nat
  | 0, _ => 0
  | k + 1, w =>
    (match (S.next w).1 with
      | .idx _ => 1
      | _ => 0) + idxCount S k (S.next w).2

/-- The index source yields exactly the index batches `ixs`, then `StopIteration`, and is then in `w'`. -/
def IRun {W : Type} (nx : W → IOut × W) : W → List Idx → W → Prop
  | w, [], w' => nx w = (.stop, w')
  | w, ix :: r, w' => (nx w).1 = .idx ix ∧ IRun nx (nx w).2 r w'

section generic
variable {W SSt D Ds Dt : Type} (S : IdxSrc W SSt) (Da : Data D Ds Dt) (c : Cfg)

theorem next_sw (x : It W D) : (next S Da c x).2.sw = (S.next x.sw).2 := by
  unfold next
  generalize S.next x.sw = s
  obtain ⟨o, w'⟩ := s
  cases o with
  | stop => rfl
  | err => rfl
  | idx ix => dsimp only; split <;> rfl

theorem next_siy (x : It W D) : (next S Da c x).2.siy = x.siy +
    (match (S.next x.sw).1 with
      | .idx _ => 1
      | _ => 0) := by
  unfold next
  generalize S.next x.sw = s
  obtain ⟨o, w'⟩ := s
  cases o with
  | stop => rfl
  | err => rfl
  | idx ix => dsimp only; split <;> rfl

theorem nextN_sw : ∀ (k : Nat) (x : It W D), (nextN S Da c k x).sw = inextN S k x.sw
  | 0, _ => rfl
  | k + 1, x => by
    rw [nextN, inextN, nextN_sw k, next_sw]

theorem nextN_siy : ∀ (k : Nat) (x : It W D), (nextN S Da c k x).siy = x.siy + idxCount S k x.sw
  | 0, _ => rfl
  | k + 1, x => by
    rw [nextN, idxCount, nextN_siy k, next_siy, next_sw, Nat.add_assoc]

theorem nextN_add : ∀ (j k : Nat) (x : It W D), nextN S Da c (j + k) x = nextN S Da c k (nextN S Da c j x)
  | 0, k, x => by simp [nextN]
  | j + 1, k, x => by
    rw [Nat.add_right_comm, nextN, nextN_add j k, nextN]

theorem obsN_length : ∀ (k : Nat) (x : It W D), (obsN S Da c k x).length = k
  | 0, _ => rfl
  | k + 1, x => by simp [obsN, obsN_length k]

/-- If none of the first `k` observations is a stop, the epoch is those observations followed by the epoch
of the iterator reached. -/
theorem epoch_split : ∀ (k f : Nat) (x : It W D), (∀ o ∈ obsN S Da c k x, o ≠ .stop) →
    epoch S Da c (k + f) x = (obsN S Da c k x ++ (epoch S Da c f (nextN S Da c k x)).1,
      (epoch S Da c f (nextN S Da c k x)).2)
  | 0, f, x, _ => by simp [obsN, nextN]
  | k + 1, f, x, h => by
    have h1 : (next S Da c x).1 ≠ .stop := h _ (by simp [obsN])
    have h2 : ∀ o ∈ obsN S Da c k (next S Da c x).2, o ≠ .stop := fun o ho => h o (by simp [obsN, ho])
    rw [Nat.add_right_comm, epoch]
    have ih := epoch_split k f (next S Da c x).2 h2
    generalize hn : next S Da c x = r at *
    obtain ⟨o, x'⟩ := r
    cases o with
    | stop => exact absurd rfl h1
    | batch l => simp only [ih, obsN, nextN, hn, List.cons_append]
    | single v => simp only [ih, obsN, nextN, hn, List.cons_append]
    | error e => simp only [ih, obsN, nextN, hn, List.cons_append]

theorem collate_ne_stop (items : List Nat) : collate c items ≠ .stop := by
  unfold collate; split <;> simp

theorem collate1_ne_stop (v : Nat) : collate1 c v ≠ .stop := by
  unfold collate1; split <;> simp

end generic

/-! ### Map-style -/
section map
variable {W SSt D Ds Dt : Type} (S : IdxSrc W SSt) (Da : Data D Ds Dt) (c : Cfg)
variable (data : Nat → Option Nat)

theorem getAll_fst (hget : ∀ d i, (Da.get d i).1 = data i) : ∀ (l : List Nat) (d : D),
    (getAll Da d l).1 = if l.all (fun i => (data i).isSome) then some (l.filterMap data) else none
  | [], d => by simp [getAll]
  | i :: r, d => by
    have h := hget d i
    have ih := getAll_fst hget r (Da.get d i).2
    rw [getAll]
    generalize hg : Da.get d i = g at h ih
    obtain ⟨o, d'⟩ := g
    simp only at h ih
    subst h
    cases hd : data i with
    | none => simp [hd]
    | some v =>
      simp only []
      generalize hr : getAll Da d' r = q at ih
      obtain ⟨o2, d''⟩ := q
      simp only at ih
      subst ih
      by_cases hall : r.all (fun i => (data i).isSome) = true
      · simp [hall, hd]
      · simp [hall, hd]

theorem refFetch_ne_stop (ix : Idx) : refFetch data c ix ≠ .stop := by
  cases ix with
  | one i =>
    simp only [refFetch]
    split
    · simp
    · exact collate1_ne_stop c _
  | many l =>
    simp only [refFetch]
    split
    · exact collate_ne_stop c _
    · simp

/-- The map fetcher: the result is the reference result for that index batch, whatever the dataset world;
`ended` is untouched. -/
theorem fetch_map (hmap : Da.iterable = false) (hget : ∀ d i, (Da.get d i).1 = data i)
    (d : D) (e : Bool) (ix : Idx) :
    (fetch Da c d e ix).1 = refFetch data c ix ∧ (fetch Da c d e ix).2.2 = e := by
  unfold fetch
  simp only [hmap, Bool.false_eq_true, if_false]
  cases ix with
  | one i =>
    dsimp only
    have h := hget d i
    generalize Da.get d i = g at h ⊢
    obtain ⟨o, d'⟩ := g
    simp only at h
    subst h
    simp only [refFetch]
    cases data i <;> simp
  | many l =>
    dsimp only
    have h := getAll_fst Da data hget l d
    generalize getAll Da d l = g at h ⊢
    obtain ⟨o, d'⟩ := g
    simp only at h
    subst h
    simp only [refFetch]
    by_cases hall : l.all (fun i => (data i).isSome) = true
    · simp [hall]
    · simp [hall]

/-- One `next()` of a map-style iterator in terms of the reference fetch. -/
theorem next_map (hmap : Da.iterable = false) (hget : ∀ d i, (Da.get d i).1 = data i) (x : It W D) :
    (next S Da c x).1 = (match (S.next x.sw).1 with
      | .idx ix => refFetch data c ix
      | .stop => .stop
      | .err => .error 2) ∧
    (next S Da c x).2.ended = x.ended ∧
    (next S Da c x).2.finished = (match (S.next x.sw).1 with
      | .stop => true
      | _ => x.finished) ∧
    (next S Da c x).2.ny = x.ny + (match (S.next x.sw).1 with
      | .idx ix => (match refFetch data c ix with
        | .batch _ => 1
        | .single _ => 1
        | _ => 0)
      | _ => 0) := by
  unfold next
  generalize hs : S.next x.sw = s
  obtain ⟨o, w'⟩ := s
  cases o with
  | stop => simp
  | err => simp
  | idx ix =>
    have hf := fetch_map Da c data hmap hget x.dw x.ended ix
    have hne := refFetch_ne_stop c data ix
    dsimp only
    generalize fetch Da c x.dw x.ended ix = r at hf ⊢
    obtain ⟨o, d', e'⟩ := r
    simp only at hf
    obtain ⟨h1, h2⟩ := hf
    subst h1 h2
    generalize refFetch data c ix = o at hne
    cases o with
    | stop => exact absurd rfl hne
    | batch l => simp
    | single v => simp
    | error k => simp

/-- **An epoch of a map-style iterator** over the index batches `ixs` (from any iterator state): every
batch is delivered, or replaced by the error it raises, in order; then `StopIteration`. -/
theorem epoch_map (hmap : Da.iterable = false) (hget : ∀ d i, (Da.get d i).1 = data i) :
    ∀ (ixs : List Idx) (fuel : Nat) (x : It W D) (w' : W), IRun S.next x.sw ixs w' → ixs.length < fuel →
      (epoch S Da c fuel x).1 = refMap data c ixs ∧ (epoch S Da c fuel x).2.sw = w' ∧
        (epoch S Da c fuel x).2.finished = true ∧ (epoch S Da c fuel x).2.siy = x.siy + ixs.length
  | [], fuel + 1, x, w', h, _ => by
    have hn := next_map S Da c data hmap hget x
    have hw := next_sw S Da c x
    have hy := next_siy S Da c x
    simp only [IRun] at h
    rw [h] at hn hw hy
    simp only at hn hw hy
    rw [epoch]
    generalize next S Da c x = r at hn hw hy
    obtain ⟨o, x'⟩ := r
    simp only at hn hw hy
    obtain ⟨h1, _, h3, _⟩ := hn
    subst h1
    simp [refMap, hw, h3, hy]
  | ix :: r, fuel + 1, x, w', h, hf => by
    have hn := next_map S Da c data hmap hget x
    have hw := next_sw S Da c x
    have hy := next_siy S Da c x
    simp only [IRun] at h
    obtain ⟨h1, h2⟩ := h
    rw [h1] at hn hy
    simp only at hn hy
    have hne := refFetch_ne_stop c data ix
    rw [← hw] at h2
    have ih := epoch_map hmap hget r fuel (next S Da c x).2 w' h2 (by simp at hf; omega)
    rw [epoch]
    generalize next S Da c x = q at hn hw hy ih
    obtain ⟨o, x'⟩ := q
    simp only at hn hw hy ih
    obtain ⟨ho, _⟩ := hn
    subst ho
    obtain ⟨i1, i2, i3, i4⟩ := ih
    have hsiy : (epoch S Da c fuel x').2.siy = x.siy + (ix :: r).length := by
      rw [i4, hy, List.length_cons]; omega
    simp only [refMap, List.map_cons, List.cons_append] at i1 ⊢
    generalize refFetch data c ix = o at hne ⊢
    cases o with
    | stop => exact absurd rfl hne
    | batch l => exact ⟨by simp only [i1], i2, i3, hsiy⟩
    | single v => exact ⟨by simp only [i1], i2, i3, hsiy⟩
    | error k => exact ⟨by simp only [i1], i2, i3, hsiy⟩

end map

end TDV.SP
