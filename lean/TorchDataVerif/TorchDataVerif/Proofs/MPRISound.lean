import TorchDataVerif.Proofs.MPRIRun
import TorchDataVerif.Proofs.MPRIEvents
import TorchDataVerif.Proofs.MPRThm
import TorchDataVerif.Props.MP
/-!
# MPRI — a fresh iterator satisfies the joint invariant; what it says about `state_dict()`
-/
namespace TDV.MPRI
open TDV.MP TDV.MPU TDV.MPR

/-- "No fetch of the epoch raises" (on the reference stream) gives "no shard entry is an error". -/
theorem shardsOk_of_noErr (c : Cfg) (hit : c.iterable = true) (hW : c.shards.length = c.W)
    (h : ∀ it ∈ refStream c, it ≠ Item.err) : ShardsOk c := by
  intro w j hj
  have hlt : j < (c.shards.getD w []).length := (List.getElem?_eq_some_iff.mp hj).1
  have hw : w < c.W := by
    rcases Nat.lt_or_ge w c.W with h1 | h1
    · exact h1
    · rw [List.getD_eq_getElem?_getD, List.getElem?_eq_none (by omega)] at hlt
      simp at hlt
  have hmem : (w, j) ∈ liveFrom c 0 0 := (mem_live0 c _).mpr ⟨hw, by simp only [bOf]; omega⟩
  have : Item.err ∈ refStream c := by
    simp only [refStream, hit, if_true]
    rw [← itemsOf_liveFrom_zero c hW]
    simp only [itemsOf, List.mem_filterMap]
    exact ⟨(w, j), hmem, hj⟩
  exact h _ this rfl

theorem map_idealE_nil (c : Cfg) : (List.range c.W).map (idealE c (fun _ => false) []) =
    List.replicate c.W ⟨0, false⟩ := by
  apply List.ext_getElem?
  intro w
  by_cases hw : w < c.W
  · simp [hw, idealE_nil]
  · simp [hw]

/-- The initial state of a freshly constructed iterator satisfies the joint invariant. -/
theorem init_J (c : Cfg) (hv : c.ValidI) (hit : c.iterable = true) (hio : c.inOrder = true) :
    J c (fun _ => false) 0 (init c) := by
  have hinit : init c = prime c (c.P * c.W)
      (tailArg c (resetHead c (baseState c (List.replicate c.W ⟨[], 0, false, true⟩)))) := rfl
  rw [hinit]
  apply base_J c (fun _ => false) 0 _ 0 0 0 (fun _ => 0) [] hit hio (Nat.mul_pos hv.1.2 hv.1.1)
  · refine ⟨rfl, rfl, rfl, rfl, rfl, by simp [tailArg, resetHead, baseState], ?_, rfl, rfl, rfl, rfl⟩
    intro w k hk
    have hk' : (List.replicate c.W (⟨[], 0, false, true⟩ : Worker))[w]? = some k := hk
    rw [List.getElem?_replicate] at hk'
    split at hk'
    · cases hk'; exact ⟨rfl, rfl, rfl⟩
    · cases hk'
  · exact ⟨hv.1.1, fun i w hi => by simp at hi, fun w _ => by simp, fun w _ => by simp [turns],
      fun w _ => Nat.zero_le _, rfl⟩
  · rfl
  · exact trivial
  · intro hm; cases hm
  · intro hm; cases hm
  · show KS c (fun _ => false) 0 (List.replicate c.W ⟨0, false⟩) ⟨0, c.W - 1, 0, List.replicate c.W ⟨0, false⟩⟩ 0 []
    refine ⟨by simp, ?_, rfl, (fun w hw => by simp at hw), [], [], rfl, (map_idealE_nil c).symm, rfl, Or.inl ⟨rfl, rfl⟩⟩
    intro w hw
    left
    simp [hw, idealE_nil]

/-- In a state of a fresh run that satisfies the joint invariant, the stored snapshot is `idealAt` of its
step. -/
theorem sound_of_J (c : Cfg) (hit : c.iterable = true) (hW : c.shards.length = c.W) (hok : ShardsOk c) (s : State)
    (hJ : J c (fun _ => false) 0 s) : SnapEq c s.snap (idealAt c s.snap.step) := by
  obtain ⟨E, R, hE, ⟨E1, E2, hE12, hat⟩, _⟩ := hJ.2.2.1
  exact snapAt_ideal c hit hW hok E1 (E2 ++ R) s.snap (by rw [← List.append_assoc, ← hE12]; exact hE) hat

/-- Every reachable state of a fresh iterable, in-order epoch without failing fetches satisfies `J`. -/
theorem fresh_J (c : Cfg) (hv : c.ValidI) (hit : c.iterable = true) (hio : c.inOrder = true) (hok : ShardsOk c)
    (as : List Action) (s : State) (hnr : NoReset as) (hr : run c (init c) as = some s) (hd : ¬ died s) :
    J c (fun _ => false) 0 s := by
  rcases run_J c _ 0 as (init c) s hv.2 hit hio hok hnr (Or.inl (init_J c hv hit hio)) hr with h | h
  · exact h
  · exact absurd h hd

end TDV.MPRI
