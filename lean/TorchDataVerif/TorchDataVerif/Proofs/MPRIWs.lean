import TorchDataVerif.Proofs.MPRIPairs
import TorchDataVerif.Proofs.MPUSnapRun
/-!
# MPRI — the worker-snapshot invariant `KS` on consumed pairs, and its three transitions

`KS c e0 δ ws sn y E`: `ws` = `_worker_snapshots`, `sn` = the stored snapshot, `y` = `_num_yielded`, `E` = the
consumed live pairs.  Every worker is *fresh* (`ws[w]` is its ideal state after `E`) or *stale*: its last
consumed pair was a data task whose dispatch-time window flag (`flagW`) was false, yielded at most `W·P`
after its dispatch, and fewer than `W` yields ago.  At a snapshot boundary nobody is stale.
-/
namespace TDV.MPRI
open TDV.MP TDV.MPU

/-- The dispatch-time flag `snapshot` (worker state wanted) of `_try_put_index`, iterable datasets. -/
def flagW (c : Cfg) (d : Nat) : Bool :=
  decide (c.interval ≠ 0) && decide (d % c.interval + 1 + c.W * c.P + c.W ≥ c.interval)

theorem flags_iter2 (c : Cfg) (sp d : Nat) (hit : c.iterable = true) : (flags c sp d).2 = flagW c d := by
  simp only [flags, flagW, hit]
  by_cases h0 : c.interval = 0
  · simp [h0]
  · simp [h0]

def StaleE (c : Cfg) (y : Nat) (E : List (Nat × Nat)) (w : Nat) : Prop :=
  endE c E w = false ∧ ∃ d, flagW c d = false ∧ d + 1 + sinceE c E w ≤ y ∧ y ≤ d + 1 + c.W * c.P + sinceE c E w

def WsOk (c : Cfg) (e0 : Nat → Bool) (ws : List WSt) (y : Nat) (E : List (Nat × Nat)) (w : Nat) : Prop :=
  ws[w]? = some (idealE c e0 E w) ∨ StaleE c y E w

def LastIs (c : Cfg) (E1 : List (Nat × Nat)) (lw : Nat) : Prop :=
  (E1 = [] ∧ lw = c.W - 1) ∨ ∃ E0 j, E1 = E0 ++ [(lw, j)] ∧ j < bOf c lw

/-- The stored snapshot is the ideal state after an earlier consumed prefix `E1`. -/
def SnapAt (c : Cfg) (e0 : Nat → Bool) (δ : Nat) (E1 : List (Nat × Nat)) (sn : Snap) : Prop :=
  sn.ws = (List.range c.W).map (idealE c e0 E1) ∧ sn.step + δ = ndE c E1 ∧ LastIs c E1 sn.lastW

def SnapOk (c : Cfg) (e0 : Nat → Bool) (δ : Nat) (E : List (Nat × Nat)) (sn : Snap) : Prop :=
  ∃ E1 E2, E = E1 ++ E2 ∧ SnapAt c e0 δ E1 sn

structure KS (c : Cfg) (e0 : Nat → Bool) (δ : Nat) (ws : List WSt) (sn : Snap) (y : Nat)
    (E : List (Nat × Nat)) : Prop where
  wl : ws.length = c.W
  ok : ∀ w, w < c.W → WsOk c e0 ws y E w
  yc : y + δ = ndE c E
  e0ok : ∀ w, e0 w = true → bOf c w ≤ posE c E w
  sn : SnapOk c e0 δ E sn

theorem SnapOk_snoc (c : Cfg) (e0 : Nat → Bool) (δ : Nat) (E : List (Nat × Nat)) (p : Nat × Nat) (sn : Snap)
    (h : SnapOk c e0 δ E sn) : SnapOk c e0 δ (E ++ [p]) sn := by
  obtain ⟨E1, E2, hE, h1⟩ := h
  exact ⟨E1, E2 ++ [p], by rw [hE, List.append_assoc], h1⟩

theorem isD_notice (c : Cfg) (v : Nat) : isD c (v, bOf c v) = false := by simp [isD]

theorem isD_data (c : Cfg) (v j : Nat) (h : j < bOf c v) : isD c (v, j) = true := by simp [isD, h]

/-- Consuming the end-of-shard notice of worker `v` (it carries `⟨b_v, true⟩`). -/
theorem KS_notice (c : Cfg) (e0 : Nat → Bool) (δ : Nat) (ws : List WSt) (sn : Snap) (y : Nat)
    (E : List (Nat × Nat)) (v : Nat) (h : KS c e0 δ ws sn y E) (hv : v < c.W) (hpos : posE c E v = bOf c v) :
    KS c e0 δ (ws.set v ⟨bOf c v, true⟩) sn y (E ++ [(v, bOf c v)]) := by
  have hnd := isD_notice c v
  refine ⟨by rw [List.length_set]; exact h.wl, ?_, ?_, ?_, SnapOk_snoc c e0 δ E _ sn h.sn⟩
  · intro w hw
    by_cases hwv : w = v
    · subst hwv
      left
      rw [List.getElem?_set_self (by rw [h.wl]; exact hw)]
      simp only [idealE, posE_snoc, endE_snoc, hnd, hpos]
      simp
    · have hvw : ¬ v = w := fun hh => hwv hh.symm
      have e1 : posE c (E ++ [(v, bOf c v)]) w = posE c E w := by rw [posE_snoc]; simp [hvw]
      have e2 : endE c (E ++ [(v, bOf c v)]) w = endE c E w := by rw [endE_snoc]; simp [hvw]
      have e3 : sinceE c (E ++ [(v, bOf c v)]) w = sinceE c E w := by rw [sinceE_snoc]; simp [hvw, hnd]
      rcases h.ok w hw with hf | ⟨hs1, hs2⟩
      · left
        rw [List.getElem?_set_ne (fun hh => hwv hh.symm)]
        simp only [idealE, e1, e2]
        exact hf
      · right
        exact ⟨by rw [e2]; exact hs1, by rw [e3]; exact hs2⟩
  · rw [ndE_snoc, hnd]; simpa using h.yc
  · intro w hw
    have := h.e0ok w hw
    rw [posE_snoc]; omega

/-- What a data result of worker `v`'s task number `j` dispatched at `d` carries. -/
def deltaOf (c : Cfg) (d j : Nat) : Option WSt := if flagW c d then some ⟨j + 1, false⟩ else none

/-- Yielding the batch of worker `v`'s data task number `j`, dispatched at `_num_yielded = d`. -/
theorem KS_data (c : Cfg) (e0 : Nat → Bool) (δ : Nat) (ws : List WSt) (sn : Snap) (y : Nat)
    (E : List (Nat × Nat)) (v j d : Nat) (h : KS c e0 δ ws sn y E) (hv : v < c.W) (hj : j < bOf c v)
    (hpos : posE c E v = j) (hend : endE c E v = false) (hd1 : d ≤ y) (hd2 : y + 1 ≤ d + 1 + c.W * c.P) :
    KS c e0 δ (applyDelta ws v (deltaOf c d j)) sn (y + 1) (E ++ [(v, j)]) := by
  have hdt := isD_data c v j hj
  have hwl : (applyDelta ws v (deltaOf c d j)).length = c.W := by
    unfold applyDelta deltaOf
    split <;> simp_all [h.wl]
  have he0 : e0 v = false := by
    cases hh : e0 v with
    | false => rfl
    | true => have := h.e0ok v hh; omega
  have hjb : (j == bOf c v) = false := by simp; omega
  refine ⟨hwl, ?_, ?_, ?_, SnapOk_snoc c e0 δ E _ sn h.sn⟩
  · intro w hw
    by_cases hwv : w = v
    · subst hwv
      by_cases hf : flagW c d = true
      · left
        simp only [deltaOf, hf, if_true, applyDelta]
        rw [List.getElem?_set_self (by rw [h.wl]; exact hw)]
        simp only [idealE, posE_snoc, endE_snoc, hdt, hpos, hend, he0, hjb]
        simp
      · right
        have hf' : flagW c d = false := by simpa using hf
        refine ⟨by rw [endE_snoc, hend, hjb]; simp, d, hf', ?_, ?_⟩
        · rw [sinceE_snoc]; simp; omega
        · rw [sinceE_snoc]; simp; omega
    · have hvw : ¬ v = w := fun hh => hwv hh.symm
      have e1 : posE c (E ++ [(v, j)]) w = posE c E w := by rw [posE_snoc]; simp [hvw]
      have e2 : endE c (E ++ [(v, j)]) w = endE c E w := by rw [endE_snoc]; simp [hvw]
      have e3 : sinceE c (E ++ [(v, j)]) w = 1 + sinceE c E w := by rw [sinceE_snoc]; simp [hvw, hdt]
      have e4 : (applyDelta ws v (deltaOf c d j))[w]? = ws[w]? := by
        unfold applyDelta deltaOf
        split
        · rfl
        · rw [List.getElem?_set_ne (fun hh => hwv hh.symm)]
      rcases h.ok w hw with hfr | ⟨hs1, d', hs2, hs3, hs4⟩
      · left
        rw [e4]
        simp only [idealE, e1, e2]
        exact hfr
      · right
        exact ⟨by rw [e2]; exact hs1, d', hs2, by rw [e3]; omega, by rw [e3]; omega⟩
  · rw [ndE_snoc, hdt]; have := h.yc; simp; omega
  · intro w hw
    have := h.e0ok w hw
    rw [posE_snoc]; omega

/-- At a snapshot boundary nobody is stale. -/
theorem KS_boundary (c : Cfg) (e0 : Nat → Bool) (δ : Nat) (ws : List WSt) (sn : Snap) (y : Nat)
    (E R : List (Nat × Nat)) (h : KS c e0 δ ws sn y E) (hE : E ++ R = liveFrom c 0 0) (hI : c.interval ≠ 0)
    (hy : y % c.interval = 0) : ws = (List.range c.W).map (idealE c e0 E) := by
  apply List.ext_getElem?
  intro w
  by_cases hw : w < c.W
  · rw [List.getElem?_map, List.getElem?_range hw]
    simp only [Option.map_some]
    rcases h.ok w hw with hf | ⟨hs1, d, hs2, hs3, hs4⟩
    · exact hf
    · exfalso
      have hs := since_lt c E R w hE hw hs1
      have := window_flag c.interval d y (c.W * c.P + c.W) hI hy (by omega) (by omega)
      simp only [flagW, hI, ne_eq, not_false_eq_true, decide_true, Bool.true_and, decide_eq_false_iff_not] at hs2
      omega
  · rw [List.getElem?_eq_none (by rw [h.wl]; omega), List.getElem?_eq_none (by simp; omega)]

/-- `_take_snapshot` at a boundary stores the ideal state after `E`. -/
theorem KS_snap (c : Cfg) (e0 : Nat → Bool) (δ : Nat) (ws : List WSt) (sn : Snap) (y x : Nat)
    (E0 R : List (Nat × Nat)) (v j : Nat) (h : KS c e0 δ ws sn y (E0 ++ [(v, j)])) (hj : j < bOf c v)
    (hE : (E0 ++ [(v, j)]) ++ R = liveFrom c 0 0) (hI : c.interval ≠ 0) (hy : y % c.interval = 0) :
    KS c e0 δ ws ⟨y, v, x, ws⟩ y (E0 ++ [(v, j)]) := by
  refine ⟨h.wl, h.ok, h.yc, h.e0ok, _, [], by simp, ?_, h.yc, Or.inr ⟨E0, j, rfl, hj⟩⟩
  exact KS_boundary c e0 δ ws sn y _ R h hE hI hy

end TDV.MPRI
