import TorchDataVerif.Proofs.MPRIPairs
import TorchDataVerif.Proofs.MPUSnapRun
/-!
# MPRI — the worker-snapshot invariant `KS` on consumed pairs, and its three transitions

`KS c e0 δ ws sn y E`: `ws` = `_worker_snapshots`, `sn` = the stored snapshot, `y` = `_num_yielded`, `E` = the
consumed live pairs.  Every worker is *fresh* (`ws[w]` is its ideal state after `E`) or *stale*: its last
consumed pair was a data task whose dispatch-time window flag (`flagW`) was false, yielded at most `W·P`
after its dispatch, and fewer than `W` yields ago.  At a snapshot boundary nobody is stale.
-/
namespace TDV.MPRI
open TDV.MP TDV.MPU

/-- The dispatch-time flag `snapshot` (worker state wanted) of `_try_put_index`, iterable datasets. -/
def flagW (c : Cfg) (d : Nat) : Bool :=
  decide (c.interval ≠ 0) && decide (d % c.interval + 1 + c.W * c.P + c.W ≥ c.interval)

theorem flags_iter2 (c : Cfg) (sp d : Nat) (hit : c.iterable = true) : (flags c sp d).2 = flagW c d := by
  simp only [flags, flagW, hit]
  by_cases h0 : c.interval = 0
  · simp [h0]
  · simp [h0]

def StaleE (c : Cfg) (y : Nat) (E : List (Nat × Nat)) (w : Nat) : Prop :=
  endE c E w = false ∧ ∃ d, flagW c d = false ∧ d + 1 + sinceE c E w ≤ y ∧ y ≤ d + 1 + c.W * c.P + sinceE c E w

def WsOk (c : Cfg) (e0 : Nat → Bool) (ws : List WSt) (y : Nat) (E : List (Nat × Nat)) (w : Nat) : Prop :=
  ws[w]? = some (idealE c e0 E w) ∨ StaleE c y E w

def LastIs (c : Cfg) (E1 : List (Nat × Nat)) (lw : Nat) : Prop :=
  (E1 = [] ∧ lw = c.W - 1) ∨ ∃ E0 j, E1 = E0 ++ [(lw, j)] ∧ j < bOf c lw

/-- The stored snapshot is the ideal state after an earlier consumed prefix `E1`. -/
def SnapAt (c : Cfg) (e0 : Nat → Bool) (δ : Nat) (E1 : List (Nat × Nat)) (sn : Snap) : Prop :=
  sn.ws = (List.range c.W).map (idealE c e0 E1) ∧ sn.step + δ = ndE c E1 ∧ LastIs c E1 sn.lastW

def SnapOk (c : Cfg) (e0 : Nat → Bool) (δ : Nat) (E : List (Nat × Nat)) (sn : Snap) : Prop :=
  ∃ E1 E2, E = E1 ++ E2 ∧ SnapAt c e0 δ E1 sn

structure KS (c : Cfg) (e0 : Nat → Bool) (δ : Nat) (ws : List WSt) (sn : Snap) (y : Nat)
    (E : List (Nat × Nat)) : Prop where
  wl : ws.length = c.W
  ok : ∀ w, w < c.W → WsOk c e0 ws y E w
  yc : y + δ = ndE c E
  e0ok : ∀ w, e0 w = true → bOf c w ≤ posE c E w
  sn : SnapOk c e0 δ E sn

theorem SnapOk_snoc (c : Cfg) (e0 : Nat → Bool) (δ : Nat) (E : List (Nat × Nat)) (p : Nat × Nat) (sn : Snap)
    (h : SnapOk c e0 δ E sn) : SnapOk c e0 δ (E ++ [p]) sn := by
  obtain ⟨E1, E2, hE, h1⟩ := h
  exact ⟨E1, E2 ++ [p], by rw [hE, List.append_assoc], h1⟩

end TDV.MPRI
