import TorchDataVerif.Proofs.PMGen
/-!
# `Gen2`: who is inside the source across `reset()` of a ParallelMapper

A refinement of the generation layer `GState` / `gstep` of `Model/PM.lean` (which is left untouched; every `g2step`
goes through `gstep`).  It adds what the coarse layer leaves anonymous:

* the joins of `_ParallelMapperIter._shutdown` are per thread and in the order of the code: reader, sorter, then the
  workers (`for t in self._workers`), each `if t.is_alive(): t.join(timeout=0.5)`: `joinOk t` = the thread has
  exited (not alive, or the join returned), `joinGiveUp t` = the timed join returned with the thread still alive;
* `renew` is split: `ctorEnter` = `_shutdown` has returned, the new `_ParallelMapperIter.__init__` has created its own
  queues / semaphore / events and the CONSUMER thread is now inside `source.reset(...)`; `ctorLeave` = `source.reset`
  returned and the new threads are started.  The very first iterator is constructed the same way (`g2init`);
* the new reader's start-up `source.state_dict()` (`append_initial_snapshot(source.state_dict())`, the model's atomic
  `rInit`) gets an explicit entry `rInitEnter`, so that it can be seen to overlap with other threads.

`source.state_dict()` taken for a snapshot after `next(source)` is part of the reader's `insrc` phase (`rLeave`).
-/
namespace TDV.PM
variable {c : Cfg} {s s' : State}

inductive Thr | reader | sorter | worker (k : Nat)
  deriving DecidableEq, Repr

/-- where the consumer thread is, beyond `g.cur.cpc` -/
inductive Ph
  | run               -- as `cur.cpc` says; with `cpc = closed`: `_shutdown` is at the reader's join
  | joinS             -- `_shutdown` is at the sorter's join
  | joinW (k : Nat)   -- `_shutdown` is at worker k's join (or past the last one)
  | reset             -- inside `source.reset(...)` of the new iterator's `__init__`; its threads are not started yet
  deriving DecidableEq, Repr

structure G2State where
  g : GState
  ph : Ph
  rinit : Bool        -- the live generation's reader is inside its start-up `source.state_dict()`
  deriving DecidableEq, Repr

inductive G2Action
  | cur (a : Action)
  | old (i : Nat) (a : Action)
  | rInitEnter
  | joinOk (t : Thr)
  | joinGiveUp (t : Thr)
  | ctorEnter
  | ctorLeave
  deriving DecidableEq, Repr

/-- the thread `_shutdown` joins next, whether it is still alive, and the phase after that join -/
def joinTarget (s : State) : Ph → Option (Thr × Bool × Ph)
  | .run => if s.cpc = .closed then some (.reader, s.rpc != .exited, .joinS) else none
  | .joinS => some (.sorter, s.spc != .exited && s.spc != .off, .joinW 0)
  | .joinW k => match s.wk[k]? with
    | some p => some (.worker k, p != .exited && p != .dead, .joinW (k + 1))
    | none => none
  | .reset => none

def g2step (c : Cfg) (x : G2State) : G2Action → Option G2State
  | .cur a =>
    if x.ph = .reset then none
    else if a = .rInit ∧ x.rinit = false then none
    else match gstep c x.g (.cur a) with
      | some g' => some { x with g := g', rinit := if a = .rInit then false else x.rinit }
      | none => none
  | .old i a => match gstep c x.g (.old i a) with
    | some g' => some { x with g := g' }
    | none => none
  | .rInitEnter =>
    if x.ph ≠ .reset ∧ x.g.cur.rpc = .init ∧ x.rinit = false then some { x with rinit := true } else none
  | .joinOk t => match joinTarget x.g.cur x.ph with
    | some (t', alive, ph') =>
      if t = t' ∧ alive = false then
        match gstep c x.g .joinOk with
        | some g' => some { x with g := g', ph := ph' }
        | none => none
      else none
    | none => none
  | .joinGiveUp t => match joinTarget x.g.cur x.ph with
    | some (t', alive, ph') =>
      if t = t' ∧ alive = true then
        match gstep c x.g .joinGiveUp with
        | some g' => some { x with g := g', ph := ph' }
        | none => none
      else none
    | none => none
  | .ctorEnter => match x.ph with
    | .joinW k =>
      if x.g.cur.wk[k]? = none then
        match gstep c x.g .renew with
        | some g' => some { g := g', ph := .reset, rinit := false }
        | none => none
      else none
    | _ => none
  | .ctorLeave => if x.ph = .reset then some { x with ph := .run } else none

/-- the first `reset()` of the node: the consumer is inside `source.reset` of the first iterator's constructor -/
def g2init (c : Cfg) : G2State := { g := ginit c, ph := .reset, rinit := false }

def g2run (c : Cfg) (x : G2State) : List G2Action → Option G2State
  | [] => some x
  | a :: as => match g2step c x a with
    | some x' => g2run c x' as
    | none => none

/-- Threads inside `next()` / `reset()` / `state_dict()` of the one shared source node: the readers of all generations
inside `next(source)`, the consumer inside the constructor's `source.reset`, the new reader inside its start-up
`source.state_dict()`. -/
def driversInSource (x : G2State) : Nat :=
  readersInSource x.g + (if x.ph = .reset then 1 else 0) + (if x.rinit then 1 else 0)

/-- the coarse action a `G2Action` is executed as -/
def G2Action.proj : G2Action → Option GAction
  | .cur a => some (.cur a)
  | .old i a => some (.old i a)
  | .rInitEnter => none
  | .joinOk _ => some .joinOk
  | .joinGiveUp _ => some .joinGiveUp
  | .ctorEnter => some .renew
  | .ctorLeave => none

/-- operations on the source node: start-up `state_dict()`, entering and leaving `next(source)` -/
def Action.touchesSource : Action → Bool
  | .rInit | .rEnter | .rLeave => true
  | _ => false

/-- the reader will not call the source again once `_stop` is set -/
def RPc.pastSource : RPc → Bool
  | .top | .app _ _ | .put _ | .ret | .exited => true
  | _ => false

/-- the reader of this generation is done with the source: it has exited, or `_stop` is set and it is past its last
`next(source)` (about to append / put / test the event) -/
def Silent (s : State) : Prop := s.rpc = .exited ∨ (s.stop = true ∧ s.rpc.pastSource = true)

end TDV.PM
