import TorchDataVerif.Proofs.PMInvAll
/-! Consequences of `Inv`: ordering, completeness, read-ahead bound, checkpoint closed form. -/
namespace TDV.PM
variable {c : Cfg} {s : State}

theorem filterMap_range_outVal (c : Cfg) : ∀ g, (List.range g).filterMap (outVal c) = (c.src.take g).filterMap c.fn
  | 0 => by simp
  | g + 1 => by
    rw [List.range_succ, List.filterMap_append, filterMap_range_outVal c g, List.take_add_one, List.filterMap_append]
    congr 1
    simp only [List.filterMap_cons, List.filterMap_nil, outVal_eq]
    cases c.src[g]? with
    | none => simp
    | some v => cases hf : c.fn v <;> simp [hf]

theorem take_filterMap_prefix (c : Cfg) (g : Nat) : (c.src.take g).filterMap c.fn <+: refOut c := by
  unfold refOut
  conv => rhs; rw [← List.take_append_drop g c.src]
  rw [List.filterMap_append]
  exact List.prefix_append _ _

theorem got_nodup (h : Inv c s) : s.got.Nodup := by
  apply nodup_of_count_le_one
  intro k
  have h1 := h.cnt k
  have : (if k < s.pulled then 1 else 0) ≤ 1 := by split <;> omega
  simp only [cnt] at h1
  omega

/-- State at (and after) an end of stream reported by `next()`, when no worker has died: nothing is in flight and every
index — including the terminal — was consumed exactly once. -/
theorem at_stop (h : Inv c s) (hn : 0 < s.nstop) (hnd : deadCount s = 0) :
    s.sem = c.max ∧ (s.done = true ∨ (c.term = .error ∧ c.src.length ∈ s.got)) ∧ held s = 0 ∧ s.lost = [] ∧
    s.pulled = c.src.length + 1 ∧ ∀ k, s.got.count k = if k < c.src.length + 1 then 1 else 0 := by
  have hf : s.sem = c.max ∧ (s.done = true ∨ (c.term = .error ∧ c.src.length ∈ s.got)) := by
    rcases h.fin (Or.inr (Or.inr (Or.inl hn))) with hd | hd
    · omega
    · exact hd
  have hst := h.nstopStop hn
  have hp := h.permits
  have hheld : held s = 0 := by omega
  have hlost : s.lost = [] := List.eq_nil_of_length_eq_zero (by omega)
  have hhand : s.cpc.hand = none := by
    rcases h.stopC hst with h1 | h1 | h1 | h1 | h1 | h1 <;> simp [h1, CPc.hand]
  have hpull : s.pulled = c.src.length + 1 := by
    rcases hf.2 with hd | ⟨_, hg⟩
    · exact done_pulled h hd
    · exact end_pulled h hg
  refine ⟨hf.1, hf.2, hheld, hlost, hpull, ?_⟩
  intro k
  rw [← hpull]
  exact drained h hheld hhand hlost k

theorem got_perm_at_stop (h : Inv c s) (hn : 0 < s.nstop) (hnd : deadCount s = 0) :
    s.got.Perm (List.range (c.src.length + 1)) := by
  obtain ⟨_, _, _, _, _, hc⟩ := at_stop h hn hnd
  rw [List.perm_ext_iff_of_nodup (got_nodup h) List.nodup_range]
  intro a
  have := hc a
  rw [List.mem_range, ← List.count_pos_iff]
  split at this <;> omega

theorem refOut_eq_range (c : Cfg) : (List.range (c.src.length + 1)).filterMap (outVal c) = refOut c := by
  rw [filterMap_range_outVal]
  unfold refOut
  rw [List.take_of_length_le (by omega)]

theorem held_le_max (h : Inv c s) : held s ≤ c.max := by
  have := h.permits; omega

theorem buf_ge_cur (h : Inv c s) (hio : c.inOrder = true) : ∀ m ∈ s.buf, s.cur ≤ m.idx := by
  intro m hm
  have h1 := h.cnt m.idx
  have h2 := congrArg (List.count m.idx) (h.order hio)
  have h3 : 0 < (idxs s.buf).count m.idx := List.count_pos_iff.mpr (mem_idxs.mpr ⟨m, hm, rfl⟩)
  rw [count_range] at h2
  simp only [List.count_append] at h2
  have h4 : (Option.toList s.cpc.hand).count m.idx = optCount m.idx s.cpc.hand := by
    cases s.cpc.hand <;> simp [List.count_cons]
  simp only [cnt] at h1
  have : (if m.idx < s.pulled then 1 else 0) ≤ 1 := by split <;> omega
  split at h2 <;> omega

theorem le_sum_of_mem {α : Type} (g : α → Nat) : ∀ (l : List α) (p : α), p ∈ l → g p ≤ (l.map g).sum
  | [], p, hp => by simp at hp
  | a :: l, p, hp => by
    simp at hp ⊢
    rcases hp with rfl | hp
    · omega
    · have := le_sum_of_mem g l p hp; omega

theorem exists_dead_of_deadCount (h : 0 < deadCount s) : WPc.dead ∈ s.wk := by
  unfold deadCount at h
  apply Classical.byContradiction
  intro hn
  have := sum_all_zero WPc.deadN s.wk (fun p hp => by
    cases p <;> simp [WPc.deadN]
    exact hn hp)
  omega

theorem deadCount_zero_iff : deadCount s = 0 ↔ ∀ p ∈ s.wk, p ≠ WPc.dead := by
  constructor
  · intro h0 p hp hd
    subst hd
    have := deadCount_pos_of_mem hp
    omega
  · intro hall
    unfold deadCount
    apply sum_all_zero
    intro p hp
    have := hall p hp
    cases p <;> simp [WPc.deadN] at this ⊢

theorem length_filterMap_lt {α β : Type} (f : α → Option β) : ∀ (l : List α) (x : α), x ∈ l → f x = none →
    (l.filterMap f).length < l.length
  | [], x, hx, _ => by simp at hx
  | a :: l, x, hx, hf => by
    have hle : (l.filterMap f).length ≤ l.length := List.length_filterMap_le f l
    rw [List.filterMap_cons, List.length_cons]
    rcases List.mem_cons.mp hx with rfl | hx
    · rw [hf]; show (l.filterMap f).length < l.length + 1; omega
    · have ih := length_filterMap_lt f l x hx hf
      cases f a with
      | none => show (l.filterMap f).length < l.length + 1; omega
      | some b => show (b :: l.filterMap f).length < l.length + 1; rw [List.length_cons]; omega

/-- If every index handed out so far has been completely processed by the consumer, nothing is anywhere else. -/
theorem all_in_got_drained (h : Inv c s) (hall : ∀ k, k < s.pulled → s.got.count k = 1) :
    held s = 0 ∧ s.cpc.hand = none ∧ s.lost = [] := by
  -- an index that is anywhere besides `got` would be counted twice (or is not below `pulled` at all)
  have key : ∀ k, cnt k s ≤ s.got.count k := by
    intro k
    have h1 := h.cnt k
    by_cases hk : k < s.pulled
    · have := hall k hk; simp [hk] at h1; omega
    · simp [hk] at h1; omega
  have hinq : s.inq = [] := by
    cases hq : s.inq with
    | nil => rfl
    | cons m r => have := key m.idx; simp [cnt, hq, List.count_cons] at this; omega
  have hmid : s.mid = [] := by
    cases hq : s.mid with
    | nil => rfl
    | cons m r => have := key m.idx; simp [cnt, hq, List.count_cons] at this; omega
  have hbuf : s.buf = [] := by
    cases hq : s.buf with
    | nil => rfl
    | cons m r => have := key m.idx; simp [cnt, hq, List.count_cons] at this; omega
  have hsq : s.sq = [] := by
    cases hq : s.sq with
    | nil => rfl
    | cons m r => have := key m.idx; simp [cnt, hq, List.count_cons] at this; omega
  have hlost : s.lost = [] := by
    cases hq : s.lost with
    | nil => rfl
    | cons k r => have := key k; simp [cnt, hq, List.count_cons] at this; omega
  have hch : s.cpc.hand = none := by
    cases hq : s.cpc.hand with
    | none => rfl
    | some k => have := key k; simp [cnt, hq] at this; omega
  have hr : s.rpc.holds = 0 := by
    cases hq : s.rpc with
    | app v i => have := key i; simp [cnt, hq, RPc.hand] at this; omega
    | put m => have := key m.idx; simp [cnt, hq, RPc.hand] at this; omega
    | _ => rfl
  have hsp : s.spc.holds = 0 := by
    cases hq : s.spc with
    | «have» m => have := key m.idx; simp [cnt, hq, SPc.hand] at this; omega
    | _ => rfl
  have hw : (s.wk.map WPc.holds).sum = 0 := by
    apply sum_all_zero
    intro p hp
    cases p with
    | «have» m =>
      have h1 := key m.idx
      have h2 := le_sum_of_mem (WPc.cnt m.idx) s.wk _ hp
      simp [WPc.cnt, WPc.hand] at h2
      simp only [cnt] at h1
      omega
    | _ => rfl
  refine ⟨?_, hch, hlost⟩
  simp [held, hinq, hmid, hbuf, hsq, hr, hsp, hw]

end TDV.PM
