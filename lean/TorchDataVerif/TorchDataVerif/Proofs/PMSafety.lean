import TorchDataVerif.Proofs.PMInvAll
/-! Consequences of `Inv`: ordering, completeness, read-ahead bound, checkpoint closed form. -/
namespace TDV.PM
variable {c : Cfg} {s : State}

theorem filterMap_range_outVal (c : Cfg) : ∀ g, (List.range g).filterMap (outVal c) = (c.src.take g).filterMap c.fn
  | 0 => by simp
  | g + 1 => by
    rw [List.range_succ, List.filterMap_append, filterMap_range_outVal c g, List.take_add_one, List.filterMap_append]
    congr 1
    simp only [List.filterMap_cons, List.filterMap_nil, outVal_eq]
    cases c.src[g]? with
    | none => simp
    | some v => cases hf : c.fn v <;> simp [hf]

theorem take_filterMap_prefix (c : Cfg) (g : Nat) : (c.src.take g).filterMap c.fn <+: refOut c := by
  unfold refOut
  conv => rhs; rw [← List.take_append_drop g c.src]
  rw [List.filterMap_append]
  exact List.prefix_append _ _

theorem sum_zero_all {α : Type} (g : α → Nat) : ∀ (l : List α), (l.map g).sum = 0 → ∀ p ∈ l, g p = 0
  | [], _, p, hp => by simp at hp
  | a :: l, h, p, hp => by
    simp at h hp
    rcases hp with rfl | hp
    · exact h.1
    · exact sum_zero_all g l h.2 p hp

theorem sum_all_zero {α : Type} (g : α → Nat) : ∀ (l : List α), (∀ p ∈ l, g p = 0) → (l.map g).sum = 0
  | [], _ => by simp
  | a :: l, h => by
    simp
    exact ⟨h a (by simp), sum_all_zero g l (fun p hp => h p (by simp [hp]))⟩

/-- Nothing is in flight: every index pulled so far has been processed by the consumer exactly once. -/
theorem drained (h : Inv c s) (hheld : held s = 0) (hhand : s.cpc.hand = none) (hlost : s.lost = []) :
    ∀ k, s.got.count k = if k < s.pulled then 1 else 0 := by
  intro k
  have h1 := h.cnt k
  simp only [held] at hheld
  have hinq : s.inq = [] := List.eq_nil_of_length_eq_zero (by omega)
  have hmid : s.mid = [] := List.eq_nil_of_length_eq_zero (by omega)
  have hbuf : s.buf = [] := List.eq_nil_of_length_eq_zero (by omega)
  have hsq : s.sq = [] := List.eq_nil_of_length_eq_zero (by omega)
  have hr : s.rpc.hand = none := by
    have : s.rpc.holds = 0 := by omega
    cases hh : s.rpc <;> simp [hh, RPc.holds, RPc.hand] at this ⊢
  have hsp : s.spc.hand = none := by
    have : s.spc.holds = 0 := by omega
    cases hh : s.spc <;> simp [hh, SPc.holds, SPc.hand] at this ⊢
  have hw : (s.wk.map (WPc.cnt k)).sum = 0 := by
    apply sum_all_zero
    intro p hp
    have : (s.wk.map WPc.holds).sum = 0 := by omega
    have := sum_zero_all WPc.holds s.wk this p hp
    cases p <;> simp [WPc.holds, WPc.cnt, WPc.hand] at this ⊢
  simp only [cnt, hinq, hmid, hbuf, hsq, hr, hsp, hw, hhand, hlost] at h1
  simpa using h1

theorem got_nodup (h : Inv c s) : s.got.Nodup := by
  apply nodup_of_count_le_one
  intro k
  have h1 := h.cnt k
  have : (if k < s.pulled then 1 else 0) ≤ 1 := by split <;> omega
  simp only [cnt] at h1
  omega

/-- State at (and after) a natural end of stream. -/
theorem at_stop (h : Inv c s) (hn : 0 < s.nstop) :
    c.term = .stop ∧ held s = 0 ∧ s.lost = [] ∧ s.pulled = c.src.length + 1 ∧
    ∀ k, s.got.count k = if k < c.src.length + 1 then 1 else 0 := by
  have hf := h.fin (Or.inr (Or.inr (Or.inl hn)))
  have hst := h.nstopStop hn
  have hp := h.permits
  have hheld : held s = 0 := by omega
  have hlost : s.lost = [] := List.eq_nil_of_length_eq_zero (by omega)
  have hhand : s.cpc.hand = none := by
    rcases h.stopC hst with h1 | h1 | h1 | h1 | h1 <;> simp [h1, CPc.hand]
  have hpull := done_pulled h hf.1
  refine ⟨(h.doneI hf.1).1, hheld, hlost, hpull, ?_⟩
  intro k
  rw [← hpull]
  exact drained h hheld hhand hlost k

theorem got_perm_at_stop (h : Inv c s) (hn : 0 < s.nstop) : s.got.Perm (List.range (c.src.length + 1)) := by
  obtain ⟨_, _, _, _, hc⟩ := at_stop h hn
  rw [List.perm_ext_iff_of_nodup (got_nodup h) List.nodup_range]
  intro a
  have := hc a
  rw [List.mem_range, ← List.count_pos_iff]
  split at this <;> omega

theorem refOut_eq_range (c : Cfg) : (List.range (c.src.length + 1)).filterMap (outVal c) = refOut c := by
  rw [filterMap_range_outVal]
  unfold refOut
  rw [List.take_of_length_le (by omega)]

theorem held_le_max (h : Inv c s) : held s ≤ c.max := by
  have := h.permits; omega

theorem buf_ge_cur (h : Inv c s) (hio : c.inOrder = true) : ∀ m ∈ s.buf, s.cur ≤ m.idx := by
  intro m hm
  have h1 := h.cnt m.idx
  have h2 := congrArg (List.count m.idx) (h.order hio)
  have h3 : 0 < (idxs s.buf).count m.idx := List.count_pos_iff.mpr (mem_idxs.mpr ⟨m, hm, rfl⟩)
  rw [count_range] at h2
  simp only [List.count_append] at h2
  have h4 : (Option.toList s.cpc.hand).count m.idx = optCount m.idx s.cpc.hand := by
    cases s.cpc.hand <;> simp [List.count_cons]
  simp only [cnt] at h1
  have : (if m.idx < s.pulled then 1 else 0) ≤ 1 := by split <;> omega
  split at h2 <;> omega

end TDV.PM
