import TorchDataVerif.Proofs.MPRIHist
/-!
# MPRI — the delta invariant of the iterable protocol (ghosts exposed)

Ghosts: the dispatch history `h` of `Proofs/MPIterB.lean` (owner of every task index) and `dl`, the value
of `_num_yielded` at the dispatch of every task index.  `zipZ s.info dl` is the ghost list `Z` of
`Proofs/MPUSnapInv.lean`, so the window invariant `SWk` is reused with its ghost made explicit.
`KF`: every task message carries the window flag of its dispatch time, every result in flight carries the
state delta that flag asks for (`deltaOf`), every end-of-shard notice carries `⟨b_w, true⟩`.
-/
namespace TDV.MPRI
open TDV.MP TDV.MPU

def zipZ (info : List Info) (dl : List Nat) : List (Info × Nat) := info.map (fun e => (e, dl.getD e.idx 0))

theorem zipZ_fst (info : List Info) (dl : List Nat) : (zipZ info dl).map Prod.fst = info := by
  simp [zipZ, List.map_map, Function.comp_def]

theorem zipZ_append (a b : List Info) (dl : List Nat) : zipZ (a ++ b) dl = zipZ a dl ++ zipZ b dl := by
  simp [zipZ]

theorem zipZ_snoc_dl (info : List Info) (dl : List Nat) (d : Nat) (h : ∀ e ∈ info, e.idx < dl.length) :
    zipZ info (dl ++ [d]) = zipZ info dl := by
  unfold zipZ
  apply List.map_congr_left
  intro e he
  have := h e he
  simp [List.getD_eq_getElem?_getD, List.getElem?_append_left this]

theorem zipZ_setRes (info : List Info) (dl : List Nat) (i : Nat) (r : Res) :
    zipZ (setRes info i r) dl = (zipZ info dl).map (storeZ i r) := by
  simp only [zipZ, setRes, List.map_map]
  apply List.map_congr_left
  intro e _
  simp only [Function.comp, storeZ]
  split <;> rfl

theorem IdxFrom_lt (j : Nat) (l : List Info) (h : IdxFrom j l) : ∀ e ∈ l, e.idx < j + l.length := by
  induction l generalizing j with
  | nil => intro e he; cases he
  | cons x l ih =>
    intro e he
    simp only [List.length_cons]
    rcases List.mem_cons.mp he with rfl | he'
    · have := h.1; omega
    · have := ih (j + 1) h.2 e he'; omega

/-- The state delta a result must carry. -/
def StOk (c : Cfg) (h dl : List Nat) (r : Res) : Prop :=
  match r.kind with
  | .data _ => r.st = deltaOf c (dl.getD r.idx 0) ((h.take r.idx).count r.w)
  | .notice => r.st = some ⟨bOf c r.w, true⟩
  | _ => True

structure KF (c : Cfg) (s : State) (h dl : List Nat) : Prop where
  qf : ∀ (w : Nat) (k : Worker), s.workers[w]? = some k → ∀ i p sn, Msg.task i p sn ∈ k.q →
    i < dl.length ∧ sn = flagW c (dl.getD i 0)
  rf : ∀ r ∈ s.resQ, r.idx < dl.length ∧ StOk c h dl r
  inf : ∀ e ∈ s.info, ∀ r, e.res = some r → r.idx < dl.length ∧ StOk c h dl r

theorem StOk_mono (c : Cfg) (h dl a b : List Nat) (r : Res) (hl : dl.length = h.length) (hr : r.idx < dl.length)
    (hs : StOk c h dl r) : StOk c (h ++ a) (dl ++ b) r := by
  unfold StOk at *
  have e1 : (dl ++ b).getD r.idx 0 = dl.getD r.idx 0 := by
    simp [List.getD_eq_getElem?_getD, List.getElem?_append_left hr]
  have e2 : (h ++ a).take r.idx = h.take r.idx := List.take_append_of_le_length (by omega)
  rw [e1, e2]
  exact hs

theorem StOk_dl (c : Cfg) (h dl b : List Nat) (r : Res) (hr : r.idx < dl.length)
    (hs : StOk c h dl r) : StOk c h (dl ++ b) r := by
  unfold StOk at *
  have e1 : (dl ++ b).getD r.idx 0 = dl.getD r.idx 0 := by
    simp [List.getD_eq_getElem?_getD, List.getElem?_append_left hr]
  rw [e1]
  exact hs

theorem KF_mono (c : Cfg) (s : State) (h dl a b : List Nat) (hl : dl.length = h.length) (hk : KF c s h dl) :
    KF c s (h ++ a) (dl ++ b) := by
  refine ⟨?_, ?_, ?_⟩
  · intro w k hw i p sn hm
    obtain ⟨h1, h2⟩ := hk.qf w k hw i p sn hm
    refine ⟨by simp; omega, ?_⟩
    rw [h2]
    simp [List.getD_eq_getElem?_getD, List.getElem?_append_left h1]
  · intro r hr
    obtain ⟨h1, h2⟩ := hk.rf r hr
    exact ⟨by simp; omega, StOk_mono c h dl a b r hl h1 h2⟩
  · intro e he r hr
    obtain ⟨h1, h2⟩ := hk.inf e he r hr
    exact ⟨by simp; omega, StOk_mono c h dl a b r hl h1 h2⟩

theorem KF_of_eq (c : Cfg) (s s' : State) (h dl : List Nat) (hk : KF c s h dl) (e1 : s'.workers = s.workers)
    (e2 : s'.resQ = s.resQ) (e3 : s'.info = s.info) : KF c s' h dl :=
  ⟨by rw [e1]; exact hk.qf, by rw [e2]; exact hk.rf, by rw [e3]; exact hk.inf⟩

/-- A dispatch: the new task is recorded with the current `_num_yielded`; its message carries `flagW`. -/
theorem KX_dispatch (c : Cfg) (s : State) (h dl : List Nat) (ex : Option Nat) (k w cyc : Nat)
    (hit : c.iterable = true) (hZ : SWk c s (zipZ s.info dl) ex k) (hdl : dl.length = s.sendIdx)
    (hF : KF c s h dl) (hroom : cntZ ex (zipZ s.info dl) + 1 ≤ c.W * c.P) :
    SWk c (dispatchTo c s w cyc) (zipZ (dispatchTo c s w cyc).info (dl ++ [s.numYielded])) ex k ∧
    KF c (dispatchTo c s w cyc) h (dl ++ [s.numYielded]) := by
  have hlt : ∀ e ∈ s.info, e.idx < dl.length := by
    intro e he
    have := IdxFrom_lt _ _ hZ.idx e he
    have := hZ.len
    omega
  have hz : zipZ (dispatchTo c s w cyc).info (dl ++ [s.numYielded]) =
      zipZ s.info dl ++ [(⟨s.sendIdx, w, none⟩, s.numYielded)] := by
    show zipZ (s.info ++ [⟨s.sendIdx, w, none⟩]) (dl ++ [s.numYielded]) = _
    rw [zipZ_append, zipZ_snoc_dl _ _ _ hlt]
    simp [zipZ, List.getD_eq_getElem?_getD, ← hdl]
  rw [hz]
  refine ⟨SWk_dispatch c s _ ex k w cyc hit hZ hroom, ?_, ?_, ?_⟩
  · intro w' k' hk' i p sn hm
    simp only [dispatchTo] at hk'
    obtain ⟨k0, hk0, _, _, _, hq⟩ := pushMsg_get _ _ _ _ _ hk'
    rw [hq] at hm
    have hold : Msg.task i p sn ∈ k0.q → i < (dl ++ [s.numYielded]).length ∧
        sn = flagW c ((dl ++ [s.numYielded]).getD i 0) := by
      intro hm0
      obtain ⟨h1, h2⟩ := hF.qf w' k0 hk0 i p sn hm0
      refine ⟨by simp; omega, ?_⟩
      rw [h2]; simp [List.getD_eq_getElem?_getD, List.getElem?_append_left h1]
    split at hm
    · rcases List.mem_append.mp hm with hm0 | hm1
      · exact hold hm0
      · simp only [List.mem_singleton, Msg.task.injEq] at hm1
        obtain ⟨rfl, _, rfl⟩ := hm1
        refine ⟨by simp; omega, ?_⟩
        rw [flags_iter2 c _ _ hit]
        simp [List.getD_eq_getElem?_getD, ← hdl]
    · exact hold hm
  · intro r hr
    obtain ⟨h1, h2⟩ := hF.rf r hr
    refine ⟨by simp; omega, ?_⟩
    exact StOk_dl c h dl _ r h1 h2
  · intro e he r hr
    have he' : e ∈ s.info ++ [⟨s.sendIdx, w, none⟩] := he
    rcases List.mem_append.mp he' with he0 | he1
    · obtain ⟨h1, h2⟩ := hF.inf e he0 r hr
      refine ⟨by simp; omega, ?_⟩
      exact StOk_dl c h dl _ r h1 h2
    · simp at he1; subst he1; cases hr

/-- `_try_put_index` (iterable): the ghost `dl` grows by the current `_num_yielded` exactly when a task is
dispatched. -/
theorem KX_tryPut (c : Cfg) (s : State) (h dl : List Nat) (ex : Option Nat) (k : Nat)
    (hit : c.iterable = true) (hZ : SWk c s (zipZ s.info dl) ex k) (hdl : dl.length = s.sendIdx)
    (hF : KF c s h dl) (hroom : cntZ ex (zipZ s.info dl) + 1 ≤ c.W * c.P) :
    ∃ dl', (dl' = dl ∨ dl' = dl ++ [s.numYielded]) ∧ dl'.length = (tryPut c s).sendIdx ∧
      SWk c (tryPut c s) (zipZ (tryPut c s).info dl') ex k ∧ KF c (tryPut c s) h dl' ∧
      (∀ a ∈ s.mainSnaps, a ∈ (tryPut c s).mainSnaps) ∧
      (∀ e ∈ (tryPut c s).info, e ∈ s.info ∨ e.res = none) ∧ (∀ e ∈ s.info, e ∈ (tryPut c s).info) := by
  unfold tryPut
  simp only [hit, Bool.not_true, Bool.false_and, Bool.false_eq_true, if_false]
  split
  · exact ⟨dl, Or.inl rfl, hdl, SWk_of_eq c s _ _ ex k hZ rfl rfl rfl rfl rfl, KF_of_eq c s _ h dl hF rfl rfl rfl,
      fun a ha => ha, fun e he => Or.inl he, fun e he => he⟩
  · rename_i w cyc _
    obtain ⟨h1, h2⟩ := KX_dispatch c s h dl ex k w cyc hit hZ hdl hF hroom
    refine ⟨dl ++ [s.numYielded], Or.inr rfl, by simp [dispatchTo, hdl], h1, h2, fun a ha => ?_, fun e he => ?_,
      fun e he => ?_⟩
    · show a ∈ (if (flags c (s.samplerPos + 1) s.numYielded).1 then s.mainSnaps ++ [(s.sendIdx, s.samplerPos + 1)]
        else s.mainSnaps)
      split
      · exact List.mem_append_left _ ha
      · exact ha
    · have he' : e ∈ s.info ++ [⟨s.sendIdx, w, none⟩] := he
      rcases List.mem_append.mp he' with h3 | h3
      · exact Or.inl h3
      · simp at h3; subst h3; exact Or.inr rfl
    · show e ∈ s.info ++ [⟨s.sendIdx, w, none⟩]
      exact List.mem_append_left _ he

/-- What `yieldItem` does to the snapshot fields when it returns the batch. -/
theorem yieldItem_fields (c : Cfg) (s : State) (r : Res) (b : Nat) (hit : c.iterable = true)
    (hio : c.inOrder = true)
    (hitem : (yieldItem c s r b).2 = .item b) :
    (yieldItem c s r b).1.wsnaps = applyDelta s.wsnaps r.w r.st ∧
    (yieldItem c s r b).1.numYielded = s.numYielded + 1 ∧
    ((c.interval ≠ 0 ∧ (s.numYielded + 1) % c.interval = 0) →
      ∃ x, (yieldItem c s r b).1.snap = ⟨s.numYielded + 1, r.w, x, applyDelta s.wsnaps r.w r.st⟩) ∧
    (¬ (c.interval ≠ 0 ∧ (s.numYielded + 1) % c.interval = 0) → (yieldItem c s r b).1.snap = s.snap) := by
  rw [yieldItem_iter c s r b hit] at hitem ⊢
  unfold yieldItemOld at hitem ⊢
  dsimp only at hitem ⊢
  by_cases hdue : c.interval ≠ 0 ∧ (s.numYielded + 1) % c.interval = 0
  · rw [if_pos hdue] at hitem ⊢
    rcases takeSnapshot_cases c { s with lastW := r.w, wsnaps := applyDelta s.wsnaps r.w r.st } hio with ht | ⟨e, rest, ht⟩
    · rw [ht] at hitem; simp at hitem
    · rw [ht]
      exact ⟨rfl, rfl, fun _ => ⟨e, rfl⟩, fun hn => absurd hdue hn⟩
  · rw [if_neg hdue]
    exact ⟨rfl, rfl, fun hn => absurd hn hdue, fun _ => rfl⟩

end TDV.MPRI
