import TorchDataVerif.Proofs.MPUnDisp
/-!
# MPU, `in_order = False`: removing an entry of `_task_info`
-/
namespace TDV.MPU
open TDV.MP

theorem mem_erase (l : List Info) (i : Nat) (e : Info) : e ∈ eraseInfo l i ↔ e ∈ l ∧ e.idx ≠ i := by
  simp [eraseInfo, List.mem_filter]

theorem erase_nodup (l : List Info) (i : Nat) (h : (l.map (·.idx)).Nodup) :
    ((eraseInfo l i).map (·.idx)).Nodup :=
  List.Nodup.sublist (List.Sublist.map _ List.filter_sublist) h

theorem erase_none (l : List Info) (i : Nat) (h : ∀ e ∈ l, e.idx ≠ i) : eraseInfo l i = l := by
  simp only [eraseInfo]
  rw [List.filter_eq_self]
  intro a ha
  simp [h a ha]

theorem entriesOf_cons (x : Info) (l : List Info) (v : Nat) :
    entriesOf (x :: l) v = (if x.w = v then 1 else 0) + entriesOf l v := by
  simp only [entriesOf, List.filter_cons]
  by_cases h : x.w = v
  · simp [h]; omega
  · have : (x.w == v) = false := by simp [h]
    simp [this, h]

theorem entriesOf_erase (l : List Info) (E : Info) (v : Nat) (hE : E ∈ l) (h : (l.map (·.idx)).Nodup) :
    entriesOf (eraseInfo l E.idx) v + (if E.w = v then 1 else 0) = entriesOf l v := by
  induction l with
  | nil => cases hE
  | cons x l ih =>
    simp only [List.map_cons, List.nodup_cons, List.mem_map, not_exists, not_and] at h
    by_cases hx : x.idx = E.idx
    · have hxE : x = E := by
        rcases List.mem_cons.mp hE with h1 | h1
        · exact h1.symm
        · exact absurd hx.symm (h.1 E h1)
      subst hxE
      have hl : eraseInfo l x.idx = l := erase_none l x.idx (fun e he heq => h.1 e he heq)
      have : eraseInfo (x :: l) x.idx = l := by
        simp only [eraseInfo, List.filter_cons] at hl ⊢
        simp [hl]
      rw [this, entriesOf_cons]; omega
    · have hEl : E ∈ l := by
        rcases List.mem_cons.mp hE with h1 | h1
        · subst h1; exact absurd rfl hx
        · exact h1
      have : eraseInfo (x :: l) E.idx = x :: eraseInfo l E.idx := by
        simp only [eraseInfo, List.filter_cons]
        simp [hx]
      rw [this, entriesOf_cons, entriesOf_cons, Nat.add_assoc, ih hEl h.2]

/-- Entries of other workers are not affected by the removal of an entry whose owner is not `v`. -/
theorem entriesOf_erase_other (l : List Info) (i v : Nat) (h : ∀ e ∈ l, e.idx = i → e.w ≠ v) :
    entriesOf (eraseInfo l i) v = entriesOf l v := by
  simp only [entriesOf, eraseInfo, List.filter_filter]
  congr 1
  apply List.filter_congr
  intro x hx
  by_cases hw : x.w = v
  · have : x.idx ≠ i := fun he => h x hx he hw
    simp [hw, this]
  · simp [hw]

/-- Removing the entries with index `i`, all of retired workers, possibly moving `rcvd_idx` past `i`. -/
theorem UCore_eraseDead (c : Cfg) (s : State) (i rc : Nat) (h : UCore c s)
    (hdead : ∀ e ∈ s.info, e.idx = i → up s e.w = false)
    (hrc : rc = s.rcvdIdx ∨ (rc = s.rcvdIdx + 1 ∧ i = s.rcvdIdx ∧ s.rcvdIdx < s.sendIdx)) :
    UCore c { s with info := eraseInfo s.info i, rcvdIdx := rc } := by
  have hsurv : ∀ e ∈ s.info, up s e.w = true → e ∈ eraseInfo s.info i := by
    intro e he hu
    rw [mem_erase]
    refine ⟨he, fun heq => ?_⟩
    rw [hdead e he heq] at hu; cases hu
  constructor
  · exact h.stl
  · exact h.ntl
  · exact h.wl
  · exact h.cyc
  · show rc ≤ s.sendIdx
    have := h.rs
    rcases hrc with rfl | ⟨rfl, _, _⟩ <;> omega
  · intro e he; exact h.rnone e ((mem_erase _ _ _).mp he).1
  · exact erase_nodup _ _ h.ind
  · intro e he
    obtain ⟨he1, he2⟩ := (mem_erase _ _ _).mp he
    obtain ⟨a1, a2, a3⟩ := h.irng e he1
    refine ⟨?_, a2, a3⟩
    show rc ≤ e.idx
    rcases hrc with rfl | ⟨rfl, rfl, _⟩ <;> omega
  · intro v hv hu
    have hu' : up s v = true := hu
    show s.numTasks.getD v 0 = entriesOf (eraseInfo s.info i) v
    rw [entriesOf_erase_other, h.cnt v hv hu']
    intro e he heq hw
    have := hdead e he heq
    rw [hw, hu'] at this
    cases this
  · exact h.cap
  · exact h.fnd
  · exact h.flt
  · intro v k hk hu j hj
    have hu' : up s v = true := hu
    exact hsurv _ (h.fq v k hk hu' j hj) hu'
  · intro r hr hu
    have hu' : up s r.w = true := hu
    exact hsurv _ (h.fr r hr hu') hu'
  · exact h.nores
  · exact h.rw

/-- `rcvd_idx` moves past an index that has no entry. -/
theorem UCore_advance (c : Cfg) (s : State) (h : UCore c s) (hlt : s.rcvdIdx < s.sendIdx)
    (hno : ∀ e ∈ s.info, e.idx ≠ s.rcvdIdx) : UCore c { s with rcvdIdx := s.rcvdIdx + 1 } := by
  have := UCore_eraseDead c s s.rcvdIdx (s.rcvdIdx + 1) h (fun e he heq => absurd heq (hno e he))
    (Or.inr ⟨rfl, rfl, hlt⟩)
  rw [erase_none _ _ hno] at this
  exact this

end TDV.MPU
