import TorchDataVerif.Model.MP
import TorchDataVerif.Model.Ref
/-!
# MP — basic lemmas shared by the map-style and the iterable proofs
-/
namespace TDV.MP

/-- Minimal sanity of a configuration (`assert num_workers > 0`, `assert prefetch_factor > 0`). -/
def Cfg.Valid (c : Cfg) : Prop := 0 < c.W ∧ 0 < c.P

def kindOf : Item → Kind
  | .ok b => .data b
  | .err => .error

/-- The ok batches of a stream of fetch results. -/
def oks : List Item → List Nat
  | [] => []
  | .ok b :: r => b :: oks r
  | .err :: r => oks r

/-- The reference stream of a configuration (as fetch results, errors in place). -/
def refStream (c : Cfg) : List Item :=
  if c.iterable then Ref.interleave c.shards else c.batches

/-- The observations that answer a task: item, error, or the snapshot assertion. -/
def taskObs : List Obs → List Obs
  | [] => []
  | .item b :: r => .item b :: taskObs r
  | .error :: r => .error :: taskObs r
  | .assertion :: r => .assertion :: taskObs r
  | _ :: r => taskObs r

theorem taskObs_append (a b : List Obs) : taskObs (a ++ b) = taskObs a ++ taskObs b := by
  induction a with
  | nil => rfl
  | cons x r ih => cases x <;> simp [taskObs, ih]

theorem yields_append (a b : List Obs) : yields (a ++ b) = yields a ++ yields b := by
  induction a with
  | nil => rfl
  | cons x r ih => cases x <;> simp [yields, ih]

theorem oks_append (a b : List Item) : oks (a ++ b) = oks a ++ oks b := by
  induction a with
  | nil => rfl
  | cons x r ih => cases x <;> simp [oks, ih]

theorem yields_taskObs (l : List Obs) : yields (taskObs l) = yields l := by
  induction l with
  | nil => rfl
  | cons x r ih => cases x <;> simp [yields, taskObs, ih]

/-- No reset among the actions (one epoch of a freshly built iterator). -/
def NoReset : List Action → Prop
  | [] => True
  | a :: r => a ≠ .reset ∧ NoReset r

/-- `findWorker` with `in_order` finds the worker under the cycle pointer if it is up. -/
theorem findWorker_hit (c : Cfg) (s : State) (n cyc : Nat) (hio : c.inOrder = true) (hup : up s cyc = true) :
    findWorker c s (n + 1) cyc = (some cyc, (cyc + 1) % c.W) := by
  simp [findWorker, hup, hio]

theorem findWorker_hit' (c : Cfg) (s : State) (n cyc : Nat) (hn : 0 < n) (hio : c.inOrder = true)
    (hup : up s cyc = true) : findWorker c s n cyc = (some cyc, (cyc + 1) % c.W) := by
  cases n with
  | zero => omega
  | succ m => exact findWorker_hit c s m cyc hio hup

theorem up_replicate (s : State) (W w : Nat) (h : s.status = List.replicate W true) (hw : w < W) :
    up s w = true := by
  simp [up, h, List.getD_eq_getElem?_getD, List.getElem?_replicate, hw]

end TDV.MP

namespace TDV.MP

/-! ## frame lemmas: what the helper functions leave untouched -/

/-- The fields no dispatch ever touches. -/
structure SameCore (s s' : State) : Prop where
  rcvdIdx : s'.rcvdIdx = s.rcvdIdx
  status : s'.status = s.status
  resQ : s'.resQ = s.resQ
  phase : s'.phase = s.phase
  obs : s'.obs = s.obs
  shutdown : s'.shutdown = s.shutdown
  wsnaps : s'.wsnaps = s.wsnaps
  snap : s'.snap = s.snap
  lastW : s'.lastW = s.lastW
  numYielded : s'.numYielded = s.numYielded

theorem tryPut_sameCore (c : Cfg) (s : State) : SameCore s (tryPut c s) := by
  unfold tryPut
  split
  · constructor <;> rfl
  · split <;> constructor <;> rfl

/-- The fields yielding touches: only `lastW, wsnaps, mainSnaps, snap, numYielded`. -/
structure SameProto (s s' : State) : Prop where
  sendIdx : s'.sendIdx = s.sendIdx
  rcvdIdx : s'.rcvdIdx = s.rcvdIdx
  info : s'.info = s.info
  status : s'.status = s.status
  cyc : s'.cyc = s.cyc
  outstanding : s'.outstanding = s.outstanding
  numTasks : s'.numTasks = s.numTasks
  samplerPos : s'.samplerPos = s.samplerPos
  shutdown : s'.shutdown = s.shutdown
  bad : s'.bad = s.bad
  workers : s'.workers = s.workers
  resQ : s'.resQ = s.resQ
  phase : s'.phase = s.phase
  obs : s'.obs = s.obs

theorem takeSnapshot_sameProto (c : Cfg) (s s' : State) (h : takeSnapshot c s = some s') : SameProto s s' := by
  unfold takeSnapshot at h
  split at h
  · split at h
    · cases h; constructor <;> rfl
    · cases h
  · split at h
    · cases h; constructor <;> rfl
    · split at h
      · cases h; constructor <;> rfl
      · cases h

theorem snapshotDue_sameProto (c : Cfg) (s : State) : SameProto s (snapshotDue c s).1 := by
  unfold snapshotDue
  split <;> constructor <;> rfl

/-- `_snapshot_due` touches `_main_snapshots` only. -/
theorem snapshotDue_eq (c : Cfg) (s : State) :
    (snapshotDue c s).1 = { s with mainSnaps := (snapshotDue c s).1.mainSnaps } := by
  unfold snapshotDue
  split <;> rfl

theorem SameProto.trans {a b d : State} (h1 : SameProto a b) (h2 : SameProto b d) : SameProto a d := by
  constructor
  · rw [h2.sendIdx, h1.sendIdx]
  · rw [h2.rcvdIdx, h1.rcvdIdx]
  · rw [h2.info, h1.info]
  · rw [h2.status, h1.status]
  · rw [h2.cyc, h1.cyc]
  · rw [h2.outstanding, h1.outstanding]
  · rw [h2.numTasks, h1.numTasks]
  · rw [h2.samplerPos, h1.samplerPos]
  · rw [h2.shutdown, h1.shutdown]
  · rw [h2.bad, h1.bad]
  · rw [h2.workers, h1.workers]
  · rw [h2.resQ, h1.resQ]
  · rw [h2.phase, h1.phase]
  · rw [h2.obs, h1.obs]

theorem yieldItem_sameProto (c : Cfg) (s : State) (r : Res) (b : Nat) : SameProto s (yieldItem c s r b).1 := by
  unfold yieldItem
  dsimp only
  have hd := snapshotDue_sameProto c { s with lastW := r.w, wsnaps := applyDelta s.wsnaps r.w r.st }
  have h0 : SameProto s { s with lastW := r.w, wsnaps := applyDelta s.wsnaps r.w r.st } := by constructor <;> rfl
  generalize snapshotDue c { s with lastW := r.w, wsnaps := applyDelta s.wsnaps r.w r.st } = d at hd
  split
  · constructor <;> rfl
  · split
    · split
      · rename_i s' h
        have := takeSnapshot_sameProto c _ s' h
        refine (h0.trans hd).trans (this.trans ?_)
        constructor <;> rfl
      · refine (h0.trans hd).trans ?_
        constructor <;> rfl
    · refine (h0.trans hd).trans ?_
      constructor <;> rfl

theorem yieldItem_obs (c : Cfg) (s : State) (r : Res) (b : Nat) :
    (yieldItem c s r b).2 = .item b ∨ (yieldItem c s r b).2 = .assertion := by
  unfold yieldItem
  dsimp only
  split
  · simp
  · split
    · split <;> simp
    · simp

/-! ## the snapshot trigger: what it is for iterable datasets, and the pre-f1014eb form -/

/-- `yieldItem` with the yield-counting trigger `(num_yielded + 1) % interval == 0` (what the code does for
iterable datasets, and did for map-style ones before repo fix f1014eb). -/
def yieldItemOld (c : Cfg) (s : State) (r : Res) (b : Nat) : State × Obs :=
  let s := { s with lastW := r.w, wsnaps := applyDelta s.wsnaps r.w r.st }
  if c.interval ≠ 0 ∧ (s.numYielded + 1) % c.interval = 0 then
    match takeSnapshot c s with
    | some s' => ({ s' with numYielded := s'.numYielded + 1 }, .item b)
    | none => ({ s with mainSnaps := (popSnaps s.rcvdIdx s.mainSnaps none).2 }, .assertion)
  else ({ s with numYielded := s.numYielded + 1 }, .item b)

theorem yieldItem_iter (c : Cfg) (s : State) (r : Res) (b : Nat) (hit : c.iterable = true) :
    yieldItem c s r b = yieldItemOld c s r b := by
  unfold yieldItem yieldItemOld snapshotDue
  simp only [hit, if_true]
  by_cases h0 : c.interval = 0
  · simp [h0]
  · by_cases hd : (s.numYielded + 1) % c.interval = 0
    · simp [h0, hd]
      generalize takeSnapshot c _ = t
      cases t <;> rfl
    · simp [h0, hd]

end TDV.MP

namespace TDV.MP

/-- What `_shutdown_workers` / `_mark_worker_as_unavailable` leave untouched. -/
structure SameMain (s s' : State) : Prop where
  sendIdx : s'.sendIdx = s.sendIdx
  rcvdIdx : s'.rcvdIdx = s.rcvdIdx
  info : s'.info = s.info
  cyc : s'.cyc = s.cyc
  samplerPos : s'.samplerPos = s.samplerPos
  numYielded : s'.numYielded = s.numYielded
  mainSnaps : s'.mainSnaps = s.mainSnaps
  wsnaps : s'.wsnaps = s.wsnaps
  snap : s'.snap = s.snap
  lastW : s'.lastW = s.lastW
  resQ : s'.resQ = s.resQ
  phase : s'.phase = s.phase
  obs : s'.obs = s.obs
  outstanding : s'.outstanding = s.outstanding
  numTasks : s'.numTasks = s.numTasks

theorem SameMain.refl (s : State) : SameMain s s := by constructor <;> rfl

theorem SameMain.trans {a b d : State} (h1 : SameMain a b) (h2 : SameMain b d) : SameMain a d := by
  constructor
  · rw [h2.sendIdx, h1.sendIdx]
  · rw [h2.rcvdIdx, h1.rcvdIdx]
  · rw [h2.info, h1.info]
  · rw [h2.cyc, h1.cyc]
  · rw [h2.samplerPos, h1.samplerPos]
  · rw [h2.numYielded, h1.numYielded]
  · rw [h2.mainSnaps, h1.mainSnaps]
  · rw [h2.wsnaps, h1.wsnaps]
  · rw [h2.snap, h1.snap]
  · rw [h2.lastW, h1.lastW]
  · rw [h2.resQ, h1.resQ]
  · rw [h2.phase, h1.phase]
  · rw [h2.obs, h1.obs]
  · rw [h2.outstanding, h1.outstanding]
  · rw [h2.numTasks, h1.numTasks]

theorem markUnavailable_sameMain (c : Cfg) (s : State) (w : Nat) (b : Bool) :
    SameMain s (markUnavailable c s w b) := by
  constructor <;> rfl

theorem markUnavailable_shutdown (c : Cfg) (s : State) (w : Nat) (b : Bool) :
    (markUnavailable c s w b).shutdown = s.shutdown := rfl

theorem shutdownLoop_sameMain (c : Cfg) (n : Nat) (s : State) :
    SameMain s (shutdownLoop c n s) ∧ (shutdownLoop c n s).shutdown = s.shutdown := by
  induction n with
  | zero => exact ⟨SameMain.refl s, rfl⟩
  | succ n ih =>
    unfold shutdownLoop
    dsimp only
    split
    · exact ⟨ih.1.trans (markUnavailable_sameMain c _ n true), by rw [markUnavailable_shutdown]; exact ih.2⟩
    · exact ih

theorem shutdownWorkers_sameMain (c : Cfg) (s : State) : SameMain s (shutdownWorkers c s) := by
  unfold shutdownWorkers
  split
  · exact SameMain.refl s
  · have := (shutdownLoop_sameMain c c.W { s with shutdown := true }).1
    constructor
    · exact this.sendIdx
    · exact this.rcvdIdx
    · exact this.info
    · exact this.cyc
    · exact this.samplerPos
    · exact this.numYielded
    · exact this.mainSnaps
    · exact this.wsnaps
    · exact this.snap
    · exact this.lastW
    · exact this.resQ
    · exact this.phase
    · exact this.obs
    · exact this.outstanding
    · exact this.numTasks

theorem shutdownWorkers_shutdown (c : Cfg) (s : State) : (shutdownWorkers c s).shutdown = true := by
  unfold shutdownWorkers
  split
  · assumption
  · exact (shutdownLoop_sameMain c c.W { s with shutdown := true }).2

end TDV.MP

namespace TDV.MP

/-! ## observations only grow -/

theorem processData_obs (c : Cfg) (s : State) (r : Res) : (processData c s r).1.obs = s.obs := by
  unfold processData
  have h1 := (tryPut_sameCore c { s with numTasks := s.numTasks.modify r.w (· - 1) }).obs
  split
  · rw [(yieldItem_sameProto c _ r _).obs, h1]
  · rw [h1]

theorem skip_obs (s : State) (n : Nat) : (skip s n).obs = s.obs := by
  induction n generalizing s with
  | zero => rfl
  | succ n ih =>
    unfold skip
    split
    · split
      · split
        · rfl
        · rw [ih]
      · rw [ih]
    · rfl

theorem loop_obs (c : Cfg) (n : Nat) (s : State) : (loop c n s).1.obs = s.obs := by
  induction n generalizing s with
  | zero => rfl
  | succ n ih =>
    unfold loop
    dsimp only
    split
    · split
      · exact skip_obs s _
      · rw [(shutdownWorkers_sameMain c _).obs]; exact skip_obs s _
    · split
      · exact skip_obs s _
      · split
        · split
          · rw [ih]; exact skip_obs s _
          · rw [processData_obs]; exact skip_obs s _
        · exact skip_obs s _

theorem finish_obs (p : State × Option Obs) :
    (finish p).obs = p.1.obs ++ (match p.2 with | some o => [o] | none => []) := by
  unfold finish
  split <;> simp_all

theorem onArrival_obs (c : Cfg) (s : State) (r : Res) : (onArrival c s r).obs = s.obs := by
  unfold onArrival
  split
  · rw [(tryPut_sameCore c _).obs]
    split <;> rfl
  · rfl

theorem finish_obs_ex (p : State × Option Obs) (s : State) (h : p.1.obs = s.obs) :
    ∃ t, (finish p).obs = s.obs ++ t := ⟨_, by rw [finish_obs, h]⟩

theorem recvData_obs (c : Cfg) (s : State) (r : Res) : ∃ t, (recvData c s r).obs = s.obs ++ t := by
  unfold recvData
  have h0 : (onArrival c { s with outstanding := s.outstanding - 1 } r).obs = s.obs := onArrival_obs c _ r
  generalize onArrival c { s with outstanding := s.outstanding - 1 } r = s1 at h0
  dsimp only
  split
  · split
    · split
      · exact finish_obs_ex _ s ((loop_obs c _ _).trans h0)
      · exact finish_obs_ex _ s ((processData_obs c _ _).trans h0)
    · exact finish_obs_ex _ s ((loop_obs c _ _).trans h0)
  · split
    · exact finish_obs_ex _ s ((loop_obs c _ _).trans h0)
    · exact finish_obs_ex _ s ((processData_obs c _ _).trans h0)

theorem prime_obs (c : Cfg) (n : Nat) (s : State) : (prime c n s).obs = s.obs := by
  induction n generalizing s with
  | zero => rfl
  | succ n ih => unfold prime; rw [ih, (tryPut_sameCore c s).obs]

theorem markAll_obs (c : Cfg) (l : List Nat) (s : State) : (markAll c s l).obs = s.obs := by
  induction l generalizing s with
  | nil => rfl
  | cons w l ih => unfold markAll; rw [ih]; rfl

theorem step_obs (c : Cfg) (s s' : State) (a : Action) (h : step c s a = some s') :
    ∃ t, s'.obs = s.obs ++ t := by
  cases a with
  | work w =>
    simp only [step] at h
    split at h
    · cases h
    · split at h
      · cases h
      · split at h
        · cases h
        · cases h; exact ⟨[], by simp⟩
  | recv =>
    simp only [step] at h
    split at h
    · cases h
    · split at h
      · cases h
      · split at h
        · cases h
        · cases h; exact recvData_obs c _ _
      · split at h
        · split at h
          · cases h; exact ⟨_, by simp [resetTail, prime_obs]; rfl⟩
          · cases h; exact ⟨[], by simp⟩
        · cases h; exact ⟨[], by simp⟩
  | next =>
    simp only [step] at h
    split at h
    · cases h
    · cases h; exact ⟨_, by rw [finish_obs, loop_obs]⟩
  | stateDict =>
    simp only [step] at h
    split at h
    · cases h
    · cases h; exact ⟨_, rfl⟩
  | reset =>
    simp only [step] at h
    split at h
    · cases h
    · cases h; exact ⟨[], by simp [resetHead]⟩
  | kill w =>
    simp only [step] at h
    split at h
    · cases h
    · split at h
      · cases h
      · cases h; exact ⟨[], by simp⟩
  | pollTimeout =>
    simp only [step] at h
    split at h
    · cases h
    · split at h
      · cases h; exact ⟨[], by simp⟩
      · cases h; exact ⟨_, by simp [markAll_obs]; rfl⟩

end TDV.MP

namespace TDV.MP

theorem loop_done (c : Cfg) (n : Nat) (s : State) (h : s.sendIdx ≤ s.rcvdIdx) :
    loop c (n + 1) s = ((if c.persistent then s else shutdownWorkers c s), some .stop) := by
  have h0 : s.sendIdx - s.rcvdIdx = 0 := by omega
  unfold loop
  simp only [h0, skip, h, if_true]

end TDV.MP

namespace TDV.MP

theorem SameCore.refl (s : State) : SameCore s s := by constructor <;> rfl

theorem SameCore.trans {a b d : State} (h1 : SameCore a b) (h2 : SameCore b d) : SameCore a d := by
  constructor
  · rw [h2.rcvdIdx, h1.rcvdIdx]
  · rw [h2.status, h1.status]
  · rw [h2.resQ, h1.resQ]
  · rw [h2.phase, h1.phase]
  · rw [h2.obs, h1.obs]
  · rw [h2.shutdown, h1.shutdown]
  · rw [h2.wsnaps, h1.wsnaps]
  · rw [h2.snap, h1.snap]
  · rw [h2.lastW, h1.lastW]
  · rw [h2.numYielded, h1.numYielded]

theorem prime_sameCore (c : Cfg) (n : Nat) (s : State) : SameCore s (prime c n s) := by
  induction n generalizing s with
  | zero => exact SameCore.refl s
  | succ n ih => unfold prime; exact (tryPut_sameCore c s).trans (ih _)

/-- Death of a worker has been reported to the consumer. -/
def died (s : State) : Prop := Obs.workerDied ∈ s.obs

theorem died_step (c : Cfg) (s s' : State) (a : Action) (h : step c s a = some s') (hd : died s) : died s' := by
  obtain ⟨t, ht⟩ := step_obs c s s' a h
  unfold died at *
  rw [ht]; exact List.mem_append_left _ hd

end TDV.MP

namespace TDV.MP

theorem pushMsg_get (ws : List Worker) (w w' : Nat) (m : Msg) (k : Worker) (h : (pushMsg ws w m)[w']? = some k) :
    ∃ k0, ws[w']? = some k0 ∧ k.pos = k0.pos ∧ k.iterEnd = k0.iterEnd ∧ k.alive = k0.alive ∧
      k.q = if w = w' then k0.q ++ [m] else k0.q := by
  simp only [pushMsg, List.getElem?_modify] at h
  cases hk : ws[w']? with
  | none => simp [hk] at h
  | some k0 =>
    simp only [hk, Option.map_eq_map, Option.map_some, Option.some.injEq] at h
    refine ⟨k0, rfl, ?_⟩
    subst h
    by_cases hw : w = w' <;> simp [hw]

end TDV.MP
