import TorchDataVerif.Proofs.MPIterC
/-!
# MP, iterable: arrival of a result in the main process
-/
namespace TDV.MP

theorem count_take_succ_le (h : List Nat) (w i : Nat) (hi : h[i]? = some w) :
    (h.take i).count w + 1 ≤ h.count w := by
  have hil : i < h.length := (List.getElem?_eq_some_iff.mp hi).1
  have := count_take_lt h w i h.length hi hil (Nat.le_refl _)
  rw [List.take_length] at this
  omega

theorem seq_inj (h : List Nat) (w i i' : Nat) (hi : h[i]? = some w) (hi' : h[i']? = some w)
    (heq : (h.take i).count w = (h.take i').count w) : i = i' := by
  have l1 : i < h.length := (List.getElem?_eq_some_iff.mp hi).1
  have l2 : i' < h.length := (List.getElem?_eq_some_iff.mp hi').1
  rcases Nat.lt_trichotomy i i' with hlt | heq' | hgt
  · have := count_take_lt h w i i' hi hlt (by omega); omega
  · exact heq'
  · have := count_take_lt h w i' i hi' hgt (by omega); omega

theorem kindAt_le (c : Cfg) (w j : Nat) (k : Kind) (h : kindAt c w j = some k) : j ≤ bOf c w := by
  unfold kindAt at h
  split at h
  · rename_i it hit
    have := (List.getElem?_eq_some_iff.mp hit).1
    unfold bOf; omega
  · split at h
    · omega
    · cases h

theorem kindAt_notice (c : Cfg) (w j : Nat) (h : kindAt c w j = some .notice) : j = bOf c w := by
  unfold kindAt at h
  split at h
  · rename_i it hit
    cases it <;> simp [kindOf] at h
  · split at h
    · assumption
    · cases h

theorem kindAt_data (c : Cfg) (w j : Nat) (k : Kind) (h : kindAt c w j = some k) (hk : k ≠ .notice) :
    ∃ it, (c.shards.getD w [])[j]? = some it ∧ k = kindOf it ∧ j < bOf c w := by
  unfold kindAt at h
  split at h
  · rename_i it hit
    have := (List.getElem?_eq_some_iff.mp hit).1
    exact ⟨it, hit, (Option.some.inj h).symm, by unfold bOf; exact this⟩
  · split at h
    · cases h; exact absurd rfl hk
    · cases h

theorem up_set_false_self (s : State) (u : Nat) (st : List Bool) (hst : st = s.status.set u false) :
    (st.getD u false) = false := by
  subst hst
  simp [List.getD_eq_getElem?_getD, List.getElem?_set]
  split <;> simp

theorem up_set_false_ne (s : State) (u w : Nat) (hne : w ≠ u) :
    ((s.status.set u false).getD w false) = s.status.getD w false := by
  simp [List.getD_eq_getElem?_getD, List.getElem?_set, Ne.symm hne]

theorem InfoI_arrive (c : Cfg) (g : Ghost) (u x i : Nat) (l : List Info)
    (h : InfoI c g none i l) (hx : g.h[x]? = some u) (hseq : (g.h.take x).count u = g.arr u) :
    InfoI c { g with arr := bump g.arr u } (some x) i l := by
  induction l generalizing i with
  | nil => trivial
  | cons e l ih =>
    obtain ⟨h1, h2, h3, h4, h5⟩ := h
    refine ⟨h1, h2, ?_, ?_, ih _ h5⟩
    · intro r hr
      obtain ⟨a1, a2, a3⟩ := h3 r hr
      refine ⟨a1, a2, ?_⟩
      simp only [bump]
      split <;> omega
    · intro hn hex
      have hle := h4 hn (by simp)
      by_cases hw : e.w = u
      · show bump g.arr u e.w ≤ (g.h.take i).count e.w
        rw [hw, bump_self]
        rw [hw] at hle h2
        have hne : i ≠ x := fun hh => hex (by rw [hh])
        have : (g.h.take i).count u ≠ (g.h.take x).count u := fun heq => hne (seq_inj g.h u i x h2 hx heq)
        omega
      · show bump g.arr u e.w ≤ _
        rw [bump_ne _ _ _ hw]; exact hle

theorem bump_ge (f : Nat → Nat) (u w : Nat) : f w ≤ bump f u w := by
  unfold bump; split <;> omega

/-- The head of the result queue is received: ghost `arr` of its owner is bumped, an end-of-shard notice
retires its owner (`s1` = the state after the status update of `_next_data`, before its `_try_put_index`). -/
theorem arrive_core (c : Cfg) (s s1 : State) (g : Ghost) (r : Res) (rest : List Res)
    (h : MidI c s g none) (hq : s.resQ = r :: rest)
    (e1 : s1.sendIdx = s.sendIdx) (e2 : s1.cyc = s.cyc) (e4 : s1.rcvdIdx = s.rcvdIdx) (e5 : s1.info = s.info)
    (eq : s1.resQ = rest)
    (est : s1.status = if r.kind = .notice then s.status.set r.w false else s.status)
    (ewk : s1.workers = s.workers ∨ s1.workers = pushMsg s.workers r.w .stop) :
    r.w < c.W ∧ ResOk c g.h r.w (g.arr r.w) r ∧ s.rcvdIdx ≤ r.idx ∧ r.idx < s.sendIdx ∧
    MidI c s1 { g with arr := bump g.arr r.w } (some r.idx) := by
  have hu : r.w < c.W := h.rqw r (by rw [hq]; exact List.mem_cons_self ..)
  obtain ⟨rc, rl⟩ := h.rq r.w hu
  have hfil : s.resQ.filter (fun x => x.w == r.w) = r :: rest.filter (fun x => x.w == r.w) := by
    rw [hq]; simp [List.filter]
  rw [hfil] at rc rl
  obtain ⟨hok, rc'⟩ := rc
  obtain ⟨_, hx, hseq, hkind⟩ := hok
  have hjle := kindAt_le c r.w _ _ hkind
  have hlt : r.idx < s.sendIdx := by rw [← h.hlen]; exact (List.getElem?_eq_some_iff.mp hx).1
  have hge : s.rcvdIdx ≤ r.idx := by
    rcases Nat.lt_or_ge r.idx s.rcvdIdx with hh | hh
    · rcases h.cons r.idx r.w hh hx with h1 | h1 <;> omega
    · exact hh
  have hupu : up s r.w = true := (h.st r.w hu).mpr hjle
  refine ⟨hu, ⟨rfl, hx, hseq, hkind⟩, hge, hlt, ?_⟩
  have hup1 : ∀ w, up s1 w = if r.kind = .notice ∧ w = r.w then false else up s w := by
    intro w
    unfold up
    rw [est]
    by_cases hn : r.kind = .notice
    · simp only [hn, if_true, true_and]
      by_cases hw : w = r.w
      · subst hw; simp only [if_true]; exact up_set_false_self s _ _ rfl
      · simp only [hw, if_false]; exact up_set_false_ne s r.w w hw
    · simp [hn]
  constructor
  · rw [e1]; exact h.hlen
  · rw [e2]; exact h.cyc
  · exact h.own
  · intro w hw huw
    rw [hup1] at huw
    rw [e2]
    split at huw
    · cases huw
    · exact h.ptrUp w hw huw
  · intro w hw huw
    rw [hup1] at huw
    rw [e2]
    split at huw
    · rename_i hc
      obtain ⟨hn, hwu⟩ := hc
      subst hwu
      rw [hn] at hkind
      have hj := kindAt_notice c _ _ hkind
      have h1 := count_take_succ_le g.h _ r.idx hx
      have h2 := h.ptrUp _ hw hupu
      simp only
      omega
    · exact h.ptrDn w hw huw
  · rw [e2]; exact h.live
  · rw [e4, e5, e1]; exact h.len
  · rw [e4, e5]; exact InfoI_arrive c g r.w r.idx _ _ h.info hx hseq
  · intro i w hi hw
    rw [e4] at hi
    have := h.cons i w hi hw
    have hb := bump_ge g.arr r.w w
    simp only
    omega
  · intro w hw
    rw [hup1]
    simp only
    by_cases hwu : w = r.w
    · subst hwu
      rw [bump_self]
      by_cases hn : r.kind = .notice
      · simp only [hn, and_self, if_true]
        rw [hn] at hkind
        have hj := kindAt_notice c _ _ hkind
        constructor
        · intro hh; cases hh
        · intro hh; omega
      · simp only [hn, false_and, if_false]
        obtain ⟨it, _, _, hjlt⟩ := kindAt_data c _ _ _ hkind hn
        constructor
        · intro _; omega
        · intro _; exact hupu
    · rw [bump_ne _ _ _ hwu]
      have : ¬ (r.kind = .notice ∧ w = r.w) := fun hh => hwu hh.2
      simp only [this, if_false]
      exact h.st w hw
  · intro w hw
    simp only
    by_cases hwu : w = r.w
    · subst hwu; rw [bump_self]; omega
    · rw [bump_ne _ _ _ hwu]; exact h.arrle w hw
  · rw [est]; split
    · simp [h.slen]
    · exact h.slen
  · rcases ewk with ewk | ewk
    · rw [ewk]; exact h.wlen
    · rw [ewk]; simp [pushMsg, h.wlen]
  · intro w k hk
    rcases ewk with ewk | ewk
    · rw [ewk] at hk; exact h.wk w k hk
    · rw [ewk] at hk
      obtain ⟨k0, hk0, p1, p2, _, p4⟩ := pushMsg_get _ _ _ _ _ hk
      obtain ⟨q1, q2, q3, q4, q5⟩ := h.wk w k0 hk0
      by_cases hw : r.w = w
      · simp only [hw, if_true] at p4
        rw [p4, taskIdxs_append, p1, p2]
        simp only [taskIdxs, List.append_nil]
        refine ⟨q1, q2, q3, q4, ?_⟩
        simp [q5]
      · simp only [hw, if_false] at p4
        rw [p4, p1, p2]
        exact ⟨q1, q2, q3, q4, q5⟩
  · intro w hw
    rw [eq]
    simp only
    by_cases hwu : w = r.w
    · subst hwu
      rw [bump_self]
      simp only [List.length_cons] at rl
      exact ⟨rc', by omega⟩
    · rw [bump_ne _ _ _ hwu]
      have hf : s.resQ.filter (fun x => x.w == w) = rest.filter (fun x => x.w == w) := by
        rw [hq]
        have : (r.w == w) = false := by simp; exact fun hh => hwu hh.symm
        simp [List.filter, this]
      rw [← hf]
      exact h.rq w hw
  · intro r' hr'
    rw [eq] at hr'
    exact h.rqw r' (by rw [hq]; exact List.mem_cons_of_mem _ hr')

end TDV.MP
