import TorchDataVerif.Proofs.MPUnIter
/-!
# MPU, `in_order = False`, iterable: worker steps and result processing keep the per-worker invariant
-/
namespace TDV.MPU
open TDV.MP

/-- The three things a worker of an iterable dataset does with a message (no shutdown in progress). -/
theorem handle_iter_cases (c : Cfg) (w : Nat) (k : Worker) (m : Msg) (hit : c.iterable = true) (hnr : m ≠ .resume) :
    ((handle c false w k m).2 = none ∧ (handle c false w k m).1.pos = k.pos ∧
      (handle c false w k m).1.iterEnd = k.iterEnd) ∨
    (k.iterEnd = false ∧ (shardOf c w)[k.pos]? = none ∧ (handle c false w k m).1.pos = k.pos ∧
      (handle c false w k m).1.iterEnd = true ∧
      ∃ r, (handle c false w k m).2 = some r ∧ r.kind = .notice ∧ r.w = w) ∨
    (k.iterEnd = false ∧ ∃ it, (shardOf c w)[k.pos]? = some it ∧ (handle c false w k m).1.pos = k.pos + 1 ∧
      (handle c false w k m).1.iterEnd = false ∧
      ∃ r, (handle c false w k m).2 = some r ∧ r.kind = kindOf it ∧ r.w = w) := by
  cases m with
  | stop => exact Or.inl ⟨rfl, rfl, rfl⟩
  | resume => exact absurd rfl hnr
  | task i p sn =>
    by_cases hie : k.iterEnd = true
    · left; simp [handle, hie]
    · have hie' : k.iterEnd = false := by simpa using hie
      cases hg : (shardOf c w)[k.pos]? with
      | none =>
        have hg' : (c.shards[w]?.getD [])[k.pos]? = none := by
          simpa [shardOf, List.getD_eq_getElem?_getD] using hg
        right; left
        simp [handle, hie', fetch, hit, hg']
      | some it =>
        have hg' : (c.shards[w]?.getD [])[k.pos]? = some it := by
          simpa [shardOf, List.getD_eq_getElem?_getD] using hg
        right; right
        refine ⟨hie', it, rfl, ?_⟩
        cases it <;> simp [handle, hie', fetch, hit, hg', kindOf]

theorem resOf_other (Q : List Res) (ex : List Res) (v : Nat) (h : ∀ r ∈ ex, r.w ≠ v) : resOf (Q ++ ex) v = resOf Q v := by
  rw [resOf_append]
  have : resOf ex v = [] := by
    simp only [resOf, List.map_eq_nil_iff, List.filter_eq_nil_iff]
    intro r hr
    simpa using h r hr
  rw [this, List.append_nil]

theorem MidUI0_work (c : Cfg) (s s' : State) (n : Nat → Nat) (w : Nat) (hit : c.iterable = true)
    (hsh : s.shutdown = false) (h : MidUI0 c s n) (hst : step c s (.work w) = some s') :
    MidUI0 c s' n ∧ s'.info = s.info ∧ s'.status = s.status ∧ s'.obs = s.obs ∧ s'.phase = s.phase ∧
    s'.shutdown = s.shutdown := by
  have hcore := UCore_work c s s' w h.core hst
  obtain ⟨k, m, rest, hk, _, hq, eW, eQ, e1, _, _, e5, _, _, e8, e9, e10, _⟩ := work_shape c s s' w hst
  have hnr : m ≠ .resume := by
    intro hm
    exact h.core.nores w k hk (by rw [hq, hm]; exact List.mem_cons_self ..)
  have hwok := h.wok w k hk
  rw [hsh] at eW eQ
  have hcases := handle_iter_cases c w { k with q := rest } m hit hnr
  generalize handle c false w { k with q := rest } m = H at eW eQ hcases
  obtain ⟨K, out⟩ := H
  simp only at eW eQ hcases
  have hwl : w < s.workers.length := (List.getElem?_eq_some_iff.mp hk).1
  have hup : ∀ v, up s' v = up s v := fun v => by simp [up, e1]
  have houtw : ∀ r ∈ out.toList, r.w = w := by
    intro r hr
    rcases hcases with ⟨h1, _⟩ | ⟨_, _, _, _, r0, h1, _, h3⟩ | ⟨_, _, _, _, _, r0, h1, _, h3⟩
    · rw [h1] at hr; cases hr
    · rw [h1] at hr; simp at hr; rw [hr]; exact h3
    · rw [h1] at hr; simp at hr; rw [hr]; exact h3
  refine ⟨⟨hcore, ?_⟩, e5, e1, e8, e9, e10⟩
  intro v kv hkv
  rw [eW, List.getElem?_set] at hkv
  by_cases hwv : w = v
  · subst hwv
    simp [hwl] at hkv
    subst hkv
    rcases hcases with ⟨h1, h2, h3⟩ | ⟨h0, h1, h2, h3, r, h4, h5, h6⟩ | ⟨h0, it, h1, h2, h3, r, h4, h5, h6⟩
    · refine WOk_of_eq c s s' n w k K hwok e1 ?_ h2 h3
      rw [eQ, h1]; simp
    · have hupw : up s w = true := by
        cases hu : up s w with
        | true => rfl
        | false => have := (hwok.dn hu).1; rw [h0] at this; cases this
      have hlen : k.pos = (shardOf c w).length := by
        have := List.getElem?_eq_none_iff.mp h1
        have := hwok.le2
        omega
      refine ⟨by rw [h2]; exact hwok.le1, by rw [h2]; exact hwok.le2, fun _ => by rw [h2]; exact hlen, ?_, ?_⟩
      · intro hu; rw [hup, hupw] at hu; cases hu
      · rw [eQ, h4, hup, hupw, h2, h3]
        simp only [Option.toList_some, resOf_append, Bool.and_self]
        rw [chain_note, hwok.ch]
        simp [h0, resOf, h6, h5]
    · have hupw : up s w = true := by
        cases hu : up s w with
        | true => rfl
        | false => have := (hwok.dn hu).1; rw [h0] at this; cases this
      have hlt : k.pos < (shardOf c w).length := (List.getElem?_eq_some_iff.mp h1).1
      refine ⟨(by rw [h2]; have := hwok.le1; omega), (by rw [h2]; exact hlt), (fun hx => by rw [h3] at hx; cases hx), ?_, ?_⟩
      · intro hu; rw [hup, hupw] at hu; cases hu
      · rw [eQ, h4, h2, h3]
        simp only [Option.toList_some, resOf_append, Bool.false_and]
        rw [chain_snoc c w (n w) k.pos it hwok.le1 h1, hwok.ch]
        simp [h0, resOf, h6, h5]
  · simp [hwv] at hkv
    have hv := h.wok v kv hkv
    refine ⟨hv.le1, hv.le2, hv.ie, by rw [hup]; exact hv.dn, ?_⟩
    rw [eQ, hup, resOf_other _ _ _ (fun r hr => by rw [houtw r hr]; exact hwv)]
    exact hv.ch

theorem worker_exists (c : Cfg) (s : State) (h : UCore c s) (w : Nat) (hw : w < c.W) :
    ∃ k : Worker, s.workers[w]? = some k :=
  ⟨s.workers[w]'(by rw [h.wl]; exact hw), List.getElem?_eq_getElem _⟩

/-- The head of the result queue is a data/error result: it is the next unprocessed item of its worker. -/
theorem data_analysis (c : Cfg) (s : State) (n : Nat → Nat) (r : Res) (rest : List Res) (h : MidUI0 c s n)
    (hq : s.resQ = r :: rest) (hk : r.kind ≠ .notice) :
    ∃ (k : Worker) (it : Item), s.workers[r.w]? = some k ∧ up s r.w = true ∧ n r.w < k.pos ∧
      (shardOf c r.w)[n r.w]? = some it ∧ r.kind = kindOf it ∧
      resOf rest r.w = chainOf c r.w (n r.w + 1) k.pos (k.iterEnd && up s r.w) := by
  have hrw : r.w < c.W := (h.core.rw r (by rw [hq]; exact List.mem_cons_self ..)).1
  obtain ⟨k, hkw⟩ := worker_exists c s h.core r.w hrw
  have hw := h.wok r.w k hkw
  have hch := hw.ch
  rw [hq, resOf_cons, if_pos rfl] at hch
  by_cases hlt : n r.w < k.pos
  · obtain ⟨it, hit, hc⟩ := chain_head c r.w (n r.w) k.pos (k.iterEnd && up s r.w) hlt hw.le2
    rw [hc] at hch
    simp only [List.cons.injEq] at hch
    have hup : up s r.w = true := by
      cases hu : up s r.w with
      | true => rfl
      | false => have := (hw.dn hu).2; have := hw.le2; omega
    exact ⟨k, it, hkw, hup, hlt, hit, hch.1, hch.2⟩
  · exfalso
    rw [chain_nil c r.w (n r.w) k.pos _ (by omega)] at hch
    split at hch
    · simp only [List.cons.injEq] at hch; exact hk hch.1
    · cases hch

/-- The head of the result queue is an end-of-shard notice: its worker has delivered its whole shard. -/
theorem notice_analysis (c : Cfg) (s : State) (n : Nat → Nat) (r : Res) (rest : List Res) (h : MidUI0 c s n)
    (hq : s.resQ = r :: rest) (hk : r.kind = .notice) :
    ∃ k : Worker, s.workers[r.w]? = some k ∧ up s r.w = true ∧ k.iterEnd = true ∧ k.pos ≤ n r.w ∧
      n r.w = (shardOf c r.w).length ∧ resOf rest r.w = [] := by
  have hrw : r.w < c.W := (h.core.rw r (by rw [hq]; exact List.mem_cons_self ..)).1
  obtain ⟨k, hkw⟩ := worker_exists c s h.core r.w hrw
  have hw := h.wok r.w k hkw
  have hch := hw.ch
  rw [hq, resOf_cons, if_pos rfl] at hch
  by_cases hlt : n r.w < k.pos
  · exfalso
    obtain ⟨it, _, hc⟩ := chain_head c r.w (n r.w) k.pos (k.iterEnd && up s r.w) hlt hw.le2
    rw [hc, hk] at hch
    simp only [List.cons.injEq] at hch
    exact kindOf_ne_notice it hch.1.symm
  · rw [chain_nil c r.w (n r.w) k.pos _ (by omega)] at hch
    split at hch
    · rename_i hb
      simp only [Bool.and_eq_true] at hb
      simp only [List.cons.injEq, and_true] at hch
      have := hw.ie hb.1
      have := hw.le1
      exact ⟨k, hkw, hb.2, hb.1, by omega, by omega, hch.2⟩
    · cases hch

end TDV.MPU
