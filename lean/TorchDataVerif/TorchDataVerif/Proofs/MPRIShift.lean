import TorchDataVerif.Proofs.MPRLift
import TorchDataVerif.Proofs.MPURebase
/-!
# MPRI — fetch positions are relative: shifting every position of worker `w` by `off w`

`shift off s` adds `off w` to the fetch position of worker `w` and to the position of every worker state of `w`
held anywhere in the state (worker snapshots, stored snapshot, state deltas of results in flight and in
`_task_info`, `state_dict` observations).  Running configuration `c` from `s` and configuration `c2` from
`shift off s` is the same thing as long as `fetch c2 w (pos + off w) = fetch c w pos` — a purely syntactic fact
about `Model/MP.lean`, except that `_ResumeIteration` resets a position to 0 (so index queues must not hold one:
`NoRes`, which every action but `reset` preserves).
-/
namespace TDV.MPRI
open TDV.MP

/-- `l.mapIdx` with a start index. -/
def mapFrom {α : Type} (f : Nat → α → α) : Nat → List α → List α
  | _, [] => []
  | i, x :: r => f i x :: mapFrom f (i + 1) r

theorem mapFrom_length {α : Type} (f : Nat → α → α) (i : Nat) (l : List α) : (mapFrom f i l).length = l.length := by
  induction l generalizing i with
  | nil => rfl
  | cons x r ih => simp [mapFrom, ih]

theorem mapFrom_getElem? {α : Type} (f : Nat → α → α) (i n : Nat) (l : List α) :
    (mapFrom f i l)[n]? = (l[n]?).map (f (i + n)) := by
  induction l generalizing i n with
  | nil => rfl
  | cons x r ih =>
    cases n with
    | zero => simp [mapFrom]
    | succ n => simp only [mapFrom, List.getElem?_cons_succ, ih]; congr 2; omega

theorem mapFrom_set {α : Type} (f : Nat → α → α) (i n : Nat) (l : List α) (x : α) :
    (mapFrom f i l).set n (f (i + n) x) = mapFrom f i (l.set n x) := by
  induction l generalizing i n with
  | nil => rfl
  | cons y r ih =>
    cases n with
    | zero => simp [mapFrom]
    | succ n =>
      simp only [mapFrom, List.set_cons_succ]
      have := ih (i + 1) n
      rw [show i + 1 + n = i + (n + 1) by omega] at this
      rw [this]

theorem mapFrom_modify {α : Type} (f : Nat → α → α) (g g' : α → α) (i n : Nat) (l : List α)
    (h : ∀ x, g' (f (i + n) x) = f (i + n) (g x)) :
    (mapFrom f i l).modify n g' = mapFrom f i (l.modify n g) := by
  induction l generalizing i n with
  | nil => simp [mapFrom]
  | cons y r ih =>
    cases n with
    | zero => simpa [mapFrom] using h y
    | succ n =>
      simp only [mapFrom, List.modify_succ_cons]
      rw [ih (i + 1) n (by intro x; rw [show i + 1 + n = i + (n + 1) by omega]; exact h x)]

theorem mapFrom_map {α : Type} (f : Nat → α → α) (g : α → α) (i : Nat) (l : List α)
    (h : ∀ j x, g (f j x) = f j (g x)) : (mapFrom f i l).map g = mapFrom f i (l.map g) := by
  induction l generalizing i with
  | nil => rfl
  | cons y r ih => simp [mapFrom, h, ih]

theorem mapFrom_replicate {α : Type} (f : Nat → α → α) (i n : Nat) (x : α) (h : ∀ j, f j x = x) :
    mapFrom f i (List.replicate n x) = List.replicate n x := by
  induction n generalizing i with
  | zero => rfl
  | succ n ih => simp [List.replicate_succ, mapFrom, h, ih]

/-! ## the shift -/

def shW (off : Nat → Nat) (w : Nat) (st : WSt) : WSt := { st with pos := st.pos + off w }

def shWs (off : Nat → Nat) (ws : List WSt) : List WSt := mapFrom (shW off) 0 ws

def shRes (off : Nat → Nat) (r : Res) : Res := { r with st := r.st.map (shW off r.w) }

def shInfo (off : Nat → Nat) (e : Info) : Info := { e with res := e.res.map (shRes off) }

def shWorker (off : Nat → Nat) (w : Nat) (k : Worker) : Worker := { k with pos := k.pos + off w }

def shObs (off : Nat → Nat) : Obs → Obs
  | .sd a b c d ws => .sd a b c d (shWs off ws)
  | o => o

def shift (off : Nat → Nat) (s : State) : State :=
  { s with
    workers := mapFrom (shWorker off) 0 s.workers
    wsnaps := shWs off s.wsnaps
    snap := { s.snap with ws := shWs off s.snap.ws }
    resQ := s.resQ.map (shRes off)
    info := s.info.map (shInfo off)
    obs := s.obs.map (shObs off) }

/-- The configuration with other shards (everything else as in `c`). -/
def withShards (c : Cfg) (sh : List (List Item)) : Cfg := { c with shards := sh }

/-- `sh` answers the fetches of `c` at the shifted positions. -/
def FetchRel (c : Cfg) (sh : List (List Item)) (off : Nat → Nat) : Prop :=
  ∀ (w pos : Nat), (sh.getD w [])[pos + off w]? = (c.shards.getD w [])[pos]?

@[simp] theorem up_shift (off : Nat → Nat) (s : State) (w : Nat) : up (shift off s) w = up s w := rfl

theorem findWorker_shift (c : Cfg) (sh : List (List Item)) (off : Nat → Nat) (s : State) (n cyc : Nat) :
    findWorker (withShards c sh) (shift off s) n cyc = findWorker c s n cyc := by
  induction n generalizing cyc with
  | zero => rfl
  | succ n ih =>
    unfold findWorker
    rw [ih]
    rfl

theorem pushMsg_shift (off : Nat → Nat) (ws : List Worker) (w : Nat) (m : Msg) :
    pushMsg (mapFrom (shWorker off) 0 ws) w m = mapFrom (shWorker off) 0 (pushMsg ws w m) := by
  unfold pushMsg
  exact mapFrom_modify (shWorker off) _ _ 0 w ws (fun x => rfl)

theorem dispatchTo_shift (c : Cfg) (sh : List (List Item)) (off : Nat → Nat) (s : State) (w cyc : Nat) :
    dispatchTo (withShards c sh) (shift off s) w cyc = shift off (dispatchTo c s w cyc) := by
  have hf : ∀ sp y, flags (withShards c sh) sp y = flags c sp y := fun _ _ => rfl
  have hP : (withShards c sh).P = c.P := rfl
  have hW : (withShards c sh).W = c.W := rfl
  unfold dispatchTo
  simp only [hf, hP, hW]
  simp only [shift]
  rw [pushMsg_shift]
  simp [shInfo]
  exact ⟨rfl, rfl⟩

theorem tryPut_shift (c : Cfg) (sh : List (List Item)) (off : Nat → Nat) (s : State) :
    tryPut (withShards c sh) (shift off s) = shift off (tryPut c s) := by
  unfold tryPut
  rw [findWorker_shift]
  have h1 : (shift off s).samplerPos = s.samplerPos := rfl
  have h2 : (shift off s).cyc = s.cyc := rfl
  have h3 : (withShards c sh).iterable = c.iterable := rfl
  have h4 : (withShards c sh).batches = c.batches := rfl
  have h5 : (withShards c sh).W = c.W := rfl
  rw [h1, h2, h3, h4, h5]
  split
  · rfl
  · split
    · rfl
    · exact dispatchTo_shift c sh off s _ _

theorem prime_shift (c : Cfg) (sh : List (List Item)) (off : Nat → Nat) (n : Nat) (s : State) :
    prime (withShards c sh) n (shift off s) = shift off (prime c n s) := by
  induction n generalizing s with
  | zero => rfl
  | succ n ih => unfold prime; rw [tryPut_shift, ih]

/-! ## yielding -/

theorem applyDelta_shift (off : Nat → Nat) (ws : List WSt) (w : Nat) (st : Option WSt) :
    applyDelta (shWs off ws) w (st.map (shW off w)) = shWs off (applyDelta ws w st) := by
  cases st with
  | none => rfl
  | some x =>
    simp only [Option.map_some, applyDelta, shWs]
    have := mapFrom_set (shW off) 0 w ws x
    rw [Nat.zero_add] at this
    exact this

theorem takeSnapshot_shift (c : Cfg) (sh : List (List Item)) (off : Nat → Nat) (s : State) :
    takeSnapshot (withShards c sh) (shift off s) = (takeSnapshot c s).map (shift off) := by
  unfold takeSnapshot
  have e1 : (shift off s).rcvdIdx = s.rcvdIdx := rfl
  have e2 : (shift off s).mainSnaps = s.mainSnaps := rfl
  have e3 : (withShards c sh).inOrder = c.inOrder := rfl
  rw [e1, e2, e3]
  rcases popSnaps s.rcvdIdx s.mainSnaps none with ⟨o, rest⟩
  cases o with
  | none => simp only; split <;> rfl
  | some e =>
    simp only
    split
    · rfl
    · split <;> rfl

theorem snapshotDue_shift (c : Cfg) (sh : List (List Item)) (off : Nat → Nat) (s : State) :
    snapshotDue (withShards c sh) (shift off s) = (shift off (snapshotDue c s).1, (snapshotDue c s).2) := by
  unfold snapshotDue
  have e0 : (withShards c sh).iterable = c.iterable := rfl
  rw [e0]
  split <;> rfl

theorem yieldTail_shift (c : Cfg) (sh : List (List Item)) (off : Nat → Nat) (s : State) (b : Nat) :
    MPU.yieldTail (withShards c sh) (shift off s) b =
      (shift off (MPU.yieldTail c s b).1, (MPU.yieldTail c s b).2) := by
  unfold MPU.yieldTail
  have e2 : (withShards c sh).interval = c.interval := rfl
  rw [e2]
  split
  · rfl
  · dsimp only
    rw [snapshotDue_shift]
    generalize snapshotDue c s = d
    obtain ⟨d1, d2⟩ := d
    cases d2
    · rfl
    · simp only [if_true]
      rw [takeSnapshot_shift]
      cases takeSnapshot c d1 with
      | none => rfl
      | some s' => rfl

theorem yieldItem_shift (c : Cfg) (sh : List (List Item)) (off : Nat → Nat) (s : State) (r : Res) (b : Nat) :
    yieldItem (withShards c sh) (shift off s) (shRes off r) b =
      (shift off (yieldItem c s r b).1, (yieldItem c s r b).2) := by
  rw [MPU.yieldItem_eq_tail, MPU.yieldItem_eq_tail]
  have : ({ shift off s with lastW := (shRes off r).w, wsnaps := applyDelta (shift off s).wsnaps (shRes off r).w (shRes off r).st } : State) =
      shift off { s with lastW := r.w, wsnaps := applyDelta s.wsnaps r.w r.st } := by
    have h1 : (shRes off r).w = r.w := rfl
    have h2 : (shRes off r).st = r.st.map (shW off r.w) := rfl
    have h3 : (shift off s).wsnaps = shWs off s.wsnaps := rfl
    rw [h1, h2, h3, applyDelta_shift]
    rfl
  rw [this, yieldTail_shift]

theorem processData_shift (c : Cfg) (sh : List (List Item)) (off : Nat → Nat) (s : State) (r : Res) :
    processData (withShards c sh) (shift off s) (shRes off r) =
      (shift off (processData c s r).1, (processData c s r).2) := by
  rw [MPU.processData_eq, MPU.processData_eq]
  have h0 : ({ shift off s with numTasks := (shift off s).numTasks.modify (shRes off r).w (· - 1) } : State) =
      shift off { s with numTasks := s.numTasks.modify r.w (· - 1) } := rfl
  have hk : (shRes off r).kind = r.kind := rfl
  rw [h0, tryPut_shift, hk]
  cases r.kind with
  | data b => exact yieldItem_shift c sh off _ r b
  | notice => rfl
  | error => rfl
  | ack => rfl

/-! ## `_task_info` -/

theorem lookupInfo_shift (off : Nat → Nat) (l : List Info) (i : Nat) :
    lookupInfo (l.map (shInfo off)) i = (lookupInfo l i).map (shInfo off) := by
  unfold lookupInfo
  induction l with
  | nil => rfl
  | cons e r ih =>
    simp only [List.map_cons, List.find?_cons]
    have : ((shInfo off e).idx == i) = (e.idx == i) := rfl
    rw [this]
    split
    · rfl
    · exact ih

theorem eraseInfo_shift (off : Nat → Nat) (l : List Info) (i : Nat) :
    eraseInfo (l.map (shInfo off)) i = (eraseInfo l i).map (shInfo off) := by
  unfold eraseInfo
  induction l with
  | nil => rfl
  | cons e r ih =>
    simp only [List.map_cons, List.filter_cons]
    have : ((shInfo off e).idx != i) = (e.idx != i) := rfl
    rw [this]
    split
    · simp [ih]
    · exact ih

theorem setRes_shift (off : Nat → Nat) (l : List Info) (i : Nat) (r : Res) :
    setRes (l.map (shInfo off)) i (shRes off r) = (setRes l i r).map (shInfo off) := by
  unfold setRes
  simp only [List.map_map]
  apply List.map_congr_left
  intro e _
  simp only [Function.comp]
  have : ((shInfo off e).idx == i) = (e.idx == i) := rfl
  rw [this]
  split <;> rfl

theorem skip_shift (off : Nat → Nat) (s : State) (n : Nat) : skip (shift off s) n = shift off (skip s n) := by
  induction n generalizing s with
  | zero => rfl
  | succ n ih =>
    unfold skip
    have e1 : (shift off s).rcvdIdx = s.rcvdIdx := rfl
    have e2 : (shift off s).sendIdx = s.sendIdx := rfl
    have e3 : (shift off s).info = s.info.map (shInfo off) := rfl
    rw [e1, e2, e3, lookupInfo_shift]
    split
    · cases hl : lookupInfo s.info s.rcvdIdx with
      | none =>
        simp only [Option.map_none]
        exact ih { s with rcvdIdx := s.rcvdIdx + 1 }
      | some e =>
        simp only [Option.map_some]
        have h1 : (shInfo off e).res.isSome = e.res.isSome := by simp [shInfo]
        have h2 : (shInfo off e).w = e.w := rfl
        rw [h1, h2, up_shift]
        split
        · rfl
        · rw [← ih]
          congr 1
          simp only [shift, eraseInfo_shift]
    · rfl

/-! ## shutdown -/

theorem markUnavailable_shift (c : Cfg) (sh : List (List Item)) (off : Nat → Nat) (s : State) (w : Nat) (b : Bool) :
    markUnavailable (withShards c sh) (shift off s) w b = shift off (markUnavailable c s w b) := by
  unfold markUnavailable
  simp only [shift]
  have hp := pushMsg_shift off s.workers w .stop
  rw [hp]
  rfl

theorem shutdownLoop_shift (c : Cfg) (sh : List (List Item)) (off : Nat → Nat) (n : Nat) (s : State) :
    shutdownLoop (withShards c sh) n (shift off s) = shift off (shutdownLoop c n s) := by
  induction n with
  | zero => rfl
  | succ n ih =>
    unfold shutdownLoop
    simp only [ih, up_shift]
    have : (withShards c sh).persistent = c.persistent := rfl
    rw [this]
    split
    · exact markUnavailable_shift c sh off _ n true
    · rfl

theorem shutdownWorkers_shift (c : Cfg) (sh : List (List Item)) (off : Nat → Nat) (s : State) :
    shutdownWorkers (withShards c sh) (shift off s) = shift off (shutdownWorkers c s) := by
  unfold shutdownWorkers
  have e1 : (shift off s).shutdown = s.shutdown := rfl
  have e2 : (withShards c sh).W = c.W := rfl
  rw [e1, e2]
  split
  · rfl
  · exact shutdownLoop_shift c sh off c.W { s with shutdown := true }

/-! ## `_next_data` -/

theorem loop_shift (c : Cfg) (sh : List (List Item)) (off : Nat → Nat) (n : Nat) (s : State) :
    loop (withShards c sh) n (shift off s) = (shift off (loop c n s).1, (loop c n s).2) := by
  induction n generalizing s with
  | zero => rfl
  | succ n ih =>
    rw [MPU.loop_succ_eq, MPU.loop_succ_eq]
    have e1 : (shift off s).sendIdx = s.sendIdx := rfl
    have e2 : (shift off s).rcvdIdx = s.rcvdIdx := rfl
    rw [e1, e2, skip_shift]
    generalize skip s (s.sendIdx - s.rcvdIdx) = t
    unfold MPU.loopBody
    have f1 : (shift off t).sendIdx = t.sendIdx := rfl
    have f2 : (shift off t).rcvdIdx = t.rcvdIdx := rfl
    have f3 : (shift off t).info = t.info.map (shInfo off) := rfl
    have f4 : (withShards c sh).persistent = c.persistent := rfl
    rw [f1, f2, f3, f4, lookupInfo_shift]
    split
    · split
      · rfl
      · rw [shutdownWorkers_shift]
    · cases hl : lookupInfo t.info t.rcvdIdx with
      | none => rfl
      | some e =>
        simp only [Option.map_some]
        cases hr : e.res with
        | none =>
          have : (shInfo off e).res = none := by simp [shInfo, hr]
          simp only [this]
          rfl
        | some r =>
          have : (shInfo off e).res = some (shRes off r) := by simp [shInfo, hr]
          simp only [this]
          have hk : (shRes off r).kind = r.kind := rfl
          rw [hk]
          have hst : ({ shift off t with info := eraseInfo (t.info.map (shInfo off)) t.rcvdIdx, rcvdIdx := t.rcvdIdx + 1 } : State) =
              shift off { t with info := eraseInfo t.info t.rcvdIdx, rcvdIdx := t.rcvdIdx + 1 } := by
            simp only [shift, eraseInfo_shift]
          split
          · have hst2 : ({ shift off t with info := eraseInfo (t.info.map (shInfo off)) t.rcvdIdx, rcvdIdx := t.rcvdIdx + 1, wsnaps := applyDelta (shift off t).wsnaps (shRes off r).w (shRes off r).st } : State) =
                shift off { t with info := eraseInfo t.info t.rcvdIdx, rcvdIdx := t.rcvdIdx + 1, wsnaps := applyDelta t.wsnaps r.w r.st } := by
              have h1 : (shRes off r).w = r.w := rfl
              have h2 : (shRes off r).st = r.st.map (shW off r.w) := rfl
              have h3 : (shift off t).wsnaps = shWs off t.wsnaps := rfl
              rw [h1, h2, h3, applyDelta_shift]
              simp only [shift, eraseInfo_shift]
            exact (congrArg (loop (withShards c sh) n) hst2).trans (ih _)
          · have key : ∀ X : State, X = shift off { t with info := eraseInfo t.info t.rcvdIdx, rcvdIdx := t.rcvdIdx + 1 } →
                ((processData (withShards c sh) X (shRes off r)).1, some (processData (withShards c sh) X (shRes off r)).2) =
                (shift off (processData c { t with info := eraseInfo t.info t.rcvdIdx, rcvdIdx := t.rcvdIdx + 1 } r).1,
                  some (processData c { t with info := eraseInfo t.info t.rcvdIdx, rcvdIdx := t.rcvdIdx + 1 } r).2) := by
              intro X hX
              subst hX
              rw [processData_shift]
            exact key _ hst

theorem processData_plain (c : Cfg) (off : Nat → Nat) (s : State) (r : Res) :
    shObs off (processData c s r).2 = (processData c s r).2 := by
  rw [MPU.processData_eq]
  cases r.kind with
  | data x =>
    rcases yieldItem_obs c (tryPut c { s with numTasks := s.numTasks.modify r.w (· - 1) }) r x with h | h <;>
      simp [h, shObs]
  | notice => rfl
  | error => rfl
  | ack => rfl

theorem loop_plain (c : Cfg) (off : Nat → Nat) (n : Nat) (s : State) (x : Obs) (h : (loop c n s).2 = some x) :
    shObs off x = x := by
  induction n generalizing s with
  | zero => simp [loop] at h
  | succ n ih =>
    rw [MPU.loop_succ_eq] at h
    generalize skip s (s.sendIdx - s.rcvdIdx) = t at h
    unfold MPU.loopBody at h
    split at h
    · simp at h; subst h; rfl
    · split at h
      · simp at h
      · split at h
        · dsimp only at h
          split at h
          · exact ih _ h
          · simp at h; subst h; exact processData_plain c off _ _
        · simp at h

theorem finish_shift (off : Nat → Nat) (s : State) (o : Option Obs) (ho : ∀ x, o = some x → shObs off x = x) :
    finish (shift off s, o) = shift off (finish (s, o)) := by
  cases o with
  | none => rfl
  | some x =>
    simp only [finish, shift, List.map_append, List.map_cons, List.map_nil, ho x rfl]

theorem finish_loop_shift (c : Cfg) (sh : List (List Item)) (off : Nat → Nat) (n : Nat) (s : State) :
    finish (loop (withShards c sh) n (shift off s)) = shift off (finish (loop c n s)) := by
  rw [loop_shift]
  exact finish_shift off _ _ (fun x hx => loop_plain c off n s x hx)

theorem finish_processData_shift (c : Cfg) (sh : List (List Item)) (off : Nat → Nat) (s : State) (r : Res) :
    finish ((processData (withShards c sh) (shift off s) (shRes off r)).1,
        some (processData (withShards c sh) (shift off s) (shRes off r)).2) =
      shift off (finish ((processData c s r).1, some (processData c s r).2)) := by
  rw [processData_shift]
  exact finish_shift off _ _ (fun x hx => by cases hx; exact processData_plain c off s r)

theorem loopFuel_shift (off : Nat → Nat) (s : State) : loopFuel (shift off s) = loopFuel s := rfl

theorem onArrival_shift (c : Cfg) (sh : List (List Item)) (off : Nat → Nat) (s : State) (r : Res) :
    onArrival (withShards c sh) (shift off s) (shRes off r) = shift off (onArrival c s r) := by
  unfold onArrival
  have e1 : (withShards c sh).iterable = c.iterable := rfl
  have e2 : (shRes off r).kind = r.kind := rfl
  have e3 : (withShards c sh).persistent = c.persistent := rfl
  have e4 : (shRes off r).w = r.w := rfl
  have e5 : (shRes off r).st.isNone = r.st.isNone := by simp [shRes]
  rw [e1, e2, e3, e4, e5]
  split
  · split
    · exact tryPut_shift c sh off { s with status := s.status.set r.w false, bad := s.bad || r.st.isNone }
    · rw [markUnavailable_shift]
      exact tryPut_shift c sh off
        { markUnavailable c s r.w false with bad := (markUnavailable c s r.w false).bad || r.st.isNone }
  · rfl

theorem recvTail_shift (c : Cfg) (sh : List (List Item)) (off : Nat → Nat) (A : State) (r : Res) :
    MPU.recvTail (withShards c sh) (shift off A) (shRes off r) = shift off (MPU.recvTail c A r) := by
  unfold MPU.recvTail
  have e1 : (shRes off r).idx = r.idx := rfl
  have e2 : (shift off A).rcvdIdx = A.rcvdIdx := rfl
  have e3 : (withShards c sh).inOrder = c.inOrder := rfl
  have e4 : (shRes off r).kind = r.kind := rfl
  have e5 : (shRes off r).w = r.w := rfl
  have e6 : (shRes off r).st = r.st.map (shW off r.w) := rfl
  have e7 : (shift off A).wsnaps = shWs off A.wsnaps := rfl
  have e8 : (shift off A).info = A.info.map (shInfo off) := rfl
  rw [e1, e2, e3, e4, e5, e6, e7, e8]
  split
  · split
    · split
      · rw [applyDelta_shift]
        exact finish_loop_shift c sh off _ { A with wsnaps := applyDelta A.wsnaps r.w r.st }
      · rw [eraseInfo_shift]
        exact finish_processData_shift c sh off { A with info := eraseInfo A.info r.idx } r
    · rw [setRes_shift]
      exact finish_loop_shift c sh off _ { A with info := setRes A.info r.idx r }
  · split
    · rw [applyDelta_shift, eraseInfo_shift]
      exact finish_loop_shift c sh off _
        { A with info := eraseInfo A.info r.idx, rcvdIdx := A.rcvdIdx + 1, wsnaps := applyDelta A.wsnaps r.w r.st }
    · rw [eraseInfo_shift]
      exact finish_processData_shift c sh off { A with info := eraseInfo A.info r.idx, rcvdIdx := A.rcvdIdx + 1 } r

theorem recvData_shift (c : Cfg) (sh : List (List Item)) (off : Nat → Nat) (s : State) (r : Res) :
    recvData (withShards c sh) (shift off s) (shRes off r) = shift off (recvData c s r) := by
  rw [MPU.recvData_eq_tail, MPU.recvData_eq_tail]
  have : ({ shift off s with outstanding := (shift off s).outstanding - 1 } : State) =
      shift off { s with outstanding := s.outstanding - 1 } := rfl
  rw [this, onArrival_shift, recvTail_shift]

/-! ## workers -/

theorem fetch_shift (c : Cfg) (sh : List (List Item)) (off : Nat → Nat) (hf : FetchRel c sh off) (w pos p : Nat) :
    fetch (withShards c sh) w (pos + off w) p = fetch c w pos p := by
  unfold fetch
  have e1 : (withShards c sh).iterable = c.iterable := rfl
  have e2 : (withShards c sh).shards = sh := rfl
  have e3 : (withShards c sh).batches = c.batches := rfl
  rw [e1, e2, e3]
  split
  · exact hf w pos
  · rfl

theorem handle_shift (c : Cfg) (sh : List (List Item)) (off : Nat → Nat) (hf : FetchRel c sh off) (shd : Bool)
    (w : Nat) (k : Worker) (m : Msg) (hm : m ≠ .resume) :
    handle (withShards c sh) shd w (shWorker off w k) m =
      (shWorker off w (handle c shd w k m).1, (handle c shd w k m).2.map (shRes off)) := by
  cases m with
  | stop => rfl
  | resume => exact absurd rfl hm
  | task idx p sn =>
    simp only [handle]
    have e1 : (shWorker off w k).iterEnd = k.iterEnd := rfl
    have e2 : (shWorker off w k).pos = k.pos + off w := rfl
    rw [e1, e2, fetch_shift c sh off hf]
    split
    · rfl
    · cases fetch c w k.pos p with
      | none => simp [shWorker, shRes, shW]
      | some it =>
        cases it with
        | ok b =>
          cases sn <;> simp [shWorker, shRes, shW] <;> omega
        | err => simp [shWorker, shRes]; omega

theorem failedWorkers_shift (off : Nat → Nat) (s : State) (n : Nat) :
    failedWorkers (shift off s) n = failedWorkers s n := by
  induction n with
  | zero => rfl
  | succ n ih =>
    unfold failedWorkers
    rw [ih]
    have : ((shift off s).workers[n]?).map (·.alive) = (s.workers[n]?).map (·.alive) := by
      show ((mapFrom (shWorker off) 0 s.workers)[n]?).map (·.alive) = _
      rw [mapFrom_getElem?]
      cases s.workers[n]? <;> rfl
    rw [this]
    rfl

theorem markAll_shift (c : Cfg) (sh : List (List Item)) (off : Nat → Nat) (l : List Nat) (s : State) :
    markAll (withShards c sh) (shift off s) l = shift off (markAll c s l) := by
  induction l generalizing s with
  | nil => rfl
  | cons w l ih => unfold markAll; rw [markUnavailable_shift, ih]

/-! ## the transition system -/

/-- No `_ResumeIteration` waits in an index queue. -/
def NoRes (s : State) : Prop := ∀ (w : Nat) (k : Worker), s.workers[w]? = some k → Msg.resume ∉ k.q

theorem workers_shift_get (off : Nat → Nat) (s : State) (w : Nat) :
    (shift off s).workers[w]? = (s.workers[w]?).map (shWorker off w) := by
  show (mapFrom (shWorker off) 0 s.workers)[w]? = _
  rw [mapFrom_getElem?, Nat.zero_add]

theorem step_work_eq' (c : Cfg) (s : State) (w : Nat) :
    step c s (.work w) =
      match s.workers[w]? with
      | none => none
      | some k =>
        if !k.alive then none else
        match k.q with
        | [] => none
        | m :: rest =>
          some { s with workers := s.workers.set w (handle c s.shutdown w { k with q := rest } m).1
                        resQ := match (handle c s.shutdown w { k with q := rest } m).2 with
                                | some r => s.resQ ++ [r] | none => s.resQ } := rfl

theorem step_work_shift (c : Cfg) (sh : List (List Item)) (off : Nat → Nat) (hf : FetchRel c sh off) (s : State)
    (w : Nat) (hnr : NoRes s) :
    step (withShards c sh) (shift off s) (.work w) = (step c s (.work w)).map (shift off) := by
  rw [step_work_eq', step_work_eq', workers_shift_get]
  cases hk : s.workers[w]? with
  | none => rfl
  | some k =>
    simp only [Option.map_some]
    have e1 : (shWorker off w k).alive = k.alive := rfl
    have e2 : (shWorker off w k).q = k.q := rfl
    rw [e1, e2]
    split
    · rfl
    · cases hq : k.q with
      | nil => rfl
      | cons m rest =>
        simp only [Option.map_some]
        have hm : m ≠ .resume := by
          intro h
          exact hnr w k hk (by rw [hq, h]; exact List.mem_cons_self ..)
        have hh := handle_shift c sh off hf s.shutdown w { k with q := rest } m hm
        show some ({ shift off s with workers := (shift off s).workers.set w (handle (withShards c sh) s.shutdown w (shWorker off w { k with q := rest }) m).1, resQ := match (handle (withShards c sh) s.shutdown w (shWorker off w { k with q := rest }) m).2 with | some r => (shift off s).resQ ++ [r] | none => (shift off s).resQ } : State) = _
        rw [hh]
        congr 1
        simp only [shift]
        have hset := mapFrom_set (shWorker off) 0 w s.workers (handle c s.shutdown w { k with q := rest } m).1
        rw [Nat.zero_add] at hset
        rw [hset]
        cases (handle c s.shutdown w { k with q := rest } m).2 with
        | none => rfl
        | some r => simp

theorem step_shift (c : Cfg) (sh : List (List Item)) (off : Nat → Nat) (hf : FetchRel c sh off) (s : State)
    (a : Action) (ha : a ≠ .reset) (hnr : NoRes s) (hph : ∀ k, s.phase ≠ .resuming k) :
    step (withShards c sh) (shift off s) a = (step c s a).map (shift off) := by
  cases a with
  | reset => exact absurd rfl ha
  | work w => exact step_work_shift c sh off hf s w hnr
  | next =>
    simp only [step]
    have e1 : (shift off s).phase = s.phase := rfl
    rw [e1]
    split
    · rfl
    · rw [loopFuel_shift, finish_loop_shift]; rfl
  | stateDict =>
    simp only [step]
    have e1 : (shift off s).phase = s.phase := rfl
    rw [e1]
    split
    · rfl
    · simp only [Option.map_some, shift, List.map_append, List.map_cons, List.map_nil, shObs]
  | kill w =>
    simp only [step]
    rw [workers_shift_get]
    cases hk : s.workers[w]? with
    | none => rfl
    | some k =>
      simp only [Option.map_some]
      have e2 : (shWorker off w k).alive = k.alive := rfl
      rw [e2]
      split
      · rfl
      · simp only [Option.map_some, shift]
        have hset := mapFrom_set (shWorker off) 0 w s.workers { k with alive := false }
        rw [Nat.zero_add] at hset
        rw [← hset]
        rfl
  | pollTimeout =>
    simp only [step]
    have e1 : (shift off s).phase = s.phase := rfl
    have e2 : ((shift off s).resQ ≠ []) ↔ (s.resQ ≠ []) := by simp [shift]
    have e3 : (withShards c sh).W = c.W := rfl
    rw [e1, failedWorkers_shift, e3]
    by_cases hc : s.phase = .idle ∨ s.resQ ≠ []
    · have hc' : s.phase = .idle ∨ (shift off s).resQ ≠ [] := hc.imp id e2.mpr
      rw [if_pos hc, if_pos hc']; rfl
    · have hc' : ¬ (s.phase = .idle ∨ (shift off s).resQ ≠ []) := fun h => hc (h.imp id e2.mp)
      rw [if_neg hc, if_neg hc']
      cases failedWorkers s c.W with
      | nil => rfl
      | cons f fs =>
        simp only [markAll_shift, Option.map_some]
        simp only [shift, List.map_append, List.map_cons, List.map_nil, shObs]
  | recv =>
    rw [MPR.step_recv_eq, MPR.step_recv_eq]
    have e1 : (shift off s).resQ = s.resQ.map (shRes off) := rfl
    have e2 : (shift off s).phase = s.phase := rfl
    rw [e1, e2]
    cases hq : s.resQ with
    | nil => rfl
    | cons r rest =>
      simp only [List.map_cons]
      unfold MPR.recvBody
      cases hp : s.phase with
      | idle => rfl
      | resuming k => exact absurd hp (hph k)
      | waiting =>
        simp only
        have e3 : (shRes off r).kind = r.kind := rfl
        rw [e3]
        split
        · rfl
        · simp only [Option.map_some]
          exact congrArg some (recvData_shift c sh off { s with resQ := rest, phase := .waiting } r)

/-- **Position-shift invariance.** -/
theorem run_shift (c : Cfg) (sh : List (List Item)) (off : Nat → Nat) (hf : FetchRel c sh off)
    (P : State → Prop) (hP : ∀ s, P s → NoRes s ∧ ∀ k, s.phase ≠ .resuming k)
    (hstep : ∀ s s' a, a ≠ .reset → P s → step c s a = some s' → P s')
    (as : List Action) (s s' : State) (hnr : NoReset as) (h0 : P s) (hr : run c s as = some s') :
    run (withShards c sh) (shift off s) as = some (shift off s') := by
  induction as generalizing s with
  | nil => simp only [run] at hr ⊢; cases hr; rfl
  | cons a as ih =>
    simp only [run] at hr ⊢
    rw [step_shift c sh off hf s a hnr.1 (hP s h0).1 (hP s h0).2]
    cases hs : step c s a with
    | none => rw [hs] at hr; cases hr
    | some s1 =>
      rw [hs] at hr
      simp only [Option.map_some]
      exact ih s1 hnr.2 (hstep s s1 a hnr.1 h0 hs) hr

end TDV.MPRI
