import TorchDataVerif.Proofs.MPUStruct
/-!
# MPU — `init` with a given worker set, and the structural invariant along one epoch
-/
namespace TDV.MPU
open TDV.MP

/-- The state `init` starts from, with the worker set `ws`. -/
def baseState (c : Cfg) (ws : List Worker) : State :=
  { sendIdx := 0, rcvdIdx := 0, info := [], status := [], cyc := 0, outstanding := 0, numTasks := []
    samplerPos := 0, numYielded := 0, mainSnaps := [], wsnaps := List.replicate c.W ⟨0, false⟩
    snap := initSnap c, lastW := 0
    shutdown := false, bad := false
    workers := ws, resQ := [], phase := .idle, obs := [] }

/-- `init` over the worker set `ws` (`init c = initW c (W fresh live workers)`). -/
def initW (c : Cfg) (ws : List Worker) : State := resetTail c (resetHead c (baseState c ws))

theorem init_eq_initW (c : Cfg) : init c = initW c (List.replicate c.W ⟨[], 0, false, true⟩) := rfl

/-- `W` workers with empty index queues, at the start of their dataset iterator. -/
def FreshW (c : Cfg) (ws : List Worker) : Prop :=
  ws.length = c.W ∧ ∀ k ∈ ws, k.q = [] ∧ k.pos = 0 ∧ k.iterEnd = false

theorem resetTail_eq (c : Cfg) (s : State) :
    resetTail c s = prime c (c.P * c.W)
      { s with mainSnaps := [], lastW := c.W - 1, snap := ⟨0, c.W - 1, s.samplerPos, s.wsnaps⟩ } := rfl

theorem initW_obs (c : Cfg) (ws : List Worker) : (initW c ws).obs = [] := by
  unfold initW
  rw [resetTail_eq, prime_obs]
  rfl

theorem initW_phase (c : Cfg) (ws : List Worker) : (initW c ws).phase = .idle := by
  unfold initW
  rw [resetTail_eq, (prime_sameCore c _ _).phase]
  rfl

theorem initW_SN (c : Cfg) (ws : List Worker) (h : FreshW c ws) : SN c (initW c ws) := by
  unfold initW
  rw [resetTail_eq]
  refine SN_frame c _ _ ?_ (prime_frame c _ _) ?_ ?_
  · refine ⟨h.1, by simp [resetHead, baseState], ?_, by simp [resetHead, baseState], by simp [resetHead, baseState],
      rfl, by simp [resetHead, baseState]⟩
    intro w k hk m hm
    have hk' : k ∈ ws := List.mem_of_getElem? hk
    rw [(h.2 k hk').1] at hm
    simp at hm
  · rw [(prime_sameCore c _ _).phase]; simp [resetHead, baseState]
  · rw [prime_obs]; simp [resetHead, baseState]

theorem replicate_fresh (c : Cfg) : FreshW c (List.replicate c.W ⟨[], 0, false, true⟩) := by
  refine ⟨by simp, fun k hk => ?_⟩
  rw [(List.mem_replicate.mp hk).2]
  exact ⟨rfl, rfl, rfl⟩

theorem noReset_append (a b : List Action) : NoReset (a ++ b) ↔ NoReset a ∧ NoReset b := by
  induction a with
  | nil => simp [NoReset]
  | cons x a ih => simp [NoReset, ih, and_assoc]

theorem run_append (c : Cfg) (a b : List Action) (s : State) :
    run c s (a ++ b) = (run c s a).bind (fun s' => run c s' b) := by
  induction a generalizing s with
  | nil => rfl
  | cons x a ih =>
    simp only [List.cons_append, run]
    cases step c s x with
    | none => rfl
    | some s' => exact ih s'

theorem died_run (c : Cfg) (as : List Action) (s s' : State) (h : run c s as = some s') (hd : died s) : died s' := by
  induction as generalizing s with
  | nil => simp [run] at h; subst h; exact hd
  | cons a as ih =>
    simp only [run] at h
    cases hs : step c s a with
    | none => simp [hs] at h
    | some s1 =>
      simp only [hs] at h
      exact ih s1 h (died_step c s s1 a hs hd)

theorem run_SN (c : Cfg) (hp : c.persistent = true) (as : List Action) (s s' : State) (hnr : NoReset as)
    (h : SN c s) (hr : run c s as = some s') : SN c s' ∨ died s' := by
  induction as generalizing s with
  | nil => simp [run] at hr; subst hr; exact Or.inl h
  | cons a as ih =>
    simp only [run] at hr
    cases hs : step c s a with
    | none => simp [hs] at hr
    | some s1 =>
      simp only [hs] at hr
      rcases step_SN c hp s s1 a h hnr.1 hs with h1 | h1
      · exact ih s1 hnr.2 h1 hr
      · exact Or.inr (died_run c as s1 s' hr h1)

end TDV.MPU
