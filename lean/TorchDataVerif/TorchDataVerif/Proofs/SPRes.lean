import TorchDataVerif.Proofs.SPLaw
/-! Iterable datasets, part 3: similarity of iterators over lawful datasets, resume by restoring state, resume
by fast-forward. -/
namespace TDV.SP
open TDV.Sampler

/-- The index sampler of an iterable loader (`_InfiniteConstantSampler`, bare or batched): every call returns an
index of the fixed shape, and its part of `load_state_dict` never raises. -/
structure InfSrc {W St : Type} (S : IdxSrc W St) (sh : Shape) : Prop where
  next : ∀ w, ∃ ix w', S.next w = (.idx ix, w') ∧ ix.shape = sh
  load : ∀ w st y, ∃ w2, S.load w st y = some w2
  pos : sh ≠ .many 0

/-- Same place in the epoch: both mid-epoch at the same position, or both with an `ended` fetcher, or both
finished (dataset objects between epochs). -/
def PosSim {W D Ds Dt : Type} {Da : Data D Ds Dt} {items : List Nat} (L : IterLaw Da items) (x x' : It W D) : Prop :=
  x.finished = x'.finished ∧
  ((x.finished = false ∧ x.ended = false ∧ x'.ended = false ∧
      ∃ j, j ≤ items.length ∧ L.Pos x.dw j ∧ L.Pos x'.dw j) ∨
   (x.finished = false ∧ x.ended = true ∧ x'.ended = true ∧ L.Good x.dw ∧ L.Good x'.dw) ∨
   (x.finished = true ∧ L.Good x.dw ∧ L.Good x'.dw))

/-- Iterators over an iterable dataset that cannot be told apart: same place, same counters. -/
def SimI {W D Ds Dt : Type} {Da : Data D Ds Dt} {items : List Nat} (L : IterLaw Da items) (x x' : It W D) : Prop :=
  x.siy = x'.siy ∧ x.ny = x'.ny ∧ PosSim L x x'

section
variable {W SSt D Ds Dt : Type} (S : IdxSrc W SSt) (Da : Data D Ds Dt) (c : Cfg)
variable {items : List Nat} (L : IterLaw Da items)

theorem finish_fst (x : It W D) (w' : W) (d1 : D) (e1 : Bool) (o : Obs) : (finish x w' d1 e1 o).1 = o := by
  cases o <;> rfl

variable {sh : Shape}

theorem stepRef_facts (dl : Bool) (sh : Shape) (j : Nat) :
    ((stepRef items dl sh j).1 = .stop → (stepRef items dl sh j).2.2 = none) ∧
    (∀ j', (stepRef items dl sh j).2.2 = some j' → (stepRef items dl sh j).2.1 = false ∧ (stepRef items dl sh j).1 ≠ .stop) ∧
    ((stepRef items dl sh j).2.2 = none → (stepRef items dl sh j).1 ≠ .stop → (stepRef items dl sh j).2.1 = true) ∧
    ((stepRef items dl sh j).1 = .stop ∨ (∃ l, (stepRef items dl sh j).1 = .batch l) ∨
      ∃ v, (stepRef items dl sh j).1 = .single v) := by
  cases sh with
  | one =>
    simp only [stepRef]
    cases items[j]? <;> simp
  | many bs =>
    simp only [stepRef]
    by_cases h1 : j + bs ≤ items.length
    · simp [h1]
    · by_cases h2 : ((items.drop j).isEmpty || dl) = true
      · simp [h1, h2]
      · simp [h1, h2]

/-- One call on two iterators at the same place: same observation (never an exception), same movement. -/
theorem posSim_next (hS : InfSrc S sh) (hit : Da.iterable = true) (hcf : ∀ v, c.collateFail v = false)
    (x x' : It W D) (h : PosSim L x x') (hnf : x.finished = false) :
    ∃ (o : Obs) (δ : Nat), (next S Da c x).1 = o ∧ (next S Da c x').1 = o ∧
      (next S Da c x).2.siy = x.siy + 1 ∧ (next S Da c x').2.siy = x'.siy + 1 ∧
      (next S Da c x).2.ny = x.ny + δ ∧ (next S Da c x').2.ny = x'.ny + δ ∧
      PosSim L (next S Da c x).2 (next S Da c x').2 ∧
      (o = .stop → δ = 0 ∧ (next S Da c x).2.finished = true) ∧
      (o ≠ .stop → δ = 1 ∧ (next S Da c x).2.finished = false ∧ ((∃ l, o = .batch l) ∨ ∃ v, o = .single v)) := by
  obtain ⟨ix, w1, hn, hsh⟩ := hS.next x.sw
  obtain ⟨ix', w1', hn', hsh'⟩ := hS.next x'.sw
  obtain ⟨hfin, hcase⟩ := h
  have hnf' : x'.finished = false := by rw [← hfin]; exact hnf
  rcases hcase with ⟨_, he, he', j, hj, hp, hp'⟩ | ⟨_, he, he', hg, hg'⟩ | ⟨ht, _⟩
  · -- both at position j
    obtain ⟨d1, hf, hd1⟩ := fetch_pos Da c L hit hcf x.dw j hp hj ix (by rw [hsh]; exact hS.pos)
    obtain ⟨d1', hf', hd1'⟩ := fetch_pos Da c L hit hcf x'.dw j hp' hj ix' (by rw [hsh']; exact hS.pos)
    rw [hsh] at hf hd1
    rw [hsh'] at hf' hd1'
    rw [← he] at hf
    rw [← he'] at hf'
    have e1 := next_of_fetch S Da c x ix w1 _ _ _ hn hf
    have e2 := next_of_fetch S Da c x' ix' w1' _ _ _ hn' hf'
    rw [e1, e2]
    obtain ⟨f1, f2, f3, f4⟩ := stepRef_facts (items := items) c.dropLast sh j
    generalize stepRef items c.dropLast sh j = r at hd1 hd1' f1 f2 f3 f4
    obtain ⟨o, e, p⟩ := r
    simp only at hd1 hd1' f1 f2 f3 f4
    rcases f4 with rfl | ⟨l, rfl⟩ | ⟨v, rfl⟩
    · -- stop
      have hpn := f1 rfl
      subst hpn
      simp only at hd1 hd1'
      exact ⟨.stop, 0, rfl, rfl, rfl, rfl, rfl, rfl,
        ⟨rfl, Or.inr (Or.inr ⟨rfl, hd1, hd1'⟩)⟩, fun _ => ⟨rfl, rfl⟩, fun hne => absurd rfl hne⟩
    · cases p with
      | none =>
        have hte := f3 rfl (by simp)
        subst hte
        simp only at hd1 hd1'
        exact ⟨.batch l, 1, rfl, rfl, rfl, rfl, rfl, rfl,
          ⟨by simp [finish, hnf, hnf'], Or.inr (Or.inl ⟨by simp [finish, hnf], rfl, rfl, hd1, hd1'⟩)⟩,
          (fun hh => by cases hh), fun _ => ⟨rfl, by simp [finish, hnf], Or.inl ⟨l, rfl⟩⟩⟩
      | some j' =>
        have hte := (f2 j' rfl).1
        subst hte
        simp only at hd1 hd1'
        exact ⟨.batch l, 1, rfl, rfl, rfl, rfl, rfl, rfl,
          ⟨by simp [finish, hnf, hnf'], Or.inl ⟨by simp [finish, hnf], rfl, rfl, j', hd1.1, hd1.2, hd1'.2⟩⟩,
          (fun hh => by cases hh), fun _ => ⟨rfl, by simp [finish, hnf], Or.inl ⟨l, rfl⟩⟩⟩
    · cases p with
      | none =>
        have hte := f3 rfl (by simp)
        subst hte
        simp only at hd1 hd1'
        exact ⟨.single v, 1, rfl, rfl, rfl, rfl, rfl, rfl,
          ⟨by simp [finish, hnf, hnf'], Or.inr (Or.inl ⟨by simp [finish, hnf], rfl, rfl, hd1, hd1'⟩)⟩,
          (fun hh => by cases hh), fun _ => ⟨rfl, by simp [finish, hnf], Or.inr ⟨v, rfl⟩⟩⟩
      | some j' =>
        have hte := (f2 j' rfl).1
        subst hte
        simp only at hd1 hd1'
        exact ⟨.single v, 1, rfl, rfl, rfl, rfl, rfl, rfl,
          ⟨by simp [finish, hnf, hnf'], Or.inl ⟨by simp [finish, hnf], rfl, rfl, j', hd1.1, hd1.2, hd1'.2⟩⟩,
          (fun hh => by cases hh), fun _ => ⟨rfl, by simp [finish, hnf], Or.inr ⟨v, rfl⟩⟩⟩
  · -- both fetchers have ended
    have hf : fetch Da c x.dw x.ended ix = (.stop, x.dw, true) := by simp [fetch, hit, he]
    have hf' : fetch Da c x'.dw x'.ended ix' = (.stop, x'.dw, true) := by simp [fetch, hit, he']
    rw [next_of_fetch S Da c x ix w1 _ _ _ hn hf, next_of_fetch S Da c x' ix' w1' _ _ _ hn' hf']
    exact ⟨.stop, 0, rfl, rfl, rfl, rfl, rfl, rfl,
      ⟨rfl, Or.inr (Or.inr ⟨rfl, hg, hg'⟩)⟩, fun _ => ⟨rfl, rfl⟩, fun hne => absurd rfl hne⟩
  · rw [hnf] at ht; cases ht

theorem posSim_symm {x x' : It W D} (h : PosSim L x x') : PosSim L x' x := by
  obtain ⟨hf, hc⟩ := h
  refine ⟨hf.symm, ?_⟩
  rcases hc with ⟨a, b, c', j, hj, p, p'⟩ | ⟨a, b, c', g, g'⟩ | ⟨a, g, g'⟩
  · exact Or.inl ⟨hf ▸ a, c', b, j, hj, p', p⟩
  · exact Or.inr (Or.inl ⟨hf ▸ a, c', b, g', g⟩)
  · exact Or.inr (Or.inr ⟨hf ▸ a, g', g⟩)

/-- `PosSim` reads only `dw`, `ended`, `finished` of its second argument. -/
theorem posSim_congr {x y y' : It W D} (h : PosSim L x y) (h1 : y'.dw = y.dw) (h2 : y'.ended = y.ended)
    (h3 : y'.finished = y.finished) : PosSim L x y' := by
  unfold PosSim at h ⊢
  rw [h1, h2, h3]
  exact h

theorem simI_next (hS : InfSrc S sh) (hit : Da.iterable = true) (hcf : ∀ v, c.collateFail v = false)
    (x x' : It W D) (h : SimI L x x') (hnf : x.finished = false) :
    (next S Da c x).1 = (next S Da c x').1 ∧ SimI L (next S Da c x).2 (next S Da c x').2 ∧
      ((next S Da c x).1 ≠ .stop → (next S Da c x).2.finished = false) := by
  obtain ⟨h1, h2, h3⟩ := h
  obtain ⟨o, δ, a1, a2, a3, a4, a5, a6, a7, _, a9⟩ := posSim_next S Da c L hS hit hcf x x' h3 hnf
  refine ⟨by rw [a1, a2], ⟨by rw [a3, a4, h1], by rw [a5, a6, h2], a7⟩, fun hne => ?_⟩
  rw [a1] at hne
  exact (a9 hne).2.1

/-- Similar iterators deliver the same rest of the epoch and end similar. -/
theorem simI_epoch (hS : InfSrc S sh) (hit : Da.iterable = true) (hcf : ∀ v, c.collateFail v = false) :
    ∀ (fuel : Nat) (x x' : It W D), SimI L x x' → x.finished = false →
      (epoch S Da c fuel x).1 = (epoch S Da c fuel x').1 ∧ SimI L (epoch S Da c fuel x).2 (epoch S Da c fuel x').2
  | 0, _, _, h, _ => ⟨rfl, h⟩
  | f + 1, x, x', h, hnf => by
    obtain ⟨e1, e2, e3⟩ := simI_next S Da c L hS hit hcf x x' h hnf
    rw [epoch, epoch]
    generalize next S Da c x = r at e1 e2 e3
    generalize next S Da c x' = r' at e1 e2
    obtain ⟨o, y⟩ := r
    obtain ⟨o', y'⟩ := r'
    simp only at e1 e2 e3
    subst e1
    cases o with
    | stop => exact ⟨rfl, e2⟩
    | batch l =>
      have ih := simI_epoch hS hit hcf f y y' e2 (e3 (by simp))
      exact ⟨by simp only [ih.1], ih.2⟩
    | single v =>
      have ih := simI_epoch hS hit hcf f y y' e2 (e3 (by simp))
      exact ⟨by simp only [ih.1], ih.2⟩
    | error k =>
      have ih := simI_epoch hS hit hcf f y y' e2 (e3 (by simp))
      exact ⟨by simp only [ih.1], ih.2⟩

/-- `k` calls without a stop on two iterators at the same place: the fast-forward loop on the second one runs
through, both move alike, every call counts. -/
theorem posSim_nextN (hS : InfSrc S sh) (hit : Da.iterable = true) (hcf : ∀ v, c.collateFail v = false) :
    ∀ (k : Nat) (x x' : It W D), PosSim L x x' → x.finished = false → (∀ o ∈ obsN S Da c k x, o ≠ .stop) →
      ffwd S Da c k x' = (true, nextN S Da c k x') ∧ PosSim L (nextN S Da c k x) (nextN S Da c k x') ∧
      (nextN S Da c k x).finished = false ∧ obsN S Da c k x' = obsN S Da c k x ∧
      (nextN S Da c k x).ny = x.ny + k ∧ (nextN S Da c k x).siy = x.siy + k ∧
      (nextN S Da c k x').ny = x'.ny + k ∧ (nextN S Da c k x').siy = x'.siy + k
  | 0, x, x', h, hnf, _ => ⟨rfl, h, hnf, rfl, rfl, rfl, rfl, rfl⟩
  | k + 1, x, x', h, hnf, hobs => by
    obtain ⟨o, δ, a1, a2, a3, a4, a5, a6, a7, _, a9⟩ := posSim_next S Da c L hS hit hcf x x' h hnf
    have hne : o ≠ .stop := by rw [← a1]; exact hobs _ (by simp [obsN])
    obtain ⟨hδ, hfin, hshape⟩ := a9 hne
    subst hδ
    have hobs' : ∀ o ∈ obsN S Da c k (next S Da c x).2, o ≠ .stop := fun o ho => hobs o (by simp [obsN, ho])
    obtain ⟨i1, i2, i3, i4, i5, i6, i7, i8⟩ := posSim_nextN hS hit hcf k _ _ a7 hfin hobs'
    refine ⟨?_, i2, i3, ?_, ?_, ?_, ?_, ?_⟩
    · rw [ffwd]
      have hw : next S Da c x' = (o, (next S Da c x').2) := by rw [← a2]
      rw [hw]
      rcases hshape with ⟨l, rfl⟩ | ⟨v, rfl⟩
      · simp only; rw [i1]; rfl
      · simp only; rw [i1]; rfl
    · simp only [obsN]; rw [a1, a2, i4]
    · show (nextN S Da c k (next S Da c x).2).ny = _; rw [i5, a5]; omega
    · show (nextN S Da c k (next S Da c x).2).siy = _; rw [i6, a3]; omega
    · show (nextN S Da c k (next S Da c x').2).ny = _; rw [i7, a6]; omega
    · show (nextN S Da c k (next S Da c x').2).siy = _; rw [i8, a4]; omega

theorem posSim_create (w w' : W) (d d' : D) (hg : L.Good d) (hg' : L.Good d') :
    PosSim L (create S Da w d) (create S Da w' d') :=
  ⟨rfl, Or.inl ⟨rfl, rfl, rfl, 0, Nat.zero_le _, L.start d hg, L.start d' hg'⟩⟩

theorem simI_create (w w' : W) (d d' : D) (hg : L.Good d) (hg' : L.Good d') :
    SimI L (create S Da w d) (create S Da w' d') :=
  ⟨rfl, rfl, posSim_create S Da L w w' d d' hg hg'⟩

/-- **Resume by restoring state** (dataset and/or its iterator `Stateful`).  `x1` is any iterator similar to
`x`; its `state_dict()` loaded into a new iterator over a between-epochs dataset object `d'` gives an iterator
similar to `x`. -/
theorem restore_simI (hS : InfSrc S sh) (hit : Da.iterable = true) (SL : StateLaw Da items L)
    (x x1 : It W D) (h : SimI L x x1) (w' : W) (d' : D) (hg' : L.Good d') :
    ∃ x', restore S Da c w' d' (save S Da x1) = .ok x' ∧ SimI L x x' := by
  obtain ⟨w2, hw2⟩ := hS.load (S.seed (S.iter w')) (S.save x1.sw) x1.siy
  have hr : restore S Da c w' d' (save S Da x1) = .ok
      { sw := w2, dw := dRestore Da d' (dSave Da x1.dw), siy := x1.siy, ny := x1.ny, ended := x1.ended,
        finished := x1.finished } := by
    simp only [restore, save, hit, hw2, SL.stateful, Bool.true_and, if_true]
    rfl
  refine ⟨_, hr, ?_⟩
  obtain ⟨h1, h2, hf, hc⟩ := h
  refine ⟨h1, h2, hf, ?_⟩
  rcases hc with ⟨a, b, c', j, hj, p, p'⟩ | ⟨a, b, c', g, g'⟩ | ⟨a, g, g'⟩
  · exact Or.inl ⟨a, b, c', j, hj, p, SL.resume _ _ j p' hg'⟩
  · exact Or.inr (Or.inl ⟨a, b, c', g, SL.between _ _ g' hg'⟩)
  · exact Or.inr (Or.inr ⟨a, g, SL.between _ _ g' hg'⟩)

/-- **Resume by fast-forward** (neither the dataset nor its iterator has state; every dataset object is a
valid starting point).  `x` is the uninterrupted iterator after `k` calls none of which was a stop (so `k` is at
most the epoch length), `x1` any iterator similar to it.  Loading `x1`'s state replays `k` batches on the new
iterator and sets both counters again; the result is similar to `x`. -/
theorem restore_ffwd (hS : InfSrc S sh) (hit : Da.iterable = true) (hcf : ∀ v, c.collateFail v = false)
    (hds : Da.dsState = none) (hits : Da.itState = none) (hgood : ∀ d, L.Good d)
    (w : W) (d : D) (k : Nat) (hobs : ∀ o ∈ obsN S Da c k (create S Da w d), o ≠ .stop)
    (x1 : It W D) (h : SimI L (nextN S Da c k (create S Da w d)) x1) (w' : W) (d' : D) :
    ∃ x', restore S Da c w' d' (save S Da x1) = .ok x' ∧ SimI L (nextN S Da c k (create S Da w d)) x' := by
  obtain ⟨w2, hw2⟩ := hS.load (S.seed (S.iter w')) (S.save x1.sw) x1.siy
  -- the uninterrupted iterator: counters are k
  have hself := posSim_nextN S Da c L hS hit hcf k (create S Da w d) (create S Da w d)
    (posSim_create S Da L w w d d (hgood d) (hgood d)) rfl hobs
  obtain ⟨_, _, ufin, _, uny, usiy, _, _⟩ := hself
  have c0 : (create S Da w d).ny = 0 := rfl
  have c1 : (create S Da w d).siy = 0 := rfl
  rw [c0, Nat.zero_add] at uny
  rw [c1, Nat.zero_add] at usiy
  obtain ⟨h1, h2, h3⟩ := h
  have hny : x1.ny = k := by rw [← h2, uny]
  have hsiy : x1.siy = k := by rw [← h1, usiy]
  have hfin1 : x1.finished = false := by rw [← h3.1, ufin]
  rw [hsiy] at hw2
  -- the new iterator before the fast-forward
  let x0 : It W D := { sw := w2, dw := Da.iter d', siy := k, ny := k, ended := false, finished := false }
  have hp0 : PosSim L (create S Da w d) x0 :=
    ⟨rfl, Or.inl ⟨rfl, rfl, rfl, 0, Nat.zero_le _, L.start d (hgood d), L.start d' (hgood d')⟩⟩
  obtain ⟨f1, f2, f3, _, _, _, _, _⟩ := posSim_nextN S Da c L hS hit hcf k (create S Da w d) x0 hp0 rfl hobs
  by_cases hk : k = 0
  · subst hk
    have hr : restore S Da c w' d' (save S Da x1) = .ok { x0 with finished := false } := by
      simp only [restore, save, hit, hw2, hds, hits, hny, hsiy, hfin1, Bool.true_and, if_true, Option.map_none,
        Option.isSome_none, Bool.or_self, Bool.false_eq_true, if_false, Nat.lt_irrefl, ite_self, x0]
    exact ⟨_, hr, usiy, uny, posSim_congr Da L f2 rfl rfl rfl⟩
  · have hkpos : k > 0 := by omega
    have hr : restore S Da c w' d' (save S Da x1) = .ok
        { nextN S Da c k x0 with ny := k, siy := k, finished := false } := by
      simp only [restore, save, hit, hw2, hds, hits, hny, hsiy, hfin1, Bool.true_and, if_true, Option.map_none,
        Option.isSome_none, Bool.or_self, Bool.false_eq_true, if_false, hkpos, ite_self]
      have : ffwd S Da c k { sw := w2, dw := Da.iter d', siy := k, ny := k, ended := false, finished := false } =
          (true, nextN S Da c k x0) := f1
      rw [this]
    refine ⟨_, hr, usiy, uny, posSim_congr Da L f2 rfl rfl ?_⟩
    have := f2.1
    rw [f3] at this
    exact this

/-- The same for a state taken after the epoch's `StopIteration` (`_finished`): the fast-forward replays
all `k` batches of the epoch; the restored iterator is finished, like the saving one. -/
theorem restore_ffwd_fin (hS : InfSrc S sh) (hit : Da.iterable = true) (hcf : ∀ v, c.collateFail v = false)
    (hds : Da.dsState = none) (hits : Da.itState = none) (hgood : ∀ d, L.Good d)
    (w : W) (d : D) (k : Nat) (hobs : ∀ o ∈ obsN S Da c k (create S Da w d), o ≠ .stop)
    (hstop : (next S Da c (nextN S Da c k (create S Da w d))).1 = .stop)
    (x1 : It W D) (h : SimI L (next S Da c (nextN S Da c k (create S Da w d))).2 x1) (w' : W) (d' : D) :
    ∃ x', restore S Da c w' d' (save S Da x1) = .ok x' ∧
      SimI L (next S Da c (nextN S Da c k (create S Da w d))).2 x' := by
  obtain ⟨w2, hw2⟩ := hS.load (S.seed (S.iter w')) (S.save x1.sw) x1.siy
  have hself := posSim_nextN S Da c L hS hit hcf k (create S Da w d) (create S Da w d)
    (posSim_create S Da L w w d d (hgood d) (hgood d)) rfl hobs
  obtain ⟨_, upos, ufin, _, uny, usiy, _, _⟩ := hself
  have c0 : (create S Da w d).ny = 0 := rfl
  have c1 : (create S Da w d).siy = 0 := rfl
  rw [c0, Nat.zero_add] at uny
  rw [c1, Nat.zero_add] at usiy
  obtain ⟨o, δ, a1, _, a3, _, a5, _, _, a8, _⟩ := posSim_next S Da c L hS hit hcf _ _ upos ufin
  rw [hstop] at a1
  obtain ⟨hδ, hfinx⟩ := a8 a1.symm
  subst hδ
  rw [uny, Nat.add_zero] at a5
  rw [usiy] at a3
  obtain ⟨h1, h2, h3⟩ := h
  have hny : x1.ny = k := by rw [← h2, a5]
  have hsiy : x1.siy = k + 1 := by rw [← h1, a3]
  have hfin1 : x1.finished = true := by rw [← h3.1, hfinx]
  rw [hsiy] at hw2
  let x0 : It W D := { sw := w2, dw := Da.iter d', siy := k + 1, ny := k, ended := false, finished := false }
  have hp0 : PosSim L (create S Da w d) x0 :=
    ⟨rfl, Or.inl ⟨rfl, rfl, rfl, 0, Nat.zero_le _, L.start d (hgood d), L.start d' (hgood d')⟩⟩
  obtain ⟨f1, _, _, _, _, _, _, _⟩ := posSim_nextN S Da c L hS hit hcf k (create S Da w d) x0 hp0 rfl hobs
  by_cases hk : k = 0
  · subst hk
    have hr : restore S Da c w' d' (save S Da x1) = .ok { x0 with finished := true } := by
      simp only [restore, save, hit, hw2, hds, hits, hny, hsiy, hfin1, Bool.true_and, if_true, Option.map_none,
        Option.isSome_none, Bool.or_self, Bool.false_eq_true, if_false, Nat.lt_irrefl, ite_self, x0]
    exact ⟨_, hr, a3, a5, hfinx, Or.inr (Or.inr ⟨hfinx, hgood _, hgood _⟩)⟩
  · have hkpos : k > 0 := by omega
    have hr : restore S Da c w' d' (save S Da x1) = .ok
        { nextN S Da c k x0 with ny := k, siy := k + 1, finished := true } := by
      simp only [restore, save, hit, hw2, hds, hits, hny, hsiy, hfin1, Bool.true_and, if_true, Option.map_none,
        Option.isSome_none, Bool.or_self, Bool.false_eq_true, if_false, hkpos, ite_self]
      have : ffwd S Da c k { sw := w2, dw := Da.iter d', siy := k + 1, ny := k, ended := false, finished := false } =
          (true, nextN S Da c k x0) := f1
      rw [this]
    exact ⟨_, hr, a3, a5, hfinx, Or.inr (Or.inr ⟨hfinx, hgood _, hgood _⟩)⟩

end

end TDV.SP
