import TorchDataVerif.Proofs.MPUnIterInv
/-!
# MPU, `in_order = False`, iterable: every action keeps the invariant; `init`; whole runs
-/
namespace TDV.MPU
open TDV.MP

theorem InvUI_work (c : Cfg) (s s' : State) (w : Nat) (hit : c.iterable = true) (h : InvUI c s)
    (hst : step c s (.work w) = some s') : InvUI c s' := by
  obtain ⟨n, items, ho, hph, ha | hd⟩ := h
  · obtain ⟨h1, e1, e2, e3, e4, e5⟩ := MidUI0_work c s s' n w hit ha.sh ha.mid hst
    have hup : ∀ v, up s' v = up s v := fun v => by simp [up, e2]
    refine ⟨n, items, by rw [e3]; exact ho, by rw [e4]; exact hph,
      Or.inl ⟨h1, LiveI_same c s s' ha.live e2 e1, by rw [e5]; exact ha.sh, ?_, ha.perm⟩⟩
    intro hstop v hv
    rw [hup]; exact ha.fin (by rw [← e3]; exact hstop) v hv
  · obtain ⟨_, _, _, _, _, _, _, _, _, _, _, _, e6, e7, e8, e9, e10, _⟩ := work_shape c s s' w hst
    exact ⟨n, items, by rw [e8]; exact ho, by rw [e9]; exact hph,
      Or.inr ⟨by rw [e10]; exact hd.sh, by rw [e6, e7]; exact hd.le, by rw [e9]; exact hd.ph, hd.perm, hd.all⟩⟩

theorem InvUI_kill (c : Cfg) (s s' : State) (w : Nat) (h : InvUI c s) (hst : step c s (.kill w) = some s') :
    InvUI c s' := by
  obtain ⟨n, items, ho, hph, ha | hd⟩ := h
  · obtain ⟨hc, k, hk, rfl⟩ := UCore_kill c s s' w ha.mid.core hst
    refine ⟨n, items, ho, hph, Or.inl ⟨?_, LiveI_same c s _ ha.live rfl rfl, ha.sh, ha.fin, ha.perm⟩⟩
    refine MidUI0_grow c s _ n ha.mid hc rfl rfl ?_
    intro v kv hkv
    simp only [List.getElem?_set] at hkv
    split at hkv
    · split at hkv
      · cases hkv; rename_i hwv _; subst hwv; exact ⟨k, hk, rfl, rfl⟩
      · cases hkv
    · exact ⟨kv, hkv, rfl, rfl⟩
  · simp only [step] at hst
    split at hst
    · cases hst
    · split at hst
      · cases hst
      · cases hst
        exact ⟨n, items, ho, hph, Or.inr ⟨hd.sh, hd.le, hd.ph, hd.perm, hd.all⟩⟩

theorem InvUI_stateDict (c : Cfg) (s s' : State) (h : InvUI c s) (hst : step c s .stateDict = some s') :
    InvUI c s' := by
  obtain ⟨n, items, ho, hph, hcase⟩ := h
  simp only [step] at hst
  split at hst
  · cases hst
  · cases hst
    refine ⟨n, items, by rw [taskObs_snoc_other _ _ rfl]; exact ho, hph, ?_⟩
    rcases hcase with ha | hd
    · refine Or.inl ⟨MidUI0_same c s _ n ha.mid rfl rfl rfl rfl rfl rfl rfl rfl, LiveI_same c s _ ha.live rfl rfl,
        ha.sh, ?_, ha.perm⟩
      intro hstop
      apply ha.fin
      rcases List.mem_append.mp hstop with h1 | h1
      · exact h1
      · simp at h1
    · exact Or.inr ⟨hd.sh, hd.le, hd.ph, hd.perm, hd.all⟩

theorem InvUI_next (c : Cfg) (s s' : State) (h : InvUI c s) (hst : step c s .next = some s') : InvUI c s' := by
  obtain ⟨n, items, ho, hph, ha | hd⟩ := h
  · simp only [step] at hst
    split at hst
    · cases hst
    · cases hst
      exact InvUI_finish_loop c s n items _ ha.mid ha.live ha.sh ha.fin ha.perm ho
  · simp only [step] at hst
    split at hst
    · cases hst
    · cases hst
      have hfuel : loopFuel s = (s.sendIdx - s.rcvdIdx) + 1 := rfl
      rw [hfuel, loop_done c _ s hd.le]
      have hsame : (if c.persistent then s else shutdownWorkers c s) = s := by
        split
        · rfl
        · exact shutdownWorkers_noop c s hd.sh
      rw [hsame]
      exact ⟨n, items, by simp only [finish]; rw [taskObs_snoc_other _ _ rfl]; exact ho, by simp [finish],
        Or.inr ⟨hd.sh, hd.le, rfl, hd.perm, hd.all⟩⟩

theorem processData_shutdown (c : Cfg) (X : State) (r : Res) : (processData c X r).1.shutdown = X.shutdown := by
  rw [processData_eq]
  have := (tryPut_sameCore c { X with numTasks := X.numTasks.modify r.w (· - 1) }).shutdown
  cases r.kind with
  | data b => simp only; rw [(yieldItem_sameProto c _ r b).shutdown, this]
  | notice => exact this
  | error => exact this
  | ack => exact this

theorem takeAll_bump (c : Cfg) (n : Nat → Nat) (w : Nat) (it : Item) (hw : w < c.W)
    (hit : (shardOf c w)[n w]? = some it) : (takeAll c (bump n w)).Perm (takeAll c n ++ [it]) := by
  apply flatMap_update_perm (List.range c.W) w _ _ it List.nodup_range (List.mem_range.mpr hw)
  · simp only [bump, if_true]
    rw [List.take_add_one, hit]; rfl
  · intro v hv
    simp only [bump, hv, if_false]

/-- The common end of both data branches of `recv`. -/
theorem InvUI_process (c : Cfg) (s X : State) (n : Nat → Nat) (items : List Item) (r : Res) (rest : List Res)
    (hv : c.Valid) (hit : c.iterable = true) (hio : c.inOrder = false) (ha : ActI c s n items)
    (ho : ObsRel items (taskObs s.obs)) (hq : s.resQ = r :: rest) (hk : r.kind ≠ .notice)
    (e1 : X.status = s.status) (e2 : X.numTasks = s.numTasks) (e3 : X.workers = s.workers) (e4 : X.cyc = s.cyc)
    (e5 : X.info = eraseInfo s.info r.idx)
    (e6 : X.rcvdIdx = s.rcvdIdx ∨ (X.rcvdIdx = s.rcvdIdx + 1 ∧ r.idx = s.rcvdIdx))
    (e7 : X.sendIdx = s.sendIdx) (e8 : X.resQ = rest) (e10 : X.obs = s.obs) (e11 : X.shutdown = s.shutdown) :
    InvUI c (finish ((processData c X r).1, some (processData c X r).2)) := by
  obtain ⟨k, it, hkw, hupr, hlt, hit', hkind, _⟩ := data_analysis c s n r rest ha.mid hq hk
  have hrw : r.w < c.W := (ha.mid.core.rw r (by rw [hq]; exact List.mem_cons_self ..)).1
  obtain ⟨h1, h2, h3⟩ := MidUI0_process c s X n r rest hv hit hio ha.mid hq hk e1 e2 e3 e4 e5 e6 e7 e8
  have hobs := ObsOk_kind it r hkind c X
  obtain ⟨ht1, ht2⟩ := taskObs_single it _ hobs
  have hpo := processData_obs c X r
  have hsc := processData_shutdown c X r
  generalize processData c X r = p at h1 h2 h3 hobs ht1 ht2 hpo hsc
  obtain ⟨Y, o⟩ := p
  simp only at h1 h2 h3 hobs ht1 ht2 hpo hsc
  refine ⟨bump n r.w, items ++ [it], ?_, by simp [finish], Or.inl ⟨?_, ?_, ?_, ?_, ?_⟩⟩
  · simp only [finish, hpo, e10, taskObs_append, ht1]
    exact ObsRel_snoc _ _ _ _ ho hobs
  · exact MidUI0_same c Y _ _ h1 rfl rfl rfl rfl rfl rfl rfl rfl
  · exact LiveI_same c Y _ h2 rfl rfl
  · simp only [finish]; rw [hsc, e11]; exact ha.sh
  · intro hstop
    exfalso
    simp only [finish, hpo, e10] at hstop
    rcases List.mem_append.mp hstop with h4 | h4
    · have := ha.fin h4 r.w hrw
      rw [hupr] at this; cases this
    · simp at h4; exact ht2 h4.symm
  · exact (List.Perm.append_right _ ha.perm).trans (takeAll_bump c n r.w it hrw hit').symm

theorem onArrival_other (c : Cfg) (s : State) (r : Res) (hk : r.kind ≠ .notice) : onArrival c s r = s := by
  simp [onArrival, hk]

/-- Erasing the entry of the notice just received (its worker is retired now). -/
theorem MidUI0_eraseNotice (c : Cfg) (A : State) (n : Nat → Nat) (i : Nat) (h : MidUI0 c A n) (hl : LiveI c A)
    (hdead : ∀ e ∈ A.info, e.idx = i → up A e.w = false) (hi : i = A.rcvdIdx) (hlt : A.rcvdIdx < A.sendIdx) :
    MidUI0 c { A with info := eraseInfo A.info i, rcvdIdx := A.rcvdIdx + 1 } n ∧
    LiveI c { A with info := eraseInfo A.info i, rcvdIdx := A.rcvdIdx + 1 } := by
  have hc := UCore_eraseDead c A i (A.rcvdIdx + 1) h.core hdead (Or.inr ⟨rfl, hi, hlt⟩)
  refine ⟨MidUI0_grow c A _ n h hc rfl rfl (fun v kv hkv => ⟨kv, hkv, rfl, rfl⟩), ?_⟩
  rintro ⟨w, hw, hu⟩
  obtain ⟨e, he1, he2⟩ := hl ⟨w, hw, hu⟩
  refine ⟨e, ?_, he2⟩
  show e ∈ eraseInfo A.info i
  rw [mem_erase]
  refine ⟨he1, fun heq => ?_⟩
  rw [hdead e he1 heq] at he2; cases he2

theorem InvUI_recv (c : Cfg) (hv : c.Valid) (s s' : State) (hit : c.iterable = true) (hio : c.inOrder = false)
    (h : InvUI c s) (hst : step c s .recv = some s') : InvUI c s' := by
  obtain ⟨n, items, ho, hph, ha | hd⟩ := h
  · rw [step_recv_eq] at hst
    cases hq : s.resQ with
    | nil => simp [hq] at hst
    | cons r rest =>
      simp only [hq] at hst
      cases hp : s.phase with
      | idle => simp [hp] at hst
      | resuming k => exact absurd hp (hph k)
      | waiting =>
        simp only [hp] at hst
        split at hst
        · cases hst
        · cases hst
          have hrm : r ∈ s.resQ := by rw [hq]; exact List.mem_cons_self ..
          rw [recvData_eq_tail]
          by_cases hk : r.kind = .notice
          · -- end-of-shard notice
            obtain ⟨kw, _, hupr, _⟩ := notice_analysis c s n r rest ha.mid hq hk
            obtain ⟨a1, a2, a3, a4, a5, a6, a7, a8, a9, a10, a11⟩ :=
              MidUI0_arrival c s { s with resQ := rest, phase := .waiting, outstanding := s.outstanding - 1 } n r rest
                hv hit hio ha.mid hq hk rfl rfl rfl rfl rfl rfl rfl rfl rfl hp.symm rfl
            generalize onArrival c { s with resQ := rest, phase := .waiting, outstanding := s.outstanding - 1 } r = A
              at a1 a2 a3 a4 a5 a6 a7 a8 a9 a10 a11
            have hfinA : Obs.stop ∈ A.obs → ∀ w, w < c.W → up A w = false := by
              intro hstop w hw
              rw [a5] at hstop
              rw [a3]
              split
              · rfl
              · exact ha.fin hstop w hw
            unfold recvTail
            simp only [hio, Bool.not_false, if_true, hk]
            split
            · exact InvUI_finish_loop c _ n items _ (MidUI0_same c A _ n a1 rfl rfl rfl rfl rfl rfl rfl rfl)
                (LiveI_same c A _ a2 rfl rfl) (by show A.shutdown = false; rw [a7]; exact ha.sh) hfinA ha.perm
                (by show ObsRel items (taskObs A.obs); rw [a5]; exact ho)
            · rename_i heq
              have heq' : r.idx = A.rcvdIdx := by simpa using heq
              have hE : (⟨r.idx, r.w, none⟩ : Info) ∈ s.info := ha.mid.core.fr r hrm hupr
              have hridx : r.idx < s.sendIdx := by apply ha.mid.core.flt; simp [flight, hq]
              have hdead : ∀ e ∈ A.info, e.idx = r.idx → up A e.w = false := by
                intro e he heq2
                rcases a9 e he with h1 | h1
                · have : e = ⟨r.idx, r.w, none⟩ := idx_inj s.info ha.mid.core.ind e _ h1 hE heq2
                  rw [this, a3]; simp
                · omega
              obtain ⟨b1, b2⟩ := MidUI0_eraseNotice c A n r.idx a1 a2 hdead heq' (by omega)
              exact InvUI_finish_loop c _ n items _ (MidUI0_same c _ _ n b1 rfl rfl rfl rfl rfl rfl rfl rfl)
                (LiveI_same c _ _ b2 rfl rfl) (by show A.shutdown = false; rw [a7]; exact ha.sh) hfinA ha.perm
                (by show ObsRel items (taskObs A.obs); rw [a5]; exact ho)
          · -- data or error
            rw [onArrival_other c _ r hk]
            unfold recvTail
            simp only [hio, Bool.not_false, if_true, hk, if_false]
            split
            · exact InvUI_process c s _ n items r rest hv hit hio ha ho hq hk rfl rfl rfl rfl rfl (Or.inl rfl) rfl rfl
                rfl rfl
            · rename_i heq
              have heq' : r.idx = s.rcvdIdx := by simpa using heq
              exact InvUI_process c s _ n items r rest hv hit hio ha ho hq hk rfl rfl rfl rfl rfl (Or.inr ⟨rfl, heq'⟩)
                rfl rfl rfl rfl
  · simp only [step] at hst
    cases hq : s.resQ with
    | nil => simp [hq] at hst
    | cons r rest => simp [hq, hd.ph] at hst

end TDV.MPU
