import TorchDataVerif.Proofs.MPUnErase
/-!
# MPU, `in_order = False`: a data result is taken from the queue and its task leaves `_task_info`
-/
namespace TDV.MPU
open TDV.MP

theorem UCore_consume (c : Cfg) (s s2 : State) (r : Res) (rest : List Res) (h : UCore c s)
    (hq : s.resQ = r :: rest) (hupr : up s r.w = true) (e1 : s2.status = s.status)
    (e2 : s2.numTasks = s.numTasks.modify r.w (· - 1)) (e3 : s2.workers = s.workers) (e4 : s2.cyc = s.cyc)
    (e5 : s2.info = eraseInfo s.info r.idx)
    (e6 : s2.rcvdIdx = s.rcvdIdx ∨ (s2.rcvdIdx = s.rcvdIdx + 1 ∧ r.idx = s.rcvdIdx))
    (e7 : s2.sendIdx = s.sendIdx) (e8 : s2.resQ = rest) : UCore c s2 ∧ goodW c s2 r.w = true := by
  have hup : ∀ v, up s2 v = up s v := fun v => by simp [up, e1]
  have hcap : capOf c s2 = capOf c s := by simp [capOf, e1]
  have hrm : r ∈ s.resQ := by rw [hq]; exact List.mem_cons_self ..
  have hrw : r.w < c.W := (h.rw r hrm).1
  have hE : (⟨r.idx, r.w, none⟩ : Info) ∈ s.info := h.fr r hrm hupr
  have hfl : flight s = qIdxs s.workers ++ r.idx :: rest.map (·.idx) := by simp [flight, hq]
  have hfl2 : flight s2 = qIdxs s.workers ++ rest.map (·.idx) := by simp [flight, e3, e8]
  have hsub : (flight s2).Sublist (flight s) := by
    rw [hfl, hfl2]; exact List.Sublist.append_left (List.sublist_cons_self _ _) _
  have hnd := h.fnd
  rw [hfl, List.nodup_append] at hnd
  obtain ⟨_, hnd2, hdisj⟩ := hnd
  have hridx : r.idx < s.sendIdx := h.flt _ (by rw [hfl]; simp)
  have hnt : s.numTasks.getD r.w 0 = entriesOf s.info r.w := h.cnt r.w hrw hupr
  have hpos : 0 < entriesOf s.info r.w := by
    have := entriesOf_erase s.info ⟨r.idx, r.w, none⟩ r.w hE h.ind
    simp at this; omega
  refine ⟨?_, ?_⟩
  · constructor
    · rw [e1]; exact h.stl
    · rw [e2]; simp [h.ntl]
    · rw [e3]; exact h.wl
    · rw [e4]; exact h.cyc
    · rw [e7]; have := h.rs; rcases e6 with e6 | ⟨e6, e6'⟩ <;> omega
    · rw [e5]; intro e he; exact h.rnone e ((mem_erase _ _ _).mp he).1
    · rw [e5]; exact erase_nodup _ _ h.ind
    · rw [e5, e7]; intro e he
      obtain ⟨he1, he2⟩ := (mem_erase _ _ _).mp he
      obtain ⟨a1, a2, a3⟩ := h.irng e he1
      refine ⟨?_, a2, a3⟩
      rcases e6 with e6 | ⟨e6, e6'⟩ <;> omega
    · intro v hv hu
      rw [hup] at hu
      rw [e2, e5, getD_modify _ _ _ _ (Or.inl rfl), h.cnt v hv hu]
      have := entriesOf_erase s.info ⟨r.idx, r.w, none⟩ v hE h.ind
      simp only at this
      by_cases hwv : r.w = v
      · simp only [hwv, if_true] at this ⊢; omega
      · simp only [hwv, if_false] at this ⊢; omega
    · intro v hv hu
      rw [hup] at hu
      rw [e2, hcap, getD_modify _ _ _ _ (Or.inl rfl)]
      have := h.cap v hv hu
      split <;> omega
    · exact List.Nodup.sublist hsub h.fnd
    · intro i hi; rw [e7]; exact h.flt i (hsub.subset hi)
    · intro v k hk hu i hi
      rw [hup] at hu
      rw [e3] at hk
      rw [e5, mem_erase]
      refine ⟨h.fq v k hk hu i hi, ?_⟩
      have hiq : i ∈ qIdxs s.workers := (mem_qIdxs _ _).mpr ⟨v, k, hk, hi⟩
      exact hdisj i hiq r.idx (List.mem_cons_self ..)
    · intro r' hr' hu
      rw [hup] at hu
      rw [e8] at hr'
      rw [e5, mem_erase]
      refine ⟨h.fr r' (by rw [hq]; exact List.mem_cons_of_mem _ hr') hu, ?_⟩
      have : r'.idx ∈ rest.map (·.idx) := List.mem_map.mpr ⟨r', hr', rfl⟩
      intro heq
      rw [List.nodup_cons] at hnd2
      exact hnd2.1 (heq ▸ this)
    · intro v k hk; exact h.nores v k (by rw [← e3]; exact hk)
    · rw [e8]; intro r' hr'; exact h.rw r' (by rw [hq]; exact List.mem_cons_of_mem _ hr')
  · simp only [goodW, Bool.and_eq_true, decide_eq_true_eq]
    refine ⟨by rw [hup]; exact hupr, ?_⟩
    rw [e2, hcap, getD_modify _ _ _ _ (Or.inl rfl)]
    have := h.cap r.w hrw hupr
    simp only [if_true]
    omega

theorem up_set_false (s s1 : State) (w : Nat) (e1 : s1.status = s.status.set w false) (v : Nat) :
    up s1 v = if v = w then false else up s v := by
  simp only [up, e1, List.getD_eq_getElem?_getD, List.getElem?_set]
  by_cases hv : w = v
  · subst hv
    simp only [if_true]
    split <;> rfl
  · have : ¬ v = w := fun e => hv e.symm
    simp [hv, this]

/-- An end-of-shard notice is taken from the queue: its worker is retired (and, unless persistent, sent
the final `None`). -/
theorem UCore_retire (c : Cfg) (s s1 : State) (r : Res) (rest : List Res) (h : UCore c s)
    (hq : s.resQ = r :: rest) (e1 : s1.status = s.status.set r.w false) (e2 : s1.numTasks = s.numTasks)
    (e3 : s1.workers = s.workers ∨ s1.workers = pushMsg s.workers r.w .stop) (e4 : s1.cyc = s.cyc)
    (e5 : s1.info = s.info) (e6 : s1.rcvdIdx = s.rcvdIdx) (e7 : s1.sendIdx = s.sendIdx) (e8 : s1.resQ = rest) :
    UCore c s1 := by
  have hup := up_set_false s s1 r.w e1
  have hupimp : ∀ v, up s1 v = true → up s v = true ∧ v ≠ r.w := by
    intro v hv
    rw [hup] at hv
    split at hv
    · cases hv
    · rename_i hne; exact ⟨hv, hne⟩
  have hcap : ∀ v, up s1 v = true → capOf c s ≤ capOf c s1 := by
    intro v hv
    simp only [capOf, e1]
    apply Nat.div_le_div_left (countUp_set_false _ _)
    have : (s.status.set r.w false).getD v false = true := by
      have := hv; simp only [up, e1] at this; exact this
    exact countUp_pos _ v this
  have hqi : qIdxs s1.workers = qIdxs s.workers := by
    rcases e3 with e3 | e3
    · rw [e3]
    · rw [e3]; exact qIdxs_push_other _ _ _ rfl
  have hsub : (flight s1).Sublist (flight s) := by
    simp only [flight, hqi, e8, hq, List.map_cons]
    exact List.Sublist.append_left (List.sublist_cons_self _ _) _
  have hwk : ∀ (v : Nat) (k : Worker), s1.workers[v]? = some k → v ≠ r.w → s.workers[v]? = some k := by
    intro v k hk hne
    rcases e3 with e3 | e3
    · rw [e3] at hk; exact hk
    · rw [e3] at hk
      obtain ⟨k0, hk0, a1, a2, a3, a4⟩ := pushMsg_get _ _ _ _ _ hk
      have : ¬ r.w = v := fun e => hne e.symm
      simp only [this, if_false] at a4
      rw [hk0]
      congr 1
      cases k; cases k0; simp_all
  constructor
  · rw [e1]; simp [h.stl]
  · rw [e2]; exact h.ntl
  · rcases e3 with e3 | e3 <;> rw [e3] <;> simp [pushMsg, h.wl]
  · rw [e4]; exact h.cyc
  · rw [e6, e7]; exact h.rs
  · rw [e5]; exact h.rnone
  · rw [e5]; exact h.ind
  · rw [e5, e6, e7]; exact h.irng
  · intro v hv hu
    rw [e2, e5]; exact h.cnt v hv (hupimp v hu).1
  · intro v hv hu
    rw [e2]; exact Nat.le_trans (h.cap v hv (hupimp v hu).1) (hcap v hu)
  · exact List.Nodup.sublist hsub h.fnd
  · intro i hi; rw [e7]; exact h.flt i (hsub.subset hi)
  · intro v k hk hu i hi
    obtain ⟨hu', hne⟩ := hupimp v hu
    rw [e5]; exact h.fq v k (hwk v k hk hne) hu' i hi
  · intro r' hr' hu
    rw [e8] at hr'
    rw [e5]; exact h.fr r' (by rw [hq]; exact List.mem_cons_of_mem _ hr') (hupimp _ hu).1
  · intro v k hk
    rcases e3 with e3 | e3
    · rw [e3] at hk; exact h.nores v k hk
    · rw [e3] at hk
      obtain ⟨k0, hk0, _, _, _, a4⟩ := pushMsg_get _ _ _ _ _ hk
      rw [a4]
      have := h.nores v k0 hk0
      split
      · simp [this]
      · exact this
  · rw [e8]; intro r' hr'; exact h.rw r' (by rw [hq]; exact List.mem_cons_of_mem _ hr')

end TDV.MPU
