import TorchDataVerif.Proofs.NodesLoaderG
import TorchDataVerif.Props.C02
/-!
# Part H — `Pipe.Ok p` gives `Built p.node` and `ErrFree p.node`; the epoch items are items of the pipeline
-/
namespace TDV.E2EN
open TDV.Node TDV.Loader

theorem Ranked.mono {n : Node} {μ : Run n → Nat} {B B' : Nat} (h : Ranked n μ B) (hb : B ≤ B') : Ranked n μ B' :=
  ⟨h.item, h.other, h.get, fun r hr => Nat.le_trans (h.bound r hr) hb⟩

namespace Pipe

theorem items_sat {p : Pipe} (ok : p.Ok) : ItemsSat p.node p.Items := by
  induction p with
  | list l => exact listSource_itemsSat l
  | sampler idx upd e0 => exact samplerNode_itemsSat idx upd e0
  | stateful it xs => exact StOk.items ok
  | map f p ih =>
    exact mapper_itemsSat f p.Items (Pipe.map f p).Items (ih ok.1) (fun v w hv hw => ⟨v, hv, hw⟩)
  | batch bs dl p ih => exact batcher_itemsSat' bs dl ok.2 (ih ok.1)
  | unbatch fuel p ih => exact unbatcher_itemsSat (ih ok.1) fuel
  | filter fuel q p ih => exact filter_itemsSat fuel q (ih ok.1)
  | buffered sf p ih => exact buffered_itemsSat sf (ih ok)

theorem ranked {p : Pipe} {B : Nat} (ok : p.Ok) (h : p.Below B) : ∃ μ, Ranked p.node μ B := by
  induction p with
  | list l =>
    exact ⟨_, (list_ranked l).mono h⟩
  | sampler idx upd e0 => exact ⟨_, sampler_ranked idx upd e0 B h⟩
  | stateful _ _ => exact h.elim
  | map f p ih => obtain ⟨μ, hr⟩ := ih ok.1 h; exact ⟨_, mapper_ranked f hr⟩
  | batch bs dl p ih => obtain ⟨μ, hr⟩ := ih ok.1 h; exact ⟨_, batcher_ranked bs dl ok.2 hr⟩
  | unbatch fuel p _ => exact h.elim
  | filter fuel q p ih => obtain ⟨μ, hr⟩ := ih ok.1 h; exact ⟨_, filter_ranked fuel q hr⟩
  | buffered sf p ih => obtain ⟨μ, hr⟩ := ih ok h; exact ⟨_, buffered_ranked sf hr⟩

/-- **`Pipe.Ok` is sufficient**: the pipeline is in the closure `Built` of C02 and never raises. -/
theorem built_errFree {p : Pipe} (ok : p.Ok) : Built p.node ∧ ErrFree p.node := by
  induction p with
  | list l => exact ⟨Built.list l, listSource_errFree l⟩
  | sampler idx upd e0 => exact ⟨Built.sampler idx upd e0, samplerNode_errFree idx upd e0⟩
  | stateful it xs =>
    obtain ⟨E, I, L, _⟩ := id ok
    exact ⟨Built.stateful it E I L, StOk.errFree ok⟩
  | map f p ih =>
    obtain ⟨hb, he⟩ := ih ok.1
    exact ⟨Built.mapper f hb, mapper_errFree f he (itemsSat_mono (items_sat ok.1) ok.2)⟩
  | batch bs dl p ih =>
    obtain ⟨hb, he⟩ := ih ok.1
    exact ⟨Built.batcher bs dl ok.2 hb, batcher_errFree bs dl he⟩
  | unbatch fuel p ih =>
    obtain ⟨hb, he⟩ := ih ok.1
    have heU : ErrFree (unbatcher fuel p.node) :=
      unbatcher_errFree he (itemsSat_mono (items_sat ok.1) ok.2.1) fuel ok.2.2.1
    exact ⟨Built.unbatcher fuel (by have := ok.2.2.1; omega) hb he heU, heU⟩
  | filter fuel q p ih =>
    obtain ⟨hb, he⟩ := ih ok.1
    obtain ⟨B, hlt, hbelow⟩ := ok.2
    obtain ⟨μ, hr⟩ := ranked ok.1 hbelow
    exact ⟨Built.filter fuel q (by omega) hb, filter_errFree fuel q hr he hlt⟩
  | buffered sf p ih =>
    obtain ⟨hb, he⟩ := ih ok
    obtain ⟨Rs, g⟩ := built_good hb
    exact ⟨Built.buffered sf hb he, buffered_errFree sf g he⟩

theorem built {p : Pipe} (ok : p.Ok) : Built p.node := (built_errFree ok).1

theorem errFree {p : Pipe} (ok : p.Ok) : ErrFree p.node := (built_errFree ok).2

theorem lawful {p : Pipe} (ok : p.Ok) : Lawful p.node := built_lawful (built ok)

theorem noError {p : Pipe} (ok : p.Ok) : NoError p.node := noError_of_errFree (errFree ok)

/-! ## the reference epochs consist of items of the pipeline -/

theorem chunkF_mem (bs : Nat) (dl : Bool) (hbs : 1 ≤ bs) (fuel : Nat) :
    ∀ xs ys : List Item, ys ∈ Ref.chunkF bs dl fuel xs → ys ≠ [] ∧ ∀ y ∈ ys, y ∈ xs := by
  induction fuel with
  | zero => intro xs ys h; simp [Ref.chunkF] at h
  | succ fuel ih =>
    intro xs ys h
    by_cases hxs : xs = []
    · subst hxs; simp [Ref.chunkF] at h
    · have hne : xs.isEmpty = false := by cases xs <;> simp_all
      by_cases hlt : xs.length < bs
      · cases dl with
        | true => simp [Ref.chunkF, hne, hlt] at h
        | false =>
          simp [Ref.chunkF, hne, hlt] at h
          subst h
          exact ⟨hxs, fun y hy => hy⟩
      · simp only [Ref.chunkF, hne, hlt, Bool.false_eq_true, if_false, List.mem_cons] at h
        rcases h with h | h
        · subst h
          refine ⟨?_, fun y hy => List.mem_of_mem_take hy⟩
          intro hc
          have hl := congrArg List.length hc
          have hpos : 0 < xs.length := List.length_pos_iff.mpr hxs
          simp only [List.length_take, List.length_nil] at hl
          omega
        · have := ih _ _ h
          exact ⟨this.1, fun y hy => List.mem_of_mem_drop (this.2 y hy)⟩

theorem epochs_items {p : Pipe} (ok : p.Ok) (e : Nat) : ∀ x ∈ p.epochs e, p.Items x := by
  induction p with
  | list l => intro x hx; exact hx
  | sampler idx upd e0 => intro x hx; exact ⟨_, hx⟩
  | stateful it xs => intro x hx; exact hx
  | map f p ih =>
    intro w hw
    simp only [epochs, List.mem_filterMap] at hw
    obtain ⟨v, hv, hfv⟩ := hw
    exact ⟨v, ih ok.1 v hv, hfv⟩
  | batch bs dl p ih =>
    intro w hw
    simp only [epochs, List.mem_map] at hw
    obtain ⟨ys, hys, rfl⟩ := hw
    have hm := chunkF_mem bs dl ok.2 _ _ ys hys
    cases ys with
    | nil => exact absurd rfl hm.1
    | cons y ys => exact ⟨y, ys, rfl, fun z hz => ih ok.1 z (hm.2 z hz)⟩
  | unbatch fuel p ih =>
    intro v hv
    simp only [epochs, List.mem_flatMap] at hv
    obtain ⟨w, hw, hvw⟩ := hv
    have hi := ih ok.1 w hw
    obtain ⟨y, ys, rfl⟩ := ok.2.1 w hi
    exact ⟨y :: ys, hi, hvw⟩
  | filter fuel q p ih =>
    intro v hv
    simp only [epochs, List.mem_filter] at hv
    exact ⟨ih ok.1 v hv.1, hv.2⟩
  | buffered sf p ih => exact ih ok

end Pipe
end TDV.E2EN
