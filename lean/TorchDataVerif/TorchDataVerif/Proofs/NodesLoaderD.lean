import TorchDataVerif.Proofs.NodesLoaderC
/-!
# Part D — which items an operator can return (`ItemsSat`), compositionally

Used to discharge the side conditions of `mapper_errFree` (the map function is defined on every item the
source returns) and `unbatcher_errFree` (every batch is a non-empty sequence) syntactically.
-/
namespace TDV.E2EN
open TDV.Node TDV.Loader

theorem listSource_itemsSat (l : List Item) : ItemsSat (listSource l) (fun v => v ∈ l) := by
  intro r hr v h
  have inv := listSource_reach l r hr
  have h' : (listNext (r.st : ListSt)).1 = .item v := h
  cases hrem : (r.st : ListSt).rem with
  | nil => simp [listNext, inv.1, hrem] at h'
  | cons x xs =>
    simp [listNext, inv.1, hrem] at h'
    subst h'
    have hm : x ∈ (r.st : ListSt).rem := by rw [hrem]; exact List.mem_cons_self
    rw [inv.2.2] at hm
    exact List.mem_of_mem_drop hm

theorem samplerNode_itemsSat (idx : Nat → List Item) (upd : Nat → Nat) (e0 : Nat) :
    ItemsSat (samplerNode idx upd e0) (fun v => ∃ e, v ∈ idx e) := by
  intro r hr v h
  have inv := samplerNode_reach idx upd e0 r hr
  have sp := (sampNext_spec idx (r.st : SampSt) r.nexted inv).2.2.1
  have h' : (sampNext (r.st : SampSt)).1 = .item v := h
  rw [sp] at h'
  cases hrem : (r.st : SampSt).rem with
  | nil => rw [hrem] at h'; cases h'
  | cons x xs =>
    rw [hrem] at h'
    cases h'
    have hm : v ∈ (r.st : SampSt).rem := by rw [hrem]; exact List.mem_cons_self
    rw [inv.2.2.1] at hm
    exact ⟨_, List.mem_of_mem_drop hm⟩

theorem itemsSat_mono {n : Node} {P Q : Item → Prop} (h : ItemsSat n P) (hpq : ∀ v, P v → Q v) : ItemsSat n Q :=
  fun r hr v hv => hpq v (h r hr v hv)

/-! ## `Batcher` -/

theorem collect_items {src : Node} {P : Item → Prop} (hP : ItemsSat src P) (k : Nat) :
    ∀ r, src.Reach r → ∀ x ∈ (collect src k r).1.1, P x := by
  induction k with
  | zero => intro r _ x hx; simp [collect] at hx
  | succ k ih =>
    intro r hr x hx
    have hn := Node.Reach.next hr
    rcases hn' : src.rnext r with ⟨o, r'⟩
    rw [hn'] at hn
    cases o with
    | item v =>
      have e1 : collect src (k + 1) r = ((v :: (collect src k r').1.1, (collect src k r').1.2), (collect src k r').2) := by
        simp only [collect, hn']
      rw [e1] at hx
      rcases List.mem_cons.mp hx with rfl | hx
      · exact hP r hr _ (by rw [hn'])
      · exact ih r' hn x hx
    | stop =>
      have e1 : collect src (k + 1) r = (([], .stop), r') := by simp only [collect, hn']
      rw [e1] at hx; cases hx
    | error e' =>
      have e1 : collect src (k + 1) r = (([], .err e'), r') := by simp only [collect, hn']
      rw [e1] at hx; cases hx

/-- A batch: a non-empty list of source items. -/
def IsBatchOf (P : Item → Prop) (w : Item) : Prop := ∃ x xs, w = .list (x :: xs) ∧ ∀ y ∈ x :: xs, P y

theorem batcher_itemsSat' (bs : Nat) (dl : Bool) (hbs : 1 ≤ bs) {src : Node} {P : Item → Prop}
    (hP : ItemsSat src P) : ItemsSat (batcher bs dl src) (IsBatchOf P) := by
  intro R hR w h
  obtain ⟨x, xs, hw⟩ := batcher_itemsSat bs dl hbs src R hR w h
  refine ⟨x, xs, hw, ?_⟩
  have hr := batcher_reach bs dl src R hR
  have hc := collect_items hP bs (R.st : Run src) hr
  have h' : batchOut dl (collect src bs (R.st : Run src)).1 = .item w := h
  rcases hcc : (collect src bs (R.st : Run src)).1 with ⟨b, c⟩
  rw [hcc] at h' hc
  simp only at hc
  cases c with
  | full =>
    simp only [batchOut] at h'
    rw [hw] at h'
    cases h'
    exact hc
  | stop =>
    simp only [batchOut] at h'
    split at h'
    · cases h'
    · rw [hw] at h'
      cases h'
      exact hc
  | err e => simp [batchOut] at h'

/-! ## `Filter` -/

theorem filLoop_items {src : Node} {P : Item → Prop} (hP : ItemsSat src P) (q : Item → Bool) (k : Nat) :
    ∀ st : FilSt src, src.Reach st.inner → ∀ v, (filLoop src q k st).1 = .item v → P v ∧ q v = true := by
  induction k with
  | zero => intro st _ v h; simp [filLoop] at h
  | succ k ih =>
    intro st hr v h
    have hn := Node.Reach.next hr
    rcases hx : src.rnext st.inner with ⟨o, r'⟩
    rw [hx] at hn
    cases o with
    | item w =>
      by_cases hq : q w = true
      · simp only [filLoop, hx, hq, if_true] at h
        cases h
        exact ⟨hP _ hr _ (by rw [hx]), hq⟩
      · simp only [filLoop, hx, hq] at h
        exact ih _ hn v h
    | stop => simp only [filLoop, hx] at h; cases h
    | error e => simp only [filLoop, hx] at h; cases h

theorem filter_itemsSat (fuel : Nat) (q : Item → Bool) {src : Node} {P : Item → Prop} (hP : ItemsSat src P) :
    ItemsSat (filter fuel q src) (fun v => P v ∧ q v = true) := by
  intro R hR v h
  exact filLoop_items hP q fuel _ (filter_reach fuel q src R hR) v h

/-! ## `buffered` -/

theorem buffered_itemsSat (sf : Nat) {src : Node} {P : Item → Prop} (hP : ItemsSat src P) :
    ItemsSat (buffered sf src) P := by
  intro R hR v h
  have hr := (buffered_reach sf src R hR).1
  have h' : (bufNext src sf (R.st : BufSt src)).1 = .item v := h
  unfold bufNext at h'
  split at h'
  · cases h'
  · split at h'
    · cases h'
    · rcases hx : src.rnext (R.st : BufSt src).inner with ⟨o, r'⟩
      rw [hx] at h'
      cases o with
      | item w =>
        simp only at h'
        have hw := hP _ hr w (by rw [hx])
        split at h' <;> (cases h'; exact hw)
      | stop => simp only at h'; cases h'
      | error e => simp only at h'; cases h'

end TDV.E2EN
