import TorchDataVerif.Model.PF
/-!
Invariant of the Prefetcher protocol `TDV.PF` over every reachable state (definitions and arithmetic helpers).
-/
namespace TDV.PF

/-- the message the reader produces for its `i`-th pull -/
def msgAt (c : Cfg) (i : Nat) : Msg :=
  match c.src[i]? with
  | some v => ⟨.item v, i⟩
  | none => ⟨c.term.pay, i⟩

/-- permits held by the reader -/
def rHold : RPc → Nat
  | .next | .insrc | .app _ _ | .put _ => 1
  | _ => 0

/-- messages taken from the queue by the consumer whose permit is not yet released -/
def cHold : CPc → Nat
  | .rel _ => 1
  | _ => 0

def rMsg : RPc → List Msg
  | .app v i => [⟨.item v, i⟩]
  | .put m => [m]
  | _ => []

def cMsg : CPc → List Msg
  | .rel m | .set m | .pop m => [m]
  | _ => []

/-- everything the reader has produced, in order: processed, in the consumer's hand, queued, in the reader's hand -/
def hist (s : State) : List Msg := s.got ++ cMsg s.cpc ++ s.q ++ rMsg s.rpc

/-- number of results the source has handed out -/
def npro (s : State) : Nat := s.pulled + if s.rterm then 1 else 0

/-- number of items whose snapshot (if due) has been appended -/
def appended (s : State) : Nat :=
  match s.rpc with
  | .app _ _ => s.pulled - 1
  | _ => s.pulled

/-- snapshot-store contents for versions `lo .. lo+n-1` -/
def storeOf (c : Cfg) : Nat → Nat → List (Nat × Nat)
  | _, 0 => []
  | lo, n + 1 => (if snapAt c lo then [(lo, c.base + lo + 1)] else []) ++ storeOf c (lo + 1) n

/-- position of the last snapshot due at or before `m` delivered items (0 = the initial one) -/
def jstar (f : Nat) : Nat → Nat
  | 0 => 0
  | m + 1 => if 0 < f ∧ (m + 1) % f = 0 then m + 1 else jstar f m

/-- items held = pulled from the source and not yet released by the consumer -/
def held (s : State) : Nat := rHold s.rpc + s.q.length + cHold s.cpc

def inNext : CPc → Bool
  | .top | .get | .rel _ | .set _ | .pop _ => true
  | _ => false

@[simp] theorem isItem_item (v : Nat) : (Pay.item v).isItem = true := rfl
@[simp] theorem isItem_stop : Pay.stop.isItem = false := rfl
@[simp] theorem isItem_err : Pay.err.isItem = false := rfl
@[simp] theorem term_pay_not_item (t : Term) : t.pay.isItem = false := by cases t <;> rfl

structure Inv (c : Cfg) (s : State) : Prop where
  permits : s.sem + held s = c.pf
  hist_eq : hist s = (List.range (npro s)).map (msgAt c)
  pulled_le : s.pulled ≤ c.src.length
  rterm_pulled : s.rterm = true → s.pulled = c.src.length
  rterm_pc : s.rterm = true → (s.rpc = .put ⟨c.term.pay, s.pulled⟩ ∨ s.rpc = .ret ∨ s.rpc = .exited)
  app_idx : ∀ v i, s.rpc = .app v i → i + 1 = s.pulled ∧ snapAt c i = true
  store_eq : s.store = storeOf c s.got.length (appended s - s.got.length)
  snap_eq : s.snap = c.base + jstar c.f (min s.got.length c.src.length)
  steps_eq : s.steps + jstar c.f (min s.got.length c.src.length) = min s.got.length c.src.length
  cons_stop : (s.cpc = .get ∨ cMsg s.cpc ≠ []) → s.stop = false
  got_end : s.stop = false → s.got.length ≤ s.pulled
  rdone : (s.rpc = .ret ∨ s.rpc = .exited) → (s.stop = true ∨ s.rterm = true ∨ c.startErr = true)
  boot_ok : s.cpc = .boot → (s.sinit = true ∨ s.rpc = .init)
  init_ok : s.rpc = .init → s.cpc = .boot ∧ s.sinit = false
  serr : c.startErr = true → (s.cpc = .boot ∨ s.cpc = .dead ∨ s.cpc = .join ∨ s.cpc = .closed) ∧
                             (s.rpc = .init ∨ s.rpc = .ret ∨ s.rpc = .exited)
  ends : s.nstop + s.errs > 0 → s.cpc ≠ .boot
  pop_item : ∀ m, s.cpc = .pop m → m.pay.isItem = true
  set_nitem : ∀ m, s.cpc = .set m → m.pay.isItem = false
  put_kind : ∀ m, s.rpc = .put m → m.pay.isItem = !s.rterm
  boot_got : s.cpc = .boot → s.got = []

theorem inv_init (c : Cfg) : Inv c (init c) := by
  constructor <;> simp [init, held, rHold, cHold, hist, cMsg, rMsg, npro, appended, storeOf, jstar]


theorem mid_of_eq {f : Nat → Msg} {n : Nat} {a : List Msg} {m : Msg} {rest : List Msg}
    (h : a ++ m :: rest = (List.range n).map f) : m = f a.length ∧ a.length < n := by
  have hl := congrArg List.length h
  simp at hl
  have hlt : a.length < n := by omega
  have := congrArg (fun l => l[a.length]?) h
  simp [hlt] at this
  exact ⟨this, hlt⟩

theorem storeOf_succ (c : Cfg) (lo n : Nat) :
    storeOf c lo (n + 1) = storeOf c lo n ++ (if snapAt c (lo + n) then [(lo + n, c.base + (lo + n) + 1)] else []) := by
  induction n generalizing lo with
  | zero => simp [storeOf]
  | succ n ih =>
    rw [storeOf, ih (lo + 1), storeOf]
    simp [Nat.add_assoc, Nat.add_comm 1 n]

theorem storeOf_ge (c : Cfg) (lo n : Nat) : ∀ p ∈ storeOf c lo n, lo ≤ p.1 := by
  induction n generalizing lo with
  | zero => simp [storeOf]
  | succ n ih =>
    intro p hp
    simp only [storeOf, List.mem_append] at hp
    rcases hp with hp | hp
    · split at hp <;> simp_all
    · have := ih (lo + 1) p hp; omega

theorem popLoop_stop (ver : Nat) (l : List (Nat × Nat)) (last) (h : ∀ p ∈ l, ver < p.1) :
    popLoop ver l last = (l, last) := by
  cases l with
  | nil => simp [popLoop]
  | cons p r =>
    obtain ⟨v, x⟩ := p
    have := h (v, x) (by simp)
    simp [popLoop]; omega

theorem popVersion_storeOf (c : Cfg) (lo n : Nat) :
    popVersion lo (storeOf c lo (n + 1)) =
      (storeOf c (lo + 1) n, if snapAt c lo then some (c.base + lo + 1) else none) := by
  have hge : ∀ p ∈ storeOf c (lo + 1) n, lo < p.1 := fun p hp => by
    have := storeOf_ge c (lo + 1) n p hp; omega
  cases hs : snapAt c lo <;> simp [popVersion, storeOf, hs, popLoop, popLoop_stop _ _ _ hge]

theorem jstar_le (f m : Nat) : jstar f m ≤ m := by
  induction m with
  | zero => simp [jstar]
  | succ m ih => simp only [jstar]; split <;> omega

theorem jstar_succ (c : Cfg) (m : Nat) :
    jstar c.f (m + 1) = if snapAt c m then m + 1 else jstar c.f m := by
  simp [jstar, snapAt]

end TDV.PF
