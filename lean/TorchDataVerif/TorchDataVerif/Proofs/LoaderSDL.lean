import TorchDataVerif.Model.Loader
/-!
Helper lemmas for the `StatefulDataLoader` façade (`TDV.SDLApi`): the flag-based decision table is the
reference's rule, by an abstraction function that commutes with every op.
-/
namespace TDV.SDLApi
open TDV.Node
open TDV.Loader (Obs Op)

def cv (i : It) : Ref.RIt := ⟨i.e, i.p, i.fin⟩

def cvH : Handle → Ref.RHandle
  | .none => .none
  | .shared => .cur
  | .detached i => .old (cv i)

def absSt (s : State) : Ref.RState :=
  ⟨s.iterator.map cv, s.pending.map cv, s.initForSd, cvH s.handle, s.g⟩

def absSys (s : Sys) : Ref.RSys := ⟨absSt s.st, s.toks.map cv⟩

/-- Invariant of the façade flags. -/
structure Inv (s : State) : Prop where
  flag : s.initForSd = true → s.iterator ≠ none
  pend : s.pending ≠ none → s.iterator = none

theorem inv_init : Inv State.init := ⟨by simp [State.init], by simp [State.init]⟩

theorem atEnd_cv (epochs : Nat → List Item) (i : It) : Ref.atEnd epochs true (cv i) = i.fin := by
  simp [Ref.atEnd, cv]

theorem itNext_cv (epochs : Nat → List Item) (i : It) :
    Ref.itNext epochs (cv i) = ((itNext epochs i).1, cv (itNext epochs i).2) := by
  unfold Ref.itNext itNext cv
  cases (epochs i.e)[i.p]? <;> simp

theorem iter_abs (epochs : Nat → List Item) (persistent : Bool) (s : State) (hi : Inv s) :
    (iter persistent s).1 = .ok ∧ absSt (iter persistent s).2 = Ref.iter epochs true (absSt s) ∧
      Inv (iter persistent s).2 := by
  have hf := hi.flag
  have hp := hi.pend
  clear hi
  rcases s with ⟨(_ | ⟨ie, ip, (_ | _)⟩), (_ | ⟨pe, pp, (_ | _)⟩), (_ | _), h, g, m⟩ <;>
    cases persistent <;>
    simp_all [iter, iterFirst, iterSecond, getIterator, resetIt, absSt, Ref.iter, Ref.iterPick,
      Ref.resumeOrNew, Ref.newEpoch, Ref.atEnd, cv, cvH] <;>
    constructor <;> simp

theorem stateDict_abs (s : State) (hi : Inv s) :
    cv (stateDict s).1 = (Ref.stateDict (absSt s)).1 ∧ absSt (stateDict s).2 = (Ref.stateDict (absSt s)).2 ∧
      Inv (stateDict s).2 := by
  have hf := hi.flag
  have hp := hi.pend
  clear hi
  rcases s with ⟨(_ | ⟨ie, ip, ifin⟩), (_ | ⟨pe, pp, pfin⟩), (_ | _), h, g, m⟩ <;>
    simp_all [stateDict, getIterator, absSt, Ref.stateDict, Ref.obtain, Ref.newEpoch, cv] <;>
    constructor <;> simp_all

theorem load_abs (s : State) (t : It) :
    absSt (load s t) = Ref.load (absSt s) (cv t) ∧ Inv (load s t) := by
  obtain ⟨it, pd, fl, h, g, m⟩ := s
  refine ⟨?_, ⟨by simp [load], by simp [load]⟩⟩
  cases h <;> cases it <;> simp [load, absSt, Ref.load, cvH]

theorem next_abs (epochs : Nat → List Item) (s : State) (hi : Inv s) :
    (next epochs s).1 = (Ref.next epochs (absSt s)).1 ∧ absSt (next epochs s).2 = (Ref.next epochs (absSt s)).2 ∧
      Inv (next epochs s).2 := by
  have hf := hi.flag
  have hp := hi.pend
  clear hi
  rcases s with ⟨(_ | it), pd, fl, (_ | _ | hd), g, m⟩ <;>
    simp_all [next, absSt, Ref.next, cvH, itNext_cv] <;>
    constructor <;> simp_all

theorem step_abs (epochs : Nat → List Item) (persistent : Bool) (s : Sys) (hi : Inv s.st) (op : Op) :
    (step epochs persistent s op).1 = (Ref.step epochs true (absSys s) op).1 ∧
      absSys (step epochs persistent s op).2 = (Ref.step epochs true (absSys s) op).2 ∧
      Inv (step epochs persistent s op).2.st := by
  cases op with
  | iter =>
    have h := iter_abs epochs persistent s.st hi
    simp [step, Ref.step, absSys, h.1, h.2.1, h.2.2]
  | next =>
    have h := next_abs epochs s.st hi
    simp [step, Ref.step, absSys, h.1, h.2.1, h.2.2]
  | stateDict =>
    have h := stateDict_abs s.st hi
    simp [step, Ref.step, absSys, h.1, h.2.1, h.2.2]
  | peek =>
    have h := stateDict_abs s.st hi
    simp [step, Ref.step, absSys, h.2.1, h.2.2]
  | load i =>
    simp only [step, Ref.step, absSys, List.getElem?_map]
    cases h : s.toks[i]? with
    | none => simp [hi]
    | some t =>
      have h' := load_abs s.st t
      simp [h'.1, h'.2]
  | abandon =>
    refine ⟨rfl, ?_, ⟨hi.flag, hi.pend⟩⟩
    simp [step, Ref.step, absSys, absSt, cvH]
  | fresh =>
    refine ⟨rfl, ?_, inv_init⟩
    simp [step, Ref.step, absSys, absSt, cvH, State.init, Ref.RState.init]

theorem obs_abs (epochs : Nat → List Item) (persistent : Bool) (ops : List Op) (s : Sys) (hi : Inv s.st) :
    obs epochs persistent s ops = Ref.obs epochs true (absSys s) ops := by
  induction ops generalizing s with
  | nil => rfl
  | cons op ops ih =>
    have h := step_abs epochs persistent s hi op
    simp only [obs, Ref.obs]
    rw [h.1, ih _ h.2.2, h.2.1]

end TDV.SDLApi

/-! ### The two readings of "a state taken after the last item" -/
namespace TDV.SDLApi.Ref
open TDV.Node
open TDV.Loader (Obs Op)

/-- The readings agree on `t`: it is not a state taken past the last item of a non-empty epoch before the
end was reported. -/
def Plain (epochs : Nat → List Item) (t : RIt) : Prop :=
  t.stopped = true ∨ (epochs t.e).length = 0 ∨ t.p < (epochs t.e).length

theorem atEnd_plain (epochs : Nat → List Item) (t : RIt) (h : Plain epochs t) :
    atEnd epochs false t = atEnd epochs true t := by
  unfold Plain at h
  rcases h with h | h | h <;> simp [atEnd, h]
  omega

/-- Every state loaded along the history is `Plain`. -/
def PlainLoads (epochs : Nat → List Item) : RSys → List Op → Prop
  | _, [] => True
  | s, op :: ops =>
    (∀ i t, op = .load i → s.toks[i]? = some t → Plain epochs t) ∧
      PlainLoads epochs (step epochs false s op).2 ops

structure PInv (epochs : Nat → List Item) (s : RState) : Prop where
  pend : ∀ t, s.pending = some t → Plain epochs t
  reuse : s.reuse = true → ∃ c, s.cur = some c ∧ Plain epochs c ∧ s.handle ≠ .cur
  nocur : s.cur = none → s.handle ≠ .cur

theorem pinv_init (epochs : Nat → List Item) : PInv epochs RState.init :=
  ⟨by simp [RState.init], by simp [RState.init], by simp [RState.init]⟩

theorem plain_new (epochs : Nat → List Item) (n : Nat) : Plain epochs ⟨n, 0, false⟩ := by
  unfold Plain
  rcases Nat.eq_zero_or_pos (epochs n).length with h | h
  · exact Or.inr (Or.inl h)
  · exact Or.inr (Or.inr h)

theorem iter_readings (epochs : Nat → List Item) (s : RState) (hi : PInv epochs s) :
    iter epochs false s = iter epochs true s := by
  have h1 := hi.pend
  have h2 := hi.reuse
  rcases s with ⟨(_ | c), (_ | t), (_ | _), h, n⟩ <;>
    simp_all [iter, iterPick, resumeOrNew, atEnd_plain]

theorem pinv_iter (epochs : Nat → List Item) (b : Bool) (s : RState) (hi : PInv epochs s) :
    PInv epochs (iter epochs b s) := by
  have h1 := hi.pend
  refine ⟨?_, ?_, ?_⟩
  · rcases s with ⟨(_ | c), (_ | t), (_ | _), h, n⟩ <;>
      simp_all [iter, iterPick, resumeOrNew, newEpoch] <;> split <;> simp_all
  · rcases s with ⟨(_ | c), (_ | t), (_ | _), h, n⟩ <;>
      simp [iter, iterPick, resumeOrNew, newEpoch] <;> split <;> simp
  · simp [iter]

theorem pinv_stateDict (epochs : Nat → List Item) (s : RState) (hi : PInv epochs s) :
    PInv epochs (stateDict s).2 := by
  have h1 := hi.pend
  have h2 := hi.reuse
  have h3 := hi.nocur
  rcases s with ⟨(_ | c), (_ | t), (_ | _), h, n⟩ <;>
    simp_all [stateDict, obtain, newEpoch] <;>
    constructor <;> simp_all [plain_new]

theorem pinv_next (epochs : Nat → List Item) (s : RState) (hi : PInv epochs s) :
    PInv epochs (next epochs s).2 := by
  have h1 := hi.pend
  have h2 := hi.reuse
  have h3 := hi.nocur
  rcases s with ⟨(_ | c), pd, (_ | _), (_ | _ | hd), n⟩ <;>
    simp_all [next] <;>
    constructor <;> simp_all

theorem pinv_load (epochs : Nat → List Item) (s : RState) (t : RIt) (ht : Plain epochs t) :
    PInv epochs (load s t) := by
  refine ⟨by simpa [load] using ht, by simp [load], ?_⟩
  rcases s with ⟨(_ | c), pd, fl, (_ | _ | hd), n⟩ <;> simp [load]

theorem step_readings (epochs : Nat → List Item) (s : RSys) (hi : PInv epochs s.st) (op : Op)
    (hl : ∀ i t, op = .load i → s.toks[i]? = some t → Plain epochs t) :
    step epochs false s op = step epochs true s op ∧ PInv epochs (step epochs false s op).2.st := by
  cases op with
  | iter => exact ⟨by simp [step, iter_readings epochs s.st hi], pinv_iter epochs false s.st hi⟩
  | next => exact ⟨rfl, pinv_next epochs s.st hi⟩
  | stateDict => exact ⟨rfl, pinv_stateDict epochs s.st hi⟩
  | peek => exact ⟨rfl, pinv_stateDict epochs s.st hi⟩
  | load i =>
    refine ⟨rfl, ?_⟩
    simp only [step]
    cases h : s.toks[i]? with
    | none => simpa using hi
    | some t => exact pinv_load epochs s.st t (hl i t rfl h)
  | abandon =>
    refine ⟨rfl, ⟨hi.pend, ?_, by simp [step]⟩⟩
    intro h
    obtain ⟨c, hc, hp, _⟩ := hi.reuse h
    exact ⟨c, hc, hp, by simp [step]⟩
  | fresh => exact ⟨rfl, pinv_init epochs⟩

theorem obs_readings (epochs : Nat → List Item) (ops : List Op) (s : RSys) (hi : PInv epochs s.st)
    (hl : PlainLoads epochs s ops) : obs epochs false s ops = obs epochs true s ops := by
  induction ops generalizing s with
  | nil => rfl
  | cons op ops ih =>
    have h := step_readings epochs s hi op hl.1
    simp only [obs]
    rw [ih _ h.2 hl.2, h.1]

end TDV.SDLApi.Ref

namespace TDV.SDLApi
open TDV.Node
open TDV.Loader (Obs Op)

/-- `state_dict()` before iteration creates the iterator once; the next `iter` reuses it (exactly once); a
load invalidates it. -/
theorem single_start_aux (persistent : Bool) (s : State) (h0 : s.iterator = none) :
    (stateDict s).2.made = s.made + 1 ∧
    (stateDict s).2.iterator = some (stateDict s).1 ∧
    (stateDict s).2.g = (if s.pending = none then s.g + 1 else s.g) ∧
    ((stateDict s).1.fin = false →
      (iter persistent (stateDict s).2).1 = .ok ∧
      (iter persistent (stateDict s).2).2.made = (stateDict s).2.made ∧
      (iter persistent (stateDict s).2).2.g = (stateDict s).2.g ∧
      (iter persistent (stateDict s).2).2.iterator = some (stateDict s).1 ∧
      (iter persistent (stateDict s).2).2.handle = .shared ∧
      (iter persistent (iter persistent (stateDict s).2).2).2.g = (stateDict s).2.g + 1 ∧
      (iter persistent (iter persistent (stateDict s).2).2).2.iterator = some ⟨(stateDict s).2.g, 0, false⟩) ∧
    (∀ t, (load (stateDict s).2 t).iterator = none ∧ (load (stateDict s).2 t).initForSd = false ∧
      (t.fin = false → (iter persistent (load (stateDict s).2 t)).2.iterator = some t ∧
        (iter persistent (load (stateDict s).2 t)).2.g = (stateDict s).2.g)) := by
  rcases s with ⟨(_ | it), (_ | ⟨pe, pp, pf⟩), fl, h, g, m⟩ <;> cases persistent <;>
    simp_all [stateDict, getIterator, iter, iterFirst, iterSecond, resetIt, load]

end TDV.SDLApi
