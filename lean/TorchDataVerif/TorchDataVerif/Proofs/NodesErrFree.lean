import TorchDataVerif.Proofs.NodesBuf2
/-! Sufficient conditions for `ErrFree` (the side condition of the `_partial` theorems of C02). -/
namespace TDV.Node

theorem listSource_errFree (l : List Item) : ErrFree (listSource l) := by
  intro r hr e h
  have inv := listSource_reach l r hr
  have h' : (listNext (r.st : ListSt)).1 = .error e := h
  cases hrem : (r.st : ListSt).rem with
  | nil => simp [listNext, inv.1, hrem] at h'
  | cons x xs => simp [listNext, inv.1, hrem] at h'

theorem samplerNode_errFree (idx : Nat → List Item) (upd : Nat → Nat) (e0 : Nat) :
    ErrFree (samplerNode idx upd e0) := by
  intro r hr e h
  have inv := samplerNode_reach idx upd e0 r hr
  have sp := (sampNext_spec idx (r.st : SampSt) r.nexted inv).2.2.1
  have h' : (sampNext (r.st : SampSt)).1 = .error e := h
  rw [sp] at h'
  cases hrem : (r.st : SampSt).rem <;> rw [hrem] at h' <;> cases h'

/-- Every item a node returns on reachable states satisfies `P`. -/
def ItemsSat (n : Node) (P : Item → Prop) : Prop := ∀ r, n.Reach r → ∀ v, (n.rnext r).1 = .item v → P v

theorem mapper_errFree (f : Item → Option Item) {src : Node} (he : ErrFree src)
    (hf : ItemsSat src (fun v => (f v).isSome = true)) : ErrFree (mapper f src) := by
  intro R hR e h
  have hr := mapper_reach f src R hR
  have h' : (mapNext src f (R.st : Run src)).1 = .error e := h
  rcases hx : src.rnext (R.st : Run src) with ⟨o, r'⟩
  cases o with
  | item v =>
    have hv : (f v).isSome = true := hf _ hr v (by rw [hx])
    simp only [mapNext, hx] at h'
    cases hfv : f v with
    | some w => rw [hfv] at h'; cases h'
    | none => rw [hfv] at hv; cases hv
  | stop => simp only [mapNext, hx] at h'; cases h'
  | error e' => exact he _ hr e' (by rw [hx])

theorem mapper_itemsSat (f : Item → Option Item) {src : Node} (P Q : Item → Prop)
    (hP : ItemsSat src P) (hf : ∀ v w, P v → f v = some w → Q w) : ItemsSat (mapper f src) Q := by
  intro R hR w h
  have hr := mapper_reach f src R hR
  have h' : (mapNext src f (R.st : Run src)).1 = .item w := h
  rcases hx : src.rnext (R.st : Run src) with ⟨o, r'⟩
  cases o with
  | item v =>
    have hv := hP _ hr v (by rw [hx])
    simp only [mapNext, hx] at h'
    cases hfv : f v with
    | some w' => rw [hfv] at h'; cases h'; exact hf v _ hv hfv
    | none => rw [hfv] at h'; cases h'
  | stop => simp only [mapNext, hx] at h'; cases h'
  | error e' => simp only [mapNext, hx] at h'; cases h'

theorem collect_err_post (src : Node) (k : Nat) : ∀ r, src.Reach r → ∀ e, (collect src k r).1.2 = .err e →
    ∃ r0, src.Reach r0 ∧ (src.rnext r0).1 = .error e := by
  induction k with
  | zero => intro r _ e h; simp [collect] at h
  | succ k ih =>
    intro r hr e h
    have hr' := Node.Reach.next hr
    rcases hx : src.rnext r with ⟨o, r'⟩
    rw [hx] at hr'
    cases o with
    | item v =>
      have e1 : collect src (k + 1) r = ((v :: (collect src k r').1.1, (collect src k r').1.2), (collect src k r').2) := by
        simp only [collect, hx]
      rw [e1] at h
      exact ih r' hr' e h
    | stop =>
      have e1 : collect src (k + 1) r = (([], .stop), r') := by simp only [collect, hx]
      rw [e1] at h; cases h
    | error e' =>
      have e1 : collect src (k + 1) r = (([], .err e'), r') := by simp only [collect, hx]
      rw [e1] at h
      cases h
      exact ⟨r, hr, by rw [hx]⟩

theorem batcher_errFree (bs : Nat) (dl : Bool) {src : Node} (he : ErrFree src) : ErrFree (batcher bs dl src) := by
  intro R hR e h
  have hr := batcher_reach bs dl src R hR
  have h' : batchOut dl (collect src bs (R.st : Run src)).1 = .error e := h
  rcases hc : (collect src bs (R.st : Run src)).1 with ⟨b, c⟩
  rw [hc] at h'
  cases c with
  | full => simp [batchOut] at h'
  | stop => simp only [batchOut] at h'; split at h' <;> cases h'
  | err e' =>
    obtain ⟨r0, hr0, ho⟩ := collect_err_post src bs _ hr e' (by rw [hc])
    exact he r0 hr0 e' ho

theorem collect_full_length (src : Node) (k : Nat) : ∀ r, (collect src k r).1.2 = .full →
    (collect src k r).1.1.length = k := by
  induction k with
  | zero => intro r _; rfl
  | succ k ih =>
    intro r h
    rcases hx : src.rnext r with ⟨o, r'⟩
    cases o with
    | item v =>
      have e1 : collect src (k + 1) r = ((v :: (collect src k r').1.1, (collect src k r').1.2), (collect src k r').2) := by
        simp only [collect, hx]
      rw [e1] at h ⊢
      simp only [List.length_cons]
      rw [ih r' h]
    | stop =>
      have e1 : collect src (k + 1) r = (([], .stop), r') := by simp only [collect, hx]
      rw [e1] at h; cases h
    | error e' =>
      have e1 : collect src (k + 1) r = (([], .err e'), r') := by simp only [collect, hx]
      rw [e1] at h; cases h

/-- A non-empty list item. -/
def IsNeList (v : Item) : Prop := ∃ x xs, v = .list (x :: xs)

theorem batcher_itemsSat (bs : Nat) (dl : Bool) (hbs : 1 ≤ bs) (src : Node) : ItemsSat (batcher bs dl src) IsNeList := by
  intro R _ v h
  have h' : batchOut dl (collect src bs (R.st : Run src)).1 = .item v := h
  have hl := collect_full_length src bs (R.st : Run src)
  rcases hc : (collect src bs (R.st : Run src)).1 with ⟨b, c⟩
  rw [hc] at h' hl
  cases c with
  | full =>
    simp only [batchOut] at h'
    cases h'
    have := hl rfl
    simp only at this
    cases b with
    | nil => simp at this; omega
    | cons x xs => exact ⟨x, xs, rfl⟩
  | stop =>
    simp only [batchOut] at h'
    split at h'
    · cases h'
    · cases h'
      cases b with
      | nil => simp_all
      | cons x xs => exact ⟨x, xs, rfl⟩
  | err e => simp [batchOut] at h'

theorem buffered_errFree (sf : Nat) {src : Node} {Rs : Run src → Run src → Prop} (g : Good src Rs) (he : ErrFree src) :
    ErrFree (buffered sf src) := by
  intro R hR e h
  exact (binv_next g he sf _ (buffered_binv g he sf R hR)).2.2.2 e h

/-! ### unbatcher over non-empty list batches -/

def UL (src : Node) (x : UnbSt src) : Prop := x.bad = false ∧ UnbInv src x ∧ ∃ xs, x.batch = .list xs

theorem UL.pend {src : Node} {x : UnbSt src} (h : UL src x) : ∃ p, pend x = some p := by
  obtain ⟨_, _, xs, hb⟩ := h
  exact ⟨xs.drop x.idx, (pend_some_iff x _).mpr ⟨xs, hb, rfl⟩⟩

theorem unbLoop_UL {src : Node} (hl : ItemsSat src IsNeList) (k : Nat) :
    ∀ x : UnbSt src, UL src x → UL src (unbLoop src k x).2 := by
  induction k with
  | zero => intro x h; exact h
  | succ k ih =>
    intro x h
    obtain ⟨p, hp⟩ := h.pend
    obtain ⟨hb, hi, xs, hxs⟩ := h
    cases p with
    | cons v p => rw [(unbLoop_yield k x v p hp).1]; exact ⟨hb, hi, xs, hxs⟩
    | nil =>
      have hrg : src.Reach (src.rget x.inner).2 := Node.Reach.get hi.1
      have hn := Node.Reach.next hrg
      have hleg : Legit src (src.rget x.inner).1 := ⟨x.inner, hi.1, rfl⟩
      rcases hx : src.rnext (src.rget x.inner).2 with ⟨o, r2⟩
      rw [hx] at hn
      cases o with
      | item v =>
        obtain ⟨y, ys, hv⟩ := hl _ hrg v (by rw [hx])
        rw [unbLoop_pull_item k x hp v r2 hx]
        apply ih
        rw [pull_item x v r2 hx]
        exact ⟨hb, ⟨hn, fun c hc => by cases hc; exact hleg⟩, y :: ys, hv⟩
      | stop =>
        rw [unbLoop_pull_stop k x hp r2 hx, pull_other x _ r2 hx (fun _ h => by cases h)]
        exact ⟨hb, ⟨hn, fun c hc => by cases hc; exact hleg⟩, xs, hxs⟩
      | error e =>
        rw [unbLoop_pull_err k x hp e r2 hx, pull_other x _ r2 hx (fun _ h => by cases h)]
        exact ⟨hb, ⟨hn, fun c hc => by cases hc; exact hleg⟩, xs, hxs⟩

theorem unbLoop_noerr {src : Node} (he : ErrFree src) (hl : ItemsSat src IsNeList) (k : Nat) (x : UnbSt src)
    (h : UL src x) : ∀ e, (unbLoop src (k + 2) x).1 ≠ .error e := by
  intro e
  obtain ⟨p, hp⟩ := h.pend
  obtain ⟨hb, hi, xs, hxs⟩ := h
  cases p with
  | cons v p => rw [(unbLoop_yield (k + 1) x v p hp).1]; intro h; cases h
  | nil =>
    have hrg : src.Reach (src.rget x.inner).2 := Node.Reach.get hi.1
    rcases hx : src.rnext (src.rget x.inner).2 with ⟨o, r2⟩
    cases o with
    | item v =>
      obtain ⟨y, ys, hv⟩ := hl _ hrg v (by rw [hx])
      rw [unbLoop_pull_item (k + 1) x hp v r2 hx]
      have hp2 : pend (pull src x) = some (y :: ys) := by
        rw [pull_item x v r2 hx, hv]; rfl
      rw [(unbLoop_yield k _ y ys hp2).1]
      intro h; cases h
    | stop => rw [unbLoop_pull_stop (k + 1) x hp r2 hx]; intro h; cases h
    | error e' => exact absurd (by rw [hx]) (he _ hrg e')

theorem uload_UL {src : Node} (he : ErrFree src) (hl : ItemsSat src IsNeList) (r : Run src) (hv : V src r)
    (c : src.S) (hc : Legit src c) (i : Nat) : UL src (uload src r (c, i)) := by
  have hreach := V.reset c hc hv
  have hn := Node.Reach.next hreach
  rcases uload_cases r c i with ⟨v, a2, hx, ex⟩ | ⟨a2, hx, ex⟩ | ⟨e, a2, hx⟩
  · obtain ⟨y, ys, hvv⟩ := hl _ hreach v (by rw [hx])
    rw [hx] at hn
    rw [ex]
    exact ⟨rfl, ⟨hn, fun c' hc' => by cases hc'; exact hc⟩, y :: ys, hvv⟩
  · rw [hx] at hn
    rw [ex]
    exact ⟨rfl, ⟨hn, fun c' hc' => by cases hc'; exact hc⟩, [], rfl⟩
  · exact absurd (by rw [hx]) (he _ hreach e)

theorem unbGet_bad_batch {src : Node} (x : UnbSt src) :
    (unbGet src x).2.bad = x.bad ∧ (unbGet src x).2.batch = x.batch := by
  cases hc : x.cached with
  | some c =>
    have e : (unbGet src x).2 = x := by simp only [unbGet, hc]
    rw [e]; exact ⟨rfl, rfl⟩
  | none =>
    have e : (unbGet src x).2 = { x with inner := (src.rget x.inner).2, cached := some (src.rget x.inner).1 } := by
      simp only [unbGet, hc]
    rw [e]; exact ⟨rfl, rfl⟩

theorem unbatcher_UL {src : Node} (he : ErrFree src) (hl : ItemsSat src IsNeList) (fuel : Nat)
    (R : Run (unbatcher fuel src)) (h : (unbatcher fuel src).Reach R) : UL src (R.st : UnbSt src) := by
  induction h with
  | initNone => exact ⟨rfl, unbReset_inv src _ (Or.inr rfl) none (fun _ _ h => by cases h), [], rfl⟩
  | @initSome r' _ ih =>
    have hleg := (unbGet_inv src (r'.st : UnbSt src) ih.2.1).2
    have e : ((unbatcher fuel src).rreset (unbatcher fuel src).rfresh (some ((unbatcher fuel src).rget r').1)).st =
        uload src src.rfresh (unbGet src (r'.st : UnbSt src)).1 := unbReset_some _ _
    rw [e]
    generalize (unbGet src (r'.st : UnbSt src)).1 = t at hleg
    obtain ⟨c, i⟩ := t
    exact uload_UL he hl _ (Or.inr rfl) c hleg i
  | @next r _ ih =>
    rw [unb_rnext_ok fuel r ih.1]
    exact unbLoop_UL hl fuel _ ih
  | @get r _ ih =>
    have hg := (unbGet_inv src (r.st : UnbSt src) ih.2.1).1
    obtain ⟨hb, _, xs, hxs⟩ := ih
    have k := unbGet_bad_batch (r.st : UnbSt src)
    exact ⟨k.1.trans hb, hg, xs, k.2.trans hxs⟩
  | @resetNone r _ ih => exact ⟨rfl, unbReset_inv src _ (Or.inl ih.2.1.1) none (fun _ _ h => by cases h), [], rfl⟩
  | @resetSome r r' _ _ ih1 ih2 =>
    have hleg := (unbGet_inv src (r'.st : UnbSt src) ih2.2.1).2
    have e : ((unbatcher fuel src).rreset r (some ((unbatcher fuel src).rget r').1)).st =
        uload src (r.st : UnbSt src).inner (unbGet src (r'.st : UnbSt src)).1 := unbReset_some _ _
    rw [e]
    generalize (unbGet src (r'.st : UnbSt src)).1 = t at hleg
    obtain ⟨c, i⟩ := t
    exact uload_UL he hl _ (Or.inl ih1.2.1.1) c hleg i

/-- `Unbatcher` over non-empty sequence batches from a source that never raises never raises (2 units of
loop fuel suffice: one pull, one yield). -/
theorem unbatcher_errFree {src : Node} (he : ErrFree src) (hl : ItemsSat src IsNeList) (fuel : Nat) (hf : 2 ≤ fuel) :
    ErrFree (unbatcher fuel src) := by
  intro R hR e
  have ul := unbatcher_UL he hl fuel R hR
  obtain ⟨k, rfl⟩ : ∃ k, fuel = k + 2 := ⟨fuel - 2, by omega⟩
  rw [unb_rnext_ok (k + 2) R ul.1]
  exact unbLoop_noerr he hl k _ ul e

end TDV.Node
