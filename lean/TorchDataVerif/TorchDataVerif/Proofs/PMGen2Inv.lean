import TorchDataVerif.Proofs.PMGen2Step
/-! `Gen2`: each `g2step` is a `gstep` (or a stutter) of the coarse layer; the invariant behind `single_driver_partial`. -/
namespace TDV.PM
variable {c : Cfg} {x y : G2State}

/-! ### what each `g2step` does -/

theorem g2_cur {a : Action} (h : g2step c x (.cur a) = some y) :
    x.ph ≠ .reset ∧ (a = .rInit → x.rinit = true) ∧ ∃ s1, step c x.g.cur a = some s1 ∧
      y = { g := { x.g with cur := s1 }, ph := x.ph, rinit := if a = .rInit then false else x.rinit } := by
  simp only [g2step, gstep] at h
  split at h
  · simp at h
  · rename_i hph
    split at h
    · simp at h
    · rename_i hri
      cases hst : step c x.g.cur a with
      | none => simp [hst] at h
      | some s1 =>
        simp only [hst, Option.some.injEq] at h
        refine ⟨hph, ?_, s1, rfl, h.symm⟩
        intro e
        cases hr : x.rinit with
        | true => rfl
        | false => exact absurd ⟨e, hr⟩ hri

theorem g2_old {i : Nat} {a : Action} (h : g2step c x (.old i a) = some y) :
    a.isBackground = true ∧ ∃ s0 s1, x.g.old[i]? = some s0 ∧ step c s0 a = some s1 ∧
      y = { x with g := { x.g with old := x.g.old.set i s1 } } := by
  simp only [g2step, gstep] at h
  by_cases hb : a.isBackground = true
  · simp only [hb, if_true] at h
    cases hi : x.g.old[i]? with
    | none => simp [hi] at h
    | some s0 =>
      simp only [hi] at h
      cases hst : step c s0 a with
      | none => simp [hst] at h
      | some s1 =>
        simp [hst] at h
        exact ⟨hb, s0, s1, rfl, hst, h.symm⟩
  · simp [hb] at h

theorem g2_rInitEnter (h : g2step c x .rInitEnter = some y) :
    x.ph ≠ .reset ∧ x.g.cur.rpc = .init ∧ x.rinit = false ∧ y = { x with rinit := true } := by
  simp only [g2step] at h
  split at h
  · rename_i hg
    simp at h
    exact ⟨hg.1, hg.2.1, hg.2.2, h.symm⟩
  · simp at h

theorem g2_joinOk {t : Thr} (h : g2step c x (.joinOk t) = some y) :
    ∃ ph', joinTarget x.g.cur x.ph = some (t, false, ph') ∧ x.g.cur.cpc = .closed ∧ y = { x with ph := ph' } := by
  simp only [g2step, gstep] at h
  cases hj : joinTarget x.g.cur x.ph with
  | none => simp [hj] at h
  | some p =>
    obtain ⟨t', alive, ph'⟩ := p
    simp only [hj] at h
    split at h
    · rename_i hg
      obtain ⟨rfl, rfl⟩ := hg
      by_cases hc : x.g.cur.cpc = .closed
      · simp [hc] at h
        exact ⟨ph', rfl, hc, h.symm⟩
      · simp [hc] at h
    · simp at h

theorem g2_joinGiveUp {t : Thr} (h : g2step c x (.joinGiveUp t) = some y) :
    ∃ ph', joinTarget x.g.cur x.ph = some (t, true, ph') ∧ x.g.cur.cpc = .closed ∧
      y = { x with g := { x.g with joinsGivenUp := x.g.joinsGivenUp + 1 }, ph := ph' } := by
  simp only [g2step, gstep] at h
  cases hj : joinTarget x.g.cur x.ph with
  | none => simp [hj] at h
  | some p =>
    obtain ⟨t', alive, ph'⟩ := p
    simp only [hj] at h
    split at h
    · rename_i hg
      obtain ⟨rfl, rfl⟩ := hg
      by_cases hc : x.g.cur.cpc = .closed ∧ 0 < threadsLive x.g.cur
      · simp [hc] at h
        exact ⟨ph', rfl, hc.1, h.symm⟩
      · simp [hc] at h
    · simp at h

theorem g2_ctorEnter (h : g2step c x .ctorEnter = some y) :
    ∃ k, x.ph = .joinW k ∧ x.g.cur.wk[k]? = none ∧ x.g.cur.cpc = .closed ∧
      y = { g := { x.g with cur := init c, old := x.g.cur :: x.g.old }, ph := .reset, rinit := false } := by
  simp only [g2step, gstep] at h
  split at h
  · rename_i k hph
    split at h
    · rename_i hk
      by_cases hc : x.g.cur.cpc = .closed
      · simp [hc] at h
        exact ⟨k, hph, hk, hc, h.symm⟩
      · simp [hc] at h
    · simp at h
  · simp at h

theorem g2_ctorLeave (h : g2step c x .ctorLeave = some y) : x.ph = .reset ∧ y = { x with ph := .run } := by
  simp only [g2step] at h
  split at h
  · rename_i hg
    simp at h
    exact ⟨hg, h.symm⟩
  · simp at h

/-! ### refinement: a `g2step` is a `gstep` of the coarse layer, or leaves it unchanged -/

theorem g2_refines {a : G2Action} (h : g2step c x a = some y) :
    match a.proj with
    | some ga => gstep c x.g ga = some y.g
    | none => y.g = x.g := by
  cases a <;> simp only [G2Action.proj]
  case cur a =>
    obtain ⟨_, _, s1, hs, rfl⟩ := g2_cur h
    simp [gstep, hs]
  case old i a =>
    obtain ⟨hb, s0, s1, hi, hs, rfl⟩ := g2_old h
    simp [gstep, hb, hi, hs]
  case rInitEnter => obtain ⟨_, _, _, rfl⟩ := g2_rInitEnter h; rfl
  case joinOk t => obtain ⟨ph', _, hc, rfl⟩ := g2_joinOk h; simp [gstep, hc]
  case joinGiveUp t =>
    simp only [g2step] at h
    cases hj : joinTarget x.g.cur x.ph with
    | none => simp [hj] at h
    | some p =>
      obtain ⟨t', alive, ph'⟩ := p
      simp only [hj] at h
      split at h
      · cases hg : gstep c x.g .joinGiveUp with
        | none => simp [hg] at h
        | some g' => simp [hg] at h; subst h; rfl
      · simp at h
  case ctorEnter => obtain ⟨k, _, _, hc, rfl⟩ := g2_ctorEnter h; simp [gstep, hc]
  case ctorLeave => obtain ⟨_, rfl⟩ := g2_ctorLeave h; rfl

theorem g2_ginv {a : G2Action} (hi : GInv c x.g) (h : g2step c x a = some y) : GInv c y.g := by
  have hr := g2_refines h
  cases hp : a.proj with
  | none => simp only [hp] at hr; rw [hr]; exact hi
  | some ga => simp only [hp] at hr; exact ginv_step hi hr

end TDV.PM
