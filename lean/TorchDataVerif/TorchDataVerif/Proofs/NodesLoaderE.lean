import TorchDataVerif.Proofs.NodesLoaderD
/-!
# Part E — the items `Unbatcher` returns are elements of batches its source returned
-/
namespace TDV.E2EN
open TDV.Node TDV.Loader

/-- The batch in hand is the initial empty one or an item the source returned. -/
def BOk {src : Node} (P : Item → Prop) (st : UnbSt src) : Prop := st.batch = .list [] ∨ P st.batch

/-- An element of a sequence item satisfying `P`. -/
def ElemOf (P : Item → Prop) (v : Item) : Prop := ∃ xs, P (.list xs) ∧ v ∈ xs

theorem unbLoop_bok {src : Node} {P : Item → Prop} (hP : ItemsSat src P) (k : Nat) :
    ∀ st : UnbSt src, UnbInv src st → BOk P st →
      BOk P (unbLoop src k st).2 ∧ ∀ v, (unbLoop src k st).1 = .item v → ElemOf P v := by
  induction k with
  | zero => intro st _ hb; exact ⟨hb, fun v h => by simp [unbLoop] at h⟩
  | succ k ih =>
    intro st h hbk
    cases hb : st.batch with
    | list xs =>
      cases hi : xs[st.idx]? with
      | some v =>
        have e : unbLoop src (k + 1) st = (.item v, { st with idx := st.idx + 1 }) := by
          simp only [unbLoop, hb, hi]
        rw [e]
        refine ⟨hbk, ?_⟩
        intro w hw
        cases hw
        have hm : v ∈ xs := List.mem_of_getElem? hi
        rcases hbk with h0 | hp
        · rw [hb] at h0
          cases h0
          cases hm
        · rw [hb] at hp
          exact ⟨xs, hp, hm⟩
      | none =>
        have hrg := Node.Reach.get h.1
        have hn := Node.Reach.next hrg
        rcases hx : src.rnext (src.rget st.inner).2 with ⟨o, r2⟩
        rw [hx] at hn
        have hl : Legit src (src.rget st.inner).1 := ⟨st.inner, h.1, rfl⟩
        cases o with
        | item v =>
          have e : unbLoop src (k + 1) st = unbLoop src k
              { st with inner := r2, batch := v, idx := 0, cached := some (src.rget st.inner).1 } := by
            simp only [unbLoop, hb, hi, hx]
          rw [e]
          exact ih _ ⟨hn, fun c hc => by cases hc; exact hl⟩ (Or.inr (hP _ hrg v (by rw [hx])))
        | stop =>
          have e : unbLoop src (k + 1) st =
              (.stop, { st with inner := r2, cached := some (src.rget st.inner).1 }) := by
            simp only [unbLoop, hb, hi, hx]
          rw [e]
          exact ⟨hbk, fun v h => by cases h⟩
        | error e' =>
          have e : unbLoop src (k + 1) st =
              (.error e', { st with inner := r2, cached := some (src.rget st.inner).1 }) := by
            simp only [unbLoop, hb, hi, hx]
          rw [e]
          exact ⟨hbk, fun v h => by cases h⟩
    | atom n =>
      have e : unbLoop src (k + 1) st = (.error errType, st) := by simp only [unbLoop, hb]
      rw [e]; exact ⟨hbk, fun v h => by cases h⟩
    | none =>
      have e : unbLoop src (k + 1) st = (.error errType, st) := by simp only [unbLoop, hb]
      rw [e]; exact ⟨hbk, fun v h => by cases h⟩

theorem unbNext_bok {src : Node} {P : Item → Prop} (hP : ItemsSat src P) (fuel : Nat) (st : UnbSt src)
    (h : UnbInv src st) (hb : BOk P st) :
    BOk P (unbNext src fuel st).2 ∧ ∀ v, (unbNext src fuel st).1 = .item v → ElemOf P v := by
  unfold unbNext
  split
  · exact ⟨hb, fun v h => by cases h⟩
  · exact unbLoop_bok hP fuel st h hb

theorem unbReset_bok {src : Node} {P : Item → Prop} (hP : ItemsSat src P) (st : UnbSt src) (h : V src st.inner)
    (x : Option (src.S × Nat)) (hx : ∀ c i, x = some (c, i) → Legit src c) : BOk P (unbReset src st x) := by
  cases x with
  | none => exact Or.inl rfl
  | some ci =>
    obtain ⟨c, i⟩ := ci
    obtain ⟨u, hu, rfl⟩ := hx c i rfl
    have hr : src.Reach (src.rreset st.inner (some (src.rget u).1)) := by
      rcases h with h | h
      · exact Node.Reach.resetSome h hu
      · rw [h]; exact Node.Reach.initSome hu
    rcases hx : src.rnext (src.rreset st.inner (some (src.rget u).1)) with ⟨o, r2⟩
    cases o with
    | item v =>
      simp only [unbReset, hx]
      exact Or.inr (hP _ hr v (by rw [hx]))
    | stop => simp only [unbReset, hx]; exact Or.inl rfl
    | error e => simp only [unbReset, hx]; exact Or.inl rfl

theorem unbatcher_bok {src : Node} {P : Item → Prop} (hP : ItemsSat src P) (fuel : Nat)
    (R : Run (unbatcher fuel src)) (h : (unbatcher fuel src).Reach R) : BOk P (R.st : UnbSt src) := by
  induction h with
  | initNone => exact Or.inl rfl
  | @initSome r' hr' _ =>
    refine unbReset_bok hP _ (Or.inr rfl) _ ?_
    intro c i hci
    have := (unbGet_inv src (r'.st : UnbSt src) (unbatcher_reach fuel src r' hr')).2
    have e : ((unbatcher fuel src).rget r').1 = (unbGet src (r'.st : UnbSt src)).1 := rfl
    rw [e] at hci
    have h2 := Option.some.inj hci
    have hc : c = (unbGet src (r'.st : UnbSt src)).1.1 := by rw [h2]
    rw [hc]
    exact this
  | @next r hr ih => exact (unbNext_bok hP fuel (r.st : UnbSt src) (unbatcher_reach fuel src r hr) ih).1
  | @get r _ ih =>
    have k := (unbGet_bad_batch (r.st : UnbSt src)).2
    show BOk P (unbGet src (r.st : UnbSt src)).2
    unfold BOk
    rw [k]
    exact ih
  | @resetNone r _ _ => exact Or.inl rfl
  | @resetSome r r' hr hr' _ _ =>
    refine unbReset_bok hP _ (Or.inl (unbatcher_reach fuel src r hr).1) _ ?_
    intro c i hci
    have := (unbGet_inv src (r'.st : UnbSt src) (unbatcher_reach fuel src r' hr')).2
    have e : ((unbatcher fuel src).rget r').1 = (unbGet src (r'.st : UnbSt src)).1 := rfl
    rw [e] at hci
    have h2 := Option.some.inj hci
    have hc : c = (unbGet src (r'.st : UnbSt src)).1.1 := by rw [h2]
    rw [hc]
    exact this

theorem unbatcher_itemsSat {src : Node} {P : Item → Prop} (hP : ItemsSat src P) (fuel : Nat) :
    ItemsSat (unbatcher fuel src) (ElemOf P) := by
  intro R hR v h
  exact (unbNext_bok hP fuel (R.st : UnbSt src) (unbatcher_reach fuel src R hR) (unbatcher_bok hP fuel R hR)).2 v h

end TDV.E2EN
