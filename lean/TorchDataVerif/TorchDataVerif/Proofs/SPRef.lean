import TorchDataVerif.Proofs.SPInst
/-! Reference-level lemmas (what `refIterAuto`/`refIterOne` are on lawful and on dying outcome sequences),
outcome sequences of lawful datasets and of a generator that raises, loader-level resume for map-style. -/
namespace TDV.SP
open TDV.Sampler

section reflemmas
variable (c : Cfg)

theorem collate_ok (hcf : ∀ v, c.collateFail v = false) (l : List Nat) : collate c l = .batch l := by
  have : l.any c.collateFail = false := by simp [hcf]
  simp [collate, this]

theorem collate1_ok (hcf : ∀ v, c.collateFail v = false) (v : Nat) : collate1 c v = .single v := by
  simp [collate1, hcf]

/-- Lawful outcome sequence, auto-collation: the reference is torch's chunking of the items. -/
theorem refIterAuto_items (hcf : ∀ v, c.collateFail v = false) (bs : Nat) (hbs : 0 < bs) :
    ∀ (xs acc : List Nat), acc.length < bs →
      refIterAuto c bs (xs.map .item ++ [.stop]) acc =
        (chunkRef bs c.dropLast (acc ++ xs)).map .batch ++ [.stop]
  | [], acc, h => by
    simp only [List.map_nil, List.nil_append, refIterAuto, List.append_nil]
    rw [chunkRef_lt _ _ _ h]
    cases hd : c.dropLast <;> cases he : acc.isEmpty <;> simp [collate_ok c hcf]
  | v :: xs, acc, h => by
    simp only [List.map_cons, List.cons_append, refIterAuto]
    by_cases hb : acc.length + 1 = bs
    · simp only [hb, if_true]
      have hge : bs ≤ (acc ++ v :: xs).length := by simp; omega
      rw [chunkRef_ge _ _ _ hbs hge, refIterAuto_items hcf bs hbs xs [] hbs, collate_ok c hcf]
      have ht : (acc ++ v :: xs).take bs = acc ++ [v] := by
        rw [← hb, List.take_length_add_append]; simp
      have hdr : (acc ++ v :: xs).drop bs = xs := by
        rw [← hb, List.drop_length_add_append]; simp
      rw [ht, hdr]
      simp
    · simp only [hb, if_false]
      rw [refIterAuto_items hcf bs hbs xs (acc ++ [v]) (by simp; omega)]
      simp

theorem refIterOne_items (hcf : ∀ v, c.collateFail v = false) : ∀ (xs : List Nat),
    refIterOne c (xs.map .item ++ [.stop]) = xs.map .single ++ [.stop]
  | [] => rfl
  | v :: xs => by
    simp only [List.map_cons, List.cons_append, refIterOne, collate1_ok c hcf]
    rw [refIterOne_items hcf xs]

/-- Outcome sequence of a generator that raises after the items `xs` (a Python generator is finished once an
exception has left it): the complete batches of `xs`, the error in place of the batch being collected —
whose already collected items are lost —, then the end of the epoch. -/
theorem refIterAuto_dies (hcf : ∀ v, c.collateFail v = false) (bs : Nat) (hbs : 0 < bs) :
    ∀ (xs acc : List Nat), acc.length < bs →
      refIterAuto c bs (xs.map .item ++ [.err, .stop]) acc =
        (chunkRef bs true (acc ++ xs)).map .batch ++ [.error 0, .stop]
  | [], acc, h => by
    simp only [List.map_nil, List.nil_append, refIterAuto, List.append_nil]
    rw [chunkRef_lt _ _ _ h]
    simp
  | v :: xs, acc, h => by
    simp only [List.map_cons, List.cons_append, refIterAuto]
    by_cases hb : acc.length + 1 = bs
    · simp only [hb, if_true]
      have hge : bs ≤ (acc ++ v :: xs).length := by simp; omega
      rw [chunkRef_ge _ _ _ hbs hge, refIterAuto_dies hcf bs hbs xs [] hbs, collate_ok c hcf]
      have ht : (acc ++ v :: xs).take bs = acc ++ [v] := by
        rw [← hb, List.take_length_add_append]; simp
      have hdr : (acc ++ v :: xs).drop bs = xs := by
        rw [← hb, List.drop_length_add_append]; simp
      rw [ht, hdr]
      simp
    · simp only [hb, if_false]
      rw [refIterAuto_dies hcf bs hbs xs (acc ++ [v]) (by simp; omega)]
      simp

theorem refIterOne_dies (hcf : ∀ v, c.collateFail v = false) : ∀ (xs : List Nat),
    refIterOne c (xs.map .item ++ [.err, .stop]) = xs.map .single ++ [.error 0, .stop]
  | [] => rfl
  | v :: xs => by
    simp only [List.map_cons, List.cons_append, refIterOne, collate1_ok c hcf]
    rw [refIterOne_dies hcf xs]

end reflemmas

/-! ### Outcome sequences -/
section druns
variable {D Ds Dt : Type} (Da : Data D Ds Dt) {items : List Nat} (L : IterLaw Da items)

/-- A lawful dataset at position `j` yields the remaining items, stops, and is then between epochs. -/
theorem drun_of_pos : ∀ (m : Nat) (d : D) (j : Nat), items.length - j ≤ m → j ≤ items.length → L.Pos d j →
    ∃ dF, DRun Da.next d ((items.drop j).map .item ++ [.stop]) dF ∧ L.Good dF
  | m, d, j, hm, hj, h => by
    by_cases hlt : j < items.length
    · obtain ⟨h1, h2⟩ := L.step d j hlt h
      cases m with
      | zero => omega
      | succ m =>
        obtain ⟨dF, ih, hg⟩ := drun_of_pos m (Da.next d).2 (j + 1) (by omega) (by omega) h2
        refine ⟨dF, ?_, hg⟩
        rw [List.drop_eq_getElem_cons hlt]
        simp only [List.map_cons, List.cons_append, DRun]
        exact ⟨h1, ih⟩
    · have hje : j = items.length := by omega
      subst hje
      obtain ⟨h1, h2⟩ := L.stop d h
      refine ⟨(Da.next d).2, ?_, h2⟩
      simp [DRun, h1]

end druns

/-- A plain generator dataset whose first failing item is `p`: items `i … p-1`, the exception, and — the
generator being dead — `StopIteration`. -/
theorem plainGen_dies (n p : Nat) (fail : Nat → Bool) (hp : p < n) (hf : fail p = true) :
    ∀ (m i : Nat) (fr : Frame), p - i ≤ m → i ≤ p → fr ≠ .dead → (∀ k, i ≤ k → k < p → fail k = false) →
      DRun (plainGen n fail).next (fr, i) (((List.range p).drop i).map .item ++ [.err, .stop]) (.dead, p)
  | m, i, fr, hm, hi, hfr, hok => by
    by_cases hlt : i < p
    · cases m with
      | zero => omega
      | succ m =>
        have ih := plainGen_dies n p fail hp hf m (i + 1) .running (by omega) (by omega) (by simp)
          (fun k h1 h2 => hok k (by omega) h2)
        have hd : (List.range p).drop i = i :: (List.range p).drop (i + 1) := by
          rw [List.drop_eq_getElem_cons (by simpa using hlt)]; simp
        rw [hd]
        have hnx : (plainGen n fail).next (fr, i) = (.item i, (.running, i + 1)) := by
          cases fr <;> simp_all [plainGen, hok i (Nat.le_refl _) hlt, (by omega : i < n)]
        simp only [List.map_cons, List.cons_append, DRun, hnx]
        exact ⟨trivial, ih⟩
    · have hip : i = p := by omega
      subst hip
      have hd : (List.range i).drop i = [] := List.drop_eq_nil_of_le (by simp)
      rw [hd]
      have hnx : (plainGen n fail).next (fr, i) = (.err, (.dead, i)) := by
        cases fr <;> simp_all [plainGen]
      have hnx2 : (plainGen n fail).next (.dead, i) = (.stop, (.dead, i)) := by simp [plainGen]
      simp [DRun, hnx, hnx2]

/-! ### Loader level, map-style -/
section loader
variable {W SSt D Ds Dt : Type} (S : IdxSrc W SSt) (Da : Data D Ds Dt) (c : Cfg)
variable (data : Nat → Option Nat)

/-- The loader object of a consumer that is iterating (or has just finished an epoch with) `x`. -/
def Loader.at (x : It W D) : Loader W SSt D Ds Dt := { x := x, live := true, nis := none, init := false }

theorem iter_at (x : It W D) : Loader.iter S Da c (Loader.at (SSt := SSt) (Ds := Ds) (Dt := Dt) x) =
    (true, Loader.at (create S Da x.sw x.dw)) := by
  simp [Loader.iter, Loader.getIterator, Loader.at, create]

theorem epochs_at_succ (fuel E : Nat) (x : It W D) :
    (Loader.epochs S Da c fuel (E + 1) (Loader.at (SSt := SSt) (Ds := Ds) (Dt := Dt) x)).1 =
      (epoch S Da c fuel (create S Da x.sw x.dw)).1 ::
        (Loader.epochs S Da c fuel E (Loader.at (epoch S Da c fuel (create S Da x.sw x.dw)).2)).1 := by
  rw [Loader.epochs, iter_at]
  rfl

/-- `__iter__` of a new loader into which a state was loaded, when the restoring constructor succeeds. -/
theorem iter_load (w' : W) (d' : D) (st : St SSt Ds Dt) (x' : It W D)
    (hr : restore S Da c w' d' st = .ok x') :
    Loader.iter S Da c ((Loader.fresh w' d').loadStateDict st) =
      (true, Loader.at (if x'.finished then create S Da x'.sw x'.dw else x')) := by
  have h1 : Loader.getIterator S Da c ((Loader.fresh w' d').loadStateDict st) = (true, Loader.at x') := by
    simp only [Loader.getIterator, Loader.loadStateDict, Loader.fresh, hr, Loader.at]
  simp only [Loader.iter]
  have hinit : ((Loader.fresh w' d').loadStateDict st : Loader W SSt D Ds Dt).init = false := rfl
  rw [hinit]
  simp only [Bool.false_eq_true, if_false, h1, Bool.true_and]
  by_cases hf : x'.finished = true
  · have : (Loader.at (SSt := SSt) (Ds := Ds) (Dt := Dt) x').x.finished = true := hf
    simp only [this, hf, if_true]
    simp [Loader.getIterator, Loader.at]
  · have : (Loader.at (SSt := SSt) (Ds := Ds) (Dt := Dt) x').x.finished = false := by
      simpa [Loader.at] using hf
    simp [this, hf]

/-- Between epochs only the sampler world matters (map-style). -/
theorem epochs_at_simM (hmap : Da.iterable = false) (hget : ∀ d i, (Da.get d i).1 = data i) (fuel : Nat) :
    ∀ (E : Nat) (x x' : It W D), x.sw = x'.sw →
      (Loader.epochs S Da c fuel E (Loader.at (SSt := SSt) (Ds := Ds) (Dt := Dt) x)).1 =
        (Loader.epochs S Da c fuel E (Loader.at x')).1 :=
  fun E _ _ h => epochs_simM S Da c data hmap hget fuel E _ _ rfl rfl rfl rfl h

/-- **Loader-level resume, map-style, mid-epoch.**  `x` = the uninterrupted iterator after `k` calls (not
finished).  A NEW loader into which `x`'s state is loaded delivers, over `E + 1` epochs, the rest of the
interrupted epoch and then exactly the uninterrupted loader's following `E` epochs. -/
theorem resume_epochs_map {Same : W → W → Prop} (L : IdxLaw S Same) (hmap : Da.iterable = false)
    (hget : ∀ d i, (Da.get d i).1 = data i) (w w' : W) (d d' : D) (hs : Same w w') (k fuel E : Nat)
    (hnf : (nextN S Da c k (create S Da w d)).finished = false) :
    (Loader.epochs S Da c fuel (E + 1)
        ((Loader.fresh w' d').loadStateDict (save S Da (nextN S Da c k (create S Da w d))))).1 =
      (epoch S Da c fuel (nextN S Da c k (create S Da w d))).1 ::
        (Loader.epochs S Da c fuel E (Loader.at (epoch S Da c fuel (nextN S Da c k (create S Da w d))).2)).1 := by
  obtain ⟨x', hr, hsim⟩ := restore_simM S Da c L hmap w w' d d' hs k _ (simM_refl _)
  have hfx' : x'.finished = false := by rw [← hsim.2.2.2, hnf]
  have hit : Loader.iter S Da c ((Loader.fresh w' d').loadStateDict
      (save S Da (nextN S Da c k (create S Da w d)))) = (true, Loader.at x') := by
    rw [iter_load S Da c w' d' _ x' hr]; simp [hfx']
  rw [Loader.epochs, hit]
  have he := simM_epoch S Da c data hmap hget fuel hsim
  show (epoch S Da c fuel x').1 :: (Loader.epochs S Da c fuel E (Loader.at (epoch S Da c fuel x').2)).1 = _
  rw [← he.1, epochs_at_simM S Da c data hmap hget fuel E _ _ he.2.1.symm]

/-- **Loader-level resume, map-style, from an end-of-epoch state** (`_finished`): `__iter__` of the new
loader replaces the restored iterator at once, and the epochs are the uninterrupted loader's next ones. -/
theorem resume_epochs_map_fin {Same : W → W → Prop} (L : IdxLaw S Same) (hmap : Da.iterable = false)
    (hget : ∀ d i, (Da.get d i).1 = data i) (w w' : W) (d d' : D) (hs : Same w w') (k fuel E : Nat)
    (hfin : (nextN S Da c k (create S Da w d)).finished = true) :
    (Loader.epochs S Da c fuel E
        ((Loader.fresh w' d').loadStateDict (save S Da (nextN S Da c k (create S Da w d))))).1 =
      (Loader.epochs S Da c fuel E (Loader.at (nextN S Da c k (create S Da w d)))).1 := by
  cases E with
  | zero => rfl
  | succ E =>
    obtain ⟨x', hr, hsim⟩ := restore_simM S Da c L hmap w w' d d' hs k _ (simM_refl _)
    have hfx' : x'.finished = true := by rw [← hsim.2.2.2, hfin]
    have hit : Loader.iter S Da c ((Loader.fresh w' d').loadStateDict
        (save S Da (nextN S Da c k (create S Da w d)))) = (true, Loader.at (create S Da x'.sw x'.dw)) := by
      rw [iter_load S Da c w' d' _ x' hr]; simp [hfx']
    rw [epochs_at_succ, Loader.epochs, hit]
    have hsim2 : SimM (create S Da (nextN S Da c k (create S Da w d)).sw (nextN S Da c k (create S Da w d)).dw)
        (create S Da x'.sw x'.dw) := by rw [hsim.1]; exact simM_create S Da _ _ _
    have he := simM_epoch S Da c data hmap hget fuel hsim2
    show (epoch S Da c fuel (create S Da x'.sw x'.dw)).1 ::
      (Loader.epochs S Da c fuel E (Loader.at (epoch S Da c fuel (create S Da x'.sw x'.dw)).2)).1 = _
    rw [he.1, epochs_at_simM S Da c data hmap hget fuel E _ _ he.2.1]

end loader

end TDV.SP
