import TorchDataVerif.Proofs.PMInv
/-! `Inv` is preserved by the sorter's actions. -/
namespace TDV.PM
variable {c : Cfg} {s s' : State}

theorem inOrder_of_spc (h : Inv c s) (hne : s.spc ≠ .off) : c.inOrder = true := by
  cases hio : c.inOrder
  · exact absurd (h.sOff.mpr hio) hne
  · rfl

theorem inv_sIsSet (h : Inv c s) (hpc : s.spc = .top) : Inv c { s with spc := if s.stop then .exited else .get } := by
  have hio := inOrder_of_spc h (by simp [hpc])
  constructor <;> (try (dsimp only; same h))
  case sOff => cases s.stop <;> simp [hio]
  case sExit => cases hs : s.stop <;> simp
  case cnt => cases s.stop <;> fr [hpc] h.cnt
  case permits => cases s.stop <;> fr [hpc] h.permits
  case outS => cases s.stop <;> simp
  case bufNe => intro _; exact h.bufNe (by simp [hpc])

theorem inv_sGetT (h : Inv c s) (hpc : s.spc = .get) : Inv c { s with spc := .top } := by
  have hio := inOrder_of_spc h (by simp [hpc])
  constructor <;> (try (dsimp only; same h))
  case sOff => simp [hio]
  case sExit => simp
  case cnt => fr [hpc] h.cnt
  case permits => fr [hpc] h.permits
  case outS => simp
  case bufNe => intro _; exact h.bufNe (by simp [hpc])

theorem inv_sGet (h : Inv c s) (hpc : s.spc = .get) (m : Msg) (rest : List Msg) (hq : s.mid = m :: rest) :
    Inv c { s with mid := rest, spc := .have m } := by
  have hio := inOrder_of_spc h (by simp [hpc])
  constructor <;> (try (dsimp only; same h))
  case sOff => simp [hio]
  case sExit => simp
  case cnt =>
    intro k
    have h1 := h.cnt k
    simp only [cnt, hpc, hq, SPc.hand, idxs_cons, List.count_cons, optCount_none, optCount_some, beq_iff_eq] at h1 ⊢
    omega
  case permits =>
    have h1 := h.permits
    simp only [held, pending, hpc, hq, SPc.holds, List.length_cons] at h1 ⊢
    omega
  case outMid => intro x hx; exact h.outMid x (by simp [hq, hx])
  case outS => simp; exact h.outMid m (by simp [hq])
  case bufNe => intro _; exact h.bufNe (by simp [hpc])

theorem inv_sHave_cur (h : Inv c s) (m : Msg) (hpc : s.spc = .have m) (hm : m.idx = s.cur) :
    Inv c { s with sq := s.sq ++ [⟨m.pay, s.cur⟩], cur := s.cur + 1, spc := .drain } := by
  have hio := inOrder_of_spc h (by simp [hpc])
  constructor <;> (try (dsimp only; same h))
  case sOff => simp [hio]
  case offEmpty => simp [hio]
  case sExit => simp
  case cnt =>
    intro k
    have h1 := h.cnt k
    simp only [cnt, hpc, SPc.hand, idxs_append, idxs_cons, idxs_nil, List.count_append, List.count_cons, List.count_nil,
      optCount_none, optCount_some, beq_iff_eq, hm] at h1 ⊢
    omega
  case permits =>
    have h1 := h.permits
    simp only [held, pending, hpc, SPc.holds, List.length_append, List.length_cons, List.length_nil] at h1 ⊢
    omega
  case outS => simp
  case outSq =>
    intro x hx
    rcases List.mem_append.mp hx with hx | hx
    · exact h.outSq x hx
    · simp at hx; subst hx; simp [← hm, h.outS m hpc]
  case order =>
    intro _
    have := h.order hio
    simp only [idxs_append, idxs_cons, idxs_nil, List.range_succ, ← List.append_assoc, this]
  case bufNe => simp

theorem inv_sHave_ins (h : Inv c s) (m : Msg) (hpc : s.spc = .have m) :
    Inv c { s with buf := m :: s.buf, spc := .drain } := by
  have hio := inOrder_of_spc h (by simp [hpc])
  constructor <;> (try (dsimp only; same h))
  case sOff => simp [hio]
  case offEmpty => simp [hio]
  case sExit => simp
  case cnt =>
    intro k
    have h1 := h.cnt k
    simp only [cnt, hpc, SPc.hand, idxs_cons, List.count_cons, optCount_none, optCount_some, beq_iff_eq] at h1 ⊢
    omega
  case permits =>
    have h1 := h.permits
    simp only [held, pending, hpc, SPc.holds, List.length_cons] at h1 ⊢
    omega
  case outS => simp
  case outBuf =>
    intro x hx
    simp at hx
    rcases hx with rfl | hx
    · exact h.outS _ hpc
    · exact h.outBuf x hx
  case bufNe => simp

theorem sHave_no_dup (h : Inv c s) (m : Msg) (hpc : s.spc = .have m) : bufHas m.idx s.buf = false := by
  cases hb : bufHas m.idx s.buf
  · rfl
  · exfalso
    have h1 := h.cnt m.idx
    have h2 : 0 < (idxs s.buf).count m.idx := List.count_pos_iff.mpr ((bufHas_iff _ _).mp hb)
    simp only [cnt, hpc, SPc.hand, optCount_some, if_true] at h1
    have : (if m.idx < s.pulled then 1 else 0) ≤ 1 := by split <;> omega
    omega

theorem inv_sDrain_take (h : Inv c s) (hpc : s.spc = .drain) (m : Msg) (rest : List Msg)
    (ht : bufTake s.cur s.buf = some (m, rest)) :
    Inv c { s with sq := s.sq ++ [⟨m.pay, s.cur⟩], cur := s.cur + 1, buf := rest } := by
  have hio := inOrder_of_spc h (by simp [hpc])
  obtain ⟨t1, t2, t3, t4, t5, t6⟩ := bufTake_some _ _ _ _ ht
  constructor <;> (try (dsimp only; same h))
  case offEmpty => simp [hio]
  case cnt =>
    intro k
    have h1 := h.cnt k
    have h2 := t6 k
    simp only [cnt, idxs_append, idxs_cons, idxs_nil, List.count_append, List.count_cons, List.count_nil,
      beq_iff_eq] at h1 ⊢
    omega
  case permits =>
    have h1 := h.permits
    simp only [held, pending, List.length_append, List.length_cons, List.length_nil] at h1 ⊢
    omega
  case outBuf => intro x hx; exact h.outBuf x (t4 x hx)
  case outSq =>
    intro x hx
    rcases List.mem_append.mp hx with hx | hx
    · exact h.outSq x hx
    · simp at hx; subst hx; simp [← t1, h.outBuf m t2]
  case order =>
    intro _
    have := h.order hio
    simp only [idxs_append, idxs_cons, idxs_nil, List.range_succ, ← List.append_assoc, this]
  case bufNe => simp [hpc]

theorem inv_sDrain_done (h : Inv c s) (hpc : s.spc = .drain) (ht : bufTake s.cur s.buf = none) :
    Inv c { s with spc := .top } := by
  have hio := inOrder_of_spc h (by simp [hpc])
  constructor <;> (try (dsimp only; same h))
  case sOff => simp [hio]
  case sExit => simp
  case cnt => fr [hpc] h.cnt
  case permits => fr [hpc] h.permits
  case outS => simp
  case bufNe => intro _; exact bufTake_none _ _ ht

theorem inv_stepS (h : Inv c s) {a : Action} (hs : stepS c s a = some s') : Inv c s' := by
  cases a <;> try (simp [stepS] at hs; done)
  case sIsSet => obtain ⟨h1, rfl⟩ := spec_sIsSet.mp hs; exact inv_sIsSet h h1
  case sGet => obtain ⟨m, rest, h1, h2, rfl⟩ := spec_sGet.mp hs; exact inv_sGet h h1 m rest h2
  case sGetT => obtain ⟨h1, _, rfl⟩ := spec_sGetT.mp hs; exact inv_sGetT h h1
  case sHave =>
    obtain ⟨m, h1, rfl⟩ := spec_sHave.mp hs
    by_cases hm : m.idx = s.cur
    · simp only [hm, if_true]
      exact inv_sHave_cur h m h1 hm
    · simp only [hm, if_false, sHave_no_dup h m h1, Bool.false_eq_true]
      exact inv_sHave_ins h m h1
  case sDrain =>
    obtain ⟨h1, rfl⟩ := spec_sDrain.mp hs
    cases ht : bufTake s.cur s.buf with
    | none => exact inv_sDrain_done h h1 ht
    | some p => obtain ⟨m, rest⟩ := p; exact inv_sDrain_take h h1 m rest ht

end TDV.PM
