import TorchDataVerif.Proofs.NodesGood2
/-!
# `unbatcher` preserves `Good` (for sources that do not raise)

Runtime states are compared through their *tokens*: `a ~ b` iff loading `a`'s token and loading `b`'s token
(into any source runs) give states that agree on the not yet delivered part of the current batch and have
related sources (`UCore`).  The invariant `USim` ties a reachable state to the state its own token loads
to: either they are `UCore`-related, or the state has not pulled its first batch yet (`state_dict()` right
after `reset()`), and the loaded state is `UCore`-related to it after one pull.
-/
namespace TDV.Node

/-- `next()` never raises (anything but `StopIteration`) on reachable states. -/
def ErrFree (n : Node) : Prop := ∀ r, n.Reach r → ∀ e, (n.rnext r).1 ≠ .error e

section
variable {src : Node} {Rs : Run src → Run src → Prop}

/-- The not yet delivered items of the current batch (`none`: the batch is not a sequence). -/
def pend (st : UnbSt src) : Option (List Item) :=
  match st.batch with
  | .list xs => some (xs.drop st.idx)
  | _ => none

def UCore (Rs : Run src → Run src → Prop) (x y : UnbSt src) : Prop :=
  pend x = pend y ∧ Rs x.inner y.inner ∧ x.bad = false ∧ y.bad = false

theorem UCore.symm (g : Good src Rs) {x y : UnbSt src} (h : UCore Rs x y) : UCore Rs y x :=
  ⟨h.1.symm, g.symm _ _ h.2.1, h.2.2.2, h.2.2.1⟩

theorem UCore.trans (g : Good src Rs) {x y z : UnbSt src} (h : UCore Rs x y) (k : UCore Rs y z) : UCore Rs x z :=
  ⟨h.1.trans k.1, g.trans _ _ _ h.2.1 k.2.1, h.2.2.1, k.2.2.2⟩

/-- One `_cached_state_dict = source.state_dict(); _batch = next(source)` step of `Unbatcher.next`. -/
def pull (src : Node) (st : UnbSt src) : UnbSt src :=
  match src.rnext (src.rget st.inner).2 with
  | (.item v, r2) => { st with inner := r2, batch := v, idx := 0, cached := some (src.rget st.inner).1 }
  | (_, r2) => { st with inner := r2, cached := some (src.rget st.inner).1 }

/-- `Unbatcher.reset(state)` only uses the source run of the old state. -/
def uload (src : Node) (r : Run src) (t : src.S × Nat) : UnbSt src :=
  unbReset src { inner := r, batch := .list [], idx := 0, cached := none, bad := false } (some t)

theorem unbReset_some (st : UnbSt src) (t : src.S × Nat) : unbReset src st (some t) = uload src st.inner t := by
  obtain ⟨c, i⟩ := t
  rfl

/-- Runs a token may be loaded into. -/
def V (src : Node) (r : Run src) : Prop := src.Reach r ∨ r = src.rfresh

theorem tok_rel (g : Good src Rs) {c : src.S} (hc : Legit src c) {r1 r2 : Run src} (h1 : V src r1) (h2 : V src r2) :
    Rs (src.rreset r1 (some c)) (src.rreset r2 (some c)) := by
  obtain ⟨u, hu, rfl⟩ := hc
  have a1 : Rs (src.rreset r1 (some (src.rget u).1)) (src.rget u).2 := by
    rcases h1 with h | h
    · exact g.l2 u r1 hu h
    · rw [h]; exact g.l2f u hu
  have a2 : Rs (src.rreset r2 (some (src.rget u).1)) (src.rget u).2 := by
    rcases h2 with h | h
    · exact g.l2 u r2 hu h
    · rw [h]; exact g.l2f u hu
  exact g.trans _ _ _ a1 (g.symm _ _ a2)

theorem tok_cur (g : Good src Rs) {u r : Run src} (hu : src.Reach u) (hr : V src r) :
    Rs (src.rreset r (some (src.rget u).1)) (src.rget u).2 := by
  rcases hr with h | h
  · exact g.l2 u r hu h
  · rw [h]; exact g.l2f u hu

/-- What a load does, by the result of the pull inside `reset`. -/
theorem uload_cases (r : Run src) (c : src.S) (i : Nat) :
    (∃ v r2, src.rnext (src.rreset r (some c)) = (.item v, r2) ∧
      uload src r (c, i) = { inner := r2, batch := v, idx := i, cached := some c, bad := false }) ∨
    (∃ r2, src.rnext (src.rreset r (some c)) = (.stop, r2) ∧
      uload src r (c, i) = { inner := r2, batch := .list [], idx := 0, cached := some c, bad := false }) ∨
    (∃ e r2, src.rnext (src.rreset r (some c)) = (.error e, r2)) := by
  rcases hx : src.rnext (src.rreset r (some c)) with ⟨o, r2⟩
  cases o with
  | item v => exact Or.inl ⟨v, r2, rfl, by simp only [uload, unbReset, hx]⟩
  | stop => exact Or.inr (Or.inl ⟨r2, rfl, by simp only [uload, unbReset, hx]⟩)
  | error e => exact Or.inr (Or.inr ⟨e, r2, rfl⟩)

theorem pend_mk_list (r : Run src) (xs : List Item) (i : Nat) (c : Option src.S) (b : Bool) :
    pend ({ inner := r, batch := .list xs, idx := i, cached := c, bad := b } : UnbSt src) = some (xs.drop i) := rfl

theorem pend_some_iff (x : UnbSt src) (p : List Item) :
    pend x = some p ↔ ∃ xs, x.batch = .list xs ∧ xs.drop x.idx = p := by
  unfold pend
  cases hb : x.batch with
  | list xs => simp
  | atom n => simp
  | none => simp

theorem drop_getElem? (xs : List Item) (i : Nat) : xs[i]? = (xs.drop i)[0]? := by
  rw [List.getElem?_drop]; rfl

/-- One loop iteration of `Unbatcher.next`, by the pending part of the batch. -/
theorem unbLoop_none (k : Nat) (x : UnbSt src) (h : pend x = none) :
    unbLoop src (k + 1) x = (.error errType, x) := by
  unfold pend at h
  cases hb : x.batch with
  | list xs => rw [hb] at h; cases h
  | atom n => simp only [unbLoop, hb]
  | none => simp only [unbLoop, hb]

theorem unbLoop_yield (k : Nat) (x : UnbSt src) (v : Item) (p : List Item) (h : pend x = some (v :: p)) :
    unbLoop src (k + 1) x = (.item v, { x with idx := x.idx + 1 }) ∧
    pend ({ x with idx := x.idx + 1 } : UnbSt src) = some p := by
  obtain ⟨xs, hb, hd⟩ := (pend_some_iff x _).mp h
  have hi : xs[x.idx]? = some v := by rw [drop_getElem?, hd]; rfl
  refine ⟨by simp only [unbLoop, hb, hi], ?_⟩
  apply (pend_some_iff _ _).mpr
  refine ⟨xs, hb, ?_⟩
  show xs.drop (x.idx + 1) = p
  have : xs.drop (x.idx + 1) = (xs.drop x.idx).drop 1 := by rw [List.drop_drop]
  rw [this, hd]; rfl

theorem unbLoop_pull_item (k : Nat) (x : UnbSt src) (h : pend x = some []) (v : Item) (r2 : Run src)
    (hx : src.rnext (src.rget x.inner).2 = (.item v, r2)) :
    unbLoop src (k + 1) x = unbLoop src k (pull src x) := by
  obtain ⟨xs, hb, hd⟩ := (pend_some_iff x _).mp h
  have hi : xs[x.idx]? = none := by rw [drop_getElem?, hd]; rfl
  simp only [unbLoop, hb, hi, hx, pull]

theorem unbLoop_pull_stop (k : Nat) (x : UnbSt src) (h : pend x = some []) (r2 : Run src)
    (hx : src.rnext (src.rget x.inner).2 = (.stop, r2)) :
    unbLoop src (k + 1) x = (.stop, pull src x) := by
  obtain ⟨xs, hb, hd⟩ := (pend_some_iff x _).mp h
  have hi : xs[x.idx]? = none := by rw [drop_getElem?, hd]; rfl
  simp only [unbLoop, hb, hi, hx, pull]

theorem unbLoop_pull_err (k : Nat) (x : UnbSt src) (h : pend x = some []) (e : Nat) (r2 : Run src)
    (hx : src.rnext (src.rget x.inner).2 = (.error e, r2)) :
    unbLoop src (k + 1) x = (.error e, pull src x) := by
  obtain ⟨xs, hb, hd⟩ := (pend_some_iff x _).mp h
  have hi : xs[x.idx]? = none := by rw [drop_getElem?, hd]; rfl
  simp only [unbLoop, hb, hi, hx, pull]

theorem pull_item (x : UnbSt src) (v : Item) (r2 : Run src) (hx : src.rnext (src.rget x.inner).2 = (.item v, r2)) :
    pull src x = { x with inner := r2, batch := v, idx := 0, cached := some (src.rget x.inner).1 } := by
  simp only [pull, hx]

theorem pull_other (x : UnbSt src) (o : Out) (r2 : Run src) (hx : src.rnext (src.rget x.inner).2 = (o, r2))
    (ho : ∀ v, o ≠ .item v) :
    pull src x = { x with inner := r2, cached := some (src.rget x.inner).1 } := by
  cases o with
  | item v => exact absurd rfl (ho v)
  | stop => simp only [pull, hx]
  | error e => simp only [pull, hx]

/-- Pulling from `UCore`-related states gives the same result and `UCore`-related states. -/
theorem pull_congr (g : Good src Rs) {x y : UnbSt src} (h : UCore Rs x y) :
    (src.rnext (src.rget x.inner).2).1 = (src.rnext (src.rget y.inner).2).1 ∧ UCore Rs (pull src x) (pull src y) := by
  obtain ⟨hp, hr, hbx, hby⟩ := h
  have hn := g.next _ _ (g.get hr)
  rcases hx : src.rnext (src.rget x.inner).2 with ⟨ox, rx⟩
  rcases hy : src.rnext (src.rget y.inner).2 with ⟨oy, ry⟩
  rw [hx, hy] at hn
  simp only at hn
  obtain ⟨h1, h2⟩ := hn
  subst h1
  refine ⟨rfl, ?_⟩
  cases ox with
  | item v =>
    rw [pull_item x v rx hx, pull_item y v ry hy]
    exact ⟨by cases v <;> rfl, h2, hbx, hby⟩
  | stop =>
    rw [pull_other x _ rx hx (fun _ h => by cases h), pull_other y _ ry hy (fun _ h => by cases h)]
    exact ⟨hp, h2, hbx, hby⟩
  | error e =>
    rw [pull_other x _ rx hx (fun _ h => by cases h), pull_other y _ ry hy (fun _ h => by cases h)]
    exact ⟨hp, h2, hbx, hby⟩

/-- `Unbatcher.next` on `UCore`-related states: same result, `UCore`-related successors. -/
theorem unbLoop_congr (g : Good src Rs) (k : Nat) : ∀ x y : UnbSt src, UCore Rs x y →
    (unbLoop src k x).1 = (unbLoop src k y).1 ∧ UCore Rs (unbLoop src k x).2 (unbLoop src k y).2 := by
  induction k with
  | zero => intro x y h; exact ⟨rfl, h⟩
  | succ k ih =>
    intro x y h
    have hp := h.1
    cases hpx : pend x with
    | none =>
      rw [unbLoop_none k x hpx, unbLoop_none k y (hp ▸ hpx)]
      exact ⟨rfl, h⟩
    | some p =>
      have hpy : pend y = some p := hp ▸ hpx
      cases p with
      | cons v p =>
        have ex := unbLoop_yield k x v p hpx
        have ey := unbLoop_yield k y v p hpy
        rw [ex.1, ey.1]
        exact ⟨rfl, ex.2.trans ey.2.symm, h.2.1, h.2.2.1, h.2.2.2⟩
      | nil =>
        have pc := pull_congr g h
        rcases hx : src.rnext (src.rget x.inner).2 with ⟨ox, rx⟩
        rcases hy : src.rnext (src.rget y.inner).2 with ⟨oy, ry⟩
        have ho : ox = oy := by
          have := pc.1; rw [hx, hy] at this; exact this
        subst ho
        cases ox with
        | item v =>
          rw [unbLoop_pull_item k x hpx v rx hx, unbLoop_pull_item k y hpy v ry hy]
          exact ih _ _ pc.2
        | stop =>
          rw [unbLoop_pull_stop k x hpx rx hx, unbLoop_pull_stop k y hpy ry hy]
          exact ⟨rfl, pc.2⟩
        | error e =>
          rw [unbLoop_pull_err k x hpx e rx hx, unbLoop_pull_err k y hpy e ry hy]
          exact ⟨rfl, pc.2⟩

/-- More fuel does not change a run that did not run out of fuel. -/
theorem unbLoop_mono (k : Nat) : ∀ x : UnbSt src, (unbLoop src k x).1 ≠ .error errFuel →
    unbLoop src (k + 1) x = unbLoop src k x := by
  induction k with
  | zero => intro x h; exact absurd rfl h
  | succ k ih =>
    intro x h
    cases hpx : pend x with
    | none => rw [unbLoop_none (k + 1) x hpx, unbLoop_none k x hpx]
    | some p =>
      cases p with
      | cons v p => rw [(unbLoop_yield (k + 1) x v p hpx).1, (unbLoop_yield k x v p hpx).1]
      | nil =>
        rcases hx : src.rnext (src.rget x.inner).2 with ⟨ox, rx⟩
        cases ox with
        | item v =>
          rw [unbLoop_pull_item k x hpx v rx hx] at h
          rw [unbLoop_pull_item (k + 1) x hpx v rx hx, unbLoop_pull_item k x hpx v rx hx]
          exact ih _ h
        | stop => rw [unbLoop_pull_stop (k + 1) x hpx rx hx, unbLoop_pull_stop k x hpx rx hx]
        | error e => rw [unbLoop_pull_err (k + 1) x hpx e rx hx, unbLoop_pull_err k x hpx e rx hx]

theorem V.reset (c : src.S) (hc : Legit src c) {r : Run src} (h : V src r) : src.Reach (src.rreset r (some c)) := by
  obtain ⟨u, hu, rfl⟩ := hc
  rcases h with h | h
  · exact Node.Reach.resetSome h hu
  · rw [h]; exact Node.Reach.initSome hu

/-- Loading related tokens into related positions. -/
theorem uload_congr (g : Good src Rs) (he : ErrFree src) {r1 r2 : Run src} {c1 c2 : src.S}
    (hR : Rs (src.rreset r1 (some c1)) (src.rreset r2 (some c2))) (i j : Nat)
    (hij : (src.rnext (src.rreset r1 (some c1))).1 ≠ .stop → i = j) :
    UCore Rs (uload src r1 (c1, i)) (uload src r2 (c2, j)) := by
  have hn := g.next _ _ hR
  have e1 := he _ (g.reach _ _ hR)
  rcases uload_cases r1 c1 i with ⟨v, a2, hx, ex⟩ | ⟨a2, hx, ex⟩ | ⟨e, a2, hx⟩
  · rcases uload_cases r2 c2 j with ⟨w, b2, hy, ey⟩ | ⟨b2, hy, ey⟩ | ⟨e, b2, hy⟩
    · rw [hx, hy] at hn
      simp only at hn
      have hvw : v = w := by have := hn.1; cases this; rfl
      have hij' : i = j := hij (by rw [hx]; intro h; cases h)
      subst hvw hij'
      rw [ex, ey]
      exact ⟨rfl, hn.2, rfl, rfl⟩
    · rw [hx, hy] at hn; have := hn.1; cases this
    · rw [hx, hy] at hn; have := hn.1; cases this
  · rcases uload_cases r2 c2 j with ⟨w, b2, hy, ey⟩ | ⟨b2, hy, ey⟩ | ⟨e, b2, hy⟩
    · rw [hx, hy] at hn; have := hn.1; cases this
    · rw [hx, hy] at hn
      rw [ex, ey]
      exact ⟨rfl, hn.2, rfl, rfl⟩
    · rw [hx, hy] at hn; have := hn.1; cases this
  · exact absurd (by rw [hx]) (e1 e)

/-- Loading the token of the current source position is one pull ahead of a state that holds nothing. -/
theorem uload_pull (g : Good src Rs) (he : ErrFree src) (x : UnbSt src) (hr : src.Reach x.inner)
    (hb : x.bad = false) (hp : pend x = some []) (r : Run src) (hv : V src r) (i : Nat)
    (hi : (∀ v, (src.rnext (src.rget x.inner).2).1 = .item v → i = 0)) :
    UCore Rs (uload src r ((src.rget x.inner).1, i)) (pull src x) := by
  have hR : Rs (src.rreset r (some (src.rget x.inner).1)) (src.rget x.inner).2 := tok_cur g hr hv
  have hn := g.next _ _ hR
  have e1 := he _ (g.reach _ _ hR)
  rcases hy : src.rnext (src.rget x.inner).2 with ⟨oy, ry⟩
  rw [hy] at hn hi
  simp only at hn hi
  rcases uload_cases r (src.rget x.inner).1 i with ⟨v, a2, hx, ex⟩ | ⟨a2, hx, ex⟩ | ⟨e, a2, hx⟩
  · rw [hx] at hn
    simp only at hn
    obtain ⟨h1, h2⟩ := hn
    subst h1
    have hi0 : i = 0 := hi v rfl
    subst hi0
    rw [ex, pull_item x v ry hy]
    exact ⟨by cases v <;> rfl, h2, rfl, hb⟩
  · rw [hx] at hn
    simp only at hn
    obtain ⟨h1, h2⟩ := hn
    subst h1
    rw [ex, pull_other x _ ry hy (fun _ h => by cases h)]
    exact ⟨hp.symm, h2, rfl, hb⟩
  · exact absurd (by rw [hx]) (e1 e)

def utok (x : UnbSt src) : src.S × Nat := (unbGet src x).1

theorem utok_some (x : UnbSt src) (c : src.S) (h : x.cached = some c) : utok x = (c, x.idx) := by
  simp only [utok, unbGet, h]

theorem utok_none (x : UnbSt src) (h : x.cached = none) : utok x = ((src.rget x.inner).1, x.idx) := by
  simp only [utok, unbGet, h]

/-- `n` (a freshly loaded state) stands for `x`. -/
def USim (Rs : Run src → Run src → Prop) (x n : UnbSt src) : Prop :=
  UCore Rs n x ∨ (pend x = some [] ∧ UCore Rs n (pull src x))

/-- Invariant of reachable unbatcher states. -/
def UInvS (Rs : Run src → Run src → Prop) (x : UnbSt src) : Prop :=
  x.bad = false ∧ UnbInv src x ∧ (x.cached = none → pend x = some [] ∧ x.idx = 0) ∧
  ∀ r, V src r → USim Rs x (uload src r (utok x))

def UDir (Rs : Run src → Run src → Prop) (x : UnbSt src) : Prop :=
  ∀ r, V src r → UCore Rs (uload src r (utok x)) x

theorem UInvS.of_dir {x : UnbSt src} (hb : x.bad = false) (hi : UnbInv src x) (hc : ∃ c, x.cached = some c)
    (hd : UDir Rs x) : UInvS Rs x := by
  obtain ⟨c, hc⟩ := hc
  exact ⟨hb, hi, (fun h => by rw [hc] at h; cases h), fun r hv => Or.inl (hd r hv)⟩

/-- (I1) after `reset()`. -/
theorem uinv_reset_none (g : Good src Rs) (he : ErrFree src) (st : UnbSt src) (hv : V src st.inner) :
    UInvS Rs (unbReset src st none) := by
  have hr : src.Reach (src.rreset st.inner none) := by
    rcases hv with h | h
    · exact Node.Reach.resetNone h
    · rw [h]; exact Node.Reach.initNone
  refine ⟨rfl, ⟨hr, fun c hc => by cases hc⟩, fun _ => ⟨rfl, rfl⟩, ?_⟩
  intro r hvr
  refine Or.inr ⟨rfl, ?_⟩
  have := uload_pull g he (unbReset src st none) hr rfl rfl r hvr 0 (fun _ _ => rfl)
  exact this

/-- (I2) after `reset(state)`. -/
theorem uinv_load (g : Good src Rs) (he : ErrFree src) (r0 : Run src) (hv : V src r0) (c : src.S) (hc : Legit src c)
    (i : Nat) : UInvS Rs (uload src r0 (c, i)) ∧ UDir Rs (uload src r0 (c, i)) := by
  have hreach := V.reset c hc hv
  have hn := Node.Reach.next hreach
  have e1 := he _ hreach
  have key : ∀ r, V src r → UCore Rs (uload src r (c, (uload src r0 (c, i)).idx)) (uload src r0 (c, i)) := by
    intro r hvr
    apply uload_congr g he (tok_rel g hc hvr hv)
    intro hns
    rcases uload_cases r0 c i with ⟨v, a2, hx, ex⟩ | ⟨a2, hx, ex⟩ | ⟨e, a2, hx⟩
    · rw [ex]
    · exfalso
      have h1 := (g.next _ _ (tok_rel g hc hvr hv)).1
      rw [hx] at h1
      exact hns h1
    · exact absurd (by rw [hx]) (e1 e)
  rcases uload_cases r0 c i with ⟨v, a2, hx, ex⟩ | ⟨a2, hx, ex⟩ | ⟨e, a2, hx⟩
  · have hd : UDir Rs (uload src r0 (c, i)) := by
      intro r hvr
      have := key r hvr
      rw [ex] at this ⊢
      exact this
    rw [hx] at hn
    refine ⟨UInvS.of_dir (by rw [ex]) ?_ ⟨c, by rw [ex]⟩ hd, hd⟩
    rw [ex]
    exact ⟨hn, fun c' hc' => by cases hc'; exact hc⟩
  · have hd : UDir Rs (uload src r0 (c, i)) := by
      intro r hvr
      have := key r hvr
      rw [ex] at this ⊢
      exact this
    rw [hx] at hn
    refine ⟨UInvS.of_dir (by rw [ex]) ?_ ⟨c, by rw [ex]⟩ hd, hd⟩
    rw [ex]
    exact ⟨hn, fun c' hc' => by cases hc'; exact hc⟩
  · exact absurd (by rw [hx]) (e1 e)

/-- (I3) `state_dict()` keeps the token and the invariant. -/
theorem uinv_get (g : Good src Rs) (x : UnbSt src) (h : UInvS Rs x) :
    UInvS Rs (unbGet src x).2 ∧ utok (unbGet src x).2 = utok x ∧
    UCore Rs (unbGet src x).2 x := by
  obtain ⟨hb, hi, hcn, hs⟩ := h
  cases hc : x.cached with
  | some c =>
    have e : (unbGet src x).2 = x := by simp only [unbGet, hc]
    rw [e]
    exact ⟨⟨hb, hi, hcn, hs⟩, rfl, rfl, g.refl _ hi.1, hb, hb⟩
  | none =>
    have e : (unbGet src x).2 = { x with inner := (src.rget x.inner).2, cached := some (src.rget x.inner).1 } := by
      simp only [unbGet, hc]
    have hcore : UCore Rs ({ x with inner := (src.rget x.inner).2, cached := some (src.rget x.inner).1 } : UnbSt src) x :=
      ⟨rfl, g.l1 _ hi.1, hb, hb⟩
    have ht : utok ({ x with inner := (src.rget x.inner).2, cached := some (src.rget x.inner).1 } : UnbSt src) = utok x := by
      rw [utok_none x hc, utok_some _ (src.rget x.inner).1 rfl]
    have hi' : UnbInv src ({ x with inner := (src.rget x.inner).2, cached := some (src.rget x.inner).1 } : UnbSt src) := by
      have := (unbGet_inv src x hi).1
      rw [e] at this
      exact this
    rw [e]
    refine ⟨⟨hb, hi', (fun h => by cases h), ?_⟩, ht, hcore⟩
    intro r hv
    rw [ht]
    rcases hs r hv with hd | ⟨hp, ha⟩
    · exact Or.inl (UCore.trans g hd (UCore.symm g hcore))
    · exact Or.inr ⟨hp, UCore.trans g ha (UCore.symm g (pull_congr g hcore).2)⟩

/-- (I4) `next()` keeps the invariant, and afterwards the token loads to a state directly related. -/
theorem uinv_loop (g : Good src Rs) (he : ErrFree src) (k : Nat) : ∀ x : UnbSt src, UInvS Rs x →
    (UDir Rs x ∨ 0 < k) → UInvS Rs (unbLoop src k x).2 ∧ UDir Rs (unbLoop src k x).2 := by
  induction k with
  | zero =>
    intro x h hd
    rcases hd with hd | hd
    · exact ⟨h, hd⟩
    · exact absurd hd (Nat.lt_irrefl 0)
  | succ k ih =>
    intro x h _
    obtain ⟨hb, hi, hcn, hs⟩ := h
    cases hpx : pend x with
    | none =>
      rw [unbLoop_none k x hpx]
      refine ⟨⟨hb, hi, hcn, hs⟩, ?_⟩
      intro r hv
      rcases hs r hv with hd | ⟨hp, _⟩
      · exact hd
      · rw [hpx] at hp; cases hp
    | some p =>
      cases p with
      | cons v p =>
        have ey := unbLoop_yield k x v p hpx
        rw [ey.1]
        -- the cache is set, and the token loads to the same batch
        obtain ⟨c, hc⟩ : ∃ c, x.cached = some c := by
          cases hc : x.cached with
          | some c => exact ⟨c, rfl⟩
          | none => have := (hcn hc).1; rw [hpx] at this; cases this
        have hlc : Legit src c := hi.2 c hc
        have hd' : UDir Rs ({ x with idx := x.idx + 1 } : UnbSt src) := by
          intro r hv
          have ht : utok ({ x with idx := x.idx + 1 } : UnbSt src) = (c, x.idx + 1) := utok_some _ c hc
          rw [ht]
          have hdx : UCore Rs (uload src r (c, x.idx)) x := by
            rcases hs r hv with hd | ⟨hp, _⟩
            · rw [utok_some x c hc] at hd; exact hd
            · rw [hpx] at hp; cases hp
          have e1 := he _ (V.reset c hlc hv)
          rcases uload_cases r c x.idx with ⟨w, a2, hx, ex⟩ | ⟨a2, hx, ex⟩ | ⟨e, a2, hx⟩
          · rcases uload_cases r c (x.idx + 1) with ⟨w', a2', hx', ex'⟩ | ⟨a2', hx', _⟩ | ⟨e, a2', hx'⟩
            · rw [hx] at hx'
              cases hx'
              rw [ex] at hdx
              rw [ex']
              obtain ⟨q1, q2, _, _⟩ := hdx
              refine ⟨?_, q2, rfl, hb⟩
              rw [ey.2]
              rw [hpx] at q1
              obtain ⟨ws, hw, hdw⟩ := (pend_some_iff _ _).mp q1
              simp only at hw hdw
              subst hw
              show some (ws.drop (x.idx + 1)) = some p
              have : ws.drop (x.idx + 1) = (ws.drop x.idx).drop 1 := by rw [List.drop_drop]
              rw [this, hdw]; rfl
            · rw [hx] at hx'; cases hx'
            · rw [hx] at hx'; cases hx'
          · rw [ex] at hdx
            have := hdx.1
            rw [hpx] at this
            cases this
          · exact absurd (by rw [hx]) (e1 e)
        exact ⟨UInvS.of_dir hb hi ⟨c, hc⟩ hd', hd'⟩
      | nil =>
        have hrg : src.Reach (src.rget x.inner).2 := Node.Reach.get hi.1
        have hn := Node.Reach.next hrg
        have e1 := he _ hrg
        have hl : Legit src (src.rget x.inner).1 := ⟨x.inner, hi.1, rfl⟩
        rcases hx : src.rnext (src.rget x.inner).2 with ⟨ox, rx⟩
        rw [hx] at hn
        cases ox with
        | item v =>
          rw [unbLoop_pull_item k x hpx v rx hx]
          have hd1 : UDir Rs (pull src x) := by
            intro r hv
            have ht : utok (pull src x) = ((src.rget x.inner).1, 0) := by
              rw [pull_item x v rx hx]; exact utok_some _ _ rfl
            rw [ht]
            exact uload_pull g he x hi.1 hb hpx r hv 0 (fun _ _ => rfl)
          have hi1 : UInvS Rs (pull src x) := by
            refine UInvS.of_dir ?_ ?_ ⟨(src.rget x.inner).1, ?_⟩ hd1
            · rw [pull_item x v rx hx]; exact hb
            · rw [pull_item x v rx hx]; exact ⟨hn, fun c hc => by cases hc; exact hl⟩
            · rw [pull_item x v rx hx]
          exact ih _ hi1 (Or.inl hd1)
        | stop =>
          rw [unbLoop_pull_stop k x hpx rx hx]
          have hd1 : UDir Rs (pull src x) := by
            intro r hv
            have ht : utok (pull src x) = ((src.rget x.inner).1, x.idx) := by
              rw [pull_other x _ rx hx (fun _ h => by cases h)]; exact utok_some _ _ rfl
            rw [ht]
            exact uload_pull g he x hi.1 hb hpx r hv x.idx (fun w hw => by rw [hx] at hw; cases hw)
          refine ⟨UInvS.of_dir ?_ ?_ ⟨(src.rget x.inner).1, ?_⟩ hd1, hd1⟩
          · rw [pull_other x _ rx hx (fun _ h => by cases h)]; exact hb
          · rw [pull_other x _ rx hx (fun _ h => by cases h)]; exact ⟨hn, fun c hc => by cases hc; exact hl⟩
          · rw [pull_other x _ rx hx (fun _ h => by cases h)]
        | error e => exact absurd (by rw [hx]) (e1 e)

/-! ### reachable states -/

theorem unb_rnext_ok (fuel : Nat) (R : Run (unbatcher fuel src)) (hb : (R.st : UnbSt src).bad = false) :
    (unbatcher fuel src).rnext R =
      ((unbLoop src fuel (R.st : UnbSt src)).1, ⟨(unbLoop src fuel (R.st : UnbSt src)).2, true⟩) := by
  rw [unbatcher_rnext, unbNext_ok src fuel _ hb]

theorem unbatcher_uinv (g : Good src Rs) (he : ErrFree src) (fuel : Nat) (hf : 0 < fuel) (R : Run (unbatcher fuel src))
    (h : (unbatcher fuel src).Reach R) : UInvS Rs (R.st : UnbSt src) := by
  induction h with
  | initNone => exact uinv_reset_none g he _ (Or.inr rfl)
  | @initSome r' hr' ih =>
    have hl := (unbGet_inv src (r'.st : UnbSt src) ih.2.1).2
    have e : ((unbatcher fuel src).rreset (unbatcher fuel src).rfresh (some ((unbatcher fuel src).rget r').1)).st =
        uload src src.rfresh (unbGet src (r'.st : UnbSt src)).1 := unbReset_some _ _
    rw [e]
    exact (uinv_load g he _ (Or.inr rfl) _ hl _).1
  | @next r _ ih =>
    rw [unb_rnext_ok fuel r ih.1]
    exact (uinv_loop g he fuel _ ih (Or.inr hf)).1
  | @get r _ ih => exact (uinv_get g (r.st : UnbSt src) ih).1
  | @resetNone r _ ih => exact uinv_reset_none g he _ (Or.inl ih.2.1.1)
  | @resetSome r r' _ _ ih1 ih2 =>
    have hl := (unbGet_inv src (r'.st : UnbSt src) ih2.2.1).2
    have e : ((unbatcher fuel src).rreset r (some ((unbatcher fuel src).rget r').1)).st =
        uload src (r.st : UnbSt src).inner (unbGet src (r'.st : UnbSt src)).1 := unbReset_some _ _
    rw [e]
    exact (uinv_load g he _ (Or.inl ih1.2.1.1) _ hl _).1

theorem unbatcher_udir_next (g : Good src Rs) (he : ErrFree src) (fuel : Nat) (hf : 0 < fuel)
    (R : Run (unbatcher fuel src)) (h : (unbatcher fuel src).Reach R) :
    UDir Rs (((unbatcher fuel src).rnext R).2.st : UnbSt src) := by
  have ih := unbatcher_uinv g he fuel hf R h
  rw [unb_rnext_ok fuel R ih.1]
  exact (uinv_loop g he fuel _ ih (Or.inr hf)).2

/-- The source has been driven at least once whenever the unbatcher has (ghost bits). -/
theorem unbLoop_nexted (k : Nat) : ∀ x : UnbSt src,
    (x.inner.nexted = true ∨ (pend x = some [] ∧ 0 < k)) → (unbLoop src k x).2.inner.nexted = true := by
  induction k with
  | zero =>
    intro x h
    rcases h with h | ⟨_, h⟩
    · exact h
    · exact absurd h (Nat.lt_irrefl 0)
  | succ k ih =>
    intro x h
    cases hpx : pend x with
    | none =>
      rw [unbLoop_none k x hpx]
      rcases h with h | ⟨h, _⟩
      · exact h
      · rw [hpx] at h; cases h
    | some p =>
      cases p with
      | cons v p =>
        rw [(unbLoop_yield k x v p hpx).1]
        rcases h with h | ⟨h, _⟩
        · exact h
        · rw [hpx] at h; cases h
      | nil =>
        rcases hx : src.rnext (src.rget x.inner).2 with ⟨ox, rx⟩
        have hn : rx.nexted = true := by
          have : (src.rnext (src.rget x.inner).2).2.nexted = true := rfl
          rw [hx] at this; exact this
        cases ox with
        | item v =>
          rw [unbLoop_pull_item k x hpx v rx hx]
          apply ih
          left
          rw [pull_item x v rx hx]; exact hn
        | stop =>
          rw [unbLoop_pull_stop k x hpx rx hx, pull_other x _ rx hx (fun _ h => by cases h)]; exact hn
        | error e =>
          rw [unbLoop_pull_err k x hpx e rx hx, pull_other x _ rx hx (fun _ h => by cases h)]; exact hn

theorem uload_nexted (r : Run src) (t : src.S × Nat) : (uload src r t).inner.nexted = true := by
  obtain ⟨c, i⟩ := t
  rcases hx : src.rnext (src.rreset r (some c)) with ⟨o, r2⟩
  have h2 : r2.nexted = true := by
    have : (src.rnext (src.rreset r (some c))).2.nexted = true := rfl
    rw [hx] at this; exact this
  cases o <;> simp only [uload, unbReset, hx] <;> exact h2

theorem unbGet_keeps (x : UnbSt src) :
    (unbGet src x).2.inner.nexted = x.inner.nexted ∧ pend (unbGet src x).2 = pend x := by
  cases hc : x.cached with
  | some c =>
    have e : (unbGet src x).2 = x := by simp only [unbGet, hc]
    rw [e]; exact ⟨rfl, rfl⟩
  | none =>
    have e : (unbGet src x).2 = { x with inner := (src.rget x.inner).2, cached := some (src.rget x.inner).1 } := by
      simp only [unbGet, hc]
    rw [e]; exact ⟨rfl, rfl⟩

def UNx (fuel : Nat) (R : Run (unbatcher fuel src)) : Prop :=
  (R.st : UnbSt src).inner.nexted = false → pend (R.st : UnbSt src) = some [] ∧ R.nexted = false

theorem unbatcher_unx (g : Good src Rs) (he : ErrFree src) (fuel : Nat) (hf : 0 < fuel) (R : Run (unbatcher fuel src))
    (h : (unbatcher fuel src).Reach R) : UNx fuel R := by
  induction h with
  | initNone => intro _; exact ⟨rfl, rfl⟩
  | @initSome r' _ _ =>
    intro hn
    exfalso
    have e : ((unbatcher fuel src).rreset (unbatcher fuel src).rfresh (some ((unbatcher fuel src).rget r').1)).st =
        uload src src.rfresh (unbGet src (r'.st : UnbSt src)).1 := unbReset_some _ _
    rw [e, uload_nexted] at hn
    cases hn
  | @next r hr _ =>
    intro hn
    exfalso
    have inv := unbatcher_uinv g he fuel hf r hr
    have unx : UNx fuel r := by assumption
    rw [unb_rnext_ok fuel r inv.1] at hn
    have : (unbLoop src fuel (r.st : UnbSt src)).2.inner.nexted = true := by
      apply unbLoop_nexted
      cases hi : (r.st : UnbSt src).inner.nexted with
      | true => exact Or.inl rfl
      | false => exact Or.inr ⟨(unx hi).1, hf⟩
    rw [this] at hn; cases hn
  | @get r _ ih =>
    intro hn
    have k := unbGet_keeps (r.st : UnbSt src)
    have hn' : (unbGet src (r.st : UnbSt src)).2.inner.nexted = false := hn
    rw [k.1] at hn'
    have := ih hn'
    exact ⟨k.2.trans this.1, this.2⟩
  | resetNone _ _ => intro _; exact ⟨rfl, rfl⟩
  | @resetSome r r' _ _ _ _ =>
    intro hn
    exfalso
    have e : ((unbatcher fuel src).rreset r (some ((unbatcher fuel src).rget r').1)).st =
        uload src (r.st : UnbSt src).inner (unbGet src (r'.st : UnbSt src)).1 := unbReset_some _ _
    rw [e, uload_nexted] at hn
    cases hn

end
end TDV.Node
