import TorchDataVerif.Proofs.SPChain
import TorchDataVerif.Proofs.E2EIface
/-!
# E2E, part 3 — the single-process iterator `_StatefulSingleProcessDataLoaderIter` as an iterator class

`spIC S Da c`: the `TDV.SP` model (`create`, `restore`, `next`, `save`, `finished`) behind the interface of
`Proofs/E2EIface.lean`; the persisting objects are the sampler world (sampler object, its generator) and the
dataset world.  `meets_map`, `meets_iter_state`, `meets_iter_ffwd`: under the hypotheses of the `TDV.SP` resume
theorems the class meets the interface (`Meets`), i.e. is abstracted by the ideal iterator over the epoch streams
the uninterrupted loader delivers.
-/
namespace TDV.E2E
open TDV.Node
open TDV.Loader (Obs Op)
open TDV.SDLApi (It)

/-- What the consumer sees, as an `Out` of the façade models: a collated batch is the list of its items. -/
def toOut : SP.Obs → Out
  | .batch l => .item (.list (l.map .atom))
  | .single v => .item (.atom v)
  | .stop => .stop
  | .error k => .error k

section
variable {W SSt D Ds Dt : Type} (S : SP.IdxSrc W SSt) (Da : SP.Data D Ds Dt) (c : SP.Cfg)

/-- `_StatefulSingleProcessDataLoaderIter` as an iterator class over the loader's sampler and dataset objects. -/
def spIC : IterClass (SP.It W D) (SP.St SSt Ds Dt) (W × D) where
  make wd t :=
    match t with
    | none => some (SP.create S Da wd.1 wd.2)
    | some st =>
      match SP.restore S Da c wd.1 wd.2 st with
      | .ok x => some x
      | .raised _ _ => none
  next x := (toOut (SP.next S Da c x).1, (SP.next S Da c x).2)
  state x := SP.save S Da x
  fin x := x.finished
  world x := (x.sw, x.dw)

end

/-! ## Map-style datasets -/
section irun
variable {W SSt : Type} (S : SP.IdxSrc W SSt)

theorem inextN_succ' : ∀ (k : Nat) (w : W), SP.inextN S (k + 1) w = (S.next (SP.inextN S k w)).2
  | 0, _ => rfl
  | k + 1, w => by
    show SP.inextN S (k + 1) (S.next w).2 = _
    rw [inextN_succ' k]
    rfl

/-- A sampler run `ixs`: its `p`-th call returns `ixs[p]`, the call after the last one `StopIteration`. -/
theorem irun_idx : ∀ (ixs : List SP.Idx) (w w' : W), SP.IRun S.next w ixs w' → ∀ (p : Nat) (h : p < ixs.length),
    (S.next (SP.inextN S p w)).1 = .idx ixs[p]
  | [], _, _, _, p, h => by simp at h
  | ix :: r, w, w', hr, 0, _ => hr.1
  | ix :: r, w, w', hr, p + 1, h => by
    have := irun_idx r _ w' hr.2 p (by simpa using h)
    simpa [SP.inextN] using this

theorem irun_stop : ∀ (ixs : List SP.Idx) (w w' : W), SP.IRun S.next w ixs w' →
    S.next (SP.inextN S ixs.length w) = (.stop, w')
  | [], _, _, hr => hr
  | ix :: r, w, w', hr => by
    have := irun_stop r _ w' hr.2
    simpa [SP.inextN] using this

end irun

section map
variable {W SSt D Ds Dt : Type} (S : SP.IdxSrc W SSt) (Da : SP.Data D Ds Dt) (c : SP.Cfg) (f : Nat → Nat)

/-- The batch a map-style loader over `idx ↦ f idx` makes of an index (batch). -/
def itemOf : SP.Idx → Item
  | .one i => .atom (f i)
  | .many l => .list ((l.map f).map .atom)

/-- The epoch streams of a map-style loader whose index sampler yields `ixs g` in its `g`-th epoch. -/
def epochsMap (ixs : Nat → List SP.Idx) : Nat → List Item := fun g => (ixs g).map (itemOf f)

theorem toOut_refFetch (hcf : ∀ v, c.collateFail v = false) (ix : SP.Idx) :
    toOut (SP.refFetch (fun i => some (f i)) c ix) = .item (itemOf f ix) := by
  cases ix with
  | one i => simp [SP.refFetch, SP.collate1, hcf, toOut, itemOf]
  | many l =>
    have h2 : ∀ l : List Nat, l.filterMap (fun i => some (f i)) = l.map f := by
      intro l
      induction l with
      | nil => rfl
      | cons a r ih => simp
    have h3 : ∀ l : List Nat, l.any c.collateFail = false := by intro l; simp [hcf]
    simp [SP.refFetch, SP.collate, h2, h3, toOut, itemOf]

/-- **The hypotheses of the `TDV.SP` map-style theorems**, for a loader whose sampler objects are in `wS g`
before its `g`-th epoch: sampler law (`IdxLaw`: plain, `Stateful` object, `RandomSampler` with a generator that
is not the loader's; bare or batched), a map-style dataset `idx ↦ f idx` that never raises, a `collate_fn`
that never raises; in epoch `g` the index sampler yields `ixs g` and leaves the objects in `wS (g+1)`. -/
structure MapHyp (Same : W → W → Prop) (wS : Nat → W) (ixs : Nat → List SP.Idx) : Prop where
  law : SP.IdxLaw S Same
  isMap : Da.iterable = false
  get : ∀ d i, (Da.get d i).1 = some (f i)
  collate : ∀ v, c.collateFail v = false
  run : ∀ g, SP.IRun S.next (S.seed (S.iter (wS g))) (ixs g) (wS (g + 1))
  same : ∀ e g, Same (wS e) (wS g)

variable {Same : W → W → Prop} {wS : Nat → W} {ixs : Nat → List SP.Idx}

/-- The uninterrupted iterator of epoch `e` after `k` calls. -/
def can (wS : Nat → W) (d : D) (e k : Nat) : SP.It W D := SP.nextN S Da c k (SP.create S Da (wS e) d)

theorem can_succ (d : D) (e k : Nat) : can S Da c wS d e (k + 1) = (SP.next S Da c (can S Da c wS d e k)).2 := by
  unfold can
  rw [SP.nextN_add]
  rfl

theorem can_sw (d : D) (e k : Nat) : (can S Da c wS d e k).sw = SP.inextN S k (S.seed (S.iter (wS e))) := by
  unfold can
  rw [SP.nextN_sw]
  rfl

variable (H : MapHyp S Da c f Same wS ixs)
include H

theorem can_next_lt (d : D) (e k : Nat) (hk : k < (ixs e).length) :
    toOut (SP.next S Da c (can S Da c wS d e k)).1 = .item (itemOf f (ixs e)[k]) ∧
      (SP.next S Da c (can S Da c wS d e k)).2.finished = (can S Da c wS d e k).finished := by
  have hn := SP.next_map S Da c (fun i => some (f i)) H.isMap H.get (can S Da c wS d e k)
  have hi := irun_idx S _ _ _ (H.run e) k hk
  rw [can_sw, hi] at hn
  simp only at hn
  rw [hn.1, hn.2.2.1]
  exact ⟨toOut_refFetch c f H.collate _, rfl⟩

theorem can_next_stop (d : D) (e : Nat) :
    (SP.next S Da c (can S Da c wS d e (ixs e).length)).1 = .stop ∧
      (SP.next S Da c (can S Da c wS d e (ixs e).length)).2.finished = true ∧
      (SP.next S Da c (can S Da c wS d e (ixs e).length)).2.sw = wS (e + 1) := by
  have hn := SP.next_map S Da c (fun i => some (f i)) H.isMap H.get (can S Da c wS d e (ixs e).length)
  have hs := irun_stop S _ _ _ (H.run e)
  have hw := SP.next_sw S Da c (can S Da c wS d e (ixs e).length)
  rw [can_sw, hs] at hn hw
  simp only at hn hw
  exact ⟨hn.1, hn.2.2.1, hw⟩

theorem can_fin (d : D) (e : Nat) : ∀ k, k ≤ (ixs e).length → (can S Da c wS d e k).finished = false
  | 0, _ => rfl
  | k + 1, hk => by
    rw [can_succ, (can_next_lt S Da c f H d e k (by omega)).2]
    exact can_fin d e k (by omega)

/-- Calls made by an uninterrupted iterator that is at `a`. -/
def callsOf (a : It) : Nat := a.p + (if a.fin then 1 else 0)

/-- `a` is a place in the streams `ixs`. -/
def Place (ixs : Nat → List SP.Idx) (a : It) : Prop :=
  a.p ≤ (ixs a.e).length ∧ (a.fin = true → a.p = (ixs a.e).length)

/-- **The single-process iterator over a map-style dataset meets the interface** — abstraction: `x` is at `a`
iff `x` cannot be told apart (`SimM`: same sampler world and generator, counters, `_finished`) from the
uninterrupted iterator of epoch `a.e` after `a.p` batches (and the `StopIteration`, if `a.fin`). -/
def meetsMap : Meets (spIC S Da c) (epochsMap f ixs) where
  A x a := Place ixs a ∧ ∃ d, SP.SimM (can S Da c wS d a.e (callsOf a)) x
  AT st a := Place ixs a ∧ ∃ d x1, SP.SimM (can S Da c wS d a.e (callsOf a)) x1 ∧ st = SP.save S Da x1
  AW wd g := wd.1 = wS g
  WN wd := ∀ e, Same (wS e) wd.1
  aw_wn := by
    intro wd g h e
    rw [h]
    exact H.same e g
  make_none := by
    intro wd g h
    refine ⟨_, rfl, ⟨Nat.zero_le _, fun hf => by cases hf⟩, wd.2, ?_⟩
    show SP.SimM (SP.create S Da (wS g) wd.2) (SP.create S Da wd.1 wd.2)
    rw [h]
    exact SP.simM_refl _
  make_some := by
    intro wd st a hw ⟨hp, d, x1, hsim, hst⟩
    obtain ⟨x', hr, hx'⟩ := SP.restore_simM S Da c H.law H.isMap (wS a.e) wd.1 d wd.2 (hw a.e) (callsOf a) x1 hsim
    refine ⟨x', ?_, hp, d, hx'⟩
    show (match SP.restore S Da c wd.1 wd.2 st with
      | .ok x => some x
      | .raised _ _ => none) = some x'
    rw [hst, hr]
  next := by
    intro x a ⟨⟨hp, _⟩, d, hsim⟩ hnf
    have hc : callsOf a = a.p := by simp [callsOf, hnf]
    rw [hc] at hsim
    obtain ⟨ho, hs⟩ := SP.simM_next S Da c (fun i => some (f i)) H.isMap H.get hsim
    rw [← can_succ] at hs
    have hs' : SP.SimM (can S Da c wS d a.e (a.p + 1)) ((spIC S Da c).next x).2 := hs
    show toOut (SP.next S Da c x).1 = _ ∧ _
    rw [← ho]
    by_cases hlt : a.p < (ixs a.e).length
    · have hget : (epochsMap f ixs a.e)[a.p]? = some (itemOf f (ixs a.e)[a.p]) := by
        simp [epochsMap, hlt]
      simp only [SDLApi.itNext, hget]
      refine ⟨(can_next_lt S Da c f H d a.e a.p hlt).1, ⟨Nat.succ_le_of_lt hlt, fun hf => absurd hf (by simp [hnf])⟩, d, ?_⟩
      simpa [callsOf, hnf] using hs'
    · have hpe : a.p = (ixs a.e).length := by omega
      have hget : (epochsMap f ixs a.e)[a.p]? = none := by
        simp [epochsMap, hpe]
      simp only [SDLApi.itNext, hget]
      have hstop := can_next_stop S Da c f H d a.e
      rw [← hpe] at hstop
      refine ⟨by rw [hstop.1]; rfl, ⟨hp, fun _ => hpe⟩, d, ?_⟩
      simpa [callsOf] using hs'
  state := by
    intro x a ⟨hp, d, hsim⟩
    exact ⟨hp, d, x, hsim, rfl⟩
  fin := by
    intro x a ⟨⟨hp, hpf⟩, d, hsim⟩
    show x.finished = a.fin
    rw [← hsim.2.2.2]
    cases hf : a.fin with
    | false =>
      have hc : callsOf a = a.p := by simp [callsOf, hf]
      rw [hc]
      exact can_fin S Da c f H d a.e a.p hp
    | true =>
      have hc : callsOf a = (ixs a.e).length + 1 := by simp [callsOf, hf, hpf hf]
      rw [hc, can_succ]
      exact (can_next_stop S Da c f H d a.e).2.1
  world := by
    intro x a ⟨⟨_, hpf⟩, d, hsim⟩ hf
    show x.sw = wS (a.e + 1)
    rw [← hsim.1]
    have hc : callsOf a = (ixs a.e).length + 1 := by simp [callsOf, hf, hpf hf]
    rw [hc, can_succ]
    exact (can_next_stop S Da c f H d a.e).2.2

end map

end TDV.E2E
