import TorchDataVerif.Proofs.MPMapThm
import TorchDataVerif.Proofs.MPURebase
/-!
# MPU — `take_snapshot_assertion_holds`, iterable, `in_order = True`: the window argument, list lemmas

Ghost: every `_task_info` entry is paired with `_num_yielded` at its dispatch.  An entry *counts* unless
its stored result is an end-of-shard notice (or it is the task whose notice is being received): at most
`W·P` entries count, and an entry dispatched at `d` is yielded as batch `≤ d + 1 + W·P`.
-/
namespace TDV.MPU
open TDV.MP

def isNote (e : Info) : Bool :=
  match e.res with
  | some r => decide (r.kind = .notice)
  | none => false

/-- Does the entry count as a possible future yield? -/
def cf (ex : Option Nat) (e : Info) : Bool := !(isNote e) && decide (ex ≠ some e.idx)

def cntZ (ex : Option Nat) (Z : List (Info × Nat)) : Nat := (Z.filter (fun z => cf ex z.1)).length

def cOne (ex : Option Nat) (e : Info) : Nat := if cf ex e then 1 else 0

def WinOk (ex : Option Nat) (y B : Nat) : Nat → List (Info × Nat) → Prop
  | _, [] => True
  | k, z :: l => (y + (k + cOne ex z.1) ≤ z.2 + 1 + B ∧ z.2 ≤ y) ∧ WinOk ex y B (k + cOne ex z.1) l

theorem cntZ_cons (ex : Option Nat) (z : Info × Nat) (l : List (Info × Nat)) :
    cntZ ex (z :: l) = cOne ex z.1 + cntZ ex l := by
  simp only [cntZ, cOne, List.filter_cons]
  split <;> simp <;> omega

theorem cntZ_append (ex : Option Nat) (a b : List (Info × Nat)) : cntZ ex (a ++ b) = cntZ ex a + cntZ ex b := by
  simp [cntZ, List.filter_append]

/-- Fewer counted entries in front, fewer counting entries: the window bounds survive. -/
theorem WinOk_map (ex ex' : Option Nat) (y B : Nat) (f : Info × Nat → Info × Nat) (k k' : Nat) (Z : List (Info × Nat))
    (hk : k' ≤ k) (hf : ∀ z ∈ Z, (f z).2 = z.2 ∧ cOne ex' (f z).1 ≤ cOne ex z.1)
    (h : WinOk ex y B k Z) : WinOk ex' y B k' (Z.map f) := by
  induction Z generalizing k k' with
  | nil => trivial
  | cons z l ih =>
    obtain ⟨⟨h1, h2⟩, h3⟩ := h
    obtain ⟨a1, a2⟩ := hf z (List.mem_cons_self ..)
    refine ⟨⟨by rw [a1]; omega, by rw [a1]; exact h2⟩, ?_⟩
    exact ih _ _ (by omega) (fun z' hz' => hf z' (List.mem_cons_of_mem _ hz')) h3

theorem WinOk_le (ex : Option Nat) (y B k k' : Nat) (Z : List (Info × Nat)) (hk : k' ≤ k)
    (h : WinOk ex y B k Z) : WinOk ex y B k' Z := by
  have := WinOk_map ex ex y B id k k' Z hk (fun z _ => ⟨rfl, Nat.le_refl _⟩) h
  simpa using this

/-- A yield: `_num_yielded` grows by one while the counted entry in front disappears. -/
theorem WinOk_shift (ex : Option Nat) (y B k : Nat) (Z : List (Info × Nat)) (h : WinOk ex y B (k + 1) Z) :
    WinOk ex (y + 1) B k Z := by
  induction Z generalizing k with
  | nil => trivial
  | cons z l ih =>
    obtain ⟨⟨h1, h2⟩, h3⟩ := h
    refine ⟨⟨by omega, by omega⟩, ih _ ?_⟩
    have : k + 1 + cOne ex z.1 = k + cOne ex z.1 + 1 := by omega
    rw [this] at h3
    exact h3

/-- A dispatch: the new entry is dispatched at the current `_num_yielded`. -/
theorem WinOk_snoc (ex : Option Nat) (y B k : Nat) (Z : List (Info × Nat)) (e : Info)
    (h : WinOk ex y B k Z) (hc : k + cntZ ex Z + cOne ex e ≤ B + 1) : WinOk ex y B k (Z ++ [(e, y)]) := by
  induction Z generalizing k with
  | nil => exact ⟨⟨by simp [cntZ] at hc; simp; omega, Nat.le_refl _⟩, trivial⟩
  | cons z l ih =>
    obtain ⟨h1, h3⟩ := h
    refine ⟨h1, ih _ h3 ?_⟩
    rw [cntZ_cons] at hc
    omega

/-! ## `popSnaps` on a strictly increasing deque -/

def Incr (l : List (Nat × Nat)) : Prop := l.Pairwise (fun a b => a.1 < b.1)

theorem popSnaps_stop (rcvd : Nat) (l : List (Nat × Nat)) (last : Option (Nat × Nat))
    (h : ∀ a ∈ l, rcvd ≤ a.1) : popSnaps rcvd l last = (last, l) := by
  cases l with
  | nil => rfl
  | cons e r =>
    have := h e (List.mem_cons_self ..)
    have hn : ¬ e.1 + 1 ≤ rcvd := by omega
    simp [popSnaps, hn]

/-- If the deque holds the entry of task `t`, popping up to `t` ends exactly on it. -/
theorem popSnaps_hit (t x : Nat) (l : List (Nat × Nat)) (last : Option (Nat × Nat)) (hs : Incr l)
    (hm : (t, x) ∈ l) : ∃ rest, popSnaps (t + 1) l last = (some (t, x), rest) := by
  induction l generalizing last with
  | nil => cases hm
  | cons e r ih =>
    rw [Incr, List.pairwise_cons] at hs
    rcases List.mem_cons.mp hm with rfl | hm'
    · refine ⟨r, ?_⟩
      have : popSnaps (t + 1) ((t, x) :: r) last = popSnaps (t + 1) r (some (t, x)) := by simp [popSnaps]
      rw [this]
      exact popSnaps_stop _ _ _ (fun a ha => by have := hs.1 a ha; simp only at this; omega)
    · have hlt : e.1 < t := hs.1 (t, x) hm'
      have : popSnaps (t + 1) (e :: r) last = popSnaps (t + 1) r (some e) := by
        have : e.1 + 1 ≤ t + 1 := by omega
        simp [popSnaps, this]
      rw [this]
      exact ih (some e) hs.2 hm'

theorem popSnaps_rest (rcvd : Nat) (l : List (Nat × Nat)) (last : Option (Nat × Nat)) :
    (popSnaps rcvd l last).2.Sublist l ∧ ∀ a ∈ l, rcvd ≤ a.1 → a ∈ (popSnaps rcvd l last).2 := by
  induction l generalizing last with
  | nil => exact ⟨List.Sublist.refl _, fun a ha => by cases ha⟩
  | cons e r ih =>
    by_cases h : e.1 + 1 ≤ rcvd
    · have : popSnaps rcvd (e :: r) last = popSnaps rcvd r (some e) := by simp [popSnaps, h]
      rw [this]
      obtain ⟨h1, h2⟩ := ih (some e)
      refine ⟨List.Sublist.cons _ h1, fun a ha hge => ?_⟩
      rcases List.mem_cons.mp ha with rfl | ha'
      · omega
      · exact h2 a ha' hge
    · have : popSnaps rcvd (e :: r) last = (last, e :: r) := by simp [popSnaps, h]
      rw [this]
      exact ⟨List.Sublist.refl _, fun a ha _ => ha⟩

/-- The dispatch-time flag `snapshot_main` for iterable datasets. -/
def flagM (c : Cfg) (d : Nat) : Bool :=
  decide (c.interval ≠ 0) && decide (d % c.interval + 1 + c.W * c.P ≥ c.interval)

theorem flags_iter (c : Cfg) (sp d : Nat) (hit : c.iterable = true) : (flags c sp d).1 = flagM c d := by
  simp only [flags, flagM, hit]
  by_cases h0 : c.interval = 0
  · simp [h0]
  · simp [h0]

/-- The window argument: a batch yielded at a snapshot step was dispatched inside the flagged window. -/
theorem window_flag (I d Y B : Nat) (hI : I ≠ 0) (hY : Y % I = 0) (h1 : d + 1 ≤ Y) (h2 : Y ≤ d + 1 + B) :
    d % I + 1 + B ≥ I := by
  by_cases hc : d % I + 1 + B ≥ I
  · exact hc
  · exfalso
    have hlt : d % I < I := Nat.mod_lt _ (Nat.pos_of_ne_zero hI)
    obtain ⟨j, hj⟩ : ∃ j, Y = d + j := ⟨Y - d, by omega⟩
    have hdm := Nat.div_add_mod d I
    have hY' : Y = I * (d / I) + (d % I + j) := by omega
    rw [hY', Nat.mul_add_mod, Nat.mod_eq_of_lt (by omega)] at hY
    omega

end TDV.MPU
