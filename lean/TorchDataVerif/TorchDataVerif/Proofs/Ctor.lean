import TorchDataVerif.Model.Ctor
/-! Helper lemmas for the constructor model (`TDV.Ctor`); the property theorems are in `Props/C16.lean`. -/
namespace TDV.Ctor

theorem contains_range (n i : Nat) : (List.range n).contains i = decide (i < n) := by
  by_cases h : i < n <;> simp [h]

/-- The worker-key-set assertion compares the saved keys with themselves renumbered: it holds for every
state a loader hands out, whatever the loading side looks like. -/
theorem sameSet_range (n : Nat) : sameSet (List.range (List.range n).length) (List.range n) = true := by
  simp [sameSet]

theorem filter_ge_range (n m : Nat) : ((List.range n).filter (fun i => decide (m ≤ i))).length = n - m := by
  induction n with
  | zero => simp
  | succ n ih =>
    rw [List.range_succ, List.filter_append, List.length_append, ih]
    by_cases h : m ≤ n
    · simp [h]; omega
    · simp [h]; omega

theorem filter_lt_range (n m : Nat) : ((List.range n).filter (fun i => decide (i < m))).length = min m n := by
  induction n with
  | zero => simp
  | succ n ih =>
    rw [List.range_succ, List.filter_append, List.length_append, ih]
    by_cases h : n < m
    · simp [h]; omega
    · simp [h]; omega

/-- The stages common to every multi-process construction from a multi-process state. -/
def mpPrefix (ws wl : Nat) : List Stage :=
  [.baseInit, .hasKey .snapshot, .workerKeysOk, .mergeWorkerStates (max ws wl) (min ws wl),
   .startWorkers wl, .handshake wl]

theorem construct_sp_sp (k len : Nat) :
    construct 0 (some (stateOf 0 k len)) = ⟨[.baseInit, .hasKey .numYielded, .restoreSP], 0, .ok⟩ := by
  simp [construct, constructSP, stateOf, State.keys]

theorem construct_mp_sp (ws k len : Nat) (h : 0 < ws) :
    construct 0 (some (stateOf ws k len)) = ⟨[.baseInit], 0, .error .assertion⟩ := by
  have : ws ≠ 0 := by omega
  simp [construct, constructSP, stateOf, State.keys, this]

theorem construct_sp_mp (wl k len : Nat) (h : 0 < wl) :
    construct wl (some (stateOf 0 k len)) = ⟨[.baseInit], 0, .error .assertion⟩ := by
  have : wl ≠ 0 := by omega
  simp [construct, constructMP, stateOf, State.keys, this]

theorem construct_mp_mp (ws wl k len : Nat) (hs : 0 < ws) (hl : 0 < wl) :
    construct wl (some (stateOf ws k len)) =
      if wl = ws then ⟨mpPrefix ws wl ++ [.restoreMain], wl, .ok⟩
      else ⟨mpPrefix ws wl, wl, .error .assertion⟩ := by
  have h1 : ws ≠ 0 := by omega
  have h2 : wl ≠ 0 := by omega
  have e1 : wl + ((List.range ws).filter (fun i => decide (wl ≤ i))).length = max ws wl := by
    rw [filter_ge_range]; omega
  have e2 : ((List.range wl).filter (fun i => (List.range ws).contains i)).length = min ws wl := by
    simp only [contains_range]; exact filter_lt_range wl ws
  simp only [construct, constructMP, stateOf, h1, h2, if_false, State.keys, State.snapshot?,
    List.contains_cons, List.contains_nil, sameSet_range, if_true, e1, e2, mpPrefix]
  simp

theorem construct_mismatch(ws wl k len : Nat) (h : ws ≠ wl) :
    (construct wl (some (stateOf ws k len))).outcome = .error .assertion := by
  rcases Nat.eq_zero_or_pos ws with hs | hs <;> rcases Nat.eq_zero_or_pos wl with hl | hl
  · omega
  · subst hs; rw [construct_sp_mp wl k len hl]
  · subst hl; rw [construct_mp_sp ws k len hs]
  · rw [construct_mp_mp ws wl k len hs hl, if_neg (fun e => h e.symm)]

theorem construct_match (w k len : Nat) : (construct w (some (stateOf w k len))).outcome = .ok := by
  rcases Nat.eq_zero_or_pos w with hw | hw
  · subst hw; rw [construct_sp_sp]
  · rw [construct_mp_mp w w k len hw hw, if_pos rfl]

theorem construct_fresh (w : Nat) : (construct w none).outcome = .ok := by
  by_cases h : w = 0 <;> simp [construct, constructSP, constructMP, h]

theorem stateOf_keys_ne (ws k len : Nat) : (stateOf ws k len).keys.isEmpty = false := by
  by_cases h : ws = 0 <;> simp [stateOf, State.keys, h]

theorem stateOf_finished (ws k len : Nat) : (stateOf ws k len).finished = decide (len < k) := by
  by_cases h : ws = 0 <;> simp [stateOf, State.finished, h]

theorem stateOf_yielded (ws k len : Nat) : (stateOf ws k len).yielded = min k len := by
  by_cases h : ws = 0 <;> simp [stateOf, State.yielded, h]

/-- `registered = started` for every constructor call whatsoever: workers are appended to `self._workers`
right after `start()`, and nothing modelled can fail between the two. -/
theorem registered_eq_started (wl : Nat) (st : Option State) :
    (construct wl st).mustRelease = (construct wl st).started := by
  unfold construct
  split
  · unfold constructSP
    cases st with
    | none => rfl
    | some s => dsimp only; split <;> rfl
  · unfold constructMP
    cases st with
    | none => simp [Result.mustRelease, Result.started, Stage.startedCount]
    | some s =>
      dsimp only
      split
      · split
        · rfl
        · split
          · split <;> simp [Result.mustRelease, Result.started, Stage.startedCount]
          · rfl
      · rfl

/-! ### `__iter__` on a façade without iterator (the situation right after `load_state_dict`) -/

theorem iter_err (g : Facade) (hi : g.iterator = none) (hf : g.initialForSD = false) (e : ErrKind)
    (hr : (construct g.numWorkers g.pending).outcome = .error e) :
    g.iter = ⟨[construct g.numWorkers g.pending], .error e, g⟩ := by
  simp [Facade.iter, Facade.getIterator, hi, hf, hr]

/-- What `__iter__` returns when the (first) construction succeeds. -/
def iterOkOut (g : Facade) : OpOut :=
  let r := construct g.numWorkers g.pending
  let it := iterOf g.numWorkers g.pending
  if it.finished then
    if g.persistent then ⟨[r], .ok, { g with pending := none, iterator := some it.reset }⟩
    else ⟨[r, construct g.numWorkers none], .ok,
      { g with pending := none, iterator := some (iterOf g.numWorkers none) }⟩
  else ⟨[r], .ok, { g with pending := none, iterator := some it }⟩

theorem iter_ok (g : Facade) (hi : g.iterator = none) (hf : g.initialForSD = false)
    (hr : (construct g.numWorkers g.pending).outcome = .ok) : g.iter = iterOkOut g := by
  have hfresh := construct_fresh g.numWorkers
  by_cases hfin : (iterOf g.numWorkers g.pending).finished = true
  · by_cases hp : g.persistent = true
    · simp [Facade.iter, Facade.getIterator, Facade.iterTail, iterOkOut, hi, hf, hr, hfin, hp]
    · simp [Facade.iter, Facade.getIterator, Facade.iterTail, iterOkOut, hi, hf, hr, hfin, hp, hfresh]
  · simp [Facade.iter, Facade.getIterator, Facade.iterTail, iterOkOut, hi, hf, hr, hfin]

theorem load_stateOf (f : Facade) (ws k len : Nat) :
    f.load (stateOf ws k len) =
      { f with pending := some (stateOf ws k len), iterator := none, initialForSD := false } := by
  simp [Facade.load, stateOf_keys_ne]

theorem load_iter_mismatch (f : Facade) (ws k len : Nat) (h : ws ≠ f.numWorkers) :
    (f.load (stateOf ws k len)).iter =
      ⟨[construct f.numWorkers (some (stateOf ws k len))], .error .assertion,
       { f with pending := some (stateOf ws k len), iterator := none, initialForSD := false }⟩ := by
  rw [load_stateOf]
  exact iter_err _ rfl rfl .assertion (construct_mismatch ws f.numWorkers k len h)

theorem reset_iterOf (w : Nat) (st : Option State) : (iterOf w st).reset = iterOf w none := by
  cases st <;> rfl

theorem load_iter_match (f : Facade) (k len : Nat) :
    (f.load (stateOf f.numWorkers k len)).iter =
      ⟨if len < k ∧ f.persistent = false
          then [construct f.numWorkers (some (stateOf f.numWorkers k len)), construct f.numWorkers none]
          else [construct f.numWorkers (some (stateOf f.numWorkers k len))],
       .ok,
       { f with pending := none, initialForSD := false,
                iterator := some (if len < k then iterOf f.numWorkers none
                                  else iterOf f.numWorkers (some (stateOf f.numWorkers k len))) }⟩ := by
  rw [load_stateOf, iter_ok _ rfl rfl (construct_match f.numWorkers k len)]
  by_cases hk : len < k
  · cases hp : f.persistent <;>
      simp [iterOkOut, iterOf, stateOf_finished, hk, Iter.reset]
  · simp [iterOkOut, iterOf, stateOf_finished, hk]

end TDV.Ctor
