import TorchDataVerif.Proofs.LoaderEquiv
/-!
`Loader.refines_ref`: simulation between the flag-based `Loader` over a lawful root that delivers
`epochs`, and the list-based reference.
-/
namespace TDV.Loader
open TDV.Node

/-- The hypotheses `Lawful root` and `DeliversEpochs root epochs`, unpacked. -/
structure RootSpec (root : Node) (epochs : Nat → List Item) where
  R : Run root → Run root → Prop
  Q : root.S → root.S → Prop
  bis : Bisim root root R Q
  refl : ∀ s, Node.Reach root s → R s s
  l1 : ∀ s, Node.Reach root s → R (root.rget s).2 s
  l2 : ∀ s r, Node.Reach root s → Node.Reach root r → R (root.rreset r (some (root.rget s).1)) (root.rget s).2
  l2f : ∀ s, Node.Reach root s → R (root.rreset root.rfresh (some (root.rget s).1)) (root.rget s).2
  At : Run root → Nat → Prop
  at0 : At (root.rreset root.rfresh none) 0
  atNext : ∀ r e, Node.Reach root r → At r e → At (root.rnext r).2 e
  atGet : ∀ r e, Node.Reach root r → At r e → At (root.rget r).2 e
  atResetNone : ∀ r e, Node.Reach root r → At r e → At (root.rreset r none) (if r.nexted then e + 1 else e)
  atResetSome : ∀ r s e, Node.Reach root r → Node.Reach root s → At s e → At (root.rreset r (some (root.rget s).1)) e
  atInitSome : ∀ s e, Node.Reach root s → At s e → At (root.rreset root.rfresh (some (root.rget s).1)) e
  outs0 : ∀ k, root.outs k (root.rreset root.rfresh none) = strm (epochs 0) 0 k
  outsFresh : ∀ r e k, Node.Reach root r → At r e →
    root.outs k (root.rreset r none) = strm (epochs (if r.nexted then e + 1 else e)) 0 k

section
variable {root : Node} {epochs : Nat → List Item} (c : RootSpec root epochs)

/-- `r` is a reachable runtime state of the root, in epoch `e`, from which it delivers `epochs e` from
position `p` on. -/
structure View (r : Run root) (e p : Nat) : Prop where
  reach : Node.Reach root r
  at_ : c.At r e
  outs : ∀ k, root.outs k r = strm (epochs e) p k

/-- next position -/
def adv (l : List Item) (p : Nat) : Nat := if p < l.length then p + 1 else p

def nth (l : List Item) (p : Nat) : Out :=
  match l[p]? with
  | some v => Out.item v
  | none => Out.stop

theorem strm_succ (l : List Item) (p k : Nat) : strm l p (k + 1) = nth l p :: strm l (adv l p) k := rfl

theorem view_next {r : Run root} {e p : Nat} (h : View c r e p) :
    (root.rnext r).1 = nth (epochs e) p ∧ View c (root.rnext r).2 e (adv (epochs e) p) := by
  have h1 := h.outs 1
  simp only [Node.outs, strm] at h1
  refine ⟨by injection h1, Node.Reach.next h.reach, c.atNext r e h.reach h.at_, ?_⟩
  intro k
  have hk := h.outs (k + 1)
  simp only [Node.outs, strm_succ] at hk
  injection hk

theorem view_get {r : Run root} {e p : Nat} (h : View c r e p) : View c (root.rget r).2 e p := by
  refine ⟨Node.Reach.get h.reach, c.atGet r e h.reach h.at_, ?_⟩
  intro k
  rw [(c.bis.outs_eq k _ _ (c.l1 r h.reach)).1]
  exact h.outs k

theorem view_resetSome {r s : Run root} {e p : Nat} (hr : Node.Reach root r) (h : View c s e p) :
    View c (root.rreset r (some (root.rget s).1)) e p := by
  refine ⟨Node.Reach.resetSome hr h.reach, c.atResetSome r s e hr h.reach h.at_, ?_⟩
  intro k
  rw [(c.bis.outs_eq k _ _ (c.l2 s r h.reach hr)).1]
  exact (view_get c h).outs k

theorem view_initSome {s : Run root} {e p : Nat} (h : View c s e p) :
    View c (root.rreset root.rfresh (some (root.rget s).1)) e p := by
  refine ⟨Node.Reach.initSome h.reach, c.atInitSome s e h.reach h.at_, ?_⟩
  intro k
  rw [(c.bis.outs_eq k _ _ (c.l2f s h.reach)).1]
  exact (view_get c h).outs k

theorem view_resetNone {r : Run root} {e : Nat} (hr : Node.Reach root r) (ha : c.At r e) :
    View c (root.rreset r none) (if r.nexted then e + 1 else e) 0 :=
  ⟨Node.Reach.resetNone hr, c.atResetNone r e hr ha, fun k => c.outsFresh r e k hr ha⟩

theorem view_init : View c (root.rreset root.rfresh none) 0 0 :=
  ⟨Node.Reach.initNone, c.at0, c.outs0⟩

theorem nth_lt {l : List Item} {p : Nat} (h : p < l.length) : nth l p = Out.item l[p] ∧ adv l p = p + 1 := by
  simp [nth, adv, h]

theorem nth_ge {l : List Item} {p : Nat} (h : l.length ≤ p) : nth l p = Out.stop ∧ adv l p = p := by
  have : ¬ p < l.length := by omega
  simp [nth, adv, this]


/-- A state dict of the Loader denotes the reference token `t`. -/
def TokRel (sd : SD root) (t : Ref.RTok) : Prop :=
  ∃ s, View c s t.e t.p ∧ sd.rootSd = (root.rget s).1

/-- The iterator `it` is the reference iterator `k`. -/
inductive ItAt : It root → Ref.RIt → Prop where
  | plain (it : It root) (k : Ref.RIt) : it.cached = none → it.cachedSd = none → View c it.r k.e k.p →
      k.req = it.r.nexted → ItAt it k
  | ahead (it : It root) (k : Ref.RIt) (v : Item) (sd : SD root) : it.cached = some v → it.cachedSd = some sd →
      TokRel c sd ⟨k.e, k.p⟩ → (epochs k.e)[k.p]? = some v → View c it.r k.e (k.p + 1) →
      it.r.nexted = true → k.req = true → ItAt it k

structure Sim (s : Sys root) (t : Ref.RSys) : Prop where
  toks : LRel (TokRel c) s.toks t.toks
  pending : ORel (TokRel c) s.st.pending t.st.pending
  flag : s.st.iterForSd = t.st.reuse
  handle : s.st.handle = t.st.handle
  it : ORel (ItAt c) s.st.it t.st.cur

theorem itAt_reach {it : It root} {k : Ref.RIt} (h : ItAt c it k) : Node.Reach root it.r := by
  cases h with
  | plain _ _ hv _ => exact hv.reach
  | ahead _ _ _ _ _ _ hv _ _ => exact hv.reach

theorem itAt_at {it : It root} {k : Ref.RIt} (h : ItAt c it k) : c.At it.r k.e := by
  cases h with
  | plain _ _ hv _ => exact hv.at_
  | ahead _ _ _ _ _ _ hv _ _ => exact hv.at_

theorem itAt_req {it : It root} {k : Ref.RIt} (h : ItAt c it k) : k.req = it.r.nexted := by
  cases h with
  | plain _ _ _ hr => exact hr
  | ahead _ _ _ _ _ _ _ hn hr => rw [hn, hr]

/-- `next` on related iterators. -/
theorem itNext_sim {it : It root} {k : Ref.RIt} (h : ItAt c it k) :
    (itNext root it).1 = nth (epochs k.e) k.p ∧
      ItAt c (itNext root it).2 ⟨k.e, adv (epochs k.e) k.p, true⟩ := by
  cases h with
  | plain hc hs hv hr =>
    have hn := view_next c hv
    unfold itNext
    rw [hc]
    simp only
    unfold itPull
    rw [hn.1]
    rcases Nat.lt_or_ge k.p (epochs k.e).length with hlt | hge
    · rw [(nth_lt hlt).1]
      refine ⟨rfl, ItAt.plain _ _ hc hs ?_ rfl⟩
      exact hn.2
    · rw [(nth_ge hge).1]
      refine ⟨rfl, ItAt.plain _ _ hc hs ?_ rfl⟩
      exact hn.2
  | ahead v sd hc hs ht hv hw hn hr =>
    have hlt : k.p < (epochs k.e).length := by
      rcases Nat.lt_or_ge k.p (epochs k.e).length with hlt | hge
      · exact hlt
      · simp [List.getElem?_eq_none hge] at hv
    unfold itNext
    rw [hc]
    simp only
    refine ⟨?_, ItAt.plain _ _ rfl rfl ?_ hn.symm⟩
    · simp [nth, hv]
    · rw [(nth_lt hlt).2]
      exact hw

/-- `state_dict()` on related iterators. -/
theorem itGet_sim {it : It root} {k : Ref.RIt} (h : ItAt c it k) :
    TokRel c (itGet root it).1 ⟨k.e, k.p⟩ ∧ ItAt c (itGet root it).2 k := by
  cases h with
  | plain hc hs hv hr =>
    unfold itGet
    rw [hs]
    exact ⟨⟨it.r, hv, rfl⟩, ItAt.plain _ _ hc rfl (view_get c hv) hr⟩
  | ahead v sd hc hs ht hv hw hn hr =>
    unfold itGet
    rw [hs]
    exact ⟨ht, ItAt.ahead _ _ v sd hc hs ht hv hw hn hr⟩


/-- `has_next()` right after a reset, spelled out. -/
theorem itHasNext_reset (r : Run root) (ny : Nat) :
    itHasNext root ⟨r, ny, none, none⟩ =
      match (root.rnext (root.rget r).2).1 with
      | .item v => (.yes, ⟨(root.rnext (root.rget r).2).2, ny + 1, some v, some ⟨(root.rget r).1, ny⟩⟩)
      | .stop => (.no, ⟨(root.rnext (root.rget r).2).2, ny, none, none⟩)
      | .error e => (.err e, ⟨(root.rnext (root.rget r).2).2, ny, none, some ⟨(root.rget r).1, ny⟩⟩) := by
  simp only [itHasNext, itGet, itPull]
  cases (root.rnext (root.rget r).2).1 <;> rfl

/-- Applying a loaded state (`__iter__` with `_next_iter_state_dict`). -/
theorem resume_sim (restart flag : Bool) {it0 : It root} {sd : SD root} {t : Ref.RTok}
    (hr : Node.Reach root it0.r ∨ it0.r = root.rfresh) (ht : TokRel c sd t) :
    (startIt root restart (some sd) flag it0).err = none ∧
    (startIt root restart (some sd) flag it0).pending = none ∧
    (startIt root restart (some sd) flag it0).iterForSd = flag ∧
    ItAt c (startIt root restart (some sd) flag it0).it
      (if restart && decide ((epochs t.e).length ≤ t.p) then ⟨t.e + 1, 0, false⟩ else ⟨t.e, t.p, restart⟩) := by
  obtain ⟨s, hv, hsd⟩ := ht
  have hv1 : View c (root.rreset it0.r (some sd.rootSd)) t.e t.p := by
    rw [hsd]
    rcases hr with hr | hr
    · exact view_resetSome c hr hv
    · rw [hr]
      exact view_initSome c hv
  cases restart with
  | false =>
    simp only [startIt, Bool.false_and]
    exact ⟨rfl, rfl, rfl, ItAt.plain _ _ rfl rfl hv1 rfl⟩
  | true =>
    have hg := view_get c hv1
    have hn := view_next c hg
    simp only [startIt, itReset, itHasNext_reset, if_true, Bool.true_and]
    rcases Nat.lt_or_ge t.p (epochs t.e).length with hlt | hge
    · have hd : decide ((epochs t.e).length ≤ t.p) = false := by simp; omega
      rw [hn.1, (nth_lt hlt).1, hd]
      refine ⟨rfl, rfl, rfl, ItAt.ahead _ _ (epochs t.e)[t.p] _ rfl rfl ⟨_, hv1, rfl⟩ ?_ ?_ rfl rfl⟩
      · simp [List.getElem?_eq_getElem hlt]
      · have := hn.2
        rw [(nth_lt hlt).2] at this
        exact this
    · have hd : decide ((epochs t.e).length ≤ t.p) = true := by simp; omega
      rw [hn.1, (nth_ge hge).1, hd]
      refine ⟨rfl, rfl, rfl, ?_⟩
      have := view_resetNone c hn.2.reach hn.2.at_
      exact ItAt.plain _ _ rfl rfl this rfl

/-- A new full epoch on an existing iterator. -/
theorem restart_sim {it0 : It root} {k : Ref.RIt} (h : ItAt c it0 k) :
    ItAt c (itReset root it0 none) ⟨if k.req then k.e + 1 else k.e, 0, false⟩ := by
  have := view_resetNone c (itAt_reach c h) (itAt_at c h)
  rw [← itAt_req c h] at this
  exact ItAt.plain _ _ rfl rfl this rfl

/-- The first epoch of a new loader. -/
theorem first_sim : ItAt c (itReset root (newIt root root.rfresh) none) ⟨0, 0, false⟩ :=
  ItAt.plain _ _ rfl rfl (view_init c) rfl


/-- The iterator that `__iter__` (re)starts is the one the reference starts. -/
theorem startIt_sim (restart flag : Bool) {oit : Option (It root)} {cur : Option Ref.RIt}
    {pd : Option (SD root)} {rpd : Option Ref.RTok} (bs : Run root) (reuse hd : Bool)
    (hit : ORel (ItAt c) oit cur) (hpd : ORel (TokRel c) pd rpd)
    (hb : oit = none → (Node.Reach root bs ∨ bs = root.rfresh) ∧ (pd = none → bs = root.rfresh)) :
    (startIt root restart pd flag (itOr bs oit)).err = none ∧
    (startIt root restart pd flag (itOr bs oit)).pending = none ∧
    (startIt root restart pd flag (itOr bs oit)).iterForSd = flag ∧
    ItAt c (startIt root restart pd flag (itOr bs oit)).it
      (Ref.start epochs restart restart ⟨cur, rpd, reuse, hd⟩) := by
  cases pd with
  | some sd =>
    cases rpd with
    | none => exact absurd hpd (by simp [ORel])
    | some tk =>
      have hr : Node.Reach root (itOr bs oit).r ∨
          (itOr bs oit).r = root.rfresh := by
        cases oit with
        | none => exact (hb rfl).1
        | some it =>
          cases cur with
          | none => exact absurd hit (by simp [ORel])
          | some k => exact Or.inl (itAt_reach c hit)
      exact resume_sim c restart flag hr hpd
  | none =>
    cases rpd with
    | some tk => exact absurd hpd (by simp [ORel])
    | none =>
      cases oit with
      | none =>
        cases cur with
        | some k => exact absurd hit (by simp [ORel])
        | none =>
          have hbs := (hb rfl).2 rfl
          subst hbs
          exact ⟨rfl, rfl, rfl, first_sim c⟩
      | some it =>
        cases cur with
        | none => exact absurd hit (by simp [ORel])
        | some k => exact ⟨rfl, rfl, rfl, restart_sim c hit⟩


/-- State-level part of `Sim`. -/
structure SimSt (s : State root) (t : Ref.RState) : Prop where
  pending : ORel (TokRel c) s.pending t.pending
  flag : s.iterForSd = t.reuse
  handle : s.handle = t.handle
  it : ORel (ItAt c) s.it t.cur
  /-- while no iterator exists the root is untouched, or a load is pending (the iterator created for a
  `state_dict()` was dropped by that load) -/
  base : s.it = none → (Node.Reach root s.base ∨ s.base = root.rfresh) ∧ (s.pending = none → s.base = root.rfresh)

theorem iterCore_sim (restart : Bool) {s : State root} {t : Ref.RState} (h : SimSt c s t) :
    (iterCore root restart s).err = none ∧
    SimSt c ⟨some (iterCore root restart s).it, (iterCore root restart s).pending,
        (iterCore root restart s).iterForSd, true, s.base⟩ (Ref.iter epochs restart restart t) := by
  obtain ⟨it, pd, fl, hd, bs⟩ := s
  obtain ⟨cur, rpd, reuse, rhd⟩ := t
  have hp := h.pending
  have hf := h.flag
  have hi := h.it
  have hb := h.base
  simp only at hp hf hi hb
  subst hf
  rw [iterCore_eq]
  cases it with
  | none =>
    cases cur with
    | some k => exact absurd hi (by simp [ORel])
    | none =>
      have hs := startIt_sim c restart fl bs fl rhd hi hp hb
      simp only [Ref.iter]
      refine ⟨hs.1, ?_, ?_, rfl, ?_, (fun h => nomatch h)⟩
      · simp only [hs.2.1, ORel]
      · simp only [hs.2.2.1]
      · exact hs.2.2.2
  | some i =>
    cases cur with
    | none => exact absurd hi (by simp [ORel])
    | some k =>
      cases fl with
      | true => exact ⟨rfl, hp, rfl, rfl, hi, (fun h => nomatch h)⟩
      | false =>
        have hs := startIt_sim c restart false bs false rhd hi hp hb
        simp only [Ref.iter]
        refine ⟨hs.1, ?_, ?_, rfl, ?_, (fun h => nomatch h)⟩
        · simp only [hs.2.1, ORel]
        · simp only [hs.2.2.1]
        · exact hs.2.2.2

theorem iter_sim (restart : Bool) {s : State root} {t : Ref.RState} (h : SimSt c s t) :
    (iter root restart s).1 = Obs.ok ∧ SimSt c (iter root restart s).2 (Ref.iter epochs restart restart t) := by
  have hc := iterCore_sim c restart h
  unfold iter
  rw [hc.1]
  exact ⟨rfl, hc.2⟩

theorem ref_iter_fields (restart : Bool) (t : Ref.RState) :
    (Ref.iter epochs restart restart t).handle = true := by
  obtain ⟨cur, rpd, reuse, rhd⟩ := t
  cases cur <;> cases reuse <;> rfl

theorem stateDict_sim (restart : Bool) {s : State root} {t : Ref.RState} (h : SimSt c s t) :
    ∃ sd, (stateDict root restart s).1 = Except.ok sd ∧
      TokRel c sd (Ref.stateDict epochs restart restart t).1 ∧
      SimSt c (stateDict root restart s).2 (Ref.stateDict epochs restart restart t).2 := by
  obtain ⟨it, pd, fl, hd, bs⟩ := s
  obtain ⟨cur, rpd, reuse, rhd⟩ := t
  have hp := h.pending
  have hf := h.flag
  have hh := h.handle
  have hi := h.it
  have hb := h.base
  simp only at hp hf hh hi hb
  cases it with
  | some i =>
    cases cur with
    | none => exact absurd hi (by simp [ORel])
    | some k =>
      have hg := itGet_sim c hi
      exact ⟨_, rfl, hg.1, hp, hf, hh, hg.2, (fun h => nomatch h)⟩
  | none =>
    cases cur with
    | some k => exact absurd hi (by simp [ORel])
    | none =>
      have hs := startIt_sim c restart fl bs reuse rhd hi hp hb
      have he : (iterCore root restart ⟨none, pd, fl, hd, bs⟩).err = none := hs.1
      have hg := itGet_sim c hs.2.2.2
      simp only [stateDict, he]
      refine ⟨_, rfl, hg.1, ?_, rfl, hh, hg.2, (fun h => nomatch h)⟩
      show ORel (TokRel c) (startIt root restart pd fl (itOr bs none)).pending none
      rw [hs.2.1]
      trivial

theorem ref_next_eq (t : Ref.RState) (k : Ref.RIt) (hh : t.handle = true) (hc : t.cur = some k) :
    Ref.next epochs t = (Obs.out (nth (epochs k.e) k.p),
      { t with cur := some ⟨k.e, adv (epochs k.e) k.p, true⟩ }) := by
  obtain ⟨cur, rpd, reuse, rhd⟩ := t
  simp only at hh hc
  subst hh hc
  simp only [Ref.next, nth, adv]
  cases hv : (epochs k.e)[k.p]? with
  | none =>
    have : ¬ k.p < (epochs k.e).length := by
      intro hlt
      simp [List.getElem?_eq_getElem hlt] at hv
    simp [this]
  | some v =>
    have : k.p < (epochs k.e).length := by
      rcases Nat.lt_or_ge k.p (epochs k.e).length with hlt | hge
      · exact hlt
      · simp [List.getElem?_eq_none hge] at hv
    simp [this]

theorem next_sim {s : State root} {t : Ref.RState} (h : SimSt c s t) :
    (next root s).1 = (Ref.next epochs t).1 ∧ SimSt c (next root s).2 (Ref.next epochs t).2 := by
  obtain ⟨it, pd, fl, hd, bs⟩ := s
  obtain ⟨cur, rpd, reuse, rhd⟩ := t
  have hp := h.pending
  have hf := h.flag
  have hh := h.handle
  have hi := h.it
  simp only at hp hf hh hi
  subst hh
  cases hd with
  | false => exact ⟨rfl, h⟩
  | true =>
    cases it with
    | none =>
      cases cur with
      | some k => exact absurd hi (by simp [ORel])
      | none => exact ⟨rfl, h⟩
    | some i =>
      cases cur with
      | none => exact absurd hi (by simp [ORel])
      | some k =>
        have hn := itNext_sim c hi
        rw [ref_next_eq ⟨some k, rpd, reuse, true⟩ k rfl rfl]
        simp only [next]
        exact ⟨by rw [hn.1], hp, hf, rfl, hn.2, (fun h => nomatch h)⟩

theorem load_sim {s : State root} {t : Ref.RState} (h : SimSt c s t) {a : SD root} {b : Ref.RTok}
    (hab : TokRel c a b) : SimSt c (load root s a) (Ref.load t b) := by
  obtain ⟨it, pd, fl, hd, bs⟩ := s
  obtain ⟨cur, rpd, reuse, rhd⟩ := t
  have hf := h.flag
  have hh := h.handle
  have hi := h.it
  have hb := h.base
  simp only at hf hh hi hb
  subst hf hh
  cases fl with
  | false =>
    refine ⟨hab, rfl, rfl, hi, ?_⟩
    intro h0
    exact ⟨(hb h0).1, (fun hc => nomatch hc)⟩
  | true =>
    cases it with
    | none =>
      cases cur with
      | some k => exact absurd hi (by simp [ORel])
      | none =>
        refine ⟨hab, rfl, rfl, trivial, ?_⟩
        intro h0
        exact ⟨(hb h0).1, (fun hc => nomatch hc)⟩
    | some i =>
      cases cur with
      | none => exact absurd hi (by simp [ORel])
      | some k =>
        refine ⟨hab, rfl, rfl, trivial, ?_⟩
        intro _
        exact ⟨Or.inl (itAt_reach c hi), (fun hc => nomatch hc)⟩

theorem simSt_init : SimSt c (State.init root) Ref.RState.init :=
  ⟨trivial, rfl, rfl, trivial, fun _ => ⟨Or.inr rfl, fun _ => rfl⟩⟩

theorem step_sim (restart : Bool) {s : Sys root} {t : Ref.RSys}
    (ht : LRel (TokRel c) s.toks t.toks) (hs : SimSt c s.st t.st) (op : Op) :
    (step root restart s op).1 = (Ref.step epochs restart restart t op).1 ∧
    LRel (TokRel c) (step root restart s op).2.toks (Ref.step epochs restart restart t op).2.toks ∧
    SimSt c (step root restart s op).2.st (Ref.step epochs restart restart t op).2.st := by
  cases op with
  | iter =>
    have h := iter_sim c restart hs
    exact ⟨h.1, ht, h.2⟩
  | next =>
    have h := next_sim c hs
    exact ⟨h.1, ht, h.2⟩
  | stateDict =>
    obtain ⟨sd, h1, h2, h3⟩ := stateDict_sim c restart hs
    simp only [step, Ref.step, h1]
    exact ⟨trivial, lrel_append ht h2, h3⟩
  | peek =>
    obtain ⟨sd, h1, h2, h3⟩ := stateDict_sim c restart hs
    simp only [step, Ref.step, h1]
    exact ⟨trivial, ht, h3⟩
  | load i =>
    have hg := lrel_get ht i
    simp only [step, Ref.step]
    cases h1 : s.toks[i]? with
    | none =>
      cases h2 : t.toks[i]? with
      | none => exact ⟨rfl, ht, hs⟩
      | some b => rw [h1, h2] at hg; exact absurd hg (by simp [ORel])
    | some a =>
      cases h2 : t.toks[i]? with
      | none => rw [h1, h2] at hg; exact absurd hg (by simp [ORel])
      | some b =>
        rw [h1, h2] at hg
        exact ⟨rfl, ht, load_sim c hs hg⟩
  | abandon => exact ⟨rfl, ht, hs.pending, hs.flag, rfl, hs.it, hs.base⟩
  | fresh => exact ⟨rfl, ht, simSt_init c⟩

theorem obs_sim (restart : Bool) (ops : List Op) {s : Sys root} {t : Ref.RSys}
    (ht : LRel (TokRel c) s.toks t.toks) (hs : SimSt c s.st t.st) :
    obs root restart s ops = Ref.obs epochs restart restart t ops := by
  induction ops generalizing s t with
  | nil => rfl
  | cons op ops ih =>
    have h := step_sim c restart ht hs op
    simp only [obs, Ref.obs]
    rw [h.1, ih h.2.1 h.2.2]

theorem exec_sim (restart : Bool) (ops : List Op) {s : Sys root} {t : Ref.RSys}
    (ht : LRel (TokRel c) s.toks t.toks) (hs : SimSt c s.st t.st) :
    SimSt c (exec root restart s ops).st (Ref.exec epochs restart restart t ops).st := by
  induction ops generalizing s t with
  | nil => exact hs
  | cons op ops ih =>
    have h := step_sim c restart ht hs op
    exact ih h.2.1 h.2.2

/-- After every history the root of the Loader is in the epoch the reference counts. -/
theorem epoch_counter_aux (restart : Bool) (ops : List Op) :
    ORel (fun it k => c.At it.r k.e) (exec root restart (Sys.init root) ops).st.it
      (Ref.exec epochs restart restart Ref.RSys.init ops).st.cur := by
  have h := (exec_sim c restart ops (s := Sys.init root) (t := Ref.RSys.init)
    ⟨rfl, by intro i a b h; simp [Sys.init] at h⟩ (simSt_init c)).it
  revert h
  cases (exec root restart (Sys.init root) ops).st.it <;>
    cases (Ref.exec epochs restart restart Ref.RSys.init ops).st.cur <;> simp only [ORel] <;> intro h
  · trivial
  · exact h
  · exact h
  · exact itAt_at c h

end

/-- Unpack the two hypotheses. -/
theorem rootSpec_of {root : Node} {epochs : Nat → List Item} (hl : Lawful root)
    (hd : DeliversEpochs root epochs) : Nonempty (RootSpec root epochs) := by
  obtain ⟨R, Q, hb, h0, h1, h2, h3⟩ := hl
  obtain ⟨At, a0, a1, a2, a3, a4, a5, a6, a7⟩ := hd
  exact ⟨⟨R, Q, hb, h0, h1, h2, h3, At, a0, a1, a2, a3, a4, a5, a6, a7⟩⟩

theorem refines_ref_aux (root : Node) (epochs : Nat → List Item) (restart : Bool) (hl : Lawful root)
    (hd : DeliversEpochs root epochs) (ops : List Op) :
    obs root restart (Sys.init root) ops = Ref.obs epochs restart restart Ref.RSys.init ops := by
  obtain ⟨c⟩ := rootSpec_of hl hd
  exact obs_sim c restart ops ⟨rfl, by intro i a b h; simp [Sys.init] at h⟩ (simSt_init c)

end TDV.Loader
