import TorchDataVerif.Proofs.PMInvAll
import TorchDataVerif.Proofs.PMReleased
/-! `Gen`: iterator generations.  Every generation (the live one and the abandoned ones whose threads are still
draining) satisfies `Inv`; abandoned generations have both stop events set. -/
namespace TDV.PM
variable {c : Cfg} {s s' : State}

/-- Background threads never touch the consumer's program counter or the stop events. -/
theorem bg_frame {a : Action} (hb : a.isBackground = true) (h : step c s a = some s') :
    s'.cpc = s.cpc ∧ s'.stop = s.stop ∧ s'.mpstop = s.mpstop := by
  cases a <;> simp [Action.isBackground] at hb <;> simp only [step] at h
  case rInit => obtain ⟨_, rfl⟩ := spec_rInit.mp h; simp
  case rIsSet => obtain ⟨_, rfl⟩ := spec_rIsSet.mp h; simp
  case rAcq => obtain ⟨_, _, rfl⟩ := spec_rAcq.mp h; simp
  case rAcqT => obtain ⟨_, _, rfl⟩ := spec_rAcqT.mp h; simp
  case rEnter => obtain ⟨_, rfl⟩ := spec_rEnter.mp h; simp
  case rLeave => obtain ⟨_, rfl⟩ := spec_rLeave.mp h; simp
  case rAppend => obtain ⟨v, i, _, rfl⟩ := spec_rAppend.mp h; simp
  case rPut => obtain ⟨m, _, rfl⟩ := spec_rPut.mp h; simp
  case rRet => obtain ⟨_, rfl⟩ := spec_rRet.mp h; simp
  case wIsSet i => obtain ⟨_, rfl⟩ := (spec_wIsSet i).mp h; simp
  case wEmpty i => obtain ⟨_, rfl⟩ := (spec_wEmpty i).mp h; simp
  case wGet i => obtain ⟨m, rest, _, _, rfl⟩ := (spec_wGet i).mp h; simp
  case wGetT i => obtain ⟨_, _, rfl⟩ := (spec_wGetT i).mp h; simp
  case wPut i => obtain ⟨m, _, rfl⟩ := (spec_wPut i).mp h; simp
  case wDie i =>
    obtain ⟨_, hh⟩ := (spec_wDie i).mp h
    rcases hh with ⟨m, _, rfl⟩ | ⟨_, rfl⟩ <;> simp
  case sIsSet => obtain ⟨_, rfl⟩ := spec_sIsSet.mp h; simp
  case sGet => obtain ⟨m, rest, _, _, rfl⟩ := spec_sGet.mp h; simp
  case sGetT => obtain ⟨_, _, rfl⟩ := spec_sGetT.mp h; simp
  case sHave =>
    obtain ⟨m, _, rfl⟩ := spec_sHave.mp h
    split
    · simp
    · split <;> simp
  case sDrain =>
    obtain ⟨_, rfl⟩ := spec_sDrain.mp h
    cases bufTake s.cur s.buf with
    | none => simp
    | some p => simp

/-- After `_shutdown` both events are set. -/
def ClosedMp (s : State) : Prop := s.cpc = .closed → s.stop = true ∧ s.mpstop = true

theorem closedMp_step (hi : Inv c s) (hc : ClosedMp s) {a : Action} (h : step c s a = some s') : ClosedMp s' := by
  by_cases hb : a.isBackground = true
  · obtain ⟨h1, h2, h3⟩ := bg_frame hb h
    intro hcl
    rw [h1] at hcl
    rw [h2, h3]
    exact hc hcl
  · cases a <;> simp [Action.isBackground] at hb <;> simp only [step] at h
    case cBoot => obtain ⟨_, _, rfl⟩ := spec_cBoot.mp h; simp [ClosedMp]
    case cBootT => obtain ⟨_, _, rfl⟩ := spec_cBootT.mp h; exact hc
    case cCall => obtain ⟨_, rfl⟩ := spec_cCall.mp h; simp [ClosedMp]
    case cIsSet => obtain ⟨_, rfl⟩ := spec_cIsSet.mp h; split <;> simp [ClosedMp]
    case cMpIsSet => obtain ⟨_, rfl⟩ := spec_cMpIsSet.mp h; split <;> simp [ClosedMp]
    case cChk => obtain ⟨_, rfl⟩ := spec_cChk.mp h; cases (s.done && decide (s.sem = c.max)) <;> simp [ClosedMp]
    case cSet => obtain ⟨_, rfl⟩ := spec_cSet.mp h; simp [ClosedMp]
    case cMpSet => obtain ⟨_, rfl⟩ := spec_cMpSet.mp h; simp [ClosedMp]
    case cGet =>
      obtain ⟨m, rest, _, _, rfl⟩ := spec_cGet.mp h
      cases m.pay <;> simp [ClosedMp]
    case cGetT =>
      obtain ⟨_, _, rfl⟩ := spec_cGetT.mp h
      unfold afterEmpty
      split
      · simp [ClosedMp]
      · split <;> simp [ClosedMp]
    case cDeadIsSet => obtain ⟨_, rfl⟩ := spec_cDeadIsSet.mp h; split <;> simp [ClosedMp]
    case cDeadMpIsSet => obtain ⟨_, rfl⟩ := spec_cDeadMpIsSet.mp h; split <;> simp [ClosedMp]
    case cDeadSet => obtain ⟨_, rfl⟩ := spec_cDeadSet.mp h; simp [ClosedMp]
    case cDeadMpSet => obtain ⟨_, rfl⟩ := spec_cDeadMpSet.mp h; simp [ClosedMp]
    case cRel => obtain ⟨m, _, _, rfl⟩ := spec_cRel.mp h; cases m.pay <;> simp [ClosedMp]
    case cPop => obtain ⟨m, y, _, _, rfl⟩ := spec_cPop.mp h; simp [ClosedMp]
    case cShutSet => obtain ⟨_, rfl⟩ := spec_cShutSet.mp h; simp [ClosedMp]
    case cShutMpSet =>
      obtain ⟨h1, rfl⟩ := spec_cShutMpSet.mp h
      intro _
      exact ⟨hi.stopOf (Or.inr (Or.inl h1)), rfl⟩

/-- invariant of the generation layer -/
structure GInv (c : Cfg) (g : GState) : Prop where
  cur : Inv c g.cur
  curMp : ClosedMp g.cur
  old : ∀ s ∈ g.old, Inv c s ∧ s.cpc = .closed ∧ s.stop = true ∧ s.mpstop = true

theorem ginv_init (c : Cfg) : GInv c (ginit c) :=
  ⟨inv_init c, by simp [ClosedMp, ginit, init], by simp [ginit]⟩

theorem ginv_step {g g' : GState} (h : GInv c g) {a : GAction} (hs : gstep c g a = some g') : GInv c g' := by
  cases a
  case cur a =>
    simp only [gstep] at hs
    cases hst : step c g.cur a with
    | none => simp [hst] at hs
    | some s1 =>
      simp [hst] at hs; subst hs
      exact ⟨inv_step h.cur hst, closedMp_step h.cur h.curMp hst, h.old⟩
  case old i a =>
    simp only [gstep] at hs
    split at hs
    · rename_i hb
      cases hi : g.old[i]? with
      | none => simp [hi] at hs
      | some s0 =>
        simp only [hi] at hs
        cases hst : step c s0 a with
        | none => simp [hst] at hs
        | some s1 =>
          simp [hst] at hs; subst hs
          refine ⟨h.cur, h.curMp, ?_⟩
          intro x hx
          rcases mem_set_of hx with rfl | hx
          · obtain ⟨h1, h2, h3, h4⟩ := h.old s0 (mem_of_getElem? hi)
            obtain ⟨f1, f2, f3⟩ := bg_frame hb hst
            exact ⟨inv_step h1 hst, by rw [f1, h2], by rw [f2, h3], by rw [f3, h4]⟩
          · exact h.old x hx
    · simp at hs
  case joinOk =>
    simp only [gstep] at hs
    split at hs
    · simp at hs; subst hs; exact h
    · simp at hs
  case joinGiveUp =>
    simp only [gstep] at hs
    split at hs
    · simp at hs; subst hs; exact ⟨h.cur, h.curMp, h.old⟩
    · simp at hs
  case renew =>
    simp only [gstep] at hs
    split at hs
    · rename_i hcl
      simp at hs; subst hs
      refine ⟨inv_init c, by simp [ClosedMp, init], ?_⟩
      intro x hx
      simp at hx
      rcases hx with rfl | hx
      · have := h.curMp hcl
        exact ⟨h.cur, hcl, this.1, this.2⟩
      · exact h.old x hx
    · simp at hs

theorem ginv_run : ∀ (tr : List GAction) {g g' : GState}, GInv c g → grun c g tr = some g' → GInv c g'
  | [], g, g', h, hr => by simp [grun] at hr; subst hr; exact h
  | a :: tr, g, g', h, hr => by
    simp only [grun] at hr
    cases hs : gstep c g a with
    | none => simp [hs] at hr
    | some g1 =>
      simp only [hs] at hr
      exact ginv_run tr (ginv_step h hs) hr

end TDV.PM
