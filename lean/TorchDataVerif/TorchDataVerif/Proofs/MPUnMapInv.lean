import TorchDataVerif.Proofs.MPUnMapStep
/-!
# MPU, `in_order = False`, map-style: the invariant along every schedule of one epoch
-/
namespace TDV.MPU
open TDV.MP

def itemAt (c : Cfg) (i : Nat) : Item := c.batches.getD i .err

/-- Active iterator. -/
structure ActM (c : Cfg) (s : State) (D : List Nat) : Prop where
  mid : MidUM0 c s D
  live : LiveM c s
  sh : s.shutdown = false
  fin : Obs.stop ∈ s.obs → s.sendIdx = c.batches.length ∧ s.info = []

/-- After the epoch (non-persistent workers are shut down). -/
structure DoneM (c : Cfg) (s : State) (D : List Nat) : Prop where
  sh : s.shutdown = true
  le : s.sendIdx ≤ s.rcvdIdx
  ph : s.phase = .idle
  dnd : D.Nodup
  dall : ∀ i, i ∈ D ↔ i < c.batches.length

def InvUM (c : Cfg) (s : State) : Prop :=
  ∃ D : List Nat, ObsRel (D.map (itemAt c)) (taskObs s.obs) ∧ (∀ k, s.phase ≠ .resuming k) ∧
    (ActM c s D ∨ DoneM c s D)

/-- What the property theorems use. -/
theorem InvUM_goal (c : Cfg) (s : State) (h : InvUM c s) :
    ∃ D : List Nat, D.Nodup ∧ (∀ i ∈ D, i < c.batches.length) ∧ ObsRel (D.map (itemAt c)) (taskObs s.obs) ∧
      (Obs.stop ∈ s.obs → ∀ i, i < c.batches.length → i ∈ D) := by
  obtain ⟨D, ho, _, ha | hd⟩ := h
  · refine ⟨D, ha.mid.dnd, fun i hi => Nat.lt_of_lt_of_le (ha.mid.ddis i hi).1 ha.mid.le, ho, ?_⟩
    intro hstop i hi
    obtain ⟨h1, h2⟩ := ha.fin hstop
    rcases ha.mid.dcov i (by omega) with h3 | ⟨e, he, _⟩
    · exact h3
    · rw [h2] at he; cases he
  · exact ⟨D, hd.dnd, fun i hi => (hd.dall i).mp hi, ho, fun _ i hi => (hd.dall i).mpr hi⟩

theorem taskObs_snoc_other (l : List Obs) (o : Obs) (h : taskObs [o] = []) : taskObs (l ++ [o]) = taskObs l := by
  rw [taskObs_append, h, List.append_nil]

theorem InvUM_work (c : Cfg) (s s' : State) (w : Nat) (hm : c.iterable = false) (h : InvUM c s)
    (hst : step c s (.work w) = some s') : InvUM c s' := by
  obtain ⟨D, ho, hph, ha | hd⟩ := h
  · obtain ⟨h1, e1, e2, e3, e4, e5⟩ := MidUM0_work c s s' D w hm ha.mid hst
    refine ⟨D, by rw [e3]; exact ho, by rw [e4]; exact hph, Or.inl ⟨h1, ?_, by rw [e5]; exact ha.sh, ?_⟩⟩
    · intro hlt; rw [e1]; rw [e2] at hlt; exact ha.live hlt
    · rw [e3, e2, e1]; exact ha.fin
  · obtain ⟨_, _, _, _, _, _, _, _, _, _, _, _, e6, e7, e8, e9, e10, _⟩ := work_shape c s s' w hst
    exact ⟨D, by rw [e8]; exact ho, by rw [e9]; exact hph,
      Or.inr ⟨by rw [e10]; exact hd.sh, by rw [e6, e7]; exact hd.le, by rw [e9]; exact hd.ph, hd.dnd, hd.dall⟩⟩

theorem InvUM_kill (c : Cfg) (s s' : State) (w : Nat) (h : InvUM c s) (hst : step c s (.kill w) = some s') :
    InvUM c s' := by
  obtain ⟨D, ho, hph, ha | hd⟩ := h
  · obtain ⟨hc, k, hk, rfl⟩ := UCore_kill c s s' w ha.mid.core hst
    refine ⟨D, ho, hph, Or.inl ⟨⟨hc, ha.mid.status, ha.mid.sp, ha.mid.le, ha.mid.sum, ?_, ha.mid.rkind, ha.mid.dnd,
      ha.mid.ddis, ha.mid.dcov⟩, ha.live, ha.sh, ha.fin⟩⟩
    intro v kv hkv i p sn hmem
    simp only [List.getElem?_set] at hkv
    split at hkv
    · split at hkv
      · cases hkv; rename_i hwv _; subst hwv; exact ha.mid.qtask w k hk i p sn hmem
      · cases hkv
    · exact ha.mid.qtask v kv hkv i p sn hmem
  · simp only [step] at hst
    split at hst
    · cases hst
    · split at hst
      · cases hst
      · cases hst
        exact ⟨D, ho, hph, Or.inr ⟨hd.sh, hd.le, hd.ph, hd.dnd, hd.dall⟩⟩

theorem InvUM_stateDict (c : Cfg) (s s' : State) (h : InvUM c s) (hst : step c s .stateDict = some s') :
    InvUM c s' := by
  obtain ⟨D, ho, hph, hcase⟩ := h
  simp only [step] at hst
  split at hst
  · cases hst
  · cases hst
    refine ⟨D, by rw [taskObs_snoc_other _ _ rfl]; exact ho, hph, ?_⟩
    rcases hcase with ha | hd
    · refine Or.inl ⟨MidUM0_of_eq c s _ D ha.mid (UCore_of_eq c s _ ha.mid.core rfl rfl rfl ha.mid.core.cyc rfl rfl rfl rfl)
        rfl rfl rfl rfl rfl rfl rfl, ha.live, ha.sh, ?_⟩
      intro hstop
      apply ha.fin
      rcases List.mem_append.mp hstop with h1 | h1
      · exact h1
      · simp at h1
    · exact Or.inr ⟨hd.sh, hd.le, hd.ph, hd.dnd, hd.dall⟩

theorem MidUM0_skiprel (c : Cfg) (hv : c.Valid) (s t : State) (D : List Nat) (h : MidUM0 c s D) (hc : UCore c t)
    (hr : SkipRel s t) : MidUM0 c t D ∧ t.info = s.info := by
  have hk : t.info = s.info := hr.keep (fun e he => upM c s h.status e.w (h.core.irng e he).2.2)
  exact ⟨MidUM0_of_eq c s t D h hc hr.same.status hr.same.samplerPos hr.same.sendIdx hr.same.numTasks hk
    hr.same.workers hr.same.resQ, hk⟩

theorem shutdownWorkers_noop (c : Cfg) (s : State) (h : s.shutdown = true) : shutdownWorkers c s = s := by
  simp [shutdownWorkers, h]

theorem InvUM_next (c : Cfg) (hv : c.Valid) (s s' : State) (h : InvUM c s) (hst : step c s .next = some s') :
    InvUM c s' := by
  obtain ⟨D, ho, hph, ha | hd⟩ := h
  · simp only [step] at hst
    split at hst
    · cases hst
    · cases hst
      obtain ⟨t, b, hc, hr, hcase⟩ := loop_un c (loopFuel s) s ha.mid.core
      obtain ⟨hmid, hinfo⟩ := MidUM0_skiprel c hv s t D ha.mid hc hr
      rcases hcase with he | ⟨hnil, hle, he⟩
      · rw [he]
        refine ⟨D, by simp only [finish]; rw [hr.same.obs]; exact ho, by simp [finish], Or.inl ⟨?_, ?_, ?_, ?_⟩⟩
        · exact MidUM0_of_eq c t _ D hmid (UCore_of_eq c t _ hc rfl rfl rfl hc.cyc rfl rfl rfl rfl)
            rfl rfl rfl rfl rfl rfl rfl
        · intro hlt
          simp only [finish] at hlt ⊢
          rw [hinfo]; rw [hr.same.sendIdx] at hlt; exact ha.live hlt
        · simp only [finish]; rw [hr.same.shutdown]; exact ha.sh
        · simp only [finish]; rw [hr.same.obs, hr.same.sendIdx, hinfo]; exact ha.fin
      · rw [he]
        have hN : t.sendIdx = c.batches.length := by
          have h1 := hmid.le
          by_cases hlt : t.sendIdx < c.batches.length
          · have := ha.live (by rw [← hr.same.sendIdx]; exact hlt)
            rw [← hinfo, hnil] at this; exact absurd rfl this
          · omega
        have hobs : ObsRel (D.map (itemAt c)) (taskObs (t.obs ++ [Obs.stop])) := by
          rw [taskObs_snoc_other _ _ rfl, hr.same.obs]; exact ho
        by_cases hp : c.persistent = true
        · simp only [hp, if_true, finish]
          refine ⟨D, hobs, by simp, Or.inl ⟨?_, ?_, ?_, ?_⟩⟩
          · exact MidUM0_of_eq c t _ D hmid (UCore_of_eq c t _ hc rfl rfl rfl hc.cyc rfl rfl rfl rfl)
              rfl rfl rfl rfl rfl rfl rfl
          · intro hlt; simp only at hlt; omega
          · simp only; rw [hr.same.shutdown]; exact ha.sh
          · intro _; exact ⟨hN, hnil⟩
        · have hpf : c.persistent = false := by simpa using hp
          simp only [hpf, Bool.false_eq_true, if_false, finish]
          have hsm := shutdownWorkers_sameMain c t
          refine ⟨D, by rw [hsm.obs]; exact hobs, by simp, Or.inr ⟨shutdownWorkers_shutdown c t, ?_, rfl, hmid.dnd, ?_⟩⟩
          · show (shutdownWorkers c t).sendIdx ≤ (shutdownWorkers c t).rcvdIdx
            rw [hsm.sendIdx, hsm.rcvdIdx]; exact hle
          · intro i
            constructor
            · intro hi; rw [← hN]; exact (hmid.ddis i hi).1
            · intro hi
              rcases hmid.dcov i (by omega) with h3 | ⟨e, he', _⟩
              · exact h3
              · rw [hnil] at he'; cases he'
  · simp only [step] at hst
    split at hst
    · cases hst
    · cases hst
      have hfuel : loopFuel s = (s.sendIdx - s.rcvdIdx) + 1 := rfl
      rw [hfuel, loop_done c _ s hd.le]
      have hsame : (if c.persistent then s else shutdownWorkers c s) = s := by
        split
        · rfl
        · exact shutdownWorkers_noop c s hd.sh
      rw [hsame]
      refine ⟨D, by simp only [finish]; rw [taskObs_snoc_other _ _ rfl]; exact ho, by simp [finish],
        Or.inr ⟨hd.sh, hd.le, rfl, hd.dnd, hd.dall⟩⟩

theorem onArrival_map (c : Cfg) (s : State) (r : Res) (hm : c.iterable = false) : onArrival c s r = s := by
  simp [onArrival, hm]

theorem taskObs_single (it : Item) (o : Obs) (h : ObsOk it o) : taskObs [o] = [o] ∧ o ≠ .stop := by
  cases it with
  | ok b => rcases h with rfl | rfl <;> simp [taskObs]
  | err => cases h; simp [taskObs]

/-- The common end of both `recv` branches (in place / out of order). -/
theorem InvUM_process (c : Cfg) (s X : State) (D : List Nat) (r : Res) (rest : List Res) (hv : c.Valid)
    (hm : c.iterable = false) (hio : c.inOrder = false) (ha : ActM c s D)
    (ho : ObsRel (D.map (itemAt c)) (taskObs s.obs)) (hq : s.resQ = r :: rest)
    (e1 : X.status = s.status) (e2 : X.numTasks = s.numTasks) (e3 : X.workers = s.workers) (e4 : X.cyc = s.cyc)
    (e5 : X.info = eraseInfo s.info r.idx)
    (e6 : X.rcvdIdx = s.rcvdIdx ∨ (X.rcvdIdx = s.rcvdIdx + 1 ∧ r.idx = s.rcvdIdx))
    (e7 : X.sendIdx = s.sendIdx) (e8 : X.resQ = rest) (e9 : X.samplerPos = s.samplerPos) (e10 : X.obs = s.obs)
    (e11 : X.shutdown = s.shutdown) :
    InvUM c (finish ((processData c X r).1, some (processData c X r).2)) := by
  obtain ⟨h1, h2⟩ := MidUM0_process c s X D r rest hv hm hio ha.mid hq e1 e2 e3 e4 e5 e6 e7 e8 e9
  have hrm : r ∈ s.resQ := by rw [hq]; exact List.mem_cons_self ..
  obtain ⟨it, hit, hk⟩ := ha.mid.rkind r hrm
  have hobs := ObsOk_kind it r hk c X
  obtain ⟨ht1, ht2⟩ := taskObs_single it _ hobs
  have hE : (⟨r.idx, r.w, none⟩ : Info) ∈ s.info :=
    ha.mid.core.fr r hrm (upM c s ha.mid.status r.w (ha.mid.core.rw r hrm).1)
  have hitem : itemAt c r.idx = it := by
    simp [itemAt, List.getD_eq_getElem?_getD, hit]
  have hpo := processData_obs c X r
  have hsc : (processData c X r).1.shutdown = X.shutdown := by
    rw [processData_eq]
    have := (tryPut_sameCore c { X with numTasks := X.numTasks.modify r.w (· - 1) }).shutdown
    cases r.kind with
    | data b => simp only; rw [(yieldItem_sameProto c _ r b).shutdown, this]
    | notice => exact this
    | error => exact this
    | ack => exact this
  generalize processData c X r = p at h1 h2 hobs ht1 ht2 hpo hsc
  obtain ⟨Y, o⟩ := p
  simp only at h1 h2 hobs ht1 ht2 hpo hsc
  refine ⟨D ++ [r.idx], ?_, by simp [finish], Or.inl ⟨?_, ?_, ?_, ?_⟩⟩
  · simp only [finish, hpo, e10, taskObs_append, ht1, List.map_append, List.map_cons, List.map_nil, hitem]
    exact ObsRel_snoc _ _ _ _ ho hobs
  · exact MidUM0_of_eq c Y _ _ h1 (UCore_of_eq c Y _ h1.core rfl rfl rfl h1.core.cyc rfl rfl rfl rfl)
      rfl rfl rfl rfl rfl rfl rfl
  · exact h2
  · simp only [finish]; rw [hsc, e11]; exact ha.sh
  · intro hstop
    exfalso
    simp only [finish, hpo, e10] at hstop
    rcases List.mem_append.mp hstop with h3 | h3
    · have := (ha.fin h3).2
      rw [this] at hE; cases hE
    · simp at h3; exact ht2 h3.symm

theorem InvUM_recv (c : Cfg) (hv : c.Valid) (s s' : State) (hm : c.iterable = false) (hio : c.inOrder = false)
    (h : InvUM c s) (hst : step c s .recv = some s') : InvUM c s' := by
  obtain ⟨D, ho, hph, ha | hd⟩ := h
  · rw [step_recv_eq] at hst
    cases hq : s.resQ with
    | nil => simp [hq] at hst
    | cons r rest =>
      simp only [hq] at hst
      cases hp : s.phase with
      | idle => simp [hp] at hst
      | resuming k => exact absurd hp (hph k)
      | waiting =>
        simp only [hp] at hst
        split at hst
        · cases hst
        · cases hst
          have hrm : r ∈ s.resQ := by rw [hq]; exact List.mem_cons_self ..
          obtain ⟨it, _, hk⟩ := ha.mid.rkind r hrm
          have hnn : r.kind ≠ .notice := by rw [hk]; exact kindOf_ne_notice it
          rw [recvData_eq_tail, onArrival_map c _ r hm]
          unfold recvTail
          simp only [hio, Bool.not_false, if_true, hnn, if_false]
          split
          · exact InvUM_process c s _ D r rest hv hm hio ha ho hq rfl rfl rfl rfl rfl (Or.inl rfl) rfl rfl rfl rfl rfl
          · rename_i heq
            have heq' : r.idx = s.rcvdIdx := by simpa using heq
            exact InvUM_process c s _ D r rest hv hm hio ha ho hq rfl rfl rfl rfl rfl (Or.inr ⟨rfl, heq'⟩)
              rfl rfl rfl rfl rfl
  · simp only [step] at hst
    cases hq : s.resQ with
    | nil => simp [hq] at hst
    | cons r rest => simp [hq, hd.ph] at hst

end TDV.MPU
