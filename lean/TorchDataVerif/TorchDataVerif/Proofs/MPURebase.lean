import TorchDataVerif.Proofs.MPBase
/-!
# MPU — the transition function never reads the observation history nor the ghost flag `bad`

`rebase o b s` puts the observation history `o` in front of the observations of `s` and ors `b` into
the ghost flag.  Every helper of the model, and `step` itself, commutes with `rebase`: this is what lets
the one-epoch theorems (stated from `init c`) be lifted to every epoch of a run with resets.
-/
namespace TDV.MPU
open TDV.MP

def rebase (o : List Obs) (b : Bool) (s : State) : State :=
  { s with obs := o ++ s.obs, bad := b || s.bad }

def rebase2 {α : Type} (o : List Obs) (b : Bool) (p : State × α) : State × α := (rebase o b p.1, p.2)

/-- Close a goal `f (rebase o b s) = rebase o b (f s)` between structure literals (`simp` does not rewrite
inside `Decidable` instances, the remaining goals are closed by `rfl`). -/
macro "rb_close" : tactic =>
  `(tactic| (simp [rebase, Bool.or_assoc] <;> (repeat' constructor)))

theorem findWorker_rebase (c : Cfg) (o : List Obs) (b : Bool) (s : State) (n cyc : Nat) :
    findWorker c (rebase o b s) n cyc = findWorker c s n cyc := by
  induction n generalizing cyc with
  | zero => rfl
  | succ n ih =>
    unfold findWorker
    rw [ih]
    rfl

theorem dispatchTo_rebase (c : Cfg) (o : List Obs) (b : Bool) (s : State) (w cyc : Nat) :
    dispatchTo c (rebase o b s) w cyc = rebase o b (dispatchTo c s w cyc) := by
  unfold dispatchTo
  rb_close

theorem tryPut_rebase (c : Cfg) (o : List Obs) (b : Bool) (s : State) :
    tryPut c (rebase o b s) = rebase o b (tryPut c s) := by
  have hc : (rebase o b s).cyc = s.cyc := rfl
  have hs : (rebase o b s).samplerPos = s.samplerPos := rfl
  simp only [tryPut, findWorker_rebase, hc, hs]
  by_cases h : (!c.iterable && decide (c.batches.length ≤ s.samplerPos)) = true
  · simp only [h, if_true]
    rb_close
  · simp only [h]
    rcases hf : findWorker c s c.W s.cyc with ⟨_ | w, cyc⟩
    · rb_close
    · simp [dispatchTo_rebase]

theorem prime_rebase (c : Cfg) (o : List Obs) (b : Bool) (n : Nat) (s : State) :
    prime c n (rebase o b s) = rebase o b (prime c n s) := by
  induction n generalizing s with
  | zero => rfl
  | succ n ih => unfold prime; rw [tryPut_rebase, ih]

theorem takeSnapshot_rebase (c : Cfg) (o : List Obs) (b : Bool) (s : State) :
    takeSnapshot c (rebase o b s) = (takeSnapshot c s).map (rebase o b) := by
  have h1 : (rebase o b s).rcvdIdx = s.rcvdIdx := rfl
  have h2 : (rebase o b s).mainSnaps = s.mainSnaps := rfl
  simp only [takeSnapshot, h1, h2]
  rcases popSnaps s.rcvdIdx s.mainSnaps none with ⟨_ | e, rest⟩
  · by_cases hio : c.inOrder = true
    · simp [hio]
    · simp [hio]; rfl
  · by_cases he : e.1 + 1 = s.rcvdIdx
    · simp [he]; rfl
    · by_cases hio : c.inOrder = true
      · simp [he, hio]
      · simp [he, hio]; rfl

theorem snapshotDue_rebase (c : Cfg) (o : List Obs) (b : Bool) (s : State) :
    snapshotDue c (rebase o b s) = rebase2 o b (snapshotDue c s) := by
  unfold snapshotDue
  split <;> rfl

/-- `yieldItem` after its first `let`. -/
def yieldTail (c : Cfg) (s : State) (b : Nat) : State × Obs :=
  if c.interval = 0 then ({ s with numYielded := s.numYielded + 1 }, .item b)
  else
    let d := snapshotDue c s
    if d.2 then
      match takeSnapshot c d.1 with
      | some s' => ({ s' with numYielded := s'.numYielded + 1 }, .item b)
      | none => ({ d.1 with mainSnaps := (popSnaps d.1.rcvdIdx d.1.mainSnaps none).2 }, .assertion)
    else ({ d.1 with numYielded := d.1.numYielded + 1 }, .item b)

theorem yieldItem_eq_tail (c : Cfg) (s : State) (r : Res) (b : Nat) :
    yieldItem c s r b = yieldTail c { s with lastW := r.w, wsnaps := applyDelta s.wsnaps r.w r.st } b := rfl

theorem yieldTail_rebase (c : Cfg) (o : List Obs) (b : Bool) (t : State) (x : Nat) :
    yieldTail c (rebase o b t) x = rebase2 o b (yieldTail c t x) := by
  unfold yieldTail
  by_cases h0 : c.interval = 0
  · rw [if_pos h0, if_pos h0]; rfl
  · rw [if_neg h0, if_neg h0]
    dsimp only
    rw [snapshotDue_rebase]
    generalize snapshotDue c t = d
    obtain ⟨d1, d2⟩ := d
    cases d2
    · rfl
    · simp only [rebase2, if_true]
      rw [takeSnapshot_rebase]
      cases takeSnapshot c d1 with
      | none => rfl
      | some t' => rfl

/-- `yieldTail` with the yield-counting trigger (iterable datasets; map-style before repo fix f1014eb). -/
def yieldTailOld (c : Cfg) (s : State) (b : Nat) : State × Obs :=
  if c.interval ≠ 0 ∧ (s.numYielded + 1) % c.interval = 0 then
    match takeSnapshot c s with
    | some s' => ({ s' with numYielded := s'.numYielded + 1 }, .item b)
    | none => ({ s with mainSnaps := (popSnaps s.rcvdIdx s.mainSnaps none).2 }, .assertion)
  else ({ s with numYielded := s.numYielded + 1 }, .item b)

theorem yieldTail_iter (c : Cfg) (s : State) (b : Nat) (hit : c.iterable = true) :
    yieldTail c s b = yieldTailOld c s b := by
  unfold yieldTail yieldTailOld snapshotDue
  simp only [hit, if_true]
  by_cases h0 : c.interval = 0
  · simp [h0]
  · by_cases hd : (s.numYielded + 1) % c.interval = 0
    · simp [h0, hd]
    · simp [h0, hd]

theorem yieldItem_rebase (c : Cfg) (o : List Obs) (b : Bool) (s : State) (r : Res) (x : Nat) :
    yieldItem c (rebase o b s) r x = rebase2 o b (yieldItem c s r x) := by
  rw [yieldItem_eq_tail, yieldItem_eq_tail]
  exact yieldTail_rebase c o b { s with lastW := r.w, wsnaps := applyDelta s.wsnaps r.w r.st } x

theorem processData_eq (c : Cfg) (s : State) (r : Res) :
    processData c s r =
      match r.kind with
      | .data b => yieldItem c (tryPut c { s with numTasks := s.numTasks.modify r.w (· - 1) }) r b
      | _ => (tryPut c { s with numTasks := s.numTasks.modify r.w (· - 1) }, .error) := rfl

theorem processData_rebase (c : Cfg) (o : List Obs) (b : Bool) (s : State) (r : Res) :
    processData c (rebase o b s) r = rebase2 o b (processData c s r) := by
  have h0 : ({ rebase o b s with numTasks := (rebase o b s).numTasks.modify r.w (· - 1) } : State) =
      rebase o b { s with numTasks := s.numTasks.modify r.w (· - 1) } := rfl
  rw [processData_eq, processData_eq, h0, tryPut_rebase]
  cases r.kind with
  | data x => exact yieldItem_rebase c o b _ r x
  | notice => rfl
  | error => rfl
  | ack => rfl

theorem skip_rebase (o : List Obs) (b : Bool) (s : State) (n : Nat) :
    skip (rebase o b s) n = rebase o b (skip s n) := by
  induction n generalizing s with
  | zero => rfl
  | succ n ih =>
    have h1 : (rebase o b s).rcvdIdx = s.rcvdIdx := rfl
    have h2 : (rebase o b s).sendIdx = s.sendIdx := rfl
    have h3 : (rebase o b s).info = s.info := rfl
    have h4 : ∀ w, up (rebase o b s) w = up s w := fun _ => rfl
    unfold skip
    rw [h1, h2, h3]
    by_cases hlt : s.rcvdIdx < s.sendIdx
    · rw [if_pos hlt, if_pos hlt]
      cases lookupInfo s.info s.rcvdIdx with
      | none => exact ih { s with rcvdIdx := s.rcvdIdx + 1 }
      | some e =>
        simp only [h4]
        by_cases he : (e.res.isSome || up s e.w) = true
        · rw [if_pos he, if_pos he]
        · rw [if_neg he, if_neg he]
          exact ih { s with info := eraseInfo s.info s.rcvdIdx, rcvdIdx := s.rcvdIdx + 1 }
    · rw [if_neg hlt, if_neg hlt]

theorem markUnavailable_rebase (c : Cfg) (o : List Obs) (b : Bool) (s : State) (w : Nat) (sh : Bool) :
    markUnavailable c (rebase o b s) w sh = rebase o b (markUnavailable c s w sh) := by
  unfold markUnavailable
  rb_close

theorem shutdownLoop_rebase (c : Cfg) (o : List Obs) (b : Bool) (n : Nat) (s : State) :
    shutdownLoop c n (rebase o b s) = rebase o b (shutdownLoop c n s) := by
  induction n with
  | zero => rfl
  | succ n ih =>
    unfold shutdownLoop
    simp only [ih, markUnavailable_rebase]
    have h4 : up (rebase o b (shutdownLoop c n s)) n = up (shutdownLoop c n s) n := rfl
    rw [h4]
    split <;> rfl

theorem shutdownWorkers_rebase (c : Cfg) (o : List Obs) (b : Bool) (s : State) :
    shutdownWorkers c (rebase o b s) = rebase o b (shutdownWorkers c s) := by
  unfold shutdownWorkers
  have h1 : (rebase o b s).shutdown = s.shutdown := rfl
  have h2 : ({ rebase o b s with shutdown := true } : State) = rebase o b { s with shutdown := true } := rfl
  rw [h1, h2, shutdownLoop_rebase]
  split <;> rfl

/-- One iteration of `loop` after the `skip` scan. -/
def loopBody (c : Cfg) (n : Nat) (s : State) : State × Option Obs :=
  if s.sendIdx ≤ s.rcvdIdx then
    ((if c.persistent then s else shutdownWorkers c s), some .stop)
  else
    match lookupInfo s.info s.rcvdIdx with
    | none => (s, none)
    | some e =>
      match e.res with
      | some r =>
        let s := { s with info := eraseInfo s.info s.rcvdIdx, rcvdIdx := s.rcvdIdx + 1 }
        if r.kind = .notice then loop c n { s with wsnaps := applyDelta s.wsnaps r.w r.st }
        else ((processData c s r).1, some (processData c s r).2)
      | none =>
        ({ s with bad := s.bad || s.shutdown || decide (s.outstanding = 0) }, none)

theorem loop_succ_eq (c : Cfg) (n : Nat) (s : State) :
    loop c (n + 1) s = loopBody c n (skip s (s.sendIdx - s.rcvdIdx)) := rfl

theorem loop_rebase (c : Cfg) (o : List Obs) (b : Bool) (n : Nat) (s : State) :
    loop c n (rebase o b s) = rebase2 o b (loop c n s) := by
  induction n generalizing s with
  | zero => rfl
  | succ n ih =>
    have h1 : (rebase o b s).rcvdIdx = s.rcvdIdx := rfl
    have h2 : (rebase o b s).sendIdx = s.sendIdx := rfl
    rw [loop_succ_eq, loop_succ_eq, h1, h2, skip_rebase]
    generalize skip s (s.sendIdx - s.rcvdIdx) = t
    have g1 : (rebase o b t).rcvdIdx = t.rcvdIdx := rfl
    have g2 : (rebase o b t).sendIdx = t.sendIdx := rfl
    have g3 : (rebase o b t).info = t.info := rfl
    unfold loopBody
    rw [g1, g2, g3]
    by_cases hle : t.sendIdx ≤ t.rcvdIdx
    · rw [if_pos hle, if_pos hle, shutdownWorkers_rebase]
      split <;> rfl
    · rw [if_neg hle, if_neg hle]
      cases lookupInfo t.info t.rcvdIdx with
      | none => rfl
      | some e =>
        obtain ⟨ei, ew, er⟩ := e
        cases er with
        | none =>
          simp only [rebase2]
          congr 1
          rb_close
        | some r =>
          simp only
          by_cases hk : r.kind = .notice
          · rw [if_pos hk, if_pos hk]
            exact ih { t with info := eraseInfo t.info t.rcvdIdx, rcvdIdx := t.rcvdIdx + 1,
                              wsnaps := applyDelta t.wsnaps r.w r.st }
          · rw [if_neg hk, if_neg hk]
            have := processData_rebase c o b
              { t with info := eraseInfo t.info t.rcvdIdx, rcvdIdx := t.rcvdIdx + 1 } r
            exact congrArg (fun p : State × Obs => (p.1, some p.2)) this

theorem finish_rebase {o : List Obs} {b : Bool} (p : State × Option Obs) :
    finish (rebase2 o b p) = rebase o b (finish p) := by
  obtain ⟨s, x⟩ := p
  cases x with
  | none => rfl
  | some x => simp [finish, rebase2, rebase]

theorem onArrival_rebase (c : Cfg) (o : List Obs) (b : Bool) (s : State) (r : Res) :
    onArrival c (rebase o b s) r = rebase o b (onArrival c s r) := by
  unfold onArrival
  by_cases hn : (c.iterable && decide (r.kind = .notice)) = true
  · rw [if_pos hn, if_pos hn]
    by_cases hp : c.persistent = true
    · simp only [hp, if_true]
      rw [← tryPut_rebase]
      congr 1
      rb_close
    · simp only [hp]
      rw [markUnavailable_rebase, ← tryPut_rebase]
      congr 1
      rb_close
  · rw [if_neg hn, if_neg hn]

/-- `recvData` after the arrival bookkeeping. -/
def recvTail (c : Cfg) (s : State) (r : Res) : State :=
  if r.idx ≠ s.rcvdIdx then
    if !c.inOrder then
      if r.kind = .notice then
        finish (loop c (loopFuel s) { s with wsnaps := applyDelta s.wsnaps r.w r.st })
      else
        finish ((processData c { s with info := eraseInfo s.info r.idx } r).1,
                some (processData c { s with info := eraseInfo s.info r.idx } r).2)
    else finish (loop c (loopFuel s) { s with info := setRes s.info r.idx r })
  else
    if r.kind = .notice then
      finish (loop c (loopFuel { s with rcvdIdx := s.rcvdIdx + 1 })
        { s with info := eraseInfo s.info r.idx, rcvdIdx := s.rcvdIdx + 1, wsnaps := applyDelta s.wsnaps r.w r.st })
    else
      finish ((processData c { s with info := eraseInfo s.info r.idx, rcvdIdx := s.rcvdIdx + 1 } r).1,
              some (processData c { s with info := eraseInfo s.info r.idx, rcvdIdx := s.rcvdIdx + 1 } r).2)

theorem recvData_eq_tail (c : Cfg) (s : State) (r : Res) :
    recvData c s r = recvTail c (onArrival c { s with outstanding := s.outstanding - 1 } r) r := rfl

theorem finish_loop_rebase (c : Cfg) (o : List Obs) (b : Bool) (n : Nat) (s : State) :
    finish (loop c n (rebase o b s)) = rebase o b (finish (loop c n s)) := by
  rw [loop_rebase, finish_rebase]

theorem finish_process_rebase (c : Cfg) (o : List Obs) (b : Bool) (s : State) (r : Res) :
    finish ((processData c (rebase o b s) r).1, some (processData c (rebase o b s) r).2) =
      rebase o b (finish ((processData c s r).1, some (processData c s r).2)) := by
  rw [processData_rebase]
  exact finish_rebase (o := o) (b := b) ((processData c s r).1, some (processData c s r).2)

theorem recvTail_rebase (c : Cfg) (o : List Obs) (b : Bool) (t : State) (r : Res) :
    recvTail c (rebase o b t) r = rebase o b (recvTail c t r) := by
  have g1 : (rebase o b t).rcvdIdx = t.rcvdIdx := rfl
  have g2 : loopFuel (rebase o b t) = loopFuel t := rfl
  have g3 : loopFuel { rebase o b t with rcvdIdx := t.rcvdIdx + 1 } = loopFuel { t with rcvdIdx := t.rcvdIdx + 1 } := rfl
  unfold recvTail
  rw [g1, g2, g3]
  by_cases h1 : r.idx ≠ t.rcvdIdx
  · rw [if_pos h1, if_pos h1]
    by_cases h2 : (!c.inOrder) = true
    · rw [if_pos h2, if_pos h2]
      by_cases h3 : r.kind = .notice
      · rw [if_pos h3, if_pos h3]
        exact finish_loop_rebase c o b _ { t with wsnaps := applyDelta t.wsnaps r.w r.st }
      · rw [if_neg h3, if_neg h3]
        exact finish_process_rebase c o b { t with info := eraseInfo t.info r.idx } r
    · rw [if_neg h2, if_neg h2]
      exact finish_loop_rebase c o b _ { t with info := setRes t.info r.idx r }
  · rw [if_neg h1, if_neg h1]
    by_cases h3 : r.kind = .notice
    · rw [if_pos h3, if_pos h3]
      exact finish_loop_rebase c o b _
        { t with info := eraseInfo t.info r.idx, rcvdIdx := t.rcvdIdx + 1, wsnaps := applyDelta t.wsnaps r.w r.st }
    · rw [if_neg h3, if_neg h3]
      exact finish_process_rebase c o b { t with info := eraseInfo t.info r.idx, rcvdIdx := t.rcvdIdx + 1 } r

theorem recvData_rebase (c : Cfg) (o : List Obs) (b : Bool) (s : State) (r : Res) :
    recvData c (rebase o b s) r = rebase o b (recvData c s r) := by
  rw [recvData_eq_tail, recvData_eq_tail]
  have h0 : ({ rebase o b s with outstanding := (rebase o b s).outstanding - 1 } : State) =
      rebase o b { s with outstanding := s.outstanding - 1 } := rfl
  rw [h0, onArrival_rebase, recvTail_rebase]

theorem resetTail_rebase (c : Cfg) (o : List Obs) (b : Bool) (s : State) :
    resetTail c (rebase o b s) = rebase o b (resetTail c s) := by
  unfold resetTail
  rw [← prime_rebase]
  rfl

theorem failedWorkers_rebase (o : List Obs) (b : Bool) (s : State) (n : Nat) :
    failedWorkers (rebase o b s) n = failedWorkers s n := by
  induction n with
  | zero => rfl
  | succ n ih => unfold failedWorkers; rw [ih]; rfl

theorem markAll_rebase (c : Cfg) (o : List Obs) (b : Bool) (l : List Nat) (s : State) :
    markAll c (rebase o b s) l = rebase o b (markAll c s l) := by
  induction l generalizing s with
  | nil => rfl
  | cons w l ih => unfold markAll; rw [markUnavailable_rebase, ih]

theorem rebase_append_obs (o : List Obs) (b : Bool) (s : State) (t : List Obs) :
    ({ rebase o b s with obs := (rebase o b s).obs ++ t } : State) = rebase o b { s with obs := s.obs ++ t } := by
  simp [rebase]

theorem step_rebase_work (c : Cfg) (o : List Obs) (b : Bool) (s : State) (w : Nat) :
    step c (rebase o b s) (.work w) = (step c s (.work w)).map (rebase o b) := by
  have h1 : (rebase o b s).workers = s.workers := rfl
  have h2 : (rebase o b s).shutdown = s.shutdown := rfl
  simp only [step, h1, h2]
  cases s.workers[w]? with
  | none => rfl
  | some k =>
    by_cases hal : (!k.alive) = true
    · simp [hal]
    · simp only [hal]
      cases k.q with
      | nil => rfl
      | cons m rest => rfl

theorem step_rebase_next (c : Cfg) (o : List Obs) (b : Bool) (s : State) :
    step c (rebase o b s) .next = (step c s .next).map (rebase o b) := by
  have h1 : (rebase o b s).phase = s.phase := rfl
  have h2 : loopFuel (rebase o b s) = loopFuel s := rfl
  simp only [step, h1, h2]
  by_cases hp : s.phase ≠ .idle
  · rw [if_pos hp, if_pos hp]; rfl
  · rw [if_neg hp, if_neg hp, finish_loop_rebase]; rfl

theorem step_rebase_stateDict (c : Cfg) (o : List Obs) (b : Bool) (s : State) :
    step c (rebase o b s) .stateDict = (step c s .stateDict).map (rebase o b) := by
  have h1 : (rebase o b s).phase = s.phase := rfl
  simp only [step, h1]
  by_cases hp : s.phase ≠ .idle
  · rw [if_pos hp, if_pos hp]; rfl
  · rw [if_neg hp, if_neg hp]
    simp [rebase]

theorem step_rebase_reset (c : Cfg) (o : List Obs) (b : Bool) (s : State) :
    step c (rebase o b s) .reset = (step c s .reset).map (rebase o b) := by
  have h1 : (rebase o b s).phase = s.phase := rfl
  have h2 : (rebase o b s).shutdown = s.shutdown := rfl
  simp only [step, h1, h2]
  by_cases hp : s.phase ≠ .idle ∨ (!c.persistent) = true ∨ s.shutdown = true
  · rw [if_pos hp, if_pos hp]; rfl
  · rw [if_neg hp, if_neg hp]; rfl

theorem step_rebase_kill (c : Cfg) (o : List Obs) (b : Bool) (s : State) (w : Nat) :
    step c (rebase o b s) (.kill w) = (step c s (.kill w)).map (rebase o b) := by
  have h1 : (rebase o b s).workers = s.workers := rfl
  simp only [step, h1]
  cases s.workers[w]? with
  | none => rfl
  | some k =>
    by_cases hal : (!k.alive) = true
    · simp [hal]
    · simp only [hal]
      rfl

theorem step_rebase_poll (c : Cfg) (o : List Obs) (b : Bool) (s : State) :
    step c (rebase o b s) .pollTimeout = (step c s .pollTimeout).map (rebase o b) := by
  have h1 : (rebase o b s).phase = s.phase := rfl
  have h2 : (rebase o b s).resQ = s.resQ := rfl
  simp only [step, h1, h2, failedWorkers_rebase]
  by_cases hp : s.phase = .idle ∨ s.resQ ≠ []
  · rw [if_pos hp, if_pos hp]; rfl
  · rw [if_neg hp, if_neg hp]
    cases failedWorkers s c.W with
    | nil => rfl
    | cons f fs =>
      simp only [Option.map_some, markAll_rebase]
      simp [rebase]

/-- The completion of `_reset` when the last acknowledgement `r` is received (`s` already without `r`). -/
def ackDone (c : Cfg) (s : State) (r : Res) : State :=
  let s1 := resetTail c { s with wsnaps := applyDelta s.wsnaps r.w r.st }
  { s1 with phase := .idle, obs := s1.obs ++ [.resetDone] }

theorem ackDone_rebase (c : Cfg) (o : List Obs) (b : Bool) (s : State) (r : Res) :
    ackDone c (rebase o b s) r = rebase o b (ackDone c s r) := by
  have e : ({ rebase o b s with wsnaps := applyDelta (rebase o b s).wsnaps r.w r.st } : State)
      = rebase o b { s with wsnaps := applyDelta s.wsnaps r.w r.st } := rfl
  unfold ackDone
  rw [e, resetTail_rebase]
  simp [rebase]

theorem step_recv_eq (c : Cfg) (s : State) :
    step c s .recv =
      match s.resQ with
      | [] => none
      | r :: rest =>
        match s.phase with
        | .idle => none
        | .waiting => if r.kind = .ack then none else some (recvData c { s with resQ := rest } r)
        | .resuming k =>
          if r.kind = .ack then
            if k ≤ 1 then some (ackDone c { s with resQ := rest } r)
            else some { s with resQ := rest, wsnaps := applyDelta s.wsnaps r.w r.st, phase := .resuming (k - 1) }
          else some { s with resQ := rest } := rfl

theorem step_rebase_recv (c : Cfg) (o : List Obs) (b : Bool) (s : State) :
    step c (rebase o b s) .recv = (step c s .recv).map (rebase o b) := by
  have h1 : (rebase o b s).phase = s.phase := rfl
  have h2 : (rebase o b s).resQ = s.resQ := rfl
  rw [step_recv_eq, step_recv_eq, h1, h2]
  cases s.resQ with
  | nil => rfl
  | cons r rest =>
    cases s.phase with
    | idle => rfl
    | waiting =>
      simp only
      by_cases hk : r.kind = .ack
      · rw [if_pos hk, if_pos hk]; rfl
      · rw [if_neg hk, if_neg hk]
        show some (recvData c (rebase o b { s with resQ := rest, phase := .waiting }) r) = _
        rw [recvData_rebase]; rfl
    | resuming k =>
      simp only
      by_cases hk : r.kind = .ack
      · rw [if_pos hk, if_pos hk]
        by_cases h1 : k ≤ 1
        · rw [if_pos h1, if_pos h1]
          show some (ackDone c (rebase o b { s with resQ := rest, phase := .resuming k }) r) = _
          rw [ackDone_rebase]; rfl
        · rw [if_neg h1, if_neg h1]; rfl
      · rw [if_neg hk, if_neg hk]; rfl

/-- **The transition function is independent of the observation history and of the ghost flag.** -/
theorem step_rebase (c : Cfg) (o : List Obs) (b : Bool) (s : State) (a : Action) :
    step c (rebase o b s) a = (step c s a).map (rebase o b) := by
  cases a with
  | work w => exact step_rebase_work c o b s w
  | recv => exact step_rebase_recv c o b s
  | next => exact step_rebase_next c o b s
  | stateDict => exact step_rebase_stateDict c o b s
  | reset => exact step_rebase_reset c o b s
  | kill w => exact step_rebase_kill c o b s w
  | pollTimeout => exact step_rebase_poll c o b s

theorem run_rebase (c : Cfg) (o : List Obs) (b : Bool) (as : List Action) (s : State) :
    run c (rebase o b s) as = (run c s as).map (rebase o b) := by
  induction as generalizing s with
  | nil => rfl
  | cons a as ih =>
    simp only [run, step_rebase]
    cases step c s a with
    | none => rfl
    | some s' => exact ih s'

end TDV.MPU
