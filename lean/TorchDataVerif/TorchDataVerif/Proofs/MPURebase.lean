import TorchDataVerif.Proofs.MPBase
/-!
# MPU — the transition function never reads the observation history nor the ghost flag `bad`

`rebase o b s` puts the observation history `o` in front of the observations of `s` and ors `b` into
the ghost flag.  Every helper of the model, and `step` itself, commutes with `rebase`: this is what lets
the one-epoch theorems (stated from `init c`) be lifted to every epoch of a run with resets.
-/
namespace TDV.MP

def rebase (o : List Obs) (b : Bool) (s : State) : State :=
  { s with obs := o ++ s.obs, bad := b || s.bad }

def rebase2 {α : Type} (o : List Obs) (b : Bool) (p : State × α) : State × α := (rebase o b p.1, p.2)

/-- Close a goal `f (rebase o b s) = rebase o b (f s)` between structure literals (`simp` does not rewrite
inside `Decidable` instances, the remaining goals are closed by `rfl`). -/
macro "rb_close" : tactic =>
  `(tactic| (simp [rebase, Bool.or_assoc] <;> (repeat' constructor)))

theorem findWorker_rebase (c : Cfg) (o : List Obs) (b : Bool) (s : State) (n cyc : Nat) :
    findWorker c (rebase o b s) n cyc = findWorker c s n cyc := by
  induction n generalizing cyc with
  | zero => rfl
  | succ n ih =>
    unfold findWorker
    rw [ih]
    rfl

theorem dispatchTo_rebase (c : Cfg) (o : List Obs) (b : Bool) (s : State) (w cyc : Nat) :
    dispatchTo c (rebase o b s) w cyc = rebase o b (dispatchTo c s w cyc) := by
  unfold dispatchTo
  rb_close

theorem tryPut_rebase (c : Cfg) (o : List Obs) (b : Bool) (s : State) :
    tryPut c (rebase o b s) = rebase o b (tryPut c s) := by
  have hc : (rebase o b s).cyc = s.cyc := rfl
  have hs : (rebase o b s).samplerPos = s.samplerPos := rfl
  simp only [tryPut, findWorker_rebase, hc, hs]
  by_cases h : (!c.iterable && decide (c.batches.length ≤ s.samplerPos)) = true
  · simp only [h, if_true]
    rb_close
  · simp only [h]
    rcases hf : findWorker c s c.W s.cyc with ⟨_ | w, cyc⟩
    · rb_close
    · simp [dispatchTo_rebase]

theorem prime_rebase (c : Cfg) (o : List Obs) (b : Bool) (n : Nat) (s : State) :
    prime c n (rebase o b s) = rebase o b (prime c n s) := by
  induction n generalizing s with
  | zero => rfl
  | succ n ih => unfold prime; rw [tryPut_rebase, ih]

theorem takeSnapshot_rebase (c : Cfg) (o : List Obs) (b : Bool) (s : State) :
    takeSnapshot c (rebase o b s) = (takeSnapshot c s).map (rebase o b) := by
  have h1 : (rebase o b s).rcvdIdx = s.rcvdIdx := rfl
  have h2 : (rebase o b s).mainSnaps = s.mainSnaps := rfl
  simp only [takeSnapshot, h1, h2]
  rcases popSnaps s.rcvdIdx s.mainSnaps none with ⟨_ | e, rest⟩
  · by_cases hio : c.inOrder = true
    · simp [hio]
    · simp [hio]; rfl
  · by_cases he : e.1 + 1 = s.rcvdIdx
    · simp [he]; rfl
    · simp [he]

/-- `yieldItem` after its first `let`. -/
def yieldTail (c : Cfg) (s : State) (b : Nat) : State × Obs :=
  if c.interval ≠ 0 ∧ (s.numYielded + 1) % c.interval = 0 then
    match takeSnapshot c s with
    | some s' => ({ s' with numYielded := s'.numYielded + 1 }, .item b)
    | none => ({ s with mainSnaps := (popSnaps s.rcvdIdx s.mainSnaps none).2 }, .assertion)
  else ({ s with numYielded := s.numYielded + 1 }, .item b)

theorem yieldItem_eq_tail (c : Cfg) (s : State) (r : Res) (b : Nat) :
    yieldItem c s r b = yieldTail c { s with lastW := r.w, wsnaps := applyDelta s.wsnaps r.w r.st } b := rfl

theorem yieldTail_rebase (c : Cfg) (o : List Obs) (b : Bool) (t : State) (x : Nat) :
    yieldTail c (rebase o b t) x = rebase2 o b (yieldTail c t x) := by
  have hn : (rebase o b t).numYielded = t.numYielded := rfl
  unfold yieldTail
  rw [takeSnapshot_rebase, hn]
  by_cases hd : c.interval ≠ 0 ∧ (t.numYielded + 1) % c.interval = 0
  · rw [if_pos hd, if_pos hd]
    cases takeSnapshot c t with
    | none => rfl
    | some t' => rfl
  · rw [if_neg hd, if_neg hd]
    rfl

theorem yieldItem_rebase (c : Cfg) (o : List Obs) (b : Bool) (s : State) (r : Res) (x : Nat) :
    yieldItem c (rebase o b s) r x = rebase2 o b (yieldItem c s r x) := by
  rw [yieldItem_eq_tail, yieldItem_eq_tail]
  exact yieldTail_rebase c o b { s with lastW := r.w, wsnaps := applyDelta s.wsnaps r.w r.st } x

theorem processData_eq (c : Cfg) (s : State) (r : Res) :
    processData c s r =
      match r.kind with
      | .data b => yieldItem c (tryPut c { s with numTasks := s.numTasks.modify r.w (· - 1) }) r b
      | _ => (tryPut c { s with numTasks := s.numTasks.modify r.w (· - 1) }, .error) := rfl

theorem processData_rebase (c : Cfg) (o : List Obs) (b : Bool) (s : State) (r : Res) :
    processData c (rebase o b s) r = rebase2 o b (processData c s r) := by
  have h0 : ({ rebase o b s with numTasks := (rebase o b s).numTasks.modify r.w (· - 1) } : State) =
      rebase o b { s with numTasks := s.numTasks.modify r.w (· - 1) } := rfl
  rw [processData_eq, processData_eq, h0, tryPut_rebase]
  cases r.kind with
  | data x => exact yieldItem_rebase c o b _ r x
  | notice => rfl
  | error => rfl
  | ack => rfl

theorem skip_rebase (o : List Obs) (b : Bool) (s : State) (n : Nat) :
    skip (rebase o b s) n = rebase o b (skip s n) := by
  induction n generalizing s with
  | zero => rfl
  | succ n ih =>
    have h1 : (rebase o b s).rcvdIdx = s.rcvdIdx := rfl
    have h2 : (rebase o b s).sendIdx = s.sendIdx := rfl
    have h3 : (rebase o b s).info = s.info := rfl
    have h4 : ∀ w, up (rebase o b s) w = up s w := fun _ => rfl
    unfold skip
    rw [h1, h2, h3]
    by_cases hlt : s.rcvdIdx < s.sendIdx
    · rw [if_pos hlt, if_pos hlt]
      cases lookupInfo s.info s.rcvdIdx with
      | none => exact ih { s with rcvdIdx := s.rcvdIdx + 1 }
      | some e =>
        simp only [h4]
        by_cases he : (e.res.isSome || up s e.w) = true
        · rw [if_pos he, if_pos he]
        · rw [if_neg he, if_neg he]
          exact ih { s with info := eraseInfo s.info s.rcvdIdx, rcvdIdx := s.rcvdIdx + 1 }
    · rw [if_neg hlt, if_neg hlt]

theorem markUnavailable_rebase (c : Cfg) (o : List Obs) (b : Bool) (s : State) (w : Nat) (sh : Bool) :
    markUnavailable c (rebase o b s) w sh = rebase o b (markUnavailable c s w sh) := by
  unfold markUnavailable
  rb_close

theorem shutdownLoop_rebase (c : Cfg) (o : List Obs) (b : Bool) (n : Nat) (s : State) :
    shutdownLoop c n (rebase o b s) = rebase o b (shutdownLoop c n s) := by
  induction n with
  | zero => rfl
  | succ n ih =>
    unfold shutdownLoop
    simp only [ih, markUnavailable_rebase]
    have h4 : up (rebase o b (shutdownLoop c n s)) n = up (shutdownLoop c n s) n := rfl
    rw [h4]
    split <;> rfl

theorem shutdownWorkers_rebase (c : Cfg) (o : List Obs) (b : Bool) (s : State) :
    shutdownWorkers c (rebase o b s) = rebase o b (shutdownWorkers c s) := by
  unfold shutdownWorkers
  have h1 : (rebase o b s).shutdown = s.shutdown := rfl
  have h2 : ({ rebase o b s with shutdown := true } : State) = rebase o b { s with shutdown := true } := rfl
  rw [h1, h2, shutdownLoop_rebase]
  split <;> rfl

end TDV.MP
