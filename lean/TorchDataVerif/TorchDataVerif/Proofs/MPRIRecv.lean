import TorchDataVerif.Proofs.MPRILoop
/-!
# MPRI — receiving a result (`_next_data` after `_get_data` returned) keeps the joint invariant
-/
namespace TDV.MPRI
open TDV.MP TDV.MPU

/-- `onArrival_I` of `Proofs/MPIterE.lean` with the ghost transition exposed: the history grows by at most
the task dispatched by the extra `_try_put_index` of a retirement. -/
theorem onArrival_X (c : Cfg) (s : State) (g : Ghost) (r : Res) (rest : List Res) (hit : c.iterable = true)
    (hio : c.inOrder = true) (h : MidI c s g none) (hl : LiveI c s g) (hq : s.resQ = r :: rest) :
    ∃ g2, MidI c (onArrival c { s with resQ := rest, outstanding := s.outstanding - 1 } r) g2 (some r.idx) ∧
      (g2.h = g.h ∨ ∃ v, g2.h = g.h ++ [v]) ∧ s.rcvdIdx ≤ r.idx ∧ r.idx < s.sendIdx ∧ r.w < c.W ∧
      g.h[r.idx]? = some r.w ∧ kindAt c r.w ((g.h.take r.idx).count r.w) = some r.kind ∧
      (g.h.take r.idx).count r.w < g2.arr r.w ∧
      LiveI c (onArrival c { s with resQ := rest, outstanding := s.outstanding - 1 } r) g2 := by
  by_cases hn : r.kind = .notice
  · rw [onArrival_notice c _ r hit hn]
    obtain ⟨f1, _, f3, f4, f5, f6, f7, f8, _, _, _⟩ :=
      retireState_fields c { s with resQ := rest, outstanding := s.outstanding - 1 } r
    generalize retireState c { s with resQ := rest, outstanding := s.outstanding - 1 } r = s1 at f1 f3 f4 f5 f6 f7 f8
    simp only at f1 f3 f4 f5 f6 f7 f8
    obtain ⟨hu, hok, hge, hlt, hm1⟩ := arrive_core c s s1 g r rest h hq f7 f4 f6 f5 f8 (by simp [hn, f1]) f3
    obtain ⟨g2, hm2, ha, _, hh, hl2⟩ := MidI_tryPut c s1 _ (some r.idx) hit hio hm1
    obtain ⟨_, hx, hseq, hkind⟩ := hok
    refine ⟨g2, hm2, hh, hge, hlt, hu, hx, by rw [hseq]; exact hkind, ?_, hl2⟩
    rw [hseq, ha]; simp only [MP.bump_self]; omega
  · rw [onArrival_other c _ r hn]
    obtain ⟨hu, hok, hge, hlt, hm1⟩ := arrive_core c s { s with resQ := rest, outstanding := s.outstanding - 1 } g r rest
      h hq rfl rfl rfl rfl rfl (by simp [hn]) (Or.inl rfl)
    obtain ⟨_, hx, hseq, hkind⟩ := hok
    refine ⟨_, hm1, Or.inl rfl, hge, hlt, hu, hx, by rw [hseq]; exact hkind, ?_, ?_⟩
    · simp only [hseq, MP.bump_self]; omega
    · rintro ⟨v, hv, hvu⟩
      have hvu' : up s v = true := hvu
      obtain ⟨i, hi, w', hw', hc⟩ := hl ⟨v, hv, hvu'⟩
      refine ⟨i, hi, w', hw', ?_⟩
      rcases hc with hc | ⟨hc1, hc2⟩
      · exact Or.inl hc
      · right
        refine ⟨hc1, ?_⟩
        show MP.bump g.arr r.w w' ≤ _
        by_cases hw : w' = r.w
        · subst hw
          obtain ⟨it, _, _, hjlt⟩ := kindAt_data c _ _ _ hkind hn
          rw [MP.bump_self]; omega
        · rw [MP.bump_ne _ _ _ hw]; exact hc2

theorem KF_weak (c : Cfg) (s s' : State) (h dl : List Nat) (hk : KF c s h dl)
    (hw : ∀ (w : Nat) (k' : Worker), s'.workers[w]? = some k' → ∃ k, s.workers[w]? = some k ∧
      ∀ i p sn, Msg.task i p sn ∈ k'.q → Msg.task i p sn ∈ k.q)
    (hr : ∀ r ∈ s'.resQ, r ∈ s.resQ) (hi : ∀ e ∈ s'.info, e ∈ s.info) : KF c s' h dl := by
  refine ⟨?_, fun r hr' => hk.rf r (hr r hr'), fun e he => hk.inf e (hi e he)⟩
  intro w k' hk' i p sn hm
  obtain ⟨k, hk0, hsub⟩ := hw w k' hk'
  exact hk.qf w k hk0 i p sn (hsub i p sn hm)

theorem KF_retire (c : Cfg) (s s' : State) (h dl : List Nat) (u : Nat) (r : Res) (rest : List Res)
    (hk : KF c s h dl) (hq : s.resQ = r :: rest)
    (ew : s'.workers = s.workers ∨ s'.workers = pushMsg s.workers u .stop) (eq : s'.resQ = rest)
    (ei : s'.info = s.info) : KF c s' h dl := by
  apply KF_weak c s s' h dl hk
  · intro w k' hk'
    rcases ew with ew | ew
    · rw [ew] at hk'; exact ⟨k', hk', fun _ _ _ hm => hm⟩
    · rw [ew] at hk'
      obtain ⟨k0, hk0, _, _, _, hq'⟩ := pushMsg_get _ _ _ _ _ hk'
      refine ⟨k0, hk0, fun i p sn hm => ?_⟩
      rw [hq'] at hm
      split at hm
      · rcases List.mem_append.mp hm with h1 | h1
        · exact h1
        · simp at h1
      · exact hm
  · intro x hx; rw [eq] at hx; rw [hq]; exact List.mem_cons_of_mem _ hx
  · intro e he; rw [ei] at he; exact he

/-- The window / delta side of `onArrival`. -/
theorem onArrival_K (c : Cfg) (s : State) (h dl : List Nat) (r : Res) (rest : List Res) (hit : c.iterable = true)
    (hZ : SWk c s (zipZ s.info dl) none 0) (hdl : dl.length = s.sendIdx) (hF : KF c s h dl)
    (hq : s.resQ = r :: rest) (hF1 : ∃ e ∈ s.info, e.idx = r.idx) (hF2 : ∀ e ∈ s.info, e.idx = r.idx → e.res = none) :
    ∃ dl' ex, (dl' = dl ∨ dl' = dl ++ [s.numYielded]) ∧
      ((r.kind = .notice → ex = some r.idx) ∧ (r.kind ≠ .notice → ex = none)) ∧
      dl'.length = (onArrival c { s with resQ := rest, outstanding := s.outstanding - 1 } r).sendIdx ∧
      SWk c (onArrival c { s with resQ := rest, outstanding := s.outstanding - 1 } r)
        (zipZ (onArrival c { s with resQ := rest, outstanding := s.outstanding - 1 } r).info dl') ex 0 ∧
      KF c (onArrival c { s with resQ := rest, outstanding := s.outstanding - 1 } r) h dl' ∧
      (∃ e ∈ (onArrival c { s with resQ := rest, outstanding := s.outstanding - 1 } r).info, e.idx = r.idx) ∧
      (∀ e ∈ (onArrival c { s with resQ := rest, outstanding := s.outstanding - 1 } r).info, e.idx = r.idx → e.res = none) := by
  by_cases hk : r.kind = .notice
  · rw [onArrival_notice c _ r hit hk]
    obtain ⟨f1, f2, f3, f4, f5⟩ := retire_sw_fields c { s with resQ := rest, outstanding := s.outstanding - 1 } r
    obtain ⟨_, _, g3, _, _, _, _, g8, _, _, _⟩ :=
      retireState_fields c { s with resQ := rest, outstanding := s.outstanding - 1 } r
    generalize retireState c { s with resQ := rest, outstanding := s.outstanding - 1 } r = s1 at f1 f2 f3 f4 f5 g3 g8
    simp only at f1 f2 f3 f4 f5 g3 g8
    have h1 : SWk c s1 (zipZ s1.info dl) (some r.idx) 0 := by
      rw [f1]; exact SWk_of_eq c s s1 _ _ 0 (SWk_except c s _ r.idx hZ) f1 f2 f3 f4 f5
    have hroom : cntZ (some r.idx) (zipZ s1.info dl) + 1 ≤ c.W * c.P := by
      rw [f1]
      obtain ⟨e, he, hei⟩ := hF1
      have : e ∈ (zipZ s.info dl).map Prod.fst := by rw [zipZ_fst]; exact he
      obtain ⟨z, hz, hze⟩ := List.mem_map.mp this
      have hn : isNote z.1 = false := by rw [hze]; simp [isNote, hF2 e he hei]
      have := cnt_exclude r.idx _ ⟨z, hz, by rw [hze]; exact hei, hn⟩
      have := hZ.nn
      omega
    have hF' : KF c s1 h dl := KF_retire c s s1 h dl r.w r rest hF hq g3 g8 f1
    obtain ⟨dl', hd1, hd2, hd3, hd4, _, hd6, hd7⟩ := KX_tryPut c s1 h dl (some r.idx) 0 hit h1 (by rw [f3]; exact hdl) hF' hroom
    refine ⟨dl', some r.idx, by rw [f4] at hd1; exact hd1, ⟨fun _ => rfl, fun hn => absurd hk hn⟩, hd2, hd3, hd4, ?_, ?_⟩
    · obtain ⟨e, he, hei⟩ := hF1
      exact ⟨e, hd7 e (by rw [f1]; exact he), hei⟩
    · intro e he hei
      rcases hd6 e he with h6 | h6
      · exact hF2 e (by rw [← f1]; exact h6) hei
      · exact h6
  · rw [onArrival_other c _ r hk]
    refine ⟨dl, none, Or.inl rfl, ⟨fun hn => absurd hn hk, fun _ => rfl⟩, hdl,
      SWk_of_eq c s _ _ none 0 hZ rfl rfl rfl rfl rfl, ?_, hF1, hF2⟩
    exact KF_retire c s _ h dl r.w r rest hF hq (Or.inl rfl) rfl rfl

theorem KF_store (c : Cfg) (t : State) (h dl : List Nat) (r : Res) (hF : KF c t h dl) (hr : r.idx < dl.length)
    (hst : StOk c h dl r) : KF c { t with info := setRes t.info r.idx r } h dl := by
  refine ⟨hF.qf, hF.rf, ?_⟩
  intro e' he' r' hr'
  simp only [setRes, List.mem_map] at he'
  obtain ⟨e, he, hee⟩ := he'
  by_cases hi : (e.idx == r.idx) = true
  · simp only [hi, if_true] at hee
    subst hee
    simp only [Option.some.injEq] at hr'
    subst hr'
    exact ⟨hr, hst⟩
  · simp only [hi, Bool.false_eq_true, if_false] at hee
    subst hee
    exact hF.inf e he r' hr'

theorem fin_loop_J (c : Cfg) (n : Nat) (t : State) (h : ∀ o, (loop c n t).2 = some o → o ≠ .assertion)
    (hna : Obs.assertion ∉ t.obs) : Obs.assertion ∉ (finish (loop c n t)).obs := by
  rw [finish_obs, loop_obs]
  intro hm
  rcases List.mem_append.mp hm with h3 | h3
  · exact hna h3
  · cases ho : (loop c n t).2 with
    | none => simp [ho] at h3
    | some o => simp [ho] at h3; exact h o ho h3.symm

/-- Storing an out-of-order result keeps the window invariant (as in `SW_recvTail`). -/
theorem SWk_store (c : Cfg) (A : State) (dl : List Nat) (r : Res) (ex : Option Nat)
    (h : SWk c A (zipZ A.info dl) ex 0)
    (hex : (r.kind = .notice → ex = some r.idx) ∧ (r.kind ≠ .notice → ex = none))
    (hF2 : ∀ e ∈ A.info, e.idx = r.idx → e.res = none) :
    SWk c { A with info := setRes A.info r.idx r } (zipZ (setRes A.info r.idx r) dl) none 0 := by
  rw [zipZ_setRes]
  have hmemZ : ∀ z ∈ zipZ A.info dl, z.1 ∈ A.info := fun z hz => by
    have : z.1 ∈ (zipZ A.info dl).map Prod.fst := List.mem_map_of_mem hz
    rwa [zipZ_fst] at this
  have hpt : ∀ z ∈ zipZ A.info dl, ((storeZ r.idx r z).2 = z.2 ∧ cOne none (storeZ r.idx r z).1 ≤ cOne ex z.1) := by
    intro z hz
    refine ⟨(storeZ_idx _ _ z).2, ?_⟩
    by_cases hzi : z.1.idx = r.idx
    · have hres : z.1.res = none := hF2 z.1 (hmemZ z hz) hzi
      by_cases hk : r.kind = .notice
      · have : cOne none (storeZ r.idx r z).1 = 0 := by simp [storeZ, hzi, cOne, cf, isNote, hk]
        omega
      · rw [hex.2 hk]
        have h1 : cOne none z.1 = 1 := by simp [cOne, cf, isNote, hres]
        have h2 : cOne none (storeZ r.idx r z).1 ≤ 1 := by simp only [cOne]; split <;> omega
        omega
    · have hst : (storeZ r.idx r z).1 = z.1 := by simp [storeZ, hzi]
      rw [hst]
      by_cases hk : r.kind = .notice
      · rw [hex.1 hk, cOne_some_ne _ _ hzi]; exact Nat.le_refl _
      · rw [hex.2 hk]; exact Nat.le_refl _
  refine ⟨by rw [storeZ_fst, zipZ_fst], IdxFrom_setRes _ _ _ _ h.idx, by simp only [setRes_length]; exact h.len,
    WinOk_map ex none _ _ _ 0 0 _ (Nat.le_refl _) hpt h.win,
    Nat.le_trans (cnt_map_le ex none _ _ (fun z hz => (hpt z hz).2)) h.nn, Nat.zero_le _, h.ms, h.mlt, ?_⟩
  intro z hz hf
  obtain ⟨z0, hz0, rfl⟩ := List.mem_map.mp hz
  rw [(storeZ_idx _ _ z0).1]
  rw [(storeZ_idx _ _ z0).2] at hf
  exact h.mfl z0 hz0 hf

/-- `recvTail` from the state `A` reached by `onArrival`. -/
theorem recvTail_J (c : Cfg) (e0 : Nat → Bool) (δ : Nat) (A : State) (g : Ghost) (dl : List Nat) (r : Res)
    (ex : Option Nat) (hv : c.shards.length = c.W) (hit : c.iterable = true) (hio : c.inOrder = true)
    (hok : ShardsOk c) (hm : MidI c A g (some r.idx)) (hl : LiveI c A g) (hsd : A.shutdown = false)
    (ho : ObsRel (dataItems c (g.h.take A.rcvdIdx)) (taskObs A.obs)) (hns : Obs.stop ∉ A.obs)
    (hna : Obs.assertion ∉ A.obs) (hx : g.h[r.idx]? = some r.w)
    (hkind : kindAt c r.w ((g.h.take r.idx).count r.w) = some r.kind)
    (hlt : (g.h.take r.idx).count r.w < g.arr r.w)
    (hsw : SWk c A (zipZ A.info dl) ex 0)
    (hex : (r.kind = .notice → ex = some r.idx) ∧ (r.kind ≠ .notice → ex = none))
    (hdl : dl.length = A.sendIdx) (hF : KF c A g.h dl) (hst : StOk c g.h dl r)
    (hF1 : ∃ e ∈ A.info, e.idx = r.idx) (hF2 : ∀ e ∈ A.info, e.idx = r.idx → e.res = none)
    (hS : KS c e0 δ A.wsnaps A.snap A.numYielded (livePairs c (g.h.take A.rcvdIdx))) :
    Obs.assertion ∉ (recvTail c A r).obs ∧ Post c e0 δ (recvTail c A r) := by
  have hrl : r.idx < dl.length := by rw [hdl, ← hm.hlen]; exact (List.getElem?_eq_some_iff.mp hx).1
  unfold recvTail
  simp only [hio, Bool.not_true, Bool.false_eq_true, if_false]
  by_cases hidx : r.idx = A.rcvdIdx
  · rw [if_neg (by simpa using hidx)]
    have hlen := hm.len
    obtain ⟨e, l, hi⟩ : ∃ e l, A.info = e :: l := by
      obtain ⟨e, he, _⟩ := hF1
      cases hi : A.info with
      | nil => rw [hi] at he; cases he
      | cons e l => exact ⟨e, l, rfl⟩
    have hinfo := hm.info
    rw [hi] at hinfo
    have hidxf := InfoI_idxFrom c g _ _ _ hinfo
    have her : eraseInfo A.info r.idx = l := by rw [hi, hidx]; exact eraseInfo_headX _ e l hidxf
    have hew : e.w = r.w := by
      have := hinfo.2.1; rw [← hidx, hx] at this; exact (Option.some.inj this).symm
    have he0 : e.res = none := hF2 e (by rw [hi]; exact List.mem_cons_self ..) (by rw [hidxf.1, hidx])
    obtain ⟨hm3, _⟩ := MidI_pop c A g (some r.idx) e l hm (Or.inr (by rw [hidx])) hi
      (Or.inl (by rw [hew, ← hidx]; exact hlt))
    have hxt : g.h[A.rcvdIdx]? = some r.w := by rw [← hidx]; exact hx
    have hlt' : (g.h.take A.rcvdIdx).count r.w < g.arr r.w := by rw [← hidx]; exact hlt
    have hD := dataItems_take_succ c g.h A.rcvdIdx r.w hxt
    rw [hidx] at hkind
    obtain ⟨d, Z1, hZ, hZ1⟩ := Z_head (zipZ A.info dl) e l (by rw [zipZ_fst, hi])
    have hze : zipZ A.info dl = (e, dl.getD e.idx 0) :: zipZ l dl := by rw [hi]; rfl
    have hzl : zipZ l dl = Z1 := by rw [hze] at hZ; exact (List.cons.inj hZ).2
    have hdd : d = dl.getD A.rcvdIdx 0 := by
      rw [hze] at hZ; have := (List.cons.inj hZ).1; rw [← hidxf.1]; exact (Prod.mk.inj this).2.symm
    rw [hZ] at hsw
    have hlen' := hlen
    rw [hi] at hlen'
    simp only [List.length_cons] at hlen'
    have hgt : ∀ z ∈ Z1, z.1.idx ≠ r.idx := by
      intro z hz
      have : z.1 ∈ l := by rw [← hZ1]; exact List.mem_map_of_mem hz
      have := IdxFrom_ge _ _ hidxf.2 z.1 this
      omega
    by_cases hn : r.kind = .notice
    · rw [if_pos hn, her]
      rw [hn] at hkind
      have hj := kindAt_notice c _ _ hkind
      have hnil : ((c.shards.getD r.w [])[(g.h.take A.rcvdIdx).count r.w]?).toList = [] :=
        getElem?_none_toList _ _ (by unfold bOf at hj; omega)
      rw [hnil, List.append_nil] at hD
      have hstv : r.st = some ⟨bOf c r.w, true⟩ := by unfold StOk at hst; rw [hn] at hst; exact hst
      have hexs := hex.1 hn
      subst hexs
      have hw := hsw.win
      have hc0 : cOne (some r.idx) e = 0 := by simp [cOne, cf, hidxf.1, hidx]
      simp only [WinOk, hc0] at hw
      have hnn := hsw.nn
      rw [cntZ_cons, hc0] at hnn
      have hJ3 : JX c e0 δ { A with info := l, rcvdIdx := A.rcvdIdx + 1, wsnaps := applyDelta A.wsnaps r.w r.st } g dl := by
        refine ⟨⟨MidI_of_eq c _ _ g none hm3 rfl rfl rfl rfl rfl rfl rfl, ?_, ?_, ?_⟩, ?_, hdl, ?_, ?_⟩
        · simp only [hD]; exact ho
        · exact LiveI_pop c A _ g r.w hl rfl rfl hxt (by omega)
        · intro hst'; exact absurd hst' hns
        · show SWk c _ (zipZ l dl) none 0
          rw [hzl]
          refine ⟨hZ1, hidxf.2, by simp only; omega, ?_, ?_, Nat.zero_le _, hsw.ms, hsw.mlt,
            fun z hz hf => hsw.mfl z (List.mem_cons_of_mem _ hz) hf⟩
          · have := WinOk_map (some r.idx) none A.numYielded (c.W * c.P) id 0 0 Z1 (Nat.le_refl _)
              (fun z hz => ⟨rfl, by rw [cOne_some_ne _ _ (hgt z hz)]; exact Nat.le_refl _⟩) hw.2
            simpa using this
          · have := cnt_map_le (some r.idx) none id Z1
              (fun z hz => by rw [cOne_some_ne _ _ (hgt z hz)]; exact Nat.le_refl _)
            simp only [List.map_id] at this
            omega
        · exact KF_pop c A _ _ e l hF hi _ rfl rfl rfl
        · show KS c e0 δ (applyDelta A.wsnaps r.w r.st) A.snap A.numYielded (livePairs c (g.h.take (A.rcvdIdx + 1)))
          exact KS_notice_pop c e0 δ _ _ _ g.h _ r.w _ hS hxt (hm.own _ _ hxt) hj hstv
      obtain ⟨b1, b2⟩ := loop_J c e0 δ (loopFuel { A with rcvdIdx := A.rcvdIdx + 1 }) _ g dl hv hit hio hok hJ3 hsd
        (by unfold loopFuel; simp only; omega)
      exact ⟨fin_loop_J c _ _ b1 hna, b2⟩
    · rw [if_neg hn, her]
      have hexn := hex.2 hn
      subst hexn
      obtain ⟨it, hit', hk, _⟩ := kindAt_data c _ _ _ hkind hn
      rw [hit'] at hD
      simp only [Option.toList] at hD
      have hc1 : cOne none e = 1 := by simp [cOne, cf, isNote, he0]
      have hw := hsw.win
      simp only [WinOk, hc1] at hw
      have hnn := hsw.nn
      rw [cntZ_cons, hc1] at hnn
      have hSW : SWk c { A with info := l, rcvdIdx := A.rcvdIdx + 1 } (zipZ l dl) none 1 := by
        rw [hzl]
        exact ⟨hZ1, hidxf.2, by simp only; omega, hw.2, by omega, Nat.le_refl _, hsw.ms, hsw.mlt,
          fun z hz hf => hsw.mfl z (List.mem_cons_of_mem _ hz) hf⟩
      have hP : Pend c { A with info := l, rcvdIdx := A.rcvdIdx + 1 } (dl.getD A.rcvdIdx 0) := by
        rw [← hdd]
        refine ⟨by have := hw.1.1; simp only at this ⊢; omega, hw.1.2, by simp, fun hf => ?_⟩
        obtain ⟨x, hx'⟩ := hsw.mfl (e, d) (List.mem_cons_self ..) hf
        exact ⟨x, by simpa [hidxf.1] using hx'⟩
      obtain ⟨a1, g', dl', a2⟩ := procJ c e0 δ { A with info := l, rcvdIdx := A.rcvdIdx + 1 } g dl r A.rcvdIdx it _
        hit hio hok hm3 rfl hxt hit' hk hidx hSW hP (by rw [hzl]; omega) hdl
        (KF_pop c A _ _ e l hF hi _ rfl rfl rfl) hst hS hD ho hns
      refine ⟨?_, Post_of_JX c e0 δ _ g' dl' a2⟩
      rw [finish_obs, processData_obs]
      intro hmem
      rcases List.mem_append.mp hmem with h3 | h3
      · exact hna h3
      · simp at h3; exact a1 h3.symm
  · rw [if_pos (by simpa using hidx)]
    have hm3 := MidI_store c A g r.idx r.w r hm hx ⟨rfl, hx, rfl, hkind⟩ rfl hlt
    have hJ3 : JX c e0 δ { A with info := setRes A.info r.idx r } g dl :=
      ⟨⟨hm3, ho, LiveI_of_eq c A _ g hl rfl rfl, fun hst' => absurd hst' hns⟩,
        SWk_store c A dl r ex hsw hex hF2, hdl, KF_store c A g.h dl r hF hrl hst, hS⟩
    obtain ⟨b1, b2⟩ := loop_J c e0 δ (loopFuel A) _ g dl hv hit hio hok hJ3 hsd
      (by unfold loopFuel; simp only; omega)
    exact ⟨fin_loop_J c _ _ b1 hna, b2⟩

theorem onArrival_ks (c : Cfg) (s : State) (r : Res) :
    (onArrival c s r).wsnaps = s.wsnaps ∧ (onArrival c s r).snap = s.snap ∧
    (onArrival c s r).numYielded = s.numYielded := by
  unfold onArrival
  split
  · have hc := tryPut_sameCore c
      { (if c.persistent then { s with status := s.status.set r.w false } else markUnavailable c s r.w false) with
        bad := (if c.persistent then { s with status := s.status.set r.w false }
                else markUnavailable c s r.w false).bad || r.st.isNone }
    refine ⟨hc.wsnaps.trans ?_, hc.snap.trans ?_, hc.numYielded.trans ?_⟩ <;> (split <;> rfl)
  · exact ⟨rfl, rfl, rfl⟩

/-- Receiving the head of the result queue. -/
theorem recv_J (c : Cfg) (e0 : Nat → Bool) (δ : Nat) (s : State) (g : Ghost) (dl : List Nat) (r : Res)
    (rest : List Res) (hv : c.shards.length = c.W) (hit : c.iterable = true) (hio : c.inOrder = true)
    (hok : ShardsOk c) (hJ : JX c e0 δ s g dl) (hsd : s.shutdown = false) (hq : s.resQ = r :: rest)
    (hna : Obs.assertion ∉ s.obs) :
    Obs.assertion ∉ (recvData c { s with resQ := rest } r).obs ∧
    Post c e0 δ (recvData c { s with resQ := rest } r) := by
  obtain ⟨hm, ho, hl, hfin⟩ := hJ.wi
  obtain ⟨hF1, hF2⟩ := head_entry c s g r rest hm hq
  obtain ⟨g2, hm2, hh, hge, hlts, hu, hx, hkind, hlt, hl2⟩ := onArrival_X c s g r rest hit hio hm hl hq
  obtain ⟨dl', ex, hd1, hex, hd2, hd3, hd4, hd5, hd6⟩ :=
    onArrival_K c s g.h dl r rest hit hJ.sw hJ.dlen hJ.kf hq hF1 hF2
  have hns : Obs.stop ∉ s.obs := fun hst => by have := (hfin hst).1; omega
  obtain ⟨f1, f2, f3, _⟩ := onArrival_frame c { s with resQ := rest, outstanding := s.outstanding - 1 } r
  obtain ⟨k1, k2, k3⟩ := onArrival_ks c { s with resQ := rest, outstanding := s.outstanding - 1 } r
  rw [recvData_eq_tail]
  have hst0 := hJ.kf.rf r (by rw [hq]; exact List.mem_cons_self ..)
  have hgl : g.h.length = s.sendIdx := hm.hlen
  have hdll : dl'.length ≤ g.h.length + 1 := by
    have := hJ.dlen
    rcases hd1 with rfl | rfl
    · omega
    · simp; omega
  have htk : ∀ k, k ≤ g.h.length → g2.h.take k = g.h.take k := fun k hk => take_of_prefix g.h g2.h k hk hh
  have hx2 : g2.h[r.idx]? = some r.w := by
    rcases hh with hh | ⟨v, hh⟩
    · rw [hh]; exact hx
    · rw [hh]; exact getElem?_snoc_of_some _ _ _ _ hx
  have hstr : StOk c g2.h dl' r := by
    have h1 : StOk c g.h dl' r := by
      rcases hd1 with rfl | rfl
      · exact hst0.2
      · exact StOk_dl c g.h dl _ r hst0.1 hst0.2
    rcases hh with hh | ⟨v, hh⟩
    · rw [hh]; exact h1
    · rw [hh]; exact StOk_h c g.h dl' [v] r (by omega) h1
  generalize onArrival c { s with resQ := rest, outstanding := s.outstanding - 1 } r = t at *
  simp only at f1 f2 f3 k1 k2 k3
  apply recvTail_J c e0 δ t g2 dl' r ex hv hit hio hok hm2 hl2 (by rw [f3]; exact hsd)
  · rw [f1, f2, htk _ (by omega)]; exact ho
  · rw [f2]; exact hns
  · rw [f2]; exact hna
  · exact hx2
  · rw [htk _ (by omega)]; exact hkind
  · rw [htk _ (by omega)]; exact hlt
  · exact hd3
  · exact hex
  · exact hd2
  · exact KF_h' c t g.h g2.h dl' hdll hh hd4
  · exact hstr
  · exact hd5
  · exact hd6
  · rw [k1, k2, k3, f1, htk _ (by omega)]; exact hJ.ks

end TDV.MPRI
