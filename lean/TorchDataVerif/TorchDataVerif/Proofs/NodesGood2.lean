import TorchDataVerif.Proofs.NodesGood
/-! `Good` is preserved by the stateless combinators: mapper, batcher, filter. -/
namespace TDV.Node

/-! ## mapper -/

theorem mapNext_fst_congr (src : Node) (f : Item → Option Item) (r r' : Run src)
    (h : (src.rnext r).1 = (src.rnext r').1) : (mapNext src f r).1 = (mapNext src f r').1 := by
  rcases ha : src.rnext r with ⟨oa, a'⟩
  rcases hb : src.rnext r' with ⟨ob, b'⟩
  rw [ha, hb] at h
  simp only at h
  subst h
  cases oa <;> simp only [mapNext, ha, hb]

theorem mapper_nexted (f : Item → Option Item) (src : Node) (R : Run (mapper f src))
    (h : (mapper f src).Reach R) : R.nexted = true → (R.st : Run src).nexted = true := by
  induction h with
  | initNone => intro h; cases h
  | initSome _ _ => intro h; cases h
  | @next r _ _ =>
    intro _
    exact (congrArg Run.nexted (mapNext_snd src f (r.st : Run src))).trans rfl
  | get _ ih => exact ih
  | resetNone _ _ => intro h; cases h
  | resetSome _ _ _ _ => intro h; cases h

theorem mapNext_stop_iff (src : Node) (f : Item → Option Item) (r : Run src) :
    (mapNext src f r).1 = .stop ↔ (src.rnext r).1 = .stop := by
  rcases hx : src.rnext r with ⟨o, r'⟩
  cases o with
  | item v => simp only [mapNext, hx]; cases f v <;> simp
  | stop => simp [mapNext, hx]
  | error e => simp [mapNext, hx]

theorem mapNext_stop2 (src : Node) (f : Item → Option Item) {Rs : Run src → Run src → Prop} (r : Run src)
    (si : (src.rnext (src.rnext r).2).1 = .stop ∧ Rs (src.rnext (src.rnext r).2).2 (src.rnext r).2) :
    (mapNext src f (mapNext src f r).2).1 = .stop ∧
      Rs (mapNext src f (mapNext src f r).2).2 (mapNext src f r).2 := by
  rw [mapNext_snd src f r, mapNext_snd, mapNext_stop_iff]
  exact si

def mapR (f : Item → Option Item) (src : Node) (Rs : Run src → Run src → Prop) (a b : Run (mapper f src)) : Prop :=
  Rs (a.st : Run src) (b.st : Run src) ∧ (mapper f src).Reach a ∧ (mapper f src).Reach b

theorem mapper_good (f : Item → Option Item) {src : Node} {Rs : Run src → Run src → Prop} (g : Good src Rs) :
    Good (mapper f src) (mapR f src Rs) where
  symm := fun a b ⟨h1, h2, h3⟩ => ⟨g.symm _ _ h1, h3, h2⟩
  trans := fun a b c ⟨h1, h2, _⟩ ⟨k1, _, k3⟩ => ⟨g.trans _ _ _ h1 k1, h2, k3⟩
  reach := fun a b h => h.2.1
  refl := fun s h => ⟨g.refl _ (mapper_reach f src s h), h, h⟩
  next := by
    rintro a b ⟨h1, h2, h3⟩
    have e := g.next _ _ h1
    refine ⟨mapNext_fst_congr src f _ _ e.1, ?_, Node.Reach.next h2, Node.Reach.next h3⟩
    have h := e.2
    rw [← mapNext_snd src f (a.st : Run src), ← mapNext_snd src f (b.st : Run src)] at h
    exact h
  resetNone := fun a b ⟨h1, h2, h3⟩ na nb =>
    ⟨g.resetNone _ _ h1 (mapper_nexted f src a h2 na) (mapper_nexted f src b h3 nb),
      Node.Reach.resetNone h2, Node.Reach.resetNone h3⟩
  l1 := fun s h => ⟨g.l1 _ (mapper_reach f src s h), Node.Reach.get h, h⟩
  l2 := fun s r hs hr => ⟨g.l2 _ _ (mapper_reach f src s hs) (mapper_reach f src r hr),
    Node.Reach.resetSome hr hs, Node.Reach.get hs⟩
  l2f := fun s hs => ⟨g.l2f _ (mapper_reach f src s hs), Node.Reach.initSome hs, Node.Reach.get hs⟩
  nr := by
    intro s hs ns
    refine ⟨?_, Node.Reach.resetNone (Node.Reach.next hs), Node.Reach.resetNone hs⟩
    have h := g.nr _ (mapper_reach f src s hs) (mapper_nexted f src s hs ns)
    rw [← mapNext_snd src f (s.st : Run src)] at h
    exact h
  stopIdem := by
    intro s hs h
    have h0 : (src.rnext (s.st : Run src)).1 = .stop := (mapNext_stop_iff src f _).mp h
    have si := g.stopIdem _ (mapper_reach f src s hs) h0
    have hr1 := Node.Reach.next hs
    have m := mapNext_stop2 src f (s.st : Run src) si
    exact ⟨m.1, m.2, Node.Reach.next hr1, hr1⟩

/-! ## batcher -/

theorem collect_congr {src : Node} {Rs : Run src → Run src → Prop}
    (gnext : ∀ a b, Rs a b → (src.rnext a).1 = (src.rnext b).1 ∧ Rs (src.rnext a).2 (src.rnext b).2) (k : Nat) :
    ∀ a b, Rs a b → (collect src k a).1 = (collect src k b).1 ∧ Rs (collect src k a).2 (collect src k b).2 := by
  induction k with
  | zero => intro a b h; exact ⟨rfl, h⟩
  | succ k ih =>
    intro a b h
    have hn := gnext a b h
    rcases ha : src.rnext a with ⟨oa, a'⟩
    rcases hb : src.rnext b with ⟨ob, b'⟩
    rw [ha, hb] at hn
    simp only at hn
    obtain ⟨h1, h2⟩ := hn
    subst h1
    cases oa with
    | item v =>
      have := ih a' b' h2
      have ea : collect src (k + 1) a = ((v :: (collect src k a').1.1, (collect src k a').1.2), (collect src k a').2) := by
        simp only [collect, ha]
      have eb : collect src (k + 1) b = ((v :: (collect src k b').1.1, (collect src k b').1.2), (collect src k b').2) := by
        simp only [collect, hb]
      rw [ea, eb]
      exact ⟨by rw [this.1], this.2⟩
    | stop =>
      have ea : collect src (k + 1) a = (([], .stop), a') := by simp only [collect, ha]
      have eb : collect src (k + 1) b = (([], .stop), b') := by simp only [collect, hb]
      rw [ea, eb]; exact ⟨rfl, h2⟩
    | error e =>
      have ea : collect src (k + 1) a = (([], .err e), a') := by simp only [collect, ha]
      have eb : collect src (k + 1) b = (([], .err e), b') := by simp only [collect, hb]
      rw [ea, eb]; exact ⟨rfl, h2⟩

theorem collect_nexted (src : Node) (k : Nat) : ∀ r : Run src, (collect src (k + 1) r).2.nexted = true := by
  induction k with
  | zero =>
    intro r
    rcases hx : src.rnext r with ⟨o, r'⟩
    have : r'.nexted = true := by
      have : (src.rnext r).2.nexted = true := rfl
      rw [hx] at this; exact this
    cases o <;> simp only [collect, hx] <;> exact this
  | succ k ih =>
    intro r
    rcases hx : src.rnext r with ⟨o, r'⟩
    have : r'.nexted = true := by
      have : (src.rnext r).2.nexted = true := rfl
      rw [hx] at this; exact this
    cases o with
    | item v =>
      have e : collect src (k + 1 + 1) r = ((v :: (collect src (k + 1) r').1.1, (collect src (k + 1) r').1.2), (collect src (k + 1) r').2) := by
        simp only [collect, hx]
      rw [e]; exact ih r'
    | stop => simp only [collect, hx]; exact this
    | error e => simp only [collect, hx]; exact this

/-- Pulling more items does not change which epoch the next `reset()` starts. -/
theorem collect_nr {src : Node} {Rs : Run src → Run src → Prop} (g : Good src Rs) (k : Nat) :
    ∀ r, src.Reach r → r.nexted = true → Rs (src.rreset (collect src k r).2 none) (src.rreset r none) := by
  induction k with
  | zero => intro r hr _; exact g.refl _ (Node.Reach.resetNone hr)
  | succ k ih =>
    intro r hr hn
    have h1 := g.nr r hr hn
    have hr' := Node.Reach.next hr
    rcases hx : src.rnext r with ⟨o, r'⟩
    have hn' : r'.nexted = true := by
      have : (src.rnext r).2.nexted = true := rfl
      rw [hx] at this; exact this
    rw [hx] at h1 hr'
    simp only at h1 hr'
    cases o with
    | item v =>
      have e : (collect src (k + 1) r).2 = (collect src k r').2 := by simp only [collect, hx]
      rw [e]
      exact g.trans _ _ _ (ih r' hr' hn') h1
    | stop =>
      have e : (collect src (k + 1) r).2 = r' := by simp only [collect, hx]
      rw [e]; exact h1
    | error e' =>
      have e : (collect src (k + 1) r).2 = r' := by simp only [collect, hx]
      rw [e]; exact h1

theorem collect_stop_post (src : Node) (k : Nat) : ∀ r, src.Reach r → (collect src k r).1.2 = .stop →
    ∃ r0, src.Reach r0 ∧ (src.rnext r0).1 = .stop ∧ (collect src k r).2 = (src.rnext r0).2 := by
  induction k with
  | zero => intro r _ h; simp [collect] at h
  | succ k ih =>
    intro r hr h
    have hr' := Node.Reach.next hr
    rcases hx : src.rnext r with ⟨o, r'⟩
    rw [hx] at hr'
    cases o with
    | item v =>
      have e : collect src (k + 1) r = ((v :: (collect src k r').1.1, (collect src k r').1.2), (collect src k r').2) := by
        simp only [collect, hx]
      rw [e] at h ⊢
      exact ih r' hr' h
    | stop =>
      have e : collect src (k + 1) r = (([], .stop), r') := by simp only [collect, hx]
      rw [e]
      exact ⟨r, hr, by rw [hx], by rw [hx]⟩
    | error e' =>
      have e : collect src (k + 1) r = (([], .err e'), r') := by simp only [collect, hx]
      rw [e] at h; cases h

theorem batchOut_stop (dl : Bool) (p : List Item × CEnd) (h : batchOut dl p = .stop) : p.2 = .stop := by
  obtain ⟨b, c⟩ := p
  cases c with
  | full => simp [batchOut] at h
  | stop => rfl
  | err e => simp [batchOut] at h

theorem batcher_nexted (bs : Nat) (dl : Bool) (hbs : 1 ≤ bs) (src : Node) (R : Run (batcher bs dl src))
    (h : (batcher bs dl src).Reach R) : R.nexted = true → (R.st : Run src).nexted = true := by
  induction h with
  | initNone => intro h; cases h
  | initSome _ _ => intro h; cases h
  | @next r _ _ =>
    intro _
    obtain ⟨k, rfl⟩ : ∃ k, bs = k + 1 := ⟨bs - 1, by omega⟩
    exact collect_nexted src k (r.st : Run src)
  | get _ ih => exact ih
  | resetNone _ _ => intro h; cases h
  | resetSome _ _ _ _ => intro h; cases h

def batR (bs : Nat) (dl : Bool) (src : Node) (Rs : Run src → Run src → Prop) (a b : Run (batcher bs dl src)) : Prop :=
  Rs (a.st : Run src) (b.st : Run src) ∧ (batcher bs dl src).Reach a ∧ (batcher bs dl src).Reach b

theorem batcher_good (bs : Nat) (dl : Bool) (hbs : 1 ≤ bs) {src : Node} {Rs : Run src → Run src → Prop}
    (g : Good src Rs) : Good (batcher bs dl src) (batR bs dl src Rs) where
  symm := fun a b ⟨h1, h2, h3⟩ => ⟨g.symm _ _ h1, h3, h2⟩
  trans := fun a b c ⟨h1, h2, _⟩ ⟨k1, _, k3⟩ => ⟨g.trans _ _ _ h1 k1, h2, k3⟩
  reach := fun a b h => h.2.1
  refl := fun s h => ⟨g.refl _ (batcher_reach bs dl src s h), h, h⟩
  next := by
    rintro a b ⟨h1, h2, h3⟩
    have e := collect_congr g.next bs _ _ h1
    refine ⟨?_, e.2, Node.Reach.next h2, Node.Reach.next h3⟩
    show batchOut dl (collect src bs (a.st : Run src)).1 = batchOut dl (collect src bs (b.st : Run src)).1
    rw [e.1]
  resetNone := fun a b ⟨h1, h2, h3⟩ na nb =>
    ⟨g.resetNone _ _ h1 (batcher_nexted bs dl hbs src a h2 na) (batcher_nexted bs dl hbs src b h3 nb),
      Node.Reach.resetNone h2, Node.Reach.resetNone h3⟩
  l1 := fun s h => ⟨g.l1 _ (batcher_reach bs dl src s h), Node.Reach.get h, h⟩
  l2 := fun s r hs hr => ⟨g.l2 _ _ (batcher_reach bs dl src s hs) (batcher_reach bs dl src r hr),
    Node.Reach.resetSome hr hs, Node.Reach.get hs⟩
  l2f := fun s hs => ⟨g.l2f _ (batcher_reach bs dl src s hs), Node.Reach.initSome hs, Node.Reach.get hs⟩
  nr := fun s hs ns =>
    ⟨collect_nr g bs _ (batcher_reach bs dl src s hs) (batcher_nexted bs dl hbs src s hs ns),
      Node.Reach.resetNone (Node.Reach.next hs), Node.Reach.resetNone hs⟩
  stopIdem := by
    intro s hs h
    have h0 : batchOut dl (collect src bs (s.st : Run src)).1 = .stop := h
    obtain ⟨r0, hr0, ho, he⟩ := collect_stop_post src bs _ (batcher_reach bs dl src s hs) (batchOut_stop dl _ h0)
    have si := g.stopIdem r0 hr0 ho
    obtain ⟨k, rfl⟩ : ∃ k, bs = k + 1 := ⟨bs - 1, by omega⟩
    have hr1 := Node.Reach.next hs
    rcases hx : src.rnext (src.rnext r0).2 with ⟨o, r2⟩
    rw [hx] at si
    simp only at si
    obtain ⟨si1, si2⟩ := si
    subst si1
    have e : collect src (k + 1) (collect src (k + 1) (s.st : Run src)).2 = (([], .stop), r2) := by
      rw [he]; simp only [collect, hx]
    refine ⟨?_, ?_, Node.Reach.next hr1, hr1⟩
    · show batchOut dl (collect src (k + 1) (collect src (k + 1) (s.st : Run src)).2).1 = .stop
      rw [e]; simp [batchOut]
    · show Rs (collect src (k + 1) (collect src (k + 1) (s.st : Run src)).2).2 (collect src (k + 1) (s.st : Run src)).2
      rw [e, he]; exact si2

/-! ## filter -/

theorem filLoop_congr {src : Node} {Rs : Run src → Run src → Prop}
    (gnext : ∀ a b, Rs a b → (src.rnext a).1 = (src.rnext b).1 ∧ Rs (src.rnext a).2 (src.rnext b).2)
    (p : Item → Bool) (k : Nat) :
    ∀ sa sb : FilSt src, Rs sa.inner sb.inner → sa.nf = sb.nf → sa.ny = sb.ny →
      (filLoop src p k sa).1 = (filLoop src p k sb).1 ∧
      Rs (filLoop src p k sa).2.inner (filLoop src p k sb).2.inner ∧
      (filLoop src p k sa).2.nf = (filLoop src p k sb).2.nf ∧
      (filLoop src p k sa).2.ny = (filLoop src p k sb).2.ny := by
  induction k with
  | zero => intro sa sb h h1 h2; exact ⟨rfl, h, h1, h2⟩
  | succ k ih =>
    intro sa sb h hf hy
    have hn := gnext _ _ h
    rcases ha : src.rnext sa.inner with ⟨oa, a'⟩
    rcases hb : src.rnext sb.inner with ⟨ob, b'⟩
    rw [ha, hb] at hn
    simp only at hn
    obtain ⟨h1, h2⟩ := hn
    subst h1
    cases oa with
    | item v =>
      by_cases hp : p v = true
      · have ea : filLoop src p (k + 1) sa = (.item v, { sa with inner := a', ny := sa.ny + 1 }) := by
          simp only [filLoop, ha, hp, if_true]
        have eb : filLoop src p (k + 1) sb = (.item v, { sb with inner := b', ny := sb.ny + 1 }) := by
          simp only [filLoop, hb, hp, if_true]
        rw [ea, eb]
        exact ⟨rfl, h2, hf, by show sa.ny + 1 = sb.ny + 1; rw [hy]⟩
      · have ea : filLoop src p (k + 1) sa = filLoop src p k { sa with inner := a', nf := sa.nf + 1 } := by
          simp only [filLoop, ha, hp]; rfl
        have eb : filLoop src p (k + 1) sb = filLoop src p k { sb with inner := b', nf := sb.nf + 1 } := by
          simp only [filLoop, hb, hp]; rfl
        rw [ea, eb]
        exact ih _ _ h2 (by show sa.nf + 1 = sb.nf + 1; rw [hf]) hy
    | stop =>
      have ea : filLoop src p (k + 1) sa = (.stop, { sa with inner := a' }) := by simp only [filLoop, ha]
      have eb : filLoop src p (k + 1) sb = (.stop, { sb with inner := b' }) := by simp only [filLoop, hb]
      rw [ea, eb]; exact ⟨rfl, h2, hf, hy⟩
    | error e =>
      have ea : filLoop src p (k + 1) sa = (.error e, { sa with inner := a' }) := by simp only [filLoop, ha]
      have eb : filLoop src p (k + 1) sb = (.error e, { sb with inner := b' }) := by simp only [filLoop, hb]
      rw [ea, eb]; exact ⟨rfl, h2, hf, hy⟩

theorem filLoop_nexted (src : Node) (p : Item → Bool) (k : Nat) :
    ∀ st : FilSt src, (filLoop src p (k + 1) st).2.inner.nexted = true := by
  induction k with
  | zero =>
    intro st
    rcases hx : src.rnext st.inner with ⟨o, r'⟩
    have hn : r'.nexted = true := by
      have : (src.rnext st.inner).2.nexted = true := rfl
      rw [hx] at this; exact this
    cases o with
    | item v =>
      by_cases hp : p v = true
      · simp only [filLoop, hx, hp, if_true]; exact hn
      · simp only [filLoop, hx, hp]; exact hn
    | stop => simp only [filLoop, hx]; exact hn
    | error e => simp only [filLoop, hx]; exact hn
  | succ k ih =>
    intro st
    rcases hx : src.rnext st.inner with ⟨o, r'⟩
    have hn : r'.nexted = true := by
      have : (src.rnext st.inner).2.nexted = true := rfl
      rw [hx] at this; exact this
    cases o with
    | item v =>
      by_cases hp : p v = true
      · have e : filLoop src p (k + 1 + 1) st = (.item v, { st with inner := r', ny := st.ny + 1 }) := by
          simp only [filLoop, hx, hp, if_true]
        rw [e]; exact hn
      · have e : filLoop src p (k + 1 + 1) st = filLoop src p (k + 1) { st with inner := r', nf := st.nf + 1 } := by
          simp only [filLoop, hx, hp]; rfl
        rw [e]; exact ih _
    | stop =>
      have e : filLoop src p (k + 1 + 1) st = (.stop, { st with inner := r' }) := by simp only [filLoop, hx]
      rw [e]; exact hn
    | error e' =>
      have e : filLoop src p (k + 1 + 1) st = (.error e', { st with inner := r' }) := by simp only [filLoop, hx]
      rw [e]; exact hn

theorem filLoop_nr {src : Node} {Rs : Run src → Run src → Prop} (g : Good src Rs) (p : Item → Bool) (k : Nat) :
    ∀ st : FilSt src, src.Reach st.inner → st.inner.nexted = true →
      Rs (src.rreset (filLoop src p k st).2.inner none) (src.rreset st.inner none) := by
  induction k with
  | zero => intro st hr _; exact g.refl _ (Node.Reach.resetNone hr)
  | succ k ih =>
    intro st hr hn
    have h1 := g.nr _ hr hn
    have hr' := Node.Reach.next hr
    rcases hx : src.rnext st.inner with ⟨o, r'⟩
    have hn' : r'.nexted = true := by
      have : (src.rnext st.inner).2.nexted = true := rfl
      rw [hx] at this; exact this
    rw [hx] at h1 hr'
    simp only at h1 hr'
    cases o with
    | item v =>
      by_cases hp : p v = true
      · have e : filLoop src p (k + 1) st = (.item v, { st with inner := r', ny := st.ny + 1 }) := by
          simp only [filLoop, hx, hp, if_true]
        rw [e]; exact h1
      · have e : filLoop src p (k + 1) st = filLoop src p k { st with inner := r', nf := st.nf + 1 } := by
          simp only [filLoop, hx, hp]; rfl
        rw [e]
        exact g.trans _ _ _ (ih { st with inner := r', nf := st.nf + 1 } hr' hn') h1
    | stop =>
      have e : filLoop src p (k + 1) st = (.stop, { st with inner := r' }) := by simp only [filLoop, hx]
      rw [e]; exact h1
    | error e' =>
      have e : filLoop src p (k + 1) st = (.error e', { st with inner := r' }) := by simp only [filLoop, hx]
      rw [e]; exact h1

theorem filLoop_stop_post (src : Node) (p : Item → Bool) (k : Nat) : ∀ st : FilSt src, src.Reach st.inner →
    (filLoop src p k st).1 = .stop →
    ∃ r0, src.Reach r0 ∧ (src.rnext r0).1 = .stop ∧ (filLoop src p k st).2.inner = (src.rnext r0).2 := by
  induction k with
  | zero => intro st _ h; simp [filLoop] at h
  | succ k ih =>
    intro st hr h
    have hr' := Node.Reach.next hr
    rcases hx : src.rnext st.inner with ⟨o, r'⟩
    rw [hx] at hr'
    cases o with
    | item v =>
      by_cases hp : p v = true
      · have e : filLoop src p (k + 1) st = (.item v, { st with inner := r', ny := st.ny + 1 }) := by
          simp only [filLoop, hx, hp, if_true]
        rw [e] at h; cases h
      · have e : filLoop src p (k + 1) st = filLoop src p k { st with inner := r', nf := st.nf + 1 } := by
          simp only [filLoop, hx, hp]; rfl
        rw [e] at h ⊢
        exact ih _ hr' h
    | stop =>
      have e : filLoop src p (k + 1) st = (.stop, { st with inner := r' }) := by simp only [filLoop, hx]
      rw [e]
      exact ⟨st.inner, hr, by rw [hx], by rw [hx]⟩
    | error e' =>
      have e : filLoop src p (k + 1) st = (.error e', { st with inner := r' }) := by simp only [filLoop, hx]
      rw [e] at h; cases h

theorem filLoop_stop_step (src : Node) (p : Item → Bool) (k : Nat) (st1 : FilSt src) (r2 : Run src)
    (hx : src.rnext st1.inner = (.stop, r2)) :
    filLoop src p (k + 1) st1 = (.stop, { st1 with inner := r2 }) := by
  simp only [filLoop, hx]

theorem filter_nexted (fuel : Nat) (hf : 0 < fuel) (p : Item → Bool) (src : Node) (R : Run (filter fuel p src))
    (h : (filter fuel p src).Reach R) : R.nexted = true → (R.st : FilSt src).inner.nexted = true := by
  induction h with
  | initNone => intro h; cases h
  | initSome _ _ => intro h; cases h
  | @next r _ _ =>
    intro _
    obtain ⟨k, rfl⟩ : ∃ k, fuel = k + 1 := ⟨fuel - 1, by omega⟩
    exact filLoop_nexted src p k (r.st : FilSt src)
  | get _ ih => exact ih
  | resetNone _ _ => intro h; cases h
  | resetSome _ _ _ _ => intro h; cases h

def filR (fuel : Nat) (p : Item → Bool) (src : Node) (Rs : Run src → Run src → Prop)
    (a b : Run (filter fuel p src)) : Prop :=
  Rs (a.st : FilSt src).inner (b.st : FilSt src).inner ∧ (a.st : FilSt src).nf = (b.st : FilSt src).nf ∧
  (a.st : FilSt src).ny = (b.st : FilSt src).ny ∧
  (filter fuel p src).Reach a ∧ (filter fuel p src).Reach b

theorem filter_good (fuel : Nat) (hf : 0 < fuel) (p : Item → Bool) {src : Node} {Rs : Run src → Run src → Prop}
    (g : Good src Rs) : Good (filter fuel p src) (filR fuel p src Rs) where
  symm := fun a b ⟨h1, h2, h3, h4, h5⟩ => ⟨g.symm _ _ h1, h2.symm, h3.symm, h5, h4⟩
  trans := fun a b c ⟨h1, h2, h3, h4, _⟩ ⟨k1, k2, k3, _, k5⟩ =>
    ⟨g.trans _ _ _ h1 k1, h2.trans k2, h3.trans k3, h4, k5⟩
  reach := fun a b h => h.2.2.2.1
  refl := fun s h => ⟨g.refl _ (filter_reach fuel p src s h), rfl, rfl, h, h⟩
  next := by
    rintro a b ⟨h1, h2, h3, h4, h5⟩
    have e := filLoop_congr g.next p fuel _ _ h1 h2 h3
    exact ⟨e.1, e.2.1, e.2.2.1, e.2.2.2, Node.Reach.next h4, Node.Reach.next h5⟩
  resetNone := fun a b ⟨h1, _, _, h4, h5⟩ na nb =>
    ⟨g.resetNone _ _ h1 (filter_nexted fuel hf p src a h4 na) (filter_nexted fuel hf p src b h5 nb), rfl, rfl,
      Node.Reach.resetNone h4, Node.Reach.resetNone h5⟩
  l1 := fun s h => ⟨g.l1 _ (filter_reach fuel p src s h), rfl, rfl, Node.Reach.get h, h⟩
  l2 := fun s r hs hr => ⟨g.l2 _ _ (filter_reach fuel p src s hs) (filter_reach fuel p src r hr), rfl, rfl,
    Node.Reach.resetSome hr hs, Node.Reach.get hs⟩
  l2f := fun s hs => ⟨g.l2f _ (filter_reach fuel p src s hs), rfl, rfl, Node.Reach.initSome hs, Node.Reach.get hs⟩
  nr := fun s hs ns =>
    ⟨filLoop_nr g p fuel _ (filter_reach fuel p src s hs) (filter_nexted fuel hf p src s hs ns), rfl, rfl,
      Node.Reach.resetNone (Node.Reach.next hs), Node.Reach.resetNone hs⟩
  stopIdem := by
    intro s hs h
    have h0 : (filLoop src p fuel (s.st : FilSt src)).1 = .stop := h
    obtain ⟨r0, hr0, ho, he⟩ := filLoop_stop_post src p fuel _ (filter_reach fuel p src s hs) h0
    have si := g.stopIdem r0 hr0 ho
    obtain ⟨k, rfl⟩ : ∃ k, fuel = k + 1 := ⟨fuel - 1, by omega⟩
    have hr1 := Node.Reach.next hs
    rcases hx : src.rnext (src.rnext r0).2 with ⟨o, r2⟩
    rw [hx] at si
    simp only at si
    obtain ⟨si1, si2⟩ := si
    subst si1
    have e := filLoop_stop_step src p k (filLoop src p (k + 1) (s.st : FilSt src)).2 r2 (by rw [he]; exact hx)
    refine ⟨?_, ?_, ?_, ?_, Node.Reach.next hr1, hr1⟩
    · show (filLoop src p (k + 1) (filLoop src p (k + 1) (s.st : FilSt src)).2).1 = .stop
      rw [e]
    · show Rs (filLoop src p (k + 1) (filLoop src p (k + 1) (s.st : FilSt src)).2).2.inner
        (filLoop src p (k + 1) (s.st : FilSt src)).2.inner
      rw [e, he]; exact si2
    · show (filLoop src p (k + 1) (filLoop src p (k + 1) (s.st : FilSt src)).2).2.nf =
        (filLoop src p (k + 1) (s.st : FilSt src)).2.nf
      rw [e]
    · show (filLoop src p (k + 1) (filLoop src p (k + 1) (s.st : FilSt src)).2).2.ny =
        (filLoop src p (k + 1) (s.st : FilSt src)).2.ny
      rw [e]

end TDV.Node
