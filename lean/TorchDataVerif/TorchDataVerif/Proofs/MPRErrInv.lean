import TorchDataVerif.Proofs.MPRErrBase
/-!
# MPR with failing fetches: invariants of every resumed run, and what they say about the resumed run itself
-/
namespace TDV.MPR

open TDV.MP

theorem liftedE_inv (c : Cfg) (m : Nat) (ws : List WSt) (hv : c.Valid) (hm : c.iterable = false)
    (hio : c.inOrder = true) (hle : m ≤ c.batches.length) (hpos : lastDue c m = m) :
    InvM c (liftedE c m ws) ∧ SnapM c (liftedE c m ws) := by
  rw [liftedE_eq]
  have hmid0 := baseE_mid c m ws hv hle
  have hpw : 0 < c.P * c.W := Nat.mul_pos hv.2 hv.1
  obtain ⟨h1, h2⟩ := MidM_prime c (c.P * c.W) (baseE c m ws) hv hm hio hmid0
  have hc := prime_sameCore c (c.P * c.W) (baseE c m ws)
  have e1 : (baseE c m ws).rcvdIdx = 0 + m := rfl
  have e2 : (baseE c m ws).obs = preObs c m ++ [] := rfl
  have e3 : (baseE c m ws).phase = .idle := rfl
  have e4 : (baseE c m ws).shutdown = false := rfl
  have e5 : (baseE c m ws).sendIdx = 0 + m := rfl
  have e6 : (baseE c m ws).numYielded = okCount c m := rfl
  have e7 : (baseE c m ws).snap = ⟨okCount c m, ownerAt c m, m, ws⟩ := rfl
  have e9 : (baseE c m ws).mainSnaps = [] := rfl
  refine ⟨⟨?_, ?_, ?_, fun _ => h1, ?_, ?_⟩, ⟨?_, ?_, ?_, ?_, ?_, ?_, ?_, ?_⟩⟩
  · rw [hc.rcvdIdx, hc.obs, e1, e2, Nat.zero_add, List.append_nil]
    unfold preObs
    rw [taskObs_map_expected]
    exact ObsRel_map_expected _
  · intro k; rw [hc.phase, e3]; simp
  · intro hf; rw [hc.shutdown, e4] at hf; cases hf
  · intro _
    rcases h2 hpw with h2 | h2
    · exact Or.inl h2
    · right; rw [hc.rcvdIdx, e1]; rw [e5] at h2; exact h2
  · intro hf
    rw [hc.obs, e2, List.append_nil] at hf
    exact absurd hf (not_mem_map_expected _ _ (fun it => by cases it <;> simp [expected]))
  · rw [hc.numYielded, hc.obs, e2, e6, List.append_nil, preObs_yields_len]
  · refine ⟨0 + m, by rw [hc.rcvdIdx, e1]; exact Nat.le_refl _, ?_⟩
    apply prime_ms_lo c _ _ _ hv hm hio hmid0
    · rw [e9, e5, Nat.sub_self]; rfl
    · rw [e5]; exact Nat.le_refl _
  · rw [hc.rcvdIdx, e1, Nat.zero_add]; exact hle
  · rw [hc.numYielded, hc.rcvdIdx, e1, e6, Nat.zero_add]
  · rw [hc.obs, e2, List.append_nil]
    exact not_mem_map_expected _ _ (fun it => by cases it <;> simp [expected])
  · rw [hc.snap, hc.rcvdIdx, e1, e7, Nat.zero_add, hpos]
  · rw [hc.snap, e7]
  · rw [hc.snap, e7]; rfl

section Map

variable (c : Cfg) (hv : c.Valid) (hm : c.iterable = false) (hio : c.inOrder = true)
include hv hm hio

/-- Every state of a run resumed from a snapshot at position `m`, with absolute task indices, satisfies the
map-style invariants — whatever fetches fail, whatever worker states the snapshot carries. -/
theorem resumedE (m : Nat) (ws : List WSt) (hle : m ≤ c.batches.length) (hpos : lastDue c m = m)
    (as : List Action) (s' : State) (hnr : NoReset as) (hr : run c (restore c (snapE c m ws)) as = some s')
    (hd : ¬ died s') : InvM c (lift m (preObs c m) s') ∧ SnapM c (lift m (preObs c m) s') := by
  have hl := run_lift c m (preObs c m) as (restore c (snapE c m ws)) hnr
  rw [hr, Option.map_some] at hl
  rcases run_invM_snapM c as _ _ hv hm hio hnr (Or.inl (liftedE_inv c m ws hv hm hio hle hpos)) hl with h | h
  · exact h
  · exfalso
    apply hd
    have h' : Obs.workerDied ∈ preObs c m ++ s'.obs := h
    rcases List.mem_append.mp h' with h1 | h1
    · exact absurd h1 (not_mem_map_expected _ _ (fun it => by cases it <;> simp [expected]))
    · exact h1

end Map

/-- What the invariants of the shifted state say about the resumed run itself. -/
theorem liftedE_facts (c : Cfg) (m : Nat) (hle : m ≤ c.batches.length) (s' : State)
    (hi : InvM c (lift m (preObs c m) s')) (hs : SnapM c (lift m (preObs c m) s')) :
    taskObs s'.obs = ((c.batches.drop m).take s'.rcvdIdx).map expected ∧ Obs.assertion ∉ s'.obs ∧
    s'.numYielded = okCount c (s'.rcvdIdx + m) ∧ s'.rcvdIdx + m ≤ c.batches.length ∧
    (Obs.stop ∈ s'.obs → s'.rcvdIdx + m = c.batches.length) ∧
    s'.snap.main = lastDue c (s'.rcvdIdx + m) ∧ s'.snap.step = okCount c s'.snap.main ∧
    s'.snap.lastW = ownerAt c s'.snap.main := by
  have hna : Obs.assertion ∉ preObs c m ++ s'.obs := hs.noas
  have hobs : ObsRel (c.batches.take (s'.rcvdIdx + m)) (taskObs (preObs c m ++ s'.obs)) := hi.obs
  have hto := ObsRel_noassert _ _ hobs (fun hh => hna (mem_taskObs _ _ hh))
  have hpre : taskObs (preObs c m) = (c.batches.take m).map expected := by
    unfold preObs; rw [taskObs_map_expected]
  rw [taskObs_append, hpre, Nat.add_comm, List.take_add, List.map_append] at hto
  have hto' := List.append_cancel_left hto
  refine ⟨hto', fun hh => hna (List.mem_append_right _ hh), hs.cnt, hs.le, ?_, hs.main, hs.step, hs.lastW⟩
  intro hst
  exact hi.fin (List.mem_append_right _ hst)

end TDV.MPR
