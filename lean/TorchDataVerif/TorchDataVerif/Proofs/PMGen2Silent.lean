import TorchDataVerif.Proofs.PMGen2K
/-! `Gen2`: an abandoned generation whose reader is done with the source never operates on the source again, and no
thread of an abandoned generation ever writes into another generation's queues. -/
namespace TDV.PM
variable {c : Cfg}

/-- new iterators constructed during `tr` (each one pushes the abandoned generations one index further) -/
def nCtor : List G2Action → Nat
  | [] => 0
  | .ctorEnter :: tr => nCtor tr + 1
  | _ :: tr => nCtor tr

/-- No action of `tr` that is addressed to the abandoned generation sitting at index `i` of `old` at the start of `tr`
is an operation on the source. -/
def silentFrom (i : Nat) : List G2Action → Prop
  | [] => True
  | .ctorEnter :: tr => silentFrom (i + 1) tr
  | .old j a :: tr => (j = i → a.touchesSource = false) ∧ silentFrom i tr
  | _ :: tr => silentFrom i tr

theorem old_silent_run : ∀ (tr : List G2Action) (x y : G2State) (i : Nat) (s : State),
    x.g.old[i]? = some s → Silent s → g2run c x tr = some y →
    silentFrom i tr ∧ ∃ s', y.g.old[i + nCtor tr]? = some s' ∧ Silent s' ∧ s'.pulled = s.pulled ∧
      (s.rpc = .exited → s'.rpc = .exited)
  | [], x, y, i, s, hi, hq, hr => by
    simp [g2run] at hr; subst hr
    exact ⟨trivial, s, by simpa [nCtor] using hi, hq, rfl, id⟩
  | a :: tr, x, y, i, s, hi, hq, hr => by
    simp only [g2run] at hr
    cases hs : g2step c x a with
    | none => simp [hs] at hr
    | some x1 =>
      simp only [hs] at hr
      cases a
      case cur a =>
        obtain ⟨_, _, s1, _, hx⟩ := g2_cur hs
        have ho : x1.g.old = x.g.old := by rw [hx]
        simpa [silentFrom, nCtor] using old_silent_run tr x1 y i s (by rw [ho]; exact hi) hq hr
      case old j a =>
        obtain ⟨_, s0, s1, hj, hst, rfl⟩ := g2_old hs
        by_cases hji : j = i
        · subst hji
          rw [hi] at hj; cases hj
          obtain ⟨q1, q2, q3, q4⟩ := silent_step hq hst
          have hlt : j < x.g.old.length := by
            rcases Nat.lt_or_ge j x.g.old.length with h | h
            · exact h
            · simp [List.getElem?_eq_none h] at hi
          have hi' : (x.g.old.set j s1)[j]? = some s1 := by simp [hlt]
          obtain ⟨r1, s', r2, r3, r4, r5⟩ := old_silent_run tr _ y j s1 hi' q1 hr
          refine ⟨by simp only [silentFrom]; exact ⟨fun _ => q2, r1⟩, s', by simpa [nCtor] using r2, r3, r4.trans q3,
            fun e => r5 (q4 e)⟩
        · have hi' : (x.g.old.set j s1)[i]? = some s := by
            rw [List.getElem?_set_ne hji]; exact hi
          obtain ⟨r1, r2⟩ := old_silent_run tr _ y i s hi' hq hr
          exact ⟨by simp only [silentFrom]; exact ⟨fun e => absurd e hji, r1⟩, by simpa [nCtor] using r2⟩
      case rInitEnter =>
        obtain ⟨_, _, _, hx⟩ := g2_rInitEnter hs
        have ho : x1.g.old = x.g.old := by rw [hx]
        simpa [silentFrom, nCtor] using old_silent_run tr x1 y i s (by rw [ho]; exact hi) hq hr
      case joinOk t =>
        obtain ⟨ph', _, _, hx⟩ := g2_joinOk hs
        have ho : x1.g.old = x.g.old := by rw [hx]
        simpa [silentFrom, nCtor] using old_silent_run tr x1 y i s (by rw [ho]; exact hi) hq hr
      case joinGiveUp t =>
        obtain ⟨ph', _, _, hx⟩ := g2_joinGiveUp hs
        have ho : x1.g.old = x.g.old := by rw [hx]
        simpa [silentFrom, nCtor] using old_silent_run tr x1 y i s (by rw [ho]; exact hi) hq hr
      case ctorEnter =>
        obtain ⟨k, _, _, _, rfl⟩ := g2_ctorEnter hs
        have hi' : (x.g.cur :: x.g.old)[i + 1]? = some s := by simpa using hi
        obtain ⟨r1, s', r2, r3⟩ := old_silent_run tr _ y (i + 1) s hi' hq hr
        refine ⟨by simpa [silentFrom] using r1, s', ?_, r3⟩
        have : i + nCtor (G2Action.ctorEnter :: tr) = i + 1 + nCtor tr := by simp [nCtor]; omega
        rw [this]; exact r2
      case ctorLeave =>
        obtain ⟨_, hx⟩ := g2_ctorLeave hs
        have ho : x1.g.old = x.g.old := by rw [hx]
        simpa [silentFrom, nCtor] using old_silent_run tr x1 y i s (by rw [ho]; exact hi) hq hr

end TDV.PM
