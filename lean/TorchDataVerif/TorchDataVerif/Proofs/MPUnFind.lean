import TorchDataVerif.Proofs.MPMapThm
/-!
# MPU, `in_order = False`: the capacity-based worker choice of `_try_put_index`
-/
namespace TDV.MPU
open TDV.MP

/-- `max_tasks // sum(self._workers_status)`. -/
def capOf (c : Cfg) (s : State) : Nat := c.P * c.W / countUp s.status

/-- The acceptance test of the worker scan with `in_order = False`: active and below capacity. -/
def goodW (c : Cfg) (s : State) (w : Nat) : Bool := up s w && decide (s.numTasks.getD w 0 < capOf c s)

theorem findWorker_succ (c : Cfg) (s : State) (n cyc : Nat) (hio : c.inOrder = false) :
    findWorker c s (n + 1) cyc =
      if goodW c s cyc then (some cyc, (cyc + 1) % c.W) else findWorker c s n ((cyc + 1) % c.W) := by
  simp [findWorker, goodW, capOf, hio]

theorem findWorker_sound (c : Cfg) (s : State) (hio : c.inOrder = false) (hW : 0 < c.W) (n cyc w cyc' : Nat)
    (hc : cyc < c.W) (h : findWorker c s n cyc = (some w, cyc')) : goodW c s w = true ∧ w < c.W ∧ cyc' < c.W := by
  induction n generalizing cyc with
  | zero => simp [findWorker] at h
  | succ n ih =>
    rw [findWorker_succ c s n cyc hio] at h
    split at h
    · rename_i hg
      simp only [Prod.mk.injEq, Option.some.injEq] at h
      obtain ⟨rfl, rfl⟩ := h
      exact ⟨hg, hc, Nat.mod_lt _ hW⟩
    · exact ih _ (Nat.mod_lt _ hW) h

theorem findWorker_none (c : Cfg) (s : State) (hio : c.inOrder = false) (hW : 0 < c.W) (n cyc cyc' : Nat)
    (hc : cyc < c.W) (h : findWorker c s n cyc = (none, cyc')) :
    (∀ j < n, goodW c s ((cyc + j) % c.W) = false) ∧ cyc' < c.W := by
  induction n generalizing cyc with
  | zero =>
    simp [findWorker] at h
    exact ⟨fun j hj => absurd hj (Nat.not_lt_zero _), h ▸ hc⟩
  | succ n ih =>
    rw [findWorker_succ c s n cyc hio] at h
    split at h
    · simp at h
    · rename_i hg
      obtain ⟨h1, h2⟩ := ih _ (Nat.mod_lt _ hW) h
      refine ⟨fun j hj => ?_, h2⟩
      cases j with
      | zero => simpa [Nat.mod_eq_of_lt hc] using hg
      | succ j =>
        have := h1 j (by omega)
        rwa [Nat.mod_add_mod, Nat.add_assoc, Nat.add_comm 1 j] at this

/-- A cyclic scan of length `W` visits every worker. -/
theorem cyc_cover (W cyc w : Nat) (hc : cyc < W) (hw : w < W) : ∃ j, j < W ∧ (cyc + j) % W = w := by
  by_cases h : cyc ≤ w
  · exact ⟨w - cyc, by omega, by rw [Nat.add_sub_cancel' h]; exact Nat.mod_eq_of_lt hw⟩
  · refine ⟨w + W - cyc, by omega, ?_⟩
    have : cyc + (w + W - cyc) = w + W := by omega
    rw [this, Nat.add_mod_right]; exact Nat.mod_eq_of_lt hw

/-- If some worker is active and below capacity, the scan finds one (and only such a one). -/
theorem findWorker_complete (c : Cfg) (s : State) (hio : c.inOrder = false) (hW : 0 < c.W) (cyc w : Nat)
    (hc : cyc < c.W) (hw : w < c.W) (hg : goodW c s w = true) :
    ∃ w' cyc', findWorker c s c.W cyc = (some w', cyc') ∧ goodW c s w' = true ∧ w' < c.W ∧ cyc' < c.W := by
  rcases hf : findWorker c s c.W cyc with ⟨_ | w', cyc'⟩
  · exfalso
    obtain ⟨h1, _⟩ := findWorker_none c s hio hW c.W cyc cyc' hc hf
    obtain ⟨j, hj, hjw⟩ := cyc_cover c.W cyc w hc hw
    have := h1 j hj
    rw [hjw, hg] at this
    cases this
  · exact ⟨w', cyc', rfl, findWorker_sound c s hio hW c.W cyc w' cyc' hc hf⟩

/-! ## sums and the pigeonhole -/

def sumL : List Nat → Nat
  | [] => 0
  | a :: l => a + sumL l

theorem pigeon (P : Nat) (l : List Nat) (h : sumL l < P * l.length) : ∃ i, i < l.length ∧ l.getD i 0 < P := by
  induction l with
  | nil => simp [sumL] at h
  | cons a l ih =>
    by_cases ha : a < P
    · exact ⟨0, by simp, by simpa using ha⟩
    · have : sumL l < P * l.length := by
        simp only [sumL, List.length_cons, Nat.mul_succ] at h
        omega
      obtain ⟨i, hi, hlt⟩ := ih this
      exact ⟨i + 1, by simp; omega, by simpa using hlt⟩

theorem sumL_modify_succ (l : List Nat) (w : Nat) (hw : w < l.length) :
    sumL (l.modify w (· + 1)) = sumL l + 1 := by
  induction l generalizing w with
  | nil => simp at hw
  | cons a l ih =>
    cases w with
    | zero => simp [List.modify, sumL]; omega
    | succ w =>
      simp only [List.length_cons] at hw
      simp [List.modify_succ_cons, sumL, ih w (by omega)]; omega

theorem sumL_modify_pred (l : List Nat) (w : Nat) (hw : w < l.length) (hpos : 0 < l.getD w 0) :
    sumL (l.modify w (· - 1)) + 1 = sumL l := by
  induction l generalizing w with
  | nil => simp at hw
  | cons a l ih =>
    cases w with
    | zero =>
      simp at hpos
      simp [List.modify, sumL]; omega
    | succ w =>
      simp only [List.length_cons] at hw
      have hp : 0 < l.getD w 0 := by simpa using hpos
      have := ih w (by omega) hp
      simp [List.modify_succ_cons, sumL]; omega

theorem sumL_replicate_zero (n : Nat) : sumL (List.replicate n 0) = 0 := by
  induction n with
  | zero => rfl
  | succ n ih => simp [List.replicate_succ, sumL, ih]

theorem getD_modify (l : List Nat) (w v : Nat) (f : Nat → Nat) (h0 : f 0 = 0 ∨ w < l.length) :
    (l.modify w f).getD v 0 = if w = v then f (l.getD v 0) else l.getD v 0 := by
  simp only [List.getD_eq_getElem?_getD, List.getElem?_modify]
  by_cases hv : v < l.length
  · simp [List.getElem?_eq_getElem hv]
  · have : l[v]? = none := List.getElem?_eq_none (by omega)
    simp only [this, Option.map_eq_map, Option.map_none, Option.getD_none]
    split
    · rename_i heq
      subst heq
      rcases h0 with h0 | h0
      · exact h0.symm
      · omega
    · rfl

/-! ## `countUp` -/

theorem countUp_le (l : List Bool) : countUp l ≤ l.length := by
  induction l with
  | nil => simp [countUp]
  | cons b l ih => cases b <;> simp [countUp] <;> omega

theorem countUp_replicate (n : Nat) : countUp (List.replicate n true) = n := by
  induction n with
  | zero => rfl
  | succ n ih => simp [List.replicate_succ, countUp, ih]; omega

theorem countUp_pos (l : List Bool) (w : Nat) (h : l.getD w false = true) : 0 < countUp l := by
  induction l generalizing w with
  | nil => simp at h
  | cons b l ih =>
    cases w with
    | zero => simp at h; subst h; simp [countUp]; omega
    | succ w =>
      have := ih w (by simpa using h)
      simp [countUp]; omega

theorem countUp_set_false (l : List Bool) (w : Nat) : countUp (l.set w false) ≤ countUp l := by
  induction l generalizing w with
  | nil => simp [countUp]
  | cons b l ih =>
    cases w with
    | zero => cases b <;> simp [countUp]
    | succ w => simp [countUp, ih w]

end TDV.MPU
