import TorchDataVerif.Model.Loader
/-!
# E2E, part 1 — the iterator interface that the `StatefulDataLoader` façade assumes, made precise

`TDV.SDLApi` (`Model/Loader.lean`) runs the façade (`__iter__`, `state_dict`, `load_state_dict`,
`_get_iterator`, `_iterator`, `next_iter_state`, `_initial_iter_for_state_dict`, `_finished`) over an ABSTRACT
iterator: a position `(e, p)` in an epoch-indexed stream plus `_finished`, whose `state_dict` is the iterator
itself.  Here the same façade code is run over an arbitrary iterator CLASS (`IterClass`: constructor from an
optional state dict, `__next__`, `state_dict`, `_finished`, and the objects — sampler, generator, dataset —
that outlive an iterator and are handed to the next one), so that the real iterator models (`TDV.SP`,
`TDV.MPR`) can be plugged in.

* `Fac.*` — the façade over an `IterClass` (non-persistent workers: one NEW iterator object per `_get_iterator`).
* `idealIC epochs` — the abstract iterator of `TDV.SDLApi` as an `IterClass`; its "world" is the index of the
  next fresh stream, or unknown (`none`) for a newly built loader.
* `Meets IC epochs` — what an iterator class has to satisfy to be abstracted by `idealIC epochs`.
* `okStep`/`wellUsed` — the usage discipline under which the real iterator models say anything at all.
* `obs_meets` — the façade over a class that `Meets` the interface has the observations of the façade over the
  ideal class, on every well-used history.
-/
namespace TDV.E2E
open TDV.Node
open TDV.Loader (Obs Op)
open TDV.SDLApi (It)

/-- An iterator class as `StatefulDataLoader._get_iterator` uses it.  `Wd`: the loader's objects that persist
from one iterator to the next (`make` receives them as the previous iterator left them: `world`).  `make w none` is
`Iter(loader, None)`, `make w (some t)` is `Iter(loader, next_iter_state)`; `none`: the constructor raised. -/
structure IterClass (X T Wd : Type) where
  make : Wd → Option T → Option X
  next : X → Out × X
  state : X → T
  fin : X → Bool
  world : X → Wd

/-- The loader object: `_iterator`, `next_iter_state`, `_initial_iter_for_state_dict`; `handle`: the user holds
the object `_iterator`; `wd`: the persisting objects while `_iterator is None`. -/
structure FState (X T Wd : Type) where
  wd : Wd
  iterator : Option X
  pending : Option T
  initForSd : Bool
  handle : Bool

structure Sys (X T Wd : Type) where
  st : FState X T Wd
  toks : List T
  /-- loaders built so far by `fresh` -/
  nf : Nat

/-- The user is iterating: iterator in hand, nothing pending. -/
def Iterating {X T Wd : Type} (s : FState X T Wd) : Prop :=
  s.iterator.isSome = true ∧ s.pending = none ∧ s.initForSd = false ∧ s.handle = true

def FState.init {X T Wd : Type} (w : Wd) : FState X T Wd := ⟨w, none, none, false, false⟩

def Sys.init {X T Wd : Type} (w : Wd) : Sys X T Wd := ⟨FState.init w, [], 0⟩

/-! ## The façade over an iterator class -/
namespace Fac
section
variable {X T Wd : Type} (IC : IterClass X T Wd)

/-- The persisting objects as they are now. -/
def curWorld (s : FState X T Wd) : Wd :=
  match s.iterator with
  | some x => IC.world x
  | none => s.wd

/-- `self._iterator = self._get_iterator()`; `none`: the constructor raised (nothing is assigned). -/
def getAssign (s : FState X T Wd) : Option (X × FState X T Wd) :=
  match IC.make (curWorld IC s) s.pending with
  | some x => some (x, { s with iterator := some x, pending := none })
  | none => none

/-- Second half of `__iter__`: `if self._iterator._finished: self._iterator = self._get_iterator()`. -/
def iterSecond (x : X) (s : FState X T Wd) : Obs × FState X T Wd :=
  if IC.fin x then
    match getAssign IC s with
    | some r => (.ok, { r.2 with handle := true })
    | none => (.err 1, s)
  else (.ok, { s with handle := true })

/-- `StatefulDataLoader.__iter__` (`persistent_workers = False`).  `err 0`: the `assert`; `err 1`: an iterator
constructor raised. -/
def iter (s : FState X T Wd) : Obs × FState X T Wd :=
  if s.initForSd then
    match s.iterator with
    | some x => iterSecond IC x { s with initForSd := false }
    | none => (.err 0, { s with initForSd := false })
  else
    match getAssign IC s with
    | some r => iterSecond IC r.1 r.2
    | none => (.err 1, s)

/-- `StatefulDataLoader.state_dict` -/
def stateDict (s : FState X T Wd) : Option T × FState X T Wd :=
  match s.iterator with
  | some x => (some (IC.state x), s)
  | none =>
    match getAssign IC s with
    | some r => (some (IC.state r.1), { r.2 with initForSd := true })
    | none => (none, s)

/-- `StatefulDataLoader.load_state_dict` (tokens are never `{}`).  The dropped iterator is not used any more
(the user's handle is gone); the objects stay as it left them. -/
def load (s : FState X T Wd) (t : T) : FState X T Wd :=
  { wd := curWorld IC s, iterator := none, pending := some t, initForSd := false, handle := false }

def next (s : FState X T Wd) : Obs × FState X T Wd :=
  match s.handle, s.iterator with
  | true, some x => (.out (IC.next x).1, { s with iterator := some (IC.next x).2 })
  | _, _ => (.skip, s)

/-- `fw n`: the persisting objects of the `n`-th newly built loader. -/
def step (fw : Nat → Wd) (s : Sys X T Wd) : Op → Obs × Sys X T Wd
  | .iter => ((iter IC s.st).1, ⟨(iter IC s.st).2, s.toks, s.nf⟩)
  | .next => ((next IC s.st).1, ⟨(next IC s.st).2, s.toks, s.nf⟩)
  | .stateDict =>
    match (stateDict IC s.st).1 with
    | some t => (.tok, ⟨(stateDict IC s.st).2, s.toks ++ [t], s.nf⟩)
    | none => (.err 1, ⟨(stateDict IC s.st).2, s.toks, s.nf⟩)
  | .peek =>
    match (stateDict IC s.st).1 with
    | some _ => (.tok, ⟨(stateDict IC s.st).2, s.toks, s.nf⟩)
    | none => (.err 1, ⟨(stateDict IC s.st).2, s.toks, s.nf⟩)
  | .load i =>
    match s.toks[i]? with
    | some t => (.ok, ⟨load IC s.st t, s.toks, s.nf⟩)
    | none => (.skip, s)
  | .abandon => (.ok, ⟨{ s.st with handle := false }, s.toks, s.nf⟩)
  | .fresh => (.ok, ⟨FState.init (fw s.nf), s.toks, s.nf + 1⟩)

def exec (fw : Nat → Wd) : Sys X T Wd → List Op → Sys X T Wd
  | s, [] => s
  | s, op :: ops => exec fw (step IC fw s op).2 ops

def obs (fw : Nat → Wd) : Sys X T Wd → List Op → List Obs
  | _, [] => []
  | s, op :: ops => (step IC fw s op).1 :: obs fw (step IC fw s op).2 ops

/-- The observations of a history, those of `peek` calls left out. -/
def obsSkipPeek (fw : Nat → Wd) : Sys X T Wd → List Op → List Obs
  | _, [] => []
  | s, .peek :: ops => obsSkipPeek fw (step IC fw s .peek).2 ops
  | s, op :: ops => (step IC fw s op).1 :: obsSkipPeek fw (step IC fw s op).2 ops

end
end Fac

/-! ## The abstract iterator of `TDV.SDLApi` as an iterator class -/

/-- The abstract iterator of `TDV.SDLApi` (`It`: epoch `e`, position `p`, `_finished`; `state_dict` = the iterator
itself; `load` exact).  The persisting "objects" are the index of the stream a fresh iterator will deliver —
`some g` — or `none` for a newly built loader, of which nothing is known (its sampler's generator need not be
where the original's was).  Creating an iterator for stream `e` moves the objects on to `e + 1` (the sampler has
drawn its permutation); a loaded state puts them where the saving iterator had them. -/
def idealIC (epochs : Nat → List Item) : IterClass It It (Option Nat) where
  make w t :=
    match t, w with
    | some t, _ => some t
    | none, some g => some ⟨g, 0, false⟩
    | none, none => none
  next := SDLApi.itNext epochs
  state x := x
  fin x := x.fin
  world x := some (x.e + 1)

abbrev IState := FState It It (Option Nat)
abbrev ISys := Sys It It (Option Nat)

/-- Newly built loaders at the ideal level: nothing is known about their objects. -/
def ifw : Nat → Option Nat := fun _ => none

/-! ## Usage discipline

What the real iterator models (`TDV.SP`, `TDV.MPR`) are specified for:
* a new iterator is constructed only when no unfinished iterator is live (the `for` loop ran to its
  `StopIteration`, or the loader is new) — the laws of samplers and datasets speak about objects BETWEEN epochs;
* a constructor without a state runs only on objects whose epoch is known (not on a newly built loader before
  `load_state_dict`);
* `next()` is not called again on an iterator that has raised `StopIteration`;
* `load_state_dict` is not called while an unfinished iterator is live. -/

def itDone : Option It → Bool
  | none => true
  | some x => x.fin

/-- The persisting objects of the ideal loader (`Fac.curWorld`; it does not depend on `epochs`). -/
def iWorld (a : IState) : Option Nat :=
  match a.iterator with
  | some x => some (x.e + 1)
  | none => a.wd

/-- A constructor call is within the discipline. -/
def mkOk (a : IState) : Bool :=
  itDone a.iterator && (a.pending.isSome || (iWorld a).isSome)

def okStep (s : ISys) : Op → Bool
  | .iter => s.st.initForSd || mkOk s.st
  | .stateDict => s.st.iterator.isSome || mkOk s.st
  | .peek => s.st.iterator.isSome || mkOk s.st
  | .next => !(s.st.handle && s.st.iterator.isSome && itDone s.st.iterator)
  | .load i => s.toks[i]?.isNone || itDone s.st.iterator
  | .abandon => true
  | .fresh => true

/-- Every step of the history `ops` from `s` is within the discipline. -/
def wellUsed (epochs : Nat → List Item) : ISys → List Op → Bool
  | _, [] => true
  | s, op :: ops => okStep s op && wellUsed epochs (Fac.step (idealIC epochs) ifw s op).2 ops

/-! ## What an iterator class has to satisfy -/

/-- **The interface `TDV.SDLApi` assumes, as a simulation of iterator classes.**  `A x a`: the real iterator `x`
is at `a` (epoch, position, `_finished`); `AT t a`: the state dict `t` denotes `a`; `AW w g`: the objects `w` are
between epochs and a fresh iterator over them delivers `epochs g`; `WN w`: the objects `w` are fit to receive a
state (built with the same arguments, between epochs).  `world` is where the façade of `TDV.SDLApi` says
something else: there the index of the next fresh stream is a counter of the loader object. -/
structure Meets {X T Wd : Type} (IC : IterClass X T Wd) (epochs : Nat → List Item) where
  A : X → It → Prop
  AT : T → It → Prop
  AW : Wd → Nat → Prop
  WN : Wd → Prop
  aw_wn : ∀ w g, AW w g → WN w
  make_none : ∀ w g, AW w g → ∃ x, IC.make w none = some x ∧ A x ⟨g, 0, false⟩
  make_some : ∀ w t a, WN w → AT t a → ∃ x, IC.make w (some t) = some x ∧ A x a
  next : ∀ x a, A x a → a.fin = false →
    (IC.next x).1 = (SDLApi.itNext epochs a).1 ∧ A (IC.next x).2 (SDLApi.itNext epochs a).2
  state : ∀ x a, A x a → AT (IC.state x) a
  fin : ∀ x a, A x a → IC.fin x = a.fin
  world : ∀ x a, A x a → a.fin = true → AW (IC.world x) (a.e + 1)

/-! ## Lifting: the façade over a class that meets the interface -/
section lift
variable {X T Wd : Type} {IC : IterClass X T Wd} {epochs : Nat → List Item}

theorem curWorld_ideal (a : IState) : Fac.curWorld (idealIC epochs) a = iWorld a := by
  unfold Fac.curWorld iWorld
  cases a.iterator <;> rfl

def ORel {α β : Type} (R : α → β → Prop) : Option α → Option β → Prop
  | some a, some b => R a b
  | none, none => True
  | _, _ => False

def WRel (M : Meets IC epochs) (w : Wd) : Option Nat → Prop
  | some g => M.AW w g
  | none => M.WN w

theorem wrel_wn (M : Meets IC epochs) (w : Wd) (g : Option Nat) (h : WRel M w g) : M.WN w := by
  cases g with
  | none => exact h
  | some g => exact M.aw_wn w g h

/-- Real and ideal loader object in step; the last two clauses are the flag invariant of the façade. -/
structure Rel (M : Meets IC epochs) (s : FState X T Wd) (a : IState) : Prop where
  it : ORel M.A s.iterator a.iterator
  pend : ORel M.AT s.pending a.pending
  flag : s.initForSd = a.initForSd
  handle : s.handle = a.handle
  world : a.iterator = none → WRel M s.wd a.wd
  iflag : a.initForSd = true → a.iterator ≠ none
  ipend : a.pending ≠ none → a.iterator = none

theorem rel_init (M : Meets IC epochs) (w : Wd) (g : Option Nat) (h : WRel M w g) :
    Rel M (FState.init w) (FState.init g) :=
  ⟨trivial, trivial, rfl, rfl, fun _ => h, by simp [FState.init], by simp [FState.init]⟩

theorem curWorld_rel (M : Meets IC epochs) {s : FState X T Wd} {a : IState} (h : Rel M s a)
    (hd : itDone a.iterator = true) : WRel M (Fac.curWorld IC s) (iWorld a) := by
  have hit := h.it
  have hw := h.world
  unfold Fac.curWorld iWorld
  cases hs : s.iterator with
  | none =>
    cases ha : a.iterator with
    | none => exact hw ha
    | some b => rw [hs, ha] at hit; exact hit.elim
  | some x =>
    cases ha : a.iterator with
    | none => rw [hs, ha] at hit; exact hit.elim
    | some b =>
      rw [hs, ha] at hit
      rw [ha] at hd
      exact M.world x b hit hd

theorem rel_assign (M : Meets IC epochs) {s : FState X T Wd} {a : IState} (h : Rel M s a) {x : X} {b : It}
    (hx : M.A x b) :
    Rel M { s with iterator := some x, pending := none } { a with iterator := some b, pending := none } :=
  ⟨hx, trivial, h.flag, h.handle, fun hn => by simp at hn, fun _ => by simp, fun hn => by simp at hn⟩

/-- A constructor call within the discipline: both sides construct, the new iterators are in step. -/
theorem getAssign_rel (M : Meets IC epochs) {s : FState X T Wd} {a : IState} (h : Rel M s a)
    (hok : mkOk a = true) :
    ∃ x b, M.A x b ∧
      Fac.getAssign IC s = some (x, { s with iterator := some x, pending := none }) ∧
      Fac.getAssign (idealIC epochs) a = some (b, { a with iterator := some b, pending := none }) ∧
      (a.pending = none → b.fin = false) := by
  unfold mkOk at hok
  simp only [Bool.and_eq_true, Bool.or_eq_true] at hok
  obtain ⟨hd, hpw⟩ := hok
  have hw := curWorld_rel M h hd
  have hp := h.pend
  unfold Fac.getAssign
  rw [curWorld_ideal]
  cases hsp : s.pending with
  | some t =>
    cases hap : a.pending with
    | none => rw [hsp, hap] at hp; exact hp.elim
    | some ta =>
      rw [hsp, hap] at hp
      obtain ⟨x, hmk, hA⟩ := M.make_some _ t ta (wrel_wn M _ _ hw) hp
      refine ⟨x, ta, hA, ?_, ?_, fun hn => by simp at hn⟩
      · rw [hmk]
      · simp [idealIC]
  | none =>
    cases hap : a.pending with
    | some ta => rw [hsp, hap] at hp; exact hp.elim
    | none =>
      rw [hap] at hpw
      simp only [Option.isSome_none, Bool.false_eq_true, false_or] at hpw
      cases hg : iWorld a with
      | none => rw [hg] at hpw; simp at hpw
      | some g =>
        rw [hg] at hw
        obtain ⟨x, hmk, hA⟩ := M.make_none _ g hw
        refine ⟨x, ⟨g, 0, false⟩, hA, ?_, ?_, fun _ => rfl⟩
        · rw [hmk]
        · simp [idealIC]

theorem rel_handle (M : Meets IC epochs) {s : FState X T Wd} {a : IState} (h : Rel M s a) (v : Bool) :
    Rel M { s with handle := v } { a with handle := v } :=
  ⟨h.it, h.pend, h.flag, rfl, h.world, h.iflag, h.ipend⟩

theorem rel_flag_off (M : Meets IC epochs) {s : FState X T Wd} {a : IState} (h : Rel M s a) :
    Rel M { s with initForSd := false } { a with initForSd := false } :=
  ⟨h.it, h.pend, rfl, h.handle, h.world, fun hn => by simp at hn, h.ipend⟩

theorem iterSecond_rel (M : Meets IC epochs) {s : FState X T Wd} {a : IState} (h : Rel M s a) {x : X} {b : It}
    (hs : s.iterator = some x) (ha : a.iterator = some b) :
    (Fac.iterSecond IC x s).1 = (Fac.iterSecond (idealIC epochs) b a).1 ∧
      Rel M (Fac.iterSecond IC x s).2 (Fac.iterSecond (idealIC epochs) b a).2 := by
  have hA : M.A x b := by
    have := h.it
    rw [hs, ha] at this
    exact this
  have hf := M.fin x b hA
  unfold Fac.iterSecond
  have hf' : (idealIC epochs).fin b = b.fin := rfl
  rw [hf, hf']
  cases hb : b.fin with
  | false => exact ⟨rfl, rel_handle M h true⟩
  | true =>
    have hok : mkOk a = true := by
      simp [mkOk, itDone, iWorld, ha, hb]
    obtain ⟨x', b', hA', e1, e2, _⟩ := getAssign_rel M h hok
    rw [e1, e2]
    exact ⟨rfl, rel_handle M (rel_assign M h hA') true⟩

theorem iter_rel (M : Meets IC epochs) {s : FState X T Wd} {a : IState} (h : Rel M s a)
    (hok : (a.initForSd || mkOk a) = true) :
    (Fac.iter IC s).1 = (Fac.iter (idealIC epochs) a).1 ∧
      Rel M (Fac.iter IC s).2 (Fac.iter (idealIC epochs) a).2 := by
  unfold Fac.iter
  rw [h.flag]
  cases hfl : a.initForSd with
  | true =>
    have hne := h.iflag hfl
    have hit := h.it
    cases ha : a.iterator with
    | none => exact absurd ha hne
    | some b =>
      cases hs : s.iterator with
      | none => rw [hs, ha] at hit; exact hit.elim
      | some x =>
        simp only [if_true]
        have r := iterSecond_rel M (rel_flag_off M h) hs ha
        simp only [hs, ha] at r
        exact r
  | false =>
    rw [hfl] at hok
    simp only [Bool.false_or] at hok
    obtain ⟨x, b, hA, e1, e2, _⟩ := getAssign_rel M h hok
    rw [e1, e2]
    simp only [Bool.false_eq_true, if_false]
    exact iterSecond_rel M (rel_assign M h hA) rfl rfl

theorem stateDict_rel (M : Meets IC epochs) {s : FState X T Wd} {a : IState} (h : Rel M s a)
    (hok : (a.iterator.isSome || mkOk a) = true) :
    ∃ t ta, (Fac.stateDict IC s).1 = some t ∧ (Fac.stateDict (idealIC epochs) a).1 = some ta ∧ M.AT t ta ∧
      Rel M (Fac.stateDict IC s).2 (Fac.stateDict (idealIC epochs) a).2 := by
  unfold Fac.stateDict
  have hit := h.it
  cases ha : a.iterator with
  | some b =>
    cases hs : s.iterator with
    | none => rw [hs, ha] at hit; exact hit.elim
    | some x =>
      rw [hs, ha] at hit
      exact ⟨_, _, rfl, rfl, M.state x b hit, h⟩
  | none =>
    cases hs : s.iterator with
    | some x => rw [hs, ha] at hit; exact hit.elim
    | none =>
      rw [ha] at hok
      simp only [Option.isSome_none, Bool.false_or] at hok
      obtain ⟨x, b, hA, e1, e2, _⟩ := getAssign_rel M h hok
      rw [e1, e2]
      refine ⟨_, _, rfl, rfl, M.state x b hA, ?_⟩
      have r := rel_assign M h hA
      exact ⟨r.it, r.pend, rfl, r.handle, r.world, fun _ => by simp, r.ipend⟩

theorem next_rel (M : Meets IC epochs) {s : FState X T Wd} {a : IState} (h : Rel M s a)
    (hok : (!(a.handle && a.iterator.isSome && itDone a.iterator)) = true) :
    (Fac.next IC s).1 = (Fac.next (idealIC epochs) a).1 ∧
      Rel M (Fac.next IC s).2 (Fac.next (idealIC epochs) a).2 := by
  unfold Fac.next
  rw [h.handle]
  have hit := h.it
  cases hh : a.handle with
  | false => exact ⟨rfl, h⟩
  | true =>
    cases ha : a.iterator with
    | none =>
      cases hs : s.iterator with
      | some x => rw [hs, ha] at hit; exact hit.elim
      | none => exact ⟨rfl, h⟩
    | some b =>
      cases hs : s.iterator with
      | none => rw [hs, ha] at hit; exact hit.elim
      | some x =>
        rw [hs, ha] at hit
        have hnf : b.fin = false := by
          rw [hh, ha] at hok
          simpa [itDone] using hok
        obtain ⟨e1, e2⟩ := M.next x b hit hnf
        refine ⟨by simp only [e1]; rfl, ?_⟩
        exact ⟨e2, h.pend, h.flag, rfl, fun hn => by simp at hn, fun _ => by simp, fun hn => by
          have := h.ipend hn; rw [ha] at this; cases this⟩

theorem load_rel (M : Meets IC epochs) {s : FState X T Wd} {a : IState} (h : Rel M s a) {t : T} {ta : It}
    (ht : M.AT t ta) (hd : itDone a.iterator = true) :
    Rel M (Fac.load IC s t) (Fac.load (idealIC epochs) a ta) := by
  have hw := curWorld_rel M h hd
  unfold Fac.load
  rw [curWorld_ideal]
  exact ⟨trivial, ht, rfl, rfl, fun _ => hw, fun hn => by simp at hn, fun _ => rfl⟩

/-- Token lists in step. -/
def TRel (M : Meets IC epochs) (l : List T) (l' : List It) : Prop :=
  l.length = l'.length ∧ ∀ (i : Nat) t ta, l[i]? = some t → l'[i]? = some ta → M.AT t ta

theorem trel_snoc (M : Meets IC epochs) {l : List T} {l' : List It} (h : TRel M l l') {t : T} {ta : It}
    (ht : M.AT t ta) : TRel M (l ++ [t]) (l' ++ [ta]) := by
  obtain ⟨hl, hi⟩ := h
  refine ⟨by simp [hl], ?_⟩
  intro i u ua h1 h2
  by_cases hlt : i < l.length
  · rw [List.getElem?_append_left hlt] at h1
    rw [List.getElem?_append_left (by omega)] at h2
    exact hi i u ua h1 h2
  · have hge : l.length ≤ i := by omega
    rw [List.getElem?_append_right hge] at h1
    rw [List.getElem?_append_right (by omega)] at h2
    rw [hl] at h1
    cases hk : i - l'.length with
    | zero =>
      rw [hk] at h1 h2
      simp at h1 h2
      subst h1 h2
      exact ht
    | succ k => rw [hk] at h1; simp at h1

structure SRel (M : Meets IC epochs) (s : Sys X T Wd) (a : ISys) : Prop where
  st : Rel M s.st a.st
  toks : TRel M s.toks a.toks

/-- **One step of the façade, real iterator class against ideal class**: within the discipline, same
observation, still in step.  `fw`: the objects of newly built loaders are fit to receive a state. -/
theorem step_rel (M : Meets IC epochs) (fw : Nat → Wd) (hfw : ∀ n, M.WN (fw n)) {s : Sys X T Wd} {a : ISys}
    (h : SRel M s a) (op : Op) (hok : okStep a op = true) :
    (Fac.step IC fw s op).1 = (Fac.step (idealIC epochs) ifw a op).1 ∧
      SRel M (Fac.step IC fw s op).2 (Fac.step (idealIC epochs) ifw a op).2 := by
  cases op with
  | iter =>
    have r := iter_rel M h.st hok
    exact ⟨r.1, ⟨r.2, h.toks⟩⟩
  | next =>
    have r := next_rel M h.st hok
    exact ⟨r.1, ⟨r.2, h.toks⟩⟩
  | stateDict =>
    obtain ⟨t, ta, e1, e2, hA, r⟩ := stateDict_rel M h.st hok
    simp only [Fac.step, e1, e2]
    exact ⟨trivial, ⟨r, trel_snoc M h.toks hA⟩⟩
  | peek =>
    obtain ⟨t, ta, e1, e2, hA, r⟩ := stateDict_rel M h.st hok
    simp only [Fac.step, e1, e2]
    exact ⟨trivial, ⟨r, h.toks⟩⟩
  | load i =>
    simp only [Fac.step]
    obtain ⟨hl, hi⟩ := h.toks
    cases h1 : s.toks[i]? with
    | none =>
      have : a.toks[i]? = none := by
        rw [List.getElem?_eq_none_iff] at h1 ⊢
        omega
      rw [this]
      exact ⟨rfl, h⟩
    | some t =>
      have hlt : i < a.toks.length := by
        have := (List.getElem?_eq_some_iff.mp h1).1
        omega
      have h2 : a.toks[i]? = some a.toks[i] := List.getElem?_eq_getElem hlt
      rw [h2]
      have hd : itDone a.st.iterator = true := by
        simpa [okStep, h2] using hok
      exact ⟨rfl, ⟨load_rel M h.st (hi i t _ h1 h2) hd, h.toks⟩⟩
  | abandon => exact ⟨rfl, ⟨rel_handle M h.st false, h.toks⟩⟩
  | fresh => exact ⟨rfl, ⟨rel_init M _ none (hfw _), h.toks⟩⟩

theorem exec_rel (M : Meets IC epochs) (fw : Nat → Wd) (hfw : ∀ n, M.WN (fw n)) :
    ∀ (ops : List Op) {s : Sys X T Wd} {a : ISys}, SRel M s a → wellUsed epochs a ops = true →
      SRel M (Fac.exec IC fw s ops) (Fac.exec (idealIC epochs) ifw a ops)
  | [], _, _, h, _ => h
  | op :: ops, s, a, h, hw => by
    simp only [wellUsed, Bool.and_eq_true] at hw
    exact exec_rel M fw hfw ops (step_rel M fw hfw h op hw.1).2 hw.2

/-- **The façade over a class that meets the interface has the observations of the façade over the ideal
class**, on every well-used history. -/
theorem obs_rel (M : Meets IC epochs) (fw : Nat → Wd) (hfw : ∀ n, M.WN (fw n)) :
    ∀ (ops : List Op) {s : Sys X T Wd} {a : ISys}, SRel M s a → wellUsed epochs a ops = true →
      Fac.obs IC fw s ops = Fac.obs (idealIC epochs) ifw a ops
  | [], _, _, _, _ => rfl
  | op :: ops, s, a, h, hw => by
    simp only [wellUsed, Bool.and_eq_true] at hw
    have r := step_rel M fw hfw h op hw.1
    simp only [Fac.obs]
    rw [r.1, obs_rel M fw hfw ops r.2 hw.2]

theorem srel_init (M : Meets IC epochs) (w : Wd) (g : Option Nat) (h : WRel M w g) :
    SRel M (Sys.init w) (Sys.init g) :=
  ⟨rel_init M w g h, ⟨rfl, fun i t ta h1 => by simp [Sys.init] at h1⟩⟩

theorem obsSkipPeek_rel (M : Meets IC epochs) (fw : Nat → Wd) (hfw : ∀ n, M.WN (fw n)) :
    ∀ (ops : List Op) {s : Sys X T Wd} {a : ISys}, SRel M s a → wellUsed epochs a ops = true →
      Fac.obsSkipPeek IC fw s ops = Fac.obsSkipPeek (idealIC epochs) ifw a ops
  | [], _, _, _, _ => rfl
  | op :: ops, s, a, h, hw => by
    simp only [wellUsed, Bool.and_eq_true] at hw
    have r := step_rel M fw hfw h op hw.1
    have ih := obsSkipPeek_rel M fw hfw ops r.2 hw.2
    cases op <;> simp only [Fac.obsSkipPeek] <;> first | rw [r.1, ih] | rw [ih]

end lift

/-! ### Generic facts about `exec`/`obs` -/
section generic
variable {X T Wd : Type} (IC : IterClass X T Wd) (fw : Nat → Wd)

theorem exec_append : ∀ (l1 l2 : List Op) (s : Sys X T Wd),
    Fac.exec IC fw s (l1 ++ l2) = Fac.exec IC fw (Fac.exec IC fw s l1) l2
  | [], _, _ => rfl
  | op :: l1, l2, s => by simp only [List.cons_append, Fac.exec]; exact exec_append l1 l2 _

theorem obs_append : ∀ (l1 l2 : List Op) (s : Sys X T Wd),
    Fac.obs IC fw s (l1 ++ l2) = Fac.obs IC fw s l1 ++ Fac.obs IC fw (Fac.exec IC fw s l1) l2
  | [], _, _ => rfl
  | op :: l1, l2, s => by simp only [List.cons_append, Fac.obs, Fac.exec]; rw [obs_append l1 l2 _]

theorem wellUsed_append (epochs : Nat → List Item) : ∀ (l1 l2 : List Op) (s : ISys),
    wellUsed epochs s (l1 ++ l2) =
      (wellUsed epochs s l1 && wellUsed epochs (Fac.exec (idealIC epochs) ifw s l1) l2)
  | [], _, _ => by simp [wellUsed, Fac.exec]
  | op :: l1, l2, s => by
    simp only [List.cons_append, wellUsed, Fac.exec, wellUsed_append epochs l1 l2, Bool.and_assoc]

end generic

end TDV.E2E
