import TorchDataVerif.Proofs.MPRThm
/-!
# MPR, map-style WITH failing fetches: the restore constructor applied to a snapshot taken at task position `m`

No `errFree` anywhere.  A snapshot position is an `m` with `lastDue c m = m` (`m = 0`, or task `m − 1` carries a
main snapshot and did not fail).  The snapshot in force there has `snapshot_step = okCount c m` (yields, not
tasks), sampler position `m`, owner of task `m − 1`; its worker states are irrelevant for what a map-style
iterator delivers (`fetch` reads the sampler position only), so they are left arbitrary (`ws`).
`restore c ⟨okCount c m, owner, m, ws⟩`, with task indices shifted by `m` and the first `m` OUTCOMES put back,
satisfies `InvM` and `SnapM` of the original development.
-/
namespace TDV.MPR

open TDV.MP

/-- Owner of the last task before position `m` (`last_yielded_worker_id` of a snapshot taken there). -/
def ownerAt (c : Cfg) (m : Nat) : Nat := if m = 0 then c.W - 1 else (m - 1) % c.W

/-- A snapshot taken at task position `m`, with worker states `ws`. -/
def snapE (c : Cfg) (m : Nat) (ws : List WSt) : Snap := ⟨okCount c m, ownerAt c m, m, ws⟩

theorem restoreWorker_q (c : Cfg) (w : Nat) (o : Option WSt) : (restoreWorker c w o).q = [] := by
  cases o <;> rfl

/-- `restoreBase` of `snapE`, with absolute task indices and the first `m` outcomes put back. -/
def baseE (c : Cfg) (m : Nat) (ws : List WSt) : State := lift m (preObs c m) (restoreBase c (snapE c m ws))

theorem baseE_worker_q (c : Cfg) (m : Nat) (ws : List WSt) (w : Nat) (k : Worker)
    (hk : (baseE c m ws).workers[w]? = some k) : k.q = [] := by
  have e : (baseE c m ws).workers = (restoreWorkers c ws c.W).map (liftWorker m) := rfl
  rw [e, List.getElem?_map] at hk
  by_cases h : w < c.W
  · rw [restoreWorkers_get c _ c.W w h] at hk
    simp only [Option.map_some, Option.some.injEq] at hk
    rw [← hk]
    simp [liftWorker, restoreWorker_q]
  · rw [List.getElem?_eq_none (by rw [restoreWorkers_length]; omega)] at hk
    cases hk

theorem baseE_mid (c : Cfg) (m : Nat) (ws : List WSt) (hv : c.Valid) (hle : m ≤ c.batches.length) :
    MidM c (baseE c m ws) := by
  refine ⟨rfl, ?_, ?_, ?_, ?_, trivial, ?_, ?_, ?_⟩
  · show m = 0 + m
    omega
  · show 0 + m ≤ c.batches.length
    omega
  · show ((if m = 0 then c.W - 1 else (m - 1) % c.W) + 1) % c.W = (0 + m) % c.W
    rw [cyc_after c.W m hv.1, Nat.zero_add]
  · show 0 + m + ([].map (liftInfo m)).length = 0 + m
    simp
  · show ((restoreWorkers c ws c.W).map (liftWorker m)).length = c.W
    simp [restoreWorkers_length]
  · intro w k hk msg hmem
    rw [baseE_worker_q c m ws w k hk] at hmem
    cases hmem
  · intro r hr
    cases hr

/-- The restored iterator with absolute task indices and the first `m` outcomes put back. -/
def liftedE (c : Cfg) (m : Nat) (ws : List WSt) : State := lift m (preObs c m) (restore c (snapE c m ws))

theorem liftedE_eq (c : Cfg) (m : Nat) (ws : List WSt) : liftedE c m ws = prime c (c.P * c.W) (baseE c m ws) :=
  (prime_lift c m (preObs c m) (c.P * c.W) (restoreBase c (snapE c m ws))).symm

theorem preObs_yields_len (c : Cfg) (m : Nat) : (yields (preObs c m)).length = okCount c m := by
  unfold preObs okCount
  rw [yields_map_expected]

end TDV.MPR
