import TorchDataVerif.Proofs.MPUnConsume
import TorchDataVerif.Proofs.MPUStruct
/-!
# MPU, `in_order = False`: worker steps, `skip` and `loop` keep the protocol invariant
-/
namespace TDV.MPU
open TDV.MP

theorem handle_task_idx (c : Cfg) (sh : Bool) (w : Nat) (k : Worker) (i p : Nat) (sn : Bool) (r : Res)
    (h : (handle c sh w k (.task i p sn)).2 = some r) : r.idx = i := by
  simp only [handle] at h
  split at h
  · cases h
  · split at h <;> (cases h; rfl)

/-- What a worker step changes, for the protocol invariant. -/
theorem work_shape (c : Cfg) (s s' : State) (w : Nat) (hst : step c s (.work w) = some s') :
    ∃ (k : Worker) (m : Msg) (rest : List Msg),
      s.workers[w]? = some k ∧ k.alive = true ∧ k.q = m :: rest ∧
      s'.workers = s.workers.set w (handle c s.shutdown w { k with q := rest } m).1 ∧
      s'.resQ = s.resQ ++ (handle c s.shutdown w { k with q := rest } m).2.toList ∧
      s'.status = s.status ∧ s'.numTasks = s.numTasks ∧ s'.cyc = s.cyc ∧ s'.info = s.info ∧
      s'.rcvdIdx = s.rcvdIdx ∧ s'.sendIdx = s.sendIdx ∧ s'.obs = s.obs ∧ s'.phase = s.phase ∧
      s'.shutdown = s.shutdown ∧ s'.samplerPos = s.samplerPos := by
  rw [step_work_eq] at hst
  cases hk : s.workers[w]? with
  | none => simp [hk] at hst
  | some k =>
    simp only [hk] at hst
    split at hst
    · cases hst
    · rename_i hal
      cases hq : k.q with
      | nil => simp [hq] at hst
      | cons m rest =>
        simp only [hq, Option.some.injEq] at hst
        subst hst
        refine ⟨k, m, rest, rfl, by simpa using hal, hq, rfl, ?_, rfl, rfl, rfl, rfl, rfl, rfl, rfl, rfl, rfl, rfl⟩
        cases (handle c s.shutdown w { k with q := rest } m).2 <;> simp

theorem taskIdxs_cons (m : Msg) (rest : List Msg) : taskIdxs (m :: rest) = taskIdxs [m] ++ taskIdxs rest := by
  cases m <;> simp [taskIdxs]

theorem UCore_work (c : Cfg) (s s' : State) (w : Nat) (h : UCore c s) (hst : step c s (.work w) = some s') :
    UCore c s' := by
  obtain ⟨k, m, rest, hk, _, hq, eW, eQ, e1, e2, e4, e5, e6, e7, _, _, _, _⟩ := work_shape c s s' w hst
  have hq' := handle_q' c s.shutdown w { k with q := rest } m
  have hnr := h.nores w k hk
  have hout : ∀ r, (handle c s.shutdown w { k with q := rest } m).2 = some r →
      ∃ i p sn, m = .task i p sn ∧ r.idx = i ∧ r.w = w ∧ r.kind ≠ .ack := by
    intro r hr
    cases m with
    | stop => simp [handle] at hr
    | resume => exact absurd (by rw [hq]; exact List.mem_cons_self ..) hnr
    | task i p sn =>
      exact ⟨i, p, sn, rfl, handle_task_idx c _ w _ i p sn r hr, (handle_task_out c _ w _ i p sn r hr).2,
        (handle_task_out c _ w _ i p sn r hr).1⟩
  generalize handle c s.shutdown w { k with q := rest } m = H at eW eQ hq' hout
  obtain ⟨K, out⟩ := H
  simp only at eW eQ hq' hout
  have hwl : w < s.workers.length := (List.getElem?_eq_some_iff.mp hk).1
  have hwW : w < c.W := by rw [← h.wl]; exact hwl
  have hup : ∀ v, up s' v = up s v := fun v => by simp [up, e1]
  have hcap : capOf c s' = capOf c s := by simp [capOf, e1]
  have hget : ∀ v, (s.workers.set w K)[v]? = if w = v then some K else s.workers[v]? := by
    intro v
    rw [List.getElem?_set]
    split
    · simp [hwl]
    · rfl
  have hpre : taskIdxs k.q = taskIdxs [m] ++ taskIdxs K.q := by rw [hq, hq']; exact taskIdxs_cons m rest
  have hperm := qIdxs_set s.workers w k K hk (taskIdxs [m]) hpre
  have hosub : (out.toList.map (·.idx)).Sublist (taskIdxs [m]) := by
    cases out with
    | none => simp
    | some r =>
      obtain ⟨i, p, sn, rfl, hi, _, _⟩ := hout r rfl
      simp [taskIdxs, hi]
  have hfl' : flight s' = qIdxs (s.workers.set w K) ++ s.resQ.map (·.idx) ++ out.toList.map (·.idx) := by
    simp [flight, eW, eQ]
  have hflp : (flight s).Perm (qIdxs (s.workers.set w K) ++ s.resQ.map (·.idx) ++ taskIdxs [m]) := by
    simp only [flight]
    refine (List.Perm.append_right _ hperm).trans ?_
    rw [List.append_assoc (taskIdxs [m])]
    exact List.perm_append_comm
  have hsubp : (flight s').Sublist (qIdxs (s.workers.set w K) ++ s.resQ.map (·.idx) ++ taskIdxs [m]) := by
    rw [hfl']; exact List.Sublist.append_left hosub _
  have hmem : ∀ i ∈ flight s', i ∈ flight s := fun i hi => hflp.symm.subset (hsubp.subset hi)
  constructor
  · rw [e1]; exact h.stl
  · rw [e2]; exact h.ntl
  · rw [eW]; simp [h.wl]
  · rw [e4]; exact h.cyc
  · rw [e6, e7]; exact h.rs
  · rw [e5]; exact h.rnone
  · rw [e5]; exact h.ind
  · rw [e5, e6, e7]; exact h.irng
  · intro v hv hu; rw [hup] at hu; rw [e2, e5]; exact h.cnt v hv hu
  · intro v hv hu; rw [hup] at hu; rw [e2, hcap]; exact h.cap v hv hu
  · exact List.Nodup.sublist hsubp ((hflp.nodup_iff).mp h.fnd)
  · intro i hi; rw [e7]; exact h.flt i (hmem i hi)
  · intro v kv hkv hu i hi
    rw [hup] at hu
    rw [eW, hget] at hkv
    rw [e5]
    split at hkv
    · rename_i hwv
      cases hkv
      subst hwv
      exact h.fq w k hk hu i (by rw [hpre]; exact List.mem_append_right _ hi)
    · exact h.fq v kv hkv hu i hi
  · intro r hr hu
    rw [hup] at hu
    rw [eQ] at hr
    rw [e5]
    rcases List.mem_append.mp hr with h1 | h1
    · exact h.fr r h1 hu
    · cases out with
      | none => simp at h1
      | some r0 =>
        simp at h1; subst h1
        obtain ⟨i, p, sn, hm, hi, hw, _⟩ := hout r rfl
        rw [hw] at hu ⊢
        rw [hi]
        exact h.fq w k hk hu i (by rw [hq, hm]; simp [taskIdxs])
  · intro v kv hkv
    rw [eW, hget] at hkv
    split at hkv
    · cases hkv
      rw [hq']
      intro hm
      exact hnr (by rw [hq]; exact List.mem_cons_of_mem _ hm)
    · exact h.nores v kv hkv
  · intro r hr
    rw [eQ] at hr
    rcases List.mem_append.mp hr with h1 | h1
    · exact h.rw r h1
    · cases out with
      | none => simp at h1
      | some r0 =>
        simp at h1; subst h1
        obtain ⟨_, _, _, _, _, hw, hk'⟩ := hout r rfl
        exact ⟨by rw [hw]; exact hwW, hk'⟩

/-- Everything the `skip` scan leaves alone. -/
structure SameX (s t : State) : Prop where
  status : t.status = s.status
  numTasks : t.numTasks = s.numTasks
  workers : t.workers = s.workers
  cyc : t.cyc = s.cyc
  sendIdx : t.sendIdx = s.sendIdx
  resQ : t.resQ = s.resQ
  phase : t.phase = s.phase
  obs : t.obs = s.obs
  shutdown : t.shutdown = s.shutdown
  samplerPos : t.samplerPos = s.samplerPos

theorem SameX.refl (s : State) : SameX s s := by constructor <;> rfl

theorem SameX.trans {a b d : State} (h1 : SameX a b) (h2 : SameX b d) : SameX a d := by
  constructor
  · rw [h2.status, h1.status]
  · rw [h2.numTasks, h1.numTasks]
  · rw [h2.workers, h1.workers]
  · rw [h2.cyc, h1.cyc]
  · rw [h2.sendIdx, h1.sendIdx]
  · rw [h2.resQ, h1.resQ]
  · rw [h2.phase, h1.phase]
  · rw [h2.obs, h1.obs]
  · rw [h2.shutdown, h1.shutdown]
  · rw [h2.samplerPos, h1.samplerPos]

/-- `skip` only drops entries of retired workers and moves `rcvd_idx` forward. -/
structure SkipRel (s t : State) : Prop where
  same : SameX s t
  sub : ∀ e ∈ t.info, e ∈ s.info
  surv : ∀ e ∈ s.info, up s e.w = true → e ∈ t.info
  mono : s.rcvdIdx ≤ t.rcvdIdx
  keep : (∀ e ∈ s.info, up s e.w = true) → t.info = s.info

theorem lookupInfo_some (l : List Info) (i : Nat) (e : Info) (h : lookupInfo l i = some e) : e ∈ l ∧ e.idx = i := by
  simp only [lookupInfo] at h
  exact ⟨List.mem_of_find?_eq_some h, by have := List.find?_some h; simpa using this⟩

theorem lookupInfo_none (l : List Info) (i : Nat) (h : lookupInfo l i = none) : ∀ e ∈ l, e.idx ≠ i := by
  simp only [lookupInfo, List.find?_eq_none] at h
  intro e he
  simpa using h e he

theorem skip_spec (c : Cfg) (s : State) (n : Nat) (h : UCore c s) : UCore c (skip s n) ∧ SkipRel s (skip s n) := by
  induction n generalizing s with
  | zero => exact ⟨h, SameX.refl s, fun _ he => he, fun _ he _ => he, Nat.le_refl _, fun _ => rfl⟩
  | succ n ih =>
    unfold skip
    split
    · rename_i hlt
      split
      · rename_i e hlk
        obtain ⟨hem, hei⟩ := lookupInfo_some _ _ _ hlk
        split
        · exact ⟨h, SameX.refl s, fun _ he => he, fun _ he _ => he, Nat.le_refl _, fun _ => rfl⟩
        · rename_i hdead
          simp only [Bool.or_eq_true, not_or, Bool.not_eq_true] at hdead
          have hd : ∀ e' ∈ s.info, e'.idx = s.rcvdIdx → up s e'.w = false := by
            intro e' he' heq
            have : e' = e := idx_inj s.info h.ind e' e he' hem (by rw [heq, hei])
            rw [this]; exact hdead.2
          have h1 := UCore_eraseDead c s s.rcvdIdx (s.rcvdIdx + 1) h hd (Or.inr ⟨rfl, rfl, hlt⟩)
          obtain ⟨h2, h3⟩ := ih _ h1
          refine ⟨h2, SameX.trans (by constructor <;> rfl) h3.same, ?_, ?_, ?_, ?_⟩
          · intro x hx; exact ((mem_erase _ _ _).mp (h3.sub x hx)).1
          · intro x hx hu
            apply h3.surv x _ hu
            show x ∈ eraseInfo s.info s.rcvdIdx
            rw [mem_erase]
            refine ⟨hx, fun heq => ?_⟩
            rw [hd x hx heq] at hu; cases hu
          · have := h3.mono; simp only at this; omega
          · intro hall
            have := hall e hem
            rw [hdead.2] at this; cases this
      · rename_i hlk
        have h1 := UCore_advance c s h hlt (lookupInfo_none _ _ hlk)
        obtain ⟨h2, h3⟩ := ih _ h1
        refine ⟨h2, SameX.trans (by constructor <;> rfl) h3.same, h3.sub, h3.surv, ?_, h3.keep⟩
        have := h3.mono; simp only at this; omega
    · exact ⟨h, SameX.refl s, fun _ he => he, fun _ he _ => he, Nat.le_refl _, fun _ => rfl⟩

/-- With `in_order = False` nothing is ever stored in `_task_info`, so the `while True` loop of `_next_data`
scans once and then either raises StopIteration (no entry left at all) or blocks. -/
theorem loop_un (c : Cfg) (n : Nat) (s : State) (h : UCore c s) :
    ∃ (t : State) (b : Bool), UCore c t ∧ SkipRel s t ∧
      (loop c n s = ({ t with bad := b }, none) ∨
       (t.info = [] ∧ t.sendIdx ≤ t.rcvdIdx ∧
        loop c n s = ((if c.persistent then t else shutdownWorkers c t), some .stop))) := by
  cases n with
  | zero => exact ⟨s, s.bad, h, ⟨SameX.refl s, fun _ he => he, fun _ he _ => he, Nat.le_refl _, fun _ => rfl⟩, Or.inl rfl⟩
  | succ n =>
    rw [loop_succ_eq]
    obtain ⟨h1, h2⟩ := skip_spec c s (s.sendIdx - s.rcvdIdx) h
    generalize skip s (s.sendIdx - s.rcvdIdx) = t at h1 h2
    unfold loopBody
    split
    · rename_i hle
      refine ⟨t, t.bad, h1, h2, Or.inr ⟨?_, hle, rfl⟩⟩
      cases hi : t.info with
      | nil => rfl
      | cons e l =>
        have := h1.irng e (by rw [hi]; exact List.mem_cons_self ..)
        omega
    · split
      · exact ⟨t, t.bad, h1, h2, Or.inl rfl⟩
      · rename_i e hlk
        obtain ⟨hem, _⟩ := lookupInfo_some _ _ _ hlk
        have hr := h1.rnone e hem
        split
        · rename_i r hres
          rw [hr] at hres; cases hres
        · exact ⟨t, _, h1, h2, Or.inl rfl⟩

end TDV.MPU
