import TorchDataVerif.Model.Incr
/-! Helper lemmas for M1 `Incr` (property theorems live in `Props/C07.lean`). -/
namespace TDV.Incr

/-- Keys of a flat state are pairwise distinct. -/
def KeysNodup {α : Type} (fl : List (Path × α)) : Prop := (fl.map Prod.fst).Nodup

/-- Two flat states denote the same finite map. -/
def MapEq (a b : Flat) : Prop := ∀ p, lookup p a = lookup p b

/-- No key is a proper prefix of another key (a flat state that came from a tree). -/
def PrefixFree (fl : Flat) : Prop :=
  ∀ p q, p ∈ fl.map Prod.fst → q ∈ fl.map Prod.fst → p <+: q → p = q

/-! ## Induction principle for the nested inductive `Val` -/

theorem Val.induct {P : Val → Prop} {PL : List (Key × Val) → Prop}
    (leaf : ∀ c, P (.leaf c)) (dict : ∀ kvs, PL kvs → P (.dict kvs))
    (nil : PL []) (cons : ∀ k v r, P v → PL r → PL ((k, v) :: r)) : ∀ v, P v := by
  intro v
  exact Val.rec (motive_1 := P) (motive_2 := PL) (motive_3 := fun kv => P kv.2)
    leaf dict nil (fun hd tl h1 h2 => cons hd.1 hd.2 tl h1 h2) (fun k v h => h) v

theorem Val.inductL {P : Val → Prop} {PL : List (Key × Val) → Prop}
    (leaf : ∀ c, P (.leaf c)) (dict : ∀ kvs, PL kvs → P (.dict kvs))
    (nil : PL []) (cons : ∀ k v r, P v → PL r → PL ((k, v) :: r)) : ∀ kvs, PL kvs := by
  intro kvs
  induction kvs with
  | nil => exact nil
  | cons hd tl ih => exact cons hd.1 hd.2 tl (Val.induct leaf dict nil cons hd.2) ih

/-! ## Equation lemmas -/

@[simp] theorem flatten_leaf (c : Nat) (p : Path) : flatten (.leaf c) p = [(p, c)] := by
  simp [flatten]
@[simp] theorem flatten_dict (kvs : List (Key × Val)) (p : Path) :
    flatten (.dict kvs) p = flatten.flattenL kvs p := by
  simp [flatten]
@[simp] theorem flattenL_nil (p : Path) : flatten.flattenL [] p = [] := by
  simp [flatten.flattenL]
@[simp] theorem flattenL_cons (k : Key) (v : Val) (r : List (Key × Val)) (p : Path) :
    flatten.flattenL ((k, v) :: r) p = flatten v (p ++ [k]) ++ flatten.flattenL r p := by
  simp [flatten.flattenL]

@[simp] theorem WF_leaf (c : Nat) : (Val.leaf c).WF = True := by simp [Val.WF]
@[simp] theorem WF_dict (kvs : List (Key × Val)) :
    (Val.dict kvs).WF = (kvs ≠ [] ∧ (kvs.map Prod.fst).Nodup ∧ Val.WF.WFL kvs) := by
  simp [Val.WF]
@[simp] theorem WFL_nil : Val.WF.WFL [] = True := by simp [Val.WF.WFL]
@[simp] theorem WFL_cons (k : Key) (v : Val) (r : List (Key × Val)) :
    Val.WF.WFL ((k, v) :: r) = (v.WF ∧ Val.WF.WFL r) := by
  simp [Val.WF.WFL]

@[simp] theorem get_leaf_nil (c : Nat) : (Val.leaf c).get [] = some c := by simp [Val.get]
@[simp] theorem get_leaf_cons (c : Nat) (k : Key) (p : Path) :
    (Val.leaf c).get (k :: p) = none := by simp [Val.get]
@[simp] theorem get_dict_nil (kvs : List (Key × Val)) : (Val.dict kvs).get [] = none := by
  simp [Val.get]
@[simp] theorem get_dict_cons (kvs : List (Key × Val)) (k : Key) (p : Path) :
    (Val.dict kvs).get (k :: p) = Val.get.getL kvs k p := by simp [Val.get]
@[simp] theorem getL_nil (k : Key) (p : Path) : Val.get.getL [] k p = none := by
  simp [Val.get.getL]
@[simp] theorem getL_cons (k' : Key) (v : Val) (r : List (Key × Val)) (k : Key) (p : Path) :
    Val.get.getL ((k', v) :: r) k p = if k' = k then v.get p else Val.get.getL r k p := by
  simp [Val.get.getL]

/-! ## `lookup`, `insert`, `erase` -/

@[simp] theorem lookup_nil {α : Type} (p : Path) : lookup p ([] : List (Path × α)) = none := rfl
@[simp] theorem lookup_cons {α : Type} (p q : Path) (a : α) (r : List (Path × α)) :
    lookup p ((q, a) :: r) = if q = p then some a else lookup p r := rfl

theorem lookup_eq_none_iff {α : Type} (p : Path) (l : List (Path × α)) :
    lookup p l = none ↔ p ∉ l.map Prod.fst := by
  induction l with
  | nil => simp
  | cons hd tl ih =>
    obtain ⟨q, a⟩ := hd
    by_cases h : q = p
    · simp [h]
    · have h' : ¬ p = q := fun e => h e.symm
      simp [h, h', ih]

theorem lookup_append {α : Type} (p : Path) (a b : List (Path × α)) :
    lookup p (a ++ b) = match lookup p a with
      | some x => some x
      | none => lookup p b := by
  induction a with
  | nil => simp
  | cons hd tl ih =>
    obtain ⟨q, x⟩ := hd
    by_cases h : q = p <;> simp [h, ih]


/-! ## Keys of `flatten` -/

theorem Val.induct2 {P : Val → Prop} {PL : List (Key × Val) → Prop}
    (leaf : ∀ c, P (.leaf c)) (dict : ∀ kvs, PL kvs → P (.dict kvs))
    (nil : PL []) (cons : ∀ k v r, P v → PL r → PL ((k, v) :: r)) :
    (∀ v, P v) ∧ (∀ kvs, PL kvs) :=
  ⟨Val.induct leaf dict nil cons, Val.inductL leaf dict nil cons⟩

theorem mem_keys_flatten_aux :
    (∀ v : Val, ∀ p q, q ∈ (flatten v p).map Prod.fst → ∃ s, q = p ++ s) ∧
    (∀ kvs : List (Key × Val), ∀ p q, q ∈ (flatten.flattenL kvs p).map Prod.fst →
      ∃ k s, k ∈ kvs.map Prod.fst ∧ q = p ++ k :: s) := by
  apply Val.induct2
  · intro c p q h
    simp at h
    exact ⟨[], by simp [h]⟩
  · intro kvs ih p q h
    simp only [flatten_dict] at h
    obtain ⟨k, s, _, rfl⟩ := ih p q h
    exact ⟨k :: s, rfl⟩
  · intro p q h
    simp at h
  · intro k v r ihv ihr p q h
    simp only [flattenL_cons, List.map_append, List.mem_append] at h
    rcases h with h | h
    · obtain ⟨s, rfl⟩ := ihv _ _ h
      exact ⟨k, s, by simp, by simp⟩
    · obtain ⟨k', s, hk, rfl⟩ := ihr _ _ h
      exact ⟨k', s, by simp [hk], rfl⟩

theorem mem_keys_flatten (v : Val) (p q : Path) (h : q ∈ (flatten v p).map Prod.fst) :
    ∃ s, q = p ++ s := mem_keys_flatten_aux.1 v p q h

theorem mem_keys_flattenL (kvs : List (Key × Val)) (p q : Path)
    (h : q ∈ (flatten.flattenL kvs p).map Prod.fst) :
    ∃ k s, k ∈ kvs.map Prod.fst ∧ q = p ++ k :: s := mem_keys_flatten_aux.2 kvs p q h

theorem flatten_keysNodup_aux :
    (∀ v : Val, v.WF → ∀ p, KeysNodup (flatten v p)) ∧
    (∀ kvs : List (Key × Val), (kvs.map Prod.fst).Nodup → Val.WF.WFL kvs →
      ∀ p, KeysNodup (flatten.flattenL kvs p)) := by
  apply Val.induct2
  · intro c _ p
    simp [KeysNodup]
  · intro kvs ih h p
    simp only [WF_dict] at h
    simpa using ih h.2.1 h.2.2 p
  · intro _ _ p
    simp [KeysNodup]
  · intro k v r ihv ihr hnd hwf p
    simp only [WFL_cons] at hwf
    simp only [List.map_cons, List.nodup_cons] at hnd
    simp only [KeysNodup, flattenL_cons, List.map_append]
    rw [List.nodup_append]
    refine ⟨ihv hwf.1 _, ihr hnd.2 hwf.2 p, ?_⟩
    intro a ha b hb hab
    subst hab
    obtain ⟨s, rfl⟩ := mem_keys_flatten _ _ _ ha
    obtain ⟨k', s', hk', e⟩ := mem_keys_flattenL _ _ _ hb
    simp only [List.append_assoc, List.cons_append, List.nil_append,
      List.append_cancel_left_eq, List.cons.injEq] at e
    exact hnd.1 (e.1 ▸ hk')

/-! ## `lookup` in `flatten` -/

theorem lookup_flatten_aux :
    (∀ v : Val, v.WF → ∀ p q, lookup (p ++ q) (flatten v p) = v.get q) ∧
    (∀ kvs : List (Key × Val), (kvs.map Prod.fst).Nodup → Val.WF.WFL kvs →
      ∀ p k q, lookup (p ++ k :: q) (flatten.flattenL kvs p) = Val.get.getL kvs k q) := by
  apply Val.induct2
  · intro c _ p q
    cases q <;> simp
  · intro kvs ih h p q
    simp only [WF_dict] at h
    cases q with
    | nil =>
      simp only [flatten_dict, get_dict_nil, lookup_eq_none_iff, List.append_nil]
      intro hm
      obtain ⟨k, s, _, e⟩ := mem_keys_flattenL _ _ _ hm
      have := congrArg List.length e
      simp at this
    | cons k q => simpa using ih h.2.1 h.2.2 p k q
  · intro _ _ p k q
    simp
  · intro k' v r ihv ihr hnd hwf p k q
    simp only [WFL_cons] at hwf
    simp only [List.map_cons, List.nodup_cons] at hnd
    simp only [flattenL_cons, getL_cons, lookup_append]
    by_cases hk : k' = k
    · subst hk
      have h1 : lookup (p ++ k' :: q) (flatten v (p ++ [k'])) = v.get q := by
        have := ihv hwf.1 (p ++ [k']) q
        simpa using this
      have h2 : lookup (p ++ k' :: q) (flatten.flattenL r p) = none := by
        rw [lookup_eq_none_iff]
        intro hm
        obtain ⟨k2, s, hk2, e⟩ := mem_keys_flattenL _ _ _ hm
        simp only [List.append_cancel_left_eq, List.cons.injEq] at e
        exact hnd.1 (e.1 ▸ hk2)
      rw [h1, h2]
      cases v.get q <;> simp
    · have h1 : lookup (p ++ k :: q) (flatten v (p ++ [k'])) = none := by
        rw [lookup_eq_none_iff]
        intro hm
        obtain ⟨s, e⟩ := mem_keys_flatten _ _ _ hm
        simp only [List.append_assoc, List.cons_append, List.nil_append,
          List.append_cancel_left_eq, List.cons.injEq] at e
        exact hk e.1.symm
      rw [h1]
      simp [hk, ihr hnd.2 hwf.2 p k q]


/-! ## `insert` / `erase` -/

theorem lookup_insert {α : Type} (p q : Path) (a : α) (l : List (Path × α)) :
    lookup q (insert p a l) = if p = q then some a else lookup q l := by
  induction l with
  | nil => simp [insert]
  | cons hd tl ih =>
    obtain ⟨r, b⟩ := hd
    simp only [insert]
    by_cases h : r = p
    · subst h
      by_cases h2 : r = q <;> simp [h2]
    · by_cases h2 : r = q
      · subst h2
        have : ¬ p = r := fun e => h e.symm
        simp [h, this]
      · simp [h, h2, ih]

theorem mem_keys_insert {α : Type} (p q : Path) (a : α) (l : List (Path × α)) :
    q ∈ (insert p a l).map Prod.fst ↔ q = p ∨ q ∈ l.map Prod.fst := by
  have h1 := lookup_eq_none_iff q (insert p a l)
  have h2 := lookup_eq_none_iff q l
  rw [lookup_insert] at h1
  by_cases h : p = q
  · subst h
    rw [if_pos rfl] at h1
    constructor
    · intro _; exact Or.inl rfl
    · intro _
      exact Classical.byContradiction (fun hc => by have := h1.2 hc; cases this)
  · rw [if_neg h] at h1
    have h3 := h1.symm.trans h2
    constructor
    · intro hm
      exact Or.inr (Classical.byContradiction fun hc => (h3.2 hc) hm)
    · intro hm
      rcases hm with e | hm
      · exact absurd e.symm h
      · exact Classical.byContradiction fun hc => (h3.1 hc) hm

theorem keysNodup_insert {α : Type} (p : Path) (a : α) (l : List (Path × α))
    (h : KeysNodup l) : KeysNodup (insert p a l) := by
  induction l with
  | nil => simp [insert, KeysNodup]
  | cons hd tl ih =>
    obtain ⟨r, b⟩ := hd
    simp only [KeysNodup, List.map_cons, List.nodup_cons] at h
    simp only [insert]
    by_cases hr : r = p
    · simp [hr, KeysNodup] at h ⊢
      exact h
    · simp only [hr, if_false, KeysNodup, List.map_cons, List.nodup_cons]
      refine ⟨?_, ih h.2⟩
      rw [mem_keys_insert]
      intro hc
      rcases hc with hc | hc
      · exact hr hc
      · exact h.1 hc

theorem mem_keys_erase_of {α : Type} (p q : Path) (l : List (Path × α))
    (h : q ∈ (erase p l).map Prod.fst) : q ∈ l.map Prod.fst := by
  induction l with
  | nil => simp [erase] at h
  | cons hd tl ih =>
    obtain ⟨r, b⟩ := hd
    simp only [erase] at h
    by_cases hr : r = p
    · simp only [hr, if_true] at h
      simp only [List.map_cons, List.mem_cons]
      exact Or.inr h
    · simp only [hr, if_false, List.map_cons, List.mem_cons] at h ⊢
      rcases h with h | h
      · exact Or.inl h
      · exact Or.inr (ih h)

theorem keysNodup_erase {α : Type} (p : Path) (l : List (Path × α))
    (h : KeysNodup l) : KeysNodup (erase p l) := by
  induction l with
  | nil => simp [erase, KeysNodup]
  | cons hd tl ih =>
    obtain ⟨r, b⟩ := hd
    simp only [KeysNodup, List.map_cons, List.nodup_cons] at h
    simp only [erase]
    by_cases hr : r = p
    · simp only [hr, if_true]
      exact h.2
    · simp only [hr, if_false, KeysNodup, List.map_cons, List.nodup_cons]
      exact ⟨fun hc => h.1 (mem_keys_erase_of _ _ _ hc), ih h.2⟩

theorem lookup_erase {α : Type} (p q : Path) (l : List (Path × α)) (h : KeysNodup l) :
    lookup q (erase p l) = if p = q then none else lookup q l := by
  induction l with
  | nil => simp [erase]
  | cons hd tl ih =>
    obtain ⟨r, b⟩ := hd
    simp only [KeysNodup, List.map_cons, List.nodup_cons] at h
    simp only [erase]
    by_cases hr : r = p
    · subst hr
      by_cases h2 : r = q
      · subst h2
        simp only [if_true]
        exact (lookup_eq_none_iff _ _).2 h.1
      · simp [h2]
    · by_cases h2 : r = q
      · subst h2
        have : ¬ p = r := fun e => hr e.symm
        simp [hr, this]
      · simp [hr, h2, ih h.2]

/-! ## `applyDelta` -/

/-- One step of `applyDelta`. -/
def step (st : Flat) (e : Path × Option Nat) : Flat :=
  match e.2 with
  | none => erase e.1 st
  | some v => insert e.1 v st

theorem applyDelta_eq (st : Flat) (d : Delta) : applyDelta st d = d.foldl step st := by
  rfl

theorem keysNodup_step (st : Flat) (e : Path × Option Nat) (h : KeysNodup st) :
    KeysNodup (step st e) := by
  obtain ⟨k, u⟩ := e
  cases u with
  | none => exact keysNodup_erase _ _ h
  | some v => exact keysNodup_insert _ _ _ h

theorem lookup_step (st : Flat) (e : Path × Option Nat) (h : KeysNodup st) (q : Path) :
    lookup q (step st e) = if e.1 = q then e.2 else lookup q st := by
  obtain ⟨k, u⟩ := e
  cases u with
  | none => exact lookup_erase _ _ _ h
  | some v => exact lookup_insert _ _ _ _

theorem keysNodup_applyDelta (st : Flat) (d : Delta) (h : KeysNodup st) :
    KeysNodup (applyDelta st d) := by
  rw [applyDelta_eq]
  induction d generalizing st with
  | nil => exact h
  | cons e d ih => exact ih _ (keysNodup_step _ _ h)

theorem lookup_applyDelta (st : Flat) (d : Delta) (h : KeysNodup st) (hd : KeysNodup d)
    (q : Path) :
    lookup q (applyDelta st d) = match lookup q d with
      | some u => u
      | none => lookup q st := by
  rw [applyDelta_eq]
  induction d generalizing st with
  | nil => simp
  | cons e d ih =>
    obtain ⟨k, u⟩ := e
    simp only [KeysNodup, List.map_cons, List.nodup_cons] at hd
    simp only [List.foldl_cons, lookup_cons]
    rw [ih _ (keysNodup_step _ _ h) hd.2, lookup_step _ _ h]
    by_cases hk : k = q
    · subst hk
      have : lookup k d = none := (lookup_eq_none_iff _ _).2 hd.1
      simp [this]
    · simp [hk]


/-! ## `generateDelta` -/

/-- A `filterMap` function that keeps the key of the entries it retains. -/
def KeyPres {α β : Type} (f : Path × α → Option (Path × β)) : Prop :=
  ∀ e y, f e = some y → y.1 = e.1

theorem keys_filterMap_sublist {α β : Type} (f : Path × α → Option (Path × β))
    (hf : KeyPres f) (l : List (Path × α)) :
    ((l.filterMap f).map Prod.fst).Sublist (l.map Prod.fst) := by
  induction l with
  | nil => simp
  | cons e tl ih =>
    cases hfe : f e with
    | none =>
      rw [List.filterMap_cons_none hfe, List.map_cons]
      exact List.Sublist.cons _ ih
    | some y =>
      rw [List.filterMap_cons_some hfe, List.map_cons, List.map_cons, hf e y hfe]
      exact List.Sublist.cons_cons _ ih

theorem lookup_filterMap {α β : Type} (f : Path × α → Option (Path × β))
    (hf : KeyPres f) (l : List (Path × α)) (hl : KeysNodup l) (q : Path) :
    lookup q (l.filterMap f) = match lookup q l with
      | none => none
      | some v => (f (q, v)).map Prod.snd := by
  induction l with
  | nil => simp
  | cons e tl ih =>
    obtain ⟨r, b⟩ := e
    simp only [KeysNodup, List.map_cons, List.nodup_cons] at hl
    have ih := ih hl.2
    cases hfe : f (r, b) with
    | none =>
      rw [List.filterMap_cons_none hfe, lookup_cons]
      by_cases hr : r = q
      · subst hr
        have hn : lookup r tl = none := (lookup_eq_none_iff _ _).2 hl.1
        rw [ih, hn]
        simp [hfe]
      · rw [ih]; simp [hr]
    | some y =>
      have hy : y.1 = r := hf _ _ hfe
      obtain ⟨y1, y2⟩ := y
      simp only at hy
      subst hy
      rw [List.filterMap_cons_some hfe, lookup_cons, lookup_cons]
      by_cases hr : y1 = q
      · subst hr
        simp [hfe]
      · rw [ih]; simp [hr]

def gd1 (new : Flat) (e : Path × Nat) : Option (Path × Option Nat) :=
  match lookup e.1 new with
  | none => some (e.1, none)
  | some v' => if e.2 = v' then none else some (e.1, some v')

def gd2 (base : Flat) (e : Path × Nat) : Option (Path × Option Nat) :=
  match lookup e.1 base with
  | none => some (e.1, some e.2)
  | some _ => none

theorem generateDelta_eq (base new : Flat) :
    generateDelta base new = base.filterMap (gd1 new) ++ new.filterMap (gd2 base) := rfl

theorem keyPres_gd1 (new : Flat) : KeyPres (gd1 new) := by
  intro e y h
  unfold gd1 at h
  split at h
  · cases h; rfl
  · split at h
    · cases h
    · cases h; rfl

theorem keyPres_gd2 (base : Flat) : KeyPres (gd2 base) := by
  intro e y h
  unfold gd2 at h
  split at h
  · cases h; rfl
  · cases h

theorem keysNodup_generateDelta (base new : Flat) (hb : KeysNodup base) (hn : KeysNodup new) :
    KeysNodup (generateDelta base new) := by
  rw [generateDelta_eq]
  simp only [KeysNodup, List.map_append]
  rw [List.nodup_append]
  refine ⟨(keys_filterMap_sublist _ (keyPres_gd1 new) base).nodup hb,
    (keys_filterMap_sublist _ (keyPres_gd2 base) new).nodup hn, ?_⟩
  intro a ha b hb' hab
  subst hab
  have h1 : a ∈ base.map Prod.fst := (keys_filterMap_sublist _ (keyPres_gd1 new) base).subset ha
  rw [List.mem_map] at hb'
  obtain ⟨y, hy, rfl⟩ := hb'
  rw [List.mem_filterMap] at hy
  obtain ⟨e, _, he⟩ := hy
  have hk := keyPres_gd2 base e y he
  unfold gd2 at he
  split at he
  · rename_i hnone
    rw [lookup_eq_none_iff] at hnone
    exact hnone (hk ▸ h1)
  · cases he

theorem lookup_generateDelta (base new : Flat) (hb : KeysNodup base) (hn : KeysNodup new)
    (q : Path) :
    (match lookup q (generateDelta base new) with
      | some u => u
      | none => lookup q base) = lookup q new := by
  rw [generateDelta_eq, lookup_append, lookup_filterMap _ (keyPres_gd1 new) _ hb,
    lookup_filterMap _ (keyPres_gd2 base) _ hn]
  cases h1 : lookup q base with
  | none =>
    cases h2 : lookup q new with
    | none => simp
    | some v' => simp [gd2, h1]
  | some v =>
    cases h2 : lookup q new with
    | none => simp [gd1, h2]
    | some v' =>
      by_cases hv : v = v'
      · simp [gd1, gd2, h1, h2, hv]
      · simp [gd1, h2, hv]

theorem apply_generate_aux (base main new : Flat) (hb : KeysNodup base) (hm : KeysNodup main)
    (hn : KeysNodup new) (h : MapEq main base) :
    MapEq (applyDelta main (generateDelta base new)) new := by
  intro q
  rw [lookup_applyDelta _ _ hm (keysNodup_generateDelta _ _ hb hn), h q]
  exact lookup_generateDelta base new hb hn q


/-! ## The pair invariant along a history -/

structure Inv (s : Pair) (v : Val) : Prop where
  base : s.base = flatten v []
  nd : KeysNodup s.main
  eq : MapEq s.main s.base

theorem inv_init (v : Val) (h : v.WF) : Inv (Pair.init v) v :=
  ⟨rfl, flatten_keysNodup_aux.1 v h [], fun _ => rfl⟩

theorem inv_report (s : Pair) (v v' : Val) (h : Inv s v) (hv : v.WF) (hv' : v'.WF) :
    Inv (s.report v') v' := by
  have hb : KeysNodup s.base := h.base ▸ flatten_keysNodup_aux.1 v hv []
  have hn : KeysNodup (flatten v' []) := flatten_keysNodup_aux.1 v' hv' []
  exact ⟨rfl, keysNodup_applyDelta _ _ h.nd, apply_generate_aux _ _ _ hb h.nd hn h.eq⟩

theorem getLast?_getD_cons (a v : Val) (l : List Val) :
    ((a :: l).getLast?).getD v = (l.getLast?).getD a := by
  rw [List.getLast?_cons]; rfl

theorem inv_foldl (vs : List Val) (s : Pair) (v : Val) (h : Inv s v) (hv : v.WF)
    (hs : ∀ v ∈ vs, v.WF) :
    Inv (vs.foldl Pair.report s) ((vs.getLast?).getD v) ∧ ((vs.getLast?).getD v).WF := by
  induction vs generalizing s v with
  | nil => exact ⟨h, hv⟩
  | cons a l ih =>
    rw [getLast?_getD_cons, List.foldl_cons]
    have ha : a.WF := hs a (by simp)
    exact ih _ _ (inv_report s v a h hv ha) ha (fun x hx => hs x (by simp [hx]))

theorem lossless_aux (v0 : Val) (vs : List Val) (h0 : v0.WF) (hs : ∀ v ∈ vs, v.WF) (q : Path) :
    lookup q (vs.foldl Pair.report (Pair.init v0)).main = ((vs.getLast?).getD v0).get q := by
  obtain ⟨hi, hw⟩ := inv_foldl vs _ v0 (inv_init v0 h0) h0 hs
  rw [hi.eq q, hi.base]
  simpa using lookup_flatten_aux.1 _ hw [] q


/-! ## `groups`, `depth`, `unflatten` -/

/-- Prepend a path to the key of an entry. -/
def pre (p : Path) (e : Path × Nat) : Path × Nat := (p ++ e.1, e.2)

theorem flatten_pre_aux :
    (∀ v : Val, ∀ p q, flatten v (p ++ q) = (flatten v q).map (pre p)) ∧
    (∀ kvs : List (Key × Val), ∀ p q,
      flatten.flattenL kvs (p ++ q) = (flatten.flattenL kvs q).map (pre p)) := by
  apply Val.induct2
  · intro c p q; simp [pre]
  · intro kvs ih p q; simpa using ih p q
  · intro p q; simp
  · intro k v r ihv ihr p q
    simp only [flattenL_cons, List.map_append, List.append_assoc]
    rw [ihv p (q ++ [k]), ihr p q]

theorem flatten_singleton (v : Val) (k : Key) :
    flatten v [k] = (flatten v []).map (pre [k]) := by
  simpa using flatten_pre_aux.1 v [k] []

theorem flatten_ne_nil_aux :
    (∀ v : Val, v.WF → ∀ p, flatten v p ≠ []) ∧
    (∀ kvs : List (Key × Val), Val.WF.WFL kvs → kvs ≠ [] → ∀ p, flatten.flattenL kvs p ≠ []) := by
  apply Val.induct2
  · intro c _ p; simp
  · intro kvs ih h p
    simp only [WF_dict] at h
    simpa using ih h.2.2 h.1 p
  · intro _ h; exact absurd rfl h
  · intro k v r ihv _ hwf _ p
    simp only [WFL_cons] at hwf
    simp only [flattenL_cons, ne_eq, List.append_eq_nil_iff, not_and]
    intro h
    exact absurd h (ihv hwf.1 _)

theorem flatten_subset_flattenL (kvs : List (Key × Val)) (k : Key) (v : Val) (p : Path)
    (h : (k, v) ∈ kvs) : ∀ e ∈ flatten v (p ++ [k]), e ∈ flatten.flattenL kvs p := by
  induction kvs with
  | nil => simp at h
  | cons hd tl ih =>
    obtain ⟨k', v'⟩ := hd
    intro e he
    simp only [flattenL_cons, List.mem_append]
    simp only [List.mem_cons, Prod.mk.injEq] at h
    rcases h with ⟨rfl, rfl⟩ | h
    · exact Or.inl he
    · exact Or.inr (ih h e he)

/-- One step of `groups`. -/
def gstep (acc : List (Key × Flat)) (e : Path × Nat) : List (Key × Flat) :=
  match e.1 with
  | [] => acc
  | k :: rest => groupInsert k (rest, e.2) acc

theorem groups_eq (fl : Flat) : groups fl = fl.foldl gstep [] := rfl

theorem groupInsert_notin (k : Key) (e : Path × Nat) (acc : List (Key × Flat))
    (h : k ∉ acc.map Prod.fst) : groupInsert k e acc = acc ++ [(k, [e])] := by
  induction acc with
  | nil => simp [groupInsert]
  | cons hd tl ih =>
    obtain ⟨k', g⟩ := hd
    simp only [List.map_cons, List.mem_cons, not_or] at h
    have h1 : ¬ k' = k := fun e => h.1 e.symm
    simp [groupInsert, h1, ih h.2]

theorem groupInsert_last (k : Key) (e : Path × Nat) (g : Flat) (acc : List (Key × Flat))
    (h : k ∉ acc.map Prod.fst) :
    groupInsert k e (acc ++ [(k, g)]) = acc ++ [(k, g ++ [e])] := by
  induction acc with
  | nil => simp [groupInsert]
  | cons hd tl ih =>
    obtain ⟨k', g'⟩ := hd
    simp only [List.map_cons, List.mem_cons, not_or] at h
    have h1 : ¬ k' = k := fun e => h.1 e.symm
    simp [groupInsert, h1, ih h.2]

theorem foldl_gstep_pre (k : Key) (es g : Flat) (acc : List (Key × Flat))
    (h : k ∉ acc.map Prod.fst) :
    (es.map (pre [k])).foldl gstep (acc ++ [(k, g)]) = acc ++ [(k, g ++ es)] := by
  induction es generalizing g with
  | nil => simp
  | cons e es ih =>
    simp only [List.map_cons, List.foldl_cons]
    have : gstep (acc ++ [(k, g)]) (pre [k] e) = acc ++ [(k, g ++ [e])] := by
      simp only [gstep, pre, List.cons_append, List.nil_append]
      exact groupInsert_last k _ g acc h
    rw [this, ih]
    simp

theorem foldl_gstep_pre_new (k : Key) (es : Flat) (acc : List (Key × Flat))
    (h : k ∉ acc.map Prod.fst) (hne : es ≠ []) :
    (es.map (pre [k])).foldl gstep acc = acc ++ [(k, es)] := by
  cases es with
  | nil => exact absurd rfl hne
  | cons e es =>
    simp only [List.map_cons, List.foldl_cons]
    have : gstep acc (pre [k] e) = acc ++ [(k, [e])] := by
      simp only [gstep, pre, List.cons_append, List.nil_append]
      exact groupInsert_notin k _ acc h
    rw [this, foldl_gstep_pre k es [e] acc h]
    simp

theorem foldl_gstep_flattenL (kvs : List (Key × Val)) (acc : List (Key × Flat))
    (hnd : (kvs.map Prod.fst).Nodup) (hwf : Val.WF.WFL kvs)
    (hdis : ∀ k ∈ kvs.map Prod.fst, k ∉ acc.map Prod.fst) :
    (flatten.flattenL kvs []).foldl gstep acc
      = acc ++ kvs.map (fun kv => (kv.1, flatten kv.2 [])) := by
  induction kvs generalizing acc with
  | nil => simp
  | cons hd tl ih =>
    obtain ⟨k, v⟩ := hd
    simp only [WFL_cons] at hwf
    simp only [List.map_cons, List.nodup_cons] at hnd
    simp only [flattenL_cons, List.nil_append, List.foldl_append, List.map_cons]
    rw [flatten_singleton, foldl_gstep_pre_new k _ acc (hdis k (by simp))
      (flatten_ne_nil_aux.1 v hwf.1 [])]
    rw [ih _ hnd.2 hwf.2]
    · simp
    · intro k' hk'
      simp only [List.map_append, List.map_cons, List.map_nil, List.mem_append,
        List.mem_singleton, not_or]
      refine ⟨hdis k' (by simp [hk']), ?_⟩
      intro e
      exact hnd.1 (e ▸ hk')

theorem groups_flattenL (kvs : List (Key × Val)) (hnd : (kvs.map Prod.fst).Nodup)
    (hwf : Val.WF.WFL kvs) :
    groups (flatten.flattenL kvs []) = kvs.map (fun kv => (kv.1, flatten kv.2 [])) := by
  rw [groups_eq, foldl_gstep_flattenL kvs [] hnd hwf (by simp)]
  simp

theorem unflatten_zero (fl : Flat) : unflatten 0 fl = .dict [] := rfl

theorem unflatten_succ (fuel : Nat) (fl : Flat) :
    unflatten (fuel + 1) fl = match fl.find? (fun e => e.1 = []) with
      | some (_, c) => .leaf c
      | none => .dict ((groups fl).map fun (k, g) => (k, unflatten fuel g)) := rfl

theorem unflatten_flatten_aux :
    (∀ v : Val, v.WF → ∀ fuel, (∀ e ∈ flatten v [], e.1.length < fuel) →
      unflatten fuel (flatten v []) = v) ∧
    (∀ kvs : List (Key × Val), Val.WF.WFL kvs → ∀ fuel,
      (∀ kv ∈ kvs, ∀ e ∈ flatten kv.2 [], e.1.length < fuel) →
      kvs.map (fun kv => (kv.1, unflatten fuel (flatten kv.2 []))) = kvs) := by
  apply Val.induct2
  · intro c _ fuel hf
    cases fuel with
    | zero => exact absurd (hf ([], c) (by simp)) (by simp)
    | succ f => simp [unflatten_succ]
  · intro kvs ih h fuel hf
    simp only [WF_dict] at h
    obtain ⟨hne, hnd, hwf⟩ := h
    cases fuel with
    | zero =>
      exfalso
      have := flatten_ne_nil_aux.1 (.dict kvs) (by simp [hne, hnd, hwf]) []
      cases hfl : flatten (.dict kvs) [] with
      | nil => exact this hfl
      | cons e tl => exact absurd (hf e (by simp [hfl])) (by simp)
    | succ f =>
      have hfind : (flatten.flattenL kvs []).find? (fun e => e.1 = []) = none := by
        rw [List.find?_eq_none]
        intro e he
        obtain ⟨k, s, _, hk⟩ := mem_keys_flattenL kvs [] e.1 (List.mem_map_of_mem he)
        simp [hk]
      rw [unflatten_succ, flatten_dict, hfind, groups_flattenL kvs hnd hwf]
      simp only [List.map_map]
      congr 1
      refine ih hwf f ?_
      intro kv hkv e he
      have h1 : pre [kv.1] e ∈ flatten kv.2 ([] ++ [kv.1]) := by
        rw [List.nil_append, flatten_singleton]
        exact List.mem_map_of_mem he
      have h2 := flatten_subset_flattenL kvs kv.1 kv.2 [] hkv _ h1
      have h3 := hf _ (by simpa using h2)
      simp [pre] at h3
      omega
  · intro _ fuel _; rfl
  · intro k v r ihv ihr hwf fuel hf
    simp only [WFL_cons] at hwf
    simp only [List.map_cons]
    rw [ihv hwf.1 fuel (hf (k, v) (by simp)), ihr hwf.2 fuel (fun kv hkv => hf kv (by simp [hkv]))]

theorem depth_foldl_ge (fl : Flat) (m : Nat) :
    m ≤ fl.foldl (fun m e => max m e.1.length) m ∧
    ∀ e ∈ fl, e.1.length ≤ fl.foldl (fun m e => max m e.1.length) m := by
  induction fl generalizing m with
  | nil => simp
  | cons hd tl ih =>
    simp only [List.foldl_cons, List.mem_cons]
    have := ih (max m hd.1.length)
    refine ⟨by omega, ?_⟩
    intro e he
    rcases he with rfl | he
    · omega
    · exact this.2 e he

theorem length_le_depth (fl : Flat) : ∀ e ∈ fl, e.1.length < depth fl + 1 := by
  intro e he
  have := (depth_foldl_ge fl 0).2 e he
  unfold depth
  omega


/-! ## `getState` of an arbitrary prefix-free flat state -/

/-- The entries below first key component `k`, with that component stripped. -/
def sub (k : Key) : Flat → Flat
  | [] => []
  | ([], _) :: r => sub k r
  | (k' :: rest, c) :: r => if k' = k then (rest, c) :: sub k r else sub k r

/-- First-match lookup in the list of groups. -/
def glookup (k : Key) : List (Key × Flat) → Option Flat
  | [] => none
  | (k', g) :: r => if k' = k then some g else glookup k r

theorem lookup_sub (k : Key) (p : Path) (fl : Flat) :
    lookup p (sub k fl) = lookup (k :: p) fl := by
  induction fl with
  | nil => simp [sub]
  | cons hd tl ih =>
    obtain ⟨q, c⟩ := hd
    cases q with
    | nil => simp [sub, ih]
    | cons k' rest =>
      by_cases hk : k' = k
      · subst hk
        by_cases hr : rest = p <;> simp [sub, hr, ih]
      · simp [sub, hk, ih]

theorem mem_sub (k : Key) (fl : Flat) (e : Path × Nat) (h : e ∈ sub k fl) :
    (k :: e.1, e.2) ∈ fl := by
  induction fl with
  | nil => simp [sub] at h
  | cons hd tl ih =>
    obtain ⟨q, c⟩ := hd
    cases q with
    | nil =>
      simp only [sub] at h
      exact List.mem_cons_of_mem _ (ih h)
    | cons k' rest =>
      simp only [sub] at h
      by_cases hk : k' = k
      · subst hk
        simp only [if_true, List.mem_cons] at h
        rcases h with rfl | h
        · simp
        · exact List.mem_cons_of_mem _ (ih h)
      · simp only [hk, if_false] at h
        exact List.mem_cons_of_mem _ (ih h)

theorem prefixFree_sub (k : Key) (fl : Flat) (h : PrefixFree fl) : PrefixFree (sub k fl) := by
  intro p q hp hq hpq
  rw [List.mem_map] at hp hq
  obtain ⟨e1, he1, rfl⟩ := hp
  obtain ⟨e2, he2, rfl⟩ := hq
  have h1 := mem_sub k fl e1 he1
  have h2 := mem_sub k fl e2 he2
  have := h (k :: e1.1) (k :: e2.1) (List.mem_map_of_mem (f := Prod.fst) h1)
    (List.mem_map_of_mem (f := Prod.fst) h2) (by
      obtain ⟨t, ht⟩ := hpq
      exact ⟨t, by simp [ht]⟩)
  simpa using this

theorem glookup_groupInsert (k k' : Key) (e : Path × Nat) (gs : List (Key × Flat)) :
    glookup k (groupInsert k' e gs) =
      if k' = k then some ((glookup k gs).getD [] ++ [e]) else glookup k gs := by
  induction gs with
  | nil =>
    by_cases h : k' = k <;> simp [groupInsert, glookup, h]
  | cons hd tl ih =>
    obtain ⟨k2, g⟩ := hd
    simp only [groupInsert]
    by_cases h2 : k2 = k'
    · subst h2
      by_cases h : k2 = k <;> simp [glookup, h]
    · by_cases h : k2 = k
      · subst h
        have : ¬ k' = k2 := fun e => h2 e.symm
        simp [glookup, h2, this]
      · simp [glookup, h2, h, ih]

theorem glookup_foldl_gstep (k : Key) (fl : Flat) (acc : List (Key × Flat)) :
    glookup k (fl.foldl gstep acc) =
      match glookup k acc with
      | some g => some (g ++ sub k fl)
      | none => if sub k fl = [] then none else some (sub k fl) := by
  induction fl generalizing acc with
  | nil =>
    cases h : glookup k acc <;> simp [sub, h]
  | cons hd tl ih =>
    obtain ⟨q, c⟩ := hd
    rw [List.foldl_cons, ih]
    cases q with
    | nil =>
      have h1 : gstep acc ([], c) = acc := rfl
      have h2 : sub k (([], c) :: tl) = sub k tl := rfl
      rw [h1, h2]
    | cons k' rest =>
      have h1 : gstep acc (k' :: rest, c) = groupInsert k' (rest, c) acc := rfl
      rw [h1, glookup_groupInsert]
      by_cases hk : k' = k
      · subst hk
        have h2 : sub k' ((k' :: rest, c) :: tl) = (rest, c) :: sub k' tl := by simp [sub]
        rw [h2]
        cases h : glookup k' acc <;> simp
      · have h2 : sub k ((k' :: rest, c) :: tl) = sub k tl := by simp [sub, hk]
        rw [h2]
        simp [hk]

theorem glookup_groups (k : Key) (fl : Flat) :
    glookup k (groups fl) = if sub k fl = [] then none else some (sub k fl) := by
  rw [groups_eq, glookup_foldl_gstep]
  simp [glookup]

theorem getL_map_unflatten (fuel : Nat) (k : Key) (p : Path) (gs : List (Key × Flat)) :
    Val.get.getL (gs.map fun (k, g) => (k, unflatten fuel g)) k p =
      match glookup k gs with
      | none => none
      | some g => (unflatten fuel g).get p := by
  induction gs with
  | nil => simp [glookup]
  | cons hd tl ih =>
    obtain ⟨k', g⟩ := hd
    by_cases h : k' = k <;> simp [glookup, h, ih]

theorem get_unflatten (fuel : Nat) (fl : Flat) (hpf : PrefixFree fl)
    (hlen : ∀ e ∈ fl, e.1.length < fuel) (q : Path) :
    (unflatten fuel fl).get q = lookup q fl := by
  induction fuel generalizing fl q with
  | zero =>
    cases fl with
    | nil => cases q <;> simp [unflatten_zero]
    | cons e tl => exact absurd (hlen e (by simp)) (by simp)
  | succ f ih =>
    rw [unflatten_succ]
    cases hfind : fl.find? (fun e => e.1 = []) with
    | some e =>
      obtain ⟨r, c⟩ := e
      have hr : r = [] := by simpa using List.find?_some hfind
      subst hr
      have hmem : (([] : Path), c) ∈ fl := List.mem_of_find?_eq_some hfind
      cases q with
      | nil =>
        simp only [get_leaf_nil]
        clear hpf hlen hmem
        induction fl with
        | nil => simp at hfind
        | cons hd tl ih2 =>
          obtain ⟨r, c'⟩ := hd
          by_cases hr : r = []
          · subst hr
            simp at hfind
            simp [hfind]
          · simp [hr] at hfind
            simp [hr, ih2 hfind]
      | cons k p =>
        simp only [get_leaf_cons]
        symm
        rw [lookup_eq_none_iff]
        intro hm
        have := hpf [] (k :: p) (List.mem_map_of_mem (f := Prod.fst) hmem) hm
          (List.nil_prefix)
        cases this
    | none =>
      simp only
      cases q with
      | nil =>
        simp only [get_dict_nil]
        symm
        rw [lookup_eq_none_iff]
        intro hm
        rw [List.mem_map] at hm
        obtain ⟨e, he, he1⟩ := hm
        rw [List.find?_eq_none] at hfind
        exact hfind e he (by simp [he1])
      | cons k p =>
        rw [get_dict_cons, getL_map_unflatten, glookup_groups, ← lookup_sub]
        have hsub := ih (sub k fl) (prefixFree_sub k fl hpf) (by
          intro e he
          have := hlen _ (mem_sub k fl e he)
          simp at this
          omega) p
        by_cases hs : sub k fl = []
        · simp [hs]
        · simp [hs, hsub]

theorem get_getState (fl : Flat) (hpf : PrefixFree fl) (q : Path) :
    (getState fl).get q = lookup q fl :=
  get_unflatten _ fl hpf (length_le_depth fl) q

/-- A value never has content both at a path and at a proper extension of it. -/
theorem get_prefix_aux :
    (∀ v : Val, ∀ p s a b, v.get p = some a → v.get (p ++ s) = some b → s = []) ∧
    (∀ kvs : List (Key × Val), ∀ k p s a b, Val.get.getL kvs k p = some a →
      Val.get.getL kvs k (p ++ s) = some b → s = []) := by
  apply Val.induct2
  · intro c p s a b h1 h2
    cases p with
    | nil =>
      cases s with
      | nil => rfl
      | cons _ _ => simp at h2
    | cons _ _ => simp at h1
  · intro kvs ih p s a b h1 h2
    cases p with
    | nil => simp at h1
    | cons k p =>
      simp only [List.cons_append, get_dict_cons] at h1 h2
      exact ih k p s a b h1 h2
  · intro k p s a b h1; simp at h1
  · intro k' v r ihv ihr k p s a b h1 h2
    simp only [getL_cons] at h1 h2
    by_cases hk : k' = k
    · simp only [hk, if_true] at h1 h2
      exact ihv p s a b h1 h2
    · simp only [hk, if_false] at h1 h2
      exact ihr k p s a b h1 h2

theorem prefixFree_of_lookup (fl : Flat) (v : Val) (h : ∀ q, lookup q fl = v.get q) :
    PrefixFree fl := by
  intro p q hp hq hpq
  obtain ⟨s, rfl⟩ := hpq
  have h1 : lookup p fl ≠ none := fun hc => (lookup_eq_none_iff _ _).1 hc hp
  have h2 : lookup (p ++ s) fl ≠ none := fun hc => (lookup_eq_none_iff _ _).1 hc hq
  rw [h] at h1 h2
  cases ha : v.get p with
  | none => exact absurd ha h1
  | some a =>
    cases hb : v.get (p ++ s) with
    | none => exact absurd hb h2
    | some b =>
      have := get_prefix_aux.1 v p s a b ha hb
      simp [this]

end TDV.Incr
