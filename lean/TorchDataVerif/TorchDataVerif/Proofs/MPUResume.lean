import TorchDataVerif.Proofs.MPUInit
/-!
# MPU — the invariant of the `_ResumeIteration` handshake of `_reset`

While the consumer waits for `W` acknowledgements every worker is in one of three situations:
* *pending*: `_ResumeIteration` is still in its index queue behind tasks of the previous epoch; nothing
  of it in the result queue is an acknowledgement;
* *in flight*: it has handled `_ResumeIteration` (fresh dataset iterator, empty index queue); its
  acknowledgement is in the result queue, behind its stale results and in front of nothing of its own;
* *received*: the main process has taken its acknowledgement; nothing of this worker is in the result
  queue and its snapshot is the initial worker state.
-/
namespace TDV.MPU
open TDV.MP

/-- The acknowledgement worker `w` sends. -/
def ackOf (w : Nat) : Res := ⟨0, w, .ack, some ⟨0, false⟩⟩

def WP (ko : Option Worker) (Q : List Res) (w : Nat) : Prop :=
  ∃ (k : Worker) (pre : List Msg), ko = some k ∧ k.q = pre ++ [.resume] ∧ (∀ m ∈ pre, isTask m) ∧
    ∀ r ∈ Q, r.w = w → r.kind ≠ .ack

def WF (ko : Option Worker) (Q : List Res) (w : Nat) : Prop :=
  ∃ (k : Worker) (a b : List Res), ko = some k ∧ k.q = [] ∧ k.pos = 0 ∧ k.iterEnd = false ∧
    Q = a ++ ackOf w :: b ∧ (∀ r ∈ a, r.w = w → r.kind ≠ .ack) ∧ (∀ r ∈ b, r.w ≠ w)

def WR (ko : Option Worker) (Q : List Res) (sn : Option WSt) (w : Nat) : Prop :=
  ∃ k : Worker, ko = some k ∧ k.q = [] ∧ k.pos = 0 ∧ k.iterEnd = false ∧ (∀ r ∈ Q, r.w ≠ w) ∧
    sn = some ⟨0, false⟩

theorem WP_snoc {ko Q w} (r0 : Res) (h : WP ko Q w) (h0 : r0.w = w → r0.kind ≠ .ack) : WP ko (Q ++ [r0]) w := by
  obtain ⟨k, pre, a1, a2, a3, a4⟩ := h
  refine ⟨k, pre, a1, a2, a3, fun r hr => ?_⟩
  rcases List.mem_append.mp hr with h1 | h1
  · exact a4 r h1
  · simp at h1; subst h1; exact h0

theorem WP_tail {ko r Q w} (h : WP ko (r :: Q) w) : WP ko Q w := by
  obtain ⟨k, pre, a1, a2, a3, a4⟩ := h
  exact ⟨k, pre, a1, a2, a3, fun r hr => a4 r (List.mem_cons_of_mem _ hr)⟩

theorem WF_snoc {ko Q w} (r0 : Res) (h : WF ko Q w) (h0 : r0.w ≠ w) : WF ko (Q ++ [r0]) w := by
  obtain ⟨k, a, b, a1, a2, a3, a4, a5, a6, a7⟩ := h
  refine ⟨k, a, b ++ [r0], a1, a2, a3, a4, by rw [a5]; simp, a6, fun r hr => ?_⟩
  rcases List.mem_append.mp hr with h1 | h1
  · exact a7 r h1
  · simp at h1; subst h1; exact h0

theorem WF_tail {ko r Q w} (h : WF ko (r :: Q) w) (hne : r ≠ ackOf w) : WF ko Q w := by
  obtain ⟨k, a, b, a1, a2, a3, a4, a5, a6, a7⟩ := h
  cases a with
  | nil => simp at a5; exact absurd a5.1 hne
  | cons x a' =>
    simp at a5
    refine ⟨k, a', b, a1, a2, a3, a4, a5.2, fun r hr => a6 r (List.mem_cons_of_mem _ hr), a7⟩

theorem WR_snoc {ko Q sn w} (r0 : Res) (h : WR ko Q sn w) (h0 : r0.w ≠ w) : WR ko (Q ++ [r0]) sn w := by
  obtain ⟨k, a1, a2, a3, a4, a5, a6⟩ := h
  refine ⟨k, a1, a2, a3, a4, fun r hr => ?_, a6⟩
  rcases List.mem_append.mp hr with h1 | h1
  · exact a5 r h1
  · simp at h1; subst h1; exact h0

theorem WR_tail {ko r Q sn w} (h : WR ko (r :: Q) sn w) : WR ko Q sn w := by
  obtain ⟨k, a1, a2, a3, a4, a5, a6⟩ := h
  exact ⟨k, a1, a2, a3, a4, fun r hr => a5 r (List.mem_cons_of_mem _ hr), a6⟩

theorem WP_app {ko Q w} (ex : List Res) (h : WP ko Q w) (h0 : ∀ r ∈ ex, r.w = w → r.kind ≠ .ack) :
    WP ko (Q ++ ex) w := by
  obtain ⟨k, pre, a1, a2, a3, a4⟩ := h
  refine ⟨k, pre, a1, a2, a3, fun r hr => ?_⟩
  rcases List.mem_append.mp hr with h1 | h1
  · exact a4 r h1
  · exact h0 r h1

theorem WF_app {ko Q w} (ex : List Res) (h : WF ko Q w) (h0 : ∀ r ∈ ex, r.w ≠ w) : WF ko (Q ++ ex) w := by
  obtain ⟨k, a, b, a1, a2, a3, a4, a5, a6, a7⟩ := h
  refine ⟨k, a, b ++ ex, a1, a2, a3, a4, by rw [a5]; simp, a6, fun r hr => ?_⟩
  rcases List.mem_append.mp hr with h1 | h1
  · exact a7 r h1
  · exact h0 r h1

theorem WR_app {ko Q sn w} (ex : List Res) (h : WR ko Q sn w) (h0 : ∀ r ∈ ex, r.w ≠ w) : WR ko (Q ++ ex) sn w := by
  obtain ⟨k, a1, a2, a3, a4, a5, a6⟩ := h
  refine ⟨k, a1, a2, a3, a4, fun r hr => ?_, a6⟩
  rcases List.mem_append.mp hr with h1 | h1
  · exact a5 r h1
  · exact h0 r h1

/-- Killing a worker does not change its protocol situation. -/
theorem WP_kill {k : Worker} {Q w} (h : WP (some k) Q w) : WP (some { k with alive := false }) Q w := by
  obtain ⟨k0, pre, a1, a2, a3, a4⟩ := h
  cases a1
  exact ⟨_, pre, rfl, a2, a3, a4⟩

theorem WF_kill {k : Worker} {Q w} (h : WF (some k) Q w) : WF (some { k with alive := false }) Q w := by
  obtain ⟨k0, a, b, a1, a2, a3, a4, a5, a6, a7⟩ := h
  cases a1
  exact ⟨_, a, b, rfl, a2, a3, a4, a5, a6, a7⟩

theorem WR_kill {k : Worker} {Q sn w} (h : WR (some k) Q sn w) : WR (some { k with alive := false }) Q sn w := by
  obtain ⟨k0, a1, a2, a3, a4, a5, a6⟩ := h
  cases a1
  exact ⟨_, rfl, a2, a3, a4, a5, a6⟩

/-- The main-process variables `_reset` re-initialises before the handshake. -/
def headOf (s : State) : Nat × Nat × List Info × List Bool × Nat × Nat × List Nat × Nat × Nat :=
  (s.sendIdx, s.rcvdIdx, s.info, s.status, s.cyc, s.outstanding, s.numTasks, s.samplerPos, s.numYielded)

def head0 (c : Cfg) : Nat × Nat × List Info × List Bool × Nat × Nat × List Nat × Nat × Nat :=
  (0, 0, [], List.replicate c.W true, 0, 0, List.replicate c.W 0, 0, 0)

/-- The handshake invariant: `k` acknowledgements are awaited, `L` lists the workers not yet received. -/
structure RInv (c : Cfg) (s : State) (k : Nat) (L : List Nat) : Prop where
  ph : s.phase = .resuming k
  head : headOf s = head0 c
  sh : s.shutdown = false
  wl : s.workers.length = c.W
  wsl : s.wsnaps.length = c.W
  rw : ∀ r ∈ s.resQ, r.w < c.W
  nd : L.Nodup
  len : L.length ≤ k
  lw : ∀ w ∈ L, w < c.W
  pend : ∀ w ∈ L, WP s.workers[w]? s.resQ w ∨ WF s.workers[w]? s.resQ w
  done : ∀ w, w < c.W → w ∉ L → WR s.workers[w]? s.resQ s.wsnaps[w]? w

theorem pushAll_get (ws : List Worker) (m : Msg) (w : Nat) :
    (pushAll ws m)[w]? = (ws[w]?).map (fun k => { k with q := k.q ++ [m] }) := by
  simp [pushAll]

/-- `reset` issued in a state of an epoch starts the handshake with every worker pending. -/
theorem reset_RInv (c : Cfg) (s s' : State) (h : SN c s) (hst : step c s .reset = some s') :
    RInv c s' c.W (List.range c.W) ∧ s'.obs = s.obs ∧ s'.bad = s.bad := by
  simp only [step] at hst
  split at hst
  · cases hst
  · cases hst
    refine ⟨⟨rfl, rfl, h.sh, by simp [pushAll, resetHead, h.wl], h.wsl, fun r hr => (h.resq r hr).2,
      List.nodup_range, by simp, fun w hw => List.mem_range.mp hw, ?_, ?_⟩, rfl, rfl⟩
    · intro w hw
      left
      have hw' : w < s.workers.length := by rw [h.wl]; exact List.mem_range.mp hw
      refine ⟨{ s.workers[w] with q := s.workers[w].q ++ [.resume] }, s.workers[w].q, ?_, rfl, ?_, ?_⟩
      · show (pushAll s.workers .resume)[w]? = _
        rw [pushAll_get, List.getElem?_eq_getElem hw']; rfl
      · exact h.msgs w _ (List.getElem?_eq_getElem hw')
      · intro r hr _
        exact (h.resq r hr).1
    · intro w hw hn
      exact absurd (List.mem_range.mpr hw) hn

theorem RInv_poll (c : Cfg) (s s' : State) (k : Nat) (L : List Nat) (h : RInv c s k L)
    (hst : step c s .pollTimeout = some s') : RInv c s' k L ∨ died s' := by
  simp only [step] at hst
  split at hst
  · cases hst
  · split at hst
    · cases hst; exact Or.inl h
    · cases hst
      right
      unfold died
      simp

theorem RInv_kill (c : Cfg) (s s' : State) (k : Nat) (L : List Nat) (w : Nat) (h : RInv c s k L)
    (hst : step c s (.kill w) = some s') : RInv c s' k L ∧ s'.obs = s.obs ∧ s'.bad = s.bad := by
  simp only [step] at hst
  split at hst
  · cases hst
  · rename_i kw hkw
    split at hst
    · cases hst
    · cases hst
      have hget : ∀ w', (s.workers.set w { kw with alive := false })[w']? =
          if w = w' then some { kw with alive := false } else s.workers[w']? := by
        intro w'
        rw [List.getElem?_set]
        split
        · have : w < s.workers.length := (List.getElem?_eq_some_iff.mp hkw).1
          simp [this]
        · rfl
      refine ⟨⟨h.ph, h.head, h.sh, by simp [h.wl], h.wsl, h.rw, h.nd, h.len, h.lw, ?_, ?_⟩, rfl, rfl⟩
      · intro w' hw'
        simp only [hget]
        split
        · rename_i heq
          subst heq
          have := h.pend w hw'
          rw [hkw] at this
          rcases this with h1 | h1
          · exact Or.inl (WP_kill h1)
          · exact Or.inr (WF_kill h1)
        · exact h.pend w' hw'
      · intro w' hw' hn
        simp only [hget]
        split
        · rename_i heq
          subst heq
          have := h.done w hw' hn
          rw [hkw] at this
          exact WR_kill this
        · exact h.done w' hw' hn

/-- What a worker step does during the handshake: either the worker handles `_ResumeIteration` (and
acknowledges), or it handles a stale task of the previous epoch (and may put a stale result). -/
theorem work_analysis (c : Cfg) (s : State) (k : Nat) (L : List Nat) (w : Nat) (kw : Worker) (m : Msg)
    (rest : List Msg) (h : RInv c s k L) (hk : s.workers[w]? = some kw) (hq : kw.q = m :: rest) :
    w ∈ L ∧ w < c.W ∧ (handle c s.shutdown w { kw with q := rest } m).1.q = rest ∧
    (∀ r ∈ s.resQ, r.w = w → r.kind ≠ .ack) ∧
    ((rest = [] ∧ (handle c s.shutdown w { kw with q := rest } m).1.pos = 0 ∧
        (handle c s.shutdown w { kw with q := rest } m).1.iterEnd = false ∧
        (handle c s.shutdown w { kw with q := rest } m).2 = some (ackOf w)) ∨
     ((∃ pre', rest = pre' ++ [.resume] ∧ ∀ m' ∈ pre', isTask m') ∧
        ∀ r, (handle c s.shutdown w { kw with q := rest } m).2 = some r → r.kind ≠ .ack ∧ r.w = w)) := by
  have hwlt : w < c.W := by rw [← h.wl]; exact (List.getElem?_eq_some_iff.mp hk).1
  have hq' := handle_q' c s.shutdown w { kw with q := rest } m
  by_cases hwL : w ∈ L
  · rcases h.pend w hwL with h1 | h1
    · obtain ⟨k0, pre, a1, a2, a3, a4⟩ := h1
      rw [hk] at a1; cases a1
      refine ⟨hwL, hwlt, hq', a4, ?_⟩
      rw [hq] at a2
      cases pre with
      | nil =>
        simp at a2
        obtain ⟨rfl, rfl⟩ := a2
        exact Or.inl ⟨rfl, rfl, rfl, rfl⟩
      | cons m0 pre' =>
        simp at a2
        obtain ⟨rfl, rfl⟩ := a2
        right
        refine ⟨⟨pre', rfl, fun m' hm' => a3 m' (List.mem_cons_of_mem _ hm')⟩, ?_⟩
        have hm : isTask m := a3 m (List.mem_cons_self ..)
        cases m with
        | stop => exact hm.elim
        | resume => exact hm.elim
        | task i p sn => exact fun r hr => handle_task_out c _ w _ i p sn r hr
    · obtain ⟨k0, a, b, a1, a2, _⟩ := h1
      rw [hk] at a1; cases a1
      rw [hq] at a2; cases a2
  · obtain ⟨k0, a1, a2, _⟩ := h.done w hwlt hwL
    rw [hk] at a1; cases a1
    rw [hq] at a2; cases a2

theorem RInv_work (c : Cfg) (s s' : State) (k : Nat) (L : List Nat) (w : Nat) (h : RInv c s k L)
    (hst : step c s (.work w) = some s') : RInv c s' k L ∧ s'.obs = s.obs ∧ s'.bad = s.bad := by
  rw [step_work_eq] at hst
  cases hk : s.workers[w]? with
  | none => simp [hk] at hst
  | some kw =>
    simp only [hk] at hst
    split at hst
    · cases hst
    · cases hq : kw.q with
      | nil => simp [hq] at hst
      | cons m rest =>
        simp only [hq, Option.some.injEq] at hst
        obtain ⟨hwL, hwlt, hq', hna, hcase⟩ := work_analysis c s k L w kw m rest h hk hq
        generalize handle c s.shutdown w { kw with q := rest } m = H at hst hq' hcase
        obtain ⟨K, out⟩ := H
        simp only at hq' hcase hst
        have hQ : s'.resQ = s.resQ ++ out.toList := by subst hst; cases out <;> simp
        have hW : s'.workers = s.workers.set w K := by subst hst; rfl
        have e1 : s'.phase = s.phase := by subst hst; rfl
        have e2 : headOf s' = headOf s := by subst hst; rfl
        have e3 : s'.shutdown = s.shutdown := by subst hst; rfl
        have e4 : s'.wsnaps = s.wsnaps := by subst hst; rfl
        have e5 : s'.obs = s.obs := by subst hst; rfl
        have e6 : s'.bad = s.bad := by subst hst; rfl
        clear hst
        have hexw : ∀ r ∈ out.toList, r.w = w := by
          intro r hr
          simp at hr
          rcases hcase with ⟨_, _, _, h4⟩ | ⟨_, h2⟩
          · rw [h4] at hr; cases hr; rfl
          · exact (h2 r hr).2
        have hwlen : w < s.workers.length := (List.getElem?_eq_some_iff.mp hk).1
        have hget : ∀ w', (s.workers.set w K)[w']? = if w = w' then some K else s.workers[w']? := by
          intro w'
          rw [List.getElem?_set]
          split
          · simp [hwlen]
          · rfl
        refine ⟨⟨e1.trans h.ph, e2.trans h.head, e3.trans h.sh, by rw [hW]; simp [h.wl], by rw [e4]; exact h.wsl,
          ?_, h.nd, h.len, h.lw, ?_, ?_⟩, e5, e6⟩
        · intro r hr
          rw [hQ] at hr
          rcases List.mem_append.mp hr with h1 | h1
          · exact h.rw r h1
          · rw [hexw r h1]; exact hwlt
        · intro w' hw'
          rw [hW, hQ, hget]
          split
          · rename_i heq
            subst heq
            rcases hcase with ⟨h1, h2, h3, h4⟩ | ⟨⟨pre', h1, h1'⟩, h2⟩
            · right
              rw [h4]
              exact ⟨K, s.resQ, [], rfl, by rw [hq', h1], h2, h3, by simp, hna, by simp⟩
            · left
              refine ⟨K, pre', rfl, by rw [hq', h1], h1', fun r hr hrw => ?_⟩
              rcases List.mem_append.mp hr with h3 | h3
              · exact hna r h3 hrw
              · simp at h3; exact (h2 r h3).1
          · rename_i hne
            have hne' : ∀ r ∈ out.toList, r.w ≠ w' := fun r hr => by rw [hexw r hr]; exact hne
            rcases h.pend w' hw' with h1 | h1
            · exact Or.inl (WP_app _ h1 (fun r hr hrw => absurd hrw (hne' r hr)))
            · exact Or.inr (WF_app _ h1 hne')
        · intro w' hw' hn
          rw [hW, hQ, hget, e4]
          split
          · rename_i heq
            subst heq
            exact absurd hwL hn
          · rename_i hne
            exact WR_app _ (h.done w' hw' hn) (fun r hr => by rw [hexw r hr]; exact hne)

/-- The part of the handshake invariant that does not mention the acknowledgement counter. -/
structure RBody (c : Cfg) (s : State) (L : List Nat) : Prop where
  head : headOf s = head0 c
  sh : s.shutdown = false
  wl : s.workers.length = c.W
  wsl : s.wsnaps.length = c.W
  rw : ∀ r ∈ s.resQ, r.w < c.W
  nd : L.Nodup
  lw : ∀ w ∈ L, w < c.W
  pend : ∀ w ∈ L, WP s.workers[w]? s.resQ w ∨ WF s.workers[w]? s.resQ w
  done : ∀ w, w < c.W → w ∉ L → WR s.workers[w]? s.resQ s.wsnaps[w]? w

theorem RInv.body {c : Cfg} {s : State} {k : Nat} {L : List Nat} (h : RInv c s k L) : RBody c s L :=
  ⟨h.head, h.sh, h.wl, h.wsl, h.rw, h.nd, h.lw, h.pend, h.done⟩

theorem RBody.inv {c : Cfg} {s : State} {k : Nat} {L : List Nat} (h : RBody c s L) (hph : s.phase = .resuming k)
    (hlen : L.length ≤ k) : RInv c s k L :=
  ⟨hph, h.head, h.sh, h.wl, h.wsl, h.rw, h.nd, hlen, h.lw, h.pend, h.done⟩

/-- A stale result (anything but an acknowledgement) is taken from the queue and dropped. -/
theorem RBody_drop (c : Cfg) (s s1 : State) (L : List Nat) (r : Res) (rest : List Res) (h : RBody c s L)
    (hq : s.resQ = r :: rest) (hk : r.kind ≠ .ack) (e1 : s1.resQ = rest) (e2 : s1.workers = s.workers)
    (e3 : s1.wsnaps = s.wsnaps) (e4 : headOf s1 = headOf s) (e5 : s1.shutdown = s.shutdown) : RBody c s1 L := by
  refine ⟨e4.trans h.head, e5.trans h.sh, by rw [e2]; exact h.wl, by rw [e3]; exact h.wsl, ?_, h.nd, h.lw, ?_, ?_⟩
  · intro r' hr'
    exact h.rw r' (by rw [hq]; rw [e1] at hr'; exact List.mem_cons_of_mem _ hr')
  · intro w hw
    rw [e1, e2]
    have := h.pend w hw
    rw [hq] at this
    rcases this with h1 | h1
    · exact Or.inl (WP_tail h1)
    · refine Or.inr (WF_tail h1 ?_)
      intro he
      rw [he] at hk
      exact hk rfl
  · intro w hw hn
    rw [e1, e2, e3]
    have := h.done w hw hn
    rw [hq] at this
    exact WR_tail this

/-- The head of the result queue is an acknowledgement: whose it is and what follows it. -/
theorem ack_analysis (c : Cfg) (s : State) (L : List Nat) (r : Res) (rest : List Res) (h : RBody c s L)
    (hq : s.resQ = r :: rest) (hk : r.kind = .ack) :
    r = ackOf r.w ∧ r.w ∈ L ∧ r.w < c.W ∧ (∀ r' ∈ rest, r'.w ≠ r.w) ∧
    ∃ kw : Worker, s.workers[r.w]? = some kw ∧ kw.q = [] ∧ kw.pos = 0 ∧ kw.iterEnd = false := by
  have hwlt : r.w < c.W := h.rw r (by rw [hq]; exact List.mem_cons_self ..)
  by_cases hL : r.w ∈ L
  · rcases h.pend r.w hL with h1 | h1
    · obtain ⟨_, _, _, _, _, a4⟩ := h1
      exact absurd hk (a4 r (by rw [hq]; exact List.mem_cons_self ..) rfl)
    · obtain ⟨kw, a, b, a1, a2, a3, a4, a5, a6, a7⟩ := h1
      rw [hq] at a5
      cases a with
      | nil =>
        simp at a5
        refine ⟨a5.1, hL, hwlt, ?_, kw, a1, a2, a3, a4⟩
        rw [a5.2]; exact a7
      | cons x a' =>
        simp at a5
        exact absurd hk (a6 r (by rw [a5.1]; exact List.mem_cons_self ..) rfl)
  · obtain ⟨_, _, _, _, _, a5, _⟩ := h.done r.w hwlt hL
    exact absurd rfl (a5 r (by rw [hq]; exact List.mem_cons_self ..))

/-- An acknowledgement is taken from the queue: its worker becomes *received*. -/
theorem RBody_ack (c : Cfg) (s s1 : State) (L : List Nat) (r : Res) (rest : List Res) (h : RBody c s L)
    (hq : s.resQ = r :: rest) (hk : r.kind = .ack) (e1 : s1.resQ = rest) (e2 : s1.workers = s.workers)
    (e3 : s1.wsnaps = applyDelta s.wsnaps r.w r.st) (e4 : headOf s1 = headOf s) (e5 : s1.shutdown = s.shutdown) :
    RBody c s1 (L.erase r.w) ∧ r.w ∈ L := by
  obtain ⟨hr, hL, hwlt, hrest, kw, b1, b2, b3, b4⟩ := ack_analysis c s L r rest h hq hk
  have hst : r.st = some ⟨0, false⟩ := by rw [hr]; rfl
  have e3' : s1.wsnaps = s.wsnaps.set r.w ⟨0, false⟩ := by rw [e3, hst]; rfl
  refine ⟨⟨e4.trans h.head, e5.trans h.sh, by rw [e2]; exact h.wl, by rw [e3']; simp [h.wsl], ?_,
    h.nd.erase _, fun w hw => h.lw w (List.mem_of_mem_erase hw), ?_, ?_⟩, hL⟩
  · intro r' hr'
    exact h.rw r' (by rw [hq]; rw [e1] at hr'; exact List.mem_cons_of_mem _ hr')
  · intro w hw
    obtain ⟨hne, hwL⟩ := (h.nd.mem_erase_iff).mp hw
    rw [e1, e2]
    have := h.pend w hwL
    rw [hq] at this
    rcases this with h1 | h1
    · exact Or.inl (WP_tail h1)
    · refine Or.inr (WF_tail h1 ?_)
      intro he
      apply hne
      rw [he]; rfl
  · intro w hw hn
    rw [e1, e2, e3']
    by_cases hww : w = r.w
    · subst hww
      refine ⟨kw, b1, b2, b3, b4, hrest, ?_⟩
      rw [List.getElem?_set]
      simp [h.wsl, hwlt]
    · have hnL : w ∉ L := fun hm => hn ((h.nd.mem_erase_iff).mpr ⟨hww, hm⟩)
      have := h.done w hw hnL
      rw [hq] at this
      have h2 := WR_tail this
      rw [List.getElem?_set]
      have : ¬ r.w = w := fun e => hww e.symm
      simp only [this, if_false]
      exact h2

end TDV.MPU
