import TorchDataVerif.Proofs.MPUnIterRecv
/-!
# MPU, `in_order = False`, iterable: the invariant along every schedule of one epoch
-/
namespace TDV.MPU
open TDV.MP

/-- The items processed so far, worker by worker. -/
def takeAll (c : Cfg) (n : Nat → Nat) : List Item :=
  (List.range c.W).flatMap (fun w => (shardOf c w).take (n w))

structure ActI (c : Cfg) (s : State) (n : Nat → Nat) (items : List Item) : Prop where
  mid : MidUI0 c s n
  live : LiveI c s
  sh : s.shutdown = false
  fin : Obs.stop ∈ s.obs → ∀ w, w < c.W → up s w = false
  perm : items.Perm (takeAll c n)

structure DoneI (c : Cfg) (s : State) (n : Nat → Nat) (items : List Item) : Prop where
  sh : s.shutdown = true
  le : s.sendIdx ≤ s.rcvdIdx
  ph : s.phase = .idle
  perm : items.Perm (takeAll c n)
  all : ∀ w, w < c.W → n w = (shardOf c w).length

def InvUI (c : Cfg) (s : State) : Prop :=
  ∃ (n : Nat → Nat) (items : List Item), ObsRel items (taskObs s.obs) ∧ (∀ k, s.phase ≠ .resuming k) ∧
    (ActI c s n items ∨ DoneI c s n items)

theorem InvUI_goal (c : Cfg) (s : State) (h : InvUI c s) :
    ∃ (n : Nat → Nat) (items : List Item), ObsRel items (taskObs s.obs) ∧ items.Perm (takeAll c n) ∧
      (Obs.stop ∈ s.obs → ∀ w, w < c.W → n w = (shardOf c w).length) := by
  obtain ⟨n, items, ho, _, ha | hd⟩ := h
  · refine ⟨n, items, ho, ha.perm, fun hstop w hw => ?_⟩
    obtain ⟨k, hk⟩ := worker_exists c s ha.mid.core w hw
    exact ((ha.mid.wok w k hk).dn (ha.fin hstop w hw)).2
  · exact ⟨n, items, ho, hd.perm, fun _ => hd.all⟩

/-- Changing fields neither the protocol nor the per-worker invariant mentions. -/
theorem MidUI0_same (c : Cfg) (s s' : State) (n : Nat → Nat) (h : MidUI0 c s n) (e1 : s'.status = s.status)
    (e2 : s'.numTasks = s.numTasks) (e3 : s'.workers = s.workers) (e4 : s'.cyc = s.cyc) (e5 : s'.info = s.info)
    (e6 : s'.rcvdIdx = s.rcvdIdx) (e7 : s'.sendIdx = s.sendIdx) (e8 : s'.resQ = s.resQ) : MidUI0 c s' n :=
  MidUI0_grow c s s' n h (UCore_of_eq c s s' h.core e1 e2 e3 (by rw [e4]; exact h.core.cyc) e5 e6 e7 e8) e1 e8
    (fun v kv hkv => ⟨kv, by rw [← e3]; exact hkv, rfl, rfl⟩)

theorem LiveI_same (c : Cfg) (s s' : State) (h : LiveI c s) (e1 : s'.status = s.status) (e5 : s'.info = s.info) :
    LiveI c s' := by
  have hup : ∀ v, up s' v = up s v := fun v => by simp [up, e1]
  rintro ⟨w, hw, hu⟩
  obtain ⟨e, he1, he2⟩ := h ⟨w, hw, by rw [← hup]; exact hu⟩
  exact ⟨e, by rw [e5]; exact he1, by rw [hup]; exact he2⟩

/-- `_next_data`'s loop from a state of an active iterator, and what it delivers. -/
theorem InvUI_finish_loop (c : Cfg) (s0 : State) (n : Nat → Nat) (items : List Item) (fuel : Nat)
    (hmid : MidUI0 c s0 n) (hlive : LiveI c s0) (hsh : s0.shutdown = false)
    (hfin : Obs.stop ∈ s0.obs → ∀ w, w < c.W → up s0 w = false) (hperm : items.Perm (takeAll c n))
    (ho : ObsRel items (taskObs s0.obs)) : InvUI c (finish (loop c fuel s0)) := by
  obtain ⟨t, b, hc, hr, hcase⟩ := loop_un c fuel s0 hmid.core
  have hupt : ∀ v, up t v = up s0 v := fun v => by simp [up, hr.same.status]
  have hmt : MidUI0 c t n := MidUI0_grow c s0 t n hmid hc hr.same.status hr.same.resQ
    (fun v kv hkv => ⟨kv, by rw [← hr.same.workers]; exact hkv, rfl, rfl⟩)
  have hlt : LiveI c t := by
    rintro ⟨w, hw, hu⟩
    obtain ⟨e, he1, he2⟩ := hlive ⟨w, hw, by rw [← hupt]; exact hu⟩
    exact ⟨e, hr.surv e he1 he2, by rw [hupt]; exact he2⟩
  rcases hcase with he | ⟨hnil, hle, he⟩
  · rw [he]
    refine ⟨n, items, by simp only [finish]; rw [hr.same.obs]; exact ho, by simp [finish], Or.inl ⟨?_, ?_, ?_, ?_, hperm⟩⟩
    · exact MidUI0_same c t _ n hmt rfl rfl rfl rfl rfl rfl rfl rfl
    · exact LiveI_same c t _ hlt rfl rfl
    · simp only [finish]; rw [hr.same.shutdown]; exact hsh
    · intro hstop w hw
      simp only [finish] at hstop
      rw [hr.same.obs] at hstop
      have := hfin hstop w hw
      rw [← hupt] at this
      exact this
  · rw [he]
    have hdown : ∀ w, w < c.W → up t w = false := by
      intro w hw
      cases hu : up t w with
      | false => rfl
      | true =>
        obtain ⟨e, he1, _⟩ := hlt ⟨w, hw, hu⟩
        rw [hnil] at he1; cases he1
    have hobs : ObsRel items (taskObs (t.obs ++ [Obs.stop])) := by
      rw [taskObs_snoc_other _ _ rfl, hr.same.obs]; exact ho
    by_cases hp : c.persistent = true
    · simp only [hp, if_true, finish]
      refine ⟨n, items, hobs, by simp, Or.inl ⟨?_, ?_, ?_, fun _ => hdown, hperm⟩⟩
      · exact MidUI0_same c t _ n hmt rfl rfl rfl rfl rfl rfl rfl rfl
      · exact LiveI_same c t _ hlt rfl rfl
      · simp only; rw [hr.same.shutdown]; exact hsh
    · have hpf : c.persistent = false := by simpa using hp
      simp only [hpf, Bool.false_eq_true, if_false, finish]
      have hsm := shutdownWorkers_sameMain c t
      refine ⟨n, items, by rw [hsm.obs]; exact hobs, by simp, Or.inr ⟨shutdownWorkers_shutdown c t, ?_, rfl, hperm, ?_⟩⟩
      · show (shutdownWorkers c t).sendIdx ≤ (shutdownWorkers c t).rcvdIdx
        rw [hsm.sendIdx, hsm.rcvdIdx]; exact hle
      · intro w hw
        obtain ⟨k, hk⟩ := worker_exists c t hc w hw
        exact ((hmt.wok w k hk).dn (hdown w hw)).2

end TDV.MPU
