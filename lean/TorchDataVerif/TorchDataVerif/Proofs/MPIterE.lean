import TorchDataVerif.Proofs.MPIterD
import TorchDataVerif.Proofs.MPMap
/-!
# MP, iterable: the main process (`_next_data`) preserves the invariant
-/
namespace TDV.MP

/-- Consecutive indices from `i`. -/
def IdxFrom : Nat → List Info → Prop
  | _, [] => True
  | i, e :: l => e.idx = i ∧ IdxFrom (i + 1) l

theorem InfoI_idxFrom (c : Cfg) (g : Ghost) (ex : Option Nat) (i : Nat) (l : List Info) (h : InfoI c g ex i l) :
    IdxFrom i l := by
  induction l generalizing i with
  | nil => trivial
  | cons e l ih => exact ⟨h.1, ih _ h.2.2.2.2⟩

theorem IdxFrom_filter_lt (i j : Nat) (l : List Info) (h : IdxFrom j l) (hij : i < j) :
    l.filter (fun e => e.idx != i) = l := by
  induction l generalizing j with
  | nil => rfl
  | cons e l ih =>
    obtain ⟨h1, h4⟩ := h
    have : (e.idx != i) = true := by simp; omega
    simp [List.filter, this, ih (j + 1) h4 (by omega)]

theorem eraseInfo_headX (i : Nat) (e : Info) (l : List Info) (h : IdxFrom i (e :: l)) :
    eraseInfo (e :: l) i = l := by
  obtain ⟨h1, h4⟩ := h
  have h0 : (e.idx != i) = false := by simp [h1]
  simp only [eraseInfo, List.filter, h0]
  exact IdxFrom_filter_lt i (i + 1) l h4 (by omega)

theorem lookupInfo_headX (i : Nat) (e : Info) (l : List Info) (h : IdxFrom i (e :: l)) :
    lookupInfo (e :: l) i = some e := by
  simp [lookupInfo, List.find?, h.1]

theorem MidI_of_eq (c : Cfg) (s s' : State) (g : Ghost) (ex : Option Nat) (h : MidI c s g ex)
    (e1 : s'.sendIdx = s.sendIdx) (e2 : s'.cyc = s.cyc) (e3 : s'.status = s.status) (e4 : s'.rcvdIdx = s.rcvdIdx)
    (e5 : s'.info = s.info) (e6 : s'.workers = s.workers) (e7 : s'.resQ = s.resQ) : MidI c s' g ex := by
  have hup : ∀ w, up s' w = up s w := by intro w; simp [up, e3]
  constructor
  · rw [e1]; exact h.hlen
  · rw [e2]; exact h.cyc
  · exact h.own
  · intro w hw hu; rw [hup] at hu; rw [e2]; exact h.ptrUp w hw hu
  · intro w hw hu; rw [hup] at hu; rw [e2]; exact h.ptrDn w hw hu
  · rw [e2]; exact h.live
  · rw [e4, e5, e1]; exact h.len
  · rw [e4, e5]; exact h.info
  · rw [e4]; exact h.cons
  · intro w hw; rw [hup]; exact h.st w hw
  · exact h.arrle
  · rw [e3]; exact h.slen
  · rw [e6]; exact h.wlen
  · rw [e6]; exact h.wk
  · rw [e7]; exact h.rq
  · rw [e7]; exact h.rqw

theorem InfoI_drop_ex (c : Cfg) (g : Ghost) (x i : Nat) (l : List Info) (h : InfoI c g (some x) i l) (hx : x < i) :
    InfoI c g none i l := by
  induction l generalizing i with
  | nil => trivial
  | cons e l ih =>
    obtain ⟨h1, h2, h3, h4, h5⟩ := h
    exact ⟨h1, h2, h3, fun hn _ => h4 hn (by simp; omega), ih _ h5 (by omega)⟩

theorem InfoI_weaken (c : Cfg) (g : Ghost) (ex : Option Nat) (i : Nat) (l : List Info) (h : InfoI c g none i l) :
    InfoI c g ex i l := by
  induction l generalizing i with
  | nil => trivial
  | cons e l ih =>
    obtain ⟨h1, h2, h3, h4, h5⟩ := h
    exact ⟨h1, h2, h3, fun hn _ => h4 hn (by simp), ih _ h5⟩

/-- Consuming the head of `_task_info` (task `rcvd_idx`): it has arrived, or it is dead. -/
theorem MidI_pop (c : Cfg) (s : State) (g : Ghost) (ex : Option Nat) (e : Info) (l : List Info)
    (h : MidI c s g ex) (hex : ex = none ∨ ex = some s.rcvdIdx) (hi : s.info = e :: l)
    (hc : (g.h.take s.rcvdIdx).count e.w < g.arr e.w ∨ bOf c e.w < (g.h.take s.rcvdIdx).count e.w) :
    MidI c { s with info := l, rcvdIdx := s.rcvdIdx + 1 } g none ∧ g.h[s.rcvdIdx]? = some e.w := by
  have hinfo := h.info
  rw [hi] at hinfo
  obtain ⟨h1, h2, h3, h4, h5⟩ := hinfo
  have hlen := h.len
  rw [hi] at hlen
  simp only [List.length_cons] at hlen
  refine ⟨?_, h2⟩
  have hup : ∀ w, up { s with info := l, rcvdIdx := s.rcvdIdx + 1 } w = up s w := fun _ => rfl
  constructor
  · exact h.hlen
  · exact h.cyc
  · exact h.own
  · exact h.ptrUp
  · exact h.ptrDn
  · exact h.live
  · simp only; omega
  · simp only
    rcases hex with hex | hex
    · subst hex; exact h5
    · subst hex; exact InfoI_drop_ex c g _ _ _ h5 (by omega)
  · intro i w hi' hw
    simp only at hi'
    by_cases hlt : i < s.rcvdIdx
    · exact h.cons i w hlt hw
    · have : i = s.rcvdIdx := by omega
      subst this
      rw [h2] at hw
      cases hw
      exact hc
  · exact h.st
  · exact h.arrle
  · exact h.slen
  · exact h.wlen
  · exact h.wk
  · exact h.rq
  · exact h.rqw

theorem dataItems_take_succ (c : Cfg) (h : List Nat) (i w : Nat) (hi : h[i]? = some w) :
    dataItems c (h.take (i + 1)) = dataItems c (h.take i) ++ ((c.shards.getD w [])[(h.take i).count w]?).toList := by
  rw [List.take_add_one, hi]
  simp only [Option.toList]
  exact dataItems_snoc c (h.take i) w

/-- Once StopIteration has been raised everything has been delivered. -/
def FinI (c : Cfg) (s : State) (g : Ghost) : Prop :=
  Obs.stop ∈ s.obs → s.rcvdIdx = s.sendIdx ∧ dataItems c (g.h.take s.rcvdIdx) = Ref.interleave c.shards

/-- Working invariant of the main process while the iterator is active. -/
def WI (c : Cfg) (s : State) (g : Ghost) : Prop :=
  MidI c s g none ∧ ObsRel (dataItems c (g.h.take s.rcvdIdx)) (taskObs s.obs) ∧ LiveI c s g ∧ FinI c s g

/-- Everything but `_task_info` and `_rcvd_idx`. -/
structure SameSkip (s s' : State) : Prop where
  sendIdx : s'.sendIdx = s.sendIdx
  status : s'.status = s.status
  cyc : s'.cyc = s.cyc
  outstanding : s'.outstanding = s.outstanding
  numTasks : s'.numTasks = s.numTasks
  samplerPos : s'.samplerPos = s.samplerPos
  numYielded : s'.numYielded = s.numYielded
  mainSnaps : s'.mainSnaps = s.mainSnaps
  wsnaps : s'.wsnaps = s.wsnaps
  snap : s'.snap = s.snap
  lastW : s'.lastW = s.lastW
  shutdown : s'.shutdown = s.shutdown
  bad : s'.bad = s.bad
  workers : s'.workers = s.workers
  resQ : s'.resQ = s.resQ
  phase : s'.phase = s.phase
  obs : s'.obs = s.obs

theorem SameSkip.refl (s : State) : SameSkip s s := by constructor <;> rfl

theorem getElem?_none_toList {α : Type} (l : List α) (i : Nat) (h : l.length ≤ i) : (l[i]?).toList = [] := by
  rw [List.getElem?_eq_none h]; rfl

/-- Witnesses survive the consumption of a task that is not itself a witness. -/
theorem LiveI_pop (c : Cfg) (s s' : State) (g : Ghost) (w : Nat) (h : LiveI c s g)
    (e1 : s'.status = s.status) (e2 : s'.rcvdIdx = s.rcvdIdx + 1) (hw : g.h[s.rcvdIdx]? = some w)
    (hnw : ¬ ((g.h.take s.rcvdIdx).count w < bOf c w ∨
      ((g.h.take s.rcvdIdx).count w = bOf c w ∧ g.arr w ≤ bOf c w))) : LiveI c s' g := by
  rintro ⟨v, hv, hvu⟩
  have hvu' : up s v = true := by simpa [up, e1] using hvu
  obtain ⟨i, hi, w', hw', hc⟩ := h ⟨v, hv, hvu'⟩
  refine ⟨i, ?_, w', hw', hc⟩
  rw [e2]
  rcases Nat.lt_or_ge s.rcvdIdx i with hh | hh
  · exact hh
  · have : i = s.rcvdIdx := by omega
    subst this
    rw [hw] at hw'; cases hw'
    exact absurd hc hnw

theorem LiveI_of_eq (c : Cfg) (s s' : State) (g : Ghost) (h : LiveI c s g)
    (e1 : s'.status = s.status) (e2 : s'.rcvdIdx = s.rcvdIdx) : LiveI c s' g := by
  rintro ⟨v, hv, hvu⟩
  have hvu' : up s v = true := by simpa [up, e1] using hvu
  obtain ⟨i, hi, rest⟩ := h ⟨v, hv, hvu'⟩
  exact ⟨i, by rw [e2]; exact hi, rest⟩

/-- `skip` stops at a task that has its result or whose owner is still expected to work. -/
def HeadKept (s : State) : Prop :=
  s.rcvdIdx < s.sendIdx → ∃ e l, s.info = e :: l ∧ (e.res.isSome = true ∨ up s e.w = true)

theorem skip_WI (c : Cfg) (s : State) (g : Ghost) (n : Nat) (h : WI c s g) :
    WI c (skip s n) g ∧ SameSkip s (skip s n) ∧ (s.sendIdx - s.rcvdIdx ≤ n → HeadKept (skip s n)) ∧
      s.rcvdIdx ≤ (skip s n).rcvdIdx := by
  induction n generalizing s with
  | zero => exact ⟨h, SameSkip.refl s, fun hn => (by intro hlt; simp only [skip] at hlt; omega), Nat.le_refl _⟩
  | succ n ih =>
    unfold skip
    by_cases hlt : s.rcvdIdx < s.sendIdx
    · simp only [hlt, if_true]
      obtain ⟨hm, ho, hl, hfin⟩ := h
      have hlen := hm.len
      obtain ⟨e, l, hi⟩ : ∃ e l, s.info = e :: l := by
        cases hi : s.info with
        | nil => simp [hi] at hlen; omega
        | cons e l => exact ⟨e, l, rfl⟩
      have hinfo := hm.info
      rw [hi] at hinfo
      have hidx := InfoI_idxFrom c g none _ _ hinfo
      rw [hi, lookupInfo_headX _ e l hidx]
      simp only
      by_cases hkeep : (e.res.isSome || up s e.w) = true
      · simp only [hkeep, if_true]
        refine ⟨⟨hm, ho, hl, hfin⟩, SameSkip.refl s, fun _ _ => ⟨e, l, hi, ?_⟩, Nat.le_refl _⟩
        simpa using hkeep
      · simp only [hkeep, Bool.false_eq_true, if_false]
        simp only [Bool.or_eq_true, not_or, Bool.not_eq_true, Option.isSome_eq_false_iff,
          Option.isNone_iff_eq_none] at hkeep
        obtain ⟨hnone, hdown⟩ := hkeep
        obtain ⟨h1, h2, h3, h4, h5⟩ := hinfo
        have hw : e.w < c.W := hm.own _ _ h2
        have harr : bOf c e.w + 1 ≤ g.arr e.w := by
          have := (hm.st e.w hw)
          rcases Nat.lt_or_ge (bOf c e.w) (g.arr e.w) with hh | hh
          · omega
          · have := this.mpr hh; rw [hdown] at this; cases this
        have hseq := h4 hnone (by simp)
        have hdead : bOf c e.w < (g.h.take s.rcvdIdx).count e.w := by omega
        obtain ⟨hm', _⟩ := MidI_pop c s g none e l hm (Or.inl rfl) hi (Or.inr hdead)
        rw [eraseInfo_headX _ e l hidx]
        have hW' : WI c { s with info := l, rcvdIdx := s.rcvdIdx + 1 } g := by
          refine ⟨hm', ?_, LiveI_pop c s _ g e.w hl rfl rfl h2 (by omega), ?_⟩
          · simp only
            rw [dataItems_take_succ c g.h _ e.w h2, getElem?_none_toList _ _ (by unfold bOf at hdead; omega),
              List.append_nil]
            exact ho
          · intro hst
            have := (hfin hst).1; omega
        obtain ⟨r1, r2, r3, r4⟩ := ih _ hW'
        refine ⟨r1, ?_, fun hn => r3 (by simp only; omega), by simp only at r4; omega⟩
        constructor
        · exact r2.sendIdx
        · exact r2.status
        · exact r2.cyc
        · exact r2.outstanding
        · exact r2.numTasks
        · exact r2.samplerPos
        · exact r2.numYielded
        · exact r2.mainSnaps
        · exact r2.wsnaps
        · exact r2.snap
        · exact r2.lastW
        · exact r2.shutdown
        · exact r2.bad
        · exact r2.workers
        · exact r2.resQ
        · exact r2.phase
        · exact r2.obs
    · simp only [hlt, if_false]
      exact ⟨h, SameSkip.refl s, fun _ hh => absurd hh hlt, Nat.le_refl _⟩

/-- The dispatch history is consistent with the round robin: its live pairs are a prefix of the epoch. -/
def Pref (c : Cfg) (g : Ghost) : Prop := ∃ ρ a, livePairs c g.h ++ liveFrom c ρ a = liveFrom c 0 0

/-- The iterable, in-order invariant. -/
structure InvI (c : Cfg) (s : State) : Prop where
  ph : ∀ k, s.phase ≠ .resuming k
  down : s.shutdown = true → s.rcvdIdx = s.sendIdx ∧ s.phase = .idle ∧ Obs.stop ∈ s.obs
  core : ∃ g, ObsRel (dataItems c (g.h.take s.rcvdIdx)) (taskObs s.obs) ∧ Pref c g ∧ FinI c s g ∧
    (s.shutdown = false → MidI c s g none ∧ LiveI c s g)
  wait : s.phase = .waiting → ∃ e l, s.info = e :: l ∧ e.res = none ∧ up s e.w = true

theorem processData_frame (c : Cfg) (s : State) (r : Res) :
    (processData c s r).1.rcvdIdx = s.rcvdIdx ∧ (processData c s r).1.phase = s.phase ∧
    (processData c s r).1.shutdown = s.shutdown := by
  have hc := tryPut_sameCore c { s with numTasks := s.numTasks.modify r.w (· - 1) }
  unfold processData
  split
  · have hp := yieldItem_sameProto c (tryPut c { s with numTasks := s.numTasks.modify r.w (· - 1) }) r ‹_›
    exact ⟨by rw [hp.rcvdIdx, hc.rcvdIdx], by rw [hp.phase, hc.phase], by rw [hp.shutdown, hc.shutdown]⟩
  · exact ⟨hc.rcvdIdx, hc.phase, hc.shutdown⟩

theorem take_of_prefix (h h' : List Nat) (n : Nat) (hn : n ≤ h.length) (hh : h' = h ∨ ∃ v, h' = h ++ [v]) :
    h'.take n = h.take n := by
  rcases hh with rfl | ⟨v, rfl⟩
  · rfl
  · rw [List.take_append_of_le_length hn]

/-- `_process_data` in an active iterable state (the task has already been popped). -/
theorem processData_MidI (c : Cfg) (s : State) (g : Ghost) (r : Res) (hit : c.iterable = true)
    (hio : c.inOrder = true) (h : MidI c s g none) :
    ∃ g', MidI c (processData c s r).1 g' none ∧ g'.h.take s.rcvdIdx = g.h.take s.rcvdIdx ∧
      LiveI c (processData c s r).1 g' := by
  have h0 : MidI c { s with numTasks := s.numTasks.modify r.w (· - 1) } g none :=
    MidI_of_eq c s _ g none h rfl rfl rfl rfl rfl rfl rfl
  obtain ⟨g', hg', _, _, hh, hl⟩ := MidI_tryPut c _ g none hit hio h0
  have hn : s.rcvdIdx ≤ g.h.length := by rw [h.hlen]; have := h.len; omega
  have hc := tryPut_sameCore c { s with numTasks := s.numTasks.modify r.w (· - 1) }
  refine ⟨g', ?_, take_of_prefix g.h g'.h _ hn hh, ?_⟩
  · unfold processData
    split
    · have hp := yieldItem_sameProto c (tryPut c { s with numTasks := s.numTasks.modify r.w (· - 1) }) r ‹_›
      exact MidI_of_eq c _ _ g' none hg' hp.sendIdx hp.cyc hp.status hp.rcvdIdx hp.info hp.workers hp.resQ
    · exact hg'
  · unfold processData
    split
    · have hp := yieldItem_sameProto c (tryPut c { s with numTasks := s.numTasks.modify r.w (· - 1) }) r ‹_›
      exact LiveI_of_eq c _ _ g' hl hp.status hp.rcvdIdx
    · exact hl

/-- Pop + process of a data task: the invariant after `next()` returns with its outcome. -/
theorem procI (c : Cfg) (s : State) (g : Ghost) (r : Res) (it : Item) (D : List Item) (hit : c.iterable = true)
    (hio : c.inOrder = true) (h : MidI c s g none) (hsd : s.shutdown = false) (hph : ∀ k, s.phase ≠ .resuming k)
    (hD : dataItems c (g.h.take s.rcvdIdx) = D ++ [it]) (ho : ObsRel D (taskObs s.obs))
    (hk : r.kind = kindOf it) (hns : Obs.stop ∉ s.obs) :
    InvI c (finish ((processData c s r).1, some (processData c s r).2)) := by
  obtain ⟨g', hg', htk, hl'⟩ := processData_MidI c s g r hit hio h
  obtain ⟨f1, f2, f3⟩ := processData_frame c s r
  have fo := processData_obs c s r
  have hobs := ObsOk_kind it r hk c s
  generalize processData c s r = p at hg' f1 f2 f3 fo hobs hl'
  obtain ⟨s', o⟩ := p
  simp only at hg' f1 f2 f3 fo hobs hl'
  have hto : taskObs [o] = [o] ∧ o ≠ .stop := by
    cases it with
    | ok b => rcases hobs with rfl | rfl <;> simp [taskObs]
    | err => cases hobs; simp [taskObs]
  simp only [finish]
  refine ⟨(by intro k; simp), (by intro hf; simp only [f3, hsd] at hf; cases hf), ⟨g', ?_, ⟨_, _, hg'.live⟩, ?_,
    fun _ => ⟨?_, ?_⟩⟩, (by intro hf; cases hf)⟩
  · simp only [f1, fo, taskObs_append, hto.1, htk, hD]
    exact ObsRel_snoc _ _ _ _ ho hobs
  · intro hst
    simp only [fo, List.mem_append, List.mem_singleton] at hst
    rcases hst with hst | hst
    · exact absurd hst hns
    · exact absurd hst.symm hto.2
  · exact MidI_of_eq c _ _ g' none hg' rfl rfl rfl rfl rfl rfl rfl
  · exact LiveI_of_eq c _ _ g' hl' rfl rfl

theorem InvI_of_WI (c : Cfg) (s : State) (g : Ghost) (h : WI c s g) (hph : ∀ k, s.phase ≠ .resuming k)
    (hsd : s.shutdown = false)
    (hw : s.phase = .waiting → ∃ e l, s.info = e :: l ∧ e.res = none ∧ up s e.w = true) : InvI c s :=
  ⟨hph, fun hf => (by rw [hsd] at hf; cases hf), ⟨g, h.2.1, ⟨_, _, h.1.live⟩, h.2.2.2, fun _ => ⟨h.1, h.2.2.1⟩⟩, hw⟩

theorem WI_of_eq (c : Cfg) (s s' : State) (g : Ghost) (h : WI c s g)
    (e1 : s'.sendIdx = s.sendIdx) (e2 : s'.cyc = s.cyc) (e3 : s'.status = s.status) (e4 : s'.rcvdIdx = s.rcvdIdx)
    (e5 : s'.info = s.info) (e6 : s'.workers = s.workers) (e7 : s'.resQ = s.resQ) (e8 : s'.obs = s.obs) :
    WI c s' g := by
  refine ⟨MidI_of_eq c s s' g none h.1 e1 e2 e3 e4 e5 e6 e7, by rw [e4, e8]; exact h.2.1,
    LiveI_of_eq c s s' g h.2.2.1 e3 e4, ?_⟩
  unfold FinI
  rw [e8, e4, e1]; exact h.2.2.2

theorem liveFrom_nil (c : Cfg) (ρ a : Nat) (h : ∀ w, w < c.W → bOf c w < turns ρ a w) : liveFrom c ρ a = [] := by
  have hr : ∀ k a', ρ ≤ k → (k = ρ → a ≤ a') → roundFrom c k a' = [] := by
    intro k a' hk hka
    unfold roundFrom
    rw [List.map_eq_nil_iff, List.filter_eq_nil_iff]
    intro w hw
    rw [List.mem_range'_1] at hw
    have hwW : w < c.W := by omega
    have := h w hwW
    unfold turns at this
    simp only [decide_eq_true_eq]
    by_cases hkr : k = ρ
    · have := hka hkr
      have hna : ¬ w < a := by omega
      simp only [hna, if_false] at *
      omega
    · split at this <;> omega
  unfold liveFrom
  rw [hr ρ a (Nat.le_refl _) (fun _ => Nat.le_refl _), List.nil_append]
  generalize maxB c - ρ = n
  have : ∀ k, ρ < k → laterRounds c k n = [] := by
    induction n with
    | zero => intro k _; rfl
    | succ n ih =>
      intro k hk
      rw [laterRounds, hr k 0 (by omega) (fun hh => by omega), ih (k + 1) (by omega)]
      rfl
  exact this (ρ + 1) (by omega)

/-- When `_next_data` finds nothing left, every worker has retired and everything has been dispatched
and consumed. -/
theorem fin_of_stop (c : Cfg) (s : State) (g : Ghost) (hv : c.shards.length = c.W) (hm : MidI c s g none) (hl : LiveI c s g)
    (hle : s.sendIdx ≤ s.rcvdIdx) :
    s.rcvdIdx = s.sendIdx ∧ dataItems c (g.h.take s.rcvdIdx) = Ref.interleave c.shards := by
  have hlen := hm.len
  have heq : s.rcvdIdx = s.sendIdx := by omega
  have hdown : ∀ w, w < c.W → up s w = false := by
    intro w hw
    rcases Bool.eq_false_or_eq_true (up s w) with hu | hu
    · obtain ⟨i, hi, w', hw', _⟩ := hl ⟨w, hw, hu⟩
      have := (List.getElem?_eq_some_iff.mp hw').1
      rw [hm.hlen] at this; omega
    · exact hu
  have hnil : liveFrom c g.rho s.cyc = [] := by
    apply liveFrom_nil
    intro w hw
    have := hm.ptrDn w hw (hdown w hw); omega
  have hlive := hm.live
  rw [hnil, List.append_nil] at hlive
  refine ⟨heq, ?_⟩
  rw [heq, ← hm.hlen, List.take_length, dataItems_eq_itemsOf, hlive, itemsOf_liveFrom_zero c hv]

theorem InfoI_setRes (c : Cfg) (g : Ghost) (x i u : Nat) (l : List Info) (r : Res)
    (h : InfoI c g (some x) i l) (hx : g.h[x]? = some u)
    (hok : ResOk c g.h u ((g.h.take x).count u) r) (hri : r.idx = x) (hlt : (g.h.take x).count u < g.arr u) :
    InfoI c g none i (setRes l x r) := by
  induction l generalizing i with
  | nil => trivial
  | cons e l ih =>
    obtain ⟨h1, h2, h3, h4, h5⟩ := h
    have ih' := ih _ h5
    simp only [setRes, List.map] at ih' ⊢
    by_cases he : e.idx = x
    · simp only [he, beq_self_eq_true, if_true]
      have hix : i = x := by omega
      subst hix
      have hw : e.w = u := by rw [h2] at hx; exact Option.some.inj hx
      refine ⟨rfl, h2, ?_, ?_, ih'⟩
      · intro r' hr'
        simp only [Option.some.injEq] at hr'
        subst hr'
        simp only [hw]
        exact ⟨hok, hri, hlt⟩
      · intro hn; simp at hn
    · have hb : (e.idx == x) = false := by simp [he]
      simp only [hb]
      exact ⟨h1, h2, h3, fun hn _ => h4 hn (by simp; omega), ih'⟩

theorem MidI_store (c : Cfg) (s : State) (g : Ghost) (x u : Nat) (r : Res) (h : MidI c s g (some x))
    (hx : g.h[x]? = some u) (hok : ResOk c g.h u ((g.h.take x).count u) r) (hri : r.idx = x)
    (hlt : (g.h.take x).count u < g.arr u) :
    MidI c { s with info := setRes s.info x r } g none := by
  have hup : ∀ w, up { s with info := setRes s.info x r } w = up s w := fun _ => rfl
  constructor
  · exact h.hlen
  · exact h.cyc
  · exact h.own
  · exact h.ptrUp
  · exact h.ptrDn
  · exact h.live
  · simp only [setRes_length]; exact h.len
  · exact InfoI_setRes c g x _ u _ r h.info hx hok hri hlt
  · exact h.cons
  · exact h.st
  · exact h.arrle
  · exact h.slen
  · exact h.wlen
  · exact h.wk
  · exact h.rq
  · exact h.rqw

theorem kindAt_ne_ack (c : Cfg) (w j : Nat) (k : Kind) (h : kindAt c w j = some k) : k ≠ .ack := by
  unfold kindAt at h
  split at h
  · rename_i it _
    cases it <;> simp [kindOf] at h <;> subst h <;> simp
  · split at h
    · cases h; simp
    · cases h

theorem onArrival_frame (c : Cfg) (s : State) (r : Res) :
    (onArrival c s r).rcvdIdx = s.rcvdIdx ∧ (onArrival c s r).obs = s.obs ∧
    (onArrival c s r).shutdown = s.shutdown ∧ (onArrival c s r).phase = s.phase := by
  unfold onArrival
  split
  · have hc := tryPut_sameCore c
      { (if c.persistent then { s with status := s.status.set r.w false } else markUnavailable c s r.w false) with
        bad := (if c.persistent then { s with status := s.status.set r.w false }
                else markUnavailable c s r.w false).bad || r.st.isNone }
    refine ⟨hc.rcvdIdx.trans ?_, hc.obs.trans ?_, hc.shutdown.trans ?_, hc.phase.trans ?_⟩ <;>
      (split <;> rfl)
  · exact ⟨rfl, rfl, rfl, rfl⟩


/-- The `while True` loop of `_next_data`, for any fuel. -/
theorem loop_invI (c : Cfg) (n : Nat) (s : State) (g : Ghost) (hv : c.shards.length = c.W)
    (hit : c.iterable = true) (hio : c.inOrder = true)
    (hW : WI c s g) (hsd : s.shutdown = false) (hph : ∀ k, s.phase ≠ .resuming k)
    (hfuel : s.sendIdx - s.rcvdIdx < n) :
    InvI c (finish (loop c n s)) := by
  induction n generalizing s with
  | zero => omega
  | succ n ih =>
    unfold loop
    obtain ⟨hW2, hf, hk, hrcv⟩ := skip_WI c s g (s.sendIdx - s.rcvdIdx) hW
    have hk2 := hk (Nat.le_refl _)
    generalize skip s (s.sendIdx - s.rcvdIdx) = s2 at hW2 hf hk2 hrcv
    simp only
    have hsd2 : s2.shutdown = false := by rw [hf.shutdown]; exact hsd
    have hph2 : ∀ k, s2.phase ≠ .resuming k := by rw [hf.phase]; exact hph
    obtain ⟨hm2, ho2, hl2, hfin2⟩ := hW2
    by_cases hle : s2.sendIdx ≤ s2.rcvdIdx
    · simp only [hle, if_true, finish]
      have hfin := fin_of_stop c s2 g hv hm2 hl2 hle
      by_cases hp : c.persistent = true
      · simp only [hp, if_true]
        refine ⟨(by intro k; simp), fun hf' => (by rw [hsd2] at hf'; cases hf'), ⟨g,
          by simpa [taskObs_append, taskObs] using ho2, ⟨_, _, hm2.live⟩, fun _ => hfin, fun _ => ⟨?_, ?_⟩⟩,
          (by intro hf'; cases hf')⟩
        · exact MidI_of_eq c s2 _ g none hm2 rfl rfl rfl rfl rfl rfl rfl
        · exact LiveI_of_eq c s2 _ g hl2 rfl rfl
      · have hp' : c.persistent = false := by simpa using hp
        simp only [hp', Bool.false_eq_true, if_false]
        have hsm := shutdownWorkers_sameMain c s2
        refine ⟨(by intro k; simp), fun _ => ?_, ⟨g, ?_, ⟨_, _, hm2.live⟩, ?_, fun hh => ?_⟩,
          (by intro hf'; cases hf')⟩
        · simp only [hsm.rcvdIdx, hsm.sendIdx, hsm.obs]
          exact ⟨hfin.1, trivial, by simp⟩
        · simp only [hsm.rcvdIdx, hsm.obs, taskObs_append, taskObs, List.append_nil]; exact ho2
        · intro _; simp only [hsm.rcvdIdx, hsm.sendIdx]; exact hfin
        · simp only [shutdownWorkers_shutdown] at hh; cases hh
    · simp only [hle, if_false]
      have hns : Obs.stop ∉ s2.obs := fun hst => hle (by rw [(hfin2 hst).1]; exact Nat.le_refl _)
      have hlen := hm2.len
      obtain ⟨e, l, hi⟩ : ∃ e l, s2.info = e :: l := by
        cases hi : s2.info with
        | nil => simp [hi] at hlen; omega
        | cons e l => exact ⟨e, l, rfl⟩
      have hinfo := hm2.info
      rw [hi] at hinfo
      have hidx := InfoI_idxFrom c g none _ _ hinfo
      have hlk : lookupInfo s2.info s2.rcvdIdx = some e := by rw [hi]; exact lookupInfo_headX _ e l hidx
      have her : eraseInfo s2.info s2.rcvdIdx = l := by rw [hi]; exact eraseInfo_headX _ e l hidx
      rw [hlk]
      simp only
      obtain ⟨h1, h2, h3, h4, h5⟩ := hinfo
      cases hres : e.res with
      | none =>
        simp only [finish]
        refine InvI_of_WI c _ g (WI_of_eq c s2 _ g ⟨hm2, ho2, hl2, hfin2⟩ rfl rfl rfl rfl rfl rfl rfl rfl)
          (by intro k; simp) hsd2 (fun _ => ⟨e, l, hi, hres, ?_⟩)
        obtain ⟨e', l', hi', hkept⟩ := hk2 (by omega)
        rw [hi] at hi'
        cases hi'
        rcases hkept with hkept | hkept
        · rw [hres] at hkept; cases hkept
        · exact hkept
      | some r =>
        simp only [her]
        obtain ⟨⟨_, _, _, hkind⟩, _, hseq⟩ := h3 r hres
        obtain ⟨hm3, _⟩ := MidI_pop c s2 g none e l hm2 (Or.inl rfl) hi (Or.inl hseq)
        have hD := dataItems_take_succ c g.h s2.rcvdIdx e.w h2
        by_cases hn : r.kind = .notice
        · simp only [hn, if_true]
          rw [hn] at hkind
          have hj := kindAt_notice c _ _ hkind
          have hnil : ((c.shards.getD e.w [])[(g.h.take s2.rcvdIdx).count e.w]?).toList = [] :=
            getElem?_none_toList _ _ (by unfold bOf at hj; omega)
          rw [hnil, List.append_nil] at hD
          refine ih _ ⟨MidI_of_eq c _ _ g none hm3 rfl rfl rfl rfl rfl rfl rfl, ?_, ?_, ?_⟩ hsd2 hph2 ?_
          · simp only [hD]; exact ho2
          · exact LiveI_pop c s2 _ g e.w hl2 rfl rfl h2 (by omega)
          · intro hst; exact absurd hst hns
          · simp only
            have := hf.sendIdx
            omega
        · simp only [hn, if_false]
          obtain ⟨it, hit', hk, _⟩ := kindAt_data c _ _ _ hkind hn
          rw [hit'] at hD
          simp only [Option.toList] at hD
          exact procI c _ g r it _ hit hio hm3 hsd2 hph2 hD ho2 hk hns

/-- Arrival of the head of the result queue, through the status update and the extra dispatch. -/
theorem onArrival_I (c : Cfg) (s : State) (g : Ghost) (r : Res) (rest : List Res) (hit : c.iterable = true)
    (hio : c.inOrder = true) (h : MidI c s g none) (hl : LiveI c s g) (hq : s.resQ = r :: rest) :
    ∃ g2, MidI c (onArrival c { s with resQ := rest, outstanding := s.outstanding - 1 } r) g2 (some r.idx) ∧
      g2.h.take s.rcvdIdx = g.h.take s.rcvdIdx ∧ s.rcvdIdx ≤ r.idx ∧ r.idx < s.sendIdx ∧
      g2.h[r.idx]? = some r.w ∧ ResOk c g2.h r.w ((g2.h.take r.idx).count r.w) r ∧
      (g2.h.take r.idx).count r.w < g2.arr r.w ∧
      LiveI c (onArrival c { s with resQ := rest, outstanding := s.outstanding - 1 } r) g2 := by
  have hn0 : s.rcvdIdx ≤ g.h.length := by rw [h.hlen]; have := h.len; omega
  unfold onArrival
  by_cases hn : r.kind = .notice
  · simp only [hit, hn, decide_true, Bool.and_self, if_true]
    have key : ∀ s1 : State, s1.sendIdx = s.sendIdx → s1.cyc = s.cyc → s1.rcvdIdx = s.rcvdIdx → s1.info = s.info →
        s1.resQ = rest → s1.status = s.status.set r.w false →
        (s1.workers = s.workers ∨ s1.workers = pushMsg s.workers r.w .stop) →
        ∃ g2, MidI c (tryPut c s1) g2 (some r.idx) ∧
          g2.h.take s.rcvdIdx = g.h.take s.rcvdIdx ∧ s.rcvdIdx ≤ r.idx ∧ r.idx < s.sendIdx ∧
          g2.h[r.idx]? = some r.w ∧ ResOk c g2.h r.w ((g2.h.take r.idx).count r.w) r ∧
          (g2.h.take r.idx).count r.w < g2.arr r.w ∧ LiveI c (tryPut c s1) g2 := by
      intro s1 e1 e2 e4 e5 eq est ewk
      obtain ⟨_, hok, hge, hlt, hm1⟩ := arrive_core c s s1 g r rest h hq e1 e2 e4 e5 eq (by simp [hn, est]) ewk
      obtain ⟨g2, hm2, ha, _, hh, hl2⟩ := MidI_tryPut c s1 _ (some r.idx) hit hio hm1
      obtain ⟨_, hx, hseq, hkind⟩ := hok
      have hlt' : r.idx < g.h.length := by rw [h.hlen]; exact hlt
      have htk : g2.h.take r.idx = g.h.take r.idx := take_of_prefix g.h g2.h _ (by omega) hh
      have hx2 : g2.h[r.idx]? = some r.w := by
        rcases hh with hh | ⟨v, hh⟩
        · rw [hh]; exact hx
        · rw [hh]; exact getElem?_snoc_of_some _ _ _ _ hx
      refine ⟨g2, hm2, take_of_prefix g.h g2.h _ hn0 hh, hge, hlt, hx2, ?_, ?_, hl2⟩
      · rw [htk, hseq]
        rcases hh with hh | ⟨v, hh⟩
        · rw [hh]; exact ⟨rfl, hx, hseq, hkind⟩
        · rw [hh]; exact ResOk_snoc c _ v _ _ r ⟨rfl, hx, hseq, hkind⟩
      · rw [htk, hseq, ha]; simp only [bump_self]; omega
    by_cases hp : c.persistent = true
    · simp only [hp, if_true]
      exact key _ rfl rfl rfl rfl rfl rfl (Or.inl rfl)
    · have hp' : c.persistent = false := by simpa using hp
      simp only [hp', Bool.false_eq_true, if_false]
      exact key _ rfl rfl rfl rfl rfl rfl (Or.inr rfl)
  · have hd : decide (r.kind = Kind.notice) = false := by simp [hn]
    simp only [hd, Bool.and_false, Bool.false_eq_true, if_false]
    obtain ⟨hu, hok, hge, hlt, hm1⟩ := arrive_core c s { s with resQ := rest, outstanding := s.outstanding - 1 } g r rest
      h hq rfl rfl rfl rfl rfl (by simp [hn]) (Or.inl rfl)
    obtain ⟨_, hx, hseq, hkind⟩ := hok
    obtain ⟨it, _, _, hjlt⟩ := kindAt_data c _ _ _ hkind hn
    refine ⟨_, hm1, rfl, hge, hlt, hx, ⟨rfl, hx, rfl, ?_⟩, ?_, ?_⟩
    · simp only [hseq]; exact hkind
    · simp only [hseq, bump_self]; omega
    · rintro ⟨v, hv, hvu⟩
      have hvu' : up s v = true := hvu
      obtain ⟨i, hi, w', hw', hc⟩ := hl ⟨v, hv, hvu'⟩
      refine ⟨i, hi, w', hw', ?_⟩
      rcases hc with hc | ⟨hc1, hc2⟩
      · exact Or.inl hc
      · right
        refine ⟨hc1, ?_⟩
        show bump g.arr r.w w' ≤ _
        by_cases hw : w' = r.w
        · subst hw; rw [bump_self]; omega
        · rw [bump_ne _ _ _ hw]; exact hc2

theorem recvData_invI (c : Cfg) (s : State) (g : Ghost) (r : Res) (rest : List Res) (hv : c.shards.length = c.W)
    (hit : c.iterable = true)
    (hio : c.inOrder = true) (hW : WI c s g) (hsd : s.shutdown = false) (hph : ∀ k, s.phase ≠ .resuming k)
    (hq : s.resQ = r :: rest) : InvI c (recvData c { s with resQ := rest } r) := by
  obtain ⟨hm, ho, hl, hfin⟩ := hW
  obtain ⟨g2, hm2, htk, hge, hlts, hx, hok, hlt, hl2⟩ := onArrival_I c s g r rest hit hio hm hl hq
  have hns : Obs.stop ∉ s.obs := fun hst => by have := (hfin hst).1; omega
  obtain ⟨f1, f2, f3, f4⟩ := onArrival_frame c { s with resQ := rest, outstanding := s.outstanding - 1 } r
  unfold recvData
  generalize onArrival c { s with resQ := rest, outstanding := s.outstanding - 1 } r = t at hm2 f1 f2 f3 f4 hl2
  simp only at f1 f2 f3 f4
  have hsdt : t.shutdown = false := by rw [f3]; exact hsd
  have hpht : ∀ k, t.phase ≠ .resuming k := by rw [f4]; exact hph
  have hot : ObsRel (dataItems c (g2.h.take t.rcvdIdx)) (taskObs t.obs) := by rw [f1, f2, htk]; exact ho
  have hnst : Obs.stop ∉ t.obs := by rw [f2]; exact hns
  simp only [hio, Bool.not_true, Bool.false_eq_true, if_false]
  by_cases hidx : r.idx = t.rcvdIdx
  · simp only [hidx, ne_eq, not_true_eq_false, if_false]
    have hlen := hm2.len
    have hlts' : t.rcvdIdx < t.sendIdx := by
      rw [← hm2.hlen, ← hidx]; exact (List.getElem?_eq_some_iff.mp hx).1
    obtain ⟨e, l, hi⟩ : ∃ e l, t.info = e :: l := by
      cases hi : t.info with
      | nil => simp [hi] at hlen; omega
      | cons e l => exact ⟨e, l, rfl⟩
    have hinfo := hm2.info
    rw [hi] at hinfo
    have hidxf := InfoI_idxFrom c g2 _ _ _ hinfo
    have her : eraseInfo t.info t.rcvdIdx = l := by rw [hi]; exact eraseInfo_headX _ e l hidxf
    simp only [her]
    have hew : e.w = r.w := by
      have := hinfo.2.1; rw [← hidx, hx] at this; exact (Option.some.inj this).symm
    obtain ⟨hm3, _⟩ := MidI_pop c t g2 (some r.idx) e l hm2 (Or.inr (by rw [hidx])) hi
      (Or.inl (by rw [hew, ← hidx]; exact hlt))
    have hxt : g2.h[t.rcvdIdx]? = some r.w := by rw [← hidx]; exact hx
    have hD := dataItems_take_succ c g2.h t.rcvdIdx r.w hxt
    obtain ⟨_, _, _, hkind⟩ := hok
    rw [hidx] at hkind hlt
    by_cases hn : r.kind = .notice
    · simp only [hn, if_true]
      rw [hn] at hkind
      have hj := kindAt_notice c _ _ hkind
      have hnil : ((c.shards.getD r.w [])[(g2.h.take t.rcvdIdx).count r.w]?).toList = [] :=
        getElem?_none_toList _ _ (by unfold bOf at hj; omega)
      rw [hnil, List.append_nil] at hD
      refine loop_invI c _ _ g2 hv hit hio ⟨MidI_of_eq c _ _ g2 none hm3 rfl rfl rfl rfl rfl rfl rfl, ?_, ?_, ?_⟩
        hsdt hpht (by unfold loopFuel; simp only; omega)
      · simp only [hD]; exact hot
      · exact LiveI_pop c t _ g2 r.w hl2 rfl rfl hxt (by omega)
      · intro hst; exact absurd hst hnst
    · simp only [hn, if_false]
      obtain ⟨it, hit', hk, _⟩ := kindAt_data c _ _ _ hkind hn
      rw [hit'] at hD
      simp only [Option.toList] at hD
      exact procI c _ g2 r it _ hit hio hm3 hsdt hpht hD hot hk hnst
  · simp only [ne_eq, hidx, not_false_eq_true, if_true]
    have hm3 := MidI_store c t g2 r.idx r.w r hm2 hx hok rfl hlt
    exact loop_invI c _ _ g2 hv hit hio ⟨hm3, hot, LiveI_of_eq c t _ g2 hl2 rfl rfl,
      fun hst => absurd hst hnst⟩ hsdt hpht (by unfold loopFuel; simp only; omega)

end TDV.MP
