import TorchDataVerif.Proofs.MPIterD
import TorchDataVerif.Proofs.MPMap
/-!
# MP, iterable: the main process (`_next_data`) preserves the invariant
-/
namespace TDV.MP

/-- Consecutive indices from `i`. -/
def IdxFrom : Nat → List Info → Prop
  | _, [] => True
  | i, e :: l => e.idx = i ∧ IdxFrom (i + 1) l

theorem InfoI_idxFrom (c : Cfg) (g : Ghost) (ex : Option Nat) (i : Nat) (l : List Info) (h : InfoI c g ex i l) :
    IdxFrom i l := by
  induction l generalizing i with
  | nil => trivial
  | cons e l ih => exact ⟨h.1, ih _ h.2.2.2.2⟩

theorem IdxFrom_filter_lt (i j : Nat) (l : List Info) (h : IdxFrom j l) (hij : i < j) :
    l.filter (fun e => e.idx != i) = l := by
  induction l generalizing j with
  | nil => rfl
  | cons e l ih =>
    obtain ⟨h1, h4⟩ := h
    have : (e.idx != i) = true := by simp; omega
    simp [List.filter, this, ih (j + 1) h4 (by omega)]

theorem eraseInfo_headX (i : Nat) (e : Info) (l : List Info) (h : IdxFrom i (e :: l)) :
    eraseInfo (e :: l) i = l := by
  obtain ⟨h1, h4⟩ := h
  have h0 : (e.idx != i) = false := by simp [h1]
  simp only [eraseInfo, List.filter, h0]
  exact IdxFrom_filter_lt i (i + 1) l h4 (by omega)

theorem lookupInfo_headX (i : Nat) (e : Info) (l : List Info) (h : IdxFrom i (e :: l)) :
    lookupInfo (e :: l) i = some e := by
  simp [lookupInfo, List.find?, h.1]

theorem MidI_of_eq (c : Cfg) (s s' : State) (g : Ghost) (ex : Option Nat) (h : MidI c s g ex)
    (e1 : s'.sendIdx = s.sendIdx) (e2 : s'.cyc = s.cyc) (e3 : s'.status = s.status) (e4 : s'.rcvdIdx = s.rcvdIdx)
    (e5 : s'.info = s.info) (e6 : s'.workers = s.workers) (e7 : s'.resQ = s.resQ) : MidI c s' g ex := by
  have hup : ∀ w, up s' w = up s w := by intro w; simp [up, e3]
  constructor
  · rw [e1]; exact h.hlen
  · rw [e2]; exact h.cyc
  · exact h.own
  · intro w hw hu; rw [hup] at hu; rw [e2]; exact h.ptrUp w hw hu
  · intro w hw hu; rw [hup] at hu; rw [e2]; exact h.ptrDn w hw hu
  · rw [e2]; exact h.live
  · rw [e4, e5, e1]; exact h.len
  · rw [e4, e5]; exact h.info
  · rw [e4]; exact h.cons
  · intro w hw; rw [hup]; exact h.st w hw
  · exact h.arrle
  · rw [e3]; exact h.slen
  · rw [e6]; exact h.wlen
  · rw [e6]; exact h.wk
  · rw [e7]; exact h.rq
  · rw [e7]; exact h.rqw

theorem InfoI_drop_ex (c : Cfg) (g : Ghost) (x i : Nat) (l : List Info) (h : InfoI c g (some x) i l) (hx : x < i) :
    InfoI c g none i l := by
  induction l generalizing i with
  | nil => trivial
  | cons e l ih =>
    obtain ⟨h1, h2, h3, h4, h5⟩ := h
    exact ⟨h1, h2, h3, fun hn _ => h4 hn (by simp; omega), ih _ h5 (by omega)⟩

theorem InfoI_weaken (c : Cfg) (g : Ghost) (ex : Option Nat) (i : Nat) (l : List Info) (h : InfoI c g none i l) :
    InfoI c g ex i l := by
  induction l generalizing i with
  | nil => trivial
  | cons e l ih =>
    obtain ⟨h1, h2, h3, h4, h5⟩ := h
    exact ⟨h1, h2, h3, fun hn _ => h4 hn (by simp), ih _ h5⟩

/-- Consuming the head of `_task_info` (task `rcvd_idx`): it has arrived, or it is dead. -/
theorem MidI_pop (c : Cfg) (s : State) (g : Ghost) (ex : Option Nat) (e : Info) (l : List Info)
    (h : MidI c s g ex) (hex : ex = none ∨ ex = some s.rcvdIdx) (hi : s.info = e :: l)
    (hc : (g.h.take s.rcvdIdx).count e.w < g.arr e.w ∨ bOf c e.w < (g.h.take s.rcvdIdx).count e.w) :
    MidI c { s with info := l, rcvdIdx := s.rcvdIdx + 1 } g none ∧ g.h[s.rcvdIdx]? = some e.w := by
  have hinfo := h.info
  rw [hi] at hinfo
  obtain ⟨h1, h2, h3, h4, h5⟩ := hinfo
  have hlen := h.len
  rw [hi] at hlen
  simp only [List.length_cons] at hlen
  refine ⟨?_, h2⟩
  have hup : ∀ w, up { s with info := l, rcvdIdx := s.rcvdIdx + 1 } w = up s w := fun _ => rfl
  constructor
  · exact h.hlen
  · exact h.cyc
  · exact h.own
  · exact h.ptrUp
  · exact h.ptrDn
  · exact h.live
  · simp only; omega
  · simp only
    rcases hex with hex | hex
    · subst hex; exact h5
    · subst hex; exact InfoI_drop_ex c g _ _ _ h5 (by omega)
  · intro i w hi' hw
    simp only at hi'
    by_cases hlt : i < s.rcvdIdx
    · exact h.cons i w hlt hw
    · have : i = s.rcvdIdx := by omega
      subst this
      rw [h2] at hw
      cases hw
      exact hc
  · exact h.st
  · exact h.arrle
  · exact h.slen
  · exact h.wlen
  · exact h.wk
  · exact h.rq
  · exact h.rqw

theorem dataItems_take_succ (c : Cfg) (h : List Nat) (i w : Nat) (hi : h[i]? = some w) :
    dataItems c (h.take (i + 1)) = dataItems c (h.take i) ++ ((c.shards.getD w [])[(h.take i).count w]?).toList := by
  rw [List.take_add_one, hi]
  simp only [Option.toList]
  exact dataItems_snoc c (h.take i) w

/-- Working invariant of the main process while the iterator is active. -/
def WI (c : Cfg) (s : State) (g : Ghost) : Prop :=
  MidI c s g none ∧ ObsRel (dataItems c (g.h.take s.rcvdIdx)) (taskObs s.obs)

/-- Everything but `_task_info` and `_rcvd_idx`. -/
structure SameSkip (s s' : State) : Prop where
  sendIdx : s'.sendIdx = s.sendIdx
  status : s'.status = s.status
  cyc : s'.cyc = s.cyc
  outstanding : s'.outstanding = s.outstanding
  numTasks : s'.numTasks = s.numTasks
  samplerPos : s'.samplerPos = s.samplerPos
  numYielded : s'.numYielded = s.numYielded
  mainSnaps : s'.mainSnaps = s.mainSnaps
  wsnaps : s'.wsnaps = s.wsnaps
  snap : s'.snap = s.snap
  lastW : s'.lastW = s.lastW
  shutdown : s'.shutdown = s.shutdown
  bad : s'.bad = s.bad
  workers : s'.workers = s.workers
  resQ : s'.resQ = s.resQ
  phase : s'.phase = s.phase
  obs : s'.obs = s.obs

theorem SameSkip.refl (s : State) : SameSkip s s := by constructor <;> rfl

theorem getElem?_none_toList {α : Type} (l : List α) (i : Nat) (h : l.length ≤ i) : (l[i]?).toList = [] := by
  rw [List.getElem?_eq_none h]; rfl

theorem skip_WI (c : Cfg) (s : State) (g : Ghost) (n : Nat) (h : WI c s g) :
    WI c (skip s n) g ∧ SameSkip s (skip s n) := by
  induction n generalizing s with
  | zero => exact ⟨h, SameSkip.refl s⟩
  | succ n ih =>
    unfold skip
    by_cases hlt : s.rcvdIdx < s.sendIdx
    · simp only [hlt, if_true]
      obtain ⟨hm, ho⟩ := h
      have hlen := hm.len
      obtain ⟨e, l, hi⟩ : ∃ e l, s.info = e :: l := by
        cases hi : s.info with
        | nil => simp [hi] at hlen; omega
        | cons e l => exact ⟨e, l, rfl⟩
      have hinfo := hm.info
      rw [hi] at hinfo
      have hidx := InfoI_idxFrom c g none _ _ hinfo
      rw [hi, lookupInfo_headX _ e l hidx]
      simp only
      by_cases hkeep : (e.res.isSome || up s e.w) = true
      · simp only [hkeep, if_true]
        exact ⟨⟨hm, ho⟩, SameSkip.refl s⟩
      · simp only [hkeep, Bool.false_eq_true, if_false]
        simp only [Bool.or_eq_true, not_or, Bool.not_eq_true, Option.isSome_eq_false_iff,
          Option.isNone_iff_eq_none] at hkeep
        obtain ⟨hnone, hdown⟩ := hkeep
        obtain ⟨h1, h2, h3, h4, h5⟩ := hinfo
        have hw : e.w < c.W := hm.own _ _ h2
        have harr : bOf c e.w + 1 ≤ g.arr e.w := by
          have := (hm.st e.w hw)
          rcases Nat.lt_or_ge (bOf c e.w) (g.arr e.w) with hh | hh
          · omega
          · have := this.mpr hh; rw [hdown] at this; cases this
        have hseq := h4 hnone (by simp)
        have hdead : bOf c e.w < (g.h.take s.rcvdIdx).count e.w := by omega
        obtain ⟨hm', _⟩ := MidI_pop c s g none e l hm (Or.inl rfl) hi (Or.inr hdead)
        rw [eraseInfo_headX _ e l hidx]
        have hW' : WI c { s with info := l, rcvdIdx := s.rcvdIdx + 1 } g := by
          refine ⟨hm', ?_⟩
          simp only
          rw [dataItems_take_succ c g.h _ e.w h2, getElem?_none_toList _ _ (by unfold bOf at hdead; omega),
            List.append_nil]
          exact ho
        obtain ⟨r1, r2⟩ := ih _ hW'
        refine ⟨r1, ?_⟩
        constructor
        · exact r2.sendIdx
        · exact r2.status
        · exact r2.cyc
        · exact r2.outstanding
        · exact r2.numTasks
        · exact r2.samplerPos
        · exact r2.numYielded
        · exact r2.mainSnaps
        · exact r2.wsnaps
        · exact r2.snap
        · exact r2.lastW
        · exact r2.shutdown
        · exact r2.bad
        · exact r2.workers
        · exact r2.resQ
        · exact r2.phase
        · exact r2.obs
    · simp only [hlt, if_false]
      exact ⟨h, SameSkip.refl s⟩

/-- The dispatch history is consistent with the round robin: its live pairs are a prefix of the epoch. -/
def Pref (c : Cfg) (g : Ghost) : Prop := ∃ ρ a, livePairs c g.h ++ liveFrom c ρ a = liveFrom c 0 0

/-- The iterable, in-order safety invariant. -/
structure InvI (c : Cfg) (s : State) : Prop where
  ph : ∀ k, s.phase ≠ .resuming k
  down : s.shutdown = true → s.rcvdIdx = s.sendIdx ∧ s.phase = .idle
  core : ∃ g, ObsRel (dataItems c (g.h.take s.rcvdIdx)) (taskObs s.obs) ∧ Pref c g ∧
    (s.shutdown = false → MidI c s g none)

theorem processData_frame (c : Cfg) (s : State) (r : Res) :
    (processData c s r).1.rcvdIdx = s.rcvdIdx ∧ (processData c s r).1.phase = s.phase ∧
    (processData c s r).1.shutdown = s.shutdown := by
  have hc := tryPut_sameCore c { s with numTasks := s.numTasks.modify r.w (· - 1) }
  unfold processData
  split
  · have hp := yieldItem_sameProto c (tryPut c { s with numTasks := s.numTasks.modify r.w (· - 1) }) r ‹_›
    exact ⟨by rw [hp.rcvdIdx, hc.rcvdIdx], by rw [hp.phase, hc.phase], by rw [hp.shutdown, hc.shutdown]⟩
  · exact ⟨hc.rcvdIdx, hc.phase, hc.shutdown⟩

theorem take_of_prefix (h h' : List Nat) (n : Nat) (hn : n ≤ h.length) (hh : h' = h ∨ ∃ v, h' = h ++ [v]) :
    h'.take n = h.take n := by
  rcases hh with rfl | ⟨v, rfl⟩
  · rfl
  · rw [List.take_append_of_le_length hn]

/-- `_process_data` in an active iterable state (the task has already been popped). -/
theorem processData_MidI (c : Cfg) (s : State) (g : Ghost) (r : Res) (hit : c.iterable = true)
    (hio : c.inOrder = true) (h : MidI c s g none) :
    ∃ g', MidI c (processData c s r).1 g' none ∧ g'.h.take s.rcvdIdx = g.h.take s.rcvdIdx := by
  have h0 : MidI c { s with numTasks := s.numTasks.modify r.w (· - 1) } g none :=
    MidI_of_eq c s _ g none h rfl rfl rfl rfl rfl rfl rfl
  obtain ⟨g', hg', _, _, hh⟩ := MidI_tryPut c _ g none hit hio h0
  have hn : s.rcvdIdx ≤ g.h.length := by rw [h.hlen]; have := h.len; omega
  refine ⟨g', ?_, take_of_prefix g.h g'.h _ hn hh⟩
  unfold processData
  split
  · have hp := yieldItem_sameProto c (tryPut c { s with numTasks := s.numTasks.modify r.w (· - 1) }) r ‹_›
    exact MidI_of_eq c _ _ g' none hg' hp.sendIdx hp.cyc hp.status hp.rcvdIdx hp.info hp.workers hp.resQ
  · exact hg'

/-- Pop + process of a data task: the invariant after `next()` returns with its outcome. -/
theorem procI (c : Cfg) (s : State) (g : Ghost) (r : Res) (it : Item) (D : List Item) (hit : c.iterable = true)
    (hio : c.inOrder = true) (h : MidI c s g none) (hsd : s.shutdown = false) (hph : ∀ k, s.phase ≠ .resuming k)
    (hD : dataItems c (g.h.take s.rcvdIdx) = D ++ [it]) (ho : ObsRel D (taskObs s.obs))
    (hk : r.kind = kindOf it) :
    InvI c (finish ((processData c s r).1, some (processData c s r).2)) := by
  obtain ⟨g', hg', htk⟩ := processData_MidI c s g r hit hio h
  obtain ⟨f1, f2, f3⟩ := processData_frame c s r
  have fo := processData_obs c s r
  have hobs := ObsOk_kind it r hk c s
  generalize processData c s r = p at hg' f1 f2 f3 fo hobs
  obtain ⟨s', o⟩ := p
  simp only at hg' f1 f2 f3 fo hobs
  have hto : taskObs [o] = [o] := by
    cases it with
    | ok b => rcases hobs with rfl | rfl <;> simp [taskObs]
    | err => cases hobs; simp [taskObs]
  simp only [finish]
  refine ⟨(by intro k; simp), (by intro hf; simp only [f3, hsd] at hf; cases hf), g', ?_, ⟨_, _, hg'.live⟩, fun _ => ?_⟩
  · simp only [f1, fo, taskObs_append, hto, htk, hD]
    exact ObsRel_snoc _ _ _ _ ho hobs
  · exact MidI_of_eq c _ _ g' none hg' rfl rfl rfl rfl rfl rfl rfl

theorem InvI_of_WI (c : Cfg) (s : State) (g : Ghost) (h : WI c s g) (hph : ∀ k, s.phase ≠ .resuming k)
    (hsd : s.shutdown = false) : InvI c s :=
  ⟨hph, fun hf => (by rw [hsd] at hf; cases hf), g, h.2, ⟨_, _, h.1.live⟩, fun _ => h.1⟩

/-- The `while True` loop of `_next_data`, for any fuel. -/
theorem loop_invI (c : Cfg) (n : Nat) (s : State) (g : Ghost) (hit : c.iterable = true) (hio : c.inOrder = true)
    (hW : WI c s g) (hsd : s.shutdown = false) (hph : ∀ k, s.phase ≠ .resuming k) :
    InvI c (finish (loop c n s)) := by
  induction n generalizing s with
  | zero =>
    simp only [loop, finish]
    exact InvI_of_WI c _ g ⟨MidI_of_eq c s _ g none hW.1 rfl rfl rfl rfl rfl rfl rfl, hW.2⟩ (by intro k; simp) hsd
  | succ n ih =>
    unfold loop
    obtain ⟨hW2, hf⟩ := skip_WI c s g (s.sendIdx - s.rcvdIdx) hW
    generalize skip s (s.sendIdx - s.rcvdIdx) = s2 at hW2 hf
    simp only
    have hsd2 : s2.shutdown = false := by rw [hf.shutdown]; exact hsd
    have hph2 : ∀ k, s2.phase ≠ .resuming k := by rw [hf.phase]; exact hph
    obtain ⟨hm2, ho2⟩ := hW2
    by_cases hle : s2.sendIdx ≤ s2.rcvdIdx
    · simp only [hle, if_true, finish]
      by_cases hp : c.persistent = true
      · simp only [hp, if_true]
        exact InvI_of_WI c _ g ⟨MidI_of_eq c s2 _ g none hm2 rfl rfl rfl rfl rfl rfl rfl,
          by simpa [taskObs_append, taskObs] using ho2⟩ (by intro k; simp) hsd2
      · have hp' : c.persistent = false := by simpa using hp
        simp only [hp', Bool.false_eq_true, if_false]
        have hsm := shutdownWorkers_sameMain c s2
        refine ⟨(by intro k; simp), fun _ => ?_, g, ?_, ⟨_, _, hm2.live⟩, fun hh => ?_⟩
        · simp only [hsm.rcvdIdx, hsm.sendIdx]
          have := hm2.len
          exact ⟨by omega, trivial⟩
        · simp only [hsm.rcvdIdx, hsm.obs, taskObs_append, taskObs, List.append_nil]; exact ho2
        · simp only [shutdownWorkers_shutdown] at hh; cases hh
    · simp only [hle, if_false]
      have hlen := hm2.len
      obtain ⟨e, l, hi⟩ : ∃ e l, s2.info = e :: l := by
        cases hi : s2.info with
        | nil => simp [hi] at hlen; omega
        | cons e l => exact ⟨e, l, rfl⟩
      have hinfo := hm2.info
      rw [hi] at hinfo
      have hidx := InfoI_idxFrom c g none _ _ hinfo
      have hlk : lookupInfo s2.info s2.rcvdIdx = some e := by rw [hi]; exact lookupInfo_headX _ e l hidx
      have her : eraseInfo s2.info s2.rcvdIdx = l := by rw [hi]; exact eraseInfo_headX _ e l hidx
      rw [hlk]
      simp only
      obtain ⟨h1, h2, h3, h4, h5⟩ := hinfo
      cases hres : e.res with
      | none =>
        simp only [finish]
        exact InvI_of_WI c _ g ⟨MidI_of_eq c s2 _ g none hm2 rfl rfl rfl rfl rfl rfl rfl, ho2⟩ (by intro k; simp) hsd2
      | some r =>
        simp only [her]
        obtain ⟨⟨_, _, _, hkind⟩, _, hseq⟩ := h3 r hres
        obtain ⟨hm3, _⟩ := MidI_pop c s2 g none e l hm2 (Or.inl rfl) hi (Or.inl hseq)
        have hD := dataItems_take_succ c g.h s2.rcvdIdx e.w h2
        by_cases hn : r.kind = .notice
        · simp only [hn, if_true]
          rw [hn] at hkind
          have hj := kindAt_notice c _ _ hkind
          have hnil : ((c.shards.getD e.w [])[(g.h.take s2.rcvdIdx).count e.w]?).toList = [] :=
            getElem?_none_toList _ _ (by unfold bOf at hj; omega)
          rw [hnil, List.append_nil] at hD
          refine ih _ ⟨MidI_of_eq c _ _ g none hm3 rfl rfl rfl rfl rfl rfl rfl, ?_⟩ hsd2 hph2
          simp only [hD]; exact ho2
        · simp only [hn, if_false]
          obtain ⟨it, hit', hk, _⟩ := kindAt_data c _ _ _ hkind hn
          rw [hit'] at hD
          simp only [Option.toList] at hD
          exact procI c _ g r it _ hit hio hm3 hsd2 hph2 hD ho2 hk

theorem InfoI_setRes (c : Cfg) (g : Ghost) (x i u : Nat) (l : List Info) (r : Res)
    (h : InfoI c g (some x) i l) (hx : g.h[x]? = some u)
    (hok : ResOk c g.h u ((g.h.take x).count u) r) (hri : r.idx = x) (hlt : (g.h.take x).count u < g.arr u) :
    InfoI c g none i (setRes l x r) := by
  induction l generalizing i with
  | nil => trivial
  | cons e l ih =>
    obtain ⟨h1, h2, h3, h4, h5⟩ := h
    have ih' := ih _ h5
    simp only [setRes, List.map] at ih' ⊢
    by_cases he : e.idx = x
    · simp only [he, beq_self_eq_true, if_true]
      have hix : i = x := by omega
      subst hix
      have hw : e.w = u := by rw [h2] at hx; exact Option.some.inj hx
      refine ⟨rfl, h2, ?_, ?_, ih'⟩
      · intro r' hr'
        simp only [Option.some.injEq] at hr'
        subst hr'
        simp only [hw]
        exact ⟨hok, hri, hlt⟩
      · intro hn; simp at hn
    · have hb : (e.idx == x) = false := by simp [he]
      simp only [hb]
      exact ⟨h1, h2, h3, fun hn _ => h4 hn (by simp; omega), ih'⟩

theorem MidI_store (c : Cfg) (s : State) (g : Ghost) (x u : Nat) (r : Res) (h : MidI c s g (some x))
    (hx : g.h[x]? = some u) (hok : ResOk c g.h u ((g.h.take x).count u) r) (hri : r.idx = x)
    (hlt : (g.h.take x).count u < g.arr u) :
    MidI c { s with info := setRes s.info x r } g none := by
  have hup : ∀ w, up { s with info := setRes s.info x r } w = up s w := fun _ => rfl
  constructor
  · exact h.hlen
  · exact h.cyc
  · exact h.own
  · exact h.ptrUp
  · exact h.ptrDn
  · exact h.live
  · simp only [setRes_length]; exact h.len
  · exact InfoI_setRes c g x _ u _ r h.info hx hok hri hlt
  · exact h.cons
  · exact h.st
  · exact h.arrle
  · exact h.slen
  · exact h.wlen
  · exact h.wk
  · exact h.rq
  · exact h.rqw

theorem kindAt_ne_ack (c : Cfg) (w j : Nat) (k : Kind) (h : kindAt c w j = some k) : k ≠ .ack := by
  unfold kindAt at h
  split at h
  · rename_i it _
    cases it <;> simp [kindOf] at h <;> subst h <;> simp
  · split at h
    · cases h; simp
    · cases h

theorem onArrival_frame (c : Cfg) (s : State) (r : Res) :
    (onArrival c s r).rcvdIdx = s.rcvdIdx ∧ (onArrival c s r).obs = s.obs ∧
    (onArrival c s r).shutdown = s.shutdown ∧ (onArrival c s r).phase = s.phase := by
  unfold onArrival
  split
  · have hc := tryPut_sameCore c
      { (if c.persistent then { s with status := s.status.set r.w false } else markUnavailable c s r.w false) with
        bad := (if c.persistent then { s with status := s.status.set r.w false }
                else markUnavailable c s r.w false).bad || r.st.isNone }
    refine ⟨hc.rcvdIdx.trans ?_, hc.obs.trans ?_, hc.shutdown.trans ?_, hc.phase.trans ?_⟩ <;>
      (split <;> rfl)
  · exact ⟨rfl, rfl, rfl, rfl⟩

/-- Arrival of the head of the result queue, through the status update and the extra dispatch. -/
theorem onArrival_I (c : Cfg) (s : State) (g : Ghost) (r : Res) (rest : List Res) (hit : c.iterable = true)
    (hio : c.inOrder = true) (h : MidI c s g none) (hq : s.resQ = r :: rest) :
    ∃ g2, MidI c (onArrival c { s with resQ := rest, outstanding := s.outstanding - 1 } r) g2 (some r.idx) ∧
      g2.h.take s.rcvdIdx = g.h.take s.rcvdIdx ∧ s.rcvdIdx ≤ r.idx ∧
      g2.h[r.idx]? = some r.w ∧ ResOk c g2.h r.w ((g2.h.take r.idx).count r.w) r ∧
      (g2.h.take r.idx).count r.w < g2.arr r.w := by
  have hn0 : s.rcvdIdx ≤ g.h.length := by rw [h.hlen]; have := h.len; omega
  unfold onArrival
  by_cases hn : r.kind = .notice
  · simp only [hit, hn, decide_true, Bool.and_self, if_true]
    have key : ∀ s1 : State, s1.sendIdx = s.sendIdx → s1.cyc = s.cyc → s1.rcvdIdx = s.rcvdIdx → s1.info = s.info →
        s1.resQ = rest → s1.status = s.status.set r.w false →
        (s1.workers = s.workers ∨ s1.workers = pushMsg s.workers r.w .stop) →
        ∃ g2, MidI c (tryPut c s1) g2 (some r.idx) ∧
          g2.h.take s.rcvdIdx = g.h.take s.rcvdIdx ∧ s.rcvdIdx ≤ r.idx ∧
          g2.h[r.idx]? = some r.w ∧ ResOk c g2.h r.w ((g2.h.take r.idx).count r.w) r ∧
          (g2.h.take r.idx).count r.w < g2.arr r.w := by
      intro s1 e1 e2 e4 e5 eq est ewk
      obtain ⟨_, hok, hge, hlt, hm1⟩ := arrive_core c s s1 g r rest h hq e1 e2 e4 e5 eq (by simp [hn, est]) ewk
      obtain ⟨g2, hm2, ha, _, hh⟩ := MidI_tryPut c s1 _ (some r.idx) hit hio hm1
      obtain ⟨_, hx, hseq, hkind⟩ := hok
      have hlt' : r.idx < g.h.length := by rw [h.hlen]; exact hlt
      have htk : g2.h.take r.idx = g.h.take r.idx := take_of_prefix g.h g2.h _ (by omega) hh
      have hx2 : g2.h[r.idx]? = some r.w := by
        rcases hh with hh | ⟨v, hh⟩
        · rw [hh]; exact hx
        · rw [hh]; exact getElem?_snoc_of_some _ _ _ _ hx
      refine ⟨g2, hm2, take_of_prefix g.h g2.h _ hn0 hh, hge, hx2, ?_, ?_⟩
      · rw [htk, hseq]
        rcases hh with hh | ⟨v, hh⟩
        · rw [hh]; exact ⟨rfl, hx, hseq, hkind⟩
        · rw [hh]; exact ResOk_snoc c _ v _ _ r ⟨rfl, hx, hseq, hkind⟩
      · rw [htk, hseq, ha]; simp only [bump_self]; omega
    by_cases hp : c.persistent = true
    · simp only [hp, if_true]
      exact key _ rfl rfl rfl rfl rfl rfl (Or.inl rfl)
    · have hp' : c.persistent = false := by simpa using hp
      simp only [hp', Bool.false_eq_true, if_false]
      exact key _ rfl rfl rfl rfl rfl rfl (Or.inr rfl)
  · have hd : decide (r.kind = Kind.notice) = false := by simp [hn]
    simp only [hd, Bool.and_false, Bool.false_eq_true, if_false]
    obtain ⟨_, hok, hge, hlt, hm1⟩ := arrive_core c s { s with resQ := rest, outstanding := s.outstanding - 1 } g r rest
      h hq rfl rfl rfl rfl rfl (by simp [hn]) (Or.inl rfl)
    obtain ⟨_, hx, hseq, hkind⟩ := hok
    refine ⟨_, hm1, rfl, hge, hx, ⟨rfl, hx, rfl, ?_⟩, ?_⟩
    · simp only [hseq]; exact hkind
    · simp only [hseq, bump_self]; omega

theorem recvData_invI (c : Cfg) (s : State) (g : Ghost) (r : Res) (rest : List Res) (hit : c.iterable = true)
    (hio : c.inOrder = true) (hW : WI c s g) (hsd : s.shutdown = false) (hph : ∀ k, s.phase ≠ .resuming k)
    (hq : s.resQ = r :: rest) : InvI c (recvData c { s with resQ := rest } r) := by
  obtain ⟨hm, ho⟩ := hW
  obtain ⟨g2, hm2, htk, hge, hx, hok, hlt⟩ := onArrival_I c s g r rest hit hio hm hq
  obtain ⟨f1, f2, f3, f4⟩ := onArrival_frame c { s with resQ := rest, outstanding := s.outstanding - 1 } r
  unfold recvData
  generalize onArrival c { s with resQ := rest, outstanding := s.outstanding - 1 } r = t at hm2 f1 f2 f3 f4
  simp only at f1 f2 f3 f4
  have hsdt : t.shutdown = false := by rw [f3]; exact hsd
  have hpht : ∀ k, t.phase ≠ .resuming k := by rw [f4]; exact hph
  have hot : ObsRel (dataItems c (g2.h.take t.rcvdIdx)) (taskObs t.obs) := by rw [f1, f2, htk]; exact ho
  simp only [hio, Bool.not_true, Bool.false_eq_true, if_false]
  by_cases hidx : r.idx = t.rcvdIdx
  · simp only [hidx, ne_eq, not_true_eq_false, if_false]
    have hlen := hm2.len
    have hlts : t.rcvdIdx < t.sendIdx := by
      rw [← hm2.hlen, ← hidx]; exact (List.getElem?_eq_some_iff.mp hx).1
    obtain ⟨e, l, hi⟩ : ∃ e l, t.info = e :: l := by
      cases hi : t.info with
      | nil => simp [hi] at hlen; omega
      | cons e l => exact ⟨e, l, rfl⟩
    have hinfo := hm2.info
    rw [hi] at hinfo
    have hidxf := InfoI_idxFrom c g2 _ _ _ hinfo
    have her : eraseInfo t.info t.rcvdIdx = l := by rw [hi]; exact eraseInfo_headX _ e l hidxf
    simp only [her]
    have hew : e.w = r.w := by
      have := hinfo.2.1; rw [← hidx, hx] at this; exact (Option.some.inj this).symm
    obtain ⟨hm3, _⟩ := MidI_pop c t g2 (some r.idx) e l hm2 (Or.inr (by rw [hidx])) hi
      (Or.inl (by rw [hew, ← hidx]; exact hlt))
    have hD := dataItems_take_succ c g2.h t.rcvdIdx r.w (by rw [← hidx]; exact hx)
    obtain ⟨_, _, _, hkind⟩ := hok
    rw [hidx] at hkind
    by_cases hn : r.kind = .notice
    · simp only [hn, if_true]
      rw [hn] at hkind
      have hj := kindAt_notice c _ _ hkind
      have hnil : ((c.shards.getD r.w [])[(g2.h.take t.rcvdIdx).count r.w]?).toList = [] :=
        getElem?_none_toList _ _ (by unfold bOf at hj; omega)
      rw [hnil, List.append_nil] at hD
      refine loop_invI c _ _ g2 hit hio ⟨MidI_of_eq c _ _ g2 none hm3 rfl rfl rfl rfl rfl rfl rfl, ?_⟩ hsdt hpht
      simp only [hD]; exact hot
    · simp only [hn, if_false]
      obtain ⟨it, hit', hk, _⟩ := kindAt_data c _ _ _ hkind hn
      rw [hit'] at hD
      simp only [Option.toList] at hD
      exact procI c _ g2 r it _ hit hio hm3 hsdt hpht hD hot hk
  · simp only [ne_eq, hidx, not_false_eq_true, if_true]
    have hm3 := MidI_store c t g2 r.idx r.w r hm2 hx hok rfl hlt
    exact loop_invI c _ _ g2 hit hio ⟨hm3, hot⟩ hsdt hpht

end TDV.MP
