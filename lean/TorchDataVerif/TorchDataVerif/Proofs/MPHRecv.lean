import TorchDataVerif.Proofs.MPHInv
/-!
# MPH — the invariant of the fixed handshake: `recv`, and along every run
-/
namespace TDV.MPH

/-- `resume_exception` after taking acknowledgement `a`. -/
def excNext (exc : Option (Nat × Nat)) (p : Pay) : Option (Nat × Nat) :=
  match exc, p with
  | none, .exc e w => some (e, w)
  | x, _ => x

theorem excNext_some (exc : Option (Nat × Nat)) (p : Pay) (e w : Nat) (h : excNext exc p = some (e, w)) :
    exc = some (e, w) ∨ (exc = none ∧ p = .exc e w) := by
  unfold excNext at h
  split at h
  · cases h; exact Or.inr ⟨rfl, rfl⟩
  · exact Or.inl h

theorem excNext_none (exc : Option (Nat × Nat)) (p : Pay) (h : excNext exc p = none) : exc = none ∧ p = .ok := by
  unfold excNext at h
  cases exc with
  | some x => simp at h
  | none =>
    cases p with
    | ok => exact ⟨rfl, rfl⟩
    | exc e w => simp at h

theorem recv_eq (c : Cfg) (s : State) :
    step c s .recv =
      match s.phase, s.queue with
      | .waiting cnt exc, a :: rest =>
        if cnt ≤ 1 then
          some (finish { s with queue := rest }
            (match excNext exc a.pay with | some x => .raised x.1 x.2 | none => .finished))
        else some { s with queue := rest, phase := .waiting (cnt - 1) (excNext exc a.pay) }
      | _, _ => none := by
  unfold step excNext
  rfl

theorem recv_inv (c : Cfg) (s s' : State) (h : Inv c s) (hst : step c s .recv = some s') : Inv c s' := by
  rw [recv_eq] at hst
  split at hst
  · rename_i cnt exc a rest hph hq
    have hcnt := h.cnt cnt exc hph
    rw [hq] at hcnt
    simp only [List.length_cons] at hcnt
    have ha := h.q a (by rw [hq]; exact List.mem_cons_self ..)
    -- what the new `resume_exception` is
    have hE : ∀ e w, excNext exc a.pay = some (e, w) → e = s.epoch ∧ w < c.W ∧ failKind c e w ≠ .none := by
      intro e w hx
      rcases excNext_some exc a.pay e w hx with h1 | ⟨_, h2⟩
      · exact h.exc cnt e w (by rw [hph, h1])
      · rw [ha.2] at h2
        obtain ⟨r1, r2, r3⟩ := payOf_exc c s.epoch a.w e w h2
        subst r1; subst r2
        exact ⟨rfl, ha.1, r3⟩
    have hqr : ∀ b ∈ rest, b.w < c.W ∧ b.pay = payOf c s.epoch b.w :=
      fun b hb => h.q b (by rw [hq]; exact List.mem_cons_of_mem _ hb)
    split at hst
    · -- the last acknowledgement
      rename_i hle
      cases hst
      have hp0 : pend s.workers = 0 := by omega
      have hr0 : rest = [] := List.length_eq_zero_iff.mp (by omega)
      have hin := pend_eq_zero _ hp0
      have hne1 : s.epoch ≠ 1 := fun hx => by have := h.ep.2 hx; rw [hph] at this; cases this
      refine ⟨h.wl, ⟨h.ep.1, fun hx => absurd hx hne1⟩, h.wk, ?_, ?_, ?_, ?_, ?_, h.ie, ?_, ?_⟩
      · intro _
        exact ⟨hr0, fun w k hk => hin k (mem_of_get _ w k hk)⟩
      · intro b hb; exact hqr b hb
      · intro n x hx; cases hx
      · intro n e w hx; cases hx
      · intro n hx; cases hx
      · intro e o hm
        simp only [finish, List.mem_append, List.mem_singleton] at hm
        rcases hm with hm | hm
        · exact h.log e o hm
        · cases hm
          unfold LogOk
          cases hx : excNext exc a.pay with
          | some x =>
            obtain ⟨e, w⟩ := x
            simp only
            obtain ⟨r1, r2, r3⟩ := hE e w hx
            refine ⟨?_, ?_, ?_⟩
            · intro hf; cases hf
            · intro e' w' hr
              cases hr
              exact ⟨r1, r2, by rw [← r1]; exact r3⟩
            · intro hf; cases hf
          | none =>
            simp only
            obtain ⟨n1, n2⟩ := excNext_none exc a.pay hx
            refine ⟨?_, ?_, ?_⟩
            rotate_left
            · intro e' w' hr; cases hr
            · intro hf; cases hf
            intro _ w hw
            cases hf : failKind c s.epoch w with
            | none => rfl
            | early | late =>
              all_goals
                exfalso
                have hne : failKind c s.epoch w ≠ .none := by rw [hf]; simp
                rcases h.ev cnt (by rw [hph, n1]) w hw hne with ⟨k, hk, hi⟩ | hm
                · rw [hin k (mem_of_get _ w k hk)] at hi; cases hi
                · rw [hq, hr0, List.mem_singleton] at hm
                  rw [← hm] at n2; cases n2
      · intro _ e o hl
        simp only [finish, List.getLast?_append, List.getLast?_singleton] at hl
        cases hl; rfl
    · -- more acknowledgements to come
      rename_i hgt
      cases hst
      refine ⟨h.wl, ⟨h.ep.1, fun hx => by have := h.ep.2 hx; rw [hph] at this; cases this⟩, h.wk, ?_, ?_, ?_, ?_, ?_,
        h.ie, h.log, ?_⟩
      · intro hx; cases hx
      · intro b hb; exact hqr b hb
      · intro n x hx
        simp only [Phase.waiting.injEq] at hx
        rw [← hx.1]
        simp only
        omega
      · intro n e w hx
        simp only [Phase.waiting.injEq] at hx
        exact hE e w hx.2
      · intro n hx w hw hf
        simp only [Phase.waiting.injEq] at hx
        obtain ⟨n1, n2⟩ := excNext_none exc a.pay hx.2
        rcases h.ev cnt (by rw [hph, n1]) w hw hf with hl | hm
        · exact Or.inl hl
        · right
          rw [hq] at hm
          rcases List.mem_cons.mp hm with hm | hm
          · rw [← hm] at n2; cases n2
          · exact hm
      · intro hx; cases hx
  · cases hst

theorem step_inv (c : Cfg) (s s' : State) (a : Action) (h : Inv c s) (hst : step c s a = some s') : Inv c s' := by
  cases a with
  | start => exact start_inv c s s' h hst
  | work w => exact work_inv c s s' w h hst
  | timeout => rw [timeout_inv c s s' h hst]; exact h
  | recv => exact recv_inv c s s' h hst

theorem run_inv (c : Cfg) (as : List Action) (s s' : State) (h : Inv c s) (hr : run c s as = some s') : Inv c s' := by
  induction as generalizing s with
  | nil => simp only [run, runWith] at hr; cases hr; exact h
  | cons a as ih =>
    simp only [run, runWith] at hr
    split at hr
    · cases hr
    · rename_i s1 hs1
      exact ih s1 (step_inv c s s1 a h hs1) hr

end TDV.MPH
