import TorchDataVerif.Proofs.E2EIface
/-!
# E2E, part 2 — the façade over the ideal iterator class

Facts about `Fac.* (idealIC epochs)`: which loader states no history can tell apart (`Eqv`), resume is exact,
chains, extra `state_dict()` calls, and the explicit epoch-by-epoch observations of `for` loops.
-/
namespace TDV.E2E
open TDV.Node
open TDV.Loader (Obs Op)
open TDV.SDLApi (It)

/-- Ideal loader states that no history can tell apart: the objects matter only when the next constructor call
runs without a state. -/
def Eqv (s s' : IState) : Prop :=
  s.iterator = s'.iterator ∧ s.pending = s'.pending ∧ s.initForSd = s'.initForSd ∧ s.handle = s'.handle ∧
    (s.iterator = none → s.pending = none → s.wd = s'.wd)

def SEqv (s s' : ISys) : Prop := Eqv s.st s'.st ∧ s.toks = s'.toks

theorem eqv_refl (s : IState) : Eqv s s := ⟨rfl, rfl, rfl, rfl, fun _ _ => rfl⟩

theorem seqv_refl (s : ISys) : SEqv s s := ⟨eqv_refl _, rfl⟩

section
variable (epochs : Nat → List Item)

theorem iter_eqv {s s' : IState} (h : Eqv s s') :
    (Fac.iter (idealIC epochs) s).1 = (Fac.iter (idealIC epochs) s').1 ∧
      Eqv (Fac.iter (idealIC epochs) s).2 (Fac.iter (idealIC epochs) s').2 := by
  obtain ⟨h1, h2, h3, h4, h5⟩ := h
  rcases s with ⟨w, it, pd, fl, hd⟩
  rcases s' with ⟨w', it', pd', fl', hd'⟩
  simp only at h1 h2 h3 h4 h5
  subst h1 h2 h3 h4
  rcases it with _ | ⟨e, p, (_ | _)⟩ <;> rcases pd with _ | ⟨pe, pp, (_ | _)⟩ <;> cases fl <;>
    simp_all [Fac.iter, Fac.iterSecond, Fac.getAssign, Fac.curWorld, idealIC, Eqv] <;>
    (try (cases w' <;> simp))

theorem stateDict_eqv {s s' : IState} (h : Eqv s s') :
    (Fac.stateDict (idealIC epochs) s).1 = (Fac.stateDict (idealIC epochs) s').1 ∧
      Eqv (Fac.stateDict (idealIC epochs) s).2 (Fac.stateDict (idealIC epochs) s').2 := by
  obtain ⟨h1, h2, h3, h4, h5⟩ := h
  rcases s with ⟨w, it, pd, fl, hd⟩
  rcases s' with ⟨w', it', pd', fl', hd'⟩
  simp only at h1 h2 h3 h4 h5
  subst h1 h2 h3 h4
  rcases it with _ | ⟨e, p, f⟩ <;> rcases pd with _ | ⟨pe, pp, pf⟩ <;>
    simp_all [Fac.stateDict, Fac.getAssign, Fac.curWorld, idealIC, Eqv] <;>
    (try (cases w' <;> simp))

theorem next_eqv {s s' : IState} (h : Eqv s s') :
    (Fac.next (idealIC epochs) s).1 = (Fac.next (idealIC epochs) s').1 ∧
      Eqv (Fac.next (idealIC epochs) s).2 (Fac.next (idealIC epochs) s').2 := by
  obtain ⟨h1, h2, h3, h4, h5⟩ := h
  rcases s with ⟨w, it, pd, fl, hd⟩
  rcases s' with ⟨w', it', pd', fl', hd'⟩
  simp only at h1 h2 h3 h4 h5
  subst h1 h2 h3 h4
  rcases it with _ | x <;> cases hd <;> simp_all [Fac.next, Eqv]

theorem load_eqv {s s' : IState} (_h : Eqv s s') (t : It) :
    Eqv (Fac.load (idealIC epochs) s t) (Fac.load (idealIC epochs) s' t) := by
  simp [Fac.load, Eqv]

theorem okStep_eqv {s s' : ISys} (h : SEqv s s') (op : Op) : okStep s op = okStep s' op := by
  obtain ⟨⟨h1, h2, h3, h4, h5⟩, ht⟩ := h
  rcases s with ⟨⟨w, it, pd, fl, hd⟩, tk, n⟩
  rcases s' with ⟨⟨w', it', pd', fl', hd'⟩, tk', n'⟩
  simp only at h1 h2 h3 h4 h5 ht
  subst h1 h2 h3 h4 ht
  cases op <;> simp only [okStep, mkOk, iWorld] <;>
    rcases it with _ | x <;> rcases pd with _ | t <;> simp_all

theorem step_eqv {s s' : ISys} (h : SEqv s s') (op : Op) :
    (Fac.step (idealIC epochs) ifw s op).1 = (Fac.step (idealIC epochs) ifw s' op).1 ∧
      SEqv (Fac.step (idealIC epochs) ifw s op).2 (Fac.step (idealIC epochs) ifw s' op).2 := by
  obtain ⟨hs, ht⟩ := h
  cases op with
  | iter =>
    have r := iter_eqv epochs hs
    exact ⟨r.1, r.2, ht⟩
  | next =>
    have r := next_eqv epochs hs
    exact ⟨r.1, r.2, ht⟩
  | stateDict =>
    have r := stateDict_eqv epochs hs
    simp only [Fac.step, r.1, ht]
    cases (Fac.stateDict (idealIC epochs) s'.st).1 with
    | none => exact ⟨rfl, r.2, rfl⟩
    | some t => exact ⟨rfl, r.2, rfl⟩
  | peek =>
    have r := stateDict_eqv epochs hs
    simp only [Fac.step, r.1]
    cases (Fac.stateDict (idealIC epochs) s'.st).1 with
    | none => exact ⟨rfl, r.2, ht⟩
    | some t => exact ⟨rfl, r.2, ht⟩
  | load i =>
    simp only [Fac.step, ht]
    cases s'.toks[i]? with
    | none => exact ⟨rfl, hs, ht⟩
    | some t => exact ⟨rfl, load_eqv epochs hs t, rfl⟩
  | abandon =>
    obtain ⟨h1, h2, h3, h4, h5⟩ := hs
    exact ⟨rfl, ⟨h1, h2, h3, rfl, h5⟩, ht⟩
  | fresh => exact ⟨rfl, eqv_refl _, ht⟩

theorem exec_eqv : ∀ (ops : List Op) {s s' : ISys}, SEqv s s' →
    SEqv (Fac.exec (idealIC epochs) ifw s ops) (Fac.exec (idealIC epochs) ifw s' ops)
  | [], _, _, h => h
  | op :: ops, _, _, h => exec_eqv ops (step_eqv epochs h op).2

theorem obs_eqv : ∀ (ops : List Op) {s s' : ISys}, SEqv s s' →
    Fac.obs (idealIC epochs) ifw s ops = Fac.obs (idealIC epochs) ifw s' ops
  | [], _, _, _ => rfl
  | op :: ops, s, s', h => by
    have r := step_eqv epochs h op
    simp only [Fac.obs]
    rw [r.1, obs_eqv ops r.2]

theorem wellUsed_eqv : ∀ (ops : List Op) {s s' : ISys}, SEqv s s' →
    wellUsed epochs s ops = wellUsed epochs s' ops
  | [], _, _, _ => rfl
  | op :: ops, s, s', h => by
    simp only [wellUsed]
    rw [okStep_eqv h op, wellUsed_eqv ops (step_eqv epochs h op).2]

end

/-! ## Resume is exact (ideal level) -/
section resume
variable (epochs : Nat → List Item)

/-- `sd = state_dict()`, then a NEW loader, `load_state_dict(sd)`, `iter()`: where the original is (mid-epoch
checkpoint). -/
theorem ideal_resume (s : ISys) (a : It) (hit : s.st.iterator = some a) (hnf : a.fin = false)
    (hI : Iterating s.st) :
    SEqv (Fac.exec (idealIC epochs) ifw s [.stateDict, .fresh, .load s.toks.length, .iter])
        (Fac.exec (idealIC epochs) ifw s [.stateDict]) ∧
      wellUsed epochs s [.stateDict, .fresh, .load s.toks.length, .iter] = true := by
  obtain ⟨_, hp, hfl, hh⟩ := hI
  rcases s with ⟨⟨w, it, pd, fl, hd⟩, tk, n⟩
  simp only at hit hp hfl hh
  subst hit hp hfl hh
  rcases a with ⟨e, p, f⟩
  simp only at hnf
  subst hnf
  constructor
  · simp [Fac.exec, Fac.step, Fac.stateDict, Fac.load, Fac.iter, Fac.iterSecond, Fac.getAssign, Fac.curWorld,
      idealIC, FState.init, SEqv, Eqv]
  · simp [wellUsed, okStep, mkOk, itDone, iWorld, Fac.step, Fac.stateDict, Fac.load, FState.init]

/-- The same from a state taken after the epoch's `StopIteration`: the new loader is where the original is
after its next `iter()`. -/
theorem ideal_resume_fin (s : ISys) (a : It) (hit : s.st.iterator = some a) (hf : a.fin = true)
    (hI : Iterating s.st) :
    SEqv (Fac.exec (idealIC epochs) ifw s [.stateDict, .fresh, .load s.toks.length, .iter])
        (Fac.exec (idealIC epochs) ifw s [.stateDict, .iter]) ∧
      wellUsed epochs s [.stateDict, .fresh, .load s.toks.length, .iter] = true ∧
      wellUsed epochs s [.stateDict, .iter] = true := by
  obtain ⟨_, hp, hfl, hh⟩ := hI
  rcases s with ⟨⟨w, it, pd, fl, hd⟩, tk, n⟩
  simp only at hit hp hfl hh
  subst hit hp hfl hh
  rcases a with ⟨e, p, f⟩
  simp only at hf
  subst hf
  refine ⟨?_, ?_, ?_⟩
  · simp [Fac.exec, Fac.step, Fac.stateDict, Fac.load, Fac.iter, Fac.iterSecond, Fac.getAssign, Fac.curWorld,
      idealIC, FState.init, SEqv, Eqv]
  · simp [wellUsed, okStep, mkOk, itDone, iWorld, Fac.step, Fac.stateDict, Fac.load, FState.init]
  · simp [wellUsed, okStep, mkOk, itDone, iWorld, Fac.step, Fac.stateDict]

end resume

/-! ## Chains of checkpoint / resume (ideal level) -/
section chain
variable (epochs : Nat → List Item)

/-- A chain: at each link the state is taken, a NEW loader is built, the state loaded, `iter()` called, and the
consumer carries on with `seg` (any ops but a recorded `state_dict()`).  `n`: index of the link's token. -/
def chainOps : Nat → List (List Op) → List Op
  | _, [] => []
  | n, seg :: segs => [.stateDict, .fresh, .load n, .iter] ++ seg ++ chainOps (n + 1) segs

/-- The uninterrupted counterpart: `state_dict()` at the same points, no resume. -/
def plainOps : List (List Op) → List Op
  | [] => []
  | seg :: segs => .stateDict :: seg ++ plainOps segs

/-- Every link of the chain is taken mid-epoch while the user is iterating, and every segment is well-used
(evaluated along the uninterrupted run). -/
def ChainOk : ISys → List (List Op) → Prop
  | _, [] => True
  | s, seg :: segs =>
    (∃ a, s.st.iterator = some a ∧ a.fin = false) ∧ Iterating s.st ∧ (∀ op ∈ seg, op ≠ Op.stateDict) ∧
      wellUsed epochs (Fac.exec (idealIC epochs) ifw s [.stateDict]) seg = true ∧
      ChainOk (Fac.exec (idealIC epochs) ifw s (.stateDict :: seg)) segs

theorem exec_toks {X T Wd : Type} (IC : IterClass X T Wd) (fw : Nat → Wd) :
    ∀ (ops : List Op) (s : Sys X T Wd), (∀ op ∈ ops, op ≠ Op.stateDict) → (Fac.exec IC fw s ops).toks = s.toks
  | [], _, _ => rfl
  | op :: ops, s, h => by
    have h1 : op ≠ Op.stateDict := h op (by simp)
    have ih := exec_toks IC fw ops (Fac.step IC fw s op).2 (fun o ho => h o (by simp [ho]))
    simp only [Fac.exec]
    rw [ih]
    cases op with
    | stateDict => exact absurd rfl h1
    | peek => simp only [Fac.step]; split <;> rfl
    | load i => simp only [Fac.step]; split <;> rfl
    | iter => rfl
    | next => rfl
    | abandon => rfl
    | fresh => rfl

theorem iterating_eqv {s s' : IState} (h : Eqv s s') (hI : Iterating s) : Iterating s' := by
  obtain ⟨h1, h2, h3, h4, _⟩ := h
  obtain ⟨i1, i2, i3, i4⟩ := hI
  exact ⟨by rw [← h1]; exact i1, by rw [← h2]; exact i2, by rw [← h3]; exact i3, by rw [← h4]; exact i4⟩

theorem ideal_chain : ∀ (segs : List (List Op)) (s s' : ISys), SEqv s' s → ChainOk epochs s segs →
    SEqv (Fac.exec (idealIC epochs) ifw s' (chainOps s'.toks.length segs))
        (Fac.exec (idealIC epochs) ifw s (plainOps segs)) ∧
      wellUsed epochs s' (chainOps s'.toks.length segs) = true ∧ wellUsed epochs s (plainOps segs) = true
  | [], _, _, h, _ => ⟨h, rfl, rfl⟩
  | seg :: segs, s, s', h, hc => by
    obtain ⟨⟨a, ha, hnf⟩, hI, hns, hw, hrest⟩ := hc
    have hsym : SEqv s s' := ⟨⟨h.1.1.symm, h.1.2.1.symm, h.1.2.2.1.symm, h.1.2.2.2.1.symm, fun a b => by
      have := h.1.2.2.2.2 (by rw [h.1.1]; exact a) (by rw [h.1.2.1]; exact b); exact this.symm⟩, h.2.symm⟩
    have ha' : s'.st.iterator = some a := by rw [h.1.1]; exact ha
    have hI' : Iterating s'.st := iterating_eqv hsym.1 hI
    obtain ⟨r1, r2⟩ := ideal_resume epochs s' a ha' hnf hI'
    -- after the link's four ops, s' is where s is after its state_dict()
    have e1 : SEqv (Fac.exec (idealIC epochs) ifw s' [.stateDict, .fresh, .load s'.toks.length, .iter])
        (Fac.exec (idealIC epochs) ifw s [.stateDict]) := by
      have := exec_eqv epochs [.stateDict] h
      exact ⟨⟨r1.1.1.trans this.1.1, r1.1.2.1.trans this.1.2.1, r1.1.2.2.1.trans this.1.2.2.1,
        r1.1.2.2.2.1.trans this.1.2.2.2.1, fun a b => by
          have q := r1.1.2.2.2.2 a b
          rw [q]
          exact this.1.2.2.2.2 (by rw [← r1.1.1]; exact a) (by rw [← r1.1.2.1]; exact b)⟩,
        r1.2.trans this.2⟩
    have e2 := exec_eqv epochs seg e1
    have hw' : wellUsed epochs (Fac.exec (idealIC epochs) ifw s' [.stateDict, .fresh, .load s'.toks.length, .iter])
        seg = true := by rw [wellUsed_eqv epochs seg e1]; exact hw
    -- token count after the link and its segment
    have hlen : (Fac.exec (idealIC epochs) ifw
        (Fac.exec (idealIC epochs) ifw s' [.stateDict, .fresh, .load s'.toks.length, .iter]) seg).toks.length =
        s'.toks.length + 1 := by
      rw [exec_toks _ _ seg _ hns, e1.2]
      have : (Fac.exec (idealIC epochs) ifw s [.stateDict]).toks = s.toks ++ [a] := by
        simp [Fac.exec, Fac.step, Fac.stateDict, ha, idealIC]
      rw [this, h.2]
      simp
    have hrest' : ChainOk epochs (Fac.exec (idealIC epochs) ifw (Fac.exec (idealIC epochs) ifw s [.stateDict]) seg)
        segs := by
      rw [← exec_append]; exact hrest
    obtain ⟨i1, i2, i3⟩ := ideal_chain segs _ _ e2 hrest'
    rw [hlen] at i1 i2
    have hsd : wellUsed epochs s [.stateDict] = true := by
      simp [wellUsed, okStep, ha]
    refine ⟨?_, ?_, ?_⟩
    · have : chainOps s'.toks.length (seg :: segs) =
          [.stateDict, .fresh, .load s'.toks.length, .iter] ++ (seg ++ chainOps (s'.toks.length + 1) segs) := by
        simp [chainOps]
      rw [this, exec_append, exec_append]
      have : plainOps (seg :: segs) = [.stateDict] ++ (seg ++ plainOps segs) := by simp [plainOps]
      rw [this, exec_append, exec_append]
      exact i1
    · have : chainOps s'.toks.length (seg :: segs) =
          [.stateDict, .fresh, .load s'.toks.length, .iter] ++ (seg ++ chainOps (s'.toks.length + 1) segs) := by
        simp [chainOps]
      rw [this, wellUsed_append, wellUsed_append, r2, hw', i2]
      rfl
    · have : plainOps (seg :: segs) = [.stateDict] ++ (seg ++ plainOps segs) := by simp [plainOps]
      rw [this, wellUsed_append, wellUsed_append, hsd, hw, i3]
      rfl

end chain

/-! ## Extra `state_dict()` calls change nothing (ideal level) -/
section transparent
variable (epochs : Nat → List Item)
open TDV.Loader (erasePeek)

/-- Flag invariant of the façade. -/
def IInv (s : IState) : Prop :=
  (s.handle = true → s.iterator.isSome = true) ∧ (s.initForSd = true → s.iterator.isSome = true) ∧
    (s.pending.isSome = true → s.iterator = none)

theorem iinv_init (w : Option Nat) : IInv (FState.init w) := by simp [IInv, FState.init]

theorem iinv_step (s : ISys) (h : IInv s.st) (op : Op) : IInv (Fac.step (idealIC epochs) ifw s op).2.st := by
  rcases s with ⟨⟨w, it, pd, fl, hd⟩, tk, n⟩
  obtain ⟨h1, h2, h3⟩ := h
  simp only at h1 h2 h3
  cases op with
  | iter =>
    rcases it with _ | ⟨e, p, (_ | _)⟩ <;> rcases pd with _ | ⟨pe, pp, (_ | _)⟩ <;> cases fl <;> rcases w with _ | g <;>
      simp_all [Fac.step, Fac.iter, Fac.iterSecond, Fac.getAssign, Fac.curWorld, idealIC, IInv]
  | next =>
    rcases it with _ | x <;> cases hd <;> simp_all [Fac.step, Fac.next, IInv]
  | stateDict =>
    rcases it with _ | x <;> rcases pd with _ | t <;> rcases w with _ | g <;>
      simp_all [Fac.step, Fac.stateDict, Fac.getAssign, Fac.curWorld, idealIC, IInv]
  | peek =>
    rcases it with _ | x <;> rcases pd with _ | t <;> rcases w with _ | g <;>
      simp_all [Fac.step, Fac.stateDict, Fac.getAssign, Fac.curWorld, idealIC, IInv]
  | load i =>
    simp only [Fac.step]
    cases tk[i]? with
    | none => exact ⟨h1, h2, h3⟩
    | some t => simp [Fac.load, IInv]
  | abandon => simp_all [Fac.step, IInv]
  | fresh => simp [Fac.step, IInv, FState.init]

theorem iinv_exec : ∀ (ops : List Op) (s : ISys), IInv s.st → IInv (Fac.exec (idealIC epochs) ifw s ops).st
  | [], _, h => h
  | op :: ops, s, h => iinv_exec ops _ (iinv_step epochs s h op)

/-- `s` is `s'` after an extra `state_dict()` that created the iterator. -/
def Peeked (s s' : IState) : Prop :=
  s'.iterator = none ∧ s'.initForSd = false ∧ s'.handle = false ∧
    ∃ x, Fac.getAssign (idealIC epochs) s' = some (x, { s' with iterator := some x, pending := none }) ∧
      s.iterator = some x ∧ s.pending = none ∧ s.initForSd = true ∧ s.handle = false

theorem peeked_step {s s' : ISys} (hp : Peeked epochs s.st s'.st) (ht : s.toks = s'.toks) (op : Op)
    (hne : op ≠ Op.peek) :
    (Fac.step (idealIC epochs) ifw s op).1 = (Fac.step (idealIC epochs) ifw s' op).1 ∧
      (Fac.step (idealIC epochs) ifw s op).2.toks = (Fac.step (idealIC epochs) ifw s' op).2.toks ∧
      (Eqv (Fac.step (idealIC epochs) ifw s op).2.st (Fac.step (idealIC epochs) ifw s' op).2.st ∨
        Peeked epochs (Fac.step (idealIC epochs) ifw s op).2.st (Fac.step (idealIC epochs) ifw s' op).2.st) := by
  rcases s with ⟨⟨w, it, pd, fl, hd⟩, tk, n⟩
  rcases s' with ⟨⟨w', it', pd', fl', hd'⟩, tk', n'⟩
  obtain ⟨p1, p2, p3, x, p4, p5, p6, p7, p8⟩ := hp
  simp only at ht p1 p2 p3 p4 p5 p6 p7 p8
  subst ht p1 p2 p3 p5 p6 p7 p8
  cases op with
  | peek => exact absurd rfl hne
  | iter =>
    rcases x with ⟨e, p, (_ | _)⟩ <;> rcases pd' with _ | ⟨pe, pp, pf⟩ <;> rcases w' with _ | g <;>
      simp_all [Fac.step, Fac.iter, Fac.iterSecond, Fac.getAssign, Fac.curWorld, idealIC, Eqv]
  | next => simp [Fac.step, Fac.next, Peeked, p4]
  | stateDict =>
    rcases pd' with _ | ⟨pe, pp, pf⟩ <;> rcases w' with _ | g <;>
      simp_all [Fac.step, Fac.stateDict, Fac.getAssign, Fac.curWorld, idealIC, Eqv]
  | load i =>
    simp only [Fac.step]
    cases hi : tk[i]? with
    | none => exact ⟨rfl, rfl, Or.inr ⟨rfl, rfl, rfl, x, p4, rfl, rfl, rfl, rfl⟩⟩
    | some t => simp [Fac.load, Eqv]
  | abandon => exact ⟨rfl, rfl, Or.inr ⟨rfl, rfl, rfl, x, p4, rfl, rfl, rfl, rfl⟩⟩
  | fresh => exact ⟨rfl, rfl, Or.inl (eqv_refl _)⟩

theorem eqv_peek {s s' : ISys} (he : Eqv s.st s'.st) (ht : s.toks = s'.toks) (hi : IInv s'.st) :
    (Fac.step (idealIC epochs) ifw s .peek).2.toks = s'.toks ∧
      (Eqv (Fac.step (idealIC epochs) ifw s .peek).2.st s'.st ∨
        Peeked epochs (Fac.step (idealIC epochs) ifw s .peek).2.st s'.st) := by
  rcases s with ⟨⟨w, it, pd, fl, hd⟩, tk, n⟩
  rcases s' with ⟨⟨w', it', pd', fl', hd'⟩, tk', n'⟩
  obtain ⟨h1, h2, h3, h4, h5⟩ := he
  obtain ⟨i1, i2, i3⟩ := hi
  simp only at ht h1 h2 h3 h4 h5 i1 i2 i3
  subst ht h1 h2 h3 h4
  rcases it with _ | x
  · rcases pd with _ | ⟨pe, pp, pf⟩ <;> rcases w' with _ | g <;> cases fl <;> cases hd <;>
      simp_all [Fac.step, Fac.stateDict, Fac.getAssign, Fac.curWorld, idealIC, Eqv, Peeked]
  · simp [Fac.step, Fac.stateDict, Eqv]

theorem peeked_peek {s s' : ISys} (hp : Peeked epochs s.st s'.st) (ht : s.toks = s'.toks) :
    (Fac.step (idealIC epochs) ifw s .peek).2.toks = s'.toks ∧
      Peeked epochs (Fac.step (idealIC epochs) ifw s .peek).2.st s'.st := by
  obtain ⟨p1, p2, p3, x, p4, p5, p6, p7, p8⟩ := hp
  simp only [Fac.step, Fac.stateDict, p5]
  exact ⟨ht, p1, p2, p3, x, p4, p5, p6, p7, p8⟩

theorem erasePeek_cons (op : Op) (ops : List Op) (h : op ≠ Op.peek) :
    erasePeek (op :: ops) = op :: erasePeek ops := by
  cases op <;> first | rfl | exact absurd rfl h

theorem obsSkipPeek_cons (s : ISys) (op : Op) (ops : List Op) (h : op ≠ Op.peek) :
    Fac.obsSkipPeek (idealIC epochs) ifw s (op :: ops) =
      (Fac.step (idealIC epochs) ifw s op).1 ::
        Fac.obsSkipPeek (idealIC epochs) ifw (Fac.step (idealIC epochs) ifw s op).2 ops := by
  cases op <;> first | rfl | exact absurd rfl h

/-- **Extra `state_dict()` calls change nothing**: removing all `peek`s from a history leaves every other
observation as it was (ideal class; any history). -/
theorem ideal_transparent_aux : ∀ (ops : List Op) (s s' : ISys), s.toks = s'.toks →
    (Eqv s.st s'.st ∨ Peeked epochs s.st s'.st) → IInv s'.st →
    Fac.obsSkipPeek (idealIC epochs) ifw s ops = Fac.obs (idealIC epochs) ifw s' (erasePeek ops)
  | [], _, _, _, _, _ => rfl
  | op :: ops, s, s', ht, hr, hi => by
    by_cases hop : op = Op.peek
    · subst hop
      show Fac.obsSkipPeek (idealIC epochs) ifw (Fac.step (idealIC epochs) ifw s .peek).2 ops =
        Fac.obs (idealIC epochs) ifw s' (erasePeek ops)
      rcases hr with he | hp
      · obtain ⟨t1, r1⟩ := eqv_peek epochs he ht hi
        exact ideal_transparent_aux ops _ s' t1 r1 hi
      · obtain ⟨t1, r1⟩ := peeked_peek epochs hp ht
        exact ideal_transparent_aux ops _ s' t1 (Or.inr r1) hi
    · rw [erasePeek_cons op ops hop, obsSkipPeek_cons epochs s op ops hop]
      simp only [Fac.obs]
      have hi' := iinv_step epochs s' hi op
      rcases hr with he | hp
      · obtain ⟨o1, e1, t1⟩ := step_eqv epochs (show SEqv s s' from ⟨he, ht⟩) op
        rw [o1, ideal_transparent_aux ops _ _ t1 (Or.inl e1) hi']
      · obtain ⟨o1, t1, r1⟩ := peeked_step epochs hp ht op hop
        rw [o1, ideal_transparent_aux ops _ _ t1 r1 hi']

end transparent

/-! ## `for` loops, epoch by epoch (ideal level) -/
section loops
variable (epochs : Nat → List Item)

def outs (l : List Item) : List Obs := l.map fun v => Obs.out (.item v)

/-- `for b in loader:` over an epoch of `n` batches: `iter()`, `n` successful `next()` calls, `StopIteration`. -/
def forLoop (n : Nat) : List Op := .iter :: List.replicate (n + 1) .next

/-- What such a loop observes. -/
def forObs (l : List Item) : List Obs := .ok :: outs l ++ [.out .stop]

/-- `E` loops, over the epochs `g, g+1, …`. -/
def forLoops (g : Nat) : Nat → List Op
  | 0 => []
  | E + 1 => forLoop (epochs g).length ++ forLoops (g + 1) E

def forObss (g : Nat) : Nat → List Obs
  | 0 => []
  | E + 1 => forObs (epochs g) ++ forObss (g + 1) E

/-- The user is iterating and the iterator is at `(e, p, f)`. -/
def At (s : ISys) (e p : Nat) (f : Bool) : Prop :=
  s.st.iterator = some ⟨e, p, f⟩ ∧ s.st.pending = none ∧ s.st.initForSd = false ∧ s.st.handle = true

theorem at_iterating {s : ISys} {e p : Nat} {f : Bool} (h : At s e p f) : Iterating s.st :=
  ⟨by rw [h.1]; rfl, h.2.1, h.2.2.1, h.2.2.2⟩

theorem ideal_nexts : ∀ (m : Nat) (s : ISys) (e p : Nat), At s e p false → p + m ≤ (epochs e).length →
    Fac.obs (idealIC epochs) ifw s (List.replicate m .next) = outs (((epochs e).drop p).take m) ∧
      At (Fac.exec (idealIC epochs) ifw s (List.replicate m .next)) e (p + m) false ∧
      (Fac.exec (idealIC epochs) ifw s (List.replicate m .next)).toks = s.toks ∧
      wellUsed epochs s (List.replicate m .next) = true
  | 0, s, e, p, h, _ => ⟨by simp [Fac.obs, outs], h, rfl, rfl⟩
  | m + 1, s, e, p, h, hle => by
    obtain ⟨h1, h2, h3, h4⟩ := h
    have hlt : p < (epochs e).length := by omega
    have hget : (epochs e)[p]? = some (epochs e)[p] := List.getElem?_eq_getElem hlt
    have hstep : Fac.step (idealIC epochs) ifw s .next =
        (.out (.item (epochs e)[p]), ⟨{ s.st with iterator := some ⟨e, p + 1, false⟩ }, s.toks, s.nf⟩) := by
      simp [Fac.step, Fac.next, h1, h4, idealIC, SDLApi.itNext, hget]
    have hat : At (Fac.step (idealIC epochs) ifw s .next).2 e (p + 1) false := by
      rw [hstep]; exact ⟨rfl, h2, h3, h4⟩
    obtain ⟨i1, i2, i3, i4⟩ := ideal_nexts m _ e (p + 1) hat (by omega)
    have hok : okStep s .next = true := by simp [okStep, h1, itDone]
    refine ⟨?_, ?_, ?_, ?_⟩
    · simp only [List.replicate_succ, Fac.obs]
      rw [i1, hstep]
      simp only [outs]
      rw [List.drop_eq_getElem_cons hlt, List.take_succ_cons, List.map_cons]
    · simp only [List.replicate_succ, Fac.exec]
      have : p + (m + 1) = p + 1 + m := by omega
      rw [this]; exact i2
    · simp only [List.replicate_succ, Fac.exec]
      rw [i3, hstep]
    · simp only [List.replicate_succ, wellUsed, hok, i4, Bool.and_self]

/-- The rest of the epoch from position `p`, and its `StopIteration`. -/
theorem ideal_rest (s : ISys) (e p : Nat) (h : At s e p false) (hp : p ≤ (epochs e).length) :
    Fac.obs (idealIC epochs) ifw s (List.replicate ((epochs e).length - p + 1) .next) =
        outs ((epochs e).drop p) ++ [.out .stop] ∧
      At (Fac.exec (idealIC epochs) ifw s (List.replicate ((epochs e).length - p + 1) .next)) e
        (epochs e).length true ∧
      (Fac.exec (idealIC epochs) ifw s (List.replicate ((epochs e).length - p + 1) .next)).toks = s.toks ∧
      wellUsed epochs s (List.replicate ((epochs e).length - p + 1) .next) = true := by
  obtain ⟨i1, i2, i3, i4⟩ := ideal_nexts epochs ((epochs e).length - p) s e p h (by omega)
  have hpm : p + ((epochs e).length - p) = (epochs e).length := by omega
  rw [hpm] at i2
  obtain ⟨h1, h2, h3, h4⟩ := i2
  have hsplit : List.replicate ((epochs e).length - p + 1) Op.next =
      List.replicate ((epochs e).length - p) Op.next ++ [Op.next] := by
    rw [List.replicate_succ']
  generalize hs1 : Fac.exec (idealIC epochs) ifw s (List.replicate ((epochs e).length - p) .next) = s1 at *
  have hstep : Fac.step (idealIC epochs) ifw s1 .next =
      (.out .stop, ⟨{ s1.st with iterator := some ⟨e, (epochs e).length, true⟩ }, s1.toks, s1.nf⟩) := by
    simp [Fac.step, Fac.next, h1, h4, idealIC, SDLApi.itNext]
  have htake : ((epochs e).drop p).take ((epochs e).length - p) = (epochs e).drop p := by
    apply List.take_of_length_le
    simp
  refine ⟨?_, ?_, ?_, ?_⟩
  · rw [hsplit, obs_append, i1, hs1, htake]
    simp only [Fac.obs, hstep]
  · rw [hsplit, exec_append, hs1]
    simp only [Fac.exec, hstep]
    exact ⟨rfl, h2, h3, h4⟩
  · rw [hsplit, exec_append, hs1]
    simp only [Fac.exec, hstep]
    exact i3
  · rw [hsplit, wellUsed_append, i4, hs1]
    simp [wellUsed, okStep, h1, itDone]

/-- `iter()` once the previous loop has ended: a new iterator over the next stream. -/
theorem ideal_iter_next (s : ISys) (e p : Nat) (h : At s e p true) :
    Fac.obs (idealIC epochs) ifw s [.iter] = [.ok] ∧
      At (Fac.exec (idealIC epochs) ifw s [.iter]) (e + 1) 0 false ∧
      (Fac.exec (idealIC epochs) ifw s [.iter]).toks = s.toks ∧ wellUsed epochs s [.iter] = true := by
  obtain ⟨h1, h2, h3, h4⟩ := h
  rcases s with ⟨⟨w, it, pd, fl, hd⟩, tk, n⟩
  simp only at h1 h2 h3 h4
  subst h1 h2 h3 h4
  simp [Fac.obs, Fac.exec, Fac.step, Fac.iter, Fac.iterSecond, Fac.getAssign, Fac.curWorld, idealIC, At,
    wellUsed, okStep, mkOk, itDone, iWorld]

/-- The first `iter()` of a loader whose objects are at stream `g`. -/
theorem ideal_iter_first (g : Nat) (tk : List It) (n : Nat) :
    Fac.obs (idealIC epochs) ifw ⟨FState.init (some g), tk, n⟩ [.iter] = [.ok] ∧
      At (Fac.exec (idealIC epochs) ifw ⟨FState.init (some g), tk, n⟩ [.iter]) g 0 false ∧
      (Fac.exec (idealIC epochs) ifw ⟨FState.init (some g), tk, n⟩ [.iter]).toks = tk ∧
      wellUsed epochs ⟨FState.init (some g), tk, n⟩ [.iter] = true := by
  simp [Fac.obs, Fac.exec, Fac.step, Fac.iter, Fac.iterSecond, Fac.getAssign, Fac.curWorld, idealIC, At,
    wellUsed, okStep, mkOk, itDone, iWorld, FState.init]

/-- One complete `for` loop from a state where `iter()` starts stream `g`. -/
theorem ideal_forLoop (s : ISys) (g : Nat)
    (hiter : Fac.obs (idealIC epochs) ifw s [.iter] = [.ok] ∧
      At (Fac.exec (idealIC epochs) ifw s [.iter]) g 0 false ∧
      (Fac.exec (idealIC epochs) ifw s [.iter]).toks = s.toks ∧ wellUsed epochs s [.iter] = true) :
    Fac.obs (idealIC epochs) ifw s (forLoop (epochs g).length) = forObs (epochs g) ∧
      At (Fac.exec (idealIC epochs) ifw s (forLoop (epochs g).length)) g (epochs g).length true ∧
      (Fac.exec (idealIC epochs) ifw s (forLoop (epochs g).length)).toks = s.toks ∧
      wellUsed epochs s (forLoop (epochs g).length) = true := by
  obtain ⟨a1, a2, a3, a4⟩ := hiter
  obtain ⟨b1, b2, b3, b4⟩ := ideal_rest epochs _ g 0 a2 (Nat.zero_le _)
  have hsplit : forLoop (epochs g).length = [.iter] ++ List.replicate ((epochs g).length - 0 + 1) .next := by
    simp [forLoop]
  rw [hsplit]
  refine ⟨?_, ?_, ?_, ?_⟩
  · rw [obs_append, a1, b1]; simp [forObs]
  · rw [exec_append]; exact b2
  · rw [exec_append, b3, a3]
  · rw [wellUsed_append, a4, b4]; rfl

/-- `E` complete loops after a loop that has ended in epoch `e`. -/
theorem ideal_forLoops : ∀ (E : Nat) (s : ISys) (e p : Nat), At s e p true →
    Fac.obs (idealIC epochs) ifw s (forLoops epochs (e + 1) E) = forObss epochs (e + 1) E ∧
      (Fac.exec (idealIC epochs) ifw s (forLoops epochs (e + 1) E)).toks = s.toks ∧
      wellUsed epochs s (forLoops epochs (e + 1) E) = true
  | 0, _, _, _, _ => ⟨rfl, rfl, rfl⟩
  | E + 1, s, e, p, h => by
    obtain ⟨a1, a2, a3, a4⟩ := ideal_forLoop epochs s (e + 1) (ideal_iter_next epochs s e p h)
    obtain ⟨b1, b2, b3⟩ := ideal_forLoops E _ (e + 1) _ a2
    simp only [forLoops, forObss]
    refine ⟨?_, ?_, ?_⟩
    · rw [obs_append, a1, b1]
    · rw [exec_append, b2, a3]
    · rw [wellUsed_append, a4, b3]; rfl

/-- `E` complete loops and the `iter()` of the next one. -/
theorem ideal_forLoops_iter : ∀ (E : Nat) (s : ISys) (e p : Nat), At s e p true →
    Fac.obs (idealIC epochs) ifw s (forLoops epochs (e + 1) E ++ [.iter]) = forObss epochs (e + 1) E ++ [.ok] ∧
      At (Fac.exec (idealIC epochs) ifw s (forLoops epochs (e + 1) E ++ [.iter])) (e + 1 + E) 0 false ∧
      (Fac.exec (idealIC epochs) ifw s (forLoops epochs (e + 1) E ++ [.iter])).toks = s.toks ∧
      wellUsed epochs s (forLoops epochs (e + 1) E ++ [.iter]) = true
  | 0, s, e, p, h => ideal_iter_next epochs s e p h
  | E + 1, s, e, p, h => by
    obtain ⟨a1, a2, a3, a4⟩ := ideal_forLoop epochs s (e + 1) (ideal_iter_next epochs s e p h)
    obtain ⟨b1, b2, b3, b4⟩ := ideal_forLoops_iter E _ (e + 1) _ a2
    simp only [forLoops, forObss, List.append_assoc]
    refine ⟨?_, ?_, ?_, ?_⟩
    · rw [obs_append, a1, b1]
    · rw [exec_append]
      have : e + 1 + (E + 1) = e + 1 + 1 + E := by omega
      rw [this]; exact b2
    · rw [exec_append, b3, a3]
    · rw [wellUsed_append, a4, b4]; rfl

/-- A new loader over objects at stream 0: `E` complete loops and the `iter()` of the next one. -/
theorem ideal_init_iter (E : Nat) :
    Fac.obs (idealIC epochs) ifw (Sys.init (some 0)) (forLoops epochs 0 E ++ [.iter]) = forObss epochs 0 E ++ [.ok] ∧
      At (Fac.exec (idealIC epochs) ifw (Sys.init (some 0)) (forLoops epochs 0 E ++ [.iter])) E 0 false ∧
      (Fac.exec (idealIC epochs) ifw (Sys.init (some 0)) (forLoops epochs 0 E ++ [.iter])).toks = [] ∧
      wellUsed epochs (Sys.init (some 0)) (forLoops epochs 0 E ++ [.iter]) = true := by
  cases E with
  | zero => exact ideal_iter_first epochs 0 [] 0
  | succ E =>
    obtain ⟨a1, a2, a3, a4⟩ := ideal_forLoop epochs (Sys.init (some 0)) 0 (ideal_iter_first epochs 0 [] 0)
    obtain ⟨b1, b2, b3, b4⟩ := ideal_forLoops_iter epochs E _ 0 _ a2
    simp only [forLoops, forObss, List.append_assoc]
    refine ⟨?_, ?_, ?_, ?_⟩
    · rw [obs_append, a1, b1]
    · rw [exec_append]
      have : E + 1 = 0 + 1 + E := by omega
      rw [this]; exact b2
    · rw [exec_append, b3, a3]; rfl
    · rw [wellUsed_append, a4, b4]; rfl

/-- `e` complete epochs, then `k` batches of epoch `e`. -/
def prefixOps (e k : Nat) : List Op := forLoops epochs 0 e ++ [.iter] ++ List.replicate k .next

theorem ideal_prefix (e k : Nat) (hk : k ≤ (epochs e).length) :
    Fac.obs (idealIC epochs) ifw (Sys.init (some 0)) (prefixOps epochs e k) =
        forObss epochs 0 e ++ [.ok] ++ outs ((epochs e).take k) ∧
      At (Fac.exec (idealIC epochs) ifw (Sys.init (some 0)) (prefixOps epochs e k)) e k false ∧
      (Fac.exec (idealIC epochs) ifw (Sys.init (some 0)) (prefixOps epochs e k)).toks = [] ∧
      wellUsed epochs (Sys.init (some 0)) (prefixOps epochs e k) = true := by
  obtain ⟨a1, a2, a3, a4⟩ := ideal_init_iter epochs e
  obtain ⟨b1, b2, b3, b4⟩ := ideal_nexts epochs k _ e 0 a2 (by omega)
  unfold prefixOps
  refine ⟨?_, ?_, ?_, ?_⟩
  · rw [obs_append, a1, b1]; simp
  · rw [exec_append]; simpa using b2
  · rw [exec_append, b3, a3]
  · rw [wellUsed_append, a4, b4]; rfl

/-- The rest of epoch `e` from position `k`, then `E` further complete epochs. -/
def restOps (e k E : Nat) : List Op :=
  List.replicate ((epochs e).length - k + 1) .next ++ forLoops epochs (e + 1) E

def restObs (e k E : Nat) : List Obs :=
  outs ((epochs e).drop k) ++ [.out .stop] ++ forObss epochs (e + 1) E

theorem ideal_restOps (s : ISys) (e k E : Nat) (h : At s e k false) (hk : k ≤ (epochs e).length) :
    Fac.obs (idealIC epochs) ifw s (restOps epochs e k E) = restObs epochs e k E ∧
      wellUsed epochs s (restOps epochs e k E) = true := by
  obtain ⟨a1, a2, _, a4⟩ := ideal_rest epochs s e k h hk
  obtain ⟨b1, _, b3⟩ := ideal_forLoops epochs E _ e _ a2
  unfold restOps restObs
  exact ⟨by rw [obs_append, a1, b1], by rw [wellUsed_append, a4, b3]; rfl⟩

/-- `state_dict()` while iterating leaves the loader where it is. -/
theorem at_stateDict (s : ISys) (e p : Nat) (f : Bool) (h : At s e p f) :
    At (Fac.exec (idealIC epochs) ifw s [.stateDict]) e p f := by
  obtain ⟨h1, h2, h3, h4⟩ := h
  rcases s with ⟨⟨w, it, pd, fl, hd⟩, tk, n⟩
  simp only at h1 h2 h3 h4
  subst h1 h2 h3 h4
  simp [Fac.exec, Fac.step, Fac.stateDict, idealIC, At]

end loops

end TDV.E2E
