import TorchDataVerif.Model.Loader
/-!
The concrete source `srcNode` / `epochSrc` satisfies the hypotheses of the Loader theorems
(non-vacuity of `Lawful`, `NoError`, `DeliversEpochs`).
-/
namespace TDV.Loader
open TDV.Node

section
variable (outsOf : Nat → List Out)

/-- `_started` is the ghost bit. -/
theorem src_started (r : Run (srcNode outsOf)) (h : Node.Reach (srcNode outsOf) r) :
    r.st.started = r.nexted := by
  induction h with
  | initNone => rfl
  | initSome _ _ => rfl
  | @next r _ _ =>
    show ((srcNode outsOf).next r.st).2.started = true
    simp only [srcNode]
    split <;> rfl
  | get _ ih => exact ih
  | resetNone _ _ => rfl
  | resetSome _ _ _ _ => rfl

def SrcR (a b : Run (srcNode outsOf)) : Prop :=
  a.st.e = b.st.e ∧ a.st.p = b.st.p ∧ a.st.started = a.nexted ∧ b.st.started = b.nexted

theorem src_bisim : Bisim (srcNode outsOf) (srcNode outsOf) (SrcR outsOf) (fun x y => x = y) := by
  refine ⟨?_, ?_, ?_, ?_⟩
  · intro a b ⟨he, hp, _, _⟩
    simp only [Node.rnext, srcNode, SrcR, he, hp]
    cases (outsOf b.st.e)[b.st.p]? <;> simp
  · intro a b ⟨he, hp, ha, hb⟩
    exact ⟨by simp [Node.rget, srcNode, he, hp], he, hp, ha, hb⟩
  · intro a b ⟨he, hp, ha, hb⟩ hna hnb
    simp only [Node.rreset, srcNode, SrcR, ha, hb, hna, hnb, he]
    simp
  · intro a b x y _ hxy
    subst hxy
    obtain ⟨e, p⟩ := x
    simp [Node.rreset, srcNode, SrcR]

theorem src_lawful : Lawful (srcNode outsOf) := by
  refine ⟨SrcR outsOf, fun x y => x = y, src_bisim outsOf, ?_, ?_, ?_, ?_⟩
  · intro s hs
    exact ⟨rfl, rfl, src_started outsOf s hs, src_started outsOf s hs⟩
  · intro s hs
    exact ⟨rfl, rfl, src_started outsOf s hs, src_started outsOf s hs⟩
  · intro s r hs _
    exact ⟨rfl, rfl, rfl, src_started outsOf s hs⟩
  · intro s hs
    exact ⟨rfl, rfl, rfl, src_started outsOf s hs⟩

end

section
variable (epochs : Nat → List Item)

theorem epochSrc_noError : NoError (epochSrc epochs) := by
  intro r _ e
  simp only [Node.rnext, epochSrc, srcNode, List.getElem?_map]
  cases (epochs r.st.e)[r.st.p]? <;> simp

theorem epochSrc_outs (k : Nat) (r : Run (epochSrc epochs)) :
    (epochSrc epochs).outs k r = strm (epochs r.st.e) r.st.p k := by
  induction k generalizing r with
  | zero => rfl
  | succ k ih =>
    simp only [Node.outs, strm]
    rw [ih]
    simp only [Node.rnext, epochSrc, srcNode, List.getElem?_map]
    cases h : (epochs r.st.e)[r.st.p]? with
    | none =>
      have : ¬ r.st.p < (epochs r.st.e).length := by
        intro hlt
        simp [List.getElem?_eq_getElem hlt] at h
      simp [this]
    | some v =>
      have : r.st.p < (epochs r.st.e).length := by
        rcases Nat.lt_or_ge r.st.p (epochs r.st.e).length with hlt | hge
        · exact hlt
        · simp [List.getElem?_eq_none hge] at h
      simp [this]

theorem epochSrc_delivers : DeliversEpochs (epochSrc epochs) epochs := by
  refine ⟨fun r e => r.st.e = e ∧ r.st.started = r.nexted, ⟨rfl, rfl⟩, ?_, ?_, ?_, ?_, ?_, ?_, ?_⟩
  · intro r e _ ⟨he, _⟩
    simp only [Node.rnext, epochSrc, srcNode]
    cases ((epochs r.st.e).map Out.item)[r.st.p]? <;> exact ⟨he, rfl⟩
  · intro r e _ h
    exact h
  · intro r e _ ⟨he, hs⟩
    refine ⟨?_, rfl⟩
    simp only [Node.rreset, epochSrc, srcNode, hs, he]
  · intro r s e _ _ ⟨he, _⟩
    exact ⟨he, rfl⟩
  · intro s e _ ⟨he, _⟩
    exact ⟨he, rfl⟩
  · intro k
    exact epochSrc_outs epochs k _
  · intro r e k _ ⟨he, hs⟩
    rw [epochSrc_outs]
    simp only [Node.rreset, epochSrc, srcNode, hs, he]

end
end TDV.Loader

/-! ### Support for concrete witnesses: observations as numbers (items are atoms in the witnesses) -/
namespace TDV.Loader
open TDV.Node

def Obs.code : Obs → Nat
  | .ok => 0
  | .tok => 1
  | .skip => 2
  | .err _ => 3
  | .out .stop => 4
  | .out (.error _) => 5
  | .out (.item (.atom n)) => 10 + n
  | .out (.item _) => 6

/-- Epoch `e` is the one-item list `[e]`. -/
def epochIs : Nat → List Item := fun e => [Item.atom e]

/-- Every epoch is `[0, 1, 2, 3]`. -/
def four : Nat → List Item := fun _ => [Item.atom 0, Item.atom 1, Item.atom 2, Item.atom 3]

end TDV.Loader
