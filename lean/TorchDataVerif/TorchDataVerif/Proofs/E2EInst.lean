import TorchDataVerif.Proofs.E2ESP
import TorchDataVerif.Proofs.E2ESPIter
import TorchDataVerif.Proofs.E2EThm
/-!
# E2E, part 5 — concrete configurations for the non-vacuity examples
-/
namespace TDV.E2E
open TDV.Node
open TDV.Loader (Obs Op)
open TDV.SDLApi (It)
open TDV.Sampler

/-- Readable encoding of an observation (examples only): `[0]` ok, `[1]` token, `[2]` skip, `[3, e]` façade
error, `[4]` StopIteration, `[5, e]` exception, `10 :: items` a batch, `[11, v]` a single item. -/
def flat : Obs → List Nat
  | .ok => [0]
  | .tok => [1]
  | .skip => [2]
  | .err e => [3, e]
  | .out .stop => [4]
  | .out (.error e) => [5, e]
  | .out (.item (.list xs)) => 10 :: xs.map fun
      | .atom n => n
      | _ => 0
  | .out (.item (.atom n)) => [11, n]
  | .out (.item .none) => [12]

/-! ### Map-style dataset of 5, `batch_size=2`, sequential sampler -/
namespace Seq5

def order : List Nat := [0, 1, 2, 3, 4]
abbrev S := SP.batchSrc plainNested ⟨2, false⟩ id
abbrev Da := SP.mapData (fun i => some i) false
def c : SP.Cfg := ⟨false, fun _ => false⟩
/-- The `BatchSampler`/sampler objects before epoch `g`. -/
def wS (g : Nat) : BIter (List Nat × List Nat) := { w := (order, []), samplesYielded := if g = 0 then 0 else 5 }
def ixs : Nat → List SP.Idx := fun _ => [.many [0, 1], .many [2, 3], .many [4]]
def fw : Nat → BIter (List Nat × List Nat) × Nat := fun _ => (wS 0, 0)
abbrev epochs := epochsMap id ixs

theorem hyp : MapHyp S Da c id (fun b b' => b.w.1 = b'.w.1) wS ixs where
  law := SP.idxLaw_batch_plain ⟨2, false⟩ (by decide)
  isMap := rfl
  get := fun _ _ => rfl
  collate := fun _ => rfl
  run := by
    intro g
    have h : S.seed (S.iter (wS g)) = { w := (order, order), samplesYielded := 0 } := rfl
    rw [h]
    have h2 : wS (g + 1) = { w := (order, []), samplesYielded := 5 } := by simp [wS]
    rw [h2]
    exact ⟨rfl, rfl, rfl, rfl⟩
  same := fun _ _ => rfl

end Seq5

/-! ### `RandomSampler` (generator not the loader's): the epochs differ, and the hypotheses are satisfiable -/

/-- For every generator, every `RandomSampler` configuration that never draws an empty permutation, every
map-style dataset `idx ↦ f idx`: there are epoch worlds `wS` and epoch index streams `ixs` (the permutation
drawn at each `iter()`) satisfying `MapHyp`, starting from any sampler/generator state `w0`. -/
theorem mapHyp_random {G D Ds Dt : Type} (R : Gen G) (rc : RCfg) (draw : G → G)
    (hne : ∀ g, (getPerm R rc g).1 ≠ []) (Da : SP.Data D Ds Dt) (c : SP.Cfg) (f : Nat → Nat)
    (hmap : Da.iterable = false) (hget : ∀ d i, (Da.get d i).1 = some (f i))
    (hcf : ∀ v, c.collateFail v = false) (w0 : RIter G × G) :
    ∃ (wS : Nat → RIter G × G) (ixs : Nat → List SP.Idx), wS 0 = w0 ∧
      (∀ g, ixs g = (RIter.epoch R rc (wS g).2).1.map .one) ∧
      MapHyp (SP.bareSrc (randomNested R rc) false (SP.randSeed draw false)) Da c f (fun _ _ => True) wS ixs := by
  have step : ∀ w : RIter G × G, ∃ w', SP.IRun (SP.bareSrc (randomNested R rc) false (SP.randSeed draw false)).next
      ((SP.bareSrc (randomNested R rc) false (SP.randSeed draw false)).seed
        ((SP.bareSrc (randomNested R rc) false (SP.randSeed draw false)).iter w))
      ((RIter.epoch R rc w.2).1.map .one) w' := by
    intro w
    have hem := SP.sampler_orders.2.2 R rc w hne
    have hs : (SP.bareSrc (randomNested R rc) false (SP.randSeed draw false)).seed
        ((SP.bareSrc (randomNested R rc) false (SP.randSeed draw false)).iter w) = (randomNested R rc).iter w := by
      simp [SP.bareSrc, SP.randSeed]
    rw [hs]
    exact SP.irun_bare (randomNested R rc) false (SP.randSeed draw false) _ _ hem
  let wS : Nat → RIter G × G := fun g => Nat.rec w0 (fun _ w => Classical.choose (step w)) g
  refine ⟨wS, fun g => (RIter.epoch R rc (wS g).2).1.map .one, rfl, fun _ => rfl, ?_⟩
  exact {
    law := SP.idxLaw_bare_random R rc draw hne
    isMap := hmap
    get := hget
    collate := hcf
    run := fun g => Classical.choose_spec (step (wS g))
    same := fun _ _ => trivial }

/-! ### `RandomSampler` over 3 indices, `batch_size=None`; permutations = rotations by the generator state -/
namespace Rand3

def R : Gen Nat :=
  { perm := fun g n => ((List.range n).map (fun i => (i + g) % n), g + 1), ints := fun g _ _ => ([], g) }
def rc : RCfg := { n := 3, replacement := false, numSamples := 3 }
abbrev S := SP.bareSrc (randomNested R rc) false (SP.randSeed (fun g => g + 1) false)
abbrev Da := SP.mapData (fun i => some i) false
def c : SP.Cfg := ⟨false, fun _ => false⟩
/-- The original loader's generator is in state 0, that of every newly built loader in state 9. -/
def w0 : (RIter Nat × Nat) × Nat := ((⟨0, 0, [], 0⟩, 0), 0)
def fw : Nat → (RIter Nat × Nat) × Nat := fun _ => ((⟨0, 0, [], 0⟩, 9), 0)

end Rand3

/-! ### The README's iterable dataset (5 items, dataset-level `state_dict`), `batch_size=2` -/
namespace Readme5

abbrev S := SP.batchSrc SP.infNested ⟨2, false⟩ id
abbrev Da := SP.readme 5 fun _ => false
def c : SP.Cfg := ⟨false, fun _ => false⟩
def stream : List SP.Obs := (chunkRef 2 c.dropLast (List.range 5)).map .batch
def d0 : SP.Readme := { i := 0, fr := .dead, idx := 0 }
def w0 : BIter Unit × SP.Readme := ({ w := (), samplesYielded := 0 }, d0)
def fw : Nat → BIter Unit × SP.Readme := fun _ => w0
abbrev epochs := epochsIter stream

theorem hyp : IterHyp S Da c (SP.readmeLaw 5) (sh := .many 2) stream :=
  iterHyp_batch S Da c (SP.readmeLaw 5) 2 (by decide) (SP.infSrc_batch ⟨2, false⟩ (by decide)) rfl (fun _ => rfl)

end Readme5

/-! ### A plain generator dataset (5 items, no state anywhere): resume by fast-forward -/
namespace Plain5

abbrev S := SP.batchSrc SP.infNested ⟨2, false⟩ id
abbrev Da := SP.plainGen 5 fun _ => false
def c : SP.Cfg := ⟨false, fun _ => false⟩
def stream : List SP.Obs := (chunkRef 2 c.dropLast (List.range 5)).map .batch
def w0 : BIter Unit × (SP.Frame × Nat) := ({ w := (), samplesYielded := 0 }, (.dead, 0))
def fw : Nat → BIter Unit × (SP.Frame × Nat) := fun _ => w0
abbrev epochs := epochsIter stream

theorem hyp : IterHyp S Da c (SP.plainLaw 5) (sh := .many 2) stream :=
  iterHyp_batch S Da c (SP.plainLaw 5) 2 (by decide) (SP.infSrc_batch ⟨2, false⟩ (by decide)) rfl (fun _ => rfl)

end Plain5

end TDV.E2E
