import TorchDataVerif.Proofs.MPMap
/-!
# MP, map-style, in-order: the snapshot machinery (`_main_snapshots`, `_take_snapshot`, `snapshot_step`)
-/
namespace TDV.MP

/-- Task `i` is dispatched with `snapshot_main` (map-style: `_sampler_iter_yielded % interval == 0`
right after drawing its index, i.e. `(i + 1) % interval = 0`). -/
def mflag (c : Cfg) (i : Nat) : Bool := decide (c.interval ≠ 0 ∧ (i + 1) % c.interval = 0)

/-- The `_main_snapshots` entries of tasks `lo, …, lo + n - 1`. -/
def snapListN (c : Cfg) : Nat → Nat → List (Nat × Nat)
  | _, 0 => []
  | lo, n + 1 => (if mflag c lo then [(lo, lo + 1)] else []) ++ snapListN c (lo + 1) n

def lastFlag (c : Cfg) : Nat → Nat → Option (Nat × Nat) → Option (Nat × Nat)
  | _, 0, last => last
  | lo, k + 1, last => lastFlag c (lo + 1) k (if mflag c lo then some (lo, lo + 1) else last)

def errFree (c : Cfg) : Prop := ∀ it ∈ c.batches, it ≠ Item.err

theorem flags_map (c : Cfg) (hm : c.iterable = false) (i ny : Nat) : (flags c (i + 1) ny).1 = mflag c i := by
  unfold flags mflag
  by_cases h0 : c.interval = 0
  · simp [h0]
  · simp [h0, hm]

theorem snapListN_snoc (c : Cfg) (lo n : Nat) :
    snapListN c lo (n + 1) = snapListN c lo n ++ (if mflag c (lo + n) then [(lo + n, lo + n + 1)] else []) := by
  induction n generalizing lo with
  | zero => simp [snapListN]
  | succ n ih =>
    rw [snapListN, ih (lo + 1), snapListN]
    simp [Nat.add_assoc, Nat.add_comm 1 n, List.append_assoc]

theorem snapListN_ge (c : Cfg) (lo n : Nat) : ∀ e ∈ snapListN c lo n, lo ≤ e.1 := by
  induction n generalizing lo with
  | zero => simp [snapListN]
  | succ n ih =>
    intro e he
    simp only [snapListN, List.mem_append] at he
    rcases he with he | he
    · split at he
      · simp at he; subst he; exact Nat.le_refl _
      · cases he
    · have := ih (lo + 1) e he; omega

theorem popSnaps_ge (r : Nat) (l : List (Nat × Nat)) (last : Option (Nat × Nat))
    (h : ∀ e ∈ l, r ≤ e.1) : popSnaps r l last = (last, l) := by
  cases l with
  | nil => rfl
  | cons e l =>
    have := h e (List.mem_cons_self ..)
    simp [popSnaps]; omega

theorem popSnaps_snapListN (c : Cfg) (r lo n : Nat) (last : Option (Nat × Nat)) (h1 : lo ≤ r) (h2 : r ≤ lo + n) :
    popSnaps r (snapListN c lo n) last = (lastFlag c lo (r - lo) last, snapListN c r (lo + n - r)) := by
  induction n generalizing lo last with
  | zero =>
    have : r = lo := by omega
    subst this
    simp [snapListN, popSnaps, lastFlag]
  | succ n ih =>
    by_cases hlt : lo < r
    · obtain ⟨k, hk⟩ : ∃ k, r - lo = k + 1 := ⟨r - lo - 1, by omega⟩
      have ih' := fun last => ih (lo + 1) last (by omega) (by omega)
      have e1 : r - (lo + 1) = k := by omega
      have e2 : lo + 1 + n - r = lo + (n + 1) - r := by omega
      rw [hk, lastFlag, snapListN]
      by_cases hf : mflag c lo = true
      · simp only [hf, if_true, List.singleton_append, popSnaps]
        have : lo + 1 ≤ r := by omega
        simp only [this, if_true]
        rw [ih', e1, e2]
      · simp only [hf, if_false, List.nil_append, Bool.false_eq_true]
        rw [ih', e1, e2]
    · have : r = lo := by omega
      subst this
      rw [popSnaps_ge r _ last (snapListN_ge c r (n + 1))]
      simp [lastFlag]

theorem lastFlag_snoc (c : Cfg) (lo k : Nat) (last : Option (Nat × Nat)) :
    lastFlag c lo (k + 1) last = if mflag c (lo + k) then some (lo + k, lo + k + 1) else lastFlag c lo k last := by
  induction k generalizing lo last with
  | zero => simp [lastFlag]
  | succ k ih =>
    rw [lastFlag, ih (lo + 1), lastFlag]
    simp [Nat.add_assoc, Nat.add_comm 1 k]

theorem lastFlag_spec (c : Cfg) (lo k : Nat) (last e : Option (Nat × Nat))
    (h : lastFlag c lo k last = e) :
    e = last ∨ ∃ j, e = some (j, j + 1) ∧ mflag c j = true ∧ lo ≤ j ∧ j < lo + k := by
  induction k generalizing e with
  | zero => left; simp [lastFlag] at h; exact h.symm
  | succ k ih =>
    rw [lastFlag_snoc] at h
    split at h
    · right; exact ⟨lo + k, h.symm, by assumption, by omega, by omega⟩
    · rcases ih e h with h' | ⟨j, h1, h2, h3, h4⟩
      · exact Or.inl h'
      · exact Or.inr ⟨j, h1, h2, h3, by omega⟩

/-- The three outcomes of yielding task `t` (already popped: `rcvd_idx = t + 1`). -/
inductive YieldCase (c : Cfg) (s : State) (r : Res) (b t : Nat) (s' : State) (o : Obs) : Prop where
  | plain (hno : ¬(c.interval ≠ 0 ∧ (s.numYielded + 1) % c.interval = 0)) (ho : o = .item b)
      (hny : s'.numYielded = s.numYielded + 1) (hms : s'.mainSnaps = s.mainSnaps) (hsn : s'.snap = s.snap)
  | snap (hI : c.interval ≠ 0) (hdue : (s.numYielded + 1) % c.interval = 0) (hf : mflag c t = true)
      (ho : o = .item b) (hny : s'.numYielded = s.numYielded + 1)
      (hms : s'.mainSnaps = snapListN c (t + 1) (s.sendIdx - (t + 1)))
      (hsn : s'.snap = ⟨s.numYielded + 1, r.w, t + 1, applyDelta s.wsnaps r.w r.st⟩)
  | fail (hI : c.interval ≠ 0) (hdue : (s.numYielded + 1) % c.interval = 0) (hf : mflag c t = false)
      (ho : o = .assertion) (hny : s'.numYielded = s.numYielded)
      (hms : s'.mainSnaps = snapListN c (t + 1) (s.sendIdx - (t + 1))) (hsn : s'.snap = s.snap)

theorem yieldItem_cases (c : Cfg) (s : State) (r : Res) (b t lo : Nat) (hio : c.inOrder = true)
    (hms : s.mainSnaps = snapListN c lo (s.sendIdx - lo)) (hlo : lo ≤ t) (hr : s.rcvdIdx = t + 1)
    (hts : t + 1 ≤ s.sendIdx) :
    YieldCase c s r b t (yieldItem c s r b).1 (yieldItem c s r b).2 := by
  unfold yieldItem
  dsimp only
  by_cases hdue : c.interval ≠ 0 ∧ (s.numYielded + 1) % c.interval = 0
  · simp only [hdue, and_self, if_true, ne_eq, not_false_eq_true]
    have hpop : popSnaps (t + 1) (snapListN c lo (s.sendIdx - lo)) none =
        (lastFlag c lo (t + 1 - lo) none, snapListN c (t + 1) (s.sendIdx - (t + 1))) := by
      rw [popSnaps_snapListN c (t + 1) lo _ none (by omega) (by omega)]
      congr 2; omega
    have hk : t + 1 - lo = (t - lo) + 1 := by omega
    have hlt : lo + (t - lo) = t := by omega
    unfold takeSnapshot
    simp only [hms, hr, hpop, hio, Bool.not_true, Bool.false_eq_true, if_false]
    rw [hk, lastFlag_snoc, hlt]
    by_cases hf : mflag c t = true
    · simp only [hf, if_true]
      exact .snap hdue.1 hdue.2 hf rfl rfl rfl rfl
    · simp only [hf, if_false, Bool.false_eq_true]
      have hf' : mflag c t = false := by simpa using hf
      rcases lastFlag_spec c lo (t - lo) none _ rfl with h0 | ⟨j, h1, _, _, h4⟩
      · rw [h0]
        exact .fail hdue.1 hdue.2 hf' rfl rfl rfl rfl
      · rw [h1]
        have : ¬ (j + 1 = t + 1) := by omega
        simp only [this, if_false]
        exact .fail hdue.1 hdue.2 hf' rfl rfl rfl rfl
  · simp only [hdue, if_false]
    exact .plain hdue rfl rfl rfl rfl

theorem tryPut_ms (c : Cfg) (s : State) (lo : Nat) (hv : c.Valid) (hm : c.iterable = false) (hio : c.inOrder = true)
    (h : MidM c s) (hms : s.mainSnaps = snapListN c lo (s.sendIdx - lo)) (hlo : lo ≤ s.sendIdx) :
    (tryPut c s).mainSnaps = snapListN c lo ((tryPut c s).sendIdx - lo) ∧ s.sendIdx ≤ (tryPut c s).sendIdx := by
  by_cases hlt : s.sendIdx < c.batches.length
  · rw [tryPut_map_lt c s hv hm hio h.status h.sp h.cyc hlt]
    have e1 : s.sendIdx + 1 - lo = (s.sendIdx - lo) + 1 := by omega
    have e2 : lo + (s.sendIdx - lo) = s.sendIdx := by omega
    simp only [dispatchTo, h.sp, flags_map c hm, e1, snapListN_snoc, e2, hms]
    refine ⟨?_, by omega⟩
    split <;> simp
  · rw [tryPut_map_ge c s hm h.sp (by omega)]
    exact ⟨hms, Nat.le_refl _⟩

/-- The snapshot part of the map-style invariant. -/
structure SnapM (c : Cfg) (s : State) : Prop where
  ny : s.numYielded = (yields s.obs).length
  ms : ∃ lo, lo ≤ s.rcvdIdx ∧ s.mainSnaps = snapListN c lo (s.sendIdx - lo)
  al : errFree c → s.numYielded = s.rcvdIdx
  noas : (c.interval ≤ 1 ∨ errFree c) → Obs.assertion ∉ s.obs
  st0 : c.interval = 0 → s.snap.step = 0
  st : c.interval ≠ 0 → c.interval ∣ s.snap.step ∧ s.snap.step ≤ s.numYielded ∧ s.numYielded < s.snap.step + c.interval
  lw : errFree c → s.snap.lastW = (if s.snap.step = 0 then c.W - 1 else (s.snap.step - 1) % c.W) ∧ s.snap.main = s.snap.step

theorem step_keep (I st ny : Nat) (hI : I ≠ 0) (hd : I ∣ st) (h1 : st ≤ ny) (h2 : ny < st + I)
    (hnd : ¬ (ny + 1) % I = 0) : ny + 1 < st + I := by
  by_cases he : ny + 1 = st + I
  · exfalso; apply hnd
    rw [he, Nat.add_mod_right]
    exact Nat.mod_eq_zero_of_dvd hd
  · omega

theorem errFree_kind (c : Cfg) (r : Res) (hg : GoodRes c r) (he : errFree c) : ∃ b, r.kind = .data b := by
  obtain ⟨it, hit, hk⟩ := hg.2
  cases it with
  | ok b => exact ⟨b, hk⟩
  | err => exact absurd rfl (he _ (List.mem_of_getElem? hit))

theorem popProc_snap (c : Cfg) (s : State) (e : Info) (l : List Info) (r : Res) (hv : c.Valid)
    (hm : c.iterable = false) (hio : c.inOrder = true) (hmid : MidM c s) (hsn : SnapM c s)
    (hi : s.info = e :: l) (hg : GoodRes c r) (hri : r.idx = s.rcvdIdx) : SnapM c (popProc c s l r) := by
  have hinfo := hmid.info
  rw [hi] at hinfo
  have hlen := hmid.len
  rw [hi] at hlen
  simp only [List.length_cons] at hlen
  obtain ⟨lo, hlo, hms⟩ := hsn.ms
  -- the state handed to `_try_put_index`
  have h1 : MidM c { s with info := l, rcvdIdx := s.rcvdIdx + 1, numTasks := s.numTasks.modify r.w (· - 1) } := by
    refine ⟨hmid.status, hmid.sp, hmid.le, hmid.cyc, ?_, hinfo.2.2.2, hmid.wlen, hmid.msgs, hmid.resq⟩
    simp only; omega
  obtain ⟨hms2, hle2⟩ := tryPut_ms c _ lo hv hm hio h1 hms (by simp only; omega)
  have hc := tryPut_sameCore c { s with info := l, rcvdIdx := s.rcvdIdx + 1, numTasks := s.numTasks.modify r.w (· - 1) }
  have hproc : processData c { s with info := l, rcvdIdx := s.rcvdIdx + 1 } r =
      (match r.kind with
       | .data b => yieldItem c (tryPut c { s with info := l, rcvdIdx := s.rcvdIdx + 1, numTasks := s.numTasks.modify r.w (· - 1) }) r b
       | _ => (tryPut c { s with info := l, rcvdIdx := s.rcvdIdx + 1, numTasks := s.numTasks.modify r.w (· - 1) }, .error)) := by
    unfold processData; rfl
  generalize tryPut c { s with info := l, rcvdIdx := s.rcvdIdx + 1, numTasks := s.numTasks.modify r.w (· - 1) } = s2
    at hms2 hle2 hc hproc
  have hr2 : s2.rcvdIdx = s.rcvdIdx + 1 := hc.rcvdIdx
  have hny2 : s2.numYielded = s.numYielded := hc.numYielded
  have hobs2 : s2.obs = s.obs := hc.obs
  have hsnap2 : s2.snap = s.snap := hc.snap
  simp only at hle2
  unfold popProc
  rw [hproc]
  cases hk : r.kind with
  | data b =>
    simp only
    have hy := yieldItem_cases c s2 r b s.rcvdIdx lo hio hms2 hlo hr2 (by omega)
    have hp := yieldItem_sameProto c s2 r b
    generalize yieldItem c s2 r b = y at hy hp
    obtain ⟨s3, o⟩ := y
    simp only at hy hp
    simp only [finish]
    cases hy with
    | plain hno ho hny hms3 hsn3 =>
      subst ho
      constructor
      · simp [hny, hny2, hp.obs, hobs2, yields_append, yields, hsn.ny]
      · exact ⟨lo, by simp only [hp.rcvdIdx, hr2]; omega, by simp only [hms3, hp.sendIdx]; exact hms2⟩
      · intro he; simp only [hny, hny2, hp.rcvdIdx, hr2, hsn.al he]
      · intro ha; simp only [hp.obs, hobs2]; simp; exact hsn.noas ha
      · intro h0; simp only [hsn3, hsnap2]; exact hsn.st0 h0
      · intro h0
        obtain ⟨d1, d2, d3⟩ := hsn.st h0
        simp only [hsn3, hsnap2, hny, hny2]
        refine ⟨d1, by omega, ?_⟩
        exact step_keep _ _ _ h0 d1 d2 d3 (fun h => hno ⟨h0, by rw [hny2]; exact h⟩)
      · intro he; simp only [hsn3, hsnap2]; exact hsn.lw he
    | snap hI hdue hf ho hny hms3 hsn3 =>
      subst ho
      constructor
      · simp [hny, hny2, hp.obs, hobs2, yields_append, yields, hsn.ny]
      · exact ⟨s.rcvdIdx + 1, by simp only [hp.rcvdIdx, hr2]; omega, by simp only [hms3, hp.sendIdx]⟩
      · intro he; simp only [hny, hny2, hp.rcvdIdx, hr2, hsn.al he]
      · intro ha; simp only [hp.obs, hobs2]; simp; exact hsn.noas ha
      · intro h0; exact absurd h0 hI
      · intro _
        simp only [hsn3, hny, hny2]
        rw [hny2] at hdue
        exact ⟨Nat.dvd_of_mod_eq_zero hdue, Nat.le_refl _, by omega⟩
      · intro he
        simp only [hsn3, hny2, hsn.al he]
        simp only [Nat.add_one_ne_zero, if_false, Nat.add_sub_cancel, and_true]
        rw [← hri]; exact hg.1
    | fail hI hdue hf ho hny hms3 hsn3 =>
      subst ho
      have hna : ¬ (c.interval ≤ 1 ∨ errFree c) := by
        intro ha
        have : mflag c s.rcvdIdx = true := by
          rcases ha with ha | ha
          · have : c.interval = 1 := by omega
            simp [mflag, this, Nat.mod_one]
          · rw [hny2, hsn.al ha] at hdue
            simp [mflag, hI, hdue]
        rw [this] at hf; cases hf
      constructor
      · simp [hny, hny2, hp.obs, hobs2, yields_append, yields, hsn.ny]
      · exact ⟨s.rcvdIdx + 1, by simp only [hp.rcvdIdx, hr2]; omega, by simp only [hms3, hp.sendIdx]⟩
      · intro he; exact absurd (Or.inr he) hna
      · intro ha; exact absurd ha hna
      · intro h0; exact absurd h0 hI
      · intro h0; simp only [hsn3, hsnap2, hny, hny2]; exact hsn.st h0
      · intro he; exact absurd (Or.inr he) hna
  | error =>
    simp only [finish]
    constructor
    · simp [hny2, hobs2, yields_append, yields, hsn.ny]
    · exact ⟨lo, by simp only [hr2]; omega, hms2⟩
    · intro he
      obtain ⟨b, hb⟩ := errFree_kind c r hg he
      rw [hk] at hb; cases hb
    · intro ha; simp only [hobs2]; simp; exact hsn.noas ha
    · intro h0; simp only [hsnap2]; exact hsn.st0 h0
    · intro h0; simp only [hsnap2, hny2]; exact hsn.st h0
    · intro he; simp only [hsnap2]; exact hsn.lw he
  | notice =>
    obtain ⟨it, _, hk'⟩ := hg.2
    rw [hk] at hk'; exact absurd hk'.symm (kindOf_ne_notice it)
  | ack =>
    obtain ⟨it, _, hk'⟩ := hg.2
    rw [hk] at hk'; cases it <;> simp [kindOf] at hk'

theorem SnapM_frame (c : Cfg) (s s' : State) (t : List Obs) (h : SnapM c s)
    (e1 : s'.numYielded = s.numYielded) (e2 : s'.obs = s.obs ++ t) (ht : yields t = [])
    (hta : Obs.assertion ∉ t) (e3 : s'.rcvdIdx = s.rcvdIdx) (e4 : s'.sendIdx = s.sendIdx)
    (e5 : s'.mainSnaps = s.mainSnaps) (e6 : s'.snap = s.snap) : SnapM c s' := by
  constructor
  · rw [e1, e2, yields_append, ht, List.append_nil]; exact h.ny
  · rw [e3, e4, e5]; exact h.ms
  · rw [e1, e3]; exact h.al
  · intro ha; rw [e2]; simp only [List.mem_append, not_or]; exact ⟨h.noas ha, hta⟩
  · rw [e6]; exact h.st0
  · rw [e6, e1]; exact h.st
  · rw [e6]; exact h.lw

theorem loopCase_snap (c : Cfg) (s s' : State) (hv : c.Valid) (hm : c.iterable = false) (hio : c.inOrder = true)
    (hmid : MidM c s) (hsn : SnapM c s) (hl : LoopCase c s s') : SnapM c s' := by
  cases hl with
  | stop hle heq =>
    subst heq
    simp only [finish]
    by_cases hp : c.persistent = true
    · simp only [hp, if_true]
      exact SnapM_frame c s _ [.stop] hsn rfl rfl rfl (by simp) rfl rfl rfl rfl
    · have hp' : c.persistent = false := by simpa using hp
      simp only [hp', Bool.false_eq_true, if_false]
      have hsm := shutdownWorkers_sameMain c s
      exact SnapM_frame c s _ [.stop] hsn hsm.numYielded (by simp only [hsm.obs]) rfl (by simp)
        hsm.rcvdIdx hsm.sendIdx hsm.mainSnaps hsm.snap
  | wait e l hi hres heq =>
    subst heq
    exact SnapM_frame c s _ [] hsn rfl (by simp) rfl (by simp) rfl rfl rfl rfl
  | proc e l r hi hres hg hri heq =>
    subst heq
    exact popProc_snap c s e l r hv hm hio hmid hsn hi hg hri

theorem step_snapM (c : Cfg) (s s' : State) (a : Action) (hv : c.Valid) (hm : c.iterable = false)
    (hio : c.inOrder = true) (ha : a ≠ .reset) (h : InvM c s) (hsn : SnapM c s) (hst : step c s a = some s') :
    SnapM c s' ∨ died s' := by
  cases step_cases c s s' a hv hm hio ha h hst with
  | died hd => exact Or.inr hd
  | passive hs hph hobs =>
    left
    rcases hobs with hobs | ⟨a, b, d, e, ws, hobs⟩
    · exact SnapM_frame c s s' [] hsn hs.numYielded (by simp [hobs]) rfl (by simp) hs.rcvdIdx hs.sendIdx
        hs.mainSnaps hs.snap
    · exact SnapM_frame c s s' [.sd a b d e ws] hsn hs.numYielded hobs rfl (by simp) hs.rcvdIdx hs.sendIdx
        hs.mainSnaps hs.snap
  | nextDown hsd heq =>
    subst heq
    exact Or.inl (SnapM_frame c s _ [.stop] hsn rfl rfl rfl (by simp) rfl rfl rfl rfl)
  | nextLoop hsd hph hl => exact Or.inl (loopCase_snap c s s' hv hm hio (h.mid hsd) hsn hl)
  | recv r rest hsd hph hq hg hlt hmid0 hr =>
    left
    have hsn0 : SnapM c { s with resQ := rest } := SnapM_frame c s _ [] hsn rfl (by simp) rfl (by simp) rfl rfl rfl rfl
    cases hr with
    | now e l hi hri heq =>
      subst heq
      have hmid1 : MidM c { s with resQ := rest, outstanding := s.outstanding - 1 } :=
        MidM_of_eq c _ _ hmid0 rfl rfl rfl rfl rfl rfl rfl rfl
      have hsn1 : SnapM c { s with resQ := rest, outstanding := s.outstanding - 1 } :=
        SnapM_frame c _ _ [] hsn0 rfl (by simp) rfl (by simp) rfl rfl rfl rfl
      exact popProc_snap c _ e l r hv hm hio hmid1 hsn1 hi hg hri
    | store hne hmid2 hl =>
      have hsn2 : SnapM c { s with resQ := rest, outstanding := s.outstanding - 1, info := setRes s.info r.idx r } :=
        SnapM_frame c _ _ [] hsn0 rfl (by simp) rfl (by simp) rfl rfl rfl rfl
      exact loopCase_snap c _ s' hv hm hio hmid2 hsn2 hl

theorem prime_ms (c : Cfg) (n : Nat) (s : State) (hv : c.Valid) (hm : c.iterable = false) (hio : c.inOrder = true)
    (h : MidM c s) (hms : s.mainSnaps = snapListN c 0 (s.sendIdx - 0)) :
    (prime c n s).mainSnaps = snapListN c 0 ((prime c n s).sendIdx - 0) := by
  induction n generalizing s with
  | zero => exact hms
  | succ n ih =>
    unfold prime
    exact ih _ (MidM_tryPut c s hv hm hio h).1 (tryPut_ms c s 0 hv hm hio h hms (Nat.zero_le _)).1

theorem init_snapM (c : Cfg) (hv : c.Valid) (hm : c.iterable = false) (hio : c.inOrder = true) :
    SnapM c (init c) := by
  unfold init resetTail
  generalize hs0 : ({ resetHead c _ with mainSnaps := [], lastW := c.W - 1, snap := _ } : State) = s0
  have hmid0 : MidM c s0 := by
    subst hs0
    refine ⟨rfl, rfl, Nat.zero_le _, by simp [resetHead], rfl, trivial, by simp [resetHead], ?_, ?_⟩
    · intro w k hk m hmem
      simp only [resetHead, List.getElem?_replicate] at hk
      split at hk
      · cases hk; simp at hmem
      · cases hk
    · intro r hr; simp [resetHead] at hr
  have hms0 : s0.mainSnaps = snapListN c 0 (s0.sendIdx - 0) := by subst hs0; rfl
  have hms := prime_ms c (c.P * c.W) s0 hv hm hio hmid0 hms0
  have hc := prime_sameCore c (c.P * c.W) s0
  have e1 : s0.rcvdIdx = 0 := by subst hs0; rfl
  have e2 : s0.obs = [] := by subst hs0; rfl
  have e3 : s0.numYielded = 0 := by subst hs0; rfl
  have e4 : s0.snap = ⟨0, c.W - 1, 0, List.replicate c.W ⟨0, false⟩⟩ := by subst hs0; rfl
  constructor
  · rw [hc.numYielded, hc.obs, e2, e3]; rfl
  · exact ⟨0, Nat.zero_le _, hms⟩
  · intro _; rw [hc.numYielded, hc.rcvdIdx, e1, e3]
  · intro _; rw [hc.obs, e2]; simp
  · intro _; rw [hc.snap, e4]
  · intro h0; rw [hc.snap, hc.numYielded, e3, e4]; exact ⟨Nat.dvd_zero _, Nat.le_refl _, by simp; omega⟩
  · intro _; rw [hc.snap, e4]; simp

/-- Both invariants along any reset-free run from the initial state. -/
theorem run_invM_snapM (c : Cfg) (as : List Action) (s s' : State) (hv : c.Valid) (hm : c.iterable = false)
    (hio : c.inOrder = true) (hnr : NoReset as) (h : (InvM c s ∧ SnapM c s) ∨ died s) (hr : run c s as = some s') :
    (InvM c s' ∧ SnapM c s') ∨ died s' := by
  induction as generalizing s with
  | nil => simp only [run] at hr; cases hr; exact h
  | cons a as ih =>
    simp only [run] at hr
    split at hr
    · cases hr
    · rename_i s1 hs1
      refine ih s1 hnr.2 ?_ hr
      rcases h with ⟨h1, h2⟩ | h
      · rcases step_invM c s s1 a hv hm hio hnr.1 h1 hs1 with h3 | h3
        · rcases step_snapM c s s1 a hv hm hio hnr.1 h1 h2 hs1 with h4 | h4
          · exact Or.inl ⟨h3, h4⟩
          · exact Or.inr h4
        · exact Or.inr h3
      · exact Or.inr (died_step c s s1 a hs1 h)

end TDV.MP
