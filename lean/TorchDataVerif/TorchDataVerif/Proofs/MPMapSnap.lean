import TorchDataVerif.Proofs.MPMap
/-!
# MP, map-style, in-order: the snapshot machinery (`_main_snapshots`, `_take_snapshot`, `snapshot_step`)
-/
namespace TDV.MP

/-- Task `i` is dispatched with `snapshot_main` (map-style: `_sampler_iter_yielded % interval == 0`
right after drawing its index, i.e. `(i + 1) % interval = 0`). -/
def mflag (c : Cfg) (i : Nat) : Bool := decide (c.interval ≠ 0 ∧ (i + 1) % c.interval = 0)

/-- The `_main_snapshots` entries of tasks `lo, …, lo + n - 1`. -/
def snapListN (c : Cfg) : Nat → Nat → List (Nat × Nat)
  | _, 0 => []
  | lo, n + 1 => (if mflag c lo then [(lo, lo + 1)] else []) ++ snapListN c (lo + 1) n

def lastFlag (c : Cfg) : Nat → Nat → Option (Nat × Nat) → Option (Nat × Nat)
  | _, 0, last => last
  | lo, k + 1, last => lastFlag c (lo + 1) k (if mflag c lo then some (lo, lo + 1) else last)

def errFree (c : Cfg) : Prop := ∀ it ∈ c.batches, it ≠ Item.err

theorem flags_map (c : Cfg) (hm : c.iterable = false) (i ny : Nat) : (flags c (i + 1) ny).1 = mflag c i := by
  unfold flags mflag
  by_cases h0 : c.interval = 0
  · simp [h0]
  · simp [h0, hm]

theorem snapListN_snoc (c : Cfg) (lo n : Nat) :
    snapListN c lo (n + 1) = snapListN c lo n ++ (if mflag c (lo + n) then [(lo + n, lo + n + 1)] else []) := by
  induction n generalizing lo with
  | zero => simp [snapListN]
  | succ n ih =>
    rw [snapListN, ih (lo + 1), snapListN]
    simp [Nat.add_assoc, Nat.add_comm 1 n, List.append_assoc]

theorem snapListN_ge (c : Cfg) (lo n : Nat) : ∀ e ∈ snapListN c lo n, lo ≤ e.1 := by
  induction n generalizing lo with
  | zero => simp [snapListN]
  | succ n ih =>
    intro e he
    simp only [snapListN, List.mem_append] at he
    rcases he with he | he
    · split at he
      · simp at he; subst he; exact Nat.le_refl _
      · cases he
    · have := ih (lo + 1) e he; omega

theorem popSnaps_ge (r : Nat) (l : List (Nat × Nat)) (last : Option (Nat × Nat))
    (h : ∀ e ∈ l, r ≤ e.1) : popSnaps r l last = (last, l) := by
  cases l with
  | nil => rfl
  | cons e l =>
    have := h e (List.mem_cons_self ..)
    simp [popSnaps]; omega

theorem popSnaps_snapListN (c : Cfg) (r lo n : Nat) (last : Option (Nat × Nat)) (h1 : lo ≤ r) (h2 : r ≤ lo + n) :
    popSnaps r (snapListN c lo n) last = (lastFlag c lo (r - lo) last, snapListN c r (lo + n - r)) := by
  induction n generalizing lo last with
  | zero =>
    have : r = lo := by omega
    subst this
    simp [snapListN, popSnaps, lastFlag]
  | succ n ih =>
    by_cases hlt : lo < r
    · obtain ⟨k, hk⟩ : ∃ k, r - lo = k + 1 := ⟨r - lo - 1, by omega⟩
      have ih' := fun last => ih (lo + 1) last (by omega) (by omega)
      have e1 : r - (lo + 1) = k := by omega
      have e2 : lo + 1 + n - r = lo + (n + 1) - r := by omega
      rw [hk, lastFlag, snapListN]
      by_cases hf : mflag c lo = true
      · simp only [hf, if_true, List.singleton_append, popSnaps]
        have : lo + 1 ≤ r := by omega
        simp only [this, if_true]
        rw [ih', e1, e2]
      · simp only [hf, if_false, List.nil_append, Bool.false_eq_true]
        rw [ih', e1, e2]
    · have : r = lo := by omega
      subst this
      rw [popSnaps_ge r _ last (snapListN_ge c r (n + 1))]
      simp [lastFlag]

theorem lastFlag_snoc (c : Cfg) (lo k : Nat) (last : Option (Nat × Nat)) :
    lastFlag c lo (k + 1) last = if mflag c (lo + k) then some (lo + k, lo + k + 1) else lastFlag c lo k last := by
  induction k generalizing lo last with
  | zero => simp [lastFlag]
  | succ k ih =>
    rw [lastFlag, ih (lo + 1), lastFlag]
    simp [Nat.add_assoc, Nat.add_comm 1 k]

theorem lastFlag_spec (c : Cfg) (lo k : Nat) (last e : Option (Nat × Nat))
    (h : lastFlag c lo k last = e) :
    e = last ∨ ∃ j, e = some (j, j + 1) ∧ mflag c j = true ∧ lo ≤ j ∧ j < lo + k := by
  induction k generalizing e with
  | zero => left; simp [lastFlag] at h; exact h.symm
  | succ k ih =>
    rw [lastFlag_snoc] at h
    split at h
    · right; exact ⟨lo + k, h.symm, by assumption, by omega, by omega⟩
    · rcases ih e h with h' | ⟨j, h1, h2, h3, h4⟩
      · exact Or.inl h'
      · exact Or.inr ⟨j, h1, h2, h3, by omega⟩

theorem dropStale_ge (r : Nat) (l : List (Nat × Nat)) (h : ∀ e ∈ l, r ≤ e.1 + 1) : dropStale r l = l := by
  cases l with
  | nil => rfl
  | cons e l =>
    have := h e (List.mem_cons_self ..)
    simp [dropStale]; omega

/-- Dropping the main snapshots of tasks before `t` (`rcvd_idx - 1 = t`). -/
theorem dropStale_snapListN (c : Cfg) (t lo n : Nat) (h1 : lo ≤ t) (h2 : t ≤ lo + n) :
    dropStale (t + 1) (snapListN c lo n) = snapListN c t (lo + n - t) := by
  induction n generalizing lo with
  | zero =>
    have : t = lo := by omega
    subst this
    simp [snapListN, dropStale]
  | succ n ih =>
    by_cases hlt : lo < t
    · have e2 : lo + 1 + n - t = lo + (n + 1) - t := by omega
      rw [snapListN]
      by_cases hf : mflag c lo = true
      · simp only [hf, if_true, List.singleton_append, dropStale]
        have : lo + 1 < t + 1 := by omega
        simp only [this, if_true]
        rw [ih (lo + 1) (by omega) (by omega), e2]
      · simp only [hf, if_false, List.nil_append, Bool.false_eq_true]
        rw [ih (lo + 1) (by omega) (by omega), e2]
    · have : t = lo := by omega
      subst this
      rw [dropStale_ge (t + 1) _ (fun e he => by have := snapListN_ge c t (n + 1) e he; omega)]
      congr 1; omega

theorem snapListN_interval0 (c : Cfg) (h0 : c.interval = 0) (lo n : Nat) : snapListN c lo n = [] := by
  induction n generalizing lo with
  | zero => rfl
  | succ n ih => simp [snapListN, mflag, h0, ih]

/-- The two outcomes of yielding task `t` (already popped: `rcvd_idx = t + 1`): a snapshot is taken
exactly when task `t` carries a main snapshot; the alignment assertion cannot fire. -/
inductive YieldCase (c : Cfg) (s : State) (r : Res) (b t : Nat) (s' : State) (o : Obs) : Prop where
  | plain (hf : mflag c t = false) (ho : o = .item b)
      (hny : s'.numYielded = s.numYielded + 1)
      (hms : s'.mainSnaps = snapListN c (t + 1) (s.sendIdx - (t + 1))) (hsn : s'.snap = s.snap)
  | snap (hI : c.interval ≠ 0) (hf : mflag c t = true)
      (ho : o = .item b) (hny : s'.numYielded = s.numYielded + 1)
      (hms : s'.mainSnaps = snapListN c (t + 1) (s.sendIdx - (t + 1)))
      (hsn : s'.snap = ⟨s.numYielded + 1, r.w, t + 1, applyDelta s.wsnaps r.w r.st⟩)

theorem yieldItem_cases (c : Cfg) (s : State) (r : Res) (b t lo : Nat) (hm : c.iterable = false)
    (hms : s.mainSnaps = snapListN c lo (s.sendIdx - lo)) (hlo : lo ≤ t) (hr : s.rcvdIdx = t + 1)
    (hts : t + 1 ≤ s.sendIdx) :
    YieldCase c s r b t (yieldItem c s r b).1 (yieldItem c s r b).2 := by
  unfold yieldItem
  dsimp only
  by_cases h0 : c.interval = 0
  · rw [if_pos h0]
    refine .plain (by simp [mflag, h0]) rfl rfl ?_ rfl
    simp only [hms, snapListN_interval0 c h0]
  · rw [if_neg h0]
    obtain ⟨k, hk⟩ : ∃ k, s.sendIdx - t = k + 1 := ⟨s.sendIdx - t - 1, by omega⟩
    have hk' : s.sendIdx - (t + 1) = k := by omega
    have hdrop : dropStale (t + 1) (snapListN c lo (s.sendIdx - lo)) =
        (if mflag c t then [(t, t + 1)] else []) ++ snapListN c (t + 1) k := by
      rw [dropStale_snapListN c t lo _ hlo (by omega)]
      have : lo + (s.sendIdx - lo) - t = k + 1 := by omega
      rw [this, snapListN]
    have hge : ∀ e ∈ snapListN c (t + 1) k, t + 1 ≤ e.1 := snapListN_ge c (t + 1) k
    unfold snapshotDue
    simp only [hm, Bool.false_eq_true, if_false, hms, hr, hdrop, hk']
    have hms' : snapListN c (t + 1) k = snapListN c (t + 1) (s.sendIdx - (t + 1)) := by rw [hk']
    by_cases hf : mflag c t = true
    · simp only [hf, if_true, List.singleton_append, decide_true]
      unfold takeSnapshot
      simp only [popSnaps, Nat.le_refl, if_true, popSnaps_ge (t + 1) _ _ hge]
      exact .snap h0 hf rfl rfl hms' rfl
    · have hf' : mflag c t = false := by simpa using hf
      simp only [hf', Bool.false_eq_true, if_false, List.nil_append]
      cases hl : snapListN c (t + 1) k with
      | nil =>
        simp only [Bool.false_eq_true, if_false]
        exact .plain hf' rfl rfl (by rw [← hms', hl]) rfl
      | cons e l =>
        have := hge e (by rw [hl]; exact List.mem_cons_self ..)
        have hne : ¬ (e.1 + 1 = t + 1) := by omega
        simp only [hne, decide_false, Bool.false_eq_true, if_false]
        exact .plain hf' rfl rfl (by rw [← hms', hl]) rfl

/-- The answer of the map-style `_snapshot_due` when task `t` is being yielded: task `t` carries a main
snapshot. -/
theorem snapshotDue_eq_mflag (c : Cfg) (s : State) (t lo : Nat) (hm : c.iterable = false)
    (hms : s.mainSnaps = snapListN c lo (s.sendIdx - lo)) (hlo : lo ≤ t) (hr : s.rcvdIdx = t + 1)
    (hts : t + 1 ≤ s.sendIdx) : (snapshotDue c s).2 = mflag c t := by
  obtain ⟨k, hk⟩ : ∃ k, s.sendIdx - t = k + 1 := ⟨s.sendIdx - t - 1, by omega⟩
  have hdrop : dropStale (t + 1) (snapListN c lo (s.sendIdx - lo)) =
      (if mflag c t then [(t, t + 1)] else []) ++ snapListN c (t + 1) k := by
    rw [dropStale_snapListN c t lo _ hlo (by omega)]
    have : lo + (s.sendIdx - lo) - t = k + 1 := by omega
    rw [this, snapListN]
  have hge : ∀ e ∈ snapListN c (t + 1) k, t + 1 ≤ e.1 := snapListN_ge c (t + 1) k
  unfold snapshotDue
  simp only [hm, Bool.false_eq_true, if_false, hms, hr, hdrop]
  by_cases hf : mflag c t = true
  · simp [hf]
  · have hf' : mflag c t = false := by simpa using hf
    simp only [hf', Bool.false_eq_true, if_false, List.nil_append]
    cases hl : snapListN c (t + 1) k with
    | nil => rfl
    | cons e l =>
      have := hge e (by rw [hl]; exact List.mem_cons_self ..)
      have hne : ¬ (e.1 + 1 = t + 1) := by omega
      simp only [hne, decide_false]

/-- **The new trigger coincides with the old one when yields and tasks are aligned** (`num_yielded = t` when
task `t` is yielded — what `SnapM.al` gives for error-free runs): `_snapshot_due()` answers
`(num_yielded + 1) % interval == 0`, the pre-f1014eb test. -/
theorem snapshot_due_eq_old_of_errFree (c : Cfg) (s : State) (t lo : Nat) (hm : c.iterable = false)
    (hI : c.interval ≠ 0) (hms : s.mainSnaps = snapListN c lo (s.sendIdx - lo)) (hlo : lo ≤ t)
    (hr : s.rcvdIdx = t + 1) (hts : t + 1 ≤ s.sendIdx) (hny : s.numYielded = t) :
    (snapshotDue c s).2 = decide ((s.numYielded + 1) % c.interval = 0) := by
  rw [snapshotDue_eq_mflag c s t lo hm hms hlo hr hts, hny]
  simp [mflag, hI]

theorem tryPut_ms (c : Cfg) (s : State) (lo : Nat) (hv : c.Valid) (hm : c.iterable = false) (hio : c.inOrder = true)
    (h : MidM c s) (hms : s.mainSnaps = snapListN c lo (s.sendIdx - lo)) (hlo : lo ≤ s.sendIdx) :
    (tryPut c s).mainSnaps = snapListN c lo ((tryPut c s).sendIdx - lo) ∧ s.sendIdx ≤ (tryPut c s).sendIdx := by
  by_cases hlt : s.sendIdx < c.batches.length
  · rw [tryPut_map_lt c s hv hm hio h.status h.sp h.cyc hlt]
    have e1 : s.sendIdx + 1 - lo = (s.sendIdx - lo) + 1 := by omega
    have e2 : lo + (s.sendIdx - lo) = s.sendIdx := by omega
    simp only [dispatchTo, h.sp, flags_map c hm, e1, snapListN_snoc, e2, hms]
    refine ⟨?_, by omega⟩
    split <;> simp
  · rw [tryPut_map_ge c s hm h.sp (by omega)]
    exact ⟨hms, Nat.le_refl _⟩

/-- The number of batches yielded once the first `n` tasks have been consumed. -/
def okCount (c : Cfg) (n : Nat) : Nat := (oks (c.batches.take n)).length

/-- Task `i` exists and its fetch does not fail. -/
def okAt (c : Cfg) (i : Nat) : Bool :=
  match c.batches[i]? with
  | some (.ok _) => true
  | _ => false

/-- The task position of the snapshot in force once `n` tasks have been consumed: the largest `m ≤ n` such
that task `m - 1` was dispatched with `snapshot_main` and did not fail; `0` (the initial snapshot) if none. -/
def lastDue (c : Cfg) : Nat → Nat
  | 0 => 0
  | n + 1 => if mflag c n && okAt c n then n + 1 else lastDue c n

theorem okCount_succ (c : Cfg) (n : Nat) (it : Item) (h : c.batches[n]? = some it) :
    okCount c (n + 1) = okCount c n + (oks [it]).length := by
  unfold okCount
  rw [List.take_add_one, h, oks_append, List.length_append]
  rfl

theorem okAt_ok (c : Cfg) (n b : Nat) (h : c.batches[n]? = some (.ok b)) : okAt c n = true := by
  unfold okAt; rw [h]

theorem okAt_err (c : Cfg) (n : Nat) (h : c.batches[n]? = some .err) : okAt c n = false := by
  unfold okAt; rw [h]

theorem lastDue_le (c : Cfg) (n : Nat) : lastDue c n ≤ n := by
  induction n with
  | zero => exact Nat.le_refl _
  | succ n ih => unfold lastDue; split <;> omega

/-- The snapshot part of the map-style invariant — for every interval and every set of failing fetches. -/
structure SnapM (c : Cfg) (s : State) : Prop where
  ny : s.numYielded = (yields s.obs).length
  ms : ∃ lo, lo ≤ s.rcvdIdx ∧ s.mainSnaps = snapListN c lo (s.sendIdx - lo)
  le : s.rcvdIdx ≤ c.batches.length
  cnt : s.numYielded = okCount c s.rcvdIdx
  noas : Obs.assertion ∉ s.obs
  main : s.snap.main = lastDue c s.rcvdIdx
  step : s.snap.step = okCount c s.snap.main
  lastW : s.snap.lastW = (if s.snap.main = 0 then c.W - 1 else (s.snap.main - 1) % c.W)

theorem step_keep (I st ny : Nat) (hI : I ≠ 0) (hd : I ∣ st) (h1 : st ≤ ny) (h2 : ny < st + I)
    (hnd : ¬ (ny + 1) % I = 0) : ny + 1 < st + I := by
  by_cases he : ny + 1 = st + I
  · exfalso; apply hnd
    rw [he, Nat.add_mod_right]
    exact Nat.mod_eq_zero_of_dvd hd
  · omega

theorem errFree_kind (c : Cfg) (r : Res) (hg : GoodRes c r) (he : errFree c) : ∃ b, r.kind = .data b := by
  obtain ⟨it, hit, hk⟩ := hg.2
  cases it with
  | ok b => exact ⟨b, hk⟩
  | err => exact absurd rfl (he _ (List.mem_of_getElem? hit))

theorem popProc_snap (c : Cfg) (s : State) (e : Info) (l : List Info) (r : Res) (hv : c.Valid)
    (hm : c.iterable = false) (hio : c.inOrder = true) (hmid : MidM c s) (hsn : SnapM c s)
    (hi : s.info = e :: l) (hg : GoodRes c r) (hri : r.idx = s.rcvdIdx) : SnapM c (popProc c s l r) := by
  have hinfo := hmid.info
  rw [hi] at hinfo
  have hlen := hmid.len
  rw [hi] at hlen
  simp only [List.length_cons] at hlen
  have hsle := hmid.le
  obtain ⟨lo, hlo, hms⟩ := hsn.ms
  obtain ⟨it, hit, hkind⟩ := hg.2
  rw [hri] at hit
  -- the state handed to `_try_put_index`
  have h1 : MidM c { s with info := l, rcvdIdx := s.rcvdIdx + 1, numTasks := s.numTasks.modify r.w (· - 1) } := by
    refine ⟨hmid.status, hmid.sp, hmid.le, hmid.cyc, ?_, hinfo.2.2.2, hmid.wlen, hmid.msgs, hmid.resq⟩
    simp only; omega
  obtain ⟨hms2, hle2⟩ := tryPut_ms c _ lo hv hm hio h1 hms (by simp only; omega)
  have hc := tryPut_sameCore c { s with info := l, rcvdIdx := s.rcvdIdx + 1, numTasks := s.numTasks.modify r.w (· - 1) }
  have hproc : processData c { s with info := l, rcvdIdx := s.rcvdIdx + 1 } r =
      (match r.kind with
       | .data b => yieldItem c (tryPut c { s with info := l, rcvdIdx := s.rcvdIdx + 1, numTasks := s.numTasks.modify r.w (· - 1) }) r b
       | _ => (tryPut c { s with info := l, rcvdIdx := s.rcvdIdx + 1, numTasks := s.numTasks.modify r.w (· - 1) }, .error)) := by
    unfold processData; rfl
  generalize tryPut c { s with info := l, rcvdIdx := s.rcvdIdx + 1, numTasks := s.numTasks.modify r.w (· - 1) } = s2
    at hms2 hle2 hc hproc
  have hr2 : s2.rcvdIdx = s.rcvdIdx + 1 := hc.rcvdIdx
  have hny2 : s2.numYielded = s.numYielded := hc.numYielded
  have hobs2 : s2.obs = s.obs := hc.obs
  have hsnap2 : s2.snap = s.snap := hc.snap
  simp only at hle2
  unfold popProc
  rw [hproc]
  cases hk : r.kind with
  | data b =>
    simp only
    have hitb : it = .ok b := by
      rw [hk] at hkind
      cases it with
      | ok b' => simp only [kindOf, Kind.data.injEq] at hkind; rw [hkind]
      | err => simp [kindOf] at hkind
    subst hitb
    have hcnt : okCount c (s.rcvdIdx + 1) = okCount c s.rcvdIdx + 1 := okCount_succ c _ _ hit
    have hokAt : okAt c s.rcvdIdx = true := okAt_ok c _ _ hit
    have hy := yieldItem_cases c s2 r b s.rcvdIdx lo hm hms2 hlo hr2 (by omega)
    have hp := yieldItem_sameProto c s2 r b
    generalize yieldItem c s2 r b = y at hy hp
    obtain ⟨s3, o⟩ := y
    simp only at hy hp
    simp only [finish]
    cases hy with
    | plain hf ho hny hms3 hsn3 =>
      subst ho
      have hld : lastDue c (s.rcvdIdx + 1) = lastDue c s.rcvdIdx := by
        rw [lastDue]; simp [hf]
      constructor
      · simp [hny, hny2, hp.obs, hobs2, yields_append, yields, hsn.ny]
      · exact ⟨s.rcvdIdx + 1, by simp only [hp.rcvdIdx, hr2]; omega, by simp only [hms3, hp.sendIdx]⟩
      · simp only [hp.rcvdIdx, hr2]; omega
      · simp only [hny, hny2, hp.rcvdIdx, hr2, hcnt, hsn.cnt]
      · simp only [hp.obs, hobs2]; simp; exact hsn.noas
      · simp only [hsn3, hsnap2, hp.rcvdIdx, hr2, hld]; exact hsn.main
      · simp only [hsn3, hsnap2]; exact hsn.step
      · simp only [hsn3, hsnap2]; exact hsn.lastW
    | snap hI hf ho hny hms3 hsn3 =>
      subst ho
      have hld : lastDue c (s.rcvdIdx + 1) = s.rcvdIdx + 1 := by
        rw [lastDue]; simp [hf, hokAt]
      constructor
      · simp [hny, hny2, hp.obs, hobs2, yields_append, yields, hsn.ny]
      · exact ⟨s.rcvdIdx + 1, by simp only [hp.rcvdIdx, hr2]; omega, by simp only [hms3, hp.sendIdx]⟩
      · simp only [hp.rcvdIdx, hr2]; omega
      · simp only [hny, hny2, hp.rcvdIdx, hr2, hcnt, hsn.cnt]
      · simp only [hp.obs, hobs2]; simp; exact hsn.noas
      · simp only [hsn3, hp.rcvdIdx, hr2, hld]
      · simp only [hsn3, hny2, hcnt, hsn.cnt]
      · simp only [hsn3, Nat.add_one_ne_zero, if_false, Nat.add_sub_cancel]
        rw [← hri]; exact hg.1
  | error =>
    have hite : it = .err := by
      rw [hk] at hkind
      cases it with
      | ok b' => simp [kindOf] at hkind
      | err => rfl
    subst hite
    have hcnt : okCount c (s.rcvdIdx + 1) = okCount c s.rcvdIdx := okCount_succ c _ _ hit
    have hokAt : okAt c s.rcvdIdx = false := okAt_err c _ hit
    have hld : lastDue c (s.rcvdIdx + 1) = lastDue c s.rcvdIdx := by
      rw [lastDue]; simp [hokAt]
    simp only [finish]
    constructor
    · simp [hny2, hobs2, yields_append, yields, hsn.ny]
    · exact ⟨lo, by simp only [hr2]; omega, hms2⟩
    · simp only [hr2]; omega
    · simp only [hny2, hr2, hcnt, hsn.cnt]
    · simp only [hobs2]; simp; exact hsn.noas
    · simp only [hsnap2, hr2, hld]; exact hsn.main
    · simp only [hsnap2]; exact hsn.step
    · simp only [hsnap2]; exact hsn.lastW
  | notice =>
    rw [hk] at hkind; exact absurd hkind.symm (kindOf_ne_notice it)
  | ack =>
    rw [hk] at hkind; cases it <;> simp [kindOf] at hkind

theorem SnapM_frame (c : Cfg) (s s' : State) (t : List Obs) (h : SnapM c s)
    (e1 : s'.numYielded = s.numYielded) (e2 : s'.obs = s.obs ++ t) (ht : yields t = [])
    (hta : Obs.assertion ∉ t) (e3 : s'.rcvdIdx = s.rcvdIdx) (e4 : s'.sendIdx = s.sendIdx)
    (e5 : s'.mainSnaps = s.mainSnaps) (e6 : s'.snap = s.snap) : SnapM c s' := by
  constructor
  · rw [e1, e2, yields_append, ht, List.append_nil]; exact h.ny
  · rw [e3, e4, e5]; exact h.ms
  · rw [e3]; exact h.le
  · rw [e1, e3]; exact h.cnt
  · rw [e2]; simp only [List.mem_append, not_or]; exact ⟨h.noas, hta⟩
  · rw [e6, e3]; exact h.main
  · rw [e6]; exact h.step
  · rw [e6]; exact h.lastW

/-! ### what the general invariant says when no fetch fails (the pre-f1014eb statements) -/

theorem oks_length_noErr (l : List Item) (he : ∀ it ∈ l, it ≠ Item.err) : (oks l).length = l.length := by
  induction l with
  | nil => rfl
  | cons x r ih =>
    cases x with
    | ok b => simp [oks, ih (fun it hit => he it (List.mem_cons_of_mem _ hit))]
    | err => exact absurd rfl (he _ (List.mem_cons_self ..))

theorem okCount_errFree (c : Cfg) (he : errFree c) (n : Nat) (hn : n ≤ c.batches.length) : okCount c n = n := by
  unfold okCount
  rw [oks_length_noErr _ (fun it hit => he it (List.mem_of_mem_take hit)), List.length_take]
  omega

theorem okAt_errFree (c : Cfg) (he : errFree c) (n : Nat) (hn : n < c.batches.length) : okAt c n = true := by
  have h : c.batches[n]? = some c.batches[n] := List.getElem?_eq_getElem hn
  cases hx : c.batches[n] with
  | ok b => rw [hx] at h; exact okAt_ok c n b h
  | err => exact absurd hx (he _ (List.getElem_mem hn))

theorem lastDue_interval0 (c : Cfg) (h0 : c.interval = 0) (n : Nat) : lastDue c n = 0 := by
  induction n with
  | zero => rfl
  | succ n ih => rw [lastDue]; simp [mflag, h0, ih]

theorem lastDue_dvd (c : Cfg) (n : Nat) : c.interval ∣ lastDue c n := by
  induction n with
  | zero => exact Nat.dvd_zero _
  | succ n ih =>
    rw [lastDue]
    split
    · rename_i h
      simp only [Bool.and_eq_true, mflag, decide_eq_true_eq] at h
      exact Nat.dvd_of_mod_eq_zero h.1.2
    · exact ih

/-- Without failing fetches a snapshot is never further back than one interval. -/
theorem lastDue_errFree_lt (c : Cfg) (he : errFree c) (hI : c.interval ≠ 0) (n : Nat) (hn : n ≤ c.batches.length) :
    n < lastDue c n + c.interval := by
  induction n with
  | zero => simp [lastDue]; omega
  | succ n ih =>
    rw [lastDue]
    split
    · omega
    · rename_i h
      have hok := okAt_errFree c he n (by omega)
      have hnd : ¬ (n + 1) % c.interval = 0 := by
        intro hx; apply h; simp [mflag, hI, hx, hok]
      exact step_keep _ _ _ hI (lastDue_dvd c n) (lastDue_le c n) (ih (by omega)) hnd

/-- Error-free runs: yields and consumed tasks are aligned. -/
theorem SnapM.al {c : Cfg} {s : State} (h : SnapM c s) (he : errFree c) : s.numYielded = s.rcvdIdx := by
  rw [h.cnt, okCount_errFree c he _ h.le]

theorem SnapM.st0 {c : Cfg} {s : State} (h : SnapM c s) (h0 : c.interval = 0) : s.snap.step = 0 := by
  rw [h.step, h.main, lastDue_interval0 c h0]; rfl

theorem SnapM.main_le {c : Cfg} {s : State} (h : SnapM c s) : s.snap.main ≤ s.rcvdIdx := by
  rw [h.main]; exact lastDue_le c _

theorem SnapM.step_main {c : Cfg} {s : State} (h : SnapM c s) (he : errFree c) : s.snap.step = s.snap.main := by
  rw [h.step, okCount_errFree c he _ (Nat.le_trans h.main_le h.le)]

/-- Error-free runs: `snapshot_step` is the largest multiple of the interval `≤ num_yielded`. -/
theorem SnapM.st {c : Cfg} {s : State} (h : SnapM c s) (he : errFree c) (hI : c.interval ≠ 0) :
    c.interval ∣ s.snap.step ∧ s.snap.step ≤ s.numYielded ∧ s.numYielded < s.snap.step + c.interval := by
  rw [h.step_main he, h.al he, h.main]
  exact ⟨lastDue_dvd c _, lastDue_le c _, lastDue_errFree_lt c he hI _ h.le⟩

theorem SnapM.lw {c : Cfg} {s : State} (h : SnapM c s) (he : errFree c) :
    s.snap.lastW = (if s.snap.step = 0 then c.W - 1 else (s.snap.step - 1) % c.W) ∧ s.snap.main = s.snap.step := by
  rw [h.step_main he]
  exact ⟨h.lastW, rfl⟩

theorem loopCase_snap (c : Cfg) (s s' : State) (hv : c.Valid) (hm : c.iterable = false) (hio : c.inOrder = true)
    (hmid : MidM c s) (hsn : SnapM c s) (hl : LoopCase c s s') : SnapM c s' := by
  cases hl with
  | stop hle heq =>
    subst heq
    simp only [finish]
    by_cases hp : c.persistent = true
    · simp only [hp, if_true]
      exact SnapM_frame c s _ [.stop] hsn rfl rfl rfl (by simp) rfl rfl rfl rfl
    · have hp' : c.persistent = false := by simpa using hp
      simp only [hp', Bool.false_eq_true, if_false]
      have hsm := shutdownWorkers_sameMain c s
      exact SnapM_frame c s _ [.stop] hsn hsm.numYielded (by simp only [hsm.obs]) rfl (by simp)
        hsm.rcvdIdx hsm.sendIdx hsm.mainSnaps hsm.snap
  | wait e l hi hres heq =>
    subst heq
    exact SnapM_frame c s _ [] hsn rfl (by simp) rfl (by simp) rfl rfl rfl rfl
  | proc e l r hi hres hg hri heq =>
    subst heq
    exact popProc_snap c s e l r hv hm hio hmid hsn hi hg hri

theorem step_snapM (c : Cfg) (s s' : State) (a : Action) (hv : c.Valid) (hm : c.iterable = false)
    (hio : c.inOrder = true) (ha : a ≠ .reset) (h : InvM c s) (hsn : SnapM c s) (hst : step c s a = some s') :
    SnapM c s' ∨ died s' := by
  cases step_cases c s s' a hv hm hio ha h hst with
  | died hd => exact Or.inr hd
  | passive hs hph hobs =>
    left
    rcases hobs with hobs | ⟨a, b, d, e, ws, hobs⟩
    · exact SnapM_frame c s s' [] hsn hs.numYielded (by simp [hobs]) rfl (by simp) hs.rcvdIdx hs.sendIdx
        hs.mainSnaps hs.snap
    · exact SnapM_frame c s s' [.sd a b d e ws] hsn hs.numYielded hobs rfl (by simp) hs.rcvdIdx hs.sendIdx
        hs.mainSnaps hs.snap
  | nextDown hsd heq =>
    subst heq
    exact Or.inl (SnapM_frame c s _ [.stop] hsn rfl rfl rfl (by simp) rfl rfl rfl rfl)
  | nextLoop hsd hph hl => exact Or.inl (loopCase_snap c s s' hv hm hio (h.mid hsd) hsn hl)
  | recv r rest hsd hph hq hg hlt hmid0 hr =>
    left
    have hsn0 : SnapM c { s with resQ := rest } := SnapM_frame c s _ [] hsn rfl (by simp) rfl (by simp) rfl rfl rfl rfl
    cases hr with
    | now e l hi hri heq =>
      subst heq
      have hmid1 : MidM c { s with resQ := rest, outstanding := s.outstanding - 1 } :=
        MidM_of_eq c _ _ hmid0 rfl rfl rfl rfl rfl rfl rfl rfl
      have hsn1 : SnapM c { s with resQ := rest, outstanding := s.outstanding - 1 } :=
        SnapM_frame c _ _ [] hsn0 rfl (by simp) rfl (by simp) rfl rfl rfl rfl
      exact popProc_snap c _ e l r hv hm hio hmid1 hsn1 hi hg hri
    | store hne hmid2 hl =>
      have hsn2 : SnapM c { s with resQ := rest, outstanding := s.outstanding - 1, info := setRes s.info r.idx r } :=
        SnapM_frame c _ _ [] hsn0 rfl (by simp) rfl (by simp) rfl rfl rfl rfl
      exact loopCase_snap c _ s' hv hm hio hmid2 hsn2 hl

theorem prime_ms (c : Cfg) (n : Nat) (s : State) (hv : c.Valid) (hm : c.iterable = false) (hio : c.inOrder = true)
    (h : MidM c s) (hms : s.mainSnaps = snapListN c 0 (s.sendIdx - 0)) :
    (prime c n s).mainSnaps = snapListN c 0 ((prime c n s).sendIdx - 0) := by
  induction n generalizing s with
  | zero => exact hms
  | succ n ih =>
    unfold prime
    exact ih _ (MidM_tryPut c s hv hm hio h).1 (tryPut_ms c s 0 hv hm hio h hms (Nat.zero_le _)).1

theorem init_snapM (c : Cfg) (hv : c.Valid) (hm : c.iterable = false) (hio : c.inOrder = true) :
    SnapM c (init c) := by
  unfold init resetTail
  generalize hs0 : ({ resetHead c _ with mainSnaps := [], lastW := c.W - 1, snap := _ } : State) = s0
  have hmid0 : MidM c s0 := by
    subst hs0
    refine ⟨rfl, rfl, Nat.zero_le _, by simp [resetHead], rfl, trivial, by simp [resetHead], ?_, ?_⟩
    · intro w k hk m hmem
      simp only [resetHead, List.getElem?_replicate] at hk
      split at hk
      · cases hk; simp at hmem
      · cases hk
    · intro r hr; simp [resetHead] at hr
  have hms0 : s0.mainSnaps = snapListN c 0 (s0.sendIdx - 0) := by subst hs0; rfl
  have hms := prime_ms c (c.P * c.W) s0 hv hm hio hmid0 hms0
  have hc := prime_sameCore c (c.P * c.W) s0
  have e1 : s0.rcvdIdx = 0 := by subst hs0; rfl
  have e2 : s0.obs = [] := by subst hs0; rfl
  have e3 : s0.numYielded = 0 := by subst hs0; rfl
  have e4 : s0.snap = ⟨0, c.W - 1, 0, List.replicate c.W ⟨0, false⟩⟩ := by subst hs0; rfl
  constructor
  · rw [hc.numYielded, hc.obs, e2, e3]; rfl
  · exact ⟨0, Nat.zero_le _, hms⟩
  · rw [hc.rcvdIdx, e1]; exact Nat.zero_le _
  · rw [hc.numYielded, hc.rcvdIdx, e1, e3]; rfl
  · rw [hc.obs, e2]; simp
  · rw [hc.snap, hc.rcvdIdx, e1, e4]; rfl
  · rw [hc.snap, e4]; rfl
  · rw [hc.snap, e4]; simp

/-- Both invariants along any reset-free run from the initial state. -/
theorem run_invM_snapM (c : Cfg) (as : List Action) (s s' : State) (hv : c.Valid) (hm : c.iterable = false)
    (hio : c.inOrder = true) (hnr : NoReset as) (h : (InvM c s ∧ SnapM c s) ∨ died s) (hr : run c s as = some s') :
    (InvM c s' ∧ SnapM c s') ∨ died s' := by
  induction as generalizing s with
  | nil => simp only [run] at hr; cases hr; exact h
  | cons a as ih =>
    simp only [run] at hr
    split at hr
    · cases hr
    · rename_i s1 hs1
      refine ih s1 hnr.2 ?_ hr
      rcases h with ⟨h1, h2⟩ | h
      · rcases step_invM c s s1 a hv hm hio hnr.1 h1 hs1 with h3 | h3
        · rcases step_snapM c s s1 a hv hm hio hnr.1 h1 h2 hs1 with h4 | h4
          · exact Or.inl ⟨h3, h4⟩
          · exact Or.inr h4
        · exact Or.inr h3
      · exact Or.inr (died_step c s s1 a hs1 h)

end TDV.MP
