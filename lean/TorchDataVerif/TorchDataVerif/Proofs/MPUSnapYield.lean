import TorchDataVerif.Proofs.MPUSnapInv
/-!
# MPU — `take_snapshot_assertion_holds`, iterable: yielding never trips the assertion
-/
namespace TDV.MPU
open TDV.MP

/-- The entry just taken from the head of `_task_info` (task `rcvd_idx - 1`, dispatched at `d`). -/
structure Pend (c : Cfg) (s : State) (d : Nat) : Prop where
  yb : s.numYielded + 1 ≤ d + 1 + c.W * c.P
  dy : d ≤ s.numYielded
  rc : 0 < s.rcvdIdx
  fl : flagM c d = true → ∃ x, (s.rcvdIdx - 1, x) ∈ s.mainSnaps

theorem takeSnapshot_hit (c : Cfg) (t : State) (x : Nat) (hrc : 0 < t.rcvdIdx) (hs : Incr t.mainSnaps)
    (hm : (t.rcvdIdx - 1, x) ∈ t.mainSnaps) :
    ∃ rest, takeSnapshot c t = some { t with mainSnaps := rest, snap := ⟨t.numYielded + 1, t.lastW, x, t.wsnaps⟩ } ∧
      rest = (popSnaps t.rcvdIdx t.mainSnaps none).2 := by
  obtain ⟨rest, hp⟩ := popSnaps_hit (t.rcvdIdx - 1) x t.mainSnaps none hs hm
  have h1 : t.rcvdIdx - 1 + 1 = t.rcvdIdx := by omega
  rw [h1] at hp
  refine ⟨rest, ?_, by rw [hp]⟩
  unfold takeSnapshot
  rw [hp]
  simp [h1]

/-- `_process_data` after the error check: the batch is returned, never the AssertionError. -/
theorem SW_yield (c : Cfg) (s : State) (Z : List (Info × Nat)) (r : Res) (b d : Nat) (hit : c.iterable = true)
    (h : SWk c s Z none 1)
    (hp : Pend c s d) : (yieldItem c s r b).2 = .item b ∧ SWk c (yieldItem c s r b).1 Z none 0 := by
  rw [yieldItem_eq_tail, yieldTail_iter c _ b hit]
  have hge : ∀ z ∈ Z, s.rcvdIdx ≤ z.1.idx := by
    intro z hz
    apply IdxFrom_ge _ _ h.idx
    rw [← h.zi]; exact List.mem_map_of_mem hz
  have hfinal : ∀ (M : List (Nat × Nat)) (u : State), M.Sublist s.mainSnaps →
      (∀ a ∈ s.mainSnaps, s.rcvdIdx ≤ a.1 → a ∈ M) → u.info = s.info → u.rcvdIdx = s.rcvdIdx →
      u.sendIdx = s.sendIdx → u.numYielded = s.numYielded + 1 → u.mainSnaps = M → SWk c u Z none 0 := by
    intro M u hsub hkeep e1 e2 e3 e4 e5
    refine ⟨by rw [e1]; exact h.zi, by rw [e1, e2]; exact h.idx, by rw [e1, e2, e3]; exact h.len,
      by rw [e4]; exact WinOk_shift none _ _ 0 Z h.win, h.nn, Nat.zero_le _,
      by rw [e5]; exact List.Pairwise.sublist hsub h.ms, ?_, ?_⟩
    · intro a ha; rw [e5] at ha; rw [e3]; exact h.mlt a (hsub.subset ha)
    · intro z hz hf
      obtain ⟨x, hx⟩ := h.mfl z hz hf
      exact ⟨x, by rw [e5]; exact hkeep _ hx (hge z hz)⟩
  unfold yieldTailOld
  simp only
  by_cases hdue : c.interval ≠ 0 ∧ (s.numYielded + 1) % c.interval = 0
  · rw [if_pos hdue]
    have hflag : flagM c d = true := by
      have := window_flag c.interval d (s.numYielded + 1) (c.W * c.P) hdue.1 hdue.2 (by have := hp.dy; omega) hp.yb
      simp [flagM, hdue.1, this]
    obtain ⟨x, hx⟩ := hp.fl hflag
    obtain ⟨rest, hts, hrest⟩ := takeSnapshot_hit c { s with lastW := r.w, wsnaps := applyDelta s.wsnaps r.w r.st } x
      hp.rc h.ms hx
    rw [hts]
    have hpr := popSnaps_rest s.rcvdIdx s.mainSnaps none
    exact ⟨rfl, hfinal rest _ (by rw [hrest]; exact hpr.1) (by rw [hrest]; exact hpr.2) rfl rfl rfl rfl rfl⟩
  · rw [if_neg hdue]
    exact ⟨rfl, hfinal s.mainSnaps _ (List.Sublist.refl _) (fun a ha _ => ha) rfl rfl rfl rfl rfl⟩

/-- `_process_data` on the entry just popped (counted, dispatched at `d`): no AssertionError. -/
theorem SW_process (c : Cfg) (s : State) (Z : List (Info × Nat)) (r : Res) (d : Nat) (hit : c.iterable = true)
    (h : SWk c s Z none 1) (hp : Pend c s d) (hroom : cntZ none Z + 1 ≤ c.W * c.P) :
    (processData c s r).2 ≠ .assertion ∧ ∃ Z', SWk c (processData c s r).1 Z' none 0 := by
  have h0 : SWk c { s with numTasks := s.numTasks.modify r.w (· - 1) } Z none 1 :=
    SWk_of_eq c s _ Z none 1 h rfl rfl rfl rfl rfl
  obtain ⟨Z', h1, hms, _, _⟩ := SWk_tryPut c _ Z none 1 hit h0 hroom
  have hc := tryPut_sameCore c { s with numTasks := s.numTasks.modify r.w (· - 1) }
  have hp1 : Pend c (tryPut c { s with numTasks := s.numTasks.modify r.w (· - 1) }) d := by
    refine ⟨by rw [hc.numYielded]; exact hp.yb, by rw [hc.numYielded]; exact hp.dy, by rw [hc.rcvdIdx]; exact hp.rc, ?_⟩
    intro hf
    obtain ⟨x, hx⟩ := hp.fl hf
    exact ⟨x, by rw [hc.rcvdIdx]; exact hms _ hx⟩
  rw [processData_eq]
  generalize tryPut c { s with numTasks := s.numTasks.modify r.w (· - 1) } = T at h1 hp1
  have hle : SWk c T Z' none 0 :=
    ⟨h1.zi, h1.idx, h1.len, WinOk_le none _ _ 1 0 Z' (by omega) h1.win, h1.nn, Nat.zero_le _, h1.ms, h1.mlt, h1.mfl⟩
  cases r.kind with
  | data b =>
    simp only
    obtain ⟨a1, a2⟩ := SW_yield c T Z' r b d hit h1 hp1
    exact ⟨by rw [a1]; simp, Z', a2⟩
  | notice => exact ⟨by simp, Z', hle⟩
  | error => exact ⟨by simp, Z', hle⟩
  | ack => exact ⟨by simp, Z', hle⟩

end TDV.MPU
