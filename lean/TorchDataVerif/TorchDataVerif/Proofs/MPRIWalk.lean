import TorchDataVerif.Proofs.MPRIEvents
/-!
# MPRI — the canonical round-robin history (no worker ever skipped) and the prefixes of the live sequence

`walk c n` = the dispatch pointer after `n` slots, `hist c n` = the owners of the first `n` slots.  Every
prefix of `liveFrom c 0 0` is `livePairs c (hist c n)` for some `n`.
-/
namespace TDV.MPRI
open TDV.MP

def walk (c : Cfg) : Nat → Nat × Nat
  | 0 => (0, 0)
  | n + 1 => adv c (walk c n).1 (walk c n).2

def hist (c : Cfg) : Nat → List Nat
  | 0 => []
  | n + 1 => hist c n ++ [(walk c n).2]

theorem walk_lt (c : Cfg) (hW : 0 < c.W) (n : Nat) : (walk c n).2 < c.W := by
  induction n with
  | zero => exact hW
  | succ n ih => exact adv_lt c _ _ ih

theorem hist_length (c : Cfg) (n : Nat) : (hist c n).length = n := by
  induction n with
  | zero => rfl
  | succ n ih => simp [hist, ih]

theorem hist_own (c : Cfg) (hW : 0 < c.W) (n : Nat) : ∀ (i w : Nat), (hist c n)[i]? = some w → w < c.W := by
  induction n with
  | zero => intro i w h; simp [hist] at h
  | succ n ih =>
    intro i w h
    simp only [hist] at h
    by_cases hlt : i < (hist c n).length
    · rw [List.getElem?_append_left hlt] at h; exact ih i w h
    · have : i = (hist c n).length := by
        have := (List.getElem?_eq_some_iff.mp h).1; simp at this; omega
      subst this
      simp at h; subst h; exact walk_lt c hW n

theorem hist_count (c : Cfg) (hW : 0 < c.W) (n w : Nat) (hw : w < c.W) :
    (hist c n).count w = turns (walk c n).1 (walk c n).2 w := by
  induction n with
  | zero => simp [hist, walk, turns]
  | succ n ih =>
    simp only [hist, walk, List.count_append, List.count_singleton]
    rw [turns_adv c _ _ w (walk_lt c hW n) hw, ih]
    by_cases h : w = (walk c n).2
    · simp [h]
    · have : ((walk c n).2 == w) = false := by simp; exact fun hh => h hh.symm
      simp [h, this]

theorem hist_live (c : Cfg) (hW : 0 < c.W) (n : Nat) :
    livePairs c (hist c n) ++ liveFrom c (walk c n).1 (walk c n).2 = liveFrom c 0 0 := by
  induction n with
  | zero => rfl
  | succ n ih =>
    simp only [hist, walk]
    rw [livePairs_snoc, hist_count c hW n _ (walk_lt c hW n), turns_self, List.append_assoc,
      ← liveFrom_adv c _ _ (walk_lt c hW n)]
    exact ih

theorem walk_sum (c : Cfg) (n : Nat) : (walk c n).1 * c.W + (walk c n).2 = n := by
  induction n with
  | zero => simp [walk]
  | succ n ih =>
    simp only [walk, adv]
    split
    · rename_i h
      simp only
      have := Nat.add_mul (walk c n).1 1 c.W
      omega
    · simp only; omega

/-- After `(maxB + 2)·W` slots nothing is left. -/
theorem hist_full (c : Cfg) (hW : 0 < c.W) : livePairs c (hist c ((maxB c + 2) * c.W)) = liveFrom c 0 0 := by
  have h := hist_live c hW ((maxB c + 2) * c.W)
  have hs := walk_sum c ((maxB c + 2) * c.W)
  have ha := walk_lt c hW ((maxB c + 2) * c.W)
  have hρ : maxB c + 1 ≤ (walk c ((maxB c + 2) * c.W)).1 := by
    rcases Nat.lt_or_ge (walk c ((maxB c + 2) * c.W)).1 (maxB c + 1) with hlt | hge
    · exfalso
      have h1 : (walk c ((maxB c + 2) * c.W)).1 * c.W ≤ maxB c * c.W := Nat.mul_le_mul_right _ (by omega)
      have h2 : (maxB c + 2) * c.W = maxB c * c.W + 2 * c.W := Nat.add_mul _ _ _
      omega
    · exact hge
  have hnil : liveFrom c (walk c ((maxB c + 2) * c.W)).1 (walk c ((maxB c + 2) * c.W)).2 = [] := by
    apply liveFrom_nil
    intro w _
    have := bOf_le_maxB c w
    unfold turns
    split <;> omega
  rw [hnil, List.append_nil] at h
  exact h

/-- Discrete intermediate value: a sequence that grows by at most one per step passes through every value. -/
theorem ivt (f : Nat → Nat) (h1 : ∀ k, f (k + 1) ≤ f k + 1) (v : Nat) (b : Nat) (hv0 : f 0 ≤ v) (hvb : v < f b) :
    ∃ k, k < b ∧ f k = v ∧ f (k + 1) = v + 1 := by
  induction b with
  | zero => omega
  | succ b ih =>
    by_cases hb : v < f b
    · obtain ⟨k, hk, h2, h3⟩ := ih hb
      exact ⟨k, by omega, h2, h3⟩
    · have := h1 b
      exact ⟨b, by omega, by omega, by omega⟩

theorem livePairs_hist_succ (c : Cfg) (hW : 0 < c.W) (n : Nat) :
    livePairs c (hist c (n + 1)) = livePairs c (hist c n) ++
      (if (hist c n).count (walk c n).2 ≤ bOf c (walk c n).2 then [((walk c n).2, (hist c n).count (walk c n).2)] else []) := by
  simp only [hist]
  exact livePairs_snoc c (hist c n) (walk c n).2

/-- For every number `m` of yields there is a slot count `K` whose consumed prefix ends with the `m`-th data
pair. -/
theorem exists_ptr (c : Cfg) (hW : 0 < c.W) (m : Nat) (hm : m ≤ ndE c (liveFrom c 0 0)) :
    ∃ K lw, ndE c (livePairs c (hist c K)) = m ∧ LastIs c (livePairs c (hist c K)) lw ∧
      (walk c K).2 = (lw + 1) % c.W ∧
      (K = 0 ∨ ∃ K', K = K' + 1 ∧ lw = (walk c K').2 ∧ (hist c K').count lw < bOf c lw) := by
  cases m with
  | zero =>
    refine ⟨0, c.W - 1, rfl, Or.inl ⟨rfl, rfl⟩, ?_, Or.inl rfl⟩
    simp only [walk]
    rw [Nat.sub_add_cancel hW, Nat.mod_self]
  | succ m =>
    have hstep : ∀ k, ndE c (livePairs c (hist c (k + 1))) ≤ ndE c (livePairs c (hist c k)) + 1 := by
      intro k
      rw [livePairs_hist_succ c hW k]
      split
      · rw [ndE_snoc]; split <;> omega
      · simp
    obtain ⟨K', _, h2, h3⟩ := ivt (fun k => ndE c (livePairs c (hist c k))) hstep m ((maxB c + 2) * c.W)
      (by simp [hist, livePairs_nil, ndE]) (by rw [hist_full c hW]; omega)
    have hdata : (hist c K').count (walk c K').2 < bOf c (walk c K').2 := by
      rw [livePairs_hist_succ c hW K'] at h3
      split at h3
      · rw [ndE_snoc] at h3
        split at h3
        · rename_i hd; simpa [isD] using hd
        · omega
      · simp at h3; omega
    refine ⟨K' + 1, (walk c K').2, h3, Or.inr ⟨livePairs c (hist c K'), (hist c K').count (walk c K').2, ?_, hdata⟩, ?_,
      Or.inr ⟨K', rfl, rfl, hdata⟩⟩
    · rw [livePairs_hist_succ c hW K', if_pos (by omega)]
    · simp only [walk]
      exact adv_cyc c _ _ (walk_lt c hW K')

theorem prefix_eq_of_len {α : Type} (a b l : List α) (ha : a <+: l) (hb : b <+: l) (h : a.length = b.length) : a = b := by
  rw [List.prefix_iff_eq_take] at ha hb
  rw [ha, hb, h]

/-- Every prefix of the live sequence is the live part of a canonical history, whose last slot (if any) is
live. -/
theorem prefix_hist (c : Cfg) (hW : 0 < c.W) (E R : List (Nat × Nat)) (hE : E ++ R = liveFrom c 0 0) :
    ∃ n, E = livePairs c (hist c n) ∧
      (n = 0 ∨ ∃ n', n = n' + 1 ∧ (hist c n').count (walk c n').2 ≤ bOf c (walk c n').2) := by
  by_cases h0 : E = []
  · exact ⟨0, by rw [h0]; rfl, Or.inl rfl⟩
  · have hpos : 0 < E.length := List.length_pos_iff.mpr h0
    have hstep : ∀ k, (livePairs c (hist c (k + 1))).length ≤ (livePairs c (hist c k)).length + 1 := by
      intro k
      rw [livePairs_hist_succ c hW k]
      split <;> simp
    have hlen : E.length ≤ (liveFrom c 0 0).length := by rw [← hE]; simp
    obtain ⟨n', _, h2, h3⟩ := ivt (fun k => (livePairs c (hist c k)).length) hstep (E.length - 1) ((maxB c + 2) * c.W)
      (by simp [hist, livePairs_nil]) (by rw [hist_full c hW]; omega)
    have hlive : (hist c n').count (walk c n').2 ≤ bOf c (walk c n').2 := by
      rw [livePairs_hist_succ c hW n'] at h3
      split at h3
      · assumption
      · simp at h3; omega
    refine ⟨n' + 1, ?_, Or.inr ⟨n', rfl, hlive⟩⟩
    apply prefix_eq_of_len E _ (liveFrom c 0 0) ⟨R, hE⟩ ⟨_, hist_live c hW (n' + 1)⟩
    omega

end TDV.MPRI
