import TorchDataVerif.Proofs.NodesLoaderA
import TorchDataVerif.Props.C04
/-!
# Part B — `Del` for the leaves and for the operators whose `reset(state)` does not pull from the source
(`Mapper`, `Batcher`, `Filter`): there the ghost bit of the operator and of its source agree.
-/
namespace TDV.E2EN
open TDV.Node TDV.Loader

/-! ## leaves -/

theorem list_del (l : List Item) : Del (listSource l) (fun _ => l) (fun _ _ => True) :=
  Del.const (fun r _ => listSource_denote l r)

/-- `SamplerWrapper`: the `j`-th epoch is `idx (epoch_updater^j e0)`; the bookkeeping is the `epoch` field, and
`_started` is the ghost bit. -/
def sampAt (idx : Nat → List Item) (upd : Nat → Nat) (e0 : Nat) (r : Run (samplerNode idx upd e0)) (j : Nat) : Prop :=
  (r.st : SampSt).epoch = Ref.epochOf upd e0 j ∧ (r.st : SampSt).started = r.nexted

theorem samp_V_inv (idx : Nat → List Item) (upd : Nat → Nat) (e0 : Nat) (r : Run (samplerNode idx upd e0))
    (h : (samplerNode idx upd e0).Reach r) : SampInv idx (r.st : SampSt) r.nexted :=
  samplerNode_reach idx upd e0 r h

theorem sampler_del (idx : Nat → List Item) (upd : Nat → Nat) (e0 : Nat) :
    Del (samplerNode idx upd e0) (fun j => idx (Ref.epochOf upd e0 j)) (sampAt idx upd e0) where
  fresh := ⟨rfl, rfl⟩
  next := by
    intro r e hr ⟨he, _⟩
    have sp := sampNext_spec idx (r.st : SampSt) r.nexted (samplerNode_reach idx upd e0 r hr)
    exact ⟨sp.2.1.trans he, sp.1.2.2.2⟩
  get := fun r e _ h => h
  resetNone := by
    rintro ⟨st, b⟩ e _ ⟨he, hs⟩
    simp only at he hs
    refine ⟨?_, rfl⟩
    show (sampReset idx upd st none).epoch = _
    cases b with
    | false => simp [sampReset, hs, he]
    | true => simp [sampReset, hs, he, Ref.epochOf]
  resetSome := by
    intro r s e _ hs ⟨he, _⟩
    have inv := samplerNode_reach idx upd e0 s hs
    have h2 : (s.st : SampSt).ny ≤ (idx (s.st : SampSt).epoch).length := inv.2.1
    have e1 : sampReset idx upd (r.st : SampSt) (some ((s.st : SampSt).ny, (s.st : SampSt).epoch)) =
        { rem := (idx (s.st : SampSt).epoch).drop (s.st : SampSt).ny, ny := (s.st : SampSt).ny,
          epoch := (s.st : SampSt).epoch, started := false, bad := false } := by
      simp only [sampReset, h2, if_true]
    refine ⟨?_, ?_⟩
    · show (sampReset idx upd (r.st : SampSt) (some ((s.st : SampSt).ny, (s.st : SampSt).epoch))).epoch = _
      rw [e1]; exact he
    · show (sampReset idx upd (r.st : SampSt) (some ((s.st : SampSt).ny, (s.st : SampSt).epoch))).started = false
      rw [e1]
  yields := by
    rintro ⟨st, b⟩ e _ ⟨he, hs⟩
    simp only at he hs
    have h := samplerNode_denote idx upd e0 ⟨st, b⟩
    have e2 : (if st.started then upd st.epoch else st.epoch) = Ref.epochOf upd e0 (if b then e + 1 else e) := by
      cases b with
      | false => simp [hs, he]
      | true => simp [hs, he, Ref.epochOf]
    simp only at h
    rw [e2] at h
    exact h

/-! ## `Mapper` -/

theorem mapper_sync (f : Item → Option Item) (src : Node) (R : Run (mapper f src))
    (h : (mapper f src).Reach R) : (R.st : Run src).nexted = R.nexted := by
  have h2 : (R.st : Run src).nexted = true → R.nexted = true := by
    induction h with
    | initNone => intro h; cases h
    | initSome _ _ => intro h; cases h
    | next _ _ => intro _; rfl
    | get _ ih => exact ih
    | resetNone _ _ => intro h; cases h
    | resetSome _ _ _ _ => intro h; cases h
  have h1 := mapper_nexted f src R h
  cases hb : R.nexted with
  | true => exact h1 hb
  | false =>
    cases hi : (R.st : Run src).nexted with
    | false => rfl
    | true => rw [h2 hi] at hb; cases hb

theorem mapper_V (f : Item → Option Item) (src : Node) (R : Run (mapper f src)) (h : V (mapper f src) R) :
    V src (R.st : Run src) ∧ (R.st : Run src).nexted = R.nexted := by
  rcases h with h | h
  · exact ⟨Or.inl (mapper_reach f src R h), mapper_sync f src R h⟩
  · subst h; exact ⟨Or.inr rfl, rfl⟩

theorem mapper_del (f : Item → Option Item) (g : Item → Item) {src : Node} {ep : Nat → List Item}
    {At : Run src → Nat → Prop} (hf : ∀ e, ∀ x ∈ ep e, f x = some (g x)) (d : Del src ep At) :
    Del (mapper f src) (fun e => (ep e).map g) (fun R e => At (R.st : Run src) e) where
  fresh := d.fresh
  next := by
    intro R e hR h
    have := d.next _ e (mapper_reach f src R hR) h
    rw [← mapNext_snd src f (R.st : Run src)] at this
    exact this
  get := fun R e hR h => d.get _ e (mapper_reach f src R hR) h
  resetNone := by
    intro R e hR h
    have hv := mapper_V f src R hR
    have := d.resetNone _ e hv.1 h
    rw [hv.2] at this
    exact this
  resetSome := by
    intro R S e hR hS h
    exact d.resetSome _ _ e (mapper_V f src R hR).1 (mapper_reach f src S hS) h
  yields := by
    intro R e hR h
    have hv := mapper_V f src R hR
    have hy := d.yields _ e hv.1 h
    rw [hv.2] at hy
    exact mapper_denote f g src _ (hf _) R hy

/-! ## `Batcher` -/

theorem collect_pres {src : Node} (P : Run src → Prop) (hP : ∀ r, src.Reach r → P r → P (src.rnext r).2) (k : Nat) :
    ∀ r, src.Reach r → P r → P (collect src k r).2 := by
  induction k with
  | zero => intro r _ h; exact h
  | succ k ih =>
    intro r hr h
    have hn := Node.Reach.next hr
    have hp := hP r hr h
    rcases hx : src.rnext r with ⟨o, r'⟩
    rw [hx] at hn hp
    cases o with
    | item v => simp only [collect, hx]; exact ih r' hn hp
    | stop => simp only [collect, hx]; exact hp
    | error e => simp only [collect, hx]; exact hp

theorem batcher_sync (bs : Nat) (dl : Bool) (hbs : 1 ≤ bs) (src : Node) (R : Run (batcher bs dl src))
    (h : (batcher bs dl src).Reach R) : (R.st : Run src).nexted = R.nexted := by
  have h2 : (R.st : Run src).nexted = true → R.nexted = true := by
    induction h with
    | initNone => intro h; cases h
    | initSome _ _ => intro h; cases h
    | next _ _ => intro _; rfl
    | get _ ih => exact ih
    | resetNone _ _ => intro h; cases h
    | resetSome _ _ _ _ => intro h; cases h
  have h1 := batcher_nexted bs dl hbs src R h
  cases hb : R.nexted with
  | true => exact h1 hb
  | false =>
    cases hi : (R.st : Run src).nexted with
    | false => rfl
    | true => rw [h2 hi] at hb; cases hb

theorem batcher_V (bs : Nat) (dl : Bool) (hbs : 1 ≤ bs) (src : Node) (R : Run (batcher bs dl src))
    (h : V (batcher bs dl src) R) : V src (R.st : Run src) ∧ (R.st : Run src).nexted = R.nexted := by
  rcases h with h | h
  · exact ⟨Or.inl (batcher_reach bs dl src R h), batcher_sync bs dl hbs src R h⟩
  · subst h; exact ⟨Or.inr rfl, rfl⟩

theorem batcher_del (bs : Nat) (dl : Bool) (hbs : 1 ≤ bs) {src : Node} {ep : Nat → List Item}
    {At : Run src → Nat → Prop} (d : Del src ep At) :
    Del (batcher bs dl src) (fun e => (Ref.chunk bs dl (ep e)).map Item.list) (fun R e => At (R.st : Run src) e) where
  fresh := d.fresh
  next := by
    intro R e hR h
    rw [batcher_rnext]
    exact collect_pres (fun r => At r e) (fun r hr => d.next r e hr) bs _ (batcher_reach bs dl src R hR) h
  get := fun R e hR h => d.get _ e (batcher_reach bs dl src R hR) h
  resetNone := by
    intro R e hR h
    have hv := batcher_V bs dl hbs src R hR
    have := d.resetNone _ e hv.1 h
    rw [hv.2] at this
    exact this
  resetSome := by
    intro R S e hR hS h
    exact d.resetSome _ _ e (batcher_V bs dl hbs src R hR).1 (batcher_reach bs dl src S hS) h
  yields := by
    intro R e hR h
    have hv := batcher_V bs dl hbs src R hR
    have hy := d.yields _ e hv.1 h
    rw [hv.2] at hy
    exact batcher_denote bs dl src hbs _ R hy

end TDV.E2EN
