import TorchDataVerif.Proofs.MPUnMapInv
import TorchDataVerif.Proofs.MPUFresh
/-!
# MPU, `in_order = False`, map-style: `init` and whole runs
-/
namespace TDV.MPU
open TDV.MP

theorem qIdxs_replicate (n : Nat) (k : Worker) (h : k.q = []) : qIdxs (List.replicate n k) = [] := by
  induction n with
  | zero => rfl
  | succ n ih => simp [List.replicate_succ, qIdxs, h, taskIdxs] at ih ⊢

/-- The state `_reset` builds before priming satisfies the protocol invariant. -/
theorem UCore_start (c : Cfg) (hv : c.Valid) :
    UCore c (tailArg c (resetHead c (baseState c (List.replicate c.W ⟨[], 0, false, true⟩)))) := by
  have hmem : ∀ (w : Nat) (k : Worker), (List.replicate c.W (⟨[], 0, false, true⟩ : Worker))[w]? = some k → k.q = [] := by
    intro w k hk
    have := List.mem_of_getElem? hk
    rw [(List.mem_replicate.mp this).2]
  constructor
  · simp [tailArg, resetHead, baseState]
  · simp [tailArg, resetHead, baseState]
  · simp [tailArg, resetHead, baseState]
  · exact hv.1
  · exact Nat.le_refl _
  · intro e he; cases he
  · exact List.nodup_nil
  · intro e he; cases he
  · intro w hw _
    simp [tailArg, resetHead, baseState, entriesOf, List.getD_eq_getElem?_getD, List.getElem?_replicate, hw]
  · intro w hw _
    simp [tailArg, resetHead, baseState, List.getD_eq_getElem?_getD, List.getElem?_replicate, hw]
  · simp [flight, tailArg, resetHead, baseState, qIdxs_replicate]
  · intro i hi
    simp [flight, tailArg, resetHead, baseState, qIdxs_replicate] at hi
  · intro w k hk _ i hi
    rw [hmem w k hk] at hi
    cases hi
  · intro r hr; cases hr
  · intro w k hk
    rw [hmem w k hk]; simp
  · intro r hr; cases hr

theorem init_InvUM (c : Cfg) (hv : c.Valid) (hm : c.iterable = false) (hio : c.inOrder = false) : InvUM c (init c) := by
  have hcore := UCore_start c hv
  have h0 : MidUM0 c (tailArg c (resetHead c (baseState c (List.replicate c.W ⟨[], 0, false, true⟩)))) [] := by
    refine ⟨hcore, rfl, rfl, Nat.zero_le _, ?_, ?_, ?_, List.nodup_nil, ?_, ?_⟩
    · show sumL (List.replicate c.W 0) = 0
      exact sumL_replicate_zero _
    · intro w k hk i p sn hmem
      have := List.mem_of_getElem? hk
      rw [(List.mem_replicate.mp this).2] at hmem
      cases hmem
    · intro r hr; cases hr
    · intro i hi; cases hi
    · intro i hi; exact absurd hi (Nat.not_lt_zero _)
  have hpos : 0 < c.P * c.W := Nat.mul_pos hv.2 hv.1
  obtain ⟨h1, h2, h3⟩ := MidUM0_prime c (c.P * c.W) _ [] hv hm hio h0 (by simp [tailArg, resetHead, baseState])
  have hinit : init c = prime c (c.P * c.W)
      (tailArg c (resetHead c (baseState c (List.replicate c.W ⟨[], 0, false, true⟩)))) := rfl
  rw [hinit]
  refine ⟨[], ?_, ?_, Or.inl ⟨h1, h2 hpos, ?_, ?_⟩⟩
  · rw [h3.obs]; exact trivial
  · intro k; rw [h3.phase]; simp [tailArg, resetHead, baseState]
  · rw [h3.shutdown]; rfl
  · rw [h3.obs]; intro hs; cases hs

theorem step_InvUM (c : Cfg) (hv : c.Valid) (hm : c.iterable = false) (hio : c.inOrder = false) (s s' : State)
    (a : Action) (ha : a ≠ .reset) (h : InvUM c s) (hst : step c s a = some s') : InvUM c s' ∨ died s' := by
  cases a with
  | reset => exact absurd rfl ha
  | work w => exact Or.inl (InvUM_work c s s' w hm h hst)
  | kill w => exact Or.inl (InvUM_kill c s s' w h hst)
  | stateDict => exact Or.inl (InvUM_stateDict c s s' h hst)
  | next => exact Or.inl (InvUM_next c hv s s' h hst)
  | recv => exact Or.inl (InvUM_recv c hv s s' hm hio h hst)
  | pollTimeout =>
    simp only [step] at hst
    split at hst
    · cases hst
    · split at hst
      · cases hst; exact Or.inl h
      · cases hst
        right
        unfold died
        simp

theorem run_InvUM (c : Cfg) (hv : c.Valid) (hm : c.iterable = false) (hio : c.inOrder = false) (as : List Action)
    (s s' : State) (hnr : NoReset as) (h : InvUM c s) (hr : run c s as = some s') : InvUM c s' ∨ died s' := by
  induction as generalizing s with
  | nil => simp [run] at hr; subst hr; exact Or.inl h
  | cons a as ih =>
    simp only [run] at hr
    cases hs : step c s a with
    | none => simp [hs] at hr
    | some s1 =>
      simp only [hs] at hr
      rcases step_InvUM c hv hm hio s s1 a hnr.1 h hs with h1 | h1
      · exact ih s1 hnr.2 h1 hr
      · exact Or.inr (died_run c as s1 s' hr h1)

end TDV.MPU
