import TorchDataVerif.Proofs.PMGen2K
/-! `Gen2` sanity: going through `gstep` never blocks the consumer — in every reachable state of `_shutdown`'s join
sequence the join at hand can return (`joinOk`) or give up (`joinGiveUp`), or the constructor can start. -/
namespace TDV.PM
variable {c : Cfg} {x y : G2State}

/-- the join phases are only entered from, and never leave, `cpc = closed` -/
def J (x : G2State) : Prop := x.ph.joining = true → x.g.cur.cpc = .closed

theorem j_init (c : Cfg) : J (g2init c) := by simp [J, g2init, Ph.joining]

theorem j_step {a : G2Action} (hj : J x) (h : g2step c x a = some y) : J y := by
  cases a
  case cur a =>
    obtain ⟨_, _, s1, hs, rfl⟩ := g2_cur h
    intro hp
    exact (closed_stays (hj hp) hs).1
  case old i a => obtain ⟨_, s0, s1, _, _, rfl⟩ := g2_old h; exact hj
  case rInitEnter => obtain ⟨_, _, _, rfl⟩ := g2_rInitEnter h; exact hj
  case joinOk t => obtain ⟨ph', _, hc, rfl⟩ := g2_joinOk h; exact fun _ => hc
  case joinGiveUp t => obtain ⟨ph', _, hc, rfl⟩ := g2_joinGiveUp h; exact fun _ => hc
  case ctorEnter => obtain ⟨k, _, _, _, rfl⟩ := g2_ctorEnter h; simp [J, Ph.joining]
  case ctorLeave => obtain ⟨_, rfl⟩ := g2_ctorLeave h; simp [J, Ph.joining]

theorem j_run : ∀ (tr : List G2Action) {x y : G2State}, J x → g2run c x tr = some y → J y
  | [], x, y, hj, hr => by simp [g2run] at hr; subst hr; exact hj
  | a :: tr, x, y, hj, hr => by
    simp only [g2run] at hr
    cases hs : g2step c x a with
    | none => simp [hs] at hr
    | some x1 =>
      simp only [hs] at hr
      exact j_run tr (j_step hj hs) hr

theorem threadsLive_pos_reader {s : State} (h : s.rpc ≠ .exited) : 0 < threadsLive s := by
  simp [threadsLive, h]; omega

theorem threadsLive_pos_sorter {s : State} (h1 : s.spc ≠ .exited) (h2 : s.spc ≠ .off) : 0 < threadsLive s := by
  simp [threadsLive, h1, h2]

theorem threadsLive_pos_worker {s : State} {k : Nat} {p : WPc} (hk : s.wk[k]? = some p) (h1 : p ≠ .exited)
    (h2 : p ≠ .dead) : 0 < threadsLive s := by
  have hm : p ∈ s.wk.filter (fun p => p != .exited && p != .dead) := by
    rw [List.mem_filter]
    exact ⟨mem_of_getElem? hk, by simp [h1, h2]⟩
  have := List.length_pos_of_mem hm
  unfold threadsLive
  omega

/-- whenever `_shutdown` has a thread to join, exactly the matching join action is enabled -/
theorem join_enabled (hj : J x) {t : Thr} {alive : Bool} {ph' : Ph}
    (ht : joinTarget x.g.cur x.ph = some (t, alive, ph')) :
    (g2step c x (if alive then .joinGiveUp t else .joinOk t)).isSome = true := by
  have hc : x.g.cur.cpc = .closed := by
    cases hp : x.ph with
    | run =>
      simp only [joinTarget, hp] at ht
      split at ht
      · assumption
      · simp at ht
    | joinS => exact hj (by simp [hp, Ph.joining])
    | joinW k => exact hj (by simp [hp, Ph.joining])
    | reset => simp [joinTarget, hp] at ht
  cases alive
  · simp [g2step, ht, gstep, hc]
  · have hl : 0 < threadsLive x.g.cur := by
      cases hp : x.ph with
      | run =>
        simp [joinTarget, hp, hc] at ht
        exact threadsLive_pos_reader (by simpa using ht.2.1)
      | joinS =>
        simp [joinTarget, hp] at ht
        exact threadsLive_pos_sorter ht.2.1.1 ht.2.1.2
      | joinW k =>
        simp only [joinTarget, hp] at ht
        split at ht
        · rename_i p hk
          simp at ht
          exact threadsLive_pos_worker hk ht.2.1.1 ht.2.1.2
        · simp at ht
      | reset => simp [joinTarget, hp] at ht
    simp [g2step, ht, gstep, hc, hl]

/-- past the last worker the new iterator's constructor can start -/
theorem ctor_enabled (hj : J x) {k : Nat} (hp : x.ph = .joinW k) (hk : x.g.cur.wk[k]? = none) :
    (g2step c x .ctorEnter).isSome = true := by
  have hc : x.g.cur.cpc = .closed := hj (by simp [hp, Ph.joining])
  simp [g2step, hp, hk, gstep, hc]

end TDV.PM
