import TorchDataVerif.Proofs.PMGen2Inv
/-! `Gen2` sanity: going through `gstep` never blocks the consumer — in every reachable state of `_shutdown`'s join
sequence the join at hand can return (`joinOk`) or give up (`joinGiveUp`), or the constructor can start. -/
namespace TDV.PM
variable {c : Cfg} {x y : G2State}

def Ph.isJoin : Ph → Bool
  | .joinS | .joinW _ => true
  | _ => false

/-- the join phases are only entered from, and never leave, `cpc = closed` -/
def J (x : G2State) : Prop := x.ph.isJoin = true → x.g.cur.cpc = .closed

theorem j_init (c : Cfg) : J (g2init c) := by simp [J, g2init, Ph.isJoin]

theorem j_step {a : G2Action} (hj : J x) (h : g2step c x a = some y) : J y := by
  cases a
  case cur a =>
    obtain ⟨_, _, s1, hs, rfl⟩ := g2_cur h
    intro hp
    exact (closed_stays (hj hp) hs).1
  case old i a => obtain ⟨_, s0, s1, _, _, rfl⟩ := g2_old h; exact hj
  case rInitEnter => obtain ⟨_, _, _, rfl⟩ := g2_rInitEnter h; exact hj
  case joinOk t => obtain ⟨ph', _, hc, rfl⟩ := g2_joinOk h; exact fun _ => hc
  case joinGiveUp t => obtain ⟨ph', _, hc, rfl⟩ := g2_joinGiveUp h; exact fun _ => hc
  case ctorEnter => obtain ⟨k, _, _, _, rfl⟩ := g2_ctorEnter h; simp [J, Ph.isJoin]
  case ctorLeave => obtain ⟨_, rfl⟩ := g2_ctorLeave h; simp [J, Ph.isJoin]

theorem j_run : ∀ (tr : List G2Action) {x y : G2State}, J x → g2run c x tr = some y → J y
  | [], x, y, hj, hr => by simp [g2run] at hr; subst hr; exact hj
  | a :: tr, x, y, hj, hr => by
    simp only [g2run] at hr
    cases hs : g2step c x a with
    | none => simp [hs] at hr
    | some x1 =>
      simp only [hs] at hr
      exact j_run tr (j_step hj hs) hr

theorem threadsLive_pos_reader {s : State} (h : s.rpc ≠ .exited) : 0 < threadsLive s := by
  simp [threadsLive, h]; omega

theorem threadsLive_pos_sorter {s : State} (h1 : s.spc ≠ .exited) (h2 : s.spc ≠ .off) : 0 < threadsLive s := by
  simp [threadsLive, h1, h2]

theorem threadsLive_pos_worker {s : State} {k : Nat} {p : WPc} (hk : s.wk[k]? = some p) (h1 : p ≠ .exited)
    (h2 : p ≠ .dead) : 0 < threadsLive s := by
  have hm : p ∈ s.wk.filter (fun p => p != .exited && p != .dead) := by
    rw [List.mem_filter]
    exact ⟨mem_of_getElem? hk, by simp [h1, h2]⟩
  have := List.length_pos_of_mem hm
  unfold threadsLive
  omega

end TDV.PM
