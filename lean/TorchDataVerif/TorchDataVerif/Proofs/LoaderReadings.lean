import TorchDataVerif.Model.Loader
/-!
The two readings of the Loader reference (`resumeReq`) give the same observations on histories in which
every `iter` is directly followed by a `next`.
-/
namespace TDV.Loader.Ref
open TDV.Node
open TDV.Loader (Obs Op iterThenNext)

/-- Same iterator up to the `req` bit. -/
def CurRel : Option RIt → Option RIt → Prop
  | none, none => True
  | some a, some b => a.e = b.e ∧ a.p = b.p
  | _, _ => False

/-- Runs of the two readings: everything equal, except possibly the `req` bit of an iterator that came from
a loaded state and was not advanced since — and then only while an `iter` could not start a new epoch from it. -/
structure D (a b : RSys) : Prop where
  toks : a.toks = b.toks
  pending : a.st.pending = b.st.pending
  reuse : a.st.reuse = b.st.reuse
  handle : a.st.handle = b.st.handle
  cur : CurRel a.st.cur b.st.cur
  safe : a.st.cur = b.st.cur ∨ (a.st.reuse = true ∧ a.st.cur ≠ none) ∨ a.st.pending ≠ none

section
variable (epochs : Nat → List Item) (restart : Bool)

theorem d_init : D RSys.init RSys.init := ⟨rfl, rfl, rfl, rfl, trivial, Or.inl rfl⟩

theorem step_other {a b : RSys} (h : D a b) (op : Op) (hop : op ≠ .iter) :
    (step epochs restart false a op).1 = (step epochs restart true b op).1 ∧
      D (step epochs restart false a op).2 (step epochs restart true b op).2 := by
  obtain ⟨⟨ca, pa, ra, ha⟩, ta⟩ := a
  obtain ⟨⟨cb, pb, rb, hb⟩, tb⟩ := b
  obtain ⟨h1, h2, h3, h4, h5, h6⟩ := h
  simp only at h1 h2 h3 h4 h5 h6
  subst h1 h2 h3 h4
  cases op with
  | iter => exact absurd rfl hop
  | next =>
    cases ha <;> rcases ca with _ | ⟨ea, qa, fa⟩ <;> rcases cb with _ | ⟨eb, qb, fb⟩ <;>
      simp_all [step, next, CurRel]
    · constructor <;> simp_all [CurRel]
    · constructor <;> simp_all [CurRel]
    · constructor <;> simp_all [CurRel]
    · obtain ⟨he, hq⟩ := h5
      subst he hq
      cases (epochs ea)[qa]? <;> simp <;> constructor <;> simp_all [CurRel]
  | stateDict =>
    rcases ca with _ | ⟨ea, qa, fa⟩ <;> rcases cb with _ | ⟨eb, qb, fb⟩ <;>
      rcases pa with _ | ⟨te, tp⟩ <;> simp_all [step, stateDict, start, CurRel] <;>
      (try split) <;> constructor <;> simp_all [CurRel]
  | peek =>
    rcases ca with _ | ⟨ea, qa, fa⟩ <;> rcases cb with _ | ⟨eb, qb, fb⟩ <;>
      rcases pa with _ | ⟨te, tp⟩ <;> simp_all [step, stateDict, start, CurRel] <;>
      (try split) <;> constructor <;> simp_all [CurRel]
  | load i =>
    simp only [step]
    cases ta[i]? with
    | none => exact ⟨rfl, ⟨rfl, rfl, rfl, rfl, h5, h6⟩⟩
    | some t =>
      cases ra with
      | false => exact ⟨rfl, ⟨rfl, rfl, rfl, rfl, h5, Or.inr (Or.inr (by simp [load]))⟩⟩
      | true => exact ⟨rfl, ⟨rfl, rfl, rfl, rfl, trivial, Or.inr (Or.inr (by simp [load]))⟩⟩
  | abandon => exact ⟨rfl, ⟨rfl, rfl, rfl, rfl, h5, h6⟩⟩
  | fresh => exact ⟨rfl, ⟨rfl, rfl, rfl, rfl, trivial, Or.inl rfl⟩⟩

/-- `iter` then `next`. -/
theorem step_iter_next {a b : RSys} (h : D a b) :
    (step epochs restart false (step epochs restart false a .iter).2 .next).1 =
      (step epochs restart true (step epochs restart true b .iter).2 .next).1 ∧
    D (step epochs restart false (step epochs restart false a .iter).2 .next).2
      (step epochs restart true (step epochs restart true b .iter).2 .next).2 := by
  obtain ⟨⟨ca, pa, ra, ha⟩, ta⟩ := a
  obtain ⟨⟨cb, pb, rb, hb⟩, tb⟩ := b
  obtain ⟨h1, h2, h3, h4, h5, h6⟩ := h
  simp only at h1 h2 h3 h4 h5 h6
  subst h1 h2 h3 h4
  rcases ca with _ | ⟨ea, qa, fa⟩ <;> rcases cb with _ | ⟨eb, qb, fb⟩ <;>
    rcases pa with _ | ⟨te, tp⟩ <;> cases ra <;> cases restart <;>
    simp_all [step, iter, start, next, CurRel] <;>
    (try split) <;> (try split) <;> (try constructor) <;> simp_all [CurRel] <;>
    (try constructor) <;> simp_all [CurRel]

theorem obs_agree (ops : List Op) (hops : iterThenNext ops = true) {a b : RSys} (h : D a b) :
    obs epochs restart false a ops = obs epochs restart true b ops := by
  induction ops using iterThenNext.induct generalizing a b with
  | case1 => rfl
  | case2 => rfl
  | case3 ops ih =>
    have hs := step_iter_next epochs restart h
    simp only [iterThenNext] at hops
    simp only [obs]
    rw [hs.1, ih hops hs.2]
    rfl
  | case4 tail h1 h2 =>
    cases tail with
    | nil => exact absurd rfl h1
    | cons t tl =>
      cases t with
      | next => exact absurd rfl (h2 tl)
      | _ => simp [iterThenNext] at hops
  | case5 op ops _ _ hne ih =>
    have hs := step_other epochs restart h op (fun hc => hne hc)
    have hops' : iterThenNext ops = true := by
      cases op with
      | iter => exact absurd rfl hne
      | _ => simpa [iterThenNext] using hops
    simp only [obs]
    rw [hs.1, ih hops' hs.2]

end
end TDV.Loader.Ref
