import TorchDataVerif.Proofs.MPUnCore
/-!
# MPU, `in_order = False`: `_try_put_index` keeps the protocol invariant
-/
namespace TDV.MPU
open TDV.MP

theorem dispatchTo_fields (c : Cfg) (s : State) (w cyc : Nat) :
    (dispatchTo c s w cyc).status = s.status ∧ (dispatchTo c s w cyc).rcvdIdx = s.rcvdIdx ∧
    (dispatchTo c s w cyc).sendIdx = s.sendIdx + 1 ∧ (dispatchTo c s w cyc).resQ = s.resQ ∧
    (dispatchTo c s w cyc).info = s.info ++ [⟨s.sendIdx, w, none⟩] ∧
    (dispatchTo c s w cyc).numTasks = s.numTasks.modify w (· + 1) ∧ (dispatchTo c s w cyc).cyc = cyc ∧
    (dispatchTo c s w cyc).samplerPos = s.samplerPos + 1 ∧
    ∃ p sn, (dispatchTo c s w cyc).workers = pushMsg s.workers w (.task s.sendIdx p sn) :=
  ⟨rfl, rfl, rfl, rfl, rfl, rfl, rfl, rfl, _, _, rfl⟩

theorem UCore_dispatch (c : Cfg) (s : State) (w cyc : Nat) (h : UCore c s) (hw : w < c.W)
    (hg : goodW c s w = true) (hc : cyc < c.W) : UCore c (dispatchTo c s w cyc) := by
  obtain ⟨e1, e2, e3, e4, e5, e6, e7, _, p, sn, e8⟩ := dispatchTo_fields c s w cyc
  generalize dispatchTo c s w cyc = s' at *
  have hup : ∀ v, up s' v = up s v := fun v => by simp [up, e1]
  have hcap : capOf c s' = capOf c s := by simp [capOf, e1]
  simp only [goodW, Bool.and_eq_true, decide_eq_true_eq] at hg
  obtain ⟨hupw, hlt⟩ := hg
  have hwl : w < s.workers.length := by rw [h.wl]; exact hw
  have hfl : (flight s').Perm (s.sendIdx :: flight s) := by
    simp only [flight, e8, e4]
    exact (List.Perm.append_right _ (qIdxs_push s.workers w s.sendIdx p sn hwl)).trans (by simp)
  have hnew : s.sendIdx ∉ flight s := fun hm => Nat.lt_irrefl _ (h.flt _ hm)
  constructor
  · rw [e1]; exact h.stl
  · rw [e6]; simp [h.ntl]
  · rw [e8]; simp [pushMsg, h.wl]
  · rw [e7]; exact hc
  · rw [e2, e3]; have := h.rs; omega
  · rw [e5]; intro e he
    rcases List.mem_append.mp he with h1 | h1
    · exact h.rnone e h1
    · simp at h1; subst h1; rfl
  · rw [e5, List.map_append, List.nodup_append]
    refine ⟨h.ind, by simp, ?_⟩
    intro a ha b hb
    simp at hb; subst hb
    obtain ⟨e, he, rfl⟩ := List.mem_map.mp ha
    have := (h.irng e he).2.1
    omega
  · rw [e5, e2, e3]; intro e he
    rcases List.mem_append.mp he with h1 | h1
    · obtain ⟨a1, a2, a3⟩ := h.irng e h1
      exact ⟨a1, by omega, a3⟩
    · simp at h1; subst h1
      exact ⟨h.rs, by simp, hw⟩
  · intro v hv hu
    rw [hup] at hu
    rw [e6, e5, entriesOf_append, getD_modify _ _ _ _ (Or.inr (by rw [h.ntl]; exact hw)), h.cnt v hv hu]
    by_cases hwv : w = v <;> simp [hwv]
  · intro v hv hu
    rw [hup] at hu
    rw [e6, hcap, getD_modify _ _ _ _ (Or.inr (by rw [h.ntl]; exact hw))]
    by_cases hwv : w = v
    · rw [if_pos hwv, ← hwv]; omega
    · simp only [hwv, if_false]; exact h.cap v hv hu
  · exact (hfl.nodup_iff).mpr (List.nodup_cons.mpr ⟨hnew, h.fnd⟩)
  · intro i hi
    rw [e3]
    rcases List.mem_cons.mp (hfl.subset hi) with h1 | h1
    · omega
    · have := h.flt i h1; omega
  · intro v k hk hu i hi
    rw [hup] at hu
    rw [e8] at hk
    obtain ⟨k0, hk0, _, _, _, hq⟩ := pushMsg_get _ _ _ _ _ hk
    rw [hq] at hi
    rw [e5]
    split at hi
    · rename_i hwv
      rw [taskIdxs_append] at hi
      rcases List.mem_append.mp hi with h1 | h1
      · exact List.mem_append_left _ (h.fq v k0 hk0 hu i h1)
      · simp [taskIdxs] at h1; subst h1; subst hwv; simp
    · exact List.mem_append_left _ (h.fq v k0 hk0 hu i hi)
  · intro r hr hu
    rw [hup] at hu
    rw [e4] at hr
    rw [e5]
    exact List.mem_append_left _ (h.fr r hr hu)
  · intro v k hk
    rw [e8] at hk
    obtain ⟨k0, hk0, _, _, _, hq⟩ := pushMsg_get _ _ _ _ _ hk
    rw [hq]
    have := h.nores v k0 hk0
    split
    · simp [this]
    · exact this
  · rw [e4]; exact h.rw

/-- The three outcomes of `_try_put_index` with `in_order = False`. -/
theorem tryPut_cases (c : Cfg) (s : State) (hio : c.inOrder = false) (hW : 0 < c.W) (hc : s.cyc < c.W) :
    (c.iterable = false ∧ c.batches.length ≤ s.samplerPos ∧
      tryPut c s = { s with bad := s.bad || decide (c.P * c.W ≤ s.outstanding) }) ∨
    ((c.iterable = true ∨ s.samplerPos < c.batches.length) ∧ (∀ w, w < c.W → goodW c s w = false) ∧
      ∃ cyc', cyc' < c.W ∧ tryPut c s =
        { s with samplerPos := s.samplerPos + 1, cyc := cyc', bad := s.bad || decide (c.P * c.W ≤ s.outstanding) }) ∨
    ((c.iterable = true ∨ s.samplerPos < c.batches.length) ∧
      ∃ w cyc', goodW c s w = true ∧ w < c.W ∧ cyc' < c.W ∧ tryPut c s = dispatchTo c s w cyc') := by
  unfold tryPut
  by_cases hex : (!c.iterable && decide (c.batches.length ≤ s.samplerPos)) = true
  · left
    simp only [Bool.and_eq_true, Bool.not_eq_true', decide_eq_true_eq] at hex
    exact ⟨hex.1, hex.2, by simp [hex.1, hex.2]⟩
  · right
    have hne : c.iterable = true ∨ s.samplerPos < c.batches.length := by
      simp only [Bool.and_eq_true, Bool.not_eq_true', decide_eq_true_eq, not_and, Nat.not_le] at hex
      cases hi : c.iterable with
      | true => exact Or.inl rfl
      | false => exact Or.inr (hex hi)
    rw [if_neg hex]
    rcases hf : findWorker c s c.W s.cyc with ⟨_ | w, cyc'⟩
    · left
      obtain ⟨h1, h2⟩ := findWorker_none c s hio hW c.W s.cyc cyc' hc hf
      refine ⟨hne, fun w hw => ?_, cyc', h2, rfl⟩
      obtain ⟨j, hj, hjw⟩ := cyc_cover c.W s.cyc w hc hw
      rw [← hjw]; exact h1 j hj
    · right
      obtain ⟨h1, h2, h3⟩ := findWorker_sound c s hio hW c.W s.cyc w cyc' hc hf
      exact ⟨hne, w, cyc', h1, h2, h3, rfl⟩

theorem UCore_tryPut (c : Cfg) (s : State) (hio : c.inOrder = false) (hW : 0 < c.W) (h : UCore c s) :
    UCore c (tryPut c s) := by
  rcases tryPut_cases c s hio hW h.cyc with ⟨_, _, he⟩ | ⟨_, _, cyc', hc, he⟩ | ⟨_, w, cyc', hg, hw, hc, he⟩
  · rw [he]; exact UCore_of_eq c s _ h rfl rfl rfl h.cyc rfl rfl rfl rfl
  · rw [he]; exact UCore_of_eq c s _ h rfl rfl rfl hc rfl rfl rfl rfl
  · rw [he]; exact UCore_dispatch c s w cyc' h hw hg hc

end TDV.MPU
