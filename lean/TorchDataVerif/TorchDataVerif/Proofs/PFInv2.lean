import TorchDataVerif.Proofs.PFInv
/-! `Inv` is preserved by the consumer actions; `inv_step`, `inv_run`. -/
namespace TDV.PF

theorem inv_cBoot {c s s'} (h : Inv c s) (hs : step c s .cBoot = some s') : Inv c s' := by
  simp only [step, Action.isReader, stepC, Bool.false_eq_true, if_false] at hs
  split at hs
  · cases hs
    obtain ⟨p1, p2, p3, p4, p5, p6, p7, p8, p9, p10, p11, p12, p13, p14, p15, p16, p17, p18, p19, p20⟩ := h
    cases hse : c.startErr <;> inv_close
  · cases hs

theorem inv_cBootT {c s s'} (h : Inv c s) (hs : step c s .cBootT = some s') : Inv c s' := by
  simp only [step, Action.isReader, stepC, Bool.false_eq_true, if_false] at hs
  split at hs
  · cases hs; exact h
  · cases hs

theorem inv_cCall {c s s'} (h : Inv c s) (hs : step c s .cCall = some s') : Inv c s' := by
  simp only [step, Action.isReader, stepC, Bool.false_eq_true, if_false] at hs
  split at hs
  · cases hs
    obtain ⟨p1, p2, p3, p4, p5, p6, p7, p8, p9, p10, p11, p12, p13, p14, p15, p16, p17, p18, p19, p20⟩ := h
    inv_close
  · cases hs

theorem inv_cIsSet {c s s'} (h : Inv c s) (hs : step c s .cIsSet = some s') : Inv c s' := by
  simp only [step, Action.isReader, stepC, Bool.false_eq_true, if_false] at hs
  split at hs
  · obtain ⟨p1, p2, p3, p4, p5, p6, p7, p8, p9, p10, p11, p12, p13, p14, p15, p16, p17, p18, p19, p20⟩ := h
    split at hs <;> cases hs <;> inv_close
  · cases hs

theorem inv_cGetT {c s s'} (h : Inv c s) (hs : step c s .cGetT = some s') : Inv c s' := by
  simp only [step, Action.isReader, stepC, Bool.false_eq_true, if_false] at hs
  split at hs
  · cases hs
    obtain ⟨p1, p2, p3, p4, p5, p6, p7, p8, p9, p10, p11, p12, p13, p14, p15, p16, p17, p18, p19, p20⟩ := h
    inv_close
  · cases hs

theorem inv_cShut {c s s'} (h : Inv c s) (hs : step c s .cShut = some s') : Inv c s' := by
  simp only [step, Action.isReader, stepC, Bool.false_eq_true, if_false] at hs
  split at hs
  · rename_i hpc
    cases hs
    obtain ⟨p1, p2, p3, p4, p5, p6, p7, p8, p9, p10, p11, p12, p13, p14, p15, p16, p17, p18, p19, p20⟩ := h
    rcases hpc with hpc | hpc | hpc <;> inv_close
  · cases hs

theorem inv_cJoin {c s s'} (h : Inv c s) (hs : step c s .cJoin = some s') : Inv c s' := by
  simp only [step, Action.isReader, stepC, Bool.false_eq_true, if_false] at hs
  split at hs
  · cases hs
    obtain ⟨p1, p2, p3, p4, p5, p6, p7, p8, p9, p10, p11, p12, p13, p14, p15, p16, p17, p18, p19, p20⟩ := h
    inv_close
  · cases hs

theorem inv_cJoinT {c s s'} (h : Inv c s) (hs : step c s .cJoinT = some s') : Inv c s' := by
  simp only [step, Action.isReader, stepC, Bool.false_eq_true, if_false] at hs
  split at hs
  · cases hs
    obtain ⟨p1, p2, p3, p4, p5, p6, p7, p8, p9, p10, p11, p12, p13, p14, p15, p16, p17, p18, p19, p20⟩ := h
    inv_close
  · cases hs
theorem inv_cGet {c s s'} (h : Inv c s) (hs : step c s .cGet = some s') : Inv c s' := by
  simp only [step, Action.isReader, stepC, Bool.false_eq_true, if_false] at hs
  split at hs
  · split at hs
    · rename_i hpc m r hq
      cases hs
      obtain ⟨p1, p2, p3, p4, p5, p6, p7, p8, p9, p10, p11, p12, p13, p14, p15, p16, p17, p18, p19, p20⟩ := h
      inv_close
    · cases hs
  · cases hs

theorem inv_cRel {c s s'} (h : Inv c s) (hs : step c s .cRel = some s') : Inv c s' := by
  simp only [step, Action.isReader, stepC, Bool.false_eq_true, if_false] at hs
  split at hs
  · split at hs
    · rename_i m hpc hsem
      cases hs
      obtain ⟨p1, p2, p3, p4, p5, p6, p7, p8, p9, p10, p11, p12, p13, p14, p15, p16, p17, p18, p19, p20⟩ := h
      cases hit : m.pay.isItem <;> inv_close
    · cases hs
  · cases hs

theorem appended_le (s : State) : appended s ≤ s.pulled := by
  unfold appended; split <;> omega

theorem hand_nitem {c s m} (h : Inv c s) (hm : cMsg s.cpc = [m]) (hit : m.pay.isItem = false) :
    c.src.length ≤ s.got.length := by
  obtain ⟨e1, _⟩ := hand_eq h hm
  have := (msgAt_isItem c s.got.length)
  rw [← e1] at this
  cases hlt : decide (s.got.length < c.src.length) <;> simp_all

theorem inv_cSet {c s s'} (h : Inv c s) (hs : step c s .cSet = some s') : Inv c s' := by
  simp only [step, Action.isReader, stepC, Bool.false_eq_true, if_false] at hs
  split at hs
  · rename_i m hpc
    cases hs
    have hni := h.set_nitem m hpc
    have hL := hand_nitem h (by simp [cMsg, hpc]) hni
    have ha := appended_le s
    have hp := h.pulled_le
    have e1 : min (s.got.length + 1) c.src.length = min s.got.length c.src.length := by omega
    have e2 : appended s - s.got.length = 0 := by omega
    have e3 : appended s - (s.got.length + 1) = 0 := by omega
    simp only [appended] at e2 e3
    clear ha
    obtain ⟨p1, p2, p3, p4, p5, p6, p7, p8, p9, p10, p11, p12, p13, p14, p15, p16, p17, p18, p19, p20⟩ := h
    constructor <;> simp_all [held, rHold, cHold, hist, cMsg, rMsg, npro, storeOf, appended] <;> try omega
  · cases hs

theorem inv_cPop {c s s'} (h : Inv c s) (hs : step c s .cPop = some s') : Inv c s' := by
  simp only [step, Action.isReader, stepC, Bool.false_eq_true, if_false] at hs
  split at hs
  · rename_i m hpc
    have hit := h.pop_item m hpc
    have hm : cMsg s.cpc = [m] := by simp [cMsg, hpc]
    obtain ⟨e1, _⟩ := hand_eq h hm
    obtain ⟨hL, hA⟩ := hand_item h hm hit
    have hidx : m.idx = s.got.length := by rw [e1, msgAt_idx]
    have hcnt : appended s - s.got.length = (appended s - (s.got.length + 1)) + 1 := by omega
    have hpv := popVersion_storeOf c s.got.length (appended s - (s.got.length + 1))
    rw [← hcnt, ← h.store_eq] at hpv
    rw [hidx, hpv] at hs
    have m1 : min s.got.length c.src.length = s.got.length := by omega
    have m2 : min (s.got.length + 1) c.src.length = s.got.length + 1 := by omega
    have hj := jstar_succ c s.got.length
    have hjl := jstar_le c.f s.got.length
    have hA' : s.got.length < s.pulled := Nat.lt_of_lt_of_le hA (appended_le s)
    simp only [appended] at hA hcnt
    obtain ⟨p1, p2, p3, p4, p5, p6, p7, p8, p9, p10, p11, p12, p13, p14, p15, p16, p17, p18, p19, p20⟩ := h
    cases hsn : snapAt c s.got.length
    · simp [hsn] at hs
      cases hs
      constructor <;> simp_all [held, rHold, cHold, hist, cMsg, rMsg, npro, appended] <;> try omega
    · simp [hsn] at hs
      cases hs
      constructor <;> simp_all [held, rHold, cHold, hist, cMsg, rMsg, npro, appended] <;> try omega
  · cases hs

theorem inv_step {c s s'} (a : Action) (h : Inv c s) (hs : step c s a = some s') : Inv c s' := by
  cases a
  · exact inv_rInit h hs
  · exact inv_rIsSet h hs
  · exact inv_rAcq h hs
  · exact inv_rAcqT h hs
  · exact inv_rEnter h hs
  · exact inv_rLeave h hs
  · exact inv_rAppend h hs
  · exact inv_rPut h hs
  · exact inv_rExit h hs
  · exact inv_cBoot h hs
  · exact inv_cBootT h hs
  · exact inv_cCall h hs
  · exact inv_cIsSet h hs
  · exact inv_cGet h hs
  · exact inv_cGetT h hs
  · exact inv_cRel h hs
  · exact inv_cSet h hs
  · exact inv_cPop h hs
  · exact inv_cShut h hs
  · exact inv_cJoin h hs
  · exact inv_cJoinT h hs

theorem inv_run {c s s'} (as : List Action) (h : Inv c s) (hr : run c s as = some s') : Inv c s' := by
  induction as generalizing s with
  | nil => simp [run] at hr; exact hr ▸ h
  | cons a as ih =>
    simp only [run] at hr
    split at hr
    · rename_i s1 h1
      exact ih (inv_step a h h1) hr
    · cases hr

theorem inv_reachable {c s} (h : Reachable c s) : Inv c s := by
  obtain ⟨as, hr⟩ := h
  exact inv_run as (inv_init c) hr

end TDV.PF
