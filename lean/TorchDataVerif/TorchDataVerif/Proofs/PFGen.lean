import TorchDataVerif.Model.PF
/-! Generation layer of `TDV.PF`: if no timed join gives up, every abandoned reader has exited. -/
namespace TDV.PF

/-- per-generation fact used below: if no join ever gave up, a closed iterator's reader has exited -/
def Joined (s : State) : Prop := s.cpc = .closed → s.rpc = .exited

theorem joined_step {c : Cfg} {s s' : State} (a : Action) (hj : Joined s) (hs : step c s a = some s')
    (hne : a ≠ .cJoinT) : Joined s' := by
  unfold Joined at *
  cases a <;> simp at hne <;>
    simp only [step, Action.isReader, stepR, stepC, if_true, Bool.false_eq_true, if_false] at hs <;>
    (repeat' split at hs) <;> cases hs <;> simp_all

theorem exited_no_reader_step {c : Cfg} {s : State} (a : Action) (ha : a.isReader = true) (he : s.rpc = .exited) :
    step c s a = none := by
  cases a <;> simp [Action.isReader] at ha <;> simp [step, Action.isReader, stepR, he]

theorem sum_map_zero {α : Type} (l : List α) (f : α → Nat) (h : ∀ x ∈ l, f x = 0) : (l.map f).sum = 0 := by
  induction l with
  | nil => rfl
  | cons x r ih =>
    simp only [List.map_cons, List.sum_cons, h x (by simp), Nat.zero_add]
    exact ih (fun y hy => h y (by simp [hy]))

def GInv (g : GState) : Prop := Joined g.cur ∧ ∀ p ∈ g.old, p.2.rpc = .exited

theorem ginv_step {g g' : GState} (a : GAction) (hi : GInv g) (hs : gstep g a = some g')
    (hne : a.isJoinGiveUp = false) : GInv g' := by
  obtain ⟨hj, ho⟩ := hi
  cases a with
  | cur a =>
    simp only [gstep, Option.map_eq_some_iff] at hs
    obtain ⟨s', h1, rfl⟩ := hs
    refine ⟨joined_step a hj h1 ?_, ho⟩
    intro e; subst e; simp [GAction.isJoinGiveUp] at hne
  | old i a =>
    simp only [gstep] at hs
    split at hs
    · rename_i har
      split at hs
      · rename_i c s hget
        have hmem : (c, s) ∈ g.old := List.mem_of_getElem? hget
        have := exited_no_reader_step (c := c) a har (ho _ hmem)
        simp [this] at hs
      · cases hs
    · cases hs
  | reset c =>
    simp only [gstep] at hs
    split at hs
    · rename_i hcl
      cases hs
      refine ⟨by simp [Joined, init], ?_⟩
      intro p hp
      simp at hp
      rcases hp with rfl | hp
      · exact hj hcl
      · exact ho p hp
    · cases hs

theorem ginv_run {g g' : GState} (as : List GAction) (hi : GInv g) (hr : grun g as = some g')
    (hne : ∀ a ∈ as, a.isJoinGiveUp = false) : GInv g' := by
  induction as generalizing g with
  | nil => simp [grun] at hr; exact hr ▸ hi
  | cons a as ih =>
    simp only [grun] at hr
    split at hr
    · rename_i g1 h1
      exact ih (ginv_step a hi h1 (hne a (by simp))) hr (fun b hb => hne b (by simp [hb]))
    · cases hr


end TDV.PF
