import TorchDataVerif.Model.Weighted
/-! Helper lemmas for M3 `weighted` (property theorems live in `Props/C14.lean`). -/
namespace TDV.Weighted

variable {n : Nat}

/-! ## Basics -/

@[simp] theorem upd_same {α : Type} (f : Fin n → α) (k : Fin n) (v : α) : upd f k v k = v := by
  simp [upd]

@[simp] theorem upd_ne {α : Type} (f : Fin n → α) {j k : Fin n} (v : α) (h : j ≠ k) : upd f k v j = f j := by
  simp [upd, h]

theorem allB_iff (f : Fin n → Bool) : allB f = true ↔ ∀ k, f k = true := by
  simp [allB, List.all_eq_true]

theorem anyB_iff (f : Fin n → Bool) : anyB f = true ↔ ∃ k, f k = true := by
  simp [anyB, List.any_eq_true]

theorem allB_false_iff (f : Fin n → Bool) : allB f = false ↔ ∃ k, f k = false := by
  rw [← Bool.not_eq_true, allB_iff]
  constructor
  · intro h
    apply Classical.byContradiction
    intro h2
    apply h
    intro k
    cases hk : f k with
    | true => rfl
    | false => exact absurd ⟨k, hk⟩ h2
  · rintro ⟨k, hk⟩ h
    simp [h k] at hk

theorem shouldStop_forever (e : Fin n → Bool) : shouldStop .forever e = false := by
  simp [shouldStop]

theorem shouldStop_all (e : Fin n → Bool) : shouldStop .allExh e = allB e := by
  simp [shouldStop]

theorem shouldStop_cycleUntil (e : Fin n → Bool) : shouldStop .cycleUntil e = allB e := by
  simp [shouldStop]

theorem shouldStop_first (e : Fin n → Bool) : shouldStop .firstExh e = (allB e || anyB e) := by
  simp only [shouldStop]
  cases allB e <;> cases anyB e <;> simp

/-! ## `occ` -/

@[simp] theorem occ_zero (c : Nat → Fin n) (k : Fin n) : occ c k 0 = 0 := rfl

theorem occ_succ_self (c : Nat → Fin n) (i : Nat) : occ c (c i) (i + 1) = occ c (c i) i + 1 := by
  simp [occ]

theorem occ_succ_ne (c : Nat → Fin n) (k : Fin n) (i : Nat) (h : c i ≠ k) : occ c k (i + 1) = occ c k i := by
  simp [occ, h]

theorem occ_mono (c : Nat → Fin n) (k : Fin n) {i j : Nat} (h : i ≤ j) : occ c k i ≤ occ c k j := by
  induction j with
  | zero =>
    have : i = 0 := by omega
    subst this; exact Nat.le_refl _
  | succ j ih =>
    by_cases hij : i = j + 1
    · subst hij; exact Nat.le_refl _
    · have := ih (by omega)
      simp only [occ]
      omega

/-! ## `outK`, `keys` -/

@[simp] theorem outK_nil (k : Fin n) : outK k ([] : List (Fin n × Item)) = [] := rfl

theorem outK_append_self (k : Fin n) (l : List (Fin n × Item)) (x : Item) :
    outK k (l ++ [(k, x)]) = outK k l ++ [x] := by
  simp [outK, List.filter_append]

theorem outK_append_ne {j k : Fin n} (l : List (Fin n × Item)) (x : Item) (h : j ≠ k) :
    outK j (l ++ [(k, x)]) = outK j l := by
  have h' : ¬ k = j := fun e => h e.symm
  simp [outK, List.filter_append, h']

theorem outK_append (j k : Fin n) (l : List (Fin n × Item)) (x : Item) :
    outK j (l ++ [(k, x)]) = if j = k then outK j l ++ [x] else outK j l := by
  by_cases h : j = k
  · subst h; simp [outK_append_self]
  · simp [h, outK_append_ne l x h]

@[simp] theorem keys_nil : keys ([] : List (Fin n × Item)) = [] := rfl

theorem keys_append (l : List (Fin n × Item)) (k : Fin n) (x : Item) : keys (l ++ [(k, x)]) = keys l ++ [k] := by
  simp [keys]

theorem take_succ_of_getElem? {l : List Item} {p : Nat} {x : Item} (h : l[p]? = some x) :
    l.take (p + 1) = l.take p ++ [x] := by
  rw [List.take_add_one, h]
  rfl

theorem getElem?_none_iff_le {l : List Item} {p : Nat} : l[p]? = none ↔ l.length ≤ p := by
  simp

/-! ## Case analysis of one loop iteration -/

/-- The six ways through `body`. -/
theorem body_cases (cfg : Cfg n) (k : Fin n) (s : Core n) :
    (s.exh k = true ∧ cfg.crit = .allExh ∧ body cfg k s = (.skip, s)) ∨
    (¬(s.exh k = true ∧ cfg.crit = .allExh) ∧ ∃ x, (cfg.src k)[s.pos k]? = some x ∧
      body cfg k s = (.item k x, { s with pos := upd s.pos k (s.pos k + 1), yielded := s.yielded + 1 })) ∨
    (¬(s.exh k = true ∧ cfg.crit = .allExh) ∧ (cfg.src k).length ≤ s.pos k ∧
      shouldStop cfg.crit (upd s.exh k true) = true ∧
      body cfg k s = (.stop, { s with exh := upd s.exh k true })) ∨
    (s.exh k = false ∧ (cfg.src k).length ≤ s.pos k ∧ shouldStop cfg.crit (upd s.exh k true) = false ∧
      cfg.crit = .allExh ∧ body cfg k s = (.skip, { s with exh := upd s.exh k true })) ∨
    ((cfg.src k).length ≤ s.pos k ∧ shouldStop cfg.crit (upd s.exh k true) = false ∧ cfg.crit ≠ .allExh ∧
      ∃ x, (cfg.src k)[0]? = some x ∧
      body cfg k s = (.item k x, { s with exh := upd s.exh k true, pos := upd s.pos k 1, yielded := s.yielded + 1 })) ∨
    ((cfg.src k).length ≤ s.pos k ∧ shouldStop cfg.crit (upd s.exh k true) = false ∧ cfg.crit ≠ .allExh ∧
      cfg.src k = [] ∧
      body cfg k s = (.stop, { s with exh := upd s.exh k true, pos := upd s.pos k 0 })) := by
  by_cases hg : s.exh k = true ∧ cfg.crit = .allExh
  · left; exact ⟨hg.1, hg.2, by simp [body, hg]⟩
  · right
    cases hp : (cfg.src k)[s.pos k]? with
    | some x => left; exact ⟨hg, x, rfl, by simp [body, hg, hp]⟩
    | none =>
      right
      have hlen : (cfg.src k).length ≤ s.pos k := by simpa using hp
      by_cases hs : shouldStop cfg.crit (upd s.exh k true) = true
      · left; exact ⟨hg, hlen, hs, by simp [body, hg, hp, hs]⟩
      · right
        have hs' : shouldStop cfg.crit (upd s.exh k true) = false := by simpa using hs
        by_cases hc : cfg.crit = .allExh
        · left
          have he : s.exh k = false := by
            cases h : s.exh k with
            | false => rfl
            | true => exact absurd ⟨h, hc⟩ hg
          have hs2 : shouldStop Crit.allExh (upd s.exh k true) = false := hc ▸ hs'
          exact ⟨he, hlen, hs', hc, by simp [body, hp, hc, he, hs2]⟩
        · right
          cases h0 : (cfg.src k)[0]? with
          | some x => left; exact ⟨hlen, hs', hc, x, rfl, by simp [body, hp, hs', hc, h0]⟩
          | none =>
            right
            have : cfg.src k = [] := by simpa using h0
            exact ⟨hlen, hs', hc, this, by simp [body, hp, hs', hc, h0]⟩

/-- `advance` on a run that has not stopped. -/
theorem advance_eq (cfg : Cfg n) (c : Nat → Fin n) (r : Run n) (h : r.stopped = false) :
    advance cfg c r =
      if shouldStop cfg.crit r.st.core.exh = true then ⟨r.outs, r.st, true⟩
      else
        match body cfg (c r.st.sp) r.st.core with
        | (.item k x, co) => ⟨r.outs ++ [(k, x)], ⟨co, r.st.sp + 1⟩, false⟩
        | (.skip, co) => ⟨r.outs, ⟨co, r.st.sp + 1⟩, false⟩
        | (.stop, co) => ⟨r.outs, ⟨co, r.st.sp + 1⟩, true⟩ := by
  unfold advance step
  simp only [h, Bool.false_eq_true, if_false]
  by_cases hs : shouldStop cfg.crit r.st.core.exh = true
  · simp [hs]
  · simp only [hs]
    cases hb : body cfg (c r.st.sp) r.st.core with
    | mk e co => cases e <;> rfl

theorem advance_pre (cfg : Cfg n) (c : Nat → Fin n) (r : Run n) (h : r.stopped = false)
    (hs : shouldStop cfg.crit r.st.core.exh = true) : advance cfg c r = ⟨r.outs, r.st, true⟩ := by
  rw [advance_eq _ _ _ h]; simp [hs]

theorem advance_item (cfg : Cfg n) (c : Nat → Fin n) (r : Run n) (h : r.stopped = false)
    (hs : shouldStop cfg.crit r.st.core.exh = false) {k j : Fin n} {x : Item} {co : Core n} (hk : c r.st.sp = k)
    (hb : body cfg k r.st.core = (.item j x, co)) :
    advance cfg c r = ⟨r.outs ++ [(j, x)], ⟨co, r.st.sp + 1⟩, false⟩ := by
  rw [advance_eq _ _ _ h, hk, hb]; simp [hs]

theorem advance_skip (cfg : Cfg n) (c : Nat → Fin n) (r : Run n) (h : r.stopped = false)
    (hs : shouldStop cfg.crit r.st.core.exh = false) {k : Fin n} {co : Core n} (hk : c r.st.sp = k)
    (hb : body cfg k r.st.core = (.skip, co)) :
    advance cfg c r = ⟨r.outs, ⟨co, r.st.sp + 1⟩, false⟩ := by
  rw [advance_eq _ _ _ h, hk, hb]; simp [hs]

theorem advance_stop (cfg : Cfg n) (c : Nat → Fin n) (r : Run n) (h : r.stopped = false)
    (hs : shouldStop cfg.crit r.st.core.exh = false) {k : Fin n} {co : Core n} (hk : c r.st.sp = k)
    (hb : body cfg k r.st.core = (.stop, co)) :
    advance cfg c r = ⟨r.outs, ⟨co, r.st.sp + 1⟩, true⟩ := by
  rw [advance_eq _ _ _ h, hk, hb]; simp [hs]

theorem advance_stopped (cfg : Cfg n) (c : Nat → Fin n) (r : Run n) (h : r.stopped = true) :
    advance cfg c r = r := by
  simp [advance, h]

theorem runFrom_succ (cfg : Cfg n) (c : Nat → Fin n) (s : St n) (t : Nat) :
    runFrom cfg c s (t + 1) = advance cfg c (runFrom cfg c s t) := rfl

theorem run_succ (cfg : Cfg n) (c : Nat → Fin n) (t : Nat) :
    run cfg c (t + 1) = advance cfg c (run cfg c t) := rfl

theorem runFrom_stopped_stable (cfg : Cfg n) (c : Nat → Fin n) (s : St n) (t d : Nat)
    (h : (runFrom cfg c s t).stopped = true) : runFrom cfg c s (t + d) = runFrom cfg c s t := by
  induction d with
  | zero => rfl
  | succ d ih =>
    rw [← Nat.add_assoc, runFrom_succ, ih, advance_stopped _ _ _ h]

theorem runFrom_stopped_mono (cfg : Cfg n) (c : Nat → Fin n) (s : St n) {t u : Nat} (htu : t ≤ u)
    (h : (runFrom cfg c s t).stopped = true) : runFrom cfg c s u = runFrom cfg c s t := by
  obtain ⟨d, rfl⟩ := Nat.exists_eq_add_of_le htu
  exact runFrom_stopped_stable cfg c s t d h

theorem flatten_replicate_succ (q : Nat) (l : List Item) :
    (List.replicate (q + 1) l).flatten = (List.replicate q l).flatten ++ l := by
  rw [List.replicate_succ']
  simp

/-! ## Per-source order, every criterion, every source length -/

/-- What has been emitted for source `k` is `q` whole passes plus the part of the current pass before `pos k`. -/
def PSO (cfg : Cfg n) (r : Run n) : Prop :=
  ∀ k, r.st.core.pos k ≤ (cfg.src k).length ∧
    ∃ q, outK k r.outs = (List.replicate q (cfg.src k)).flatten ++ (cfg.src k).take (r.st.core.pos k) ∧
      (cfg.crit = .allExh ∨ cfg.crit = .firstExh → q = 0)

theorem shouldStop_first_upd (e : Fin n → Bool) (k : Fin n) : shouldStop .firstExh (upd e k true) = true := by
  rw [shouldStop_first]
  have : anyB (upd e k true) = true := (anyB_iff _).2 ⟨k, by simp⟩
  simp [this]

theorem PSO_advance (cfg : Cfg n) (c : Nat → Fin n) (r : Run n) (h : PSO cfg r) : PSO cfg (advance cfg c r) := by
  cases hst : r.stopped with
  | true => rw [advance_stopped _ _ _ hst]; exact h
  | false =>
    cases hs : shouldStop cfg.crit r.st.core.exh with
    | true => rw [advance_pre _ _ _ hst hs]; exact h
    | false =>
      generalize hk : c r.st.sp = k
      rcases body_cases cfg k r.st.core with ⟨_, _, hb⟩ | ⟨_, x, hx, hb⟩ | ⟨_, _, _, hb⟩ | ⟨_, _, _, _, hb⟩ |
        ⟨hlen, hs1, hc, x, hx, hb⟩ | ⟨hlen, _, _, hnil, hb⟩
      · rw [advance_skip _ _ _ hst hs hk hb]; exact h
      · rw [advance_item _ _ _ hst hs hk hb]
        intro j
        obtain ⟨hle, q, hq, hq0⟩ := h j
        by_cases hjk : j = k
        · subst hjk
          have hlt : r.st.core.pos j < (cfg.src j).length := (List.getElem?_eq_some_iff.1 hx).1
          refine ⟨by simp; omega, q, ?_, hq0⟩
          simp only [upd_same, outK_append_self, hq, take_succ_of_getElem? hx, List.append_assoc]
        · refine ⟨by simpa [hjk] using hle, q, ?_, hq0⟩
          simp only [upd_ne _ _ hjk, outK_append_ne _ _ hjk, hq]
      · rw [advance_stop _ _ _ hst hs hk hb]; exact h
      · rw [advance_skip _ _ _ hst hs hk hb]; exact h
      · rw [advance_item _ _ _ hst hs hk hb]
        intro j
        obtain ⟨hle, q, hq, hq0⟩ := h j
        by_cases hjk : j = k
        · subst hjk
          have hpos : r.st.core.pos j = (cfg.src j).length := by omega
          have h0 : 0 < (cfg.src j).length := (List.getElem?_eq_some_iff.1 hx).1
          refine ⟨by simp; omega, q + 1, ?_, ?_⟩
          · simp only [upd_same, outK_append_self, hq, hpos, List.take_length, flatten_replicate_succ,
              take_succ_of_getElem? hx, List.take_zero, List.append_assoc, List.nil_append]
          · intro hcc
            rcases hcc with hcc | hcc
            · exact absurd hcc hc
            · rw [hcc, shouldStop_first_upd] at hs1
              cases hs1
        · refine ⟨by simpa [hjk] using hle, q, ?_, hq0⟩
          simp only [upd_ne _ _ hjk, outK_append_ne _ _ hjk, hq]
      · rw [advance_stop _ _ _ hst hs hk hb]
        intro j
        obtain ⟨hle, q, hq, hq0⟩ := h j
        by_cases hjk : j = k
        · subst hjk
          refine ⟨by simp, q, ?_, hq0⟩
          simp only [upd_same, hq, hnil, List.take_nil]
        · refine ⟨by simpa [hjk] using hle, q, ?_, hq0⟩
          simp only [upd_ne _ _ hjk, hq]

theorem PSO_runFrom (cfg : Cfg n) (c : Nat → Fin n) (s : St n) (h0 : PSO cfg ⟨[], s, false⟩) (t : Nat) :
    PSO cfg (runFrom cfg c s t) := by
  induction t with
  | zero => exact h0
  | succ t ih => rw [runFrom_succ]; exact PSO_advance cfg c _ ih

theorem PSO_init (cfg : Cfg n) : PSO cfg ⟨[], St.init, false⟩ := by
  intro k
  exact ⟨Nat.zero_le _, 0, by simp [St.init, Core.init], fun _ => rfl⟩

/-! ## ALL_DATASETS_EXHAUSTED -/

def AllInv (cfg : Cfg n) (c : Nat → Fin n) (t : Nat) (r : Run n) : Prop :=
  (∀ k, r.st.core.exh k = true → (cfg.src k).length ≤ r.st.core.pos k) ∧
  (r.stopped = true → ∀ k, r.st.core.exh k = true) ∧
  (r.stopped = false → r.st.sp = t ∧ (∃ k, r.st.core.exh k = false) ∧
    (∀ k, r.st.core.exh k = true → (cfg.src k).length < occ c k t) ∧
    ∀ k, r.st.core.exh k = false → r.st.core.pos k = occ c k t ∧ occ c k t ≤ (cfg.src k).length)

theorem AllInv_init (cfg : Cfg n) (c : Nat → Fin n) : AllInv cfg c 0 ⟨[], St.init, false⟩ := by
  refine ⟨?_, ?_, ?_⟩
  · intro k h; simp [St.init, Core.init] at h
  · intro h; cases h
  · intro _
    exact ⟨rfl, ⟨c 0, rfl⟩, fun k h => by simp [St.init, Core.init] at h,
      fun k _ => ⟨rfl, Nat.zero_le _⟩⟩

theorem AllInv_advance (cfg : Cfg n) (hcrit : cfg.crit = .allExh) (c : Nat → Fin n) (t : Nat) (r : Run n)
    (h : AllInv cfg c t r) : AllInv cfg c (t + 1) (advance cfg c r) := by
  obtain ⟨h1, h2, h3⟩ := h
  cases hst : r.stopped with
  | true =>
    rw [advance_stopped _ _ _ hst]
    exact ⟨h1, h2, fun hf => by rw [hst] at hf; cases hf⟩
  | false =>
    obtain ⟨hsp, hex, hE, hF⟩ := h3 hst
    cases hs : shouldStop cfg.crit r.st.core.exh with
    | true =>
      rw [advance_pre _ _ _ hst hs]
      rw [hcrit, shouldStop_all] at hs
      exact ⟨h1, fun _ => (allB_iff _).1 hs, (fun hf => by cases hf)⟩
    | false =>
      generalize hk : c r.st.sp = k
      have hkt : c t = k := by rw [← hsp]; exact hk
      have hocc_k : occ c k (t + 1) = occ c k t + 1 := by rw [← hkt]; exact occ_succ_self c t
      have hocc_ne : ∀ j, j ≠ k → occ c j (t + 1) = occ c j t := fun j hj =>
        occ_succ_ne c j t (by rw [hkt]; exact fun e => hj e.symm)
      rcases body_cases cfg k r.st.core with ⟨he, _, hb⟩ | ⟨hg, x, hx, hb⟩ | ⟨hg, hlen, hs1, hb⟩ |
        ⟨he, hlen, hs1, _, hb⟩ | ⟨_, _, hc, _⟩ | ⟨_, _, hc, _⟩
      · -- an exhausted key is skipped
        rw [advance_skip _ _ _ hst hs hk hb]
        refine ⟨h1, (fun hf => by cases hf), fun _ => ⟨by simp [hsp], hex, ?_, ?_⟩⟩
        · intro j hj
          by_cases hjk : j = k
          · subst hjk; have := hE j hj; omega
          · rw [hocc_ne j hjk]; exact hE j hj
        · intro j hj
          have hjk : j ≠ k := by intro e; subst e; simp [he] at hj
          rw [hocc_ne j hjk]; exact hF j hj
      · -- an item
        have hek : r.st.core.exh k = false := by
          cases hh : r.st.core.exh k with
          | false => rfl
          | true => exact absurd ⟨hh, hcrit⟩ hg
        have hlt : r.st.core.pos k < (cfg.src k).length := (List.getElem?_eq_some_iff.1 hx).1
        rw [advance_item _ _ _ hst hs hk hb]
        refine ⟨?_, (fun hf => by cases hf), fun _ => ⟨by simp [hsp], hex, ?_, ?_⟩⟩
        · intro j hj
          by_cases hjk : j = k
          · subst hjk; simp [hek] at hj
          · simpa [hjk] using h1 j hj
        · intro j hj
          by_cases hjk : j = k
          · subst hjk; simp [hek] at hj
          · rw [hocc_ne j hjk]; exact hE j hj
        · intro j hj
          by_cases hjk : j = k
          · subst hjk
            have := hF j hek
            simp only [upd_same]
            omega
          · simp only [upd_ne _ _ hjk]; rw [hocc_ne j hjk]; exact hF j hj
      · -- the last source is found exhausted
        rw [advance_stop _ _ _ hst hs hk hb]
        rw [hcrit, shouldStop_all] at hs1
        refine ⟨?_, fun _ => (allB_iff _).1 hs1, (fun hf => by cases hf)⟩
        intro j hj
        by_cases hjk : j = k
        · subst hjk; exact hlen
        · exact h1 j (by simpa [hjk] using hj)
      · -- a source is found exhausted, others remain
        rw [advance_skip _ _ _ hst hs hk hb]
        rw [hcrit, shouldStop_all] at hs1
        refine ⟨?_, (fun hf => by cases hf), fun _ => ⟨by simp [hsp], (allB_false_iff _).1 hs1, ?_, ?_⟩⟩
        · intro j hj
          by_cases hjk : j = k
          · subst hjk; exact hlen
          · exact h1 j (by simpa [hjk] using hj)
        · intro j hj
          by_cases hjk : j = k
          · subst hjk; have := hF j he; omega
          · rw [hocc_ne j hjk]; exact hE j (by simpa [hjk] using hj)
        · intro j hj
          have hjk : j ≠ k := by intro e; subst e; simp at hj
          rw [hocc_ne j hjk]; exact hF j (by simpa [hjk] using hj)
      · exact absurd hcrit hc
      · exact absurd hcrit hc

theorem AllInv_run (cfg : Cfg n) (hcrit : cfg.crit = .allExh) (c : Nat → Fin n) (t : Nat) :
    AllInv cfg c t (run cfg c t) := by
  induction t with
  | zero => exact AllInv_init cfg c
  | succ t ih => rw [run_succ]; exact AllInv_advance cfg hcrit c t _ ih

/-! ## FIRST_DATASET_EXHAUSTED -/

/-- Draw `i` names a source that has nothing left when no source is ever restarted. -/
def Dry (cfg : Cfg n) (c : Nat → Fin n) (i : Nat) : Prop := (cfg.src (c i)).length ≤ occ c (c i) i

instance (cfg : Cfg n) (c : Nat → Fin n) (i : Nat) : Decidable (Dry cfg c i) := by unfold Dry; infer_instance

def FirstInv (cfg : Cfg n) (c : Nat → Fin n) (t : Nat) (r : Run n) : Prop :=
  r.st.sp = t ∧ (∀ k, r.st.core.exh k = false) ∧
    (∀ k, r.st.core.pos k = occ c k t ∧ occ c k t ≤ (cfg.src k).length) ∧
    keys r.outs = (List.range t).map c

theorem FirstInv_init (cfg : Cfg n) (c : Nat → Fin n) : FirstInv cfg c 0 ⟨[], St.init, false⟩ :=
  ⟨rfl, fun _ => rfl, fun _ => ⟨rfl, Nat.zero_le _⟩, rfl⟩

theorem shouldStop_first_none (e : Fin n → Bool) (k0 : Fin n) (h : ∀ k, e k = false) :
    shouldStop .firstExh e = false := by
  rw [shouldStop_first]
  have h1 : allB e = false := (allB_false_iff _).2 ⟨k0, h k0⟩
  have h2 : anyB e = false := by
    cases ha : anyB e with
    | false => rfl
    | true =>
      obtain ⟨k, hk⟩ := (anyB_iff _).1 ha
      rw [h k] at hk; cases hk
  simp [h1, h2]

/-- One iteration under FIRST from a run that has not stopped: it stops iff the draw is dry. -/
theorem first_advance (cfg : Cfg n) (hcrit : cfg.crit = .firstExh) (c : Nat → Fin n) (t : Nat) (r : Run n)
    (hst : r.stopped = false) (h : FirstInv cfg c t r) :
    (Dry cfg c t → (advance cfg c r).stopped = true ∧ (advance cfg c r).outs = r.outs ∧
        (advance cfg c r).st.sp = t + 1) ∧
    (¬ Dry cfg c t → (advance cfg c r).stopped = false ∧ FirstInv cfg c (t + 1) (advance cfg c r)) := by
  obtain ⟨hsp, hex, hpos, hkeys⟩ := h
  have hs : shouldStop cfg.crit r.st.core.exh = false := by
    rw [hcrit]; exact shouldStop_first_none _ (c 0) hex
  generalize hk : c r.st.sp = k
  have hkt : c t = k := by rw [← hsp]; exact hk
  have hocc_k : occ c k (t + 1) = occ c k t + 1 := by rw [← hkt]; exact occ_succ_self c t
  have hocc_ne : ∀ j, j ≠ k → occ c j (t + 1) = occ c j t := fun j hj =>
    occ_succ_ne c j t (by rw [hkt]; exact fun e => hj e.symm)
  have hdry : Dry cfg c t ↔ (cfg.src k).length ≤ r.st.core.pos k := by
    unfold Dry; rw [hkt, (hpos k).1]
  rcases body_cases cfg k r.st.core with ⟨he, _, _⟩ | ⟨hg, x, hx, hb⟩ | ⟨hg, hlen, hs1, hb⟩ |
    ⟨_, _, _, hc, _⟩ | ⟨hlen, hs1, hc, _⟩ | ⟨hlen, hs1, hc, _⟩
  · rw [hex k] at he; cases he
  · have hlt : r.st.core.pos k < (cfg.src k).length := (List.getElem?_eq_some_iff.1 hx).1
    rw [advance_item _ _ _ hst hs hk hb]
    refine ⟨fun hd => absurd (hdry.1 hd) (by omega), fun _ => ⟨rfl, by simp [hsp], hex, ?_, ?_⟩⟩
    · intro j
      by_cases hjk : j = k
      · subst hjk
        have := hpos j
        simp only [upd_same]
        omega
      · simp only [upd_ne _ _ hjk]; rw [hocc_ne j hjk]; exact hpos j
    · rw [keys_append, hkeys, List.range_succ, List.map_append, ← hkt]; rfl
  · rw [advance_stop _ _ _ hst hs hk hb]
    exact ⟨fun _ => ⟨rfl, rfl, by simp [hsp]⟩, fun hd => absurd (hdry.2 hlen) hd⟩
  · rw [hcrit] at hc; cases hc
  · rw [hcrit, shouldStop_first_upd] at hs1; cases hs1
  · rw [hcrit, shouldStop_first_upd] at hs1; cases hs1

/-- While no draw has been dry the run has not stopped and follows the stream. -/
theorem first_no_dry (cfg : Cfg n) (hcrit : cfg.crit = .firstExh) (c : Nat → Fin n) (t : Nat)
    (h : ∀ j, j < t → ¬ Dry cfg c j) : (run cfg c t).stopped = false ∧ FirstInv cfg c t (run cfg c t) := by
  induction t with
  | zero => exact ⟨rfl, FirstInv_init cfg c⟩
  | succ t ih =>
    obtain ⟨h1, h2⟩ := ih (fun j hj => h j (by omega))
    rw [run_succ]
    exact (first_advance cfg hcrit c t _ h1 h2).2 (h t (by omega))

/-- A run that has not stopped under FIRST has seen no dry draw. -/
theorem first_not_stopped (cfg : Cfg n) (hcrit : cfg.crit = .firstExh) (c : Nat → Fin n) (t : Nat)
    (h : (run cfg c t).stopped = false) : ∀ j, j < t → ¬ Dry cfg c j := by
  induction t with
  | zero => intro j hj; omega
  | succ t ih =>
    have hprev : (run cfg c t).stopped = false := by
      cases hp : (run cfg c t).stopped with
      | false => rfl
      | true =>
        have := runFrom_stopped_stable cfg c St.init t 1 hp
        unfold run at h hp
        rw [this, hp] at h; cases h
    have hno := ih hprev
    have hinv := (first_no_dry cfg hcrit c t hno).2
    intro j hj hd
    by_cases hjt : j = t
    · subst hjt
      have := ((first_advance cfg hcrit c j _ hprev hinv).1 hd).1
      rw [run_succ] at h
      rw [this] at h; cases h
    · exact hno j (by omega) hd

theorem runFrom_not_stopped_prev (cfg : Cfg n) (c : Nat → Fin n) (s : St n) (t : Nat)
    (h : (runFrom cfg c s (t + 1)).stopped = false) : (runFrom cfg c s t).stopped = false := by
  cases hp : (runFrom cfg c s t).stopped with
  | false => rfl
  | true =>
    have := runFrom_stopped_stable cfg c s t 1 hp
    rw [this, hp] at h; cases h

theorem run_not_stopped_prev (cfg : Cfg n) (c : Nat → Fin n) (t : Nat)
    (h : (run cfg c (t + 1)).stopped = false) : (run cfg c t).stopped = false :=
  runFrom_not_stopped_prev cfg c St.init t h

/-! ## CYCLE_UNTIL_ALL_DATASETS_EXHAUSTED and CYCLE_FOREVER -/

/-- Every source has been found exhausted among the first `t` draws: it was drawn more often than it is long. -/
def AllFound (cfg : Cfg n) (c : Nat → Fin n) (t : Nat) : Prop := ∀ k, (cfg.src k).length < occ c k t

instance (cfg : Cfg n) (c : Nat → Fin n) (t : Nat) : Decidable (AllFound cfg c t) := by
  unfold AllFound; infer_instance

def CycInv (cfg : Cfg n) (c : Nat → Fin n) (t : Nat) (r : Run n) : Prop :=
  r.st.sp = t ∧ keys r.outs = (List.range t).map c ∧
  (cfg.crit = .cycleUntil → ∃ k, r.st.core.exh k = false) ∧
  ∀ k, r.st.core.pos k ≤ (cfg.src k).length ∧ r.st.core.pos k ≤ occ c k t ∧
    (r.st.core.exh k = false → r.st.core.pos k = occ c k t) ∧
    (r.st.core.exh k = true ↔ (cfg.src k).length < occ c k t) ∧
    ∃ q, outK k r.outs = (List.replicate q (cfg.src k)).flatten ++ (cfg.src k).take (r.st.core.pos k) ∧
      q * (cfg.src k).length + r.st.core.pos k = occ c k t

theorem CycInv_init (cfg : Cfg n) (c : Nat → Fin n) : CycInv cfg c 0 ⟨[], St.init, false⟩ := by
  refine ⟨rfl, rfl, fun _ => ⟨c 0, rfl⟩, fun k => ⟨Nat.zero_le _, Nat.le_refl _, fun _ => rfl, ?_, 0, ?_, ?_⟩⟩
  · simp [St.init, Core.init]
  · simp [St.init, Core.init]
  · simp [St.init, Core.init]

theorem cyc_advance (cfg : Cfg n) (hcyc : cfg.crit = .cycleUntil ∨ cfg.crit = .forever) (c : Nat → Fin n)
    (t : Nat) (r : Run n) (hst : r.stopped = false) (h : CycInv cfg c t r) :
    ((advance cfg c r).stopped = false → CycInv cfg c (t + 1) (advance cfg c r)) ∧
    ((advance cfg c r).stopped = true → (advance cfg c r).outs = r.outs ∧
      ((cfg.crit = .cycleUntil ∧ AllFound cfg c (t + 1)) ∨ cfg.src (c t) = [])) := by
  obtain ⟨hsp, hkeys, hex, hall⟩ := h
  have hnall : cfg.crit ≠ .allExh := by rcases hcyc with h | h <;> rw [h] <;> intro e <;> cases e
  have hs : shouldStop cfg.crit r.st.core.exh = false := by
    rcases hcyc with hc | hc
    · rw [hc, shouldStop_cycleUntil]; exact (allB_false_iff _).2 (hex hc)
    · rw [hc, shouldStop_forever]
  generalize hk : c r.st.sp = k
  have hkt : c t = k := by rw [← hsp]; exact hk
  have hocc_k : occ c k (t + 1) = occ c k t + 1 := by rw [← hkt]; exact occ_succ_self c t
  have hocc_ne : ∀ j, j ≠ k → occ c j (t + 1) = occ c j t := fun j hj =>
    occ_succ_ne c j t (by rw [hkt]; exact fun e => hj e.symm)
  have hkeys' : ∀ x, keys (r.outs ++ [(k, x)]) = (List.range (t + 1)).map c := by
    intro x
    rw [keys_append, hkeys, List.range_succ, List.map_append, ← hkt]; rfl
  rcases body_cases cfg k r.st.core with ⟨_, hc, _⟩ | ⟨hg, x, hx, hb⟩ | ⟨hg, hlen, hs1, hb⟩ |
    ⟨_, _, _, hc, _⟩ | ⟨hlen, hs1, _, x, hx, hb⟩ | ⟨hlen, hs1, _, hnil, hb⟩
  · exact absurd hc hnall
  · -- an item of the current pass
    have hlt : r.st.core.pos k < (cfg.src k).length := (List.getElem?_eq_some_iff.1 hx).1
    rw [advance_item _ _ _ hst hs hk hb]
    refine ⟨fun _ => ⟨by simp [hsp], hkeys' x, hex, ?_⟩, fun hf => by cases hf⟩
    intro j
    obtain ⟨h1, h2, h3, h4, q, h5, h6⟩ := hall j
    by_cases hjk : j = k
    · subst hjk
      simp only [upd_same, outK_append_self]
      refine ⟨by omega, by omega, fun he => by have := h3 he; omega, ?_, q, ?_, by omega⟩
      · constructor
        · intro he; have := h4.1 he; omega
        · intro hl
          cases he : r.st.core.exh j with
          | true => rfl
          | false => have := h3 he; omega
      · rw [h5, take_succ_of_getElem? hx, List.append_assoc]
    · simp only [upd_ne _ _ hjk, outK_append_ne _ _ hjk]
      rw [hocc_ne j hjk]
      exact ⟨h1, h2, h3, h4, q, h5, h6⟩
  · -- found exhausted and the stop check fires
    rw [advance_stop _ _ _ hst hs hk hb]
    refine ⟨(fun hf => by cases hf), fun _ => ⟨rfl, Or.inl ?_⟩⟩
    rcases hcyc with hc | hc
    · refine ⟨hc, ?_⟩
      rw [hc, shouldStop_cycleUntil] at hs1
      have hs1 := (allB_iff _).1 hs1
      intro j
      obtain ⟨h1, h2, h3, h4, _⟩ := hall j
      by_cases hjk : j = k
      · subst hjk; omega
      · rw [hocc_ne j hjk]
        exact h4.1 (by simpa [hjk] using hs1 j)
    · rw [hc, shouldStop_forever] at hs1; cases hs1
  · exact absurd hc hnall
  · -- found exhausted, restarted, first item
    have h0 : 0 < (cfg.src k).length := (List.getElem?_eq_some_iff.1 hx).1
    rw [advance_item _ _ _ hst hs hk hb]
    refine ⟨fun _ => ⟨by simp [hsp], hkeys' x, ?_, ?_⟩, fun hf => by cases hf⟩
    · intro hc
      rw [hc, shouldStop_cycleUntil] at hs1
      exact (allB_false_iff _).1 hs1
    intro j
    obtain ⟨h1, h2, h3, h4, q, h5, h6⟩ := hall j
    by_cases hjk : j = k
    · subst hjk
      have hpos : r.st.core.pos j = (cfg.src j).length := by omega
      simp only [upd_same, outK_append_self]
      refine ⟨by omega, by omega, (fun he => by cases he), ⟨fun _ => by omega, fun _ => trivial⟩, q + 1, ?_, ?_⟩
      · rw [h5, hpos, List.take_length, flatten_replicate_succ, take_succ_of_getElem? hx, List.take_zero,
          List.nil_append, List.append_assoc]
      · rw [Nat.succ_mul]; omega
    · simp only [upd_ne _ _ hjk, outK_append_ne _ _ hjk]
      rw [hocc_ne j hjk]
      exact ⟨h1, h2, h3, h4, q, h5, h6⟩
  · -- found exhausted, restarted, and the source is empty: StopIteration escapes from the handler
    rw [advance_stop _ _ _ hst hs hk hb]
    exact ⟨(fun hf => by cases hf), fun _ => ⟨rfl, Or.inr (by rw [hkt]; exact hnil)⟩⟩

theorem cyc_run_inv (cfg : Cfg n) (hcyc : cfg.crit = .cycleUntil ∨ cfg.crit = .forever) (c : Nat → Fin n)
    (t : Nat) (h : (run cfg c t).stopped = false) : CycInv cfg c t (run cfg c t) := by
  induction t with
  | zero => exact CycInv_init cfg c
  | succ t ih =>
    have hp := run_not_stopped_prev cfg c t h
    rw [run_succ] at h ⊢
    exact (cyc_advance cfg hcyc c t _ hp (ih hp)).1 h

theorem allFound_mono (cfg : Cfg n) (c : Nat → Fin n) {t u : Nat} (htu : t ≤ u) (h : AllFound cfg c t) :
    AllFound cfg c u := fun k => Nat.lt_of_lt_of_le (h k) (occ_mono c k htu)

/-- With non-empty sources CYCLE_UNTIL has stopped after `t` iterations iff every source has been found
exhausted among the first `t` draws. -/
theorem cycleUntil_stopped_iff (cfg : Cfg n) (hcrit : cfg.crit = .cycleUntil) (hne : ∀ k, cfg.src k ≠ [])
    (c : Nat → Fin n) (t : Nat) : (run cfg c t).stopped = true ↔ AllFound cfg c t := by
  induction t with
  | zero =>
    constructor
    · intro h; cases h
    · intro h; have := h (c 0); simp at this
  | succ t ih =>
    cases hp : (run cfg c t).stopped with
    | true =>
      have hst := runFrom_stopped_stable cfg c St.init t 1 hp
      constructor
      · intro _; exact allFound_mono cfg c (Nat.le_succ t) (ih.1 hp)
      · intro _; unfold run at hp ⊢; rw [hst]; exact hp
    | false =>
      have hinv := cyc_run_inv cfg (Or.inl hcrit) c t hp
      have hadv := cyc_advance cfg (Or.inl hcrit) c t _ hp hinv
      rw [run_succ]
      constructor
      · intro h
        rcases (hadv.2 h).2 with ⟨_, hf⟩ | he
        · exact hf
        · exact absurd he (hne _)
      · intro hf
        cases hs : (advance cfg c (run cfg c t)).stopped with
        | true => rfl
        | false =>
          obtain ⟨_, _, hex, hall⟩ := hadv.1 hs
          obtain ⟨k, hk⟩ := hex hcrit
          have := (hall k).2.2.2.1.2 (hf k)
          rw [hk] at this; cases this

/-- With non-empty sources CYCLE_FOREVER never stops. -/
theorem forever_not_stopped (cfg : Cfg n) (hcrit : cfg.crit = .forever) (hne : ∀ k, cfg.src k ≠ [])
    (c : Nat → Fin n) (t : Nat) : (run cfg c t).stopped = false := by
  induction t with
  | zero => rfl
  | succ t ih =>
    have hinv := cyc_run_inv cfg (Or.inr hcrit) c t ih
    have hadv := cyc_advance cfg (Or.inr hcrit) c t _ ih hinv
    rw [run_succ]
    cases hs : (advance cfg c (run cfg c t)).stopped with
    | false => rfl
    | true =>
      rcases (hadv.2 hs).2 with ⟨hc, _⟩ | he
      · rw [hcrit] at hc; cases hc
      · exact absurd he (hne _)

/-! ## Termination under fairness -/

/-- Every key is drawn again after every position. -/
def Fair (c : Nat → Fin n) : Prop := ∀ i k, ∃ j, i ≤ j ∧ c j = k

theorem not_stopped_bound (cfg : Cfg n) (hcrit : cfg.crit ≠ .forever) (c : Nat → Fin n) (t : Nat)
    (h : (run cfg c t).stopped = false) : ∃ k, occ c k t ≤ (cfg.src k).length := by
  cases hc : cfg.crit with
  | forever => exact absurd hc hcrit
  | allExh =>
    obtain ⟨_, _, h3⟩ := AllInv_run cfg hc c t
    obtain ⟨_, ⟨k, hk⟩, _, hF⟩ := h3 h
    exact ⟨k, (hF k hk).2⟩
  | firstExh =>
    have hno := first_not_stopped cfg hc c t h
    obtain ⟨_, _, _, hpos, _⟩ := first_no_dry cfg hc c t hno
    exact ⟨c 0, (hpos (c 0)).2⟩
  | cycleUntil =>
    obtain ⟨_, _, hex, hall⟩ := cyc_run_inv cfg (Or.inl hc) c t h
    obtain ⟨k, hk⟩ := hex hc
    refine ⟨k, ?_⟩
    have h4 := (hall k).2.2.2.1
    apply Nat.le_of_not_lt
    intro hlt
    have := h4.2 hlt
    rw [hk] at this; cases this

theorem fair_occ_unbounded (c : Nat → Fin n) (hf : Fair c) (k : Fin n) (m : Nat) : ∃ t, m ≤ occ c k t := by
  induction m with
  | zero => exact ⟨0, Nat.zero_le _⟩
  | succ m ih =>
    obtain ⟨t, ht⟩ := ih
    obtain ⟨j, hj, hcj⟩ := hf t k
    refine ⟨j + 1, ?_⟩
    have h1 := occ_mono c k hj
    have h2 : occ c k (j + 1) = occ c k j + 1 := by rw [← hcj]; exact occ_succ_self c j
    omega

theorem fair_all_found_list (c : Nat → Fin n) (hf : Fair c) (f : Fin n → Nat) (l : List (Fin n)) :
    ∃ T, ∀ k, k ∈ l → f k < occ c k T := by
  induction l with
  | nil => exact ⟨0, fun k hk => by cases hk⟩
  | cons a l ih =>
    obtain ⟨T1, h1⟩ := ih
    obtain ⟨T2, h2⟩ := fair_occ_unbounded c hf a (f a + 1)
    refine ⟨max T1 T2, ?_⟩
    intro k hk
    rcases List.mem_cons.1 hk with rfl | hk
    · exact Nat.lt_of_lt_of_le (by omega) (occ_mono c k (Nat.le_max_right T1 T2))
    · exact Nat.lt_of_lt_of_le (h1 k hk) (occ_mono c k (Nat.le_max_left T1 T2))

theorem fair_all_found (cfg : Cfg n) (c : Nat → Fin n) (hf : Fair c) : ∃ T, AllFound cfg c T := by
  obtain ⟨T, hT⟩ := fair_all_found_list c hf (fun k => (cfg.src k).length) (List.finRange n)
  exact ⟨T, fun k => hT k (List.mem_finRange k)⟩

/-! ## `next()` against the observed run -/

theorem advance_cons (cfg : Cfg n) (c : Nat → Fin n) (a : Fin n × Item) (r : Run n) :
    advance cfg c ⟨a :: r.outs, r.st, r.stopped⟩ =
      ⟨a :: (advance cfg c r).outs, (advance cfg c r).st, (advance cfg c r).stopped⟩ := by
  unfold advance
  cases hst : r.stopped with
  | true => simp [hst]
  | false =>
    simp only [Bool.false_eq_true, if_false]
    cases hb : step cfg c r.st with
    | mk e s' => cases e <;> simp

/-- The run seen from its first iteration. -/
theorem runFrom_head (cfg : Cfg n) (c : Nat → Fin n) (s : St n) (t : Nat) :
    runFrom cfg c s (t + 1) =
      match step cfg c s with
      | (.item k x, s') => ⟨(k, x) :: (runFrom cfg c s' t).outs, (runFrom cfg c s' t).st, (runFrom cfg c s' t).stopped⟩
      | (.skip, s') => runFrom cfg c s' t
      | (.stop, s') => ⟨[], s', true⟩ := by
  induction t with
  | zero =>
    simp only [runFrom, advance, Bool.false_eq_true, if_false]
    cases hb : step cfg c s with
    | mk e s' => cases e <;> simp
  | succ t ih =>
    rw [runFrom_succ, ih]
    cases hb : step cfg c s with
    | mk e s' =>
      cases e with
      | item k x => simp only []; rw [advance_cons]; rfl
      | skip => rfl
      | stop => simp only []; rw [advance_stopped _ _ _ rfl]

/-! ## `_WeightedSampler` -/

/-- The batch is the one drawn from the snapshot state, the generator is one batch further. -/
def WS.WF (B : Nat → List (Fin n)) (w : WS n) : Prop := w.batch = B w.snap ∧ w.g = w.snap + 1

theorem WS.load_WF (B : Nat → List (Fin n)) (g off : Nat) : WS.WF B (WS.load B g off) := ⟨rfl, rfl⟩

theorem WS.next_WF (B : Nat → List (Fin n)) (w : WS n) (h : WS.WF B w) : WS.WF B (WS.next B w).2 := by
  unfold WS.next
  by_cases hl : w.batch.length ≤ w.off
  · simp only [hl, if_true]; exact ⟨rfl, rfl⟩
  · simp only [hl, if_false]; exact h

theorem WS.after_WF (B : Nat → List (Fin n)) (w : WS n) (h : WS.WF B w) (m : Nat) : WS.WF B (WS.after B w m) := by
  induction m with
  | zero => exact h
  | succ m ih => exact WS.next_WF B _ ih

theorem WS.restore_state (B : Nat → List (Fin n)) (w : WS n) (h : WS.WF B w) : WS.restore B w.state = w := by
  obtain ⟨h1, h2⟩ := h
  cases w with
  | mk g snap batch off =>
    simp only [WS.restore, WS.state, WS.load]
    simp only at h1 h2
    rw [h1, h2]

theorem WS.after_succ_left (B : Nat → List (Fin n)) (w : WS n) (m : Nat) :
    WS.after B w (m + 1) = WS.after B (WS.next B w).2 m := by
  induction m with
  | zero => rfl
  | succ m ih => simp only [WS.after] at ih ⊢; rw [ih]

theorem WS.nth_next (B : Nat → List (Fin n)) (w : WS n) (j : Nat) :
    WS.nth B (WS.next B w).2 j = WS.nth B w (j + 1) := by
  unfold WS.nth; rw [WS.after_succ_left]

/-- Shape of a fresh sampler after `m` draws: `b` whole batches behind, `off` into the current one. -/
theorem WS.after_fresh (B : Nat → List (Fin n)) (L : Nat) (hL : 0 < L) (hB : ∀ g, (B g).length = L) (g0 m : Nat) :
    ∃ b, (WS.after B (WS.fresh B g0) m).g = g0 + b + 1 ∧
      (WS.after B (WS.fresh B g0) m).batch = B (g0 + b) ∧ (WS.after B (WS.fresh B g0) m).off ≤ L ∧
      (WS.after B (WS.fresh B g0) m).off + b * L = m := by
  induction m with
  | zero => exact ⟨0, rfl, rfl, by simp [WS.after, WS.fresh, WS.load], by simp [WS.after, WS.fresh, WS.load]⟩
  | succ m ih =>
    obtain ⟨b, h2, h3, h4, h5⟩ := ih
    simp only [WS.after, WS.next]
    by_cases hl : (WS.after B (WS.fresh B g0) m).batch.length ≤ (WS.after B (WS.fresh B g0) m).off
    · simp only [hl, if_true, WS.load]
      rw [h3, hB] at hl
      refine ⟨b + 1, by rw [h2]; omega, by rw [h2]; rfl, by omega, ?_⟩
      rw [Nat.succ_mul]
      omega
    · simp only [hl, if_false]
      rw [h3, hB] at hl
      exact ⟨b, h2, h3, by omega, by omega⟩

/-! ## The node -/

theorem Node.step_started (cfg : Cfg n) (E : Env n) (x : Node n) (b : Bool) :
    Node.step cfg E { x with started := b } = Node.step cfg E x := by
  rfl

theorem Node.advance_first (cfg : Cfg n) (E : Env n) (x y : Node n) (h : Node.step cfg E y = Node.step cfg E x) :
    Node.advance cfg E ⟨[], y, false, false⟩ = Node.advance cfg E ⟨[], x, false, false⟩ := by
  unfold Node.advance
  simp only [Bool.or_self, Bool.false_eq_true, if_false, h]

theorem Node.run_started (cfg : Cfg n) (E : Env n) (x : Node n) (b : Bool) (t : Nat) :
    Node.run cfg E { x with started := b } (t + 1) = Node.run cfg E x (t + 1) := by
  induction t with
  | zero => exact Node.advance_first cfg E x _ (Node.step_started cfg E x b)
  | succ t ih => simp only [Node.run] at ih ⊢; rw [ih]

/-- Node states reachable through the public protocol. -/
inductive Node.Reach (cfg : Cfg n) (E : Env n) : Node n → Prop where
  | new : Node.Reach cfg E (Node.new E)
  | step {x : Node n} : Node.Reach cfg E x → Node.Reach cfg E (Node.step cfg E x).2
  | resetNone {x : Node n} : Node.Reach cfg E x → Node.Reach cfg E (Node.reset E x none)
  | resetSome {x y : Node n} : Node.Reach cfg E x → Node.Reach cfg E y →
      Node.Reach cfg E (Node.reset E x (some y.getState))

theorem Node.step_WF (cfg : Cfg n) (E : Env n) (x : Node n) (h : WS.WF E.B x.ws) :
    WS.WF E.B (Node.step cfg E x).2.ws := by
  unfold Node.step
  by_cases hs : shouldStop cfg.crit x.core.exh = true
  · simp only [hs, if_true]; exact h
  · simp only [hs]
    cases hd : (WS.next E.B x.ws).1 with
    | none => exact WS.next_WF E.B _ h
    | some k => exact WS.next_WF E.B _ h

theorem Node.reach_WF (cfg : Cfg n) (E : Env n) (x : Node n) (h : Node.Reach cfg E x) : WS.WF E.B x.ws := by
  induction h with
  | new => exact WS.load_WF _ _ _
  | step _ ih => exact Node.step_WF cfg E _ ih
  | resetNone _ _ => exact WS.load_WF _ _ _
  | resetSome _ _ _ _ => exact WS.load_WF _ _ _

theorem Node.run_reach (cfg : Cfg n) (E : Env n) (x : Node n) (h : Node.Reach cfg E x) (t : Nat) :
    Node.Reach cfg E (Node.run cfg E x t).st := by
  induction t with
  | zero => exact h
  | succ t ih =>
    simp only [Node.run, Node.advance]
    split
    · exact ih
    · have hr := Node.Reach.step (cfg := cfg) (E := E) ih
      split <;> (rename_i heq; rw [heq] at hr; exact hr)

/-- The sampler of `x` will draw the stream `c` from position `p` on. -/
def Sim (B : Nat → List (Fin n)) (w : WS n) (c : Nat → Fin n) (p : Nat) : Prop :=
  ∀ j, WS.nth B w j = some (c (p + j))

theorem Sim_next (B : Nat → List (Fin n)) (w : WS n) (c : Nat → Fin n) (p : Nat) (h : Sim B w c p) :
    (WS.next B w).1 = some (c p) ∧ Sim B (WS.next B w).2 c (p + 1) := by
  refine ⟨by simpa [WS.nth, WS.after] using h 0, ?_⟩
  intro j
  rw [WS.nth_next, h (j + 1)]
  congr 2; omega

/-- A machine run and a stream run in the same situation. -/
def Match (B : Nat → List (Fin n)) (c : Nat → Fin n) (a : NRun n) (r : Run n) : Prop :=
  a.outs = r.outs ∧ a.stopped = r.stopped ∧ a.failed = false ∧ a.st.core = r.st.core ∧ Sim B a.st.ws c r.st.sp

theorem Match_advance (cfg : Cfg n) (E : Env n) (c : Nat → Fin n) (a : NRun n) (r : Run n)
    (h : Match E.B c a r) : Match E.B c (Node.advance cfg E a) (advance cfg c r) := by
  obtain ⟨h1, h2, h3, h4, h5⟩ := h
  cases hst : r.stopped with
  | true =>
    rw [advance_stopped _ _ _ hst]
    have : Node.advance cfg E a = a := by simp [Node.advance, h2, hst]
    rw [this]; exact ⟨h1, h2, h3, h4, h5⟩
  | false =>
    obtain ⟨hd, hsim⟩ := Sim_next E.B _ c _ h5
    have ha : (a.stopped || a.failed) = false := by rw [h2, h3, hst]; rfl
    unfold Node.advance Node.step
    simp only [ha, Bool.false_eq_true, if_false]
    rw [advance_eq _ _ _ hst, h4]
    by_cases hs : shouldStop cfg.crit r.st.core.exh = true
    · simp only [hs, if_true]
      exact ⟨h1, rfl, rfl, rfl, h5⟩
    · simp only [hs, hd]
      cases hb : body cfg (c r.st.sp) r.st.core with
      | mk e co =>
        cases e with
        | item k x => exact ⟨by simp [h1], rfl, rfl, rfl, hsim⟩
        | skip => exact ⟨h1, rfl, rfl, rfl, hsim⟩
        | stop => exact ⟨h1, rfl, rfl, rfl, hsim⟩

theorem Node.run_started_epoch (cfg : Cfg n) (E : Env n) (x : Node n) (t : Nat) :
    (Node.run cfg E x (t + 1)).st.started = true ∧ (Node.run cfg E x (t + 1)).st.epoch = x.epoch ∧
      (Node.run cfg E x t).st.epoch = x.epoch := by
  have hstep : ∀ y : Node n, (Node.step cfg E y).2.started = true ∧ (Node.step cfg E y).2.epoch = y.epoch := by
    intro y
    unfold Node.step
    split
    · exact ⟨rfl, rfl⟩
    · split <;> exact ⟨rfl, rfl⟩
  have hadv : ∀ a : NRun n, (a.stopped || a.failed) = false →
      (Node.advance cfg E a).st = (Node.step cfg E a.st).2 := by
    intro a ha
    unfold Node.advance
    simp only [ha, Bool.false_eq_true, if_false]
    split <;> (rename_i heq; rw [heq])
  induction t with
  | zero =>
    have := hadv ⟨[], x, false, false⟩ rfl
    simp only [Node.run]
    rw [this]
    exact ⟨(hstep x).1, (hstep x).2, trivial⟩
  | succ t ih =>
    obtain ⟨i1, i2, _⟩ := ih
    refine ⟨?_, ?_, i2⟩
    · show (Node.advance cfg E (Node.run cfg E x (t + 1))).st.started = true
      cases ha : ((Node.run cfg E x (t + 1)).stopped || (Node.run cfg E x (t + 1)).failed) with
      | true => simp only [Node.advance, ha, if_true]; exact i1
      | false => rw [hadv _ ha]; exact (hstep _).1
    · show (Node.advance cfg E (Node.run cfg E x (t + 1))).st.epoch = x.epoch
      cases ha : ((Node.run cfg E x (t + 1)).stopped || (Node.run cfg E x (t + 1)).failed) with
      | true => simp only [Node.advance, ha, if_true]; exact i2
      | false => rw [hadv _ ha, (hstep _).2]; exact i2

theorem WS.after_add (B : Nat → List (Fin n)) (w : WS n) (m j : Nat) :
    WS.after B (WS.after B w m) j = WS.after B w (m + j) := by
  induction j with
  | zero => rfl
  | succ j ih =>
    show (WS.next B (WS.after B (WS.after B w m) j)).2 = (WS.next B (WS.after B w (m + j))).2
    rw [ih]

theorem next_run_aux (cfg : Cfg n) (c : Nat → Fin n) (f : Nat) : ∀ (s : St n) (e : Ev n) (s' : St n),
    next cfg c f s = some (e, s') →
    ∃ j, j < f ∧ (∀ i, i ≤ j → (runFrom cfg c s i).outs = [] ∧ (runFrom cfg c s i).stopped = false) ∧
      (runFrom cfg c s (j + 1)).st = s' ∧
      ((∃ k x, e = .item k x ∧ (runFrom cfg c s (j + 1)).outs = [(k, x)] ∧
          (runFrom cfg c s (j + 1)).stopped = false) ∨
       (e = .stop ∧ (runFrom cfg c s (j + 1)).outs = [] ∧ (runFrom cfg c s (j + 1)).stopped = true)) := by
  induction f with
  | zero => intro s e s' h; simp [next] at h
  | succ f ih =>
    intro s e s' h
    have h0 : ∀ i, i ≤ 0 → (runFrom cfg c s i).outs = [] ∧ (runFrom cfg c s i).stopped = false := by
      intro i hi
      have : i = 0 := by omega
      subst this; exact ⟨rfl, rfl⟩
    cases hb : step cfg c s with
    | mk e1 s1 =>
      cases e1 with
      | skip =>
        simp only [next, hb] at h
        obtain ⟨j, hj, hpre, hst, hres⟩ := ih s1 e s' h
        have hhead : ∀ i, runFrom cfg c s (i + 1) = runFrom cfg c s1 i := by
          intro i; rw [runFrom_head, hb]
        refine ⟨j + 1, by omega, ?_, by rw [hhead]; exact hst, ?_⟩
        · intro i hi
          cases i with
          | zero => exact ⟨rfl, rfl⟩
          | succ i => rw [hhead]; exact hpre i (by omega)
        · rw [hhead]; exact hres
      | item k x =>
        simp only [next, hb, Option.some.injEq, Prod.mk.injEq] at h
        obtain ⟨he, hs⟩ := h
        subst he; subst hs
        have hh : runFrom cfg c s (0 + 1) = ⟨[(k, x)], s1, false⟩ := by rw [runFrom_head, hb]; rfl
        exact ⟨0, by omega, h0, by rw [hh], Or.inl ⟨k, x, rfl, by rw [hh], by rw [hh]⟩⟩
      | stop =>
        simp only [next, hb, Option.some.injEq, Prod.mk.injEq] at h
        obtain ⟨he, hs⟩ := h
        subst he; subst hs
        have hh : runFrom cfg c s (0 + 1) = ⟨[], s1, true⟩ := by rw [runFrom_head, hb]
        exact ⟨0, by omega, h0, by rw [hh], Or.inr ⟨rfl, by rw [hh], by rw [hh]⟩⟩

/-- If one more iteration neither stops nor leaves the outputs unchanged, `next()` with fuel 1 returns that item. -/
theorem next_one_of_advance (cfg : Cfg n) (c : Nat → Fin n) (r : Run n) (hst : r.stopped = false)
    (h1 : (advance cfg c r).stopped = false) (h2 : (keys (advance cfg c r).outs).length = (keys r.outs).length + 1) :
    ∃ k x s', next cfg c 1 r.st = some (.item k x, s') := by
  unfold advance at h1 h2
  simp only [hst, Bool.false_eq_true, if_false] at h1 h2
  cases hb : step cfg c r.st with
  | mk e s1 =>
    rw [hb] at h1 h2
    cases e with
    | item k x => exact ⟨k, x, s1, by simp [next, hb]⟩
    | skip => simp only at h2; omega
    | stop => simp only at h1; cases h1

theorem div_mod_lt (L b o i : Nat) (hL : 0 < L) (ho : o < L) (hi : o + b * L = i) : i / L = b ∧ i % L = o := by
  subst hi
  constructor
  · rw [Nat.add_mul_div_right _ _ hL, Nat.div_eq_of_lt ho]; simp
  · rw [Nat.add_mul_mod_self_right, Nat.mod_eq_of_lt ho]

theorem div_mod_full (L b i : Nat) (hL : 0 < L) (hi : L + b * L = i) : i / L = b + 1 ∧ i % L = 0 := by
  have hi' : 0 + (b + 1) * L = i := by rw [Nat.succ_mul]; omega
  subst hi'
  constructor
  · rw [Nat.add_mul_div_right _ _ hL]; simp
  · rw [Nat.add_mul_mod_self_right]; simp

end TDV.Weighted
