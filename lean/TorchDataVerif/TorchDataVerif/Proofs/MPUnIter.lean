import TorchDataVerif.Proofs.MPUnIterList
/-!
# MPU, `in_order = False`, iterable datasets: per-worker FIFO invariant

Ghost `n w` = number of results of worker `w` the main process has processed.  The results of `w` in the
result queue are exactly the items `n w … pos-1` of its shard, in order, followed by the end-of-shard
notice if the worker has ended and the notice has not been received.
-/
namespace TDV.MPU
open TDV.MP

def shardOf (c : Cfg) (w : Nat) : List Item := c.shards.getD w []

def resOf (Q : List Res) (w : Nat) : List Kind := (Q.filter (fun r => r.w == w)).map (·.kind)

def chainOf (c : Cfg) (w n pos : Nat) (note : Bool) : List Kind :=
  (((shardOf c w).take pos).drop n).map kindOf ++ (if note then [.notice] else [])

theorem chain_snoc (c : Cfg) (w n pos : Nat) (it : Item) (hn : n ≤ pos) (hp : (shardOf c w)[pos]? = some it) :
    chainOf c w n (pos + 1) false = chainOf c w n pos false ++ [kindOf it] := by
  have hlt : pos < (shardOf c w).length := (List.getElem?_eq_some_iff.mp hp).1
  simp only [chainOf, Bool.false_eq_true, if_false, List.append_nil]
  rw [List.take_add_one, hp, Option.toList_some,
    List.drop_append_of_le_length (by rw [List.length_take]; omega)]
  simp

theorem chain_note (c : Cfg) (w n pos : Nat) :
    chainOf c w n pos true = chainOf c w n pos false ++ [.notice] := by
  simp [chainOf]

theorem chain_head (c : Cfg) (w n pos : Nat) (b : Bool) (hn : n < pos) (hp : pos ≤ (shardOf c w).length) :
    ∃ it, (shardOf c w)[n]? = some it ∧ chainOf c w n pos b = kindOf it :: chainOf c w (n + 1) pos b := by
  have hlt : n < (shardOf c w).length := by omega
  refine ⟨(shardOf c w)[n], List.getElem?_eq_getElem hlt, ?_⟩
  simp only [chainOf]
  have hl : n < ((shardOf c w).take pos).length := by rw [List.length_take]; omega
  rw [List.drop_eq_getElem_cons hl, List.getElem_take]
  simp

theorem chain_nil (c : Cfg) (w n pos : Nat) (b : Bool) (hn : pos ≤ n) :
    chainOf c w n pos b = if b then [.notice] else [] := by
  simp only [chainOf]
  rw [List.drop_eq_nil_of_le (by rw [List.length_take]; omega)]
  simp

theorem resOf_cons (r : Res) (Q : List Res) (w : Nat) :
    resOf (r :: Q) w = if r.w = w then r.kind :: resOf Q w else resOf Q w := by
  simp only [resOf, List.filter_cons]
  by_cases h : r.w = w
  · simp [h]
  · have : (r.w == w) = false := by simp [h]
    simp [this, h]

theorem resOf_append (Q Q' : List Res) (w : Nat) : resOf (Q ++ Q') w = resOf Q w ++ resOf Q' w := by
  simp [resOf, List.filter_append]

/-- The state of worker `w` against the ghost counter `n w`. -/
structure WOk (c : Cfg) (s : State) (n : Nat → Nat) (w : Nat) (k : Worker) : Prop where
  le1 : n w ≤ k.pos
  le2 : k.pos ≤ (shardOf c w).length
  ie : k.iterEnd = true → k.pos = (shardOf c w).length
  dn : up s w = false → k.iterEnd = true ∧ n w = (shardOf c w).length
  ch : resOf s.resQ w = chainOf c w (n w) k.pos (k.iterEnd && up s w)

structure MidUI0 (c : Cfg) (s : State) (n : Nat → Nat) : Prop where
  core : UCore c s
  wok : ∀ (w : Nat) (k : Worker), s.workers[w]? = some k → WOk c s n w k

/-- While some worker is active some task of an active worker is outstanding. -/
def LiveI (c : Cfg) (s : State) : Prop :=
  (∃ w, w < c.W ∧ up s w = true) → ∃ e ∈ s.info, up s e.w = true

theorem WOk_of_eq (c : Cfg) (s s' : State) (n : Nat → Nat) (w : Nat) (k k' : Worker) (h : WOk c s n w k)
    (e1 : s'.status = s.status) (e2 : s'.resQ = s.resQ) (e3 : k'.pos = k.pos) (e4 : k'.iterEnd = k.iterEnd) :
    WOk c s' n w k' := by
  have hup : up s' w = up s w := by simp [up, e1]
  exact ⟨by rw [e3]; exact h.le1, by rw [e3]; exact h.le2, by rw [e3, e4]; exact h.ie, by rw [hup, e4]; exact h.dn,
    by rw [e2, e3, e4, hup]; exact h.ch⟩

/-- A transformation that only appends messages to index queues keeps the per-worker facts. -/
theorem MidUI0_grow (c : Cfg) (s s' : State) (n : Nat → Nat) (h : MidUI0 c s n) (hc : UCore c s')
    (e1 : s'.status = s.status) (e2 : s'.resQ = s.resQ)
    (hw : ∀ (w : Nat) (k' : Worker), s'.workers[w]? = some k' → ∃ k : Worker, s.workers[w]? = some k ∧ k'.pos = k.pos ∧
      k'.iterEnd = k.iterEnd) : MidUI0 c s' n := by
  refine ⟨hc, fun w k' hk' => ?_⟩
  obtain ⟨k, hk, a1, a2⟩ := hw w k' hk'
  exact WOk_of_eq c s s' n w k k' (h.wok w k hk) e1 e2 a1 a2

theorem entriesOf_pos (l : List Info) (w : Nat) (h : 0 < entriesOf l w) : ∃ e ∈ l, e.w = w := by
  simp only [entriesOf] at h
  obtain ⟨e, he⟩ := List.exists_mem_of_length_pos h
  rw [List.mem_filter] at he
  exact ⟨e, he.1, by simpa using he.2⟩

theorem capOf_pos (c : Cfg) (s : State) (hv : c.Valid) (hl : s.status.length = c.W) (w : Nat) (hu : up s w = true) :
    0 < capOf c s := by
  have h1 : 0 < countUp s.status := countUp_pos s.status w hu
  have h2 : countUp s.status ≤ c.W := by rw [← hl]; exact countUp_le _
  apply Nat.div_pos _ h1
  calc countUp s.status ≤ c.W := h2
    _ = 1 * c.W := (Nat.one_mul _).symm
    _ ≤ c.P * c.W := Nat.mul_le_mul_right _ hv.2

/-- `_try_put_index` (iterable): per-worker facts kept, and afterwards some active worker has a task. -/
theorem MidUI0_tryPut (c : Cfg) (s : State) (n : Nat → Nat) (hv : c.Valid) (hit : c.iterable = true)
    (hio : c.inOrder = false) (h : MidUI0 c s n) :
    MidUI0 c (tryPut c s) n ∧ LiveI c (tryPut c s) ∧ SameCore s (tryPut c s) := by
  have hcore := UCore_tryPut c s hio hv.1 h.core
  have hsc := tryPut_sameCore c s
  rcases tryPut_cases c s hio hv.1 h.core.cyc with ⟨hm, _, _⟩ | ⟨_, hno, cyc', hc, he⟩ | ⟨_, w, cyc', hg, hw, hc, he⟩
  · rw [hit] at hm; cases hm
  · rw [he] at hcore hsc ⊢
    refine ⟨MidUI0_grow c s _ n h hcore rfl rfl (fun w k' hk' => ⟨k', hk', rfl, rfl⟩), ?_, hsc⟩
    rintro ⟨w, hw, hu⟩
    have hu' : up s w = true := hu
    have hng := hno w hw
    simp only [goodW, hu', Bool.true_and, decide_eq_false_iff_not, Nat.not_lt] at hng
    have hpos := capOf_pos c s hv h.core.stl w hu'
    have hcnt := h.core.cnt w hw hu'
    obtain ⟨e, he1, he2⟩ := entriesOf_pos s.info w (by omega)
    exact ⟨e, he1, by rw [he2]; exact hu⟩
  · obtain ⟨e1, _, _, e4, e5, _, _, _, p, sn, e8⟩ := dispatchTo_fields c s w cyc'
    rw [he] at hcore hsc ⊢
    refine ⟨MidUI0_grow c s _ n h hcore e1 e4 ?_, ?_, hsc⟩
    · intro v k' hk'
      rw [e8] at hk'
      obtain ⟨k0, hk0, a1, a2, _, _⟩ := pushMsg_get _ _ _ _ _ hk'
      exact ⟨k0, hk0, a1, a2⟩
    · intro _
      simp only [goodW, Bool.and_eq_true] at hg
      refine ⟨⟨s.sendIdx, w, none⟩, by rw [e5]; simp, ?_⟩
      show up (dispatchTo c s w cyc') w = true
      have : up (dispatchTo c s w cyc') w = up s w := by simp [up, e1]
      rw [this]; exact hg.1

end TDV.MPU
