import TorchDataVerif.Proofs.MPRIProc
/-!
# MPRI — the `_next_data` loop keeps the joint invariant
-/
namespace TDV.MPRI
open TDV.MP TDV.MPU

/-- The ghost-free summary that survives shutdown: the stored snapshot is the ideal state after a consumed
prefix of the live sequence. -/
def FS (c : Cfg) (e0 : Nat → Bool) (δ : Nat) (s : State) : Prop :=
  ∃ E R, E ++ R = liveFrom c 0 0 ∧ SnapOk c e0 δ E s.snap ∧ s.numYielded + δ = ndE c E

theorem FS_of_JX (c : Cfg) (e0 : Nat → Bool) (δ : Nat) (s : State) (g : Ghost) (dl : List Nat)
    (h : JX c e0 δ s g dl) : FS c e0 δ s := by
  obtain ⟨R, hR⟩ := live_take c s g none h.wi.1 s.rcvdIdx
  exact ⟨_, R, hR, h.ks.sn, h.ks.yc⟩

theorem FS_of_eq (c : Cfg) (e0 : Nat → Bool) (δ : Nat) (s s' : State) (h : FS c e0 δ s) (e1 : s'.snap = s.snap)
    (e2 : s'.numYielded = s.numYielded) : FS c e0 δ s' := by
  unfold FS; rw [e1, e2]; exact h

theorem JX_of_eq (c : Cfg) (e0 : Nat → Bool) (δ : Nat) (s s' : State) (g : Ghost) (dl : List Nat)
    (h : JX c e0 δ s g dl)
    (e1 : s'.sendIdx = s.sendIdx) (e2 : s'.cyc = s.cyc) (e3 : s'.status = s.status) (e4 : s'.rcvdIdx = s.rcvdIdx)
    (e5 : s'.info = s.info) (e6 : s'.workers = s.workers) (e7 : s'.resQ = s.resQ) (e8 : s'.obs = s.obs)
    (e9 : s'.numYielded = s.numYielded) (e10 : s'.mainSnaps = s.mainSnaps) (e11 : s'.wsnaps = s.wsnaps)
    (e12 : s'.snap = s.snap) : JX c e0 δ s' g dl :=
  ⟨WI_of_eq c s s' g h.wi e1 e2 e3 e4 e5 e6 e7 e8, by rw [e5]; exact SWk_of_eq c s s' _ none 0 h.sw e5 e4 e1 e9 e10,
    by rw [e1]; exact h.dlen, KF_of_eq c s s' _ _ h.kf e6 e7 e5, by rw [e11, e12, e9, e4]; exact h.ks⟩

theorem KF_pop (c : Cfg) (s : State) (h dl : List Nat) (e : Info) (l : List Info) (hF : KF c s h dl)
    (hi : s.info = e :: l) (s' : State) (e1 : s'.workers = s.workers) (e2 : s'.resQ = s.resQ) (e3 : s'.info = l) :
    KF c s' h dl :=
  ⟨by rw [e1]; exact hF.qf, by rw [e2]; exact hF.rf,
    by rw [e3]; intro x hx; exact hF.inf x (by rw [hi]; exact List.mem_cons_of_mem _ hx)⟩

/-- Consuming a dead task (its owner retired before it was handled): nothing observable changes. -/
theorem dead_pop (c : Cfg) (e0 : Nat → Bool) (δ : Nat) (s : State) (g : Ghost) (dl : List Nat) (e : Info)
    (l : List Info) (h : JX c e0 δ s g dl) (hi : s.info = e :: l) (hnone : e.res = none) (hdown : up s e.w = false) :
    JX c e0 δ { s with info := l, rcvdIdx := s.rcvdIdx + 1 } g dl := by
  obtain ⟨hm, ho, hl, hfin⟩ := h.wi
  have hinfo := hm.info
  rw [hi] at hinfo
  obtain ⟨h1, h2, h3, h4, h5⟩ := hinfo
  have hw : e.w < c.W := hm.own _ _ h2
  have harr : bOf c e.w + 1 ≤ g.arr e.w := by
    have := (hm.st e.w hw)
    rcases Nat.lt_or_ge (bOf c e.w) (g.arr e.w) with hh | hh
    · omega
    · have := this.mpr hh; rw [hdown] at this; cases this
  have hseq := h4 hnone (by simp)
  have hdead : bOf c e.w < (g.h.take s.rcvdIdx).count e.w := by omega
  obtain ⟨hm', _⟩ := MidI_pop c s g none e l hm (Or.inl rfl) hi (Or.inr hdead)
  have hlp : livePairs c (g.h.take (s.rcvdIdx + 1)) = livePairs c (g.h.take s.rcvdIdx) := by
    rw [livePairs_take_succ c g.h _ e.w h2, if_neg (by omega), List.append_nil]
  have hsw := h.sw
  obtain ⟨d, Z1, hZ, hZ1⟩ := Z_head (zipZ s.info dl) e l (by rw [zipZ_fst, hi])
  have hzl : zipZ l dl = Z1 := by
    have : zipZ s.info dl = (e, dl.getD e.idx 0) :: zipZ l dl := by rw [hi]; rfl
    rw [this] at hZ
    exact (List.cons.inj hZ).2
  rw [hZ] at hsw
  refine ⟨⟨hm', ?_, LiveI_pop c s _ g e.w hl rfl rfl h2 (by omega), ?_⟩, ?_, h.dlen, ?_, ?_⟩
  · simp only
    rw [dataItems_take_succ c g.h _ e.w h2, getElem?_none_toList _ _ (by unfold bOf at hdead; omega),
      List.append_nil]
    exact ho
  · intro hst
    have hlen := hm.len
    rw [hi] at hlen
    simp only [List.length_cons] at hlen
    have := (hfin hst).1; omega
  · show SWk c _ (zipZ l dl) none 0
    rw [hzl]
    exact SWk_dropHead c s _ e d Z1 l hsw hi rfl rfl rfl rfl rfl
  · exact KF_pop c s _ _ e l h.kf hi _ rfl rfl rfl
  · show KS c e0 δ s.wsnaps s.snap s.numYielded (livePairs c (g.h.take (s.rcvdIdx + 1)))
    rw [hlp]; exact h.ks

theorem skip_J (c : Cfg) (e0 : Nat → Bool) (δ : Nat) (s : State) (g : Ghost) (dl : List Nat) (n : Nat)
    (h : JX c e0 δ s g dl) : JX c e0 δ (skip s n) g dl := by
  induction n generalizing s with
  | zero => exact h
  | succ n ih =>
    unfold skip
    by_cases hlt : s.rcvdIdx < s.sendIdx
    · simp only [hlt, if_true]
      have hm := h.wi.1
      have hlen := hm.len
      obtain ⟨e, l, hi⟩ : ∃ e l, s.info = e :: l := by
        cases hi : s.info with
        | nil => simp [hi] at hlen; omega
        | cons e l => exact ⟨e, l, rfl⟩
      have hinfo := hm.info
      rw [hi] at hinfo
      have hidx := InfoI_idxFrom c g none _ _ hinfo
      rw [hi, lookupInfo_headX _ e l hidx]
      simp only
      by_cases hkeep : (e.res.isSome || up s e.w) = true
      · simp only [hkeep, if_true]
        exact h
      · simp only [hkeep, Bool.false_eq_true, if_false]
        simp only [Bool.or_eq_true, not_or, Bool.not_eq_true, Option.isSome_eq_false_iff,
          Option.isNone_iff_eq_none] at hkeep
        obtain ⟨hnone, hdown⟩ := hkeep
        rw [eraseInfo_headX _ e l hidx]
        have := dead_pop c e0 δ s g dl e l h hi hnone hdown
        exact ih _ this
    · simp only [hlt, if_false]
      exact h

/-- The worker snapshots after consuming the end-of-shard notice of task `i`. -/
theorem KS_notice_pop (c : Cfg) (e0 : Nat → Bool) (δ : Nat) (ws : List WSt) (sn : Snap) (y : Nat) (h : List Nat)
    (i w : Nat) (st : Option WSt) (hS : KS c e0 δ ws sn y (livePairs c (h.take i))) (hi : h[i]? = some w)
    (hw : w < c.W) (hcnt : (h.take i).count w = bOf c w) (hst : st = some ⟨bOf c w, true⟩) :
    KS c e0 δ (applyDelta ws w st) sn y (livePairs c (h.take (i + 1))) := by
  rw [livePairs_take_succ c h i w hi, if_pos (by omega), hcnt, hst]
  exact KS_notice c e0 δ ws sn y _ w hS hw (by rw [posE_livePairs]; omega)

/-- The outcome of a `loop` run that has been delivered to the consumer. -/
def Post (c : Cfg) (e0 : Nat → Bool) (δ : Nat) (F : State) : Prop :=
  FS c e0 δ F ∧ (F.shutdown = false → ∃ g' dl', JX c e0 δ F g' dl')

theorem Post_of_JX (c : Cfg) (e0 : Nat → Bool) (δ : Nat) (F : State) (g : Ghost) (dl : List Nat)
    (h : JX c e0 δ F g dl) : Post c e0 δ F := ⟨FS_of_JX c e0 δ F g dl h, fun _ => ⟨g, dl, h⟩⟩

/-- The `while True` loop of `_next_data`, for any fuel, with the ghosts exposed. -/
theorem loop_J (c : Cfg) (e0 : Nat → Bool) (δ : Nat) (n : Nat) (s : State) (g : Ghost) (dl : List Nat)
    (hv : c.shards.length = c.W) (hit : c.iterable = true) (hio : c.inOrder = true) (hok : ShardsOk c)
    (hJ : JX c e0 δ s g dl) (hsd : s.shutdown = false) (hfuel : s.sendIdx - s.rcvdIdx < n) :
    (∀ o, (loop c n s).2 = some o → o ≠ .assertion) ∧ Post c e0 δ (finish (loop c n s)) := by
  induction n generalizing s with
  | zero => omega
  | succ n ih =>
    rw [loop_succ_eq]
    have hJ2 := skip_J c e0 δ s g dl (s.sendIdx - s.rcvdIdx) hJ
    obtain ⟨_, hf, hk, hrcv⟩ := skip_WI c s g (s.sendIdx - s.rcvdIdx) hJ.wi
    have hk2 := hk (Nat.le_refl _)
    generalize skip s (s.sendIdx - s.rcvdIdx) = s2 at hJ2 hf hk2 hrcv
    have hsd2 : s2.shutdown = false := by rw [hf.shutdown]; exact hsd
    obtain ⟨hm2, ho2, hl2, hfin2⟩ := hJ2.wi
    unfold loopBody
    by_cases hle : s2.sendIdx ≤ s2.rcvdIdx
    · rw [if_pos hle]
      have hfin := fin_of_stop c s2 g hv hm2 hl2 hle
      refine ⟨fun o ho => by simp at ho; subst ho; simp, ?_⟩
      by_cases hp : c.persistent = true
      · rw [if_pos hp]
        apply Post_of_JX c e0 δ _ g dl
        apply JX_finish_some c e0 δ s2 .stop g dl hm2 hl2 hJ2.sw hJ2.dlen hJ2.kf hJ2.ks
        · simpa [taskObs_append, taskObs] using ho2
        · intro _; exact hfin
      · rw [if_neg hp]
        have hsm := shutdownWorkers_sameMain c s2
        refine ⟨FS_of_eq c e0 δ s2 _ (FS_of_JX c e0 δ s2 g dl hJ2) ?_ ?_, fun hh => ?_⟩
        · simp only [finish]; exact hsm.snap
        · simp only [finish]; exact hsm.numYielded
        · simp only [finish, shutdownWorkers_shutdown] at hh; cases hh
    · rw [if_neg hle]
      have hns : Obs.stop ∉ s2.obs := fun hst => hle (by rw [(hfin2 hst).1]; exact Nat.le_refl _)
      have hlen := hm2.len
      obtain ⟨e, l, hi⟩ : ∃ e l, s2.info = e :: l := by
        cases hi : s2.info with
        | nil => simp [hi] at hlen; omega
        | cons e l => exact ⟨e, l, rfl⟩
      have hinfo := hm2.info
      rw [hi] at hinfo
      have hidx := InfoI_idxFrom c g none _ _ hinfo
      have hlk : lookupInfo s2.info s2.rcvdIdx = some e := by rw [hi]; exact lookupInfo_headX _ e l hidx
      have her : eraseInfo s2.info s2.rcvdIdx = l := by rw [hi]; exact eraseInfo_headX _ e l hidx
      rw [hlk]
      simp only
      obtain ⟨h1, h2, h3, h4, h5⟩ := hinfo
      cases hres : e.res with
      | none =>
        simp only
        refine ⟨fun o ho => by simp at ho, ?_⟩
        simp only [finish]
        exact Post_of_JX c e0 δ _ g dl (JX_of_eq c e0 δ s2 _ g dl hJ2 rfl rfl rfl rfl rfl rfl rfl rfl rfl rfl rfl rfl)
      | some r =>
        simp only [her]
        obtain ⟨⟨hrw, _, _, hkind⟩, hridx, hseq⟩ := h3 r hres
        obtain ⟨hm3, _⟩ := MidI_pop c s2 g none e l hm2 (Or.inl rfl) hi (Or.inl hseq)
        have hD := dataItems_take_succ c g.h s2.rcvdIdx e.w h2
        obtain ⟨d, Z1, hZ, hZ1⟩ := Z_head (zipZ s2.info dl) e l (by rw [zipZ_fst, hi])
        have hze : zipZ s2.info dl = (e, dl.getD e.idx 0) :: zipZ l dl := by rw [hi]; rfl
        have hzl : zipZ l dl = Z1 := by rw [hze] at hZ; exact (List.cons.inj hZ).2
        have hdd : d = dl.getD s2.rcvdIdx 0 := by
          rw [hze] at hZ; have := (List.cons.inj hZ).1; rw [← h1]; exact (Prod.mk.inj this).2.symm
        have hsw2 := hJ2.sw
        rw [hZ] at hsw2
        have hstok := (hJ2.kf.inf e (by rw [hi]; exact List.mem_cons_self ..) r hres).2
        have hlen' := hlen
        rw [hi] at hlen'
        simp only [List.length_cons] at hlen'
        by_cases hn : r.kind = .notice
        · rw [if_pos hn]
          rw [hn] at hkind
          have hj := kindAt_notice c _ _ hkind
          have hnil : ((c.shards.getD e.w [])[(g.h.take s2.rcvdIdx).count e.w]?).toList = [] :=
            getElem?_none_toList _ _ (by unfold bOf at hj; omega)
          rw [hnil, List.append_nil] at hD
          have hst : r.st = some ⟨bOf c r.w, true⟩ := by unfold StOk at hstok; rw [hn] at hstok; exact hstok
          have hJ3 : JX c e0 δ { s2 with info := l, rcvdIdx := s2.rcvdIdx + 1, wsnaps := applyDelta s2.wsnaps r.w r.st } g dl := by
            refine ⟨⟨MidI_of_eq c _ _ g none hm3 rfl rfl rfl rfl rfl rfl rfl, ?_, ?_, ?_⟩, ?_, hJ2.dlen, ?_, ?_⟩
            · simp only [hD]; exact ho2
            · exact LiveI_pop c s2 _ g e.w hl2 rfl rfl h2 (by omega)
            · intro hst'; exact absurd hst' hns
            · show SWk c _ (zipZ l dl) none 0
              rw [hzl]
              exact SWk_dropHead c s2 _ e d Z1 l hsw2 hi rfl rfl rfl rfl rfl
            · exact KF_pop c s2 _ _ e l hJ2.kf hi _ rfl rfl rfl
            · show KS c e0 δ (applyDelta s2.wsnaps r.w r.st) s2.snap s2.numYielded
                (livePairs c (g.h.take (s2.rcvdIdx + 1)))
              rw [hrw] at hst ⊢
              exact KS_notice_pop c e0 δ _ _ _ g.h _ e.w _ hJ2.ks h2 (hm2.own _ _ h2) hj hst
          exact ih _ hJ3 hsd2 (by simp only; have := hf.sendIdx; omega)
        · rw [if_neg hn]
          obtain ⟨it, hit', hk, _⟩ := kindAt_data c _ _ _ hkind hn
          rw [hit'] at hD
          simp only [Option.toList] at hD
          have hc1 : cOne none e = 1 := by simp [cOne, cf, isNote, hres, hn]
          have hwin := hsw2.win
          simp only [WinOk, hc1] at hwin
          have hnn' := hsw2.nn
          rw [cntZ_cons, hc1] at hnn'
          have hS : SWk c { s2 with info := l, rcvdIdx := s2.rcvdIdx + 1 } (zipZ l dl) none 1 := by
            rw [hzl]
            exact ⟨hZ1, hidx.2, by simp only; omega, hwin.2, by omega, Nat.le_refl _, hsw2.ms, hsw2.mlt,
              fun z hz hf' => hsw2.mfl z (List.mem_cons_of_mem _ hz) hf'⟩
          have hP : Pend c { s2 with info := l, rcvdIdx := s2.rcvdIdx + 1 } (dl.getD s2.rcvdIdx 0) := by
            rw [← hdd]
            refine ⟨by have := hwin.1.1; simp only at this ⊢; omega, hwin.1.2, by simp, fun hf' => ?_⟩
            obtain ⟨x, hx⟩ := hsw2.mfl (e, d) (List.mem_cons_self ..) hf'
            exact ⟨x, by simpa [h1] using hx⟩
          have hpj := procJ c e0 δ { s2 with info := l, rcvdIdx := s2.rcvdIdx + 1 } g dl r s2.rcvdIdx it _ hit hio hok
            hm3 rfl (by rw [hrw]; exact h2) (by rw [hrw]; exact hit') hk hridx hS hP (by rw [hzl]; omega) hJ2.dlen
            (KF_pop c s2 _ _ e l hJ2.kf hi _ rfl rfl rfl) hstok hJ2.ks hD ho2 hns
          obtain ⟨a1, g', dl', a2⟩ := hpj
          exact ⟨fun o ho => by simp at ho; subst ho; exact a1, Post_of_JX c e0 δ _ g' dl' a2⟩

end TDV.MPRI
