import TorchDataVerif.Proofs.MPUnIterRun
/-!
# MPU, `in_order = False`, iterable: `init`, whole runs, multiset statements
-/
namespace TDV.MPU
open TDV.MP

theorem init_InvUI (c : Cfg) (hv : c.Valid) (hit : c.iterable = true) (hio : c.inOrder = false) : InvUI c (init c) := by
  have hcore := UCore_start c hv
  have h0 : MidUI0 c (tailArg c (resetHead c (baseState c (List.replicate c.W ⟨[], 0, false, true⟩)))) (fun _ => 0) := by
    refine ⟨hcore, fun w k hk => ?_⟩
    have hw : w < c.W := by
      have := (List.getElem?_eq_some_iff.mp hk).1
      simpa [tailArg, resetHead, baseState] using this
    have hkeq : k = ⟨[], 0, false, true⟩ := by
      have := List.mem_of_getElem? hk
      exact (List.mem_replicate.mp this).2
    have hup : up (tailArg c (resetHead c (baseState c (List.replicate c.W ⟨[], 0, false, true⟩)))) w = true :=
      up_replicate _ c.W w rfl hw
    subst hkeq
    refine ⟨Nat.le_refl _, Nat.zero_le _, (fun hx => by cases hx), (fun hu => by rw [hup] at hu; cases hu), ?_⟩
    simp [resOf, tailArg, resetHead, baseState, chainOf]
  have hpos : 0 < c.P * c.W := Nat.mul_pos hv.2 hv.1
  have hprime : ∀ (m : Nat) (s : State), MidUI0 c s (fun _ => 0) →
      MidUI0 c (prime c m s) (fun _ => 0) ∧ (0 < m → LiveI c (prime c m s)) ∧ SameCore s (prime c m s) := by
    intro m
    induction m with
    | zero => intro s hs; exact ⟨hs, fun h0 => absurd h0 (Nat.lt_irrefl _), SameCore.refl s⟩
    | succ m ih =>
      intro s hs
      unfold prime
      obtain ⟨h1, h2, h3⟩ := MidUI0_tryPut c s _ hv hit hio hs
      obtain ⟨a1, a2, a3⟩ := ih (tryPut c s) h1
      refine ⟨a1, fun _ => ?_, h3.trans a3⟩
      cases m with
      | zero => exact h2
      | succ m => exact a2 (by omega)
  obtain ⟨h1, h2, h3⟩ := hprime (c.P * c.W) _ h0
  have hinit : init c = prime c (c.P * c.W)
      (tailArg c (resetHead c (baseState c (List.replicate c.W ⟨[], 0, false, true⟩)))) := rfl
  rw [hinit]
  refine ⟨fun _ => 0, [], ?_, ?_, Or.inl ⟨h1, h2 hpos, ?_, ?_, ?_⟩⟩
  · rw [h3.obs]; exact trivial
  · intro k; rw [h3.phase]; simp [tailArg, resetHead, baseState]
  · rw [h3.shutdown]; rfl
  · rw [h3.obs]; intro hs; cases hs
  · simp [takeAll]

theorem step_InvUI (c : Cfg) (hv : c.Valid) (hit : c.iterable = true) (hio : c.inOrder = false) (s s' : State)
    (a : Action) (ha : a ≠ .reset) (h : InvUI c s) (hst : step c s a = some s') : InvUI c s' ∨ died s' := by
  cases a with
  | reset => exact absurd rfl ha
  | work w => exact Or.inl (InvUI_work c s s' w hit h hst)
  | kill w => exact Or.inl (InvUI_kill c s s' w h hst)
  | stateDict => exact Or.inl (InvUI_stateDict c s s' h hst)
  | next => exact Or.inl (InvUI_next c s s' h hst)
  | recv => exact Or.inl (InvUI_recv c hv s s' hit hio h hst)
  | pollTimeout =>
    simp only [step] at hst
    split at hst
    · cases hst
    · split at hst
      · cases hst; exact Or.inl h
      · cases hst
        right
        unfold died
        simp

theorem run_InvUI (c : Cfg) (hv : c.Valid) (hit : c.iterable = true) (hio : c.inOrder = false) (as : List Action)
    (s s' : State) (hnr : NoReset as) (h : InvUI c s) (hr : run c s as = some s') : InvUI c s' ∨ died s' := by
  induction as generalizing s with
  | nil => simp [run] at hr; subst hr; exact Or.inl h
  | cons a as ih =>
    simp only [run] at hr
    cases hs : step c s a with
    | none => simp [hs] at hr
    | some s1 =>
      simp only [hs] at hr
      rcases step_InvUI c hv hit hio s s1 a hnr.1 h hs with h1 | h1
      · exact ih s1 hnr.2 h1 hr
      · exact Or.inr (died_run c as s1 s' hr h1)

/-- All shards, in worker order: a permutation of torch's round robin. -/
theorem allShards_perm (c : Cfg) (hW : c.shards.length = c.W) :
    ((List.range c.W).flatMap (fun w => shardOf c w)).Perm (Ref.interleave c.shards) := by
  have : (List.range c.W).flatMap (fun w => shardOf c w) = c.shards.flatten := by
    rw [← hW]; exact range_flatMap_getD c.shards
  rw [this]
  exact (interleave_perm c.shards).symm

theorem goal_safe_iter (c : Cfg) (hW : c.shards.length = c.W) (obs : List Obs) (n : Nat → Nat) (items : List Item)
    (ho : ObsRel items (taskObs obs)) (hp : items.Perm (takeAll c n)) :
    ∃ rest, (yields obs ++ rest).Perm (oks (Ref.interleave c.shards)) := by
  have h1 := ObsRel_yields_sublist _ _ ho
  rw [yields_taskObs] at h1
  obtain ⟨r1, hr1⟩ := sublist_complete h1
  have h2 : ((List.range c.W).flatMap (fun w => (shardOf c w).take (n w) ++ (shardOf c w).drop (n w))).Perm
      (takeAll c n ++ (List.range c.W).flatMap (fun w => (shardOf c w).drop (n w))) :=
    flatMap_append_perm _ _ _
  have h3 : (List.range c.W).flatMap (fun w => (shardOf c w).take (n w) ++ (shardOf c w).drop (n w)) =
      (List.range c.W).flatMap (fun w => shardOf c w) :=
    flatMap_congr' _ _ _ (fun w _ => List.take_append_drop _ _)
  rw [h3] at h2
  have h4 : (items ++ (List.range c.W).flatMap (fun w => (shardOf c w).drop (n w))).Perm (Ref.interleave c.shards) :=
    ((List.Perm.append_right _ hp).trans h2.symm).trans (allShards_perm c hW)
  have h5 := oks_perm h4
  rw [oks_append] at h5
  refine ⟨r1 ++ oks ((List.range c.W).flatMap (fun w => (shardOf c w).drop (n w))), ?_⟩
  rw [← List.append_assoc]
  exact (List.Perm.append_right _ hr1).trans h5

theorem goal_complete_iter (c : Cfg) (hW : c.shards.length = c.W) (obs : List Obs) (n : Nat → Nat) (items : List Item)
    (ho : ObsRel items (taskObs obs)) (hp : items.Perm (takeAll c n))
    (hall : ∀ w, w < c.W → n w = (shardOf c w).length) (ha : Obs.assertion ∉ obs) :
    (taskObs obs).Perm ((Ref.interleave c.shards).map expected) ∧ (yields obs).Perm (oks (Ref.interleave c.shards)) := by
  have hna : Obs.assertion ∉ taskObs obs := fun hm => ha (mem_taskObs _ _ hm)
  have h1 := ObsRel_noassert _ _ ho hna
  have h2 : takeAll c n = (List.range c.W).flatMap (fun w => shardOf c w) :=
    flatMap_congr' _ _ _ (fun w hw => by
      rw [hall w (List.mem_range.mp hw)]; exact List.take_length)
  have h3 : items.Perm (Ref.interleave c.shards) := by
    rw [h2] at hp; exact hp.trans (allShards_perm c hW)
  refine ⟨by rw [h1]; exact h3.map _, ?_⟩
  rw [← yields_taskObs, h1, yields_map_expected]
  exact oks_perm h3

end TDV.MPU
