import TorchDataVerif.Proofs.NodesLoaderE
/-!
# Part F — `Filter` never runs out of loop fuel over a source with a bounded number of remaining items

`Ranked n μ B`: `μ` bounds from above the number of items `n` can still return before `StopIteration`; it is
`≤ B` on reachable states.  `Filter`'s rejection loop needs `fuel > B`.
-/
namespace TDV.E2EN
open TDV.Node TDV.Loader

structure Ranked (n : Node) (μ : Run n → Nat) (B : Nat) : Prop where
  item : ∀ r, n.Reach r → ∀ v, (n.rnext r).1 = .item v → μ (n.rnext r).2 < μ r
  other : ∀ r, n.Reach r → μ (n.rnext r).2 ≤ μ r
  get : ∀ r, n.Reach r → μ (n.rget r).2 ≤ μ r
  bound : ∀ r, n.Reach r → μ r ≤ B

/-! ## leaves -/

theorem list_ranked (l : List Item) : Ranked (listSource l) (fun r => (r.st : ListSt).rem.length) l.length where
  item := by
    intro r hr v h
    have inv := listSource_reach l r hr
    have h' : (listNext (r.st : ListSt)).1 = .item v := h
    show (listNext (r.st : ListSt)).2.rem.length < (r.st : ListSt).rem.length
    cases hrem : (r.st : ListSt).rem with
    | nil => simp [listNext, inv.1, hrem] at h'
    | cons x xs => simp [listNext, inv.1, hrem]
  other := by
    intro r hr
    have inv := listSource_reach l r hr
    show (listNext (r.st : ListSt)).2.rem.length ≤ (r.st : ListSt).rem.length
    cases hrem : (r.st : ListSt).rem with
    | nil => simp [listNext, inv.1, hrem]
    | cons x xs => simp [listNext, inv.1, hrem]
  get := fun r _ => Nat.le_refl _
  bound := by
    intro r hr
    have inv := listSource_reach l r hr
    show (r.st : ListSt).rem.length ≤ l.length
    rw [inv.2.2]
    simp

theorem sampler_ranked (idx : Nat → List Item) (upd : Nat → Nat) (e0 : Nat) (B : Nat) (hB : ∀ e, (idx e).length ≤ B) :
    Ranked (samplerNode idx upd e0) (fun r => (r.st : SampSt).rem.length) B where
  item := by
    intro r hr v h
    have sp := sampNext_spec idx (r.st : SampSt) r.nexted (samplerNode_reach idx upd e0 r hr)
    have h' : (sampNext (r.st : SampSt)).1 = .item v := h
    show (sampNext (r.st : SampSt)).2.rem.length < (r.st : SampSt).rem.length
    rw [sp.2.2.2.1]
    rw [sp.2.2.1] at h'
    cases hrem : (r.st : SampSt).rem with
    | nil => rw [hrem] at h'; cases h'
    | cons x xs => simp
  other := by
    intro r hr
    have sp := sampNext_spec idx (r.st : SampSt) r.nexted (samplerNode_reach idx upd e0 r hr)
    show (sampNext (r.st : SampSt)).2.rem.length ≤ (r.st : SampSt).rem.length
    rw [sp.2.2.2.1]
    simp
  get := fun r _ => Nat.le_refl _
  bound := by
    intro r hr
    have inv := samplerNode_reach idx upd e0 r hr
    show (r.st : SampSt).rem.length ≤ B
    rw [inv.2.2.1]
    have := hB (r.st : SampSt).epoch
    simp
    omega

/-! ## `Mapper` -/

theorem mapper_ranked (f : Item → Option Item) {src : Node} {μ : Run src → Nat} {B : Nat} (h : Ranked src μ B) :
    Ranked (mapper f src) (fun R => μ (R.st : Run src)) B where
  item := by
    intro R hR w hw
    have hr := mapper_reach f src R hR
    have hw' : (mapNext src f (R.st : Run src)).1 = .item w := hw
    have e := congrArg μ (mapNext_snd src f (R.st : Run src))
    have goal : μ (src.rnext (R.st : Run src)).2 < μ (R.st : Run src) := by
      rcases hx : src.rnext (R.st : Run src) with ⟨o, r'⟩
      cases o with
      | item v => have := h.item _ hr v (by rw [hx]); rw [hx] at this; exact this
      | stop => simp only [mapNext, hx] at hw'; cases hw'
      | error e => simp only [mapNext, hx] at hw'; cases hw'
    exact (show _ < _ from e ▸ goal)
  other := by
    intro R hR
    have e := congrArg μ (mapNext_snd src f (R.st : Run src))
    exact (show _ ≤ _ from e ▸ h.other _ (mapper_reach f src R hR))
  get := fun R hR => h.get _ (mapper_reach f src R hR)
  bound := fun R hR => h.bound _ (mapper_reach f src R hR)

/-! ## `Batcher` -/

theorem collect_rank {src : Node} {μ : Run src → Nat} {B : Nat} (h : Ranked src μ B) (k : Nat) :
    ∀ r, src.Reach r → μ (collect src k r).2 + (collect src k r).1.1.length ≤ μ r := by
  induction k with
  | zero => intro r _; simp [collect]
  | succ k ih =>
    intro r hr
    have hn := Node.Reach.next hr
    have ho := h.other r hr
    rcases hx : src.rnext r with ⟨o, r'⟩
    rw [hx] at hn ho
    cases o with
    | item v =>
      have e1 : collect src (k + 1) r = ((v :: (collect src k r').1.1, (collect src k r').1.2), (collect src k r').2) := by
        simp only [collect, hx]
      rw [e1]
      have hi := h.item r hr v (by rw [hx])
      rw [hx] at hi
      have := ih r' hn
      simp only [List.length_cons]
      simp only at hi
      omega
    | stop =>
      have e1 : collect src (k + 1) r = (([], .stop), r') := by simp only [collect, hx]
      rw [e1]; simpa using ho
    | error e' =>
      have e1 : collect src (k + 1) r = (([], .err e'), r') := by simp only [collect, hx]
      rw [e1]; simpa using ho

theorem batcher_ranked (bs : Nat) (dl : Bool) (hbs : 1 ≤ bs) {src : Node} {μ : Run src → Nat} {B : Nat}
    (h : Ranked src μ B) : Ranked (batcher bs dl src) (fun R => μ (R.st : Run src)) B where
  item := by
    intro R hR w hw
    have hr := batcher_reach bs dl src R hR
    obtain ⟨x, xs, hwl⟩ := batcher_itemsSat bs dl hbs src R hR w hw
    have hc := collect_rank h bs (R.st : Run src) hr
    have h' : batchOut dl (collect src bs (R.st : Run src)).1 = .item w := hw
    show μ (collect src bs (R.st : Run src)).2 < μ (R.st : Run src)
    rcases hcc : (collect src bs (R.st : Run src)).1 with ⟨b, c⟩
    rw [hcc] at h' hc
    simp only at hc
    have hb : b = x :: xs := by
      cases c with
      | full => simp only [batchOut] at h'; rw [hwl] at h'; cases h'; rfl
      | stop =>
        simp only [batchOut] at h'
        split at h'
        · cases h'
        · rw [hwl] at h'; cases h'; rfl
      | err e => simp [batchOut] at h'
    rw [hb] at hc
    simp only [List.length_cons] at hc
    omega
  other := by
    intro R hR
    have := collect_rank h bs (R.st : Run src) (batcher_reach bs dl src R hR)
    show μ (collect src bs (R.st : Run src)).2 ≤ μ (R.st : Run src)
    omega
  get := fun R hR => h.get _ (batcher_reach bs dl src R hR)
  bound := fun R hR => h.bound _ (batcher_reach bs dl src R hR)

/-! ## `Filter` -/

theorem filLoop_rank {src : Node} {μ : Run src → Nat} {B : Nat} (h : Ranked src μ B) (q : Item → Bool) (k : Nat) :
    ∀ st : FilSt src, src.Reach st.inner →
      μ (filLoop src q k st).2.inner ≤ μ st.inner ∧
      ∀ v, (filLoop src q k st).1 = .item v → μ (filLoop src q k st).2.inner < μ st.inner := by
  induction k with
  | zero => intro st _; exact ⟨Nat.le_refl _, fun v hv => by simp [filLoop] at hv⟩
  | succ k ih =>
    intro st hr
    have hn := Node.Reach.next hr
    have ho := h.other _ hr
    rcases hx : src.rnext st.inner with ⟨o, r'⟩
    rw [hx] at hn ho
    simp only at ho
    cases o with
    | item w =>
      have hi := h.item _ hr w (by rw [hx])
      rw [hx] at hi
      simp only at hi
      by_cases hq : q w = true
      · simp only [filLoop, hx, hq, if_true]
        exact ⟨ho, fun _ _ => hi⟩
      · have e : filLoop src q (k + 1) st = filLoop src q k { st with inner := r', nf := st.nf + 1 } := by
          simp only [filLoop, hx, hq]; rfl
        rw [e]
        have := ih { st with inner := r', nf := st.nf + 1 } hn
        simp only at this
        refine ⟨by omega, fun v hv => ?_⟩
        have := this.1
        omega
    | stop => simp only [filLoop, hx]; exact ⟨ho, fun v hv => by cases hv⟩
    | error e => simp only [filLoop, hx]; exact ⟨ho, fun v hv => by cases hv⟩

theorem filter_ranked (fuel : Nat) (q : Item → Bool) {src : Node} {μ : Run src → Nat} {B : Nat}
    (h : Ranked src μ B) : Ranked (filter fuel q src) (fun R => μ (R.st : FilSt src).inner) B where
  item := fun R hR v hv => (filLoop_rank h q fuel _ (filter_reach fuel q src R hR)).2 v hv
  other := fun R hR => (filLoop_rank h q fuel _ (filter_reach fuel q src R hR)).1
  get := fun R hR => h.get _ (filter_reach fuel q src R hR)
  bound := fun R hR => h.bound _ (filter_reach fuel q src R hR)

/-- With more fuel than the source has items left, the loop ends by an event of the source. -/
theorem filLoop_noFuel {src : Node} {μ : Run src → Nat} {B : Nat} (h : Ranked src μ B) (he : ErrFree src)
    (q : Item → Bool) (k : Nat) :
    ∀ st : FilSt src, src.Reach st.inner → μ st.inner < k → ∀ e, (filLoop src q k st).1 ≠ .error e := by
  induction k with
  | zero => intro st _ hlt; omega
  | succ k ih =>
    intro st hr hlt e
    have hn := Node.Reach.next hr
    rcases hx : src.rnext st.inner with ⟨o, r'⟩
    rw [hx] at hn
    cases o with
    | item w =>
      have hi := h.item _ hr w (by rw [hx])
      rw [hx] at hi
      simp only at hi
      by_cases hq : q w = true
      · simp only [filLoop, hx, hq, if_true]; intro hc; cases hc
      · have e1 : filLoop src q (k + 1) st = filLoop src q k { st with inner := r', nf := st.nf + 1 } := by
          simp only [filLoop, hx, hq]; rfl
        rw [e1]
        exact ih { st with inner := r', nf := st.nf + 1 } hn (by simp only; omega) e
    | stop => simp only [filLoop, hx]; intro hc; cases hc
    | error e' => exact absurd (by rw [hx]) (he _ hr e')

theorem filter_errFree (fuel : Nat) (q : Item → Bool) {src : Node} {μ : Run src → Nat} {B : Nat}
    (h : Ranked src μ B) (he : ErrFree src) (hf : B < fuel) : ErrFree (filter fuel q src) := by
  intro R hR e
  have hr := filter_reach fuel q src R hR
  have hb := h.bound _ hr
  exact filLoop_noFuel h he q fuel _ hr (by omega) e

/-! ## `buffered` -/

theorem bufNext_rank {src : Node} {μ : Run src → Nat} {B : Nat} (h : Ranked src μ B) (sf : Nat) (x : BufSt src)
    (hr : src.Reach x.inner) :
    μ (bufNext src sf x).2.inner ≤ μ x.inner ∧
    ∀ v, (bufNext src sf x).1 = .item v → μ (bufNext src sf x).2.inner < μ x.inner := by
  cases hb : x.bad with
  | true =>
    have e : bufNext src sf x = (.error errBad, x) := by simp [bufNext, hb]
    rw [e]; exact ⟨Nat.le_refl _, fun v hv => by cases hv⟩
  | false =>
    cases hd : x.done with
    | true =>
      rw [bufNext_done sf x hb hd]; exact ⟨Nat.le_refl _, fun v hv => by cases hv⟩
    | false =>
      have ho := h.other _ hr
      have hn := Node.Reach.next hr
      rcases hx : src.rnext x.inner with ⟨o, r'⟩
      rw [hx] at ho hn
      simp only at ho
      cases o with
      | item v =>
        have hi := h.item _ hr v (by rw [hx])
        rw [hx] at hi
        simp only at hi
        by_cases hc : sf > 0 ∧ (x.yielded + 1) % sf = 0
        · rw [bufNext_snap sf x hb hd v r' hx hc]
          have hg : μ (src.rget r').2 ≤ μ r' := h.get _ hn
          simp only
          exact ⟨by omega, fun _ _ => by omega⟩
        · rw [bufNext_plain sf x hb hd v r' hx hc]
          exact ⟨ho, fun _ _ => hi⟩
      | stop => rw [bufNext_stop sf x hb hd r' hx]; exact ⟨ho, fun v hv => by cases hv⟩
      | error e => rw [bufNext_err sf x hb hd e r' hx]; exact ⟨ho, fun v hv => by cases hv⟩

theorem buffered_ranked (sf : Nat) {src : Node} {μ : Run src → Nat} {B : Nat} (h : Ranked src μ B) :
    Ranked (buffered sf src) (fun R => μ (R.st : BufSt src).inner) B where
  item := fun R hR v hv => (bufNext_rank h sf _ (buffered_reach sf src R hR).1).2 v hv
  other := fun R hR => (bufNext_rank h sf _ (buffered_reach sf src R hR).1).1
  get := by
    intro R hR
    have hr := (buffered_reach sf src R hR).1
    show μ (bufGet src (R.st : BufSt src)).2.inner ≤ μ (R.st : BufSt src).inner
    cases hs : (R.st : BufSt src).snap with
    | some c => simp only [bufGet, hs]; exact Nat.le_refl _
    | none => simp only [bufGet, hs]; exact h.get _ hr
  bound := fun R hR => h.bound _ (buffered_reach sf src R hR).1

end TDV.E2EN
