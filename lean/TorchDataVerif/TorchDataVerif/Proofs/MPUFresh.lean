import TorchDataVerif.Proofs.MPUResume
/-!
# MPU — the end of the `_reset` handshake: the state is a fresh `init` state over the same workers
-/
namespace TDV.MPU
open TDV.MP

theorem State.ext' {s t : State} (h1 : s.sendIdx = t.sendIdx) (h2 : s.rcvdIdx = t.rcvdIdx) (h3 : s.info = t.info)
    (h4 : s.status = t.status) (h5 : s.cyc = t.cyc) (h6 : s.outstanding = t.outstanding)
    (h7 : s.numTasks = t.numTasks) (h8 : s.samplerPos = t.samplerPos) (h9 : s.numYielded = t.numYielded)
    (h10 : s.mainSnaps = t.mainSnaps) (h11 : s.wsnaps = t.wsnaps) (h12 : s.snap = t.snap) (h13 : s.lastW = t.lastW)
    (h14 : s.shutdown = t.shutdown) (h15 : s.bad = t.bad) (h16 : s.workers = t.workers) (h17 : s.resQ = t.resQ)
    (h18 : s.phase = t.phase) (h19 : s.obs = t.obs) : s = t := by
  cases s; cases t; simp_all

def setPhase (ph : Phase) (s : State) : State := { s with phase := ph }

theorem findWorker_setPhase (c : Cfg) (ph : Phase) (s : State) (n cyc : Nat) :
    findWorker c (setPhase ph s) n cyc = findWorker c s n cyc := by
  induction n generalizing cyc with
  | zero => rfl
  | succ n ih => unfold findWorker; rw [ih]; rfl

theorem tryPut_setPhase (c : Cfg) (ph : Phase) (s : State) :
    tryPut c (setPhase ph s) = setPhase ph (tryPut c s) := by
  have hc : (setPhase ph s).cyc = s.cyc := rfl
  have hs : (setPhase ph s).samplerPos = s.samplerPos := rfl
  simp only [tryPut, findWorker_setPhase, hc, hs]
  by_cases h : (!c.iterable && decide (c.batches.length ≤ s.samplerPos)) = true
  · simp only [h, if_true]; rfl
  · simp only [h]
    rcases hf : findWorker c s c.W s.cyc with ⟨_ | w, cyc⟩ <;> rfl

theorem prime_setPhase (c : Cfg) (ph : Phase) (n : Nat) (s : State) :
    prime c n (setPhase ph s) = setPhase ph (prime c n s) := by
  induction n generalizing s with
  | zero => rfl
  | succ n ih => unfold prime; rw [tryPut_setPhase, ih]

/-- Every worker received: the result queue is empty, every worker snapshot is the initial one, every
worker is at the start of a fresh dataset iterator with an empty index queue. -/
theorem RBody_nil (c : Cfg) (s : State) (h : RBody c s []) :
    s.resQ = [] ∧ s.wsnaps = List.replicate c.W ⟨0, false⟩ ∧ FreshW c s.workers := by
  refine ⟨?_, ?_, h.wl, ?_⟩
  · cases hq : s.resQ with
    | nil => rfl
    | cons r rest =>
      have hw := h.rw r (by rw [hq]; exact List.mem_cons_self ..)
      obtain ⟨_, _, _, _, _, a5, _⟩ := h.done r.w hw (by simp)
      exact absurd rfl (a5 r (by rw [hq]; exact List.mem_cons_self ..))
  · rw [List.eq_replicate_iff]
    refine ⟨h.wsl, fun b hb => ?_⟩
    obtain ⟨i, hi⟩ := List.mem_iff_getElem?.mp hb
    have hlt : i < c.W := by rw [← h.wsl]; exact (List.getElem?_eq_some_iff.mp hi).1
    obtain ⟨_, _, _, _, _, _, a6⟩ := h.done i hlt (by simp)
    rw [hi] at a6
    cases a6; rfl
  · intro k hk
    obtain ⟨i, hi⟩ := List.mem_iff_getElem?.mp hk
    have hlt : i < c.W := by rw [← h.wl]; exact (List.getElem?_eq_some_iff.mp hi).1
    obtain ⟨k0, a1, a2, a3, a4, _⟩ := h.done i hlt (by simp)
    rw [hi] at a1; cases a1
    exact ⟨a2, a3, a4⟩

/-- The argument of `prime` inside `resetTail`. -/
def tailArg (c : Cfg) (s : State) : State :=
  { s with mainSnaps := [], lastW := c.W - 1, snap := ⟨0, c.W - 1, s.samplerPos, s.wsnaps⟩ }

theorem resetTail_eq' (c : Cfg) (s : State) : resetTail c s = prime c (c.P * c.W) (tailArg c s) := rfl

theorem tailArg_fresh (c : Cfg) (T : State) (h : RBody c T []) :
    tailArg c T = setPhase T.phase (rebase T.obs T.bad (tailArg c (resetHead c (baseState c T.workers)))) := by
  obtain ⟨hq, hws, _⟩ := RBody_nil c T h
  have hh := h.head
  simp only [headOf, head0, Prod.mk.injEq] at hh
  obtain ⟨g1, g2, g3, g4, g5, g6, g7, g8, g9⟩ := hh
  apply State.ext' <;> simp [tailArg, setPhase, rebase, resetHead, baseState, g1, g2, g3, g4, g5, g6, g7, g8, g9, hq, hws, h.sh]

theorem finishReset_eq (ph : Phase) (o : List Obs) (b : Bool) (X : State) (h1 : X.phase = .idle) (h2 : X.obs = []) :
    ({ setPhase ph (rebase o b X) with phase := .idle, obs := (setPhase ph (rebase o b X)).obs ++ [.resetDone] } : State)
      = rebase (o ++ [.resetDone]) b X := by
  apply State.ext' <;> simp [setPhase, rebase, h1, h2]

/-- **`_reset` completes into a fresh iterator over the same workers.**  If every worker has been received
(the last acknowledgement was just taken), what `_reset` leaves is `init` over the very same worker
list, with the observation history in front. -/
theorem resetTail_fresh (c : Cfg) (T : State) (h : RBody c T []) :
    ({ resetTail c T with phase := .idle, obs := (resetTail c T).obs ++ [.resetDone] } : State)
      = rebase (T.obs ++ [.resetDone]) T.bad (initW c T.workers) := by
  rw [resetTail_eq', tailArg_fresh c T h, prime_setPhase, prime_rebase]
  exact finishReset_eq _ _ _ _ (initW_phase c T.workers) (initW_obs c T.workers)

/-- A `recv` during the handshake: a stale result is dropped, or an acknowledgement is counted, or the
last acknowledgement completes `_reset` into a fresh iterator over the same workers. -/
theorem RInv_recv (c : Cfg) (s s' : State) (k : Nat) (L : List Nat) (h : RInv c s k L)
    (hst : step c s .recv = some s') :
    (∃ k' L', RInv c s' k' L' ∧ s'.obs = s.obs ∧ s'.bad = s.bad) ∨
    (FreshW c s.workers ∧ s' = rebase (s.obs ++ [.resetDone]) s.bad (initW c s.workers)) := by
  rw [step_recv_eq] at hst
  cases hq : s.resQ with
  | nil => simp [hq] at hst
  | cons r rest =>
    simp only [hq, h.ph] at hst
    by_cases hk : r.kind = .ack
    · rw [if_pos hk] at hst
      have hb := RBody_ack c s { s with resQ := rest, phase := .resuming k, wsnaps := applyDelta s.wsnaps r.w r.st } L r rest h.body hq hk
        rfl rfl rfl rfl rfl
      obtain ⟨hb, hL⟩ := hb
      have hlen : (L.erase r.w).length = L.length - 1 := List.length_erase_of_mem hL
      by_cases h1 : k ≤ 1
      · rw [if_pos h1] at hst
        cases hst
        right
        have hnil : L.erase r.w = [] := by
          apply List.eq_nil_of_length_eq_zero
          have := h.len
          omega
        rw [hnil] at hb
        exact ⟨(RBody_nil c _ hb).2.2, resetTail_fresh c _ hb⟩
      · rw [if_neg h1] at hst
        cases hst
        left
        refine ⟨k - 1, L.erase r.w, ?_, rfl, rfl⟩
        have hb' : RBody c { s with resQ := rest, wsnaps := applyDelta s.wsnaps r.w r.st, phase := .resuming (k - 1) }
            (L.erase r.w) := ⟨hb.head, hb.sh, hb.wl, hb.wsl, hb.rw, hb.nd, hb.lw, hb.pend, hb.done⟩
        exact hb'.inv rfl (by have := h.len; omega)
    · rw [if_neg hk] at hst
      cases hst
      left
      refine ⟨k, L, ?_, rfl, rfl⟩
      exact (RBody_drop c s { s with resQ := rest, phase := .resuming k } L r rest h.body hq hk rfl rfl rfl rfl rfl).inv rfl h.len

end TDV.MPU
