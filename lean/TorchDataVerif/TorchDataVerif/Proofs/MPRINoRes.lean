import TorchDataVerif.Proofs.MPRIShift
/-!
# MPRI — without `reset` no `_ResumeIteration` ever enters an index queue, and the phase is never `resuming`
-/
namespace TDV.MPRI
open TDV.MP

def NR (ws : List Worker) : Prop := ∀ (w : Nat) (k : Worker), ws[w]? = some k → Msg.resume ∉ k.q

theorem NR_pushMsg (ws : List Worker) (w : Nat) (m : Msg) (h : NR ws) (hm : m ≠ .resume) : NR (pushMsg ws w m) := by
  intro w' k' hk'
  obtain ⟨k0, hk0, _, _, _, hq⟩ := pushMsg_get _ _ _ _ _ hk'
  rw [hq]
  split
  · intro hmem
    rcases List.mem_append.mp hmem with h1 | h1
    · exact h w' k0 hk0 h1
    · simp at h1; exact hm h1.symm
  · exact h w' k0 hk0

theorem NR_set (ws : List Worker) (w : Nat) (k k' : Worker) (h : NR ws) (hk : ws[w]? = some k)
    (hsub : ∀ x ∈ k'.q, x ∈ k.q) : NR (ws.set w k') := by
  intro w' k2 hk2
  simp only [List.getElem?_set] at hk2
  by_cases hw : w = w'
  · subst hw
    have hwl : w < ws.length := (List.getElem?_eq_some_iff.mp hk).1
    simp only [if_true, hwl] at hk2
    cases hk2
    exact fun hm => h w k hk (hsub _ hm)
  · simp only [hw, if_false] at hk2
    exact h w' k2 hk2

theorem NR_tryPut (c : Cfg) (s : State) (h : NR s.workers) : NR (tryPut c s).workers := by
  unfold tryPut
  split
  · exact h
  · split
    · exact h
    · exact NR_pushMsg _ _ _ h (by simp)

theorem NR_processData (c : Cfg) (s : State) (r : Res) (h : NR s.workers) : NR (processData c s r).1.workers := by
  rw [MPU.processData_eq]
  have h1 : NR (tryPut c { s with numTasks := s.numTasks.modify r.w (· - 1) }).workers := NR_tryPut c _ h
  cases r.kind with
  | data b => simp only; rw [(yieldItem_sameProto c _ r b).workers]; exact h1
  | notice => exact h1
  | error => exact h1
  | ack => exact h1

theorem skip_workers (s : State) (n : Nat) : (skip s n).workers = s.workers := by
  induction n generalizing s with
  | zero => rfl
  | succ n ih =>
    unfold skip
    split
    · split
      · split
        · rfl
        · rw [ih]
      · rw [ih]
    · rfl

theorem NR_markUnavailable (c : Cfg) (s : State) (w : Nat) (b : Bool) (h : NR s.workers) :
    NR (markUnavailable c s w b).workers := NR_pushMsg _ _ _ h (by simp)

theorem NR_shutdownLoop (c : Cfg) (n : Nat) (s : State) (h : NR s.workers) : NR (shutdownLoop c n s).workers := by
  induction n with
  | zero => exact h
  | succ n ih =>
    unfold shutdownLoop
    simp only
    split
    · exact NR_markUnavailable c _ n true ih
    · exact ih

theorem NR_shutdownWorkers (c : Cfg) (s : State) (h : NR s.workers) : NR (shutdownWorkers c s).workers := by
  unfold shutdownWorkers
  split
  · exact h
  · exact NR_shutdownLoop c c.W _ h

theorem NR_loop (c : Cfg) (n : Nat) (s : State) (h : NR s.workers) : NR (loop c n s).1.workers := by
  induction n generalizing s with
  | zero => exact h
  | succ n ih =>
    rw [MPU.loop_succ_eq]
    have h2 : NR (skip s (s.sendIdx - s.rcvdIdx)).workers := by rw [skip_workers]; exact h
    generalize skip s (s.sendIdx - s.rcvdIdx) = t at h2
    unfold MPU.loopBody
    split
    · split
      · exact h2
      · exact NR_shutdownWorkers c t h2
    · split
      · exact h2
      · split
        · dsimp only
          split
          · exact ih _ h2
          · exact NR_processData c _ _ h2
        · exact h2

theorem finish_workers (p : State × Option Obs) : (finish p).workers = p.1.workers := by
  unfold finish; split <;> rfl

theorem NR_onArrival (c : Cfg) (s : State) (r : Res) (h : NR s.workers) : NR (onArrival c s r).workers := by
  unfold onArrival
  split
  · apply NR_tryPut
    simp only
    split
    · exact h
    · exact NR_markUnavailable c s r.w false h
  · exact h

theorem NR_recvData (c : Cfg) (s : State) (r : Res) (h : NR s.workers) : NR (recvData c s r).workers := by
  rw [MPU.recvData_eq_tail]
  have h1 : NR (onArrival c { s with outstanding := s.outstanding - 1 } r).workers := NR_onArrival c _ r h
  generalize onArrival c { s with outstanding := s.outstanding - 1 } r = t at h1
  unfold MPU.recvTail
  split
  · split
    · split
      · rw [finish_workers]; exact NR_loop c _ _ h1
      · rw [finish_workers]; exact NR_processData c _ _ h1
    · rw [finish_workers]; exact NR_loop c _ _ h1
  · split
    · rw [finish_workers]; exact NR_loop c _ _ h1
    · rw [finish_workers]; exact NR_processData c _ _ h1

theorem NR_markAll (c : Cfg) (l : List Nat) (s : State) (h : NR s.workers) : NR (markAll c s l).workers := by
  induction l generalizing s with
  | nil => exact h
  | cons w l ih => unfold markAll; exact ih _ (NR_markUnavailable c s w false h)

theorem finish_phase' (p : State × Option Obs) : ∀ k, (finish p).phase ≠ .resuming k := by
  intro k; unfold finish; split <;> simp

theorem handle_q2 (c : Cfg) (sh : Bool) (w : Nat) (k : Worker) (m : Msg) : (handle c sh w k m).1.q = k.q := by
  cases m with
  | stop => rfl
  | resume => rfl
  | task idx p sn =>
    simp only [handle]
    split
    · rfl
    · split <;> rfl

/-- The invariant of `run_shift` for the real run. -/
def Plain (s : State) : Prop := NoRes s ∧ ∀ k, s.phase ≠ .resuming k

theorem Plain_step (c : Cfg) (s s' : State) (a : Action) (ha : a ≠ .reset) (h : Plain s) (hst : step c s a = some s') :
    Plain s' := by
  obtain ⟨hn, hp⟩ := h
  have hn' : NR s.workers := hn
  cases a with
  | reset => exact absurd rfl ha
  | work w =>
    rw [step_work_eq'] at hst
    cases hk : s.workers[w]? with
    | none => simp [hk] at hst
    | some k =>
      simp only [hk] at hst
      split at hst
      · cases hst
      · cases hq : k.q with
        | nil => simp [hq] at hst
        | cons m rest =>
          simp only [hq] at hst
          cases hst
          refine ⟨?_, hp⟩
          show NR (s.workers.set w _)
          apply NR_set s.workers w k _ hn' hk
          intro x hx
          rw [handle_q2] at hx
          rw [hq]; exact List.mem_cons_of_mem _ hx
  | kill w =>
    simp only [step] at hst
    split at hst
    · cases hst
    · rename_i k hk
      split at hst
      · cases hst
      · cases hst
        exact ⟨NR_set s.workers w k _ hn' hk (fun x hx => hx), hp⟩
  | stateDict =>
    simp only [step] at hst
    split at hst
    · cases hst
    · cases hst; exact ⟨hn, hp⟩
  | pollTimeout =>
    simp only [step] at hst
    split at hst
    · cases hst
    · split at hst
      · cases hst; exact ⟨hn, hp⟩
      · cases hst
        exact ⟨NR_markAll c _ s hn', by intro k; simp⟩
  | next =>
    simp only [step] at hst
    split at hst
    · cases hst
    · cases hst
      refine ⟨?_, finish_phase' _⟩
      show NR (finish _).workers
      rw [finish_workers]; exact NR_loop c _ s hn'
  | recv =>
    simp only [step] at hst
    split at hst
    · cases hst
    · rename_i r rest hq
      split at hst
      · cases hst
      · split at hst
        · cases hst
        · cases hst
          refine ⟨NR_recvData c { s with resQ := rest } r hn', ?_⟩
          rw [MPU.recvData_eq_tail]
          unfold MPU.recvTail
          split
          · split
            · split <;> exact finish_phase' _
            · exact finish_phase' _
          · split <;> exact finish_phase' _
      · rename_i k hk
        exact absurd hk (hp k)

end TDV.MPRI
