import TorchDataVerif.Proofs.E2EIdeal
/-!
# E2E, part 4 — the end-to-end theorems for any iterator class that meets the interface

`M : Meets IC epochs`.  The loader is built over objects `w0` whose first fresh stream is `epochs 0`; newly built
loaders (`fresh`) get objects `fw n` that are fit to receive a state.
-/
namespace TDV.E2E
open TDV.Node
open TDV.Loader (Obs Op)
open TDV.SDLApi (It)

section
variable {X T Wd : Type} {IC : IterClass X T Wd} {epochs : Nat → List Item} (M : Meets IC epochs)
variable (fw : Nat → Wd) (hfw : ∀ n, M.WN (fw n)) (w0 : Wd) (hw0 : M.AW w0 0)
include hfw hw0

/-- Real and ideal loader in step after every well-used history. -/
theorem gen_exec_rel (ops : List Op) (hw : wellUsed epochs (Sys.init (some 0)) ops = true) :
    SRel M (Fac.exec IC fw (Sys.init w0) ops) (Fac.exec (idealIC epochs) ifw (Sys.init (some 0)) ops) :=
  exec_rel M fw hfw ops (srel_init M w0 (some 0) hw0) hw

/-- **Refinement**: on every well-used history the façade over the real iterator class observes what the
façade over the ideal iterator of `TDV.SDLApi` observes. -/
theorem gen_refines (ops : List Op) (hw : wellUsed epochs (Sys.init (some 0)) ops = true) :
    Fac.obs IC fw (Sys.init w0) ops = Fac.obs (idealIC epochs) ifw (Sys.init (some 0)) ops :=
  obs_rel M fw hfw ops (srel_init M w0 (some 0) hw0) hw

end

section
variable {X T Wd : Type} {IC : IterClass X T Wd} {epochs : Nat → List Item} (M : Meets IC epochs)

/-- What the real loader shows of "the user is iterating, `_finished` is `b`" holds of the ideal one too. -/
theorem rel_iterating {s : FState X T Wd} {a : IState} (h : Rel M s a) (hI : Iterating s) (x : X)
    (hx : s.iterator = some x) :
    ∃ a', a.iterator = some a' ∧ a'.fin = IC.fin x ∧ Iterating a := by
  obtain ⟨_, i2, i3, i4⟩ := hI
  have hit := h.it
  have hpd := h.pend
  rw [hx] at hit
  cases ha : a.iterator with
  | none => rw [ha] at hit; exact hit.elim
  | some a' =>
    rw [ha] at hit
    refine ⟨a', rfl, (M.fin x a' hit).symm, by rw [ha]; rfl, ?_, by rw [← h.flag]; exact i3, by rw [← h.handle]; exact i4⟩
    rw [i2] at hpd
    cases hp : a.pending with
    | none => rfl
    | some t => rw [hp] at hpd; exact hpd.elim

variable (fw : Nat → Wd) (hfw : ∀ n, M.WN (fw n)) (w0 : Wd) (hw0 : M.AW w0 0)
include hfw hw0

/-- **Resume is exact, for every continuation.**  After any well-used history `H` the user is iterating and
the iterator has not raised `StopIteration`.  `sd = state_dict()`; a NEWLY built loader, `load_state_dict(sd)`,
`iter()`: from here on, whatever is done (`cont`: the rest of the epoch, further epochs, further checkpoints and
resumes), the observations are those of the original loader after its `state_dict()`. -/
theorem gen_resume_exact (H cont : List Op) (x : X)
    (hH : wellUsed epochs (Sys.init (some 0)) H = true)
    (hx : (Fac.exec IC fw (Sys.init w0) H).st.iterator = some x) (hnf : IC.fin x = false)
    (hI : Iterating (Fac.exec IC fw (Sys.init w0) H).st)
    (hc : wellUsed epochs (Fac.exec (idealIC epochs) ifw (Sys.init (some 0)) (H ++ [.stateDict])) cont = true) :
    Fac.obs IC fw (Fac.exec IC fw (Sys.init w0)
        (H ++ [.stateDict, .fresh, .load (Fac.exec IC fw (Sys.init w0) H).toks.length, .iter])) cont =
      Fac.obs IC fw (Fac.exec IC fw (Sys.init w0) (H ++ [.stateDict])) cont := by
  have hr := gen_exec_rel M fw hfw w0 hw0 H hH
  obtain ⟨a, ha, haf, hIa⟩ := rel_iterating M hr.st hI x hx
  rw [hnf] at haf
  have hlen : (Fac.exec IC fw (Sys.init w0) H).toks.length =
      (Fac.exec (idealIC epochs) ifw (Sys.init (some 0)) H).toks.length := hr.toks.1
  obtain ⟨e1, e2⟩ := ideal_resume epochs _ a ha haf hIa
  have hsd : wellUsed epochs (Fac.exec (idealIC epochs) ifw (Sys.init (some 0)) H) [.stateDict] = true := by
    simp [wellUsed, okStep, ha]
  -- the resumed side
  have hwA : wellUsed epochs (Sys.init (some 0))
      (H ++ [.stateDict, .fresh, .load (Fac.exec IC fw (Sys.init w0) H).toks.length, .iter]) = true := by
    rw [wellUsed_append, hH, hlen, e2]; rfl
  have hrA := gen_exec_rel M fw hfw w0 hw0 _ hwA
  have hcA : wellUsed epochs (Fac.exec (idealIC epochs) ifw (Sys.init (some 0))
      (H ++ [.stateDict, .fresh, .load (Fac.exec IC fw (Sys.init w0) H).toks.length, .iter])) cont = true := by
    rw [exec_append, hlen, wellUsed_eqv epochs cont e1, ← exec_append]; exact hc
  rw [obs_rel M fw hfw cont hrA hcA]
  -- the original side
  have hwB : wellUsed epochs (Sys.init (some 0)) (H ++ [.stateDict]) = true := by
    rw [wellUsed_append, hH, hsd]; rfl
  have hrB := gen_exec_rel M fw hfw w0 hw0 _ hwB
  rw [obs_rel M fw hfw cont hrB hc]
  rw [exec_append, hlen, obs_eqv epochs cont e1, ← exec_append]

/-- The same from a state taken after the epoch's `StopIteration`: the new loader is where the original is
after its next `iter()`. -/
theorem gen_resume_exact_fin (H cont : List Op) (x : X)
    (hH : wellUsed epochs (Sys.init (some 0)) H = true)
    (hx : (Fac.exec IC fw (Sys.init w0) H).st.iterator = some x) (hf : IC.fin x = true)
    (hI : Iterating (Fac.exec IC fw (Sys.init w0) H).st)
    (hc : wellUsed epochs (Fac.exec (idealIC epochs) ifw (Sys.init (some 0)) (H ++ [.stateDict, .iter])) cont = true) :
    Fac.obs IC fw (Fac.exec IC fw (Sys.init w0)
        (H ++ [.stateDict, .fresh, .load (Fac.exec IC fw (Sys.init w0) H).toks.length, .iter])) cont =
      Fac.obs IC fw (Fac.exec IC fw (Sys.init w0) (H ++ [.stateDict, .iter])) cont := by
  have hr := gen_exec_rel M fw hfw w0 hw0 H hH
  obtain ⟨a, ha, haf, hIa⟩ := rel_iterating M hr.st hI x hx
  rw [hf] at haf
  have hlen : (Fac.exec IC fw (Sys.init w0) H).toks.length =
      (Fac.exec (idealIC epochs) ifw (Sys.init (some 0)) H).toks.length := hr.toks.1
  obtain ⟨e1, e2, e3⟩ := ideal_resume_fin epochs _ a ha haf hIa
  have hwA : wellUsed epochs (Sys.init (some 0))
      (H ++ [.stateDict, .fresh, .load (Fac.exec IC fw (Sys.init w0) H).toks.length, .iter]) = true := by
    rw [wellUsed_append, hH, hlen, e2]; rfl
  have hrA := gen_exec_rel M fw hfw w0 hw0 _ hwA
  have hcA : wellUsed epochs (Fac.exec (idealIC epochs) ifw (Sys.init (some 0))
      (H ++ [.stateDict, .fresh, .load (Fac.exec IC fw (Sys.init w0) H).toks.length, .iter])) cont = true := by
    rw [exec_append, hlen, wellUsed_eqv epochs cont e1, ← exec_append]; exact hc
  rw [obs_rel M fw hfw cont hrA hcA]
  have hwB : wellUsed epochs (Sys.init (some 0)) (H ++ [.stateDict, .iter]) = true := by
    rw [wellUsed_append, hH, e3]; rfl
  have hrB := gen_exec_rel M fw hfw w0 hw0 _ hwB
  rw [obs_rel M fw hfw cont hrB hc]
  rw [exec_append, hlen, obs_eqv epochs cont e1, ← exec_append]

end

section
variable {X T Wd : Type} {IC : IterClass X T Wd} {epochs : Nat → List Item} (M : Meets IC epochs)
variable (fw : Nat → Wd) (hfw : ∀ n, M.WN (fw n)) (w0 : Wd) (hw0 : M.AW w0 0)
include hfw hw0

/-- **Closed under repetition.**  A chain of links (take the state, build a NEW loader, load, `iter()`, carry on
with `seg`), every link taken mid-epoch (`ChainOk`, along the abstract run): whatever follows (`cont`) is
observed exactly as after the uninterrupted run that only takes the states. -/
theorem gen_chain (H cont : List Op) (segs : List (List Op))
    (hH : wellUsed epochs (Sys.init (some 0)) H = true)
    (hc : ChainOk epochs (Fac.exec (idealIC epochs) ifw (Sys.init (some 0)) H) segs)
    (hcont : wellUsed epochs (Fac.exec (idealIC epochs) ifw (Sys.init (some 0)) (H ++ plainOps segs)) cont = true) :
    Fac.obs IC fw (Fac.exec IC fw (Sys.init w0)
        (H ++ chainOps (Fac.exec IC fw (Sys.init w0) H).toks.length segs)) cont =
      Fac.obs IC fw (Fac.exec IC fw (Sys.init w0) (H ++ plainOps segs)) cont := by
  have hr := gen_exec_rel M fw hfw w0 hw0 H hH
  have hlen : (Fac.exec IC fw (Sys.init w0) H).toks.length =
      (Fac.exec (idealIC epochs) ifw (Sys.init (some 0)) H).toks.length := hr.toks.1
  obtain ⟨e1, e2, e3⟩ := ideal_chain epochs segs _ _ (seqv_refl _) hc
  have hwA : wellUsed epochs (Sys.init (some 0))
      (H ++ chainOps (Fac.exec IC fw (Sys.init w0) H).toks.length segs) = true := by
    rw [wellUsed_append, hH, hlen, e2]; rfl
  have hcA : wellUsed epochs (Fac.exec (idealIC epochs) ifw (Sys.init (some 0))
      (H ++ chainOps (Fac.exec IC fw (Sys.init w0) H).toks.length segs)) cont = true := by
    rw [exec_append, hlen, wellUsed_eqv epochs cont e1, ← exec_append]; exact hcont
  rw [obs_rel M fw hfw cont (gen_exec_rel M fw hfw w0 hw0 _ hwA) hcA]
  have hwB : wellUsed epochs (Sys.init (some 0)) (H ++ plainOps segs) = true := by
    rw [wellUsed_append, hH, e3]; rfl
  rw [obs_rel M fw hfw cont (gen_exec_rel M fw hfw w0 hw0 _ hwB) hcont]
  rw [exec_append, hlen, obs_eqv epochs cont e1, ← exec_append]

/-- **Extra `state_dict()` calls change nothing** (C08 for façade + iterator): removing all `peek`s from a
history leaves every other observation as it was. -/
theorem gen_transparent (ops : List Op) (g1 : wellUsed epochs (Sys.init (some 0)) ops = true)
    (g2 : wellUsed epochs (Sys.init (some 0)) (TDV.Loader.erasePeek ops) = true) :
    Fac.obsSkipPeek IC fw (Sys.init w0) ops = Fac.obs IC fw (Sys.init w0) (TDV.Loader.erasePeek ops) := by
  rw [obsSkipPeek_rel M fw hfw ops (srel_init M w0 (some 0) hw0) g1,
    obs_rel M fw hfw _ (srel_init M w0 (some 0) hw0) g2]
  exact ideal_transparent_aux epochs ops _ _ rfl (Or.inl (eqv_refl _)) (iinv_init _)

/-- **The uninterrupted loader delivers `epochs`**: `E` complete `for` loops. -/
theorem gen_stream (E : Nat) :
    Fac.obs IC fw (Sys.init w0) (forLoops epochs 0 E ++ [.iter]) = forObss epochs 0 E ++ [.ok] := by
  obtain ⟨a1, _, _, a4⟩ := ideal_init_iter epochs E
  rw [gen_refines M fw hfw w0 hw0 _ a4, a1]

/-- **C01, epoch by epoch.**  The original loader runs `e` complete epochs and `k ≤ length` batches of epoch
`e`; `sd = state_dict()`.  A NEWLY built loader, `load_state_dict(sd)`, `iter()`, then `for` loops: it yields
`drop k (epochs e)`, `StopIteration`, and then `epochs (e+1)`, …, `epochs (e+E)` in full — what the
uninterrupted loader (`gen_stream`) yields after batch `k` of epoch `e`. -/
theorem gen_resume_epochs (e k E : Nat) (hk : k ≤ (epochs e).length) :
    Fac.obs IC fw (Fac.exec IC fw (Sys.init w0)
        (prefixOps epochs e k ++ [.stateDict, .fresh, .load 0, .iter])) (restOps epochs e k E) =
      restObs epochs e k E := by
  obtain ⟨_, a2, a3, a4⟩ := ideal_prefix epochs e k hk
  have ha := a2.1
  obtain ⟨e1, e2⟩ := ideal_resume epochs _ _ ha rfl (at_iterating a2)
  rw [a3] at e1 e2
  simp only [List.length_nil] at e1 e2
  have hwA : wellUsed epochs (Sys.init (some 0)) (prefixOps epochs e k ++ [.stateDict, .fresh, .load 0, .iter]) = true := by
    rw [wellUsed_append, a4, e2]; rfl
  -- the original after its state_dict() is still at (e, k)
  have hat := at_stateDict epochs _ e k false a2
  obtain ⟨b1, b2⟩ := ideal_restOps epochs _ e k E hat hk
  have hcA : wellUsed epochs (Fac.exec (idealIC epochs) ifw (Sys.init (some 0))
      (prefixOps epochs e k ++ [.stateDict, .fresh, .load 0, .iter])) (restOps epochs e k E) = true := by
    rw [exec_append, wellUsed_eqv epochs _ e1]; exact b2
  rw [obs_rel M fw hfw _ (gen_exec_rel M fw hfw w0 hw0 _ hwA) hcA, exec_append, obs_eqv epochs _ e1, b1]

end

end TDV.E2E
