import TorchDataVerif.Proofs.MPBase
/-!
# MP, iterable datasets: the round-robin arithmetic (no protocol state here)

`b w` = number of fetches worker `w`'s shard answers.  The dispatch pointer is `(ρ, a)`: round `ρ`,
next worker `a`.  `turns ρ a w` = how often the pointer has passed worker `w`.  `liveFrom ρ a` lists, in
dispatch order, the *live* `(worker, sequence number)` pairs from the pointer on: worker `w` is live at
its `j`-th turn iff `j ≤ b w` (`j < b w`: a data task, `j = b w`: the task answered by the end-of-shard
notice).  `liveFrom 0 0` is the whole epoch; its data items are `Ref.interleave shards`.
-/
namespace TDV.MP

def bOf (c : Cfg) (w : Nat) : Nat := (c.shards.getD w []).length

def turns (ρ a w : Nat) : Nat := ρ + (if w < a then 1 else 0)

def adv (c : Cfg) (ρ a : Nat) : Nat × Nat := if a + 1 = c.W then (ρ + 1, 0) else (ρ, a + 1)

def roundFrom (c : Cfg) (ρ a : Nat) : List (Nat × Nat) :=
  ((List.range' a (c.W - a)).filter (fun w => decide (ρ ≤ bOf c w))).map (fun w => (w, ρ))

def maxB (c : Cfg) : Nat := Ref.maxLen c.shards

def laterRounds (c : Cfg) : Nat → Nat → List (Nat × Nat)
  | _, 0 => []
  | k, n + 1 => roundFrom c k 0 ++ laterRounds c (k + 1) n

def liveFrom (c : Cfg) (ρ a : Nat) : List (Nat × Nat) :=
  roundFrom c ρ a ++ laterRounds c (ρ + 1) (maxB c - ρ)

theorem turns_adv (c : Cfg) (ρ a w : Nat) (ha : a < c.W) (hw : w < c.W) :
    turns (adv c ρ a).1 (adv c ρ a).2 w = turns ρ a w + (if w = a then 1 else 0) := by
  unfold adv turns
  by_cases h : a + 1 = c.W
  · simp only [h, if_true]
    by_cases hwa : w = a
    · subst hwa; simp
    · have : w < a := by omega
      simp [this, hwa]
  · simp only [h, if_false]
    by_cases hwa : w = a
    · subst hwa; simp
    · by_cases hlt : w < a
      · have : w < a + 1 := by omega
        simp [hlt, this, hwa]
      · have : ¬ w < a + 1 := by omega
        simp [hlt, this, hwa]

theorem adv_lt (c : Cfg) (ρ a : Nat) (ha : a < c.W) : (adv c ρ a).2 < c.W := by
  unfold adv
  split
  · simp; omega
  · simp; omega

theorem adv_cyc (c : Cfg) (ρ a : Nat) (ha : a < c.W) : (adv c ρ a).2 = (a + 1) % c.W := by
  unfold adv
  split
  · rename_i h; simp [h]
  · rename_i h; simp; rw [Nat.mod_eq_of_lt (by omega)]

theorem roundFrom_step (c : Cfg) (ρ a : Nat) (ha : a < c.W) :
    roundFrom c ρ a = (if ρ ≤ bOf c a then [(a, ρ)] else []) ++ roundFrom c ρ (a + 1) := by
  unfold roundFrom
  obtain ⟨n, hn⟩ : ∃ n, c.W - a = n + 1 := ⟨c.W - a - 1, by omega⟩
  have hn' : c.W - (a + 1) = n := by omega
  rw [hn, hn', List.range'_succ]
  by_cases h : ρ ≤ bOf c a
  · simp [List.filter, h]
  · simp [List.filter, h]

theorem roundFrom_end (c : Cfg) (ρ : Nat) : roundFrom c ρ c.W = [] := by
  simp [roundFrom]

theorem bOf_le_maxB (c : Cfg) (w : Nat) : bOf c w ≤ maxB c := by
  unfold bOf maxB
  generalize c.shards = l
  induction l generalizing w with
  | nil => simp [Ref.maxLen]
  | cons sh r ih =>
    cases w with
    | zero => simp [Ref.maxLen]; omega
    | succ w =>
      have := ih w
      simp only [List.getD_cons_succ, Ref.maxLen]
      omega

theorem roundFrom_beyond (c : Cfg) (ρ a : Nat) (h : maxB c < ρ) : roundFrom c ρ a = [] := by
  unfold roundFrom
  have : ∀ w, decide (ρ ≤ bOf c w) = false := by
    intro w; have := bOf_le_maxB c w; simp; omega
  simp [this]

theorem liveFrom_adv (c : Cfg) (ρ a : Nat) (ha : a < c.W) :
    liveFrom c ρ a = (if ρ ≤ bOf c a then [(a, ρ)] else []) ++ liveFrom c (adv c ρ a).1 (adv c ρ a).2 := by
  unfold liveFrom adv
  rw [roundFrom_step c ρ a ha]
  by_cases h : a + 1 = c.W
  · simp only [h, if_true, roundFrom_end, List.append_nil, List.append_assoc, List.nil_append]
    congr 1
    by_cases hlt : ρ < maxB c
    · obtain ⟨n, hn⟩ : ∃ n, maxB c - ρ = n + 1 := ⟨maxB c - ρ - 1, by omega⟩
      have hn' : maxB c - (ρ + 1) = n := by omega
      rw [hn, hn', laterRounds]
    · have h0 : maxB c - ρ = 0 := by omega
      have h1 : maxB c - (ρ + 1) = 0 := by omega
      rw [h0, h1]
      simp [laterRounds, roundFrom_beyond c (ρ + 1) 0 (by omega)]
  · simp only [h, if_false, List.append_assoc]

/-! ## dispatch histories: `h[i]` = owner of task `i`; the sequence number of task `i` is the number of
earlier tasks of the same owner -/

/-- Kind of the `j`-th task of worker `w`; `none` = dead (ignored by the worker). -/
def kindAt (c : Cfg) (w j : Nat) : Option Kind :=
  match (c.shards.getD w [])[j]? with
  | some it => some (kindOf it)
  | none => if j = bOf c w then some .notice else none

def livePairsR (c : Cfg) : List Nat → List (Nat × Nat)
  | [] => []
  | v :: r => livePairsR c r ++ (if r.count v ≤ bOf c v then [(v, r.count v)] else [])

def dataItemsR (c : Cfg) : List Nat → List Item
  | [] => []
  | v :: r => dataItemsR c r ++ ((c.shards.getD v [])[r.count v]?).toList

/-- Live `(worker, seq)` pairs of a history, in task-index order. -/
def livePairs (c : Cfg) (h : List Nat) : List (Nat × Nat) := livePairsR c h.reverse

/-- Fetch results of the data tasks of a history, in task-index order. -/
def dataItems (c : Cfg) (h : List Nat) : List Item := dataItemsR c h.reverse

theorem livePairs_snoc (c : Cfg) (h : List Nat) (v : Nat) :
    livePairs c (h ++ [v]) = livePairs c h ++ (if h.count v ≤ bOf c v then [(v, h.count v)] else []) := by
  simp [livePairs, livePairsR, List.count_reverse]

theorem dataItems_snoc (c : Cfg) (h : List Nat) (v : Nat) :
    dataItems c (h ++ [v]) = dataItems c h ++ ((c.shards.getD v [])[h.count v]?).toList := by
  simp [dataItems, dataItemsR, List.count_reverse]

theorem livePairs_nil (c : Cfg) : livePairs c [] = [] := rfl
theorem dataItems_nil (c : Cfg) : dataItems c [] = [] := rfl

theorem snoc_induction {α : Type} {P : List α → Prop} (nil : P [])
    (snoc : ∀ l a, P l → P (l ++ [a])) : ∀ l, P l := by
  intro l
  have : ∀ r : List α, P r.reverse := by
    intro r
    induction r with
    | nil => exact nil
    | cons a r ih => rw [List.reverse_cons]; exact snoc _ _ ih
  have h := this l.reverse
  rwa [List.reverse_reverse] at h

theorem dataItems_prefix (c : Cfg) (a b : List Nat) : dataItems c a <+: dataItems c (a ++ b) := by
  induction b using snoc_induction with
  | nil => simp
  | snoc b v ih =>
    rw [← List.append_assoc, dataItems_snoc]
    exact List.IsPrefix.trans ih (List.prefix_append _ _)

/-- The fetch results named by a list of `(worker, seq)` pairs (notice pairs name nothing). -/
def itemsOf (c : Cfg) (l : List (Nat × Nat)) : List Item :=
  l.filterMap (fun p => (c.shards.getD p.1 [])[p.2]?)

theorem itemsOf_append (c : Cfg) (a b : List (Nat × Nat)) : itemsOf c (a ++ b) = itemsOf c a ++ itemsOf c b := by
  simp [itemsOf]

theorem dataItems_eq_itemsOf (c : Cfg) (h : List Nat) : dataItems c h = itemsOf c (livePairs c h) := by
  induction h using snoc_induction with
  | nil => rfl
  | snoc h v ih =>
    rw [dataItems_snoc, livePairs_snoc, itemsOf_append, ih]
    congr 1
    by_cases hl : h.count v ≤ bOf c v
    · simp only [hl, if_true, itemsOf, List.filterMap_cons, List.filterMap_nil]
      cases (c.shards.getD v [])[h.count v]? <;> rfl
    · have : (c.shards.getD v [])[h.count v]? = none := by
        apply List.getElem?_eq_none
        unfold bOf at hl; omega
      rw [this]; simp [hl, itemsOf]

/-! ## per-worker FIFO chains -/

def taskIdxs : List Msg → List Nat
  | [] => []
  | .task idx _ _ :: r => idx :: taskIdxs r
  | _ :: r => taskIdxs r

/-- `r` answers the `j`-th task of worker `w` (a live one), truthfully. -/
def ResOk (c : Cfg) (h : List Nat) (w j : Nat) (r : Res) : Prop :=
  r.w = w ∧ h[r.idx]? = some w ∧ (h.take r.idx).count w = j ∧ kindAt c w j = some r.kind

/-- The tasks waiting in worker `w`'s index queue are its tasks number `j, j+1, …` in order. -/
def QChain (h : List Nat) (w : Nat) : Nat → List Nat → Prop
  | _, [] => True
  | j, i :: r => h[i]? = some w ∧ (h.take i).count w = j ∧ QChain h w (j + 1) r

/-- The results of worker `w` in the result queue answer its tasks number `j, j+1, …` in order. -/
def RChain (c : Cfg) (h : List Nat) (w : Nat) : Nat → List Res → Prop
  | _, [] => True
  | j, r :: l => ResOk c h w j r ∧ RChain c h w (j + 1) l

theorem getElem?_snoc_of_some {α : Type} (h : List α) (v x : α) (i : Nat) (hi : h[i]? = some x) :
    (h ++ [v])[i]? = some x := by
  have : i < h.length := (List.getElem?_eq_some_iff.mp hi).1
  rw [List.getElem?_append_left this]; exact hi

theorem take_snoc_of_some {α : Type} (h : List α) (v x : α) (i : Nat) (hi : h[i]? = some x) :
    (h ++ [v]).take i = h.take i := by
  have : i < h.length := (List.getElem?_eq_some_iff.mp hi).1
  rw [List.take_append_of_le_length (by omega)]

theorem ResOk_snoc (c : Cfg) (h : List Nat) (v w j : Nat) (r : Res) (hr : ResOk c h w j r) :
    ResOk c (h ++ [v]) w j r := by
  obtain ⟨h1, h2, h3, h4⟩ := hr
  exact ⟨h1, getElem?_snoc_of_some h v w _ h2, by rw [take_snoc_of_some h v w _ h2]; exact h3, h4⟩

theorem QChain_snoc_hist (h : List Nat) (v w j : Nat) (l : List Nat) (hq : QChain h w j l) :
    QChain (h ++ [v]) w j l := by
  induction l generalizing j with
  | nil => trivial
  | cons i r ih =>
    obtain ⟨h1, h2, h3⟩ := hq
    exact ⟨getElem?_snoc_of_some h v w _ h1, by rw [take_snoc_of_some h v w _ h1]; exact h2, ih _ h3⟩

theorem RChain_snoc_hist (c : Cfg) (h : List Nat) (v w j : Nat) (l : List Res) (hq : RChain c h w j l) :
    RChain c (h ++ [v]) w j l := by
  induction l generalizing j with
  | nil => trivial
  | cons r l ih => exact ⟨ResOk_snoc c h v w j r hq.1, ih _ hq.2⟩

theorem QChain_snoc (h : List Nat) (w j : Nat) (l : List Nat) (i : Nat) (hq : QChain h w j l)
    (h1 : h[i]? = some w) (h2 : (h.take i).count w = j + l.length) : QChain h w j (l ++ [i]) := by
  induction l generalizing j with
  | nil => exact ⟨h1, by simpa using h2, trivial⟩
  | cons x r ih =>
    obtain ⟨a1, a2, a3⟩ := hq
    exact ⟨a1, a2, ih _ a3 (by simp at h2; omega)⟩

theorem RChain_snoc (c : Cfg) (h : List Nat) (w j : Nat) (l : List Res) (r : Res) (hq : RChain c h w j l)
    (hr : ResOk c h w (j + l.length) r) : RChain c h w j (l ++ [r]) := by
  induction l generalizing j with
  | nil => exact ⟨by simpa using hr, trivial⟩
  | cons x l ih =>
    exact ⟨hq.1, ih _ hq.2 (by simp at hr; rw [Nat.add_assoc, Nat.add_comm 1]; exact hr)⟩

/-- Among tasks of one owner, a later index has a larger sequence number. -/
theorem count_take_lt (h : List Nat) (w i i' : Nat) (hi : h[i]? = some w) (hlt : i < i') (_hi' : i' ≤ h.length) :
    (h.take i).count w < (h.take i').count w := by
  have hil : i < h.length := (List.getElem?_eq_some_iff.mp hi).1
  have e1 : h.take i' = h.take i ++ (h.drop i).take (i' - i) := by
    rw [← List.take_append_drop i (h.take i'), List.take_take, Nat.min_eq_left (by omega), List.drop_take]
  have e2 : (h.drop i).take (i' - i) = w :: ((h.drop (i + 1)).take (i' - i - 1)) := by
    obtain ⟨n, hn⟩ : ∃ n, i' - i = n + 1 := ⟨i' - i - 1, by omega⟩
    have hd : h.drop i = h[i] :: h.drop (i + 1) := List.drop_eq_getElem_cons hil
    have hw : h[i] = w := by
      have := List.getElem?_eq_getElem hil; rw [this] at hi; exact Option.some.inj hi
    rw [hn, hd, hw]; simp
  rw [e1, e2, List.count_append, List.count_cons_self]
  omega

/-! ## the whole live sequence names `Ref.interleave shards` -/

theorem map_getD_range {α : Type} (l : List α) (d : α) : (List.range l.length).map (fun i => l.getD i d) = l := by
  apply List.ext_getElem?
  intro i
  simp only [List.getElem?_map, List.getElem?_range]
  by_cases h : i < l.length
  · simp [h, List.getD_eq_getElem?_getD, List.getElem?_eq_getElem h]
  · simp [h, List.getElem?_eq_none (Nat.le_of_not_lt h)]

theorem laterRounds_snoc (c : Cfg) (k n : Nat) :
    laterRounds c k (n + 1) = laterRounds c k n ++ roundFrom c (k + n) 0 := by
  induction n generalizing k with
  | zero => simp [laterRounds]
  | succ n ih =>
    rw [laterRounds, ih (k + 1), laterRounds]
    simp [Nat.add_assoc, Nat.add_comm 1 n, List.append_assoc]

theorem itemsOf_roundFrom (c : Cfg) (k : Nat) (hW : c.shards.length = c.W) :
    itemsOf c (roundFrom c k 0) = Ref.round c.shards k := by
  unfold itemsOf roundFrom Ref.round
  rw [List.filterMap_map, List.filterMap_filter]
  have h1 : ∀ w, (if decide (k ≤ bOf c w) = true then ((fun p : Nat × Nat => (c.shards.getD p.1 [])[p.2]?) ∘ fun w => (w, k)) w else none)
      = (c.shards.getD w [])[k]? := by
    intro w
    by_cases hk : k ≤ bOf c w
    · simp [hk]
    · simp only [hk, decide_false, Bool.false_eq_true, if_false]
      symm; apply List.getElem?_eq_none; unfold bOf at hk; omega
  simp only [Nat.sub_zero]
  rw [List.range'_eq_map_range]
  simp only [Nat.zero_add, List.map_id']
  have : (List.range c.W).filterMap (fun x => if decide (k ≤ bOf c x) = true then
      ((fun p : Nat × Nat => (c.shards.getD p.1 [])[p.2]?) ∘ fun w => (w, k)) x else none)
      = (List.range c.W).filterMap (fun w => (c.shards.getD w [])[k]?) := by
    congr 1; funext w; exact h1 w
  rw [this, ← hW]
  conv => rhs; rw [← map_getD_range c.shards []]
  rw [List.filterMap_map]
  rfl

theorem itemsOf_laterRounds (c : Cfg) (n : Nat) (hW : c.shards.length = c.W) :
    itemsOf c (laterRounds c 0 n) = Ref.rounds c.shards n := by
  induction n with
  | zero => rfl
  | succ n ih =>
    rw [laterRounds_snoc, itemsOf_append, ih, Nat.zero_add, itemsOf_roundFrom c n hW]
    rfl

theorem round_maxLen {α : Type} (shards : List (List α)) : Ref.round shards (Ref.maxLen shards) = [] := by
  unfold Ref.round
  apply List.filterMap_eq_nil_iff.mpr
  intro sh hsh
  apply List.getElem?_eq_none
  induction shards with
  | nil => cases hsh
  | cons x r ih =>
    simp only [Ref.maxLen]
    rcases List.mem_cons.mp hsh with h | h
    · subst h; omega
    · have := ih h; omega

/-- The data items named by the whole live sequence are torch's DataLoader order. -/
theorem itemsOf_liveFrom_zero (c : Cfg) (hW : c.shards.length = c.W) :
    itemsOf c (liveFrom c 0 0) = Ref.interleave c.shards := by
  have h1 : liveFrom c 0 0 = laterRounds c 0 (maxB c + 1) := by
    unfold liveFrom; rw [laterRounds]; rfl
  rw [h1, itemsOf_laterRounds c _ hW]
  unfold Ref.interleave maxB
  rw [Ref.rounds, round_maxLen, List.append_nil]

end TDV.MP
