import TorchDataVerif.Proofs.MPUKill
/-!
# MPU — every reachable state of a run with resets is, up to the observation history, a state of one
epoch of a fresh iterator (or inside the `_reset` handshake)
-/
namespace TDV.MPU
open TDV.MP

/-- An observation history that ends where an epoch starts. -/
def Boundary (o : List Obs) : Prop := o = [] ∨ ∃ o', o = o' ++ [.resetDone]

/-- The observations of the current epoch: everything after the last `resetDone`. -/
def epochObs (l : List Obs) : List Obs :=
  (l.reverse.takeWhile (fun x => decide (x ≠ .resetDone))).reverse

theorem epochObs_append (o e : List Obs) (ho : Boundary o) (he : Obs.resetDone ∉ e) : epochObs (o ++ e) = e := by
  unfold epochObs
  rw [List.reverse_append, List.takeWhile_append_of_pos]
  · rcases ho with rfl | ⟨o', rfl⟩
    · simp
    · rw [List.reverse_append]
      simp [List.takeWhile_cons]
  · intro a ha
    have : a ∈ e := List.mem_reverse.mp ha
    simp only [ne_eq, decide_eq_true_eq]
    intro h; subst h; exact he this

def InEpoch (c : Cfg) (s : State) : Prop :=
  ∃ (o : List Obs) (b : Bool) (as : List Action) (s0 : State),
    Boundary o ∧ NoReset as ∧ run c (init c) as = some s0 ∧ s = rebase o b s0

def Epoch (c : Cfg) (s : State) : Prop := InEpoch c s ∨ ∃ k L, RInv c s k L

theorem rebase_nil (s : State) : rebase [] false s = s := rfl

theorem init_Epoch (c : Cfg) : Epoch c (init c) :=
  Or.inl ⟨[], false, [], init c, Or.inl rfl, trivial, rfl, (rebase_nil _).symm⟩

theorem RInv_rebase {c : Cfg} {s : State} {k : Nat} {L : List Nat} (o : List Obs) (b : Bool) (h : RInv c s k L) :
    RInv c (rebase o b s) k L :=
  ⟨h.ph, h.head, h.sh, h.wl, h.wsl, h.rw, h.nd, h.len, h.lw, h.pend, h.done⟩

theorem died_rebase (o : List Obs) (b : Bool) (s : State) (h : died s) : died (rebase o b s) := by
  unfold died at *
  exact List.mem_append_right _ h

theorem init_SN (c : Cfg) : SN c (init c) := by
  rw [init_eq_initW]; exact initW_SN c _ (replicate_fresh c)

theorem step_Epoch (c : Cfg) (hp : c.persistent = true) (s s' : State) (a : Action) (h : Epoch c s)
    (hst : step c s a = some s') (hd : ¬ died s') : Epoch c s' := by
  rcases h with ⟨o, b, as, s0, ho, hnr, hr, rfl⟩ | ⟨k, L, h⟩
  · rw [step_rebase] at hst
    cases hs0 : step c s0 a with
    | none => simp [hs0] at hst
    | some s0' =>
      simp only [hs0, Option.map_some, Option.some.injEq] at hst
      subst hst
      by_cases ha : a = .reset
      · subst ha
        right
        have hd0 : ¬ died s0 := fun hx => hd (died_rebase o b _ (died_step c s0 s0' _ hs0 hx))
        have hsn : SN c s0 := by
          rcases run_SN c hp as (init c) s0 hnr (init_SN c) hr with h1 | h1
          · exact h1
          · exact absurd h1 hd0
        exact ⟨c.W, List.range c.W, RInv_rebase o b (reset_RInv c s0 s0' hsn hs0).1⟩
      · left
        refine ⟨o, b, as ++ [a], s0', ho, (noReset_append _ _).mpr ⟨hnr, ha, trivial⟩, ?_, rfl⟩
        rw [run_append, hr]
        simp [run, hs0]
  · cases a with
    | work w =>
      exact Or.inr ⟨k, L, (RInv_work c s s' k L w h hst).1⟩
    | kill w =>
      exact Or.inr ⟨k, L, (RInv_kill c s s' k L w h hst).1⟩
    | pollTimeout =>
      rcases RInv_poll c s s' k L h hst with h1 | h1
      · exact Or.inr ⟨k, L, h1⟩
      · exact absurd h1 hd
    | next => simp [step, h.ph] at hst
    | stateDict => simp [step, h.ph] at hst
    | reset => simp [step, h.ph] at hst
    | recv =>
      rcases RInv_recv c s s' k L h hst with ⟨k', L', h1, _, _⟩ | ⟨hf, hs'⟩
      · exact Or.inr ⟨k', L', h1⟩
      · left
        obtain ⟨kills, hk, hr⟩ := kills_exist' c s.workers hf
        exact ⟨s.obs ++ [.resetDone], s.bad, kills, initW c s.workers, Or.inr ⟨_, rfl⟩, kills_noReset kills hk, hr, hs'⟩

theorem run_Epoch (c : Cfg) (hp : c.persistent = true) (as : List Action) (s s' : State) (h : Epoch c s)
    (hr : run c s as = some s') (hd : ¬ died s') : Epoch c s' := by
  induction as generalizing s with
  | nil => simp [run] at hr; subst hr; exact h
  | cons a as ih =>
    simp only [run] at hr
    cases hs : step c s a with
    | none => simp [hs] at hr
    | some s1 =>
      simp only [hs] at hr
      have hd1 : ¬ died s1 := fun hx => hd (died_run c as s1 s' hr hx)
      exact ih s1 (step_Epoch c hp s s1 a h hs hd1) hr

/-- Every state reachable by ANY action sequence (resets included) in which no worker death was reported. -/
theorem epoch_reach (c : Cfg) (hp : c.persistent = true) (as : List Action) (s : State)
    (hr : run c (init c) as = some s) (hd : ¬ died s) : Epoch c s :=
  run_Epoch c hp as (init c) s (init_Epoch c) hr hd

/-- Outside the handshake: the state is a one-epoch state of a fresh iterator behind the history `o`. -/
theorem epoch_bisim (c : Cfg) (hp : c.persistent = true) (as : List Action) (s : State)
    (hr : run c (init c) as = some s) (hd : ¬ died s) (hph : ∀ k, s.phase ≠ .resuming k) :
    ∃ (o : List Obs) (b : Bool) (as' : List Action) (s0 : State),
      Boundary o ∧ NoReset as' ∧ run c (init c) as' = some s0 ∧ s = rebase o b s0 ∧ ¬ died s0 ∧ SN c s0 ∧
      epochObs s.obs = s0.obs := by
  rcases epoch_reach c hp as s hr hd with ⟨o, b, as', s0, ho, hnr, hr0, rfl⟩ | ⟨k, L, h⟩
  · have hd0 : ¬ died s0 := fun hx => hd (died_rebase o b _ hx)
    have hsn : SN c s0 := by
      rcases run_SN c hp as' (init c) s0 hnr (init_SN c) hr0 with h1 | h1
      · exact h1
      · exact absurd h1 hd0
    exact ⟨o, b, as', s0, ho, hnr, hr0, rfl, hd0, hsn, epochObs_append o s0.obs ho hsn.nrd⟩
  · exact absurd h.ph (hph k)

end TDV.MPU
